from orchestrate.common import run_check

SPEC = {
    "pid": "C18",
    "coq_targets": ["Props/C18.vo", "Extract/ExC18.vo"],
    "bin": "c18",
    # --n = total number of next_timestamp calls made on real generators
    "sizes": {"quick": 2000000, "thorough": 100000000},
    "search_n": 6000000,
    "rule": ("T = one real MonotonicTimestampGenerator shared by 2..16 OS threads x 100..65000 calls (every thread "
             "count 2..16 once, then seeded sizes; paces: tight loop, random spins, yield_now, staggered bursts; "
             "with and without the clock-skew warning configuration), every value each thread was handed plus one "
             "call after the join, checked by the extracted property predicate prop_ok (= distinct over all threads "
             "and strictly increasing per thread, C18_prop_ok_iff) and final_ok; B = single thread with the harness' "
             "own SystemTime readings around every call, checked by the extracted bracket acceptor (the value must "
             "be exactly what the model's compute_next returns for some reading in the bracket); pace 4 of T = two "
             "phases separated by a barrier, every second-phase value must exceed every first-phase value "
             "(phase_ok, C18_call_order); E = end-to-end: a real Session (generator wrapped in a call counter / no "
             "generator) sends 30..900 concurrent QUERY/EXECUTE/BATCH requests to mocknode, 40% with an explicit "
             "statement timestamp (boundary values incl. i64::MIN/MAX), the timestamp field of every received frame "
             "is compared with the extracted choose_ts, generated ones must be pairwise distinct, and the number of "
             "next_timestamp calls must equal the number of frames without a statement timestamp; non-trivial = every "
             "case; distinct = distinct case lines (each carries the serial number of the run)"),
    "trusted_base": [
        "E cases: vh::mocknode (own CQL v4 frame reader) reports the timestamp field of QUERY/EXECUTE/BATCH frames",
        "SeqCst load / compare_exchange are modelled as single atomic steps of a sequentially consistent memory",
        "B cases: the harness reads SystemTime before/after each call and assumes the clock did not step backwards "
        "inside that window unless its own two readings show it",
    ],
    "assumptions": [
        "overflow guard of every C18 theorem: all clock readings (as i64) <= B and B + N*M < i64::MAX "
        "(C18_overflow_witness shows the model wraps to i64::MIN without it; in Rust: panic or wrap)",
        "the system clock is not injectable: the tie cannot choose clock values, it observes real ones "
        "(stalls/repeats are the common case; backward steps do not occur in the sandbox)",
    ],
}

def main(argv):
    return run_check(SPEC, argv)
