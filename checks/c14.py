from orchestrate.common import run_check


def _ops(line):
    case = line.split("|")[0].split()
    return [t for t in case if t[:2] in ("X/", "B/", "E/", "F/", "I/", "Y/", "Z/")]


def _plain_inits(lines):
    """Statements of mixed-cluster histories whose initial cell demonstrably came from a node WITHOUT the
    extension (the recorded column specs are the version-1 columns, which differ from version 0)."""
    n = 0
    for l in lines:
        if not l.startswith("H ") or "| J/" not in l:
            continue
        case, obs = l.split(" | ", 1)
        t = case.split()
        ns = int(t[3], 16)
        j = obs.split()[0][2:].split(";")
        for i, st in enumerate(t[4:4 + ns]):
            f = st.split("/")
            vers = f[3].split(",")
            v0 = vers[0].split("=")[1]
            v1 = (vers[1] if len(vers) > 1 else vers[0]).split("=")[1]
            if f[1] != "1" and v0 != v1 and i < len(j) and j[i] == v1:
                n += 1
    return n


def _extra(lines, verdicts):
    """Histogram of what the histories contained (from the recorded exchanges)."""
    h = {"histories": len(lines), "ext": 0, "generic_server": 0, "client_calls": 0, "events": 0,
         "unprepared_answers": 0, "reprepares": 0, "id_changed": 0, "new_metadata_id_rows": 0,
         "no_metadata_rows": 0, "batches": 0, "paged_calls": 0, "pager_calls": 0, "pager_pages": 0, "resends": 0, "concurrent_pairs": 0,
         "nodes": {}}
    for ln in lines:
        parts = ln.split("|")
        case = parts[0].split()
        obs = parts[1] if len(parts) > 1 else ""
        if case and case[0] == "P":
            h["prepare_cases"] = h.get("prepare_cases", 0) + 1
            h["prepare_second_round"] = h.get("prepare_second_round", 0) + (obs.count("@") > len(case[1]))
            h["prepare_id_mismatch"] = h.get("prepare_id_mismatch", 0) + obs.count("/e:mismatch")
            h["prepare_all_failed"] = h.get("prepare_all_failed", 0) + obs.count("/e:allfailed")
            continue
        if len(case) > 2:
            h["mixed_clusters"] = h.get("mixed_clusters", 0) + (len(case[1]) > 1)
            h["ext"] += case[1] == "1"
            h["nodes"][case[2]] = h["nodes"].get(case[2], 0) + 1
        ops = _ops(ln)
        h["generic_server"] += any(o.startswith("F/") for o in ops)
        h["client_calls"] += sum(o[0] in "XBI" for o in ops)
        h["pager_calls"] += sum(o[0] == "I" for o in ops)
        h["pager_pages"] += sum(int(t[3:], 16) for t in obs.split() if t.startswith("OI/"))
        h["batches"] += sum(o[0] == "B" for o in ops)
        h["concurrent_pairs"] += sum(o[0] == "Y" for o in ops)
        h["concurrent_distinct_stmt_blocks"] = h.get("concurrent_distinct_stmt_blocks", 0) + sum(o[0] == "Z" for o in ops)
        h["events"] += sum(o[0] == "E" for o in ops)
        h["paged_calls"] += sum(o[0] == "X" and o.split("/")[4] != "~" for o in ops)
        h["unprepared_answers"] += obs.count(">u:")
        h["reprepares"] += obs.count(">P:")
        h["id_changed"] += obs.count("/e:idchanged")
        h["new_metadata_id_rows"] += obs.count(">r:i")
        h["no_metadata_rows"] += obs.count(">r:n")
        h["resends"] += sum(1 for o in obs.split() if o.count(";x:") >= 1)
    h["mixed_initial_cell_from_plain_node"] = _plain_inits(lines)
    h["f17_uniform"] = sum(1 for v in verdicts if v and "class=stale-cached-metadata-without-ext ops" in v)
    h["f17_mixed_reprepare_ignored"] = sum(1 for v in verdicts if v and "shape=re-preparation-ignored" in v)
    h["f25_prepare_answer_discarded"] = sum(1 for v in verdicts if v and "class=foreign-cached-metadata-without-ext" in v)
    h["f17_f25_both_shapes_in_one_history"] = sum(1 for v in verdicts if v and "shape=both-first-hit-decides" in v)
    h["not_run_environment"] = sum(1 for v in verdicts if v and v.startswith("ok notrun="))
    return {"history_content": h}


def _post(lines, verdicts):
    """Not-run cap and floors on what the tie really exercised (a floor that is missed is a broken
    correspondence, not a violation)."""
    out = []
    n = len(lines)
    notrun = [(l, v) for l, v in zip(lines, verdicts) if v and v.startswith("ok notrun=")]
    if len(notrun) > max(3, n // 100):
        out.append(("diff", notrun[0][0], f"{len(notrun)} of {n} histories could not be run (environment): e.g. {notrun[0][1]}"))
    if n >= 500:
        obs = " ".join(l.split("|", 1)[1] if "|" in l else "" for l in lines)
        case = " ".join(l.split("|", 1)[0] for l in lines)
        floors = {
            "re-preparations": (obs.count(">P:"), n // 20),
            "id changes": (obs.count("/e:idchanged"), n // 100),
            "new-metadata-id answers": (obs.count(">r:i"), n // 100),
            "NO_METADATA answers": (obs.count(">r:n"), n // 4),
            "batch calls": (case.count(" B/"), n // 20),
            "pager calls": (case.count(" I/"), n // 100),
            "concurrent pairs": (case.count(" Y/"), n // 100),
            "blocks of concurrent executes of distinct evicted statements over one connection": (case.count(" Z/"), n // 40),
            "histories with such blocks, judged ok, with at least 2 UNPREPARED answers": (
                sum(1 for l, v in zip(lines, verdicts) if " Z/" in l.split("|")[0] and v and v.startswith(("ok", "viol class="))
                    and l.split("|")[-1].count(">u:") >= 2), n // 60),
            "Session::prepare cases": (sum(1 for l in lines if l.startswith("P ")), n // 40),
            "Session::prepare second rounds": (sum(1 for l in lines if l.startswith("P ") and l.split("|")[-1].count("@") > len(l.split()[1])), n // 400),
            "mixed-extension clusters": (sum(1 for l in lines if l.startswith("H ") and len(l.split()[1]) > 1), n // 40),
            "Session::prepare id mismatches": (obs.count("/e:mismatch"), n // 400),
            "Session::prepare all-failed": (obs.count("/e:allfailed"), n // 600),   # 2 fixed corpus cases + seeded ones
            "initial cells taken from a node without the extension (mixed clusters)": (_plain_inits(lines), n // 100),
            "F25 histories (answer at preparation discarded, mixed clusters)": (sum(1 for v in verdicts if v and "class=foreign-cached-metadata-without-ext" in v), n // 300),
            "Session::prepare cases judged": (sum(1 for l, v in zip(lines, verdicts) if l.startswith("P ") and v == "ok"), n // 60),
            "known-finding histories": (sum(1 for v in verdicts if v and "class=stale-cached-metadata-without-ext" in v), 1),
        }
        for what, (got, want) in floors.items():
            if got < want:
                out.append(("diff", lines[0], f"coverage floor missed: {got} {what}, expected at least {want}"))
    return out


SPEC = {
    "pid": "C14",
    "coq_targets": ["Props/C14.vo", "Extract/ExC14.vo"],
    "bin": "c14",
    "sizes": {"quick": 1200, "thorough": 30000},
    "search_n": 10000,
    "runner_timeout": 3000,
    "rule": ("one case = one seeded history against a fresh mock cluster (1-3 nodes, with/without the metadata-id "
             "extension, a fifth of the multi-node clusters MIXED (there the nodes without the extension are at schema version 1 when Session::prepare runs, and the column specs of the fresh statements are recorded, so that the driver knows which kind of node each initial cell came from), 1-3 prepared statements with 2-4 schema versions each) and a real Session: 4-15 ops (client calls, node events, forced answers, concurrency markers; about 5.6 client calls per history) out of "
             "execute / single-page execute / execute_iter (pager, 1-3 pages) / batch / pairs of CONCURRENT executes on two nodes / blocks of 2-4 CONCURRENT executes of distinct evicted statements over one connection with PREPARE answers delayed 50-150 ms (1/14 of the histories) (random node, use_cached_result_metadata, consistency, serial "
             "consistency, timestamp, page size, paging state) and node events {evicted, schema-changed, prepared, "
             "id-changing}; about a fifth of the histories additionally force arbitrary (ill-behaved) answers. "
             "1/12 of the cases are Session::prepare cases (kind P: nodes at different schema versions / id salts / with forced errors before the prepare; both rounds of prepare_nongeneric recorded). non-trivial = the history contains at least one client call; distinct = distinct case lines"),
    "nontrivial": lambda ln: ln.startswith("P ") or any(t[:2] in ("X/", "B/", "I/") for t in ln.split("|")[0].split()),
    "trusted_base": [
        "mocknode (scripted CQL v4 server, own codec) and the runner's handler implementing the specification node; "
        "on unforced, sequential histories (and on kind-P cases without a forced answer) the Coq specification node "
        "re-computes every answer of the handler and the acceptor rejects a history in which they differ; forced and "
        "concurrent histories are only compared with the generic system (any server)",
        "the runner's decoding of the caller's view (column specs, rows through ColumnIterator, typed Row decoding)",
        "node_answer (Coq) is the transcription of the CQL v4 EXECUTE/PREPARE/BATCH rules and of ScyllaDB's "
        "SCYLLA_USE_METADATA_ID extension (metadata id presented in EXECUTE, METADATA_CHANGED + new id in Rows)",
    ],
    "assumptions": [
        "messages are modelled after frame parsing (codec = C08/C09); load / compare / store of the shared cell inside "
        "handle_result_metadata_new_id and reprepare are one atomic step of the interleaving model",
        "C14_faithful premises: the metadata id determines the columns, ids are non-empty, distinct statements have "
        "distinct ids and texts; it is stated for calls outside the QUADRANT (no extension and "
        "use_cached_result_metadata on), which is larger than the two known-finding classes: F17 stale-cached-metadata-without-ext (quadrant AND a "
        "re-preparation of the node announced other columns than the rows were decoded with) and F25 "
        "foreign-cached-metadata-without-ext (quadrant AND, in a cluster whose nodes announce different columns, the "
        "node's own answer at preparation announced other columns and was discarded by Session::prepare); C14_faithful_refuted is the counterexample inside the class; for the "
        "rest of the quadrant only C14_announced_in_quadrant (nothing is stored, rows without metadata are decoded with "
        "the columns of preparation; all connections without the extension) is proved",
        "the class tags of F17 / F25 rest on theorems: C14_stale_check_tag_sound, C14_plain_node_check_sound, "
        "C14_plain_node_check_spec, C14_known_classb_sound, C14_known_class_prepb_sound; the mismatch predicate, the "
        "presented-id check and the caller's raw / typed row views rest on <-> theorems (round 4): C14_prop_exec_ok_iff, "
        "C14_present_ok_iff, C14_chunk_rows_spec, C14_decode_rows_spec, C14_typed_view_iff (42 theorems, 28 Examples)",
        "environment: only session / mock-cluster start failures, exec:* request errors (timeout, empty plan, pool), "
        "routing to an unexpected node and incomplete PREPARE rounds are counted not-run (cap max(3, 1%)); a runner "
        "panic, a malformed case, lost pager rows are errors / violations",
        "concurrent callers in the tie: pairs of calls on different nodes sharing one PreparedStatement (the acceptor searches the interleavings of their client-side steps, g_par), and blocks of 2-4 calls of DISTINCT statements over one connection (independent statements: each caller's exchanges, projected by statement id, are judged as one sequential operation)",
    ],
    "extra_coverage": _extra,
    "post": _post,
    "min_cases": {"quick": 1100, "thorough": 28000},
}


def main(argv):
    return run_check(SPEC, argv)
