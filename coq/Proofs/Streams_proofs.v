(* Proofs about Model/Streams.v (property C02).
   1. one 64-bit word: trailing_ones, setting and clearing one bit (N.testbit lemmas)
   2. the word list: allocate returns the least free id, free clears one bit
   3. the handler map against the list of ids the peer has not yet answered (InvH)
   4. the connection: inductive invariant over every schedule (Inv), and the C02 statements *)
From Coq Require Import Permutation FMapPositive.
From SV Require Import Base.Prelude Model.Streams.
Open Scope N_scope.

Lemma NoDup_app_snoc {A} (l : list A) x : NoDup l -> ~ In x l -> NoDup (l ++ [x]).
Proof.
  intros H Hn. apply (Permutation_NoDup (l := x :: l)).
  - apply Permutation_cons_append.
  - now constructor.
Qed.


(* ---------- bits of one word ---------- *)
Lemma tof_spec k : forall w,
  let off := trailing_ones_fuel k w in
  off <= N.of_nat k /\ (forall i, i < off -> N.testbit w i = true) /\
  (off < N.of_nat k -> N.testbit w off = false).
Proof.
  induction k as [|k IH]; intros w; cbn [trailing_ones_fuel].
  - cbv zeta. split; [lia|]. split; intros; lia.
  - destruct (N.odd w) eqn:Hodd.
    + specialize (IH (N.div2 w)). cbv zeta in IH |- *.
      destruct IH as (H1 & H2 & H3).
      set (o := trailing_ones_fuel k (N.div2 w)) in *.
      split; [lia|]. split.
      * intros i Hi. destruct (N.eq_dec i 0) as [->|Hn].
        -- now rewrite N.bit0_odd.
        -- replace i with (N.succ (N.pred i)) by lia. rewrite N.testbit_succ_r_div2 by lia. apply H2. lia.
      * intros Hlt. replace (1 + o) with (N.succ o) by lia. rewrite N.testbit_succ_r_div2 by lia. apply H3. lia.
    + cbv zeta. split; [lia|]. split; [intros; lia|]. intros _. now rewrite N.bit0_odd.
Qed.

Lemma lt64_bits_high w i : w < 2 ^ 64 -> 64 <= i -> N.testbit w i = false.
Proof.
  intros Hw Hi. rewrite <- (N.mod_small w (2 ^ 64)) by assumption.
  apply N.mod_pow2_bits_high. assumption.
Qed.

Lemma bits_high_lt64 w : (forall i, 64 <= i -> N.testbit w i = false) -> w < 2 ^ 64.
Proof.
  intros H. assert (E : w mod 2 ^ 64 = w).
  { apply N.bits_inj. intros i. destruct (N.lt_ge_cases i 64) as [Hl|Hg].
    - now rewrite N.mod_pow2_bits_low.
    - rewrite N.mod_pow2_bits_high by assumption. symmetry. now apply H. }
  rewrite <- E. apply N.mod_upper_bound. lia.
Qed.

Lemma word_full_bits i : N.testbit word_full i = (i <? 64).
Proof.
  unfold word_full. replace (2 ^ 64 - 1) with (N.ones 64) by (rewrite N.ones_equiv; lia).
  destruct (N.ltb_spec i 64).
  - now apply N.ones_spec_low.
  - now apply N.ones_spec_high.
Qed.

Lemma all_ones_full w : w < 2 ^ 64 -> (forall i, i < 64 -> N.testbit w i = true) -> w = word_full.
Proof.
  intros Hw H. apply N.bits_inj. intros i. rewrite word_full_bits.
  destruct (N.ltb_spec i 64).
  - now apply H.
  - now apply lt64_bits_high.
Qed.

Lemma trailing_ones_spec w : w < 2 ^ 64 -> w <> word_full ->
  trailing_ones w < 64 /\ N.testbit w (trailing_ones w) = false /\
  (forall i, i < trailing_ones w -> N.testbit w i = true).
Proof.
  intros Hw Hn. unfold trailing_ones.
  destruct (tof_spec 64 w) as (H1 & H2 & H3). cbv zeta in *.
  set (o := trailing_ones_fuel 64 w) in *.
  assert (o < 64).
  { destruct (N.eq_dec o 64) as [E|E]; [|lia].
    exfalso. apply Hn. apply all_ones_full; [assumption|]. intros i Hi. apply H2. lia. }
  split; [assumption|]. split; [apply H3; lia|assumption].
Qed.

Lemma setbit_bits w off i : N.testbit (N.lor w (N.shiftl 1 off)) i = N.testbit w i || (i =? off).
Proof.
  rewrite N.lor_spec, N.shiftl_1_l, N.pow2_bits_eqb. f_equal. apply N.eqb_sym.
Qed.

Lemma setbit_lt64 w off : w < 2 ^ 64 -> off < 64 -> N.lor w (N.shiftl 1 off) < 2 ^ 64.
Proof.
  intros Hw Ho. apply bits_high_lt64. intros i Hi. rewrite setbit_bits.
  rewrite (lt64_bits_high w i) by assumption. destruct (N.eqb_spec i off); [lia|reflexivity].
Qed.

Lemma clearbit_bits w off i : w < 2 ^ 64 -> off < 64 ->
  N.testbit (N.land w (N.lxor word_full (N.shiftl 1 off))) i = N.testbit w i && negb (i =? off).
Proof.
  intros Hw Ho. rewrite N.land_spec, N.lxor_spec, word_full_bits, N.shiftl_1_l, N.pow2_bits_eqb.
  rewrite (N.eqb_sym off i).
  destruct (N.ltb_spec i 64).
  - now destruct (i =? off).
  - rewrite (lt64_bits_high w i) by assumption. reflexivity.
Qed.

Lemma clearbit_lt64 w off : w < 2 ^ 64 -> off < 64 ->
  N.land w (N.lxor word_full (N.shiftl 1 off)) < 2 ^ 64.
Proof.
  intros Hw Ho. apply bits_high_lt64. intros i Hi. rewrite clearbit_bits by assumption.
  now rewrite (lt64_bits_high w i).
Qed.
(* ---------- the word list ---------- *)
Definition lt64 (w : N) : Prop := w < 2 ^ 64.

Lemma nth_update_nth_same k f l : (k < List.length l)%nat -> nth k (update_nth k f l) 0 = f (nth k l 0).
Proof.
  revert k; induction l as [|x r IH]; intros k H; cbn [List.length] in H; [lia|].
  destruct k as [|k]; cbn [update_nth nth]; [reflexivity|]. apply IH. lia.
Qed.
Lemma nth_update_nth_other k j f l : j <> k -> nth j (update_nth k f l) 0 = nth j l 0.
Proof.
  revert k j; induction l as [|x r IH]; intros k j H; [destruct k; reflexivity|].
  destruct k as [|k], j as [|j]; cbn [update_nth nth]; try reflexivity; try congruence.
  apply IH. congruence.
Qed.
Lemma update_nth_length k f l : List.length (update_nth k f l) = List.length l.
Proof. revert k; induction l as [|x r IH]; intros [|k]; cbn [update_nth List.length]; auto. Qed.
Lemma update_nth_Forall (P : N -> Prop) k f l :
  Forall P l -> (forall x, P x -> P (f x)) -> Forall P (update_nth k f l).
Proof.
  intros H Hf; revert k; induction H as [|x r Hx Hr IH]; intros [|k]; cbn [update_nth]; auto.
Qed.

Lemma alloc_from_spec ws : forall b sid ws', Forall lt64 ws ->
  alloc_from b ws = Some (sid, ws') ->
  exists k off, (k < List.length ws)%nat /\ off < 64 /\ sid = off + (b + N.of_nat k) * 64 /\
    (forall j, (j < k)%nat -> nth j ws 0 = word_full) /\
    N.testbit (nth k ws 0) off = false /\
    (forall i, i < off -> N.testbit (nth k ws 0) i = true) /\
    ws' = update_nth k (fun w => N.lor w (N.shiftl 1 off)) ws.
Proof.
  induction ws as [|w r IH]; intros b sid ws' Hf H; cbn [alloc_from] in H; [discriminate|].
  inversion Hf as [|? ? Hw Hr]; subst.
  destruct (N.eqb_spec w word_full) as [E|E]; cbn [negb] in H.
  - destruct (alloc_from (b + 1) r) as [[sid1 r1]|] eqn:Ha; [|discriminate].
    inversion H; subst; clear H.
    destruct (IH _ _ _ Hr Ha) as (k & off & Hk & Ho & Hs & Hfull & Hb & Hlow & Hr1).
    exists (S k), off. cbn [List.length nth update_nth]. repeat split; try assumption; try lia.
    + intros [|j] Hj; [reflexivity|]. apply Hfull. lia.
    + now rewrite Hr1.
  - inversion H; subst; clear H.
    destruct (trailing_ones_spec w Hw E) as (Ho & Hb & Hlow).
    exists O, (trailing_ones w). cbn [List.length nth update_nth].
    repeat split; try assumption; try lia.
Qed.

Lemma alloc_from_none ws : forall b, Forall lt64 ws ->
  (alloc_from b ws = None <-> Forall (fun w => w = word_full) ws).
Proof.
  induction ws as [|w r IH]; intros b Hf; cbn [alloc_from].
  - split; auto.
  - inversion Hf as [|? ? Hw Hr]; subst.
    destruct (N.eqb_spec w word_full) as [E|E]; cbn [negb].
    + specialize (IH (b + 1) Hr). destruct (alloc_from (b + 1) r) as [[? ?]|].
      * split; [discriminate|]. intros H; inversion H; subst. apply IH in H3. discriminate.
      * split; [|reflexivity]. intros _. constructor; [assumption|]. now apply IH.
    + split; [discriminate|]. intros H; inversion H; subst. contradiction.
Qed.

Lemma used_nth ws sid : used ws sid = N.testbit (nth (N.to_nat (sid / 64)) ws 0) (sid mod 64).
Proof. reflexivity. Qed.

Lemma nth_default_bits (ws : list N) k i : (List.length ws <= k)%nat -> N.testbit (nth k ws 0) i = false.
Proof. intros H. rewrite nth_overflow by assumption. apply N.bits_0. Qed.

Lemma Forall_nth_lt64 ws k : Forall lt64 ws -> lt64 (nth k ws 0).
Proof.
  intros H. destruct (Nat.lt_ge_cases k (List.length ws)) as [Hl|Hg].
  - rewrite Forall_forall in H. apply H. now apply nth_In.
  - rewrite nth_overflow by assumption. unfold lt64. lia.
Qed.

Theorem bitmap_alloc ws sid ws' : wf_words ws -> sid_alloc ws = Some (sid, ws') ->
  sid < nids /\ used ws sid = false /\ (forall j, j < sid -> used ws j = true) /\
  (forall j, used ws' j = (j =? sid) || used ws j) /\ wf_words ws'.
Proof.
  intros [Hlen Hf] H. unfold sid_alloc in H.
  destruct (alloc_from_spec ws 0 sid ws' Hf H) as (k & off & Hk & Ho & Hs & Hfull & Hb & Hlow & Hws').
  rewrite Hlen in Hk. unfold nwords in *.
  assert (Hdiv : sid / 64 = N.of_nat k) by lia.
  assert (Hmod : sid mod 64 = off) by lia.
  split; [unfold nids; lia|]. split; [|split; [|split]].
  - rewrite used_nth, Hdiv, Hmod, Nat2N.id. assumption.
  - intros j Hj. rewrite used_nth.
    destruct (N.lt_ge_cases (j / 64) (N.of_nat k)) as [Hl|Hg].
    + rewrite Hfull by lia. rewrite word_full_bits. apply N.ltb_lt. lia.
    + assert (j / 64 = N.of_nat k) as -> by lia. rewrite Nat2N.id. apply Hlow. lia.
  - intros j. rewrite !used_nth, Hws'.
    destruct (Nat.eq_dec (N.to_nat (j / 64)) k) as [E|E].
    + rewrite E, nth_update_nth_same by lia. rewrite setbit_bits, orb_comm. f_equal.
      destruct (N.eqb_spec (j mod 64) off), (N.eqb_spec j sid); try reflexivity; lia.
    + rewrite nth_update_nth_other by assumption.
      destruct (N.eqb_spec j sid); [lia|reflexivity].
  - split.
    + rewrite Hws', update_nth_length. assumption.
    + rewrite Hws'. apply update_nth_Forall; [assumption|].
      intros x Hx. now apply setbit_lt64.
Qed.

Theorem bitmap_full ws : wf_words ws ->
  (sid_alloc ws = None <-> forall j, j < nids -> used ws j = true).
Proof.
  intros [Hlen Hf]. unfold sid_alloc. rewrite (alloc_from_none ws 0 Hf). unfold nwords, nids in *.
  split.
  - intros H j Hj. rewrite used_nth. rewrite Forall_forall in H.
    rewrite (H (nth (N.to_nat (j / 64)) ws 0)) by (apply nth_In; lia).
    rewrite word_full_bits. apply N.ltb_lt. lia.
  - intros H. apply Forall_forall. intros w Hw.
    destruct (In_nth ws w 0 Hw) as (k & Hk & <-).
    apply all_ones_full; [now apply Forall_nth_lt64|].
    intros i Hi. specialize (H (i + N.of_nat k * 64)). rewrite used_nth in H.
    replace ((i + N.of_nat k * 64) / 64) with (N.of_nat k) in H by lia.
    replace ((i + N.of_nat k * 64) mod 64) with i in H by lia.
    rewrite Nat2N.id in H. apply H. lia.
Qed.

Theorem bitmap_free ws sid : wf_words ws -> sid < nids ->
  (forall j, used (sid_free ws sid) j = negb (j =? sid) && used ws j) /\
  wf_words (sid_free ws sid).
Proof.
  intros [Hlen Hf] Hs. unfold nwords, nids, sid_free in *. split.
  - intros j. rewrite !used_nth.
    destruct (Nat.eq_dec (N.to_nat (j / 64)) (N.to_nat (sid / 64))) as [E|E].
    + rewrite E, nth_update_nth_same by lia.
      rewrite clearbit_bits by (try apply Forall_nth_lt64; try assumption; lia).
      rewrite andb_comm. f_equal.
      destruct (N.eqb_spec (j mod 64) (sid mod 64)), (N.eqb_spec j sid); try reflexivity; lia.
    + rewrite nth_update_nth_other by assumption.
      destruct (N.eqb_spec j sid); [subst; congruence|reflexivity].
  - split; [now rewrite update_nth_length|].
    apply update_nth_Forall; [assumption|]. intros x Hx. apply clearbit_lt64; [assumption|lia].
Qed.

Lemma wf_sid_new : wf_words sid_new.
Proof. split; [reflexivity|]. apply Forall_forall. intros w Hw. apply repeat_spec in Hw. subst. lia. Qed.
Lemma used_sid_new j : used sid_new j = false.
Proof.
  rewrite used_nth. unfold sid_new.
  destruct (Nat.lt_ge_cases (N.to_nat (j / 64)) nwords).
  - rewrite nth_repeat. apply N.bits_0.
  - rewrite nth_overflow by (now rewrite repeat_length). apply N.bits_0.
Qed.
(* ---------- association maps and sets ---------- *)
Section AssocLemmas.
  Context {V : Type}.
  Implicit Types m : list (N * V).
  Lemma aget_arem_same k m : aget k (arem k m) = None.
  Proof.
    induction m as [|[k' v] r IH]; cbn [arem aget]; [reflexivity|].
    destruct (N.eqb_spec k' k); [assumption|]. cbn [aget]. destruct (N.eqb_spec k' k); [contradiction|assumption].
  Qed.
  Lemma aget_arem_other k k' m : k <> k' -> aget k (arem k' m) = aget k m.
  Proof.
    intros H. induction m as [|[k2 v] r IH]; cbn [arem aget]; [reflexivity|].
    destruct (N.eqb_spec k2 k').
    - subst. destruct (N.eqb_spec k' k); [congruence|assumption].
    - cbn [aget]. now rewrite IH.
  Qed.
  Lemma aget_aput_same k v m : aget k (aput k v m) = Some v.
  Proof. unfold aput; cbn [aget]. now rewrite N.eqb_refl. Qed.
  Lemma aget_aput_other k k' v m : k <> k' -> aget k (aput k' v m) = aget k m.
  Proof.
    intros H. unfold aput; cbn [aget]. destruct (N.eqb_spec k' k); [congruence|].
    now apply aget_arem_other.
  Qed.
  Lemma aget_In k v m : aget k m = Some v -> In (k, v) m.
  Proof.
    induction m as [|[k' v'] r IH]; cbn [aget]; [discriminate|].
    destruct (N.eqb_spec k' k); intros H.
    - inversion H; subst. now left.
    - right. auto.
  Qed.
  Lemma aget_None_notin k m : aget k m = None -> ~ In k (map fst m).
  Proof.
    induction m as [|[k' v'] r IH]; cbn [aget map fst In]; [tauto|].
    destruct (N.eqb_spec k' k); [discriminate|]. intros H [E|E]; [congruence|]. now apply IH.
  Qed.
  Lemma In_aget_nodup k v m : NoDup (map fst m) -> In (k, v) m -> aget k m = Some v.
  Proof.
    induction m as [|[k' v'] r IH]; cbn [aget map fst In]; [tauto|].
    intros Hnd [E|E]; inversion Hnd; subst.
    - inversion E; subst. now rewrite N.eqb_refl.
    - destruct (N.eqb_spec k' k).
      + subst. exfalso. apply H1. change k with (fst (k, v)). now apply in_map.
      + auto.
  Qed.
End AssocLemmas.

Section MapLemmas.
  Context {V : Type}.
  Implicit Types m : nmap V.
  Lemma mkey_inj k k' : mkey k = mkey k' -> k = k'.
  Proof. unfold mkey. intros H. apply (f_equal Pos.pred_N) in H. now rewrite !N.pos_pred_succ in H. Qed.
  Lemma mget_mempty k : mget k (@mempty V) = None.
  Proof. apply PositiveMap.gempty. Qed.
  Lemma mget_mrem_same k m : mget k (mrem k m) = None.
  Proof. apply PositiveMap.grs. Qed.
  Lemma mget_mrem_other k k' m : k <> k' -> mget k (mrem k' m) = mget k m.
  Proof. intros H. apply PositiveMap.gro. intros E. now apply H, mkey_inj. Qed.
  Lemma mget_mput_same k v m : mget k (mput k v m) = Some v.
  Proof. apply PositiveMap.gss. Qed.
  Lemma mget_mput_other k k' v m : k <> k' -> mget k (mput k' v m) = mget k m.
  Proof. intros H. apply PositiveMap.gso. intros E. now apply H, mkey_inj. Qed.
End MapLemmas.

Lemma smem_In x l : smem x l = true <-> In x l.
Proof.
  unfold smem. rewrite existsb_exists. split.
  - intros (y & Hy & E). apply N.eqb_eq in E. now subst.
  - intros H. exists x. split; [assumption|apply N.eqb_refl].
Qed.
Lemma smem_sadd x y l : smem x (sadd y l) = (x =? y) || smem x l.
Proof.
  unfold sadd. destruct (smem y l) eqn:E.
  - destruct (N.eqb_spec x y); [subst; now rewrite E|reflexivity].
  - reflexivity.
Qed.
Lemma smem_srem x y l : smem x (srem y l) = negb (x =? y) && smem x l.
Proof.
  unfold smem, srem. induction l as [|z r IH]; cbn [filter existsb].
  - now rewrite andb_false_r.
  - destruct (N.eqb_spec z y); cbn [negb existsb].
    + subst. rewrite IH. destruct (N.eqb_spec x y); reflexivity.
    + rewrite IH. destruct (N.eqb_spec x z), (N.eqb_spec x y); subst; try reflexivity; congruence.
Qed.

(* ---------- the handler map against the set of ids the peer still has to answer ---------- *)
Definition sids (p : list (N * N)) : list N := map fst p.
Definition rids (p : list (N * N)) : list N := map snd p.

Record InvH (m : hmap) (p : list (N * N)) : Prop := {
  i_wf : wf_words (hm_words m);
  i_used : forall sid, used (hm_words m) sid = true <-> In sid (sids p);
  i_sids : NoDup (sids p);
  i_h : forall sid rid tok, mget sid (hm_handlers m) = Some (rid, tok) ->
        tok = rid /\ In (sid, rid) p /\ mget rid (hm_r2s m) = Some sid /\
        smem sid (hm_orphans m) = false;
  i_r : forall rid sid, mget rid (hm_r2s m) = Some sid ->
        mget sid (hm_handlers m) = Some (rid, rid);
  i_o : forall sid, smem sid (hm_orphans m) = true -> In sid (sids p);
  i_p : forall sid rid, In (sid, rid) p ->
        mget sid (hm_handlers m) = Some (rid, rid) \/ smem sid (hm_orphans m) = true
}.

Lemma In_sids sid rid p : In (sid, rid) p -> In sid (sids p).
Proof. intros H. change sid with (fst (sid, rid)). now apply in_map. Qed.
Lemma In_rids sid rid p : In (sid, rid) p -> In rid (rids p).
Proof. intros H. change rid with (snd (sid, rid)). now apply in_map. Qed.

Lemma NoDup_sids_fun p sid r1 r2 : NoDup (sids p) -> In (sid, r1) p -> In (sid, r2) p -> r1 = r2.
Proof.
  induction p as [|[s r] t IH]; cbn [sids map fst In]; [tauto|].
  intros Hnd H1 H2. inversion Hnd; subst.
  destruct H1 as [E1|E1], H2 as [E2|E2]; try congruence.
  - inversion E1; subst. exfalso. apply H3. eapply In_sids; eauto.
  - inversion E2; subst. exfalso. apply H3. eapply In_sids; eauto.
  - apply IH; assumption.
Qed.

Lemma used_lt ws sid : wf_words ws -> used ws sid = true -> sid < nids.
Proof.
  intros [Hlen _] H. destruct (N.lt_ge_cases sid nids) as [|Hg]; [assumption|].
  rewrite used_nth, nth_overflow in H. - now rewrite N.bits_0 in H.
  - rewrite Hlen. unfold nwords, nids in *. lia.
Qed.

Lemma InvH_perm m p p' : Permutation p p' -> InvH m p -> InvH m p'.
Proof.
  intros Hp [A B C D E F G].
  assert (Hs : Permutation (sids p) (sids p')) by now apply Permutation_map.
  constructor; try assumption.
  - intros sid. rewrite B. split; apply Permutation_in; [assumption|now apply Permutation_sym].
  - eapply Permutation_NoDup; eassumption.
  - intros sid rid tok H. destruct (D _ _ _ H) as (H1 & H2 & H3 & H4).
    repeat split; try assumption. eapply Permutation_in; eassumption.
  - intros sid H. eapply Permutation_in; [eassumption|]. now apply F.
  - intros sid rid H. apply G. eapply Permutation_in; [apply Permutation_sym|]; eassumption.
Qed.

Lemma InvH_new : InvH hm_new [].
Proof.
  constructor; cbn [hm_new hm_words hm_handlers hm_r2s hm_orphans sids map].
  - apply wf_sid_new.
  - intros sid. rewrite used_sid_new. split; [discriminate|intros []].
  - constructor.
  - intros sid rid tok H. now rewrite mget_mempty in H.
  - intros rid sid H. now rewrite mget_mempty in H.
  - discriminate.
  - intros sid rid [].
Qed.

Lemma InvH_alloc m p rid : InvH m p -> ~ In rid (rids p) ->
  (exists sid m', hm_allocate m rid rid = (m', AllocOk sid) /\
     ~ In sid (sids p) /\ sid < nids /\ (forall j, j < sid -> In j (sids p)) /\
     InvH m' ((sid, rid) :: p) /\ hm_orphans m' = hm_orphans m) \/
  (hm_allocate m rid rid = (m, AllocFull) /\ forall j, j < nids -> In j (sids p)).
Proof.
  intros [A B C D E F G] Hfresh. unfold hm_allocate.
  destruct (sid_alloc (hm_words m)) as [[sid ws']|] eqn:Ha.
  - left. exists sid. eexists.
    destruct (bitmap_alloc _ _ _ A Ha) as (Hlt & Hfree & Hleast & Hset & Hwf').
    assert (Hnin : ~ In sid (sids p)).
    { intros Hin. apply B in Hin. congruence. }
    assert (Hnone : mget sid (hm_handlers m) = None).
    { destruct (mget sid (hm_handlers m)) as [[r t]|] eqn:Hg; [|reflexivity].
      exfalso. apply Hnin. destruct (D _ _ _ Hg) as (_ & Hin & _). eapply In_sids; eauto. }
    rewrite Hnone. split; [reflexivity|]. split; [assumption|]. split; [assumption|].
    split. { intros j Hj. apply B. now apply Hleast. }
    split; [|reflexivity].
    constructor; cbn [hm_words hm_handlers hm_r2s hm_orphans sids map fst].
    + assumption.
    + intros j. rewrite Hset. cbn [In]. rewrite <- B.
      destruct (N.eqb_spec j sid); cbn [orb]; split; intros H; auto.
      destruct H as [H|H]; [congruence|assumption].
    + constructor; assumption.
    + intros s r t H. destruct (N.eq_dec s sid) as [->|Hne].
      * rewrite mget_mput_same in H. inversion H; subst. repeat split.
        -- now left.
        -- apply mget_mput_same.
        -- destruct (smem sid (hm_orphans m)) eqn:Ho; [|reflexivity]. exfalso. now apply Hnin, F.
      * rewrite mget_mput_other in H by assumption.
        destruct (D _ _ _ H) as (H1 & H2 & H3 & H4). repeat split; try assumption.
        -- now right.
        -- rewrite mget_mput_other; [assumption|]. intros ->. apply Hfresh. eapply In_rids; eauto.
    + intros r s H. destruct (N.eq_dec r rid) as [->|Hne].
      * rewrite mget_mput_same in H. inversion H; subst. apply mget_mput_same.
      * rewrite mget_mput_other in H by assumption. specialize (E _ _ H).
        rewrite mget_mput_other; [assumption|]. intros ->. congruence.
    + intros s H. right. now apply F.
    + intros s r [H|H].
      * inversion H; subst. left. apply mget_mput_same.
      * assert (s <> sid). { intros ->. apply Hnin. eapply In_sids; eauto. }
        destruct (G _ _ H) as [H1|H1]; [left|right; assumption].
        now rewrite mget_mput_other.
  - right. split; [reflexivity|]. intros j Hj. apply B.
    now apply (proj1 (bitmap_full _ A) Ha).
Qed.

Lemma InvH_orphan m p rid : InvH m p -> InvH (hm_orphan m rid) p /\
  (forall sid, smem sid (hm_orphans (hm_orphan m rid)) = true ->
               smem sid (hm_orphans m) = true \/ In (sid, rid) p) /\
  (mget rid (hm_r2s m) = None -> hm_orphan m rid = m).
Proof.
  intros Hinv. pose proof Hinv as [A B C D E F G]. unfold hm_orphan.
  destruct (mget rid (hm_r2s m)) as [sid|] eqn:Hr.
  2:{ split; [assumption|]. split; [now left|reflexivity]. }
  pose proof (E _ _ Hr) as Hh. destruct (D _ _ _ Hh) as (_ & Hin & _ & Hno).
  split; [|split; [|discriminate]].
  - constructor; cbn [hm_words hm_handlers hm_r2s hm_orphans]; try assumption.
    + intros s r t H. assert (s <> sid) by (intros ->; now rewrite mget_mrem_same in H).
      rewrite mget_mrem_other in H by assumption.
      destruct (D _ _ _ H) as (H1 & H2 & H3 & H4). repeat split; try assumption.
      * rewrite mget_mrem_other; [assumption|]. intros ->. congruence.
      * rewrite smem_sadd, H4. destruct (N.eqb_spec s sid); [contradiction|reflexivity].
    + intros r s H. assert (r <> rid) by (intros ->; now rewrite mget_mrem_same in H).
      rewrite mget_mrem_other in H by assumption. specialize (E _ _ H).
      rewrite mget_mrem_other; [assumption|]. intros ->. congruence.
    + intros s H. rewrite smem_sadd in H. destruct (N.eqb_spec s sid).
      * subst. eapply In_sids; eauto.
      * now apply F.
    + intros s r H. destruct (N.eq_dec s sid) as [->|Hne].
      * right. rewrite smem_sadd, N.eqb_refl. reflexivity.
      * destruct (G _ _ H) as [H1|H1].
        -- left. now rewrite mget_mrem_other.
        -- right. rewrite smem_sadd, H1. apply orb_true_r.
  - cbn [hm_orphans]. intros s H. rewrite smem_sadd in H. destruct (N.eqb_spec s sid).
    + subst. now right.
    + now left.
Qed.

Lemma InvH_lookup m sid rid p : InvH m ((sid, rid) :: p) ->
  InvH (fst (hm_lookup m sid)) p /\
  ((smem sid (hm_orphans m) = true /\ snd (hm_lookup m sid) = LOrphaned) \/
   (smem sid (hm_orphans m) = false /\ mget sid (hm_handlers m) = Some (rid, rid) /\
    snd (hm_lookup m sid) = LHandler rid rid)) /\
  (forall s0, smem s0 (hm_orphans (fst (hm_lookup m sid))) = true ->
              smem s0 (hm_orphans m) = true).
Proof.
  intros [A B C D E F G]. cbn [sids map fst] in *.
  inversion C as [|? ? Hnin Hnd]; subst.
  assert (Hlt : sid < nids). { apply (used_lt _ _ A). apply B. now left. }
  destruct (bitmap_free _ _ A Hlt) as [Hfree Hwf'].
  assert (Hused' : forall j, used (sid_free (hm_words m) sid) j = true <-> In j (sids p)).
  { intros j. rewrite Hfree. specialize (B j). cbn [In] in B.
    destruct (N.eqb_spec j sid); cbn [negb andb].
    - subst. split; [discriminate|contradiction].
    - rewrite B. split; [intros [?|?]; [congruence|assumption]|auto]. }
  unfold hm_lookup. destruct (smem sid (hm_orphans m)) eqn:Ho.
  - cbn [fst snd]. split; [|split; [left; split; reflexivity|]].
    2:{ cbn [hm_orphans]. intros s0 H. rewrite smem_srem in H. now apply andb_true_iff in H as [_ H]. }
    constructor; cbn [hm_words hm_handlers hm_r2s hm_orphans]; try assumption.
    + intros s r t H. destruct (D _ _ _ H) as (H1 & H2 & H3 & H4). repeat split; try assumption.
      * destruct H2 as [H2|H2]; [|assumption]. inversion H2; subst. congruence.
      * rewrite smem_srem, H4. apply andb_false_r.
    + intros s H. rewrite smem_srem in H. apply andb_true_iff in H as [H1 H2].
      destruct (F _ H2) as [->|]; [|assumption]. now rewrite N.eqb_refl in H1.
    + intros s r H. assert (s <> sid) by (intros ->; apply Hnin; eapply In_sids; eauto).
      destruct (G s r (or_intror H)) as [H1|H1]; [now left|right].
      rewrite smem_srem, H1. destruct (N.eqb_spec s sid); [contradiction|reflexivity].
  - destruct (G sid rid (or_introl eq_refl)) as [Hh|Hh]; [|congruence].
    rewrite Hh. cbn [fst snd]. split; [|split; [right; repeat split; reflexivity|]].
    2:{ cbn [hm_orphans]. auto. }
    destruct (D _ _ _ Hh) as (_ & _ & Hr & _).
    constructor; cbn [hm_words hm_handlers hm_r2s hm_orphans]; try assumption.
    + intros s r t H. assert (s <> sid) by (intros ->; now rewrite mget_mrem_same in H).
      rewrite mget_mrem_other in H by assumption.
      destruct (D _ _ _ H) as (H1 & H2 & H3 & H4). repeat split; try assumption.
      * destruct H2 as [H2|H2]; [|assumption]. inversion H2; subst. congruence.
      * rewrite mget_mrem_other; [assumption|]. intros ->. congruence.
    + intros r s H. assert (r <> rid) by (intros ->; now rewrite mget_mrem_same in H).
      rewrite mget_mrem_other in H by assumption. specialize (E _ _ H).
      rewrite mget_mrem_other; [assumption|]. intros ->. congruence.
    + intros s H. destruct (F _ H) as [->|]; [congruence|assumption].
    + intros s r H. assert (s <> sid) by (intros ->; apply Hnin; eapply In_sids; eauto).
      destruct (G s r (or_intror H)) as [H1|H1]; [left|now right].
      now rewrite mget_mrem_other.
Qed.
(* ---------- the connection ---------- *)
Record InvC (m : hmap) (p : list (N * N)) (q : list N) (nx : N) (nt : list N)
            (mb cp : list (N * outcome)) (cc : list N) : Prop := {
  i_rq : NoDup (rids p ++ q);
  i_lt : forall rid, In rid (rids p ++ q ++ map fst mb ++ nt) -> rid < nx;
  i_mbnd : NoDup (map fst mb);
  i_mbfresh : forall rid, In rid (map fst mb) -> ~ In rid (rids p ++ q);
  i_mbresp : forall rid ans, In (rid, Resp ans) mb -> ans = rid;
  i_cp : forall rid o, In (rid, o) cp -> In (rid, o) mb \/ o = ErrBroken;
  i_nt : forall rid, In rid nt -> In rid cc;
  i_oc : forall sid rid, In (sid, rid) p -> smem sid (hm_orphans m) = true -> In rid cc
}.

Definition Inv (s : conn) : Prop :=
  InvH (c_hm s) (pending s) /\
  InvC (c_hm s) (pending s) (c_queue s) (c_next_rid s) (c_notices s) (c_mailbox s)
       (c_completed s) (c_cancelled s).

Lemma InvC_perm m p p' q nx nt mb cp cc : Permutation p p' ->
  InvC m p q nx nt mb cp cc -> InvC m p' q nx nt mb cp cc.
Proof.
  intros Hp [A B C D E F G H].
  assert (Hr : Permutation (rids p) (rids p')) by now apply Permutation_map.
  assert (Hrq : Permutation (rids p ++ q) (rids p' ++ q)) by now apply Permutation_app_tail.
  constructor; try assumption.
  - eapply Permutation_NoDup; eassumption.
  - intros rid Hin. apply B. rewrite in_app_iff in *. destruct Hin as [Hin|Hin]; [left|now right].
    eapply Permutation_in; [apply Permutation_sym|]; eassumption.
  - intros rid Hin Hc. apply (D _ Hin). eapply Permutation_in; [apply Permutation_sym|]; eassumption.
  - intros sid rid Hin. apply H. eapply Permutation_in; [apply Permutation_sym|]; eassumption.
Qed.

Lemma Inv_init : Inv conn_init.
Proof.
  split; [apply InvH_new|]. constructor; cbn; try tauto; try constructor.
  all: intros; try discriminate; tauto.
Qed.

Lemma extract_perm sid l rid l' : extract sid l = Some (rid, l') -> Permutation l ((sid, rid) :: l').
Proof.
  revert rid l'; induction l as [|[s r] t IH]; intros rid l' H; cbn [extract] in H; [discriminate|].
  destruct (N.eqb_spec s sid).
  - inversion H; subst. reflexivity.
  - destruct (extract sid t) as [[r' t']|]; [|discriminate]. inversion H; subst.
    rewrite (IH _ _ eq_refl). apply perm_swap.
Qed.
Lemma extract_In sid l rid l' : extract sid l = Some (rid, l') -> In (sid, rid) l.
Proof. intros H. eapply Permutation_in; [apply Permutation_sym, (extract_perm _ _ _ _ H)|now left]. Qed.

Ltac inv_some H := inversion H; subst; clear H.

Lemma step_Submit s s' : Inv s -> step s Submit = Some s' -> Inv s'.
Proof.
  intros [HH [A B C D E F G I]] H. cbn [step] in H.
  destruct (c_broken s); [discriminate|]. inv_some H.
  split; [exact HH|]. unfold pending in *. cbn [c_hm c_queue c_next_rid c_notices c_mailbox c_completed c_cancelled c_writing c_owed c_inflight].
  set (p := c_writing s ++ c_owed s ++ c_inflight s) in *.
  assert (Hfresh : forall r, In r (rids p ++ c_queue s ++ map fst (c_mailbox s) ++ c_notices s) -> r <> c_next_rid s).
  { intros r Hr. apply B in Hr. lia. }
  constructor; try assumption.
  - rewrite app_assoc. apply NoDup_app_snoc; [assumption|].
    intros Hin. apply (Hfresh (c_next_rid s)); [|reflexivity].
    rewrite app_assoc. apply in_or_app. now left.
  - intros rid Hin. rewrite !in_app_iff in Hin. cbn [In] in Hin.
    assert (In rid (rids p ++ c_queue s ++ map fst (c_mailbox s) ++ c_notices s) \/ rid = c_next_rid s) as [Hx|Hx].
    { rewrite !in_app_iff. intuition. }
    + apply B in Hx. lia.
    + lia.
  - intros rid Hin Hc. rewrite app_assoc in Hc. apply in_app_or in Hc as [Hc|[Hc|[]]].
    + now apply (D _ Hin).
    + subst. apply (Hfresh (c_next_rid s)); [|reflexivity]. rewrite !in_app_iff. auto.
Qed.
Ltac conn_simpl := cbn [c_hm c_queue c_next_rid c_notices c_mailbox c_completed c_cancelled
                        c_writing c_owed c_inflight c_broken] in *.

Lemma step_SubmitDropped s s' : Inv s -> step s SubmitDropped = Some s' -> Inv s'.
Proof.
  intros [HH [A B C D E F G I]] H. cbn [step] in H.
  destruct (c_broken s); [discriminate|]. inv_some H.
  split; [exact HH|]. unfold pending in *. conn_simpl.
  set (p := c_writing s ++ c_owed s ++ c_inflight s) in *.
  constructor; try assumption.
  - intros rid Hin. rewrite !in_app_iff in Hin. cbn [In] in Hin.
    assert (In rid (rids p ++ c_queue s ++ map fst (c_mailbox s) ++ c_notices s) \/ rid = c_next_rid s) as [Hx|Hx].
    { rewrite !in_app_iff. intuition. }
    + apply B in Hx. lia.
    + lia.
  - intros rid Hin. apply in_app_or in Hin as [Hin|[Hin|[]]]; [right; now apply G|now left].
  - intros sid rid H1 H2. right. eapply I; eassumption.
Qed.

Lemma step_Cancel s s' rid : Inv s -> step s (Cancel rid) = Some s' -> Inv s'.
Proof.
  intros [HH [A B C D E F G I]] H. cbn [step] in H.
  destruct (is_waiting s rid) eqn:Hw; [|discriminate]. inv_some H.
  split; [exact HH|]. unfold pending in *. conn_simpl.
  set (p := c_writing s ++ c_owed s ++ c_inflight s) in *.
  constructor; try assumption.
  - intros r Hin. rewrite !in_app_iff in Hin. cbn [In] in Hin.
    assert (In r (rids p ++ c_queue s ++ map fst (c_mailbox s) ++ c_notices s) \/ r = rid) as [Hx|Hx].
    { rewrite !in_app_iff. intuition. }
    + now apply B.
    + subst. unfold is_waiting in Hw. apply andb_true_iff in Hw as [Hw _].
      apply andb_true_iff in Hw as [Hw _]. now apply N.ltb_lt in Hw.
  - intros r Hin. apply in_app_or in Hin as [Hin|[Hin|[]]]; [right; now apply G|now left].
  - intros sid r H1 H2. right. eapply I; eassumption.
Qed.

Lemma step_Complete s s' rid : Inv s -> step s (Complete rid) = Some s' -> Inv s'.
Proof.
  intros [HH [A B C D E F G I]] H. cbn [step] in H.
  destruct (is_waiting s rid) eqn:Hw; [|discriminate].
  destruct (aget rid (c_mailbox s)) as [o|] eqn:Hm.
  - inv_some H. split; [exact HH|]. unfold pending in *. conn_simpl.
    constructor; try assumption.
    intros r o' [Hin|Hin]; [|now apply F]. inv_some Hin. left. now apply aget_In.
  - destruct (c_broken s); [|discriminate]. inv_some H.
    split; [exact HH|]. unfold pending in *. conn_simpl.
    constructor; try assumption.
    intros r o' [Hin|Hin]; [|now apply F]. inv_some Hin. now right.
Qed.

Lemma step_Break s s' : Inv s -> step s Break = Some s' -> Inv s'.
Proof.
  intros Hi H. cbn [step] in H. destruct (c_broken s); [discriminate|]. inv_some H. exact Hi.
Qed.

Lemma step_PeerRecv s s' : Inv s -> step s PeerRecv = Some s' -> Inv s'.
Proof.
  intros [HH HC] H. cbn [step] in H. destruct (c_broken s); [discriminate|].
  destruct (c_writing s) as [|e w] eqn:Hw; [discriminate|]. inv_some H.
  unfold Inv, pending in *. conn_simpl. rewrite Hw in *.
  assert (Hp : Permutation ((e :: w) ++ c_owed s ++ c_inflight s) (w ++ (c_owed s ++ [e]) ++ c_inflight s)).
  { cbn [app]. rewrite <- !app_assoc. cbn [app]. rewrite (app_assoc w). rewrite (app_assoc w).
    apply Permutation_middle. }
  split; [eapply InvH_perm|eapply InvC_perm]; eassumption.
Qed.

Lemma step_PeerAnswer s s' sid : Inv s -> step s (PeerAnswer sid) = Some s' -> Inv s'.
Proof.
  intros [HH HC] H. cbn [step] in H. destruct (c_broken s); [discriminate|].
  destruct (extract sid (c_owed s)) as [[rid owed']|] eqn:He; [|discriminate]. inv_some H.
  unfold Inv, pending in *. conn_simpl.
  assert (Hp : Permutation (c_writing s ++ c_owed s ++ c_inflight s)
                           (c_writing s ++ owed' ++ c_inflight s ++ [(sid, rid)])).
  { apply Permutation_app_head. rewrite (extract_perm _ _ _ _ He). cbn [app].
    rewrite app_assoc. apply Permutation_cons_append. }
  split; [eapply InvH_perm|eapply InvC_perm]; eassumption.
Qed.

Lemma step_OrphanerTake s s' : Inv s -> step s OrphanerTake = Some s' -> Inv s'.
Proof.
  intros [HH [A B C D E F G I]] H. cbn [step] in H. destruct (c_broken s); [discriminate|].
  destruct (c_notices s) as [|rid ns] eqn:Hn; [discriminate|]. inv_some H.
  unfold Inv, pending in *. conn_simpl.
  set (p := c_writing s ++ c_owed s ++ c_inflight s) in *.
  destruct (InvH_orphan _ _ rid HH) as (HH' & Hnew & _).
  split; [assumption|]. constructor; try assumption.
  - intros r Hin. apply B. rewrite !in_app_iff in *. cbn [In]. intuition.
  - intros r Hin. apply G. now right.
  - intros sid r H1 H2. destruct (Hnew _ H2) as [H3|H3].
    + eapply I; eassumption.
    + assert (r = rid) as -> by (eapply NoDup_sids_fun; [apply (i_sids _ _ HH)| |]; eassumption).
      apply G. now left.
Qed.

Lemma rids_app p1 p2 : rids (p1 ++ p2) = rids p1 ++ rids p2.
Proof. apply map_app. Qed.
Lemma sids_app p1 p2 : sids (p1 ++ p2) = sids p1 ++ sids p2.
Proof. apply map_app. Qed.

Lemma step_WriterTake s s' : Inv s -> step s WriterTake = Some s' -> Inv s'.
Proof.
  intros [HH [A B C D E F G I]] H. cbn [step] in H. destruct (c_broken s); [discriminate|].
  destruct (c_queue s) as [|rid q] eqn:Hq; [discriminate|].
  unfold Inv, pending in *. conn_simpl.
  set (p := c_writing s ++ c_owed s ++ c_inflight s) in *.
  assert (Hfresh : ~ In rid (rids p)).
  { intros Hin. apply NoDup_remove_2 in A. apply A. apply in_or_app. now left. }
  destruct (InvH_alloc _ _ rid HH Hfresh) as [(sid & m' & Ha & Hnin & Hlt & _ & HH' & Ho)|[Ha _]];
    rewrite Ha in H; inv_some H; conn_simpl.
  - assert (Hp : Permutation ((sid, rid) :: p) ((c_writing s ++ [(sid, rid)]) ++ c_owed s ++ c_inflight s)).
    { rewrite <- app_assoc. cbn [app]. apply Permutation_middle. }
    split; [eapply InvH_perm; eassumption|]. eapply InvC_perm; [eassumption|].
    constructor; try assumption.
    + cbn [rids map snd]. fold (rids p).
      apply (Permutation_NoDup (l := rids p ++ rid :: q)); [|assumption].
      apply Permutation_sym, Permutation_middle.
    + intros r Hin. apply B. cbn [rids map snd] in Hin. fold (rids p) in Hin.
      rewrite !in_app_iff in *. cbn [In] in *. intuition.
    + intros r Hin Hc. apply (D _ Hin). cbn [rids map snd] in Hc. fold (rids p) in Hc.
      rewrite !in_app_iff in *. cbn [In] in *. intuition.
    + intros s0 r [H1|H1] H2; rewrite Ho in H2.
      * inv_some H1. exfalso. apply Hnin. now apply (i_o _ _ HH).
      * eapply I; eassumption.
  - split; [assumption|]. constructor; try assumption.
    + apply NoDup_remove_1 in A. assumption.
    + intros r Hin. apply B. rewrite !in_app_iff in *. cbn [map fst In] in *. intuition.
    + cbn [map fst]. constructor; [|assumption]. intros Hin. apply (D _ Hin).
      apply in_or_app. right. now left.
    + cbn [map fst]. intros r [<-|Hin] Hc.
      * apply NoDup_remove_2 in A. contradiction.
      * apply (D _ Hin). rewrite !in_app_iff in *. cbn [In]. intuition.
    + intros r ans [Hin|Hin]; [discriminate|now apply E].
    + intros r o Hin. destruct (F _ _ Hin); [left; now right|now right].
Qed.

Lemma step_ReaderDeliver s s' : Inv s -> step s ReaderDeliver = Some s' -> Inv s'.
Proof.
  intros [HH HC] H. cbn [step] in H. destruct (c_broken s); [discriminate|].
  destruct (c_inflight s) as [|[sid ans] fl] eqn:Hfl; [discriminate|].
  unfold Inv, pending in *. conn_simpl. rewrite Hfl in *.
  set (p' := c_writing s ++ c_owed s ++ fl).
  assert (Hp : Permutation (c_writing s ++ c_owed s ++ (sid, ans) :: fl) ((sid, ans) :: p')).
  { unfold p'. rewrite !app_assoc. apply Permutation_sym, Permutation_middle. }
  apply (InvH_perm _ _ _ Hp) in HH. apply (InvC_perm _ _ _ _ _ _ _ _ _ Hp) in HC.
  destruct HC as [A B C D E F G I]. cbn [rids map snd app] in *. fold (rids p') in *.
  destruct (InvH_lookup _ _ _ _ HH) as (HH' & Hres & Horph).
  destruct (hm_lookup (c_hm s) sid) as [m' res]. cbn [fst snd] in *.
  assert (Hcommon : forall mb : list (N * outcome), (forall r, In r (map fst mb) -> In r (ans :: map fst (c_mailbox s))) ->
     forall r, In r (rids p' ++ c_queue s ++ map fst mb ++ c_notices s) -> r < c_next_rid s).
  { intros mb Hmb r Hin. apply B. cbn [In]. rewrite !in_app_iff in *.
    destruct Hin as [|[|[Hin|]]]; auto. apply Hmb in Hin as [<-|Hin]; auto. }
  destruct Hres as [[Ho Hr]|(Ho & Hh & Hr)]; subst res; inv_some H; conn_simpl; fold p'.
  - split; [assumption|]. constructor; try assumption.
    + now inversion A.
    + apply Hcommon. intros r Hr. now right.
    + intros r Hin Hc. apply (D _ Hin). now right.
    + intros s0 r H1 H2. apply (I s0 r); [now right|auto].
  - split; [assumption|]. inversion A as [|? ? Hnin Hnd]; subst. constructor; try assumption.
    + apply Hcommon. cbn [map fst In]. tauto.
    + cbn [map fst]. constructor; [|assumption]. intros Hin. apply (D _ Hin). now left.
    + cbn [map fst]. intros r [<-|Hin] Hc; [contradiction|]. apply (D _ Hin). now right.
    + intros r a [Hin|Hin]; [now inv_some Hin|now apply E].
    + intros r o Hin. destruct (F _ _ Hin); [left; now right|now right].
    + intros s0 r H1 H2. apply (I s0 r); [now right|auto].
Qed.
Theorem Inv_step s l s' : Inv s -> step s l = Some s' -> Inv s'.
Proof.
  destruct l; intros Hi H.
  - eapply step_Submit; eassumption.
  - eapply step_SubmitDropped; eassumption.
  - eapply step_WriterTake; eassumption.
  - eapply step_PeerRecv; eassumption.
  - eapply step_PeerAnswer; eassumption.
  - eapply step_ReaderDeliver; eassumption.
  - eapply step_Cancel; eassumption.
  - eapply step_OrphanerTake; eassumption.
  - eapply step_Complete; eassumption.
  - eapply step_Break; eassumption.
Qed.

Lemma Inv_run ls : forall s0 s, Inv s0 -> run s0 ls = Some s -> Inv s.
Proof.
  induction ls as [|l r IH]; intros s0 s Hi H; cbn [run] in H.
  - now inv_some H.
  - destruct (step s0 l) as [s1|] eqn:Hs; [|discriminate].
    eapply IH; [eapply Inv_step; eassumption|eassumption].
Qed.

Theorem Inv_reachable s : reachable s -> Inv s.
Proof. intros [ls H]. eapply Inv_run; [apply Inv_init|eassumption]. Qed.

Lemma reachable_step s l s' : reachable s -> step s l = Some s' -> reachable s'.
Proof.
  intros [ls H] Hs. exists (ls ++ [l]).
  assert (G : forall ls s0, run s0 ls = Some s -> run s0 (ls ++ [l]) = Some s').
  { clear - Hs. induction ls as [|x r IH]; intros s0 H; cbn [run app] in *.
    - inv_some H. now rewrite Hs.
    - destruct (step s0 x); [auto|discriminate]. }
  now apply G.
Qed.

(* ---- the statements of Props/C02.v ---- *)

Theorem inv_statement s : reachable s ->
  let m := c_hm s in let p := pending s in
  wf_words (hm_words m) /\
  (forall sid, used (hm_words m) sid = true <-> In sid (sids p)) /\
  (forall sid, In sid (sids p) <->
     ((exists h, mget sid (hm_handlers m) = Some h) \/ smem sid (hm_orphans m) = true)) /\
  (forall sid h, mget sid (hm_handlers m) = Some h -> smem sid (hm_orphans m) = false) /\
  (forall sid rid tok, mget sid (hm_handlers m) = Some (rid, tok) ->
     tok = rid /\ mget rid (hm_r2s m) = Some sid /\ In (sid, rid) p) /\
  (forall rid sid, mget rid (hm_r2s m) = Some sid -> mget sid (hm_handlers m) = Some (rid, rid)) /\
  NoDup (sids p) /\ NoDup (rids p ++ c_queue s) /\
  (forall rid, In rid (rids p ++ c_queue s) -> rid < c_next_rid s).
Proof.
  intros Hr. destruct (Inv_reachable _ Hr) as [[A B C D E F G] [A' B' _ _ _ _ _ _]]. cbv zeta.
  split; [exact A|]. split; [exact B|]. split; [|split; [|split; [|split; [exact E|split; [exact C|split; [exact A'|]]]]]].
  - intros sid. split.
    + intros Hin. apply in_map_iff in Hin as ([s0 r] & <- & Hin). cbn [fst].
      destruct (G _ _ Hin) as [H|H]; [left; eauto|now right].
    + intros [[[r t] H]|H].
      * destruct (D _ _ _ H) as (_ & Hin & _). eapply In_sids; eauto.
      * now apply F.
  - intros sid [r t] H. now destruct (D _ _ _ H) as (_ & _ & _ & ?).
  - intros sid rid tok H. destruct (D _ _ _ H) as (? & ? & ? & _). auto.
  - intros rid Hin. apply B'. rewrite app_assoc. apply in_or_app. now left.
Qed.

Theorem no_reuse s rid tok m' sid : reachable s ->
  hm_allocate (c_hm s) rid tok = (m', AllocOk sid) ->
  ~ In sid (sids (pending s)) /\ smem sid (hm_orphans (c_hm s)) = false /\ sid < nids.
Proof.
  intros Hr H. destruct (Inv_reachable _ Hr) as [[A B C D E F G] _].
  unfold hm_allocate in H. destruct (sid_alloc (hm_words (c_hm s))) as [[sid' ws']|] eqn:Ha.
  2:{ inv_some H. }
  assert (sid' = sid) as -> by (destruct (mget sid' (hm_handlers (c_hm s))); now inv_some H).
  destruct (bitmap_alloc _ _ _ A Ha) as (Hlt & Hfree & _).
  assert (Hn : ~ In sid (sids (pending s))). { intros Hin. apply B in Hin. congruence. }
  repeat split; try assumption.
  destruct (smem sid (hm_orphans (c_hm s))) eqn:Ho; [|reflexivity]. exfalso. now apply Hn, F.
Qed.

Theorem unique_streams s : reachable s -> NoDup (sids (pending s)).
Proof. intros Hr. now destruct (Inv_reachable _ Hr) as [[] _]. Qed.

Theorem delivery s sid ans fl : reachable s -> c_inflight s = (sid, ans) :: fl ->
  (snd (hm_lookup (c_hm s) sid) = LHandler ans ans /\ ~ In ans (map fst (c_mailbox s))) \/
  (snd (hm_lookup (c_hm s) sid) = LOrphaned /\ In ans (c_cancelled s)).
Proof.
  intros Hr Hfl. destruct (Inv_reachable _ Hr) as [HH HC]. unfold pending in *. rewrite Hfl in *.
  set (p' := c_writing s ++ c_owed s ++ fl).
  assert (Hp : Permutation (c_writing s ++ c_owed s ++ (sid, ans) :: fl) ((sid, ans) :: p')).
  { unfold p'. rewrite !app_assoc. apply Permutation_sym, Permutation_middle. }
  apply (InvH_perm _ _ _ Hp) in HH. apply (InvC_perm _ _ _ _ _ _ _ _ _ Hp) in HC.
  destruct (InvH_lookup _ _ _ _ HH) as (_ & [[Ho Hres]|(Ho & _ & Hres)] & _).
  - right. split; [assumption|]. eapply (i_oc _ _ _ _ _ _ _ _ HC); [now left|assumption].
  - left. split; [assumption|]. intros Hin. apply (i_mbfresh _ _ _ _ _ _ _ _ HC _ Hin).
    cbn [rids map snd app]. now left.
Qed.

Theorem mailbox_exact s : reachable s ->
  NoDup (map fst (c_mailbox s)) /\
  (forall tok ans, In (tok, Resp ans) (c_mailbox s) -> ans = tok) /\
  (forall rid ans, In (rid, Resp ans) (c_completed s) -> ans = rid).
Proof.
  intros Hr. destruct (Inv_reachable _ Hr) as [_ [A B C D E F G I]].
  repeat split; try assumption.
  intros rid ans Hin. destruct (F _ _ Hin) as [H|H]; [now apply E|discriminate].
Qed.

Lemma r2s_pending s rid sid : Inv s -> mget rid (hm_r2s (c_hm s)) = Some sid -> In rid (rids (pending s)).
Proof.
  intros [HH _] H. apply (i_r _ _ HH) in H. destruct (i_h _ _ HH _ _ _ H) as (_ & Hin & _).
  eapply In_rids; eauto.
Qed.

Theorem late_orphan s rid : reachable s ->
  In rid (map fst (c_mailbox s)) \/ In rid (c_queue s) \/ c_next_rid s <= rid ->
  hm_orphan (c_hm s) rid = c_hm s.
Proof.
  intros Hr Hc. pose proof (Inv_reachable _ Hr) as Hi.
  destruct (InvH_orphan _ _ rid (proj1 Hi)) as (_ & _ & Hnone). apply Hnone.
  destruct (mget rid (hm_r2s (c_hm s))) as [sid|] eqn:Hg; [|reflexivity]. exfalso.
  pose proof (r2s_pending _ _ _ Hi Hg) as Hin. destruct Hi as [_ [A B C D E F G I]].
  destruct Hc as [Hc|[Hc|Hc]].
  - apply (D _ Hc). apply in_or_app. now left.
  - clear - A Hin Hc. induction (rids (pending s)) as [|x r IH]; [destruct Hin|].
    cbn [app] in A. inversion A; subst. destruct Hin as [->|Hin].
    + apply H1. apply in_or_app. now right.
    + now apply IH.
  - assert (rid < c_next_rid s); [|lia]. apply B. apply in_or_app. now left.
Qed.

Definition after_alloc_fail (s : conn) (rid : N) (q : list N) : conn :=
  mk_conn (c_hm s) (c_next_rid s) q (c_notices s) (c_writing s) (c_owed s) (c_inflight s)
          ((rid, ErrAlloc) :: c_mailbox s) (c_completed s) (c_cancelled s) false.

Theorem exhaustion s rid q : reachable s -> c_broken s = false -> c_queue s = rid :: q ->
  ((forall j, j < nids -> In j (sids (pending s))) <->
   step s WriterTake = Some (after_alloc_fail s rid q)).
Proof.
  intros Hr Hb Hq. destruct (Inv_reachable _ Hr) as [HH HC].
  assert (Hfresh : ~ In rid (rids (pending s))).
  { pose proof (i_rq _ _ _ _ _ _ _ _ HC) as A. rewrite Hq in A. apply NoDup_remove_2 in A.
    intros Hin. apply A. apply in_or_app. now left. }
  cbn [step]. rewrite Hb, Hq.
  destruct (InvH_alloc _ _ rid HH Hfresh) as [(sid & m' & Ha & Hnin & Hlt & _)|[Ha Hall]]; rewrite Ha.
  - split.
    + intros Hall. exfalso. apply Hnin. now apply Hall.
    + intros H. exfalso. inversion H as [[H1 H2]]. clear - H2.
      assert (Hl : List.length (c_writing s ++ [(sid, rid)]) = List.length (c_writing s)) by now rewrite H2.
      rewrite app_length in Hl. cbn in Hl. lia.
  - split; [reflexivity|auto].
Qed.

Theorem no_spurious_break s l s' : reachable s -> step s l = Some s' ->
  c_broken s' = true -> l = Break \/ c_broken s = true.
Proof.
  intros Hr Hs Hb. destruct (c_broken s) eqn:Hbs; [now right|left].
  destruct (Inv_reachable _ Hr) as [HH HC].
  destruct l; cbn [step] in Hs; rewrite ?Hbs in Hs; try reflexivity.
  - inv_some Hs. discriminate.
  - inv_some Hs. discriminate.
  - destruct (c_queue s) as [|rid q] eqn:Hq; [discriminate|].
    assert (Hfresh : ~ In rid (rids (pending s))).
    { pose proof (i_rq _ _ _ _ _ _ _ _ HC) as A. apply NoDup_remove_2 in A.
      intros Hin. apply A. apply in_or_app. now left. }
    destruct (InvH_alloc _ _ rid HH Hfresh) as [(sid & m' & Ha & _)|[Ha _]]; rewrite Ha in Hs;
      inv_some Hs; discriminate.
  - destruct (c_writing s); [discriminate|]. inv_some Hs. discriminate.
  - destruct (extract sid (c_owed s)) as [[? ?]|]; [|discriminate]. inv_some Hs. discriminate.
  - destruct (c_inflight s) as [|[sid ans] fl] eqn:Hfl; [discriminate|].
    destruct (delivery s sid ans fl Hr Hfl) as [[Hres _]|[Hres _]];
      destruct (hm_lookup (c_hm s) sid) as [m' res]; cbn [snd] in Hres; subst res;
      inv_some Hs; discriminate.
  - destruct (is_waiting s rid); [|discriminate]. inv_some Hs. cbn in Hb. congruence.
  - destruct (c_notices s); [discriminate|]. inv_some Hs. discriminate.
  - destruct (is_waiting s rid); [|discriminate].
    destruct (aget rid (c_mailbox s)); [inv_some Hs; cbn in Hb; congruence|discriminate].
Qed.

(* ---- the exhausted state is reachable: n times (Submit; WriterTake) reserves 0..n-1 ---- *)
Fixpoint fill_labels (n : nat) : list label :=
  match n with O => [] | S k => fill_labels k ++ [Submit; WriterTake] end.

Lemma run_app l1 : forall s0 l2, run s0 (l1 ++ l2) =
  match run s0 l1 with Some s1 => run s1 l2 | None => None end.
Proof.
  induction l1 as [|x r IH]; intros s0 l2; cbn [run app]; [reflexivity|].
  destruct (step s0 x); [apply IH|reflexivity].
Qed.

Lemma fill_run n : N.of_nat n <= nids ->
  exists s, run conn_init (fill_labels n) = Some s /\ c_queue s = [] /\ c_broken s = false /\
    c_owed s = [] /\ c_inflight s = [] /\
    (forall j, In j (sids (c_writing s)) <-> j < N.of_nat n).
Proof.
  induction n as [|n IH]; intros Hn.
  - exists conn_init. cbn. repeat split; try reflexivity; try tauto; lia.
  - destruct IH as (s & Hrun & Hq & Hb & Ho & Hf & Hw); [lia|].
    cbn [fill_labels]. rewrite run_app, Hrun. cbn [run].
    assert (Hr : reachable s) by (eexists; eassumption).
    cbn [step]. rewrite Hb.
    set (s1 := mk_conn (c_hm s) (c_next_rid s + 1) (c_queue s ++ [c_next_rid s]) (c_notices s)
                 (c_writing s) (c_owed s) (c_inflight s) (c_mailbox s) (c_completed s)
                 (c_cancelled s) false).
    assert (Hr1 : reachable s1).
    { apply (reachable_step s Submit); [assumption|]. cbn [step]. now rewrite Hb. }
    destruct (Inv_reachable _ Hr1) as [HH HC].
    assert (Hp : pending s1 = c_writing s).
    { unfold pending, s1. cbn. now rewrite Ho, Hf, !app_nil_r. }
    rewrite Hp in HH, HC.
    assert (Hq1 : c_queue s1 = [c_next_rid s]) by (unfold s1; cbn; now rewrite Hq).
    cbn [c_broken s1]. unfold s1 at 1. cbn [c_broken c_queue]. rewrite Hq. cbn [app].
    change (c_hm s) with (c_hm s1).
    set (rid := c_next_rid s) in *.
    assert (Hfresh : ~ In rid (rids (c_writing s))).
    { pose proof (i_rq _ _ _ _ _ _ _ _ HC) as A. rewrite Hq1 in A. apply NoDup_remove_2 in A.
      intros Hin. apply A. apply in_or_app. now left. }
    destruct (InvH_alloc _ _ rid HH Hfresh) as [(sid & m' & Ha & Hnin & Hlt & Hleast & _)|[Ha Hall]];
      change (c_hm s1) with (c_hm s) in Ha; cbn [c_hm s1]; rewrite Ha.
    + assert (sid = N.of_nat n) as ->.
      { assert (~ sid < N.of_nat n) by (intros Hl; apply Hnin; now apply Hw).
        destruct (N.eq_dec sid (N.of_nat n)); [assumption|].
        assert (Hin : In (N.of_nat n) (sids (c_writing s))) by (apply Hleast; lia).
        apply Hw in Hin. lia. }
      eexists. split; [reflexivity|]. cbn. rewrite Ho, Hf. repeat split; try reflexivity.
      * intros Hin. unfold sids in Hin. rewrite map_app in Hin. apply in_app_or in Hin as [Hin|[Hin|[]]].
        -- apply Hw in Hin. lia.
        -- cbn in Hin. lia.
      * intros Hj. unfold sids. rewrite map_app. apply in_or_app.
        destruct (N.eq_dec j (N.of_nat n)); [right; left; cbn; congruence|left]. apply Hw. lia.
    + exfalso. assert (Hin : In (N.of_nat n) (sids (c_writing s))) by (apply Hall; lia).
      apply Hw in Hin. lia.
Qed.

Theorem exhaustion_reachable :
  exists s, reachable s /\ c_broken s = false /\ forall j, j < nids -> In j (sids (pending s)).
Proof.
  destruct (fill_run (N.to_nat nids)) as (s & Hrun & _ & Hb & _ & _ & Hw); [rewrite N2Nat.id; lia|].
  exists s. split; [eexists; eassumption|]. split; [assumption|].
  intros j Hj. unfold pending, sids. rewrite map_app. apply in_or_app. left.
  apply Hw. now rewrite N2Nat.id.
Qed.


(* ---------- the handler map alone refines the specification checker [sm_check] ---------- *)
Section AssocMore.
  Context {V : Type}.
  Implicit Types m : list (N * V).
  Lemma aget_In_keys k m : In k (map fst m) <-> aget k m <> None.
  Proof.
    induction m as [|[k' v] r IH]; cbn [aget map fst In]; [tauto|].
    destruct (N.eqb_spec k' k); [split; [discriminate|auto]|].
    rewrite <- IH. split; [intros [?|?]; [congruence|assumption]|auto].
  Qed.
  Lemma arem_absent k m : aget k m = None -> arem k m = m.
  Proof.
    induction m as [|[k' v] r IH]; cbn [aget arem]; [reflexivity|].
    destruct (N.eqb_spec k' k); [discriminate|]. intros H. now rewrite IH.
  Qed.
  Lemma keys_arem k k' m : In k' (map fst (arem k m)) <-> k' <> k /\ In k' (map fst m).
  Proof.
    rewrite !aget_In_keys. destruct (N.eq_dec k' k) as [->|Hne].
    - rewrite aget_arem_same. tauto.
    - rewrite aget_arem_other by assumption. tauto.
  Qed.
  Lemma NoDup_keys_arem k m : NoDup (map fst m) -> NoDup (map fst (arem k m)).
  Proof.
    induction m as [|[k' v] r IH]; cbn [arem map fst]; [auto|].
    intros H. inversion H; subst. destruct (N.eqb_spec k' k); [auto|].
    cbn [map fst]. constructor; [|auto]. rewrite keys_arem. tauto.
  Qed.
End AssocMore.

Lemma melements_spec {V} (m : nmap V) k v : In (k, v) (melements m) <-> mget k m = Some v.
Proof.
  unfold melements, mget, mkey. rewrite in_map_iff. split.
  - intros ([p v'] & E & Hin). cbn [fst snd] in E. inversion E; subst.
    apply PositiveMap.elements_complete in Hin.
    assert (N.succ_pos (Pos.pred_N p) = p) as ->; [|assumption].
    assert (E2 : N.pos (N.succ_pos (Pos.pred_N p)) = N.pos p)
      by (rewrite N.succ_pos_spec; apply N.succ_pos_pred).
    injection E2 as E2. exact E2.
  - intros H. apply PositiveMap.elements_correct in H.
    exists (N.succ_pos k, v). split; [|assumption]. cbn [fst snd]. now rewrite N.pos_pred_succ.
Qed.

Definition mark_fun (rid : N) (e : N * (N * bool)) : N * (N * bool) :=
  let '(r, (t, o)) := e in if r =? rid then (r, (t, true)) else e.
Lemma aget_mark rid sid st : aget sid (mark_orphan rid st) = option_map (mark_fun rid) (aget sid st).
Proof.
  induction st as [|[s [r [t o]]] rest IH]; cbn [mark_orphan map aget option_map]; [reflexivity|].
  fold (mark_orphan rid rest).
  destruct (N.eqb_spec r rid); cbn [aget]; destruct (N.eqb_spec s sid); try assumption;
    cbn [option_map mark_fun]; [subst; now rewrite N.eqb_refl|].
  destruct (N.eqb_spec r rid); [contradiction|reflexivity].
Qed.
Lemma keys_mark rid st : map fst (mark_orphan rid st) = map fst st.
Proof.
  induction st as [|[s [r [t o]]] rest IH]; cbn [mark_orphan map fst]; [reflexivity|].
  fold (mark_orphan rid rest). rewrite IH. now destruct (r =? rid).
Qed.

Record Rel (m : hmap) (st : spec_state) : Prop := {
  r_wf : wf_words (hm_words m);
  r_nd : NoDup (map fst st);
  r_used : forall sid, used (hm_words m) sid = true <-> In sid (map fst st);
  r_h : forall sid rid tok, mget sid (hm_handlers m) = Some (rid, tok) <->
                            aget sid st = Some (rid, (tok, false));
  r_o : forall sid, smem sid (hm_orphans m) = true <->
                    exists rid tok, aget sid st = Some (rid, (tok, true));
  r_r : forall rid sid, mget rid (hm_r2s m) = Some sid <->
                        exists tok, aget sid st = Some (rid, (tok, false));
  r_u : forall sid sid' rid t t' o o', aget sid st = Some (rid, (t, o)) ->
        aget sid' st = Some (rid, (t', o')) -> sid = sid'
}.

Definition st_rids (st : spec_state) : list N := map (fun e => fst (snd e)) st.
Lemma aget_st_rids sid rid t o (st : spec_state) : aget sid st = Some (rid, (t, o)) -> In rid (st_rids st).
Proof.
  intros H. apply aget_In in H. unfold st_rids.
  change rid with ((fun e : N * (N * (N * bool)) => fst (snd e)) (sid, (rid, (t, o)))). now apply in_map.
Qed.

Lemma Rel_new : Rel hm_new [].
Proof.
  constructor; cbn [hm_new hm_words hm_handlers hm_r2s hm_orphans map aget].
  - apply wf_sid_new.
  - constructor.
  - intros sid. rewrite used_sid_new. split; [discriminate|intros []].
  - intros. rewrite mget_mempty. split; discriminate.
  - intros. split; [discriminate|intros (? & ? & ?); discriminate].
  - intros. rewrite mget_mempty. split; [discriminate|intros (? & ?); discriminate].
  - discriminate.
Qed.

Lemma keys_full_length (l : list N) : NoDup l -> (forall j, In j l <-> j < nids) ->
  N.of_nat (List.length l) = nids.
Proof.
  intros Hnd H.
  assert (Hp : Permutation l (nrange 0 (N.to_nat nids))).
  { apply NoDup_Permutation; [assumption| |].
    - clear. generalize 0 as lo. induction (N.to_nat nids) as [|k IH]; intros lo; cbn [nrange]; constructor.
      + rewrite nrange_In. lia.
      + apply IH.
    - intros j. rewrite H, nrange_In, N2Nat.id. lia. }
  rewrite (Permutation_length Hp), nrange_length. apply N2Nat.id.
Qed.
Lemma st_rids_arem sid (st : spec_state) x : In x (st_rids (arem sid st)) -> In x (st_rids st).
Proof.
  unfold st_rids. induction st as [|[s e] r IH]; cbn [arem map]; [auto|].
  destruct (s =? sid); cbn [map In]; intuition.
Qed.
Lemma st_rids_mark rid st : st_rids (mark_orphan rid st) = st_rids st.
Proof.
  unfold st_rids. induction st as [|[s [r [t o]]] rest IH]; cbn [mark_orphan map]; [reflexivity|].
  fold (mark_orphan rid rest). rewrite IH. now destruct (r =? rid).
Qed.

Lemma Rel_alloc m st rid tok : Rel m st -> ~ In rid (st_rids st) ->
  exists st', sm_check_step st (OpAlloc rid tok) (RAlloc (snd (hm_allocate m rid tok)) tok) = Some st' /\
    Rel (fst (hm_allocate m rid tok)) st' /\
    (forall x, In x (st_rids st') -> x = rid \/ In x (st_rids st)).
Proof.
  intros [A ND B C D E U] Hfresh. unfold hm_allocate.
  assert (Hfresh' : forall s t o, aget s st <> Some (rid, (t, o))).
  { intros s t o H. apply Hfresh. eapply aget_st_rids; eauto. }
  destruct (sid_alloc (hm_words m)) as [[sid ws']|] eqn:Ha.
  - destruct (bitmap_alloc _ _ _ A Ha) as (Hlt & Hfree & _ & Hset & Hwf').
    assert (Hnone : aget sid st = None).
    { destruct (aget sid st) eqn:Hg; [|reflexivity]. exfalso.
      assert (Hin : In sid (map fst st)) by (apply aget_In_keys; congruence).
      apply B in Hin. congruence. }
    assert (Hhn : mget sid (hm_handlers m) = None).
    { destruct (mget sid (hm_handlers m)) as [[r t]|] eqn:Hg; [|reflexivity].
      apply C in Hg. congruence. }
    rewrite Hhn. cbn [fst snd sm_check_step].
    apply N.ltb_lt in Hlt. rewrite Hlt, Hnone. cbn [andb].
    eexists. split; [reflexivity|]. split.
    + unfold aput. rewrite (arem_absent _ _ Hnone).
      constructor; cbn [hm_words hm_handlers hm_r2s hm_orphans map fst].
      * assumption.
      * constructor; [|assumption]. rewrite aget_In_keys. congruence.
      * intros j. rewrite Hset. cbn [In]. rewrite <- B.
        destruct (N.eqb_spec j sid); cbn [orb]; split; intros H; auto.
        destruct H as [H|H]; [congruence|assumption].
      * intros s r t. cbn [aget]. destruct (N.eqb_spec sid s).
        -- subst. rewrite mget_mput_same. split; intros H; inversion H; reflexivity.
        -- rewrite mget_mput_other by congruence. apply C.
      * intros s. rewrite D. cbn [aget]. destruct (N.eqb_spec sid s); [|reflexivity].
        subst. rewrite Hnone. split; intros (? & ? & ?); discriminate.
      * intros r s. cbn [aget]. destruct (N.eq_dec r rid) as [->|Hne].
        -- rewrite mget_mput_same. destruct (N.eqb_spec sid s).
           ++ subst. split; [eauto|reflexivity].
           ++ split; [intros H; inversion H; congruence|intros (t & H); exfalso; eapply Hfresh'; eauto].
        -- rewrite mget_mput_other by assumption. rewrite E. destruct (N.eqb_spec sid s); [|reflexivity].
           subst. rewrite Hnone. split; intros (t & H); inversion H; congruence.
      * intros s s' r t t' o o'. cbn [aget].
        destruct (N.eqb_spec sid s), (N.eqb_spec sid s'); intros H1 H2; subst; try reflexivity.
        -- inversion H1; subst. exfalso; eapply Hfresh'; eauto.
        -- inversion H2; subst. exfalso; eapply Hfresh'; eauto.
        -- eapply U; eauto.
    + unfold aput. rewrite (arem_absent _ _ Hnone). cbn [st_rids map fst snd In]. intuition.
  - cbn [fst snd sm_check_step]. rewrite N.eqb_refl. cbn [andb].
    assert (Hlen : N.of_nat (List.length st) = nids).
    { rewrite <- (map_length fst). apply keys_full_length; [assumption|].
      intros j. rewrite <- B. split.
      - apply used_lt. assumption.
      - now apply (proj1 (bitmap_full _ A) Ha). }
    rewrite Hlen, N.eqb_refl. eexists. split; [reflexivity|]. split; [constructor; assumption|auto].
Qed.

Lemma Rel_orphan m st rid : Rel m st -> Rel (hm_orphan m rid) (mark_orphan rid st).
Proof.
  intros [A ND B C D E U]. unfold hm_orphan.
  destruct (mget rid (hm_r2s m)) as [sid|] eqn:Hr.
  - pose proof (proj1 (E _ _) Hr) as (tok & Hst).
    pose proof (proj2 (C _ _ _) Hst) as Hh.
    constructor; cbn [hm_words hm_handlers hm_r2s hm_orphans]; try rewrite keys_mark; try assumption.
    + intros s r t. rewrite aget_mark. destruct (N.eq_dec s sid) as [->|Hne].
      * rewrite mget_mrem_same, Hst. cbn [option_map mark_fun]. rewrite N.eqb_refl.
        split; discriminate.
      * rewrite mget_mrem_other by assumption. rewrite C.
        destruct (aget s st) as [[r' [t' o']]|] eqn:Hs; cbn [option_map mark_fun]; [|tauto].
        destruct (N.eqb_spec r' rid).
        -- subst. exfalso. apply Hne. eapply U; eauto.
        -- tauto.
    + intros s. rewrite smem_sadd, aget_mark. destruct (N.eqb_spec s sid).
      * subst. rewrite Hst. cbn [option_map mark_fun orb]. rewrite N.eqb_refl. split; eauto.
      * cbn [orb]. rewrite D.
        destruct (aget s st) as [[r' [t' o']]|] eqn:Hs; cbn [option_map mark_fun].
        -- destruct (N.eqb_spec r' rid); [subst; exfalso; apply n; eapply U; eauto|reflexivity].
        -- reflexivity.
    + intros r s. setoid_rewrite aget_mark. destruct (N.eq_dec r rid) as [->|Hne].
      * rewrite mget_mrem_same. split; [discriminate|]. intros (t & H).
        destruct (aget s st) as [[r' [t' o']]|]; cbn [option_map mark_fun] in H; [|discriminate].
        destruct (N.eqb_spec r' rid); inversion H; subst. contradiction.
      * rewrite mget_mrem_other by assumption. rewrite E. split; intros (t & H); exists t.
        -- rewrite H. cbn [option_map mark_fun]. destruct (N.eqb_spec r rid); [contradiction|reflexivity].
        -- destruct (aget s st) as [[r' [t' o']]|]; cbn [option_map mark_fun] in H; [|discriminate].
           destruct (N.eqb_spec r' rid); inversion H; subst; reflexivity.
    + intros s s' r t t' o o'. rewrite !aget_mark. intros H1 H2.
      destruct (aget s st) as [[r1 [t1 o1]]|] eqn:Hs1; cbn [option_map mark_fun] in H1; [|discriminate].
      destruct (aget s' st) as [[r2 [t2 o2]]|] eqn:Hs2; cbn [option_map mark_fun] in H2; [|discriminate].
      assert (r1 = r) by (destruct (r1 =? rid); now inversion H1).
      assert (r2 = r) by (destruct (r2 =? rid); now inversion H2).
      subst. eapply U; eauto.
  - assert (Hno : forall s t, aget s st <> Some (rid, (t, false))).
    { intros s t H. assert (Hx : mget rid (hm_r2s m) = Some s) by (apply E; eauto). congruence. }
    assert (Hsame : forall s, aget s (mark_orphan rid st) = aget s st).
    { intros s. rewrite aget_mark. destruct (aget s st) as [[r [t o]]|] eqn:Hs; cbn [option_map mark_fun]; [|reflexivity].
      destruct (N.eqb_spec r rid); [|reflexivity]. subst. destruct o; [reflexivity|].
      exfalso. eapply Hno; eauto. }
    constructor; try rewrite keys_mark; try assumption.
    + intros. rewrite Hsame. apply C.
    + intros. setoid_rewrite Hsame. apply D.
    + intros. setoid_rewrite Hsame. apply E.
    + intros s s' r t t' o o'. rewrite !Hsame. apply U.
Qed.

Lemma Rel_lookup m st sid : Rel m st -> sid < nids ->
  exists st', sm_check_step st (OpLookup sid) (RLookup (snd (hm_lookup m sid))) = Some st' /\
    Rel (fst (hm_lookup m sid)) st' /\ (forall x, In x (st_rids st') -> In x (st_rids st)).
Proof.
  intros [A ND B C D E U] Hlt.
  destruct (bitmap_free _ _ A Hlt) as [Hfree Hwf'].
  assert (Hused' : forall j, used (sid_free (hm_words m) sid) j = true <-> In j (map fst (arem sid st))).
  { intros j. rewrite Hfree, keys_arem, <- B. destruct (N.eqb_spec j sid); cbn [negb andb].
    - split; [discriminate|tauto].
    - tauto. }
  unfold hm_lookup. cbn [sm_check_step].
  destruct (aget sid st) as [[rid [tok o]]|] eqn:Hst.
  - destruct o.
    + assert (Ho : smem sid (hm_orphans m) = true) by (apply D; eauto).
      rewrite Ho. cbn [fst snd]. eexists. split; [reflexivity|]. split; [|apply st_rids_arem].
      constructor; cbn [hm_words hm_handlers hm_r2s hm_orphans]; try assumption.
      * now apply NoDup_keys_arem.
      * intros s r t. rewrite C. destruct (N.eq_dec s sid) as [->|Hne].
        -- rewrite aget_arem_same, Hst. split; discriminate.
        -- now rewrite aget_arem_other.
      * intros s. rewrite smem_srem. destruct (N.eqb_spec s sid); cbn [negb andb].
        -- subst. rewrite aget_arem_same. split; [discriminate|intros (? & ? & ?); discriminate].
        -- rewrite D. now rewrite aget_arem_other.
      * intros r s. rewrite E. destruct (N.eq_dec s sid) as [->|Hne].
        -- rewrite aget_arem_same, Hst. split; intros (? & ?); discriminate.
        -- now rewrite aget_arem_other.
      * intros s s' r t t' o o' H1 H2.
        assert (s <> sid) by (intros ->; now rewrite aget_arem_same in H1).
        assert (s' <> sid) by (intros ->; now rewrite aget_arem_same in H2).
        rewrite aget_arem_other in H1, H2 by assumption. eapply U; eauto.
    + assert (Ho : smem sid (hm_orphans m) = false).
      { destruct (smem sid (hm_orphans m)) eqn:Ho; [|reflexivity].
        apply D in Ho as (? & ? & Ho). congruence. }
      rewrite Ho. rewrite (proj2 (C _ _ _) Hst). cbn [fst snd]. rewrite !N.eqb_refl. cbn [andb].
      eexists. split; [reflexivity|]. split; [|apply st_rids_arem].
      constructor; cbn [hm_words hm_handlers hm_r2s hm_orphans]; try assumption.
      * now apply NoDup_keys_arem.
      * intros s r t. destruct (N.eq_dec s sid) as [->|Hne].
        -- rewrite mget_mrem_same, aget_arem_same. split; discriminate.
        -- rewrite mget_mrem_other, aget_arem_other by assumption. apply C.
      * intros s. rewrite D. destruct (N.eq_dec s sid) as [->|Hne].
        -- rewrite aget_arem_same, Hst. split; intros (? & ? & ?); discriminate.
        -- now rewrite aget_arem_other.
      * intros r s. destruct (N.eq_dec r rid) as [->|Hne].
        -- rewrite mget_mrem_same. split; [discriminate|]. intros (t & H).
           assert (s <> sid) by (intros ->; now rewrite aget_arem_same in H).
           rewrite aget_arem_other in H by assumption. exfalso. apply H0. eapply U; eauto.
        -- rewrite mget_mrem_other by assumption. rewrite E. destruct (N.eq_dec s sid) as [->|Hne'].
           ++ rewrite aget_arem_same, Hst. split; intros (? & H); inversion H; congruence.
           ++ now rewrite aget_arem_other.
      * intros s s' r t t' o o' H1 H2.
        assert (s <> sid) by (intros ->; now rewrite aget_arem_same in H1).
        assert (s' <> sid) by (intros ->; now rewrite aget_arem_same in H2).
        rewrite aget_arem_other in H1, H2 by assumption. eapply U; eauto.
  - assert (Ho : smem sid (hm_orphans m) = false).
    { destruct (smem sid (hm_orphans m)) eqn:Ho; [|reflexivity].
      apply D in Ho as (? & ? & Ho). congruence. }
    assert (Hh : mget sid (hm_handlers m) = None).
    { destruct (mget sid (hm_handlers m)) as [[r t]|] eqn:Hg; [|reflexivity]. apply C in Hg. congruence. }
    rewrite Ho, Hh. cbn [fst snd]. eexists. split; [reflexivity|]. split; [|auto].
    constructor; cbn [hm_words hm_handlers hm_r2s hm_orphans]; try assumption.
    intros j. rewrite Hused', (arem_absent _ _ Hst). tauto.
Qed.

Lemma Rel_probe m st tok : Rel m st ->
  sm_check_step st (OpProbe tok) (RProbe (hm_holds m tok)) = Some st.
Proof.
  intros [A ND B C D E U]. cbn [sm_check_step].
  assert (Heq : hm_holds m tok =
    existsb (fun e : N * (N * (N * bool)) => (fst (snd (snd e)) =? tok) && negb (snd (snd (snd e)))) st).
  { apply Bool.eq_true_iff_eq. unfold hm_holds. rewrite !existsb_exists. split.
    - intros ([s [r t]] & Hin & Ht). cbn [fst snd] in Ht. apply melements_spec in Hin. apply C in Hin.
      exists (s, (r, (t, false))). split; [now apply aget_In|]. cbn [fst snd negb]. now rewrite Ht.
    - intros ([s [r [t o]]] & Hin & Ht). cbn [fst snd] in Ht. apply andb_true_iff in Ht as [Ht Ho].
      destruct o; [discriminate|]. apply (In_aget_nodup _ _ _ ND) in Hin. apply C in Hin.
      exists (s, (r, t)). split; [now apply melements_spec|assumption]. }
  rewrite <- Heq. now rewrite Bool.eqb_reflx.
Qed.
Lemma nodupb_NoDup l : nodupb l = true -> NoDup l.
Proof.
  induction l as [|x r IH]; cbn [nodupb]; [constructor|].
  intros H. apply andb_true_iff in H as [H1 H2]. constructor; [|auto].
  intros Hin. apply smem_In in Hin. now rewrite Hin in H1.
Qed.

Lemma sm_run_ok ops : forall m st, Rel m st -> Forall op_in_range ops ->
  NoDup (alloc_rids ops) -> (forall x, In x (st_rids st) -> ~ In x (alloc_rids ops)) ->
  sm_check_from st ops (snd (hm_run m ops)) = true.
Proof.
  induction ops as [|o r IH]; intros m st HR Hrange Hnd Hdis; cbn [hm_run]; [reflexivity|].
  inversion Hrange as [|? ? Ho Hr]; subst.
  destruct o as [rid tok|rid|sid|tok]; cbn [hm_step alloc_rids flat_map app] in *.
  - fold (alloc_rids r) in *. inversion Hnd as [|? ? Hnin Hnd']; subst.
    assert (Hfresh : ~ In rid (st_rids st)) by (intros Hin; apply (Hdis _ Hin); now left).
    destruct (Rel_alloc m st rid tok HR Hfresh) as (st' & Hc & HR' & Hsub).
    destruct (hm_allocate m rid tok) as [m1 res]. cbn [fst snd] in *.
    specialize (IH m1 st' HR' Hr Hnd').
    destruct (hm_run m1 r) as [m2 xs]. cbn [snd sm_check_from] in *. rewrite Hc. apply IH.
    intros x Hx Hin. destruct (Hsub _ Hx) as [->|Hx']; [contradiction|].
    apply (Hdis _ Hx'). now right.
  - fold (alloc_rids r) in *.
    specialize (IH (hm_orphan m rid) (mark_orphan rid st) (Rel_orphan _ _ rid HR) Hr Hnd).
    destruct (hm_run (hm_orphan m rid) r) as [m2 xs]. cbn [snd sm_check_from sm_check_step] in *.
    apply IH. now rewrite st_rids_mark.
  - fold (alloc_rids r) in *. cbn [op_in_range] in Ho.
    destruct (Rel_lookup m st sid HR Ho) as (st' & Hc & HR' & Hsub).
    destruct (hm_lookup m sid) as [m1 res]. cbn [fst snd] in *.
    specialize (IH m1 st' HR' Hr Hnd).
    destruct (hm_run m1 r) as [m2 xs]. cbn [snd sm_check_from] in *. rewrite Hc. apply IH.
    intros x Hx. apply Hdis. now apply Hsub.
  - fold (alloc_rids r) in *. specialize (IH m st HR Hr Hnd Hdis).
    destruct (hm_run m r) as [m2 xs]. cbn [snd sm_check_from] in *.
    now rewrite (Rel_probe m st tok HR).
Qed.

Theorem sm_spec ops : sm_applicable ops = true -> Forall op_in_range ops ->
  sm_check ops (snd (hm_run hm_new ops)) = true.
Proof.
  intros Ha Hr. unfold sm_applicable in Ha. apply andb_true_iff in Ha as [Ha _].
  apply sm_run_ok; [apply Rel_new|assumption|now apply nodupb_NoDup|intros x []].
Qed.

(* the checker rejects what the property forbids: a reused id, a response handed to another
   handler, a spurious allocation failure *)
Lemma sm_check_rejects :
  sm_check [OpAlloc 1 10; OpAlloc 2 11] [RAlloc (AllocOk 0) 10; RAlloc (AllocOk 0) 11] = false /\
  sm_check [OpAlloc 1 10; OpAlloc 2 11; OpLookup 1]
           [RAlloc (AllocOk 0) 10; RAlloc (AllocOk 1) 11; RLookup (LHandler 1 10)] = false /\
  sm_check [OpAlloc 1 10; OpOrphan 1; OpLookup 0]
           [RAlloc (AllocOk 0) 10; RUnit; RLookup (LHandler 1 10)] = false /\
  sm_check [OpAlloc 1 10] [RAlloc AllocFull 10] = false.
Proof. repeat split; vm_compute; reflexivity. Qed.

(* a frame on an id that is not pending (unsolicited) reaches nobody: lookup says Missing, which
   makes the reader return UnexpectedStreamId; handlers, request ids and orphanage are untouched *)
Theorem unsolicited s sid : reachable s -> ~ In sid (sids (pending s)) ->
  snd (hm_lookup (c_hm s) sid) = LMissing /\
  hm_handlers (fst (hm_lookup (c_hm s) sid)) = hm_handlers (c_hm s) /\
  hm_r2s (fst (hm_lookup (c_hm s) sid)) = hm_r2s (c_hm s) /\
  hm_orphans (fst (hm_lookup (c_hm s) sid)) = hm_orphans (c_hm s).
Proof.
  intros Hr Hn. destruct (Inv_reachable _ Hr) as [[A B C D E F G] _]. unfold hm_lookup.
  destruct (smem sid (hm_orphans (c_hm s))) eqn:Ho; [exfalso; now apply Hn, F|].
  destruct (mget sid (hm_handlers (c_hm s))) as [[r t]|] eqn:Hh.
  - exfalso. apply Hn. destruct (D _ _ _ Hh) as (_ & Hin & _). eapply In_sids; eauto.
  - cbn [fst snd hm_handlers hm_r2s hm_orphans]. auto.
Qed.
