(* C08 wave-4 follow-up: the claimed-size guards of frame::decompress let every body through that the
   codec's own encoder produced, under an EXPLICIT hypothesis on the codec's maximum expansion. *)
From SV Require Import Base.Prelude Base.Bytes Model.FrameBase Model.FrameGuard.
Require Import List NArith Lia.
Import ListNotations.
Open Scope N_scope.

Lemma claim_refused_false R claimed avail :
  0 < R -> claimed <= R * avail -> claim_refused R claimed avail = false.
Proof.
  intros HR H. unfold claim_refused. apply N.ltb_ge.
  apply N.div_le_upper_bound; [lia | exact H].
Qed.

Lemma claim_refused_true R claimed avail :
  0 < R -> claim_refused R claimed avail = true -> R * avail < claimed.
Proof.
  intros HR H. unfold claim_refused in H. apply N.ltb_lt in H.
  destruct (N.le_gt_cases claimed (R * avail)) as [Hle | Hgt]; [| exact Hgt].
  exfalso. assert (Hd : claimed / R <= avail) by (apply N.div_le_upper_bound; [lia | exact Hle]). lia.
Qed.

Lemma be_enc4_shape n : exists a b c d, be_enc 4 n = [a; b; c; d].
Proof.
  pose proof (be_enc_length 4 n) as HL.
  destruct (be_enc 4 n) as [| a [| b [| c [| d [| e r]]]]]; cbn in HL; try discriminate.
  now exists a, b, c, d.
Qed.

Section SnappyCodec.
  (* the real Snappy block encoder (snap::raw::Encoder::compress), an oracle *)
  Variable snappy_compress : bytes -> bytes.
  Variable snappy_raw_decompress : bytes -> option bytes.
  (* the preamble is the varint of the plain length (format) *)
  Hypothesis snappy_preamble : forall b, lenN b < 2 ^ 32 ->
    snappy_claimed (snappy_compress b) = Some (lenN b).
  (* NAMED ASSUMPTION on the codec's maximum expansion: no output of the encoder is more than 32 times
     shorter than its input (the format's densest element, a 3-byte copy of 64 bytes, gives 21.33).
     VALIDATED by the tie (kind Z) against the real encoder on bodies up to 4 MiB of constant fill. *)
  Hypothesis snappy_max_expansion : forall b, lenN b < 2 ^ 32 ->
    lenN b <= SNAPPY_MAX_EXPANSION * lenN (snappy_compress b).
  Hypothesis snappy_codec_roundtrip : forall b, lenN b < 2 ^ 32 ->
    snappy_raw_decompress (snappy_compress b) = Some b.

  Lemma snappy_guard_passes b : lenN b < 2 ^ 32 -> guard CSnappy (snappy_compress b) = GPass.
  Proof.
    intros Hb. unfold guard. rewrite (snappy_preamble b Hb).
    rewrite claim_refused_false; [reflexivity | reflexivity | exact (snappy_max_expansion b Hb)].
  Qed.

  Lemma snappy_guarded_roundtrip b : lenN b < 2 ^ 32 ->
    guarded_decompress CSnappy snappy_raw_decompress (snappy_compress b) = Some b.
  Proof.
    intros Hb. unfold guarded_decompress, guard_refuses. rewrite (snappy_guard_passes b Hb).
    exact (snappy_codec_roundtrip b Hb).
  Qed.
End SnappyCodec.

Section Lz4Codec.
  (* the real LZ4 block encoder (lz4_flex::compress); compress_append puts the 4-byte length in front *)
  Variable lz4_block : bytes -> bytes.
  Variable lz4_raw_decompress : bytes -> option bytes.
  Definition lz4_compress (b : bytes) : bytes := be_enc 4 (lenN b) ++ lz4_block b.
  (* NAMED ASSUMPTION on the codec's maximum expansion (an LZ4 block expands by less than 255) *)
  Hypothesis lz4_max_expansion : forall b, lenN b < 2 ^ 32 ->
    lenN b <= LZ4_MAX_EXPANSION * lenN (lz4_block b).
  Hypothesis lz4_codec_roundtrip : forall b, lenN b < 2 ^ 32 ->
    lz4_raw_decompress (lz4_compress b) = Some b.

  Lemma lz4_guard_passes b : lenN b < 2 ^ 32 -> guard CLz4 (lz4_compress b) = GPass.
  Proof.
    intros Hb. unfold lz4_compress.
    pose proof (be_dec_enc_small 4 (lenN b)) as Hd.
    destruct (be_enc4_shape (lenN b)) as (a & b0 & c & d & E). rewrite E in *.
    cbn [app guard].
    rewrite Hd by (change (256 ^ N.of_nat 4) with (2 ^ 32); exact Hb).
    rewrite claim_refused_false; [reflexivity | reflexivity | exact (lz4_max_expansion b Hb)].
  Qed.

  Lemma lz4_guarded_roundtrip b : lenN b < 2 ^ 32 ->
    guarded_decompress CLz4 lz4_raw_decompress (lz4_compress b) = Some b.
  Proof.
    intros Hb. unfold guarded_decompress, guard_refuses. rewrite (lz4_guard_passes b Hb).
    exact (lz4_codec_roundtrip b Hb).
  Qed.
End Lz4Codec.

(* what a refusal means, without any hypothesis: the claim exceeds R times the available bytes *)
Lemma guard_refused_sound c comp : guard c comp = GRefused ->
  match c with
  | CLz4 => exists a b c' d rest, comp = a :: b :: c' :: d :: rest /\
            LZ4_MAX_EXPANSION * lenN rest < be_dec [a; b; c'; d]
  | CSnappy => exists n, snappy_claimed comp = Some n /\ SNAPPY_MAX_EXPANSION * lenN comp < n
  end.
Proof.
  destruct c; unfold guard.
  - destruct comp as [| a [| b [| c' [| d rest]]]]; try discriminate.
    destruct (claim_refused _ _ _) eqn:E; try discriminate. intros _.
    exists a, b, c', d, rest. split; [reflexivity |]. apply claim_refused_true; [reflexivity | exact E].
  - destruct (snappy_claimed comp) as [n |]; try discriminate.
    destruct (claim_refused _ _ _) eqn:E; try discriminate. intros _.
    exists n. split; [reflexivity |]. apply claim_refused_true; [reflexivity | exact E].
Qed.

(* within_expansion is the hypothesis, as evaluated by the driver *)
Lemma within_expansion_spec c p q : within_expansion c p q = true <-> p <= max_expansion c * q.
Proof. unfold within_expansion. apply N.leb_le. Qed.

(* the hypotheses are satisfiable: the identity "codec" with the right preamble is out of scope; concrete
   instances of the guard on real encoder output and on corrupted prefixes *)
Example guard_examples :
  (* snap's output for 100 zero bytes: preamble 0x64, literal 00, copies *)
  guard CSnappy [100; 0; 0; 254; 1; 0; 138; 1; 0] = GPass /\
  (* the F22 reproducer: 16 bytes claiming 4 GiB - 1 *)
  guard CSnappy [255; 255; 255; 255; 15; 0; 0; 0; 0; 0; 0; 0; 0; 0; 0; 0] = GRefused /\
  (* claim of 32 * 9 + 31 passes, 32 * 10 is refused on 9 bytes *)
  guard CSnappy [191; 2; 0; 0; 0; 0; 0; 0; 0] = GPass /\
  guard CSnappy [192; 2; 0; 0; 0; 0; 0; 0; 0] = GRefused /\
  (* a preamble that decompress_len refuses (above u32::MAX) is left to the decoder *)
  guard CSnappy [255; 255; 255; 255; 127; 0] = GPass /\
  guard CLz4 [0; 0; 0] = GShort /\
  guard CLz4 [0; 0; 1; 254; 7] = GRefused /\
  guard CLz4 [0; 0; 0; 254; 7] = GPass /\
  guard CLz4 [255; 255; 255; 255; 0; 0; 0; 0; 0; 0; 0; 0; 0; 0] = GRefused.
Proof. vm_compute. repeat split; reflexivity. Qed.
