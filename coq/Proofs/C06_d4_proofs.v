(* Property C06, deepening round 4 (proof only): characterisation of the trace predicate the
   driver evaluates for a `viol` ([resend_ok] / [prop_trace_ok]) and a frame statement for the
   execution loop (targets of the plan the run never reached are irrelevant). *)
From SV Require Import Base.Prelude Model.Retry Model.Fiber Proofs.Retry_proofs Proofs.Fiber_proofs
  Proofs.C06_proofs.
Open Scope Z_scope.

(* -- what [resend_ok] says about one event that is followed by another one ------------------- *)
Definition resend_step (p : policy) (idem : bool) (ev : event N) : Prop :=
  match ev with
  | EvConnFail _ => True
  | EvAttempt _ _ AOk => False
  | EvAttempt _ c (AErr e _) =>
      (idem = true \/ safe_errorb e = true) /\ (p = PDefault -> is_serial c = false)
  end.

Definition resend_stepb (p : policy) (idem : bool) (ev : event N) : bool :=
  match ev with
  | EvConnFail _ => true
  | EvAttempt _ _ AOk => false
  | EvAttempt _ c (AErr e _) =>
      (idem || safe_errorb e) && negb (match p with PDefault => is_serial c | _ => false end)
  end.

Lemma resend_stepb_iff p idem ev : resend_stepb p idem ev = true <-> resend_step p idem ev.
Proof.
  destruct ev as [t | t c [| e d]]; cbn [resend_stepb resend_step].
  - tauto.
  - split; [discriminate | tauto].
  - rewrite andb_true_iff, orb_true_iff, negb_true_iff. split.
    + intros [H1 H2]. split; [exact H1|]. intros ->. exact H2.
    + intros [H1 H2]. split; [exact H1|]. destruct p; try reflexivity. now apply H2.
Qed.

Lemma resend_ok_cons2 p idem ev nxt post :
  resend_ok p idem (ev :: nxt :: post) = resend_stepb p idem ev && resend_ok p idem (nxt :: post).
Proof. destruct ev as [t | t c [| e d]]; reflexivity. Qed.

Lemma resend_ok_iff p idem tr :
  resend_ok p idem tr = true <->
  (forall pre ev nxt post, tr = pre ++ ev :: nxt :: post -> resend_step p idem ev).
Proof.
  induction tr as [|ev tr IH].
  - split; [|reflexivity]. intros _ pre ev nxt post H. exfalso. exact (nil_app_inv _ _ _ H).
  - destruct tr as [|nxt post].
    + split; [|reflexivity]. intros _ pre ev' nxt post H. exfalso.
      destruct pre as [|a pre]; [discriminate H|]. cbn [app] in H. injection H as _ H.
      exact (nil_app_inv _ _ _ H).
    + rewrite resend_ok_cons2, andb_true_iff, resend_stepb_iff, IH. split.
      * intros [H1 H2] pre ev' nxt' post' H.
        destruct (cons_app_inv _ _ _ _ _ H) as [[-> [<- _]] | [pre' [-> H']]]; [exact H1|].
        exact (H2 _ _ _ _ H').
      * intros H. split; [exact (H [] ev nxt post eq_refl)|].
        intros pre ev' nxt' post' H'. apply (H (ev :: pre) ev' nxt' post'). cbn [app]. now f_equal.
Qed.

Lemma prop_trace_ok_iff p idem nplan tr :
  prop_trace_ok p idem nplan tr = true <->
  (forall pre ev nxt post, tr = pre ++ ev :: nxt :: post -> resend_step p idem ev) /\
  (List.length tr <= nplan + same_target_budget p)%nat.
Proof. unfold prop_trace_ok. now rewrite andb_true_iff, resend_ok_iff, Nat.leb_le. Qed.

(* -- frame: the part of the plan a run never reached is irrelevant ---------------------------- *)
Section Tail.
  Variable St : Type.
  Variable decide : St -> request_info -> St * decision.
  Variable T : Type.
  Variable idem : bool.

  (* the run did not end because the plan ran out: it is still looping, or it ended with a
     success, an ignored write error, or a DontRetry decision (the last event) *)
  Definition not_exhausted (tr : list (event T)) (r : fiber_result T) : Prop :=
    r = RPending \/ (exists t, r = RCompleted t) \/ (exists t, r = RIgnoredWriteError t)
    \/ (exists pre t c e, tr = pre ++ [EvAttempt t c (AErr e DontRetry)]).

  Lemma not_exhausted_tl ev tr r :
    not_exhausted (ev :: tr) r ->
    (forall t c e, ev <> EvAttempt t c (AErr e DontRetry)) ->
    not_exhausted tr r.
  Proof.
    intros [H | [H | [H | [pre [t [c [e H]]]]]]] Hne.
    - now left.
    - right; now left.
    - right; right; now left.
    - right; right; right. destruct pre as [|a pre]; cbn [app] in H.
      + injection H as H _. exfalso. exact (Hne _ _ _ H).
      + injection H as _ H. now exists pre, t, c, e.
  Qed.

  Lemma Exec_plan_tail (plan : list T) s cl last outs tr r :
    Exec decide idem plan s cl last outs tr r -> not_exhausted tr r ->
    forall extra, Exec decide idem (plan ++ extra) s cl last outs tr r.
  Proof.
    induction 1 as [ s cl last outs | t rest s cl last | t rest s cl last outs tr r H IH
                   | t rest s cl last outs | t rest s cl last e outs s' nc tr r E H IH
                   | t rest s cl last e outs s' nc tr r E H IH
                   | t rest s cl last e outs s' E | t rest s cl last e outs s' E ];
      intros Hn extra; cbn [app].
    - exfalso. destruct Hn as [Hn | [[t Hn] | [[t Hn] | [pre [t [c [e Hn]]]]]]].
      + destruct last; discriminate Hn.
      + destruct last; discriminate Hn.
      + destruct last; discriminate Hn.
      + destruct pre; discriminate Hn.
    - constructor.
    - constructor. apply IH. apply (not_exhausted_tl _ _ _ Hn). intros; discriminate.
    - constructor.
    - eapply Ex_same; [exact E|]. apply (IH (not_exhausted_tl _ _ _ Hn ltac:(intros; discriminate)) extra).
    - eapply Ex_next; [exact E|]. apply IH. apply (not_exhausted_tl _ _ _ Hn). intros; discriminate.
    - eapply Ex_dont; exact E.
    - eapply Ex_ignore; exact E.
  Qed.

  (* conversely, a run that did end because the plan ran out has visited the whole plan: one
     event per target left (a failed acquisition or an attempt answered RetryNextTarget) *)
End Tail.

Lemma fiber_plan_tail p idem cl0 plan outs tr r :
  fiber p idem cl0 plan outs = (tr, r) ->
  (r = RPending \/ (exists t, r = RCompleted t) \/ (exists t, r = RIgnoredWriteError t)
   \/ (exists pre t c e, tr = pre ++ [EvAttempt t c (AErr e DontRetry)])) ->
  forall extra, fiber p idem cl0 (plan ++ extra) outs = (tr, r).
Proof.
  intros H Hn extra. apply fiber_Exec. apply fiber_Exec in H.
  exact (Exec_plan_tail _ _ _ _ _ _ _ _ _ _ _ H Hn extra).
Qed.

(* -- which traces are runs of the model: exactly those that walk the plan as the recorded
      decisions say ([follow]) and whose recorded decisions and consistencies are the ones ONE
      session of the policy, fed with the failed attempts in order, takes ([decided]) ---------- *)
Fixpoint decided (idem : bool) (s : session) (cl : consistency) (tr : list (event N)) : Prop :=
  match tr with
  | [] => True
  | EvConnFail _ :: rest => decided idem s cl rest
  | EvAttempt _ c AOk :: rest => c = cl /\ decided idem s cl rest
  | EvAttempt _ c (AErr e d) :: rest =>
      c = cl /\ snd (decide s (mk_ri e idem cl)) = d /\
      decided idem (fst (decide s (mk_ri e idem cl))) (unwrap_or (carried d) cl) rest
  end.

Lemma Exec_decided idem (plan : list N) s cl last outs tr r :
  Exec decide idem plan s cl last outs tr r -> decided idem s cl tr.
Proof.
  induction 1 as [ s cl last outs | t rest s cl last | t rest s cl last outs tr r H IH
                 | t rest s cl last outs | t rest s cl last e outs s' nc tr r E H IH
                 | t rest s cl last e outs s' nc tr r E H IH
                 | t rest s cl last e outs s' E | t rest s cl last e outs s' E ];
    cbn [decided]; try rewrite E; cbn [fst snd carried]; auto.
Qed.

Lemma follow_decided_Exec idem tr : forall (plan : list N) s cl last r,
  follow plan last tr = Some r -> decided idem s cl tr ->
  Exec decide idem plan s cl last (outs_of_trace tr) tr r.
Proof.
  induction tr as [|ev tr IH]; intros plan s cl last r Hf Hd.
  - cbn [follow] in Hf. injection Hf as <-. destruct plan; constructor.
  - cbn [follow] in Hf. destruct plan as [|t plan']; [discriminate Hf|].
    destruct (ev_target ev =? t)%N eqn:Et; cbn [negb] in Hf; [|discriminate Hf].
    apply N.eqb_eq in Et.
    destruct ev as [t0 | t0 c [| e d]]; cbn [ev_target] in Et; subst t0;
      cbn [outs_of_trace map]; cbn [decided] in Hd.
    + constructor. now apply IH.
    + destruct Hd as [-> _]. destruct tr; cbn [is_nil_ev] in Hf; [|discriminate Hf].
      injection Hf as <-. constructor.
    + destruct Hd as [-> [Hd1 Hd2]].
      destruct (decide s (mk_ri e idem cl)) as [s' d'] eqn:E. cbn [fst snd] in Hd1, Hd2. subst d'.
      destruct d as [nc | nc | |]; cbn [carried] in Hd2.
      * eapply Ex_same; [exact E|]. now apply IH.
      * eapply Ex_next; [exact E|]. now apply IH.
      * destruct tr; cbn [is_nil_ev] in Hf; [|discriminate Hf]. injection Hf as <-.
        eapply Ex_dont; exact E.
      * destruct tr; cbn [is_nil_ev] in Hf; [|discriminate Hf]. injection Hf as <-.
        eapply Ex_ignore; exact E.
Qed.

Lemma fiber_run_characterised p idem cl0 plan tr r :
  (exists outs, fiber p idem cl0 plan outs = (tr, r)) <->
  (follow plan None tr = Some r /\ decided idem (new_session p) cl0 tr).
Proof.
  split.
  - intros [outs H]. split; [exact (fiber_followed _ _ _ _ _ _ _ H)|].
    apply fiber_Exec in H. exact (Exec_decided _ _ _ _ _ _ _ _ H).
  - intros [Hf Hd]. exists (outs_of_trace tr). apply fiber_Exec.
    now apply follow_decided_Exec.
Qed.

(* [fiber_canonical_outs] without its premise: also a pending run is reproduced by the outcome
   stream read off its trace *)
Lemma fiber_canonical_outs_any p idem cl0 plan outs tr r :
  fiber p idem cl0 plan outs = (tr, r) -> fiber p idem cl0 plan (outs_of_trace tr) = (tr, r).
Proof.
  intros H. apply fiber_Exec. apply follow_decided_Exec.
  - exact (fiber_followed _ _ _ _ _ _ _ H).
  - apply fiber_Exec in H. exact (Exec_decided _ _ _ _ _ _ _ _ H).
Qed.
