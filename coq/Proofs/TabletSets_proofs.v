(* Proofs about Model/TabletSets.v (property C04, tablet-backed replica sets). *)
From SV Require Import Base.Prelude Model.Tablets Model.TabletSets Proofs.Tablets_proofs.
Open Scope Z_scope.

Lemma ts_len_iter s : ts_len s = List.length (ts_iter s).
Proof. unfold ts_len, ts_iter. now rewrite map_length. Qed.

Lemma ts_nth_iter s k : ts_nth s k = nth_error (ts_iter s) k.
Proof.
  unfold ts_nth. destruct (List.length s <=? k)%nat eqn:E; [|reflexivity].
  symmetry. apply nth_error_None. apply Nat.leb_le in E. unfold ts_iter. now rewrite map_length.
Qed.

Lemma ts_choose_iter s i : ts_choose s i = nth_error (ts_iter s) i.
Proof.
  unfold ts_choose. destruct (List.length s =? 0)%nat eqn:E; [|reflexivity].
  apply Nat.eqb_eq in E. destruct s; [now destruct i|discriminate].
Qed.

Lemma skipn_cons_S' {A} (l : list A) i x r : skipn i l = x :: r -> skipn (S i) l = r.
Proof.
  revert i. induction l as [|y q IH]; intros [|i] H; cbn in *; try discriminate.
  - now injection H as _ <-.
  - now apply IH.
Qed.
Lemma nth_error_skipn' {A} (l : list A) i n : nth_error (skipn i l) n = nth_error l (i + n).
Proof. revert i. induction l as [|x r IH]; intros [|i]; cbn; try reflexivity; [now destruct n|apply IH]. Qed.
Lemma skipn_skipn' {A} (l : list A) a b : skipn a (skipn b l) = skipn (a + b) l.
Proof.
  revert l. induction b as [|b IH]; intros l; [now rewrite Nat.add_0_r|].
  destruct l as [|x r]; [now rewrite !skipn_nil|]. rewrite Nat.add_succ_r. cbn [skipn]. apply IH.
Qed.

(* next()/nth(n) interleaved, with size_hint after every operation: exactly what the operations
   mean on the iterated list, and size_hint is exact *)
Lemma ts_run_spec s ops : forall idx, (idx <= List.length s)%nat ->
  ts_run s ops idx = plist_run ops (skipn idx (ts_iter s)).
Proof.
  assert (Hl : List.length (ts_iter s) = List.length s) by (unfold ts_iter; apply map_length).
  induction ops as [|op r IH]; intros idx Hi; [reflexivity|]. cbn [ts_run plist_run]. destruct op as [|k].
  - unfold ts_next, ts_size_hint. rewrite <- (Nat.add_0_r idx) at 1. rewrite <- nth_error_skipn'.
    destruct (skipn idx (ts_iter s)) as [|x q] eqn:E; cbn [nth_error hd_error tl].
    + rewrite IH by assumption. rewrite E. cbn [List.length].
      assert (List.length (skipn idx (ts_iter s)) = 0%nat) by now rewrite E. rewrite skipn_length in H.
      replace (List.length s - idx)%nat with 0%nat by lia. reflexivity.
    + pose proof (skipn_cons_S' _ _ _ _ E) as E'.
      assert (Hq : List.length q = (List.length s - S idx)%nat) by (rewrite <- E', skipn_length; lia).
      assert (S idx <= List.length s)%nat.
      { assert (List.length (skipn idx (ts_iter s)) = S (List.length q)) by now rewrite E. rewrite skipn_length in H. lia. }
      rewrite IH by assumption. rewrite E', Hq. reflexivity.
  - unfold ts_nth_op. rewrite skipn_skipn', nth_error_skipn'.
    destruct (List.length s <=? idx + k)%nat eqn:E.
    + apply Nat.leb_le in E. rewrite IH by lia. unfold ts_size_hint.
      rewrite (proj2 (nth_error_None (ts_iter s) (idx + k))) by lia.
      rewrite !skipn_all2 by lia. rewrite Nat.sub_diag. reflexivity.
    + apply Nat.leb_gt in E. unfold ts_next, ts_size_hint.
      destruct (nth_error (ts_iter s) (idx + k)) as [x|] eqn:En.
      * rewrite IH by lia. rewrite skipn_length, Hl.
        replace (S k + idx)%nat with (S (idx + k)) by lia. reflexivity.
      * apply nth_error_None in En. lia.
Qed.

(* restricting to a datacenter = the unrestricted tablet replicas of that datacenter, in every
   state the tablet map can be in *)
Lemma ts_dc_filter hist s k tok d : Forall op_i64 hist -> run hist = Some s ->
  ts_of (lookup_dc s k tok d) = restrict_dc d (ts_of (lookup s k tok)).
Proof.
  intros H1 H2. rewrite (lookup_dc_restrict hist s k tok d H1 H2).
  destruct (lookup s k tok); reflexivity.
Qed.
