(* Proofs about the parser monad and the primitive readers of Model/FrameBase.v:
   - ntake specification; run/cost algebra of bind
   - [psafe]: a successful parse depends only on the bytes it consumed, and cutting those bytes
     short makes it fail (the basis of C08_truncation)
   - round trips of the primitive encoders/decoders (the basis of C08_roundtrip)
   - counted loops: fuel independence *)
From SV Require Import Base.Prelude Base.Bytes Model.FrameBase.
Open Scope N_scope.

(* ---- lists ---------------------------------------------------------------------------- *)
Lemma lenN_app {A} (a b : list A) : lenN (a ++ b) = lenN a + lenN b.
Proof. unfold lenN. rewrite app_length. lia. Qed.
Lemma lenN_cons {A} (x : A) (l : list A) : lenN (x :: l) = lenN l + 1.
Proof. unfold lenN. simpl length. lia. Qed.
Lemma lenN_nil {A} : lenN (@nil A) = 0.
Proof. reflexivity. Qed.
Lemma lenN_0 {A} (l : list A) : lenN l = 0 -> l = [].
Proof. destruct l; [reflexivity|]. rewrite lenN_cons. lia. Qed.

Lemma bytes_ok_app a b : bytes_ok (a ++ b) <-> bytes_ok a /\ bytes_ok b.
Proof. unfold bytes_ok. apply Forall_app. Qed.
Lemma bytes_okb_ok b : bytes_okb b = true <-> bytes_ok b.
Proof.
  unfold bytes_okb, bytes_ok. rewrite forallb_forall, Forall_forall.
  split; intros H x Hx; specialize (H x Hx); lia.
Qed.

(* ---- ntake ------------------------------------------------------------------------------ *)
Lemma ntake_aux_spec b : forall n acc,
  ntake_aux b n acc =
  if n <=? lenN b then Some (rev acc ++ firstn (N.to_nat n) b, skipn (N.to_nat n) b) else None.
Proof.
  induction b as [|x r IH]; intros n acc; cbn [ntake_aux].
  - destruct (n =? 0) eqn:E.
    + apply N.eqb_eq in E. subst n. cbn. unfold rev'. rewrite <- rev_alt, app_nil_r. reflexivity.
    + apply N.eqb_neq in E. rewrite lenN_nil.
      destruct (n <=? 0) eqn:E2; [lia|reflexivity].
  - destruct (n =? 0) eqn:E.
    + apply N.eqb_eq in E. subst n. cbn. unfold rev'. rewrite <- rev_alt, app_nil_r. reflexivity.
    + apply N.eqb_neq in E. rewrite IH, lenN_cons.
      replace (N.to_nat n) with (S (N.to_nat (N.pred n))) by lia.
      cbn [firstn skipn rev]. rewrite <- app_assoc. cbn [app].
      destruct (N.pred n <=? lenN r) eqn:E1; destruct (n <=? lenN r + 1) eqn:E2; try lia; reflexivity.
Qed.

Lemma ntake_spec n b :
  ntake n b = if n <=? lenN b then Some (firstn (N.to_nat n) b, skipn (N.to_nat n) b) else None.
Proof. unfold ntake. rewrite ntake_aux_spec. reflexivity. Qed.

Lemma ntake_app a b : ntake (lenN a) (a ++ b) = Some (a, b).
Proof.
  rewrite ntake_spec, lenN_app.
  destruct (lenN a <=? lenN a + lenN b) eqn:E; [|lia].
  unfold lenN. rewrite Nat2N.id, firstn_app, Nat.sub_diag, firstn_all, skipn_app, Nat.sub_diag, skipn_all.
  cbn. rewrite app_nil_r. reflexivity.
Qed.

Lemma ntake_some n b x r : ntake n b = Some (x, r) -> b = x ++ r /\ lenN x = n.
Proof.
  rewrite ntake_spec. destruct (n <=? lenN b) eqn:E; [|discriminate].
  intros H. inversion H; subst. split; [symmetry; apply firstn_skipn|].
  unfold lenN in *. rewrite firstn_length_le by lia. lia.
Qed.

Lemma ntake_short n b : lenN b < n -> ntake n b = None.
Proof. intros H. rewrite ntake_spec. destruct (n <=? lenN b) eqn:E; [lia|reflexivity]. Qed.

(* ---- capped counts --------------------------------------------------------------------------- *)
Lemma len_upto_aux_spec {A} (b : list A) : forall k acc, len_upto_aux b k acc = acc + N.min k (lenN b).
Proof.
  induction b as [|x r IH]; intros k acc; cbn [len_upto_aux]; destruct (k =? 0) eqn:E.
  - apply N.eqb_eq in E. subst. lia.
  - change (lenN (@nil A)) with 0. lia.
  - apply N.eqb_eq in E. subst. lia.
  - apply N.eqb_neq in E. rewrite IH, lenN_cons. lia.
Qed.
Lemma len_upto_spec {A} k (b : list A) : len_upto k b = N.min k (lenN b).
Proof. unfold len_upto. rewrite len_upto_aux_spec. lia. Qed.
Lemma capped_eq count per b : 0 < per -> capped count per b = N.min count (lenN b / per).
Proof.
  intros Hp. unfold capped. rewrite len_upto_spec.
  destruct (N.le_gt_cases ((count + 1) * per) (lenN b)) as [L|L].
  - replace (N.min ((count + 1) * per) (lenN b)) with ((count + 1) * per) by lia. rewrite N.div_mul by lia.
    assert (count + 1 <= lenN b / per) by (apply N.div_le_lower_bound; lia). lia.
  - replace (N.min ((count + 1) * per) (lenN b)) with (lenN b) by lia. reflexivity.
Qed.

(* ---- run / cost algebra ------------------------------------------------------------------ *)
Lemma run_bind {A B} (p : parser A) (f : A -> parser B) b :
  run (bind p f) b = match run p b with Ok (a, r) => run (f a) r | Err e => Err e end.
Proof. unfold run, bind. destruct (p b) as [[[a r]|e] c]; reflexivity. Qed.
Lemma run_ret {A} (a : A) b : run (ret a) b = Ok (a, b).
Proof. reflexivity. Qed.
Lemma run_fail {A} e b : run (@fail A e) b = Err e.
Proof. reflexivity. Qed.
Lemma run_pmap {A B} (f : A -> B) p b :
  run (pmap f p) b = match run p b with Ok (a, r) => Ok (f a, r) | Err e => Err e end.
Proof. unfold pmap. rewrite run_bind. destruct (run p b) as [[a r]|e]; reflexivity. Qed.
Lemma run_map_err {A} g (p : parser A) b :
  run (map_err g p) b = match run p b with Ok x => Ok x | Err e => Err (g e) end.
Proof. unfold run, map_err. destruct (p b) as [[x|e] c]; reflexivity. Qed.
Lemma run_tick_alloc n b : run (tick_alloc n) b = Ok (tt, b).
Proof. reflexivity. Qed.
Lemma run_tick_alloc_capped a b c x : run (tick_alloc_capped a b c) x = Ok (tt, x).
Proof. reflexivity. Qed.
Lemma run_tick_hm_capped a b c x : run (tick_hm_capped a b c) x = Ok (tt, x).
Proof. reflexivity. Qed.
Lemma run_tick_depth n b : run (tick_depth n) b = Ok (tt, b).
Proof. reflexivity. Qed.

Lemma cost_bind {A B} (p : parser A) (f : A -> parser B) b :
  cost_of (bind p f) b =
  match run p b with
  | Ok (a, r) => cadd (cost_of p b) (cost_of (f a) r)
  | Err _ => cost_of p b
  end.
Proof. unfold cost_of, run, bind. destruct (p b) as [[[a r]|e] c]; reflexivity. Qed.

(* ---- psafe -------------------------------------------------------------------------------- *)
(* q is a strict prefix of c *)
Definition sprefix (q c : bytes) : Prop := exists t, t <> [] /\ c = q ++ t.

Lemma sprefix_app q c1 c2 :
  sprefix q (c1 ++ c2) -> sprefix q c1 \/ exists q2, q = c1 ++ q2 /\ sprefix q2 c2.
Proof.
  intros (t & Ht & E). symmetry in E. apply app_eq_app in E as (l & [[E1 E2]|[E1 E2]]).
  - right. exists l. split; [exact E1|]. exists t. split; [exact Ht|exact E2].
  - destruct l as [|x l].
    + rewrite app_nil_r in E1. cbn in E2. right. exists []. rewrite app_nil_r. split; [symmetry; exact E1|].
      exists t. split; [exact Ht|]. symmetry. exact E2.
    + left. exists (x :: l). split; [discriminate|exact E1].
Qed.

Lemma sprefix_nil q : ~ sprefix q [].
Proof. intros (t & Ht & E). destruct q; destruct t; try discriminate. congruence. Qed.

Lemma sprefix_len q c : sprefix q c -> lenN q < lenN c.
Proof. intros (t & Ht & ->). rewrite lenN_app. destruct t; [congruence|]. rewrite lenN_cons. lia. Qed.

(* a successful run reads a prefix [c] of its input; it gives the same value whatever follows
   [c], and fails when [c] is cut short *)
Definition psafe {A} (p : parser A) : Prop :=
  forall b v r, run p b = Ok (v, r) ->
    exists c, b = c ++ r /\
              (forall r', run p (c ++ r') = Ok (v, r')) /\
              (forall q, sprefix q c -> exists e, run p q = Err e).

Lemma psafe_ret {A} (a : A) : psafe (ret a).
Proof.
  intros b v r H. rewrite run_ret in H. inversion H; subst. exists []. split; [reflexivity|]. split.
  - intros r'. reflexivity.
  - intros q Hq. exfalso. eapply sprefix_nil; eauto.
Qed.
Lemma psafe_fail {A} e : psafe (@fail A e).
Proof. intros b v r H. rewrite run_fail in H. discriminate. Qed.
Lemma psafe_noread {A} (p : parser A) :
  (forall b, match run p b with Ok (_, r) => r = b | Err _ => True end) ->
  (forall b b', match run p b with Ok (v, _) => run p b' = Ok (v, b') | Err _ => True end) ->
  psafe p.
Proof.
  intros H1 H2 b v r H. exists []. specialize (H1 b). rewrite H in H1. subst r. split; [reflexivity|]. split.
  - intros r'. specialize (H2 b r'). rewrite H in H2. exact H2.
  - intros q Hq. exfalso. eapply sprefix_nil; eauto.
Qed.
Lemma psafe_tick_alloc n : psafe (tick_alloc n).
Proof. apply psafe_noread; intros; reflexivity. Qed.
Lemma psafe_tick_alloc_capped a b c : psafe (tick_alloc_capped a b c).
Proof. apply psafe_noread; intros; reflexivity. Qed.
Lemma psafe_tick_hm_capped a b c : psafe (tick_hm_capped a b c).
Proof. apply psafe_noread; intros; reflexivity. Qed.
Lemma psafe_tick_depth n : psafe (tick_depth n).
Proof. apply psafe_noread; intros; reflexivity. Qed.

Lemma psafe_bind {A B} (p : parser A) (f : A -> parser B) :
  psafe p -> (forall a, psafe (f a)) -> psafe (bind p f).
Proof.
  intros Hp Hf b v r H. rewrite run_bind in H.
  destruct (run p b) as [[a r1]|e] eqn:E1; [|discriminate].
  destruct (Hp _ _ _ E1) as (c1 & Eb & X1 & T1).
  destruct (Hf a _ _ _ H) as (c2 & Er & X2 & T2).
  exists (c1 ++ c2). split; [subst; rewrite <- app_assoc; reflexivity|]. split.
  - intros r'. rewrite run_bind, <- app_assoc, X1. apply X2.
  - intros q Hq. rewrite run_bind. apply sprefix_app in Hq as [Hq|(q2 & -> & Hq)].
    + destruct (T1 _ Hq) as (e & ->). eauto.
    + rewrite X1. apply T2. exact Hq.
Qed.
Lemma psafe_pmap {A B} (g : A -> B) p : psafe p -> psafe (pmap g p).
Proof. intros H. apply psafe_bind; [exact H|]. intros a. apply psafe_ret. Qed.
Lemma psafe_map_err {A} g (p : parser A) : psafe p -> psafe (map_err g p).
Proof.
  intros Hp b v r H. rewrite run_map_err in H.
  destruct (run p b) as [[a r1]|e] eqn:E1; [|discriminate]. inversion H; subst.
  destruct (Hp _ _ _ E1) as (c & Eb & X & T). exists c. split; [exact Eb|]. split.
  - intros r'. rewrite run_map_err, X. reflexivity.
  - intros q Hq. rewrite run_map_err. destruct (T _ Hq) as (e & ->). eauto.
Qed.
Lemma psafe_if {A} (c : bool) (p q : parser A) : psafe p -> psafe q -> psafe (if c then p else q).
Proof. destruct c; auto. Qed.

Lemma run_read_raw n b :
  run (read_raw n) b = match ntake n b with Some (x, r) => Ok (x, r) | None => Err ETooFew end.
Proof. unfold run, read_raw. destruct (ntake n b) as [[x r]|]; reflexivity. Qed.
Lemma run_read_be k b :
  run (read_be k) b = match ntake k b with Some (x, r) => Ok (be_dec x, r) | None => Err EIo end.
Proof. unfold run, read_be. destruct (ntake k b) as [[x r]|]; reflexivity. Qed.

Lemma psafe_read_raw n : psafe (read_raw n).
Proof.
  intros b v r H. rewrite run_read_raw in H. destruct (ntake n b) as [[x r1]|] eqn:E; [|discriminate].
  inversion H; subst. apply ntake_some in E as [-> Hl]. exists v. split; [reflexivity|]. split.
  - intros r'. rewrite run_read_raw. subst n. rewrite ntake_app. reflexivity.
  - intros q Hq. rewrite run_read_raw, ntake_short; [eauto|]. apply sprefix_len in Hq. lia.
Qed.
Lemma psafe_read_be k : psafe (read_be k).
Proof.
  intros b v r H. rewrite run_read_be in H. destruct (ntake k b) as [[x r1]|] eqn:E; [|discriminate].
  inversion H; subst. apply ntake_some in E as [-> Hl]. exists x. split; [reflexivity|]. split.
  - intros r'. rewrite run_read_be. subst k. rewrite ntake_app. reflexivity.
  - intros q Hq. rewrite run_read_be, ntake_short; [eauto|]. apply sprefix_len in Hq. lia.
Qed.

Ltac psafe_step :=
  first [ apply psafe_ret | apply psafe_fail | apply psafe_tick_alloc | apply psafe_tick_alloc_capped | apply psafe_tick_hm_capped
        | apply psafe_tick_depth | apply psafe_read_raw | apply psafe_read_be
        | apply psafe_pmap | apply psafe_map_err | apply psafe_bind; [|intros ?]
        | apply psafe_if ].
Create HintDb psafe.
Ltac psafe_tac := repeat first [ solve [auto with psafe] | psafe_step ].

Lemma psafe_read_u8 : psafe read_u8. Proof. apply psafe_read_be. Qed.
Lemma psafe_read_short : psafe read_short. Proof. apply psafe_read_be. Qed.
Lemma psafe_read_int : psafe read_int. Proof. repeat psafe_step. Qed.
Lemma psafe_read_long : psafe read_long. Proof. repeat psafe_step. Qed.
#[export] Hint Resolve psafe_read_u8 psafe_read_short psafe_read_int psafe_read_long : psafe.
Lemma psafe_read_int_length : psafe read_int_length.
Proof. unfold read_int_length. psafe_tac. Qed.
#[export] Hint Resolve psafe_read_int_length : psafe.
Lemma psafe_read_string : psafe read_string.
Proof. unfold read_string. psafe_tac. Qed.
Lemma psafe_read_short_bytes : psafe read_short_bytes.
Proof. unfold read_short_bytes. psafe_tac. Qed.
Lemma psafe_read_bytes : psafe read_bytes.
Proof. unfold read_bytes. psafe_tac. Qed.
Lemma psafe_read_bytes_opt : psafe read_bytes_opt.
Proof. unfold read_bytes_opt. psafe_tac. Qed.
#[export] Hint Resolve psafe_read_string psafe_read_short_bytes psafe_read_bytes psafe_read_bytes_opt : psafe.

(* ---- counted loops ------------------------------------------------------------------------- *)
Lemma repeat_f_unfold {A} fuel (p : parser A) n :
  repeat_f fuel p n =
  if n =? 0 then ret []
  else match fuel with
       | O => fail EOutOfFuel
       | S f => bind p (fun a => bind (repeat_f f p (n - 1)) (fun l => ret (a :: l)))
       end.
Proof. destruct fuel; reflexivity. Qed.

Lemma psafe_repeat_f {A} (p : parser A) : psafe p -> forall fuel n, psafe (repeat_f fuel p n).
Proof.
  intros Hp fuel. induction fuel as [|f IH]; intros n; rewrite repeat_f_unfold;
    destruct (n =? 0); repeat psafe_step; auto.
Qed.

(* success needs one unit of fuel per element *)
Lemma repeat_f_ok_len {A} (p : parser A) : forall fuel n b v r,
  run (repeat_f fuel p n) b = Ok (v, r) -> lenN v = n /\ (N.to_nat n <= fuel)%nat.
Proof.
  induction fuel as [|f IH]; intros n b v r H; rewrite repeat_f_unfold in H;
    destruct (n =? 0) eqn:E.
  - rewrite run_ret in H. inversion H; subst. apply N.eqb_eq in E. subst. split; [reflexivity|lia].
  - rewrite run_fail in H. discriminate.
  - rewrite run_ret in H. inversion H; subst. apply N.eqb_eq in E. subst. split; [reflexivity|lia].
  - apply N.eqb_neq in E. rewrite run_bind in H. destruct (run p b) as [[a r1]|e]; [|discriminate].
    rewrite run_bind in H. destruct (run (repeat_f f p (n - 1)) r1) as [[l r2]|e] eqn:E2; [|discriminate].
    rewrite run_ret in H. inversion H; subst. apply IH in E2 as [L F]. rewrite lenN_cons. split; lia.
Qed.

(* with enough fuel the result does not depend on the fuel *)
Lemma repeat_f_fuel {A} (p : parser A) : forall f f' n b,
  (N.to_nat n <= f)%nat -> (N.to_nat n <= f')%nat ->
  run (repeat_f f p n) b = run (repeat_f f' p n) b.
Proof.
  induction f as [|f IH]; intros f' n b H H'; rewrite (repeat_f_unfold f'), (repeat_f_unfold _ p n).
  - assert (n = 0) by lia. subst. reflexivity.
  - destruct (n =? 0) eqn:E; [reflexivity|]. apply N.eqb_neq in E.
    destruct f' as [|f']; [lia|]. rewrite !run_bind. destruct (run p b) as [[a r1]|e]; [|reflexivity].
    rewrite !run_bind. rewrite (IH f' (n - 1) r1) by lia. reflexivity.
Qed.

Lemma repeat_f_low_fuel {A} (p : parser A) f n b :
  (f < N.to_nat n)%nat -> exists e, run (repeat_f f p n) b = Err e.
Proof.
  intros H. destruct (run (repeat_f f p n) b) as [[v r]|e] eqn:E; [|eauto].
  apply repeat_f_ok_len in E as [_ F]. lia.
Qed.

(* a parser that consumes at least one byte when it succeeds *)
Definition consuming {A} (p : parser A) : Prop :=
  forall b v r, run p b = Ok (v, r) -> (length r < length b)%nat.

Lemma repeat_f_consumes {A} (p : parser A) : consuming p -> forall fuel n b v r,
  run (repeat_f fuel p n) b = Ok (v, r) -> (N.to_nat n + length r <= length b)%nat.
Proof.
  intros Hc. induction fuel as [|f IH]; intros n b v r H; rewrite repeat_f_unfold in H;
    destruct (n =? 0) eqn:E.
  - rewrite run_ret in H. inversion H; subst. apply N.eqb_eq in E. subst. cbn. lia.
  - rewrite run_fail in H. discriminate.
  - rewrite run_ret in H. inversion H; subst. apply N.eqb_eq in E. subst. cbn. lia.
  - apply N.eqb_neq in E. rewrite run_bind in H. destruct (run p b) as [[a r1]|e] eqn:E1; [|discriminate].
    rewrite run_bind in H. destruct (run (repeat_f f p (n - 1)) r1) as [[l r2]|e] eqn:E2; [|discriminate].
    rewrite run_ret in H. inversion H; subst. apply IH in E2. apply Hc in E1. lia.
Qed.

Lemma psafe_repeatS {A} (p : parser A) n : psafe p -> psafe (repeatS p n).
Proof. intros H. apply psafe_repeat_f. exact H. Qed.

Lemma psafe_repeatN {A} (p : parser A) n : psafe p -> consuming p -> psafe (repeatN p n).
Proof.
  intros Hp Hc b v r H. unfold run, repeatN in H. fold (run (repeat_f (S (length b)) p n) b) in H.
  destruct (psafe_repeat_f p Hp _ _ _ _ _ H) as (c & Eb & X & T).
  pose proof (repeat_f_ok_len _ _ _ _ _ _ H) as [_ F].
  exists c. split; [exact Eb|]. split.
  - intros r'. specialize (X r'). pose proof (repeat_f_consumes p Hc _ _ _ _ _ X) as C.
    unfold run, repeatN. fold (run (repeat_f (S (length (c ++ r'))) p n) (c ++ r')).
    rewrite <- X. apply repeat_f_fuel; lia.
  - intros q Hq. unfold run, repeatN. fold (run (repeat_f (S (length q)) p n) q).
    destruct (le_lt_dec (N.to_nat n) (S (length q))) as [L|L].
    + rewrite (repeat_f_fuel p _ (S (length b))) by lia. apply T. exact Hq.
    + apply repeat_f_low_fuel. exact L.
Qed.

(* repeatN never runs out of fuel when its element parser consumes input *)
Lemma repeat_f_no_oof {A} (p : parser A) :
  consuming p -> (forall b, run p b <> Err EOutOfFuel) ->
  forall fuel n b, (length b < fuel)%nat -> run (repeat_f fuel p n) b <> Err EOutOfFuel.
Proof.
  intros Hc Hp. induction fuel as [|f IH]; intros n b L; [lia|].
  rewrite repeat_f_unfold. destruct (n =? 0); [rewrite run_ret; discriminate|].
  rewrite run_bind. destruct (run p b) as [[a r1]|e] eqn:E1; [|intros X; inversion X; subst; eapply Hp; eauto].
  rewrite run_bind. apply Hc in E1.
  destruct (run (repeat_f f p (n - 1)) r1) as [[l r2]|e] eqn:E2; [rewrite run_ret; discriminate|].
  intros X. inversion X; subst. eapply (IH (n - 1) r1); [lia|exact E2].
Qed.
Lemma repeatN_no_oof {A} (p : parser A) n b :
  consuming p -> (forall b, run p b <> Err EOutOfFuel) -> run (repeatN p n) b <> Err EOutOfFuel.
Proof.
  intros Hc Hp. unfold run, repeatN. fold (run (repeat_f (S (length b)) p n) b).
  apply repeat_f_no_oof; auto.
Qed.
Lemma repeatS_no_oof {A} (p : parser A) n b :
  (forall b, run p b <> Err EOutOfFuel) -> run (repeatS p n) b <> Err EOutOfFuel.
Proof.
  intros Hp. unfold repeatS. remember (N.to_nat n) as f eqn:Ef. revert n b Ef.
  induction f as [|f IH]; intros n b Ef; rewrite repeat_f_unfold.
  - assert (n = 0) by lia. subst. cbn. discriminate.
  - destruct (n =? 0); [rewrite run_ret; discriminate|].
    rewrite run_bind. destruct (run p b) as [[a r1]|e] eqn:E1; [|intros X; inversion X; subst; eapply Hp; eauto].
    rewrite run_bind. destruct (run (repeat_f f p (n - 1)) r1) as [[l r2]|e] eqn:E2; [rewrite run_ret; discriminate|].
    intros X. inversion X; subst. eapply (IH (n - 1) r1); [lia|exact E2].
Qed.

(* ---- round trips of the primitives ------------------------------------------------------- *)
Lemma run_read_be_enc k v r :
  v < 256 ^ N.of_nat k -> run (read_be (N.of_nat k)) (be_enc k v ++ r) = Ok (v, r).
Proof.
  intros H. rewrite run_read_be.
  replace (N.of_nat k) with (lenN (be_enc k v)) by (unfold lenN; rewrite be_enc_length; reflexivity).
  rewrite ntake_app, be_dec_enc_small by exact H. reflexivity.
Qed.

Lemma run_read_short_enc v r : v < 65536 -> run read_short (enc_short v ++ r) = Ok (v, r).
Proof. intros H. apply (run_read_be_enc 2). exact H. Qed.

Lemma run_read_u8_one v r : v < 256 -> run read_u8 (v :: r) = Ok (v, r).
Proof.
  intros H. change (v :: r) with ([v] ++ r). unfold read_u8. rewrite run_read_be.
  change 1 with (lenN [v]). rewrite ntake_app. cbn. f_equal.
Qed.

Lemma run_read_int_enc z r : wf_int z -> run read_int (enc_int z ++ r) = Ok (z, r).
Proof.
  intros H. unfold read_int, enc_int. rewrite run_pmap, run_read_be.
  replace 4 with (lenN (enc_signed 4 z)) by (unfold lenN, enc_signed; rewrite be_enc_length; reflexivity).
  rewrite ntake_app. f_equal. f_equal.
  pose proof (dec_enc_signed 4 z ltac:(lia) H) as D. unfold dec_signed in D.
  unfold enc_signed in D at 1. rewrite be_enc_length in D. exact D.
Qed.

Lemma run_read_int_length_enc n r :
  n < 2 ^ 31 -> run read_int_length (enc_int (Z.of_N n) ++ r) = Ok (n, r).
Proof.
  intros H. unfold read_int_length. rewrite run_bind, run_read_int_enc by (unfold wf_int; lia).
  destruct (Z.of_N n <? 0)%Z eqn:E; [lia|]. rewrite run_ret, N2Z.id. reflexivity.
Qed.

Lemma run_read_raw_app x r : run (read_raw (lenN x)) (x ++ r) = Ok (x, r).
Proof. rewrite run_read_raw, ntake_app. reflexivity. Qed.

Lemma run_read_string_enc s r : wf_string s -> run read_string (enc_string s ++ r) = Ok (s, r).
Proof.
  intros (Hb & Hl & Hu). unfold read_string, enc_string. rewrite <- app_assoc.
  rewrite run_bind, run_read_short_enc by exact Hl. rewrite run_bind, run_read_raw_app, Hu. reflexivity.
Qed.

Lemma run_read_short_bytes_enc s r :
  wf_short_bytes s -> run read_short_bytes (enc_short_bytes s ++ r) = Ok (s, r).
Proof.
  intros (Hb & Hl). unfold read_short_bytes, enc_short_bytes. rewrite <- app_assoc.
  rewrite run_bind, run_read_short_enc by exact Hl. apply run_read_raw_app.
Qed.

Lemma run_read_bytes_enc s r : wf_bytes s -> run read_bytes (enc_bytes s ++ r) = Ok (s, r).
Proof.
  intros (Hb & Hl). unfold read_bytes, enc_bytes. rewrite <- app_assoc.
  rewrite run_bind, run_read_int_length_enc by exact Hl. apply run_read_raw_app.
Qed.

Lemma run_read_bytes_opt_enc o r :
  match o with Some s => wf_bytes s | None => True end ->
  run read_bytes_opt (enc_bytes_opt o ++ r) = Ok (o, r).
Proof.
  intros H. unfold read_bytes_opt. destruct o as [s|]; cbn [enc_bytes_opt].
  - destruct H as (Hb & Hl). unfold enc_bytes. rewrite <- app_assoc.
    rewrite run_bind, run_read_int_enc by (unfold wf_int; lia).
    destruct (Z.of_N (lenN s) <? 0)%Z eqn:E; [lia|].
    rewrite run_pmap, N2Z.id, run_read_raw_app. reflexivity.
  - rewrite run_bind, run_read_int_enc by (unfold wf_int; lia). reflexivity.
Qed.

(* loops *)
Lemma run_repeat_f_enc {A} (p : parser A) (enc : A -> bytes) :
  forall vs fuel r,
  (length vs <= fuel)%nat ->
  Forall (fun v => forall r, run p (enc v ++ r) = Ok (v, r)) vs ->
  run (repeat_f fuel p (lenN vs)) (flat_map enc vs ++ r) = Ok (vs, r).
Proof.
  induction vs as [|v vs IH]; intros fuel r L F; rewrite repeat_f_unfold.
  - reflexivity.
  - rewrite lenN_cons. destruct (lenN vs + 1 =? 0) eqn:E; [lia|].
    destruct fuel as [|f]; [cbn in L; lia|]. inversion F as [|? ? Fv Fvs]; subst.
    cbn [flat_map]. rewrite <- app_assoc, run_bind, Fv, run_bind.
    replace (lenN vs + 1 - 1) with (lenN vs) by lia.
    rewrite IH; [reflexivity|cbn in L; lia|exact Fvs].
Qed.

Lemma run_repeatS_enc {A} (p : parser A) (enc : A -> bytes) vs r :
  Forall (fun v => forall r, run p (enc v ++ r) = Ok (v, r)) vs ->
  run (repeatS p (lenN vs)) (flat_map enc vs ++ r) = Ok (vs, r).
Proof. intros F. unfold repeatS. apply run_repeat_f_enc; [unfold lenN; lia|exact F]. Qed.

Lemma length_flat_map_ge {A} (enc : A -> bytes) vs :
  Forall (fun v => enc v <> []) vs -> (length vs <= length (flat_map enc vs))%nat.
Proof.
  induction 1 as [|v vs Hv _ IH]; [cbn; lia|]. cbn [flat_map]. rewrite app_length. cbn [length].
  destruct (enc v); [congruence|]. cbn [length]. lia.
Qed.

Lemma run_repeatN_enc {A} (p : parser A) (enc : A -> bytes) vs r :
  Forall (fun v => forall r, run p (enc v ++ r) = Ok (v, r)) vs ->
  Forall (fun v => enc v <> []) vs ->
  run (repeatN p (lenN vs)) (flat_map enc vs ++ r) = Ok (vs, r).
Proof.
  intros F NE. unfold run, repeatN.
  fold (run (repeat_f (S (length (flat_map enc vs ++ r))) p (lenN vs)) (flat_map enc vs ++ r)).
  apply run_repeat_f_enc; [|exact F]. pose proof (length_flat_map_ge enc vs NE). rewrite app_length. lia.
Qed.

Lemma run_read_string_list_enc l r :
  wf_string_list l -> run read_string_list (enc_string_list l ++ r) = Ok (l, r).
Proof.
  intros (Hl & Hs). unfold read_string_list, enc_string_list, enc_list. rewrite <- app_assoc.
  rewrite run_bind, run_read_short_enc by exact Hl. rewrite run_bind, run_tick_alloc_capped.
  apply run_repeatS_enc. eapply Forall_impl; [|exact Hs]. intros s Hw r'. apply run_read_string_enc. exact Hw.
Qed.

#[export] Hint Resolve psafe_repeatS : psafe.
Lemma psafe_read_string_list : psafe read_string_list.
Proof. unfold read_string_list. psafe_tac. Qed.
#[export] Hint Resolve psafe_read_string_list : psafe.

(* maps: decoding inserts into a HashMap; without duplicate keys that is the identity *)
Lemma bytes_eqb_eq a b : bytes_eqb a b = true <-> a = b.
Proof. unfold bytes_eqb. destruct (list_eq_dec N.eq_dec a b); split; congruence. Qed.

Lemma hm_insert_fresh {V} (m : list (bytes * V)) k v :
  ~ In k (map fst m) -> hm_insert m k v = m ++ [(k, v)].
Proof.
  induction m as [|[k' v'] m IH]; intros H; [reflexivity|]. cbn [hm_insert].
  destruct (bytes_eqb k' k) eqn:E.
  - apply bytes_eqb_eq in E. subst. exfalso. apply H. left. reflexivity.
  - rewrite IH; [reflexivity|]. intros X. apply H. right. exact X.
Qed.

Lemma hm_of_list_nodup {V} (l : list (bytes * V)) : keys_nodup l -> hm_of_list l = l.
Proof.
  unfold hm_of_list, keys_nodup.
  assert (G : forall (l acc : list (bytes * V)), NoDup (map fst (acc ++ l)) ->
              fold_left (fun m kv => hm_insert m (fst kv) (snd kv)) l acc = acc ++ l).
  { clear l. induction l as [|[k v] l IH]; intros acc H; cbn [fold_left].
    - rewrite app_nil_r. reflexivity.
    - cbn [fst snd]. rewrite hm_insert_fresh.
      + rewrite IH; rewrite <- app_assoc; [reflexivity|exact H].
      + rewrite map_app in H. cbn [map fst] in H. apply NoDup_remove_2 in H.
        intros X. apply H. apply in_or_app. left. exact X. }
  intros H. apply (G l []). exact H.
Qed.

Lemma run_read_bytes_map_enc m r :
  lenN m < 65536 -> keys_nodup m -> Forall (fun kv => wf_string (fst kv) /\ wf_bytes (snd kv)) m ->
  run read_bytes_map (enc_bytes_map m ++ r) = Ok (m, r).
Proof.
  intros Hl Hn Hw. unfold read_bytes_map, enc_bytes_map, enc_list. rewrite <- app_assoc.
  rewrite run_bind, run_read_short_enc by exact Hl. rewrite run_bind, run_tick_hm_capped, run_bind.
  rewrite (run_repeatS_enc _ (fun kv => enc_string (fst kv) ++ enc_bytes (snd kv))).
  - rewrite run_ret, hm_of_list_nodup by exact Hn. reflexivity.
  - eapply Forall_impl; [|exact Hw]. intros [k v] [Hk Hv] r'. cbn [fst snd]. rewrite <- app_assoc.
    rewrite run_bind, run_read_string_enc by exact Hk. rewrite run_bind, run_read_bytes_enc by exact Hv.
    reflexivity.
Qed.

Lemma run_read_string_multimap_enc m r :
  lenN m < 65536 -> keys_nodup m -> Forall (fun kv => wf_string (fst kv) /\ wf_string_list (snd kv)) m ->
  run read_string_multimap (enc_string_multimap m ++ r) = Ok (m, r).
Proof.
  intros Hl Hn Hw. unfold read_string_multimap, enc_string_multimap, enc_list. rewrite <- app_assoc.
  rewrite run_bind, run_read_short_enc by exact Hl. rewrite run_bind, run_tick_hm_capped, run_bind.
  rewrite (run_repeatS_enc _ (fun kv => enc_string (fst kv) ++ enc_string_list (snd kv))).
  - rewrite run_ret, hm_of_list_nodup by exact Hn. reflexivity.
  - eapply Forall_impl; [|exact Hw]. intros [k v] [Hk Hv] r'. cbn [fst snd]. rewrite <- app_assoc.
    rewrite run_bind, run_read_string_enc by exact Hk. rewrite run_bind, run_read_string_list_enc by exact Hv.
    reflexivity.
Qed.

Lemma psafe_read_bytes_map : psafe read_bytes_map.
Proof. unfold read_bytes_map. psafe_tac. apply psafe_repeatS. psafe_tac. Qed.
Lemma psafe_read_string_multimap : psafe read_string_multimap.
Proof. unfold read_string_multimap. psafe_tac. apply psafe_repeatS. psafe_tac. Qed.

Lemma psafe_read_uuid : psafe read_uuid. Proof. apply psafe_read_raw. Qed.
Lemma psafe_read_inet : psafe read_inet.
Proof. unfold read_inet. psafe_tac. Qed.
Lemma psafe_read_consistency : psafe read_consistency.
Proof. unfold read_consistency. psafe_tac. Qed.
#[export] Hint Resolve psafe_read_bytes_map psafe_read_string_multimap psafe_read_uuid psafe_read_inet
  psafe_read_consistency : psafe.

Lemma run_read_inet_enc a r : wf_inet a -> run read_inet (enc_inet a ++ r) = Ok (a, r).
Proof.
  destruct a as [ip port]. intros (Hb & Hl & Hp). cbn [fst snd] in *. unfold read_inet, enc_inet.
  cbn [fst snd app]. rewrite <- app_assoc.
  rewrite run_bind, run_read_u8_one by (destruct Hl as [-> | ->]; lia). cbv beta iota.
  assert (E : (lenN ip =? 4) || (lenN ip =? 16) = true) by (destruct Hl as [-> | ->]; reflexivity).
  rewrite E. rewrite run_bind, run_read_raw_app. cbv beta iota.
  rewrite run_bind, run_read_int_enc by (unfold wf_int; lia). cbv beta iota.
  destruct ((Z.of_N port <? 0) || (65535 <? Z.of_N port))%Z eqn:E2; [lia|].
  rewrite run_ret, N2Z.id. reflexivity.
Qed.

Lemma run_read_consistency_enc cl r :
  cl <= 10 -> run read_consistency (enc_short cl ++ r) = Ok (cl, r).
Proof.
  intros H. unfold read_consistency. rewrite run_bind, run_read_short_enc by lia.
  unfold consistency_ok. destruct (cl <=? 10) eqn:E; [reflexivity|lia].
Qed.

(* consumption facts used for the loops *)
Lemma consuming_bind_l {A B} (p : parser A) (f : A -> parser B) :
  consuming p -> (forall a b v r, run (f a) b = Ok (v, r) -> (length r <= length b)%nat) ->
  consuming (bind p f).
Proof.
  intros Hp Hf b v r H. rewrite run_bind in H. destruct (run p b) as [[a r1]|e] eqn:E; [|discriminate].
  apply Hp in E. apply Hf in H. lia.
Qed.
Lemma psafe_shrinks {A} (p : parser A) : psafe p -> forall b v r, run p b = Ok (v, r) -> (length r <= length b)%nat.
Proof. intros Hp b v r H. destruct (Hp _ _ _ H) as (c & -> & _). rewrite app_length. lia. Qed.
Lemma consuming_read_be k : 0 < k -> consuming (read_be k).
Proof.
  intros Hk b v r H. rewrite run_read_be in H. destruct (ntake k b) as [[x r1]|] eqn:E; [|discriminate].
  inversion H; subst. apply ntake_some in E as [-> L]. rewrite app_length. unfold lenN in L. lia.
Qed.
Lemma consuming_read_short : consuming read_short. Proof. apply consuming_read_be. lia. Qed.
Lemma consuming_read_string : consuming read_string.
Proof.
  unfold read_string. apply consuming_bind_l; [apply consuming_read_short|].
  intros a. apply psafe_shrinks. psafe_tac.
Qed.
Lemma consuming_read_int : consuming read_int.
Proof.
  intros b v r H. unfold read_int in H. rewrite run_pmap in H.
  destruct (run (read_be 4) b) as [[a r1]|e] eqn:E; [|discriminate]. inversion H; subst.
  eapply consuming_read_be; [|exact E]. lia.
Qed.
Lemma consuming_read_bytes_opt : consuming read_bytes_opt.
Proof.
  unfold read_bytes_opt. apply consuming_bind_l; [apply consuming_read_int|].
  intros a. apply psafe_shrinks. psafe_tac.
Qed.

(* ---- fuel: [noof p] = p never reports EOutOfFuel ---------------------------------------------- *)
Definition noof {A} (p : parser A) : Prop := forall b, run p b <> Err EOutOfFuel.
Lemma noof_ret {A} (a : A) : noof (ret a). Proof. intros b. rewrite run_ret. discriminate. Qed.
Lemma noof_fail {A} e : e <> EOutOfFuel -> noof (@fail A e).
Proof. intros H b. rewrite run_fail. congruence. Qed.
Lemma noof_bind {A B} (p : parser A) (f : A -> parser B) : noof p -> (forall a, noof (f a)) -> noof (bind p f).
Proof.
  intros Hp Hf b. rewrite run_bind. destruct (run p b) as [[a r]|e] eqn:E; [apply Hf|].
  intros X. inversion X; subst. eapply Hp; eauto.
Qed.
Lemma noof_pmap {A B} (g : A -> B) p : noof p -> noof (pmap g p).
Proof. intros H. apply noof_bind; [exact H|intros; apply noof_ret]. Qed.
Lemma noof_if {A} (c : bool) (p q : parser A) : noof p -> noof q -> noof (if c then p else q).
Proof. destruct c; auto. Qed.
Lemma noof_read_raw n : noof (read_raw n).
Proof. intros b. rewrite run_read_raw. destruct (ntake n b) as [[? ?]|]; discriminate. Qed.
Lemma noof_read_be n : noof (read_be n).
Proof. intros b. rewrite run_read_be. destruct (ntake n b) as [[? ?]|]; discriminate. Qed.
Lemma noof_tick_alloc n : noof (tick_alloc n). Proof. intros b. discriminate. Qed.
Lemma noof_tick_alloc_capped a b c : noof (tick_alloc_capped a b c). Proof. intros x. discriminate. Qed.
Lemma noof_tick_hm_capped a b c : noof (tick_hm_capped a b c). Proof. intros x. discriminate. Qed.
Lemma noof_tick_depth n : noof (tick_depth n). Proof. intros b. discriminate. Qed.
Lemma noof_map_err {A} g (p : parser A) : (forall e, g e <> EOutOfFuel) -> noof (map_err g p).
Proof. intros Hg b. rewrite run_map_err. destruct (run p b); [discriminate|]. intros X. inversion X. eapply Hg; eauto. Qed.
Lemma noof_repeatS {A} (p : parser A) n : noof p -> noof (repeatS p n).
Proof. intros H b. apply repeatS_no_oof. exact H. Qed.
Lemma noof_repeatN {A} (p : parser A) n : noof p -> consuming p -> noof (repeatN p n).
Proof. intros H Hc b. apply repeatN_no_oof; assumption. Qed.

Ltac noof_step :=
  first [ apply noof_ret | apply noof_fail; discriminate | apply noof_tick_alloc | apply noof_tick_alloc_capped | apply noof_tick_hm_capped
        | apply noof_tick_depth | apply noof_read_raw | apply noof_read_be | apply noof_pmap
        | apply noof_bind; [|intros ?] | apply noof_if | apply noof_repeatS ].
Create HintDb noof.
Ltac noof_tac := repeat first [ solve [auto with noof] | noof_step ].

Lemma noof_read_u8 : noof read_u8. Proof. apply noof_read_be. Qed.
Lemma noof_read_short : noof read_short. Proof. apply noof_read_be. Qed.
Lemma noof_read_int : noof read_int. Proof. unfold read_int. noof_tac. Qed.
#[export] Hint Resolve noof_read_u8 noof_read_short noof_read_int : noof.
Lemma noof_read_int_length : noof read_int_length. Proof. unfold read_int_length. noof_tac. Qed.
#[export] Hint Resolve noof_read_int_length : noof.
Lemma noof_read_string : noof read_string. Proof. unfold read_string. noof_tac. Qed.
Lemma noof_read_short_bytes : noof read_short_bytes. Proof. unfold read_short_bytes. noof_tac. Qed.
Lemma noof_read_bytes : noof read_bytes. Proof. unfold read_bytes. noof_tac. Qed.
Lemma noof_read_bytes_opt : noof read_bytes_opt. Proof. unfold read_bytes_opt. noof_tac. Qed.
#[export] Hint Resolve noof_read_string noof_read_short_bytes noof_read_bytes noof_read_bytes_opt : noof.
Lemma noof_read_string_list : noof read_string_list. Proof. unfold read_string_list. noof_tac. Qed.
#[export] Hint Resolve noof_read_string_list : noof.
Lemma noof_read_bytes_map : noof read_bytes_map. Proof. unfold read_bytes_map. noof_tac. Qed.
Lemma noof_read_string_multimap : noof read_string_multimap. Proof. unfold read_string_multimap. noof_tac. Qed.
Lemma noof_read_uuid : noof read_uuid. Proof. apply noof_read_raw. Qed.
Lemma noof_read_inet : noof read_inet. Proof. unfold read_inet. noof_tac. Qed.
Lemma noof_read_consistency : noof read_consistency. Proof. unfold read_consistency. noof_tac. Qed.
#[export] Hint Resolve noof_read_bytes_map noof_read_string_multimap noof_read_uuid noof_read_inet
  noof_read_consistency : noof.
