(* Ghost-cost bounds (C08_alloc, C08_depth).

   Allocation: every `with_capacity` site of the decoders requests `count.min(buf.len() / per)`
   entries (commits 3ad5892, dba8b0a) and is followed by a loop over `count` elements.  On success the
   reservation is paid for by the bytes of the elements (at most KOK = 104 bytes of reservation per
   consumed byte); on a failing path the reservation is at most elem/per bytes per REMAINING byte, and
   sites nest only through the type grammar (at most 130 levels of at most 16 bytes per byte) and the
   column-spec vector (104 bytes per byte): KERR = 104 + 130 * 16 + 104 = 2288 bytes per input byte.

   [abound_k Ke S P p]: on success   alloc + P <= KOK * consumed          (P = unspent potential)
                        on failure   alloc <= Ke * |input| + S            (S = 0 everywhere now)
                        always       depth <= DEPTH_LIMIT. *)
From SV Require Import Base.Prelude Base.Bytes Model.FrameBase Model.FrameTypes Model.FrameResp
  Model.FrameCustom Proofs.FrameBase_proofs Proofs.FrameTypes_proofs Proofs.FrameResp_proofs.
Open Scope N_scope.

Definition KOK : N := 104.
Definition TYPE_RATE : N := 16.
Definition KTYPES : N := KOK + TYPE_RATE * N.of_nat TYPE_FUEL.      (* 2184 *)
Definition KERR : N := KTYPES + SZ_COLSPEC.                          (* 2288 *)

Definition abound_k (Ke S P : N) {A} (p : parser A) : Prop :=
  forall b, match p b with
            | (Ok (_, r), c) => c_alloc c + P + KOK * lenN r <= KOK * lenN b /\ c_depth c <= DEPTH_LIMIT
            | (Err _, c) => c_alloc c <= Ke * lenN b + S /\ c_depth c <= DEPTH_LIMIT
            end.

Lemma abound_weaken Ke Ke' S S' P P' {A} (p : parser A) :
  Ke <= Ke' -> S <= S' -> P' <= P -> abound_k Ke S P p -> abound_k Ke' S' P' p.
Proof.
  intros HK HS HP H b. specialize (H b). destruct (p b) as [[[v r]|e] c]; [lia|].
  assert (Ke * lenN b <= Ke' * lenN b) by (apply N.mul_le_mono_r; exact HK). lia.
Qed.

Lemma abound_ret Ke S {A} (a : A) : abound_k Ke S 0 (ret a).
Proof. intros b. cbn. unfold DEPTH_LIMIT. lia. Qed.
Lemma abound_fail Ke S P {A} e : abound_k Ke S P (@fail A e).
Proof. intros b. cbn. unfold DEPTH_LIMIT. lia. Qed.

Lemma abound_bind Ke S1 S2 P1 P2 {A B} (p : parser A) (f : A -> parser B) :
  KOK <= Ke -> abound_k Ke S1 P1 p -> (forall a, abound_k Ke S2 P2 (f a)) ->
  abound_k Ke (N.max S1 S2) (P1 + P2) (bind p f).
Proof.
  intros HK Hp Hf b. unfold bind. specialize (Hp b). destruct (p b) as [[[a r1]|e] c1]; [|lia].
  specialize (Hf a r1). destruct (f a r1) as [[[v r2]|e] c2]; cbn [fst snd cadd c_alloc c_depth]; [lia|].
  assert (lenN r1 <= lenN b) by (unfold KOK in *; lia).
  assert (Ke * lenN r1 <= Ke * lenN b) by (apply N.mul_le_mono_l; assumption).
  assert (KOK * (lenN b - lenN r1) <= Ke * (lenN b - lenN r1)) by (apply N.mul_le_mono_r; exact HK).
  unfold KOK in *. split; [nia|lia].
Qed.

(* variants that do not grow the bookkeeping *)
Lemma abound_bind0 Ke S P {A B} (p : parser A) (f : A -> parser B) :
  KOK <= Ke -> abound_k Ke S P p -> (forall a, abound_k Ke S 0 (f a)) -> abound_k Ke S P (bind p f).
Proof.
  intros HK Hp Hf. eapply abound_weaken; [reflexivity| | |apply (abound_bind Ke S S P 0); eassumption]; lia.
Qed.
Lemma abound_bind_r Ke S P {A B} (p : parser A) (f : A -> parser B) :
  KOK <= Ke -> abound_k Ke S 0 p -> (forall a, abound_k Ke S P (f a)) -> abound_k Ke S P (bind p f).
Proof.
  intros HK Hp Hf. eapply abound_weaken; [reflexivity| | |apply (abound_bind Ke S S 0 P); eassumption]; lia.
Qed.
Lemma abound_bind0w Ke S P P1 {A B} (p : parser A) (f : A -> parser B) :
  KOK <= Ke -> P <= P1 -> abound_k Ke S P1 p -> (forall a, abound_k Ke S 0 (f a)) -> abound_k Ke S P (bind p f).
Proof.
  intros HK HP Hp Hf. eapply abound_weaken; [reflexivity|reflexivity|exact HP|].
  apply abound_bind0; assumption.
Qed.
Lemma abound_pmap Ke S P {A B} (g : A -> B) p : KOK <= Ke -> abound_k Ke S P p -> abound_k Ke S P (pmap g p).
Proof. intros HK H. apply abound_bind0; [exact HK|exact H|intros; apply abound_ret]. Qed.
Lemma abound_if Ke S P {A} (c : bool) (p q : parser A) :
  abound_k Ke S P p -> abound_k Ke S P q -> abound_k Ke S P (if c then p else q).
Proof. destruct c; auto. Qed.
Lemma abound_map_err Ke S P {A} g (p : parser A) : abound_k Ke S P p -> abound_k Ke S P (map_err g p).
Proof. intros H b. specialize (H b). unfold map_err. destruct (p b) as [[[v r]|e] c]; exact H. Qed.
(* potential may be dropped; any parser with potential is a parser without *)
Lemma abound_drop Ke S P {A} (p : parser A) : abound_k Ke S P p -> abound_k Ke S 0 p.
Proof. apply abound_weaken; lia. Qed.

Lemma abound_tick_depth Ke S d : d <= DEPTH_LIMIT -> abound_k Ke S 0 (tick_depth d).
Proof. intros H b. cbn. lia. Qed.

(* reading k bytes leaves KOK * k of potential *)
Lemma abound_read_raw Ke S n : abound_k Ke S (KOK * n) (read_raw n).
Proof.
  intros b. unfold read_raw. destruct (ntake n b) as [[x r]|] eqn:E; cbn [c_alloc c_depth c0]; unfold DEPTH_LIMIT; [|lia].
  apply ntake_some in E as [-> L]. rewrite lenN_app. lia.
Qed.
Lemma abound_read_be Ke S k : abound_k Ke S (KOK * k) (read_be k).
Proof.
  intros b. unfold read_be. destruct (ntake k b) as [[x r]|] eqn:E; cbn [c_alloc c_depth c0]; unfold DEPTH_LIMIT; [|lia].
  apply ntake_some in E as [-> L]. rewrite lenN_app. lia.
Qed.

Section Generic.
Variable Ke : N.
Hypothesis HK : KOK <= Ke.

Lemma abound_read_u8 S : abound_k Ke S KOK read_u8.
Proof. eapply abound_weaken; [reflexivity|reflexivity| |apply abound_read_be]. lia. Qed.
Lemma abound_read_short S : abound_k Ke S (2 * KOK) read_short.
Proof. eapply abound_weaken; [reflexivity|reflexivity| |apply abound_read_be]. lia. Qed.
Lemma abound_read_int S : abound_k Ke S (4 * KOK) read_int.
Proof.
  unfold read_int. apply abound_pmap; [exact HK|].
  eapply abound_weaken; [reflexivity|reflexivity| |apply abound_read_be]. lia.
Qed.
Lemma abound_read_int_length S : abound_k Ke S (4 * KOK) read_int_length.
Proof.
  unfold read_int_length. apply abound_bind0; [exact HK|apply abound_read_int|intros v].
  destruct (v <? 0)%Z; [apply abound_fail|apply abound_ret].
Qed.
Lemma abound_read_string S : abound_k Ke S (2 * KOK) read_string.
Proof.
  unfold read_string. apply abound_bind0; [exact HK|apply abound_read_short|intros len].
  apply abound_bind0; [exact HK| |intros raw; destruct (utf8_valid raw); [apply abound_ret|apply abound_fail]].
  eapply abound_weaken; [reflexivity|reflexivity| |apply abound_read_raw]. lia.
Qed.
Lemma abound_read_short_bytes S : abound_k Ke S (2 * KOK) read_short_bytes.
Proof.
  unfold read_short_bytes. apply abound_bind0; [exact HK|apply abound_read_short|intros len].
  eapply abound_weaken; [reflexivity|reflexivity| |apply abound_read_raw]. lia.
Qed.
Lemma abound_read_bytes S : abound_k Ke S (4 * KOK) read_bytes.
Proof.
  unfold read_bytes. apply abound_bind0; [exact HK|apply abound_read_int_length|intros len].
  eapply abound_weaken; [reflexivity|reflexivity| |apply abound_read_raw]. lia.
Qed.
Lemma abound_read_bytes_opt S : abound_k Ke S (4 * KOK) read_bytes_opt.
Proof.
  unfold read_bytes_opt. apply abound_bind0; [exact HK|apply abound_read_int|intros len].
  destruct (len <? 0)%Z; [apply abound_ret|]. apply abound_pmap; [exact HK|].
  eapply abound_weaken; [reflexivity|reflexivity| |apply abound_read_raw]. lia.
Qed.

(* counted loops: each element carries [sz] of potential *)
Lemma abound_repeat_f S sz {A} (p : parser A) : abound_k Ke S sz p -> forall fuel n b,
  match repeat_f fuel p n b with
  | (Ok (_, r), c) => c_alloc c + n * sz + KOK * lenN r <= KOK * lenN b /\ c_depth c <= DEPTH_LIMIT
  | (Err _, c) => c_alloc c <= Ke * lenN b + S /\ c_depth c <= DEPTH_LIMIT
  end.
Proof.
  intros Hp. induction fuel as [|f IH]; intros n b; rewrite repeat_f_unfold; destruct (n =? 0) eqn:E.
  - apply N.eqb_eq in E. subst. cbn. unfold DEPTH_LIMIT. lia.
  - cbn. unfold DEPTH_LIMIT. lia.
  - apply N.eqb_eq in E. subst. cbn. unfold DEPTH_LIMIT. lia.
  - apply N.eqb_neq in E. unfold bind at 1. specialize (Hp b). destruct (p b) as [[[a r1]|e] c1]; [|exact Hp].
    unfold bind. specialize (IH (n - 1) r1). destruct (repeat_f f p (n - 1) r1) as [[[l r2]|e] c2];
      cbn [fst snd cadd c_alloc c_depth ret c0].
    + replace (n * sz) with ((n - 1) * sz + sz) by nia. lia.
    + assert (lenN r1 <= lenN b) by (unfold KOK in *; lia).
      assert (Ke * lenN r1 <= Ke * lenN b) by (apply N.mul_le_mono_l; assumption).
      assert (KOK * (lenN b - lenN r1) <= Ke * (lenN b - lenN r1)) by (apply N.mul_le_mono_r; exact HK).
      unfold KOK in *. split; [nia|lia].
Qed.

(* the loop alone (no reservation): the elements' potential is simply dropped *)
Lemma abound_repeatS S sz {A} (p : parser A) n : abound_k Ke S sz p -> abound_k Ke S 0 (repeatS p n).
Proof.
  intros Hp b. pose proof (abound_repeat_f S sz p Hp (N.to_nat n) n b) as R. unfold repeatS.
  destruct (repeat_f (N.to_nat n) p n b) as [[[v r]|e] c]; lia.
Qed.
Lemma abound_repeatN S sz {A} (p : parser A) n : abound_k Ke S sz p -> abound_k Ke S 0 (repeatN p n).
Proof.
  intros Hp b. pose proof (abound_repeat_f S sz p Hp (Datatypes.S (length b)) n b) as R. unfold repeatN.
  destruct (repeat_f (Datatypes.S (length b)) p n b) as [[[v r]|e] c]; lia.
Qed.

End Generic.

(* monad associativity (pointwise), to bring reservation + loop + continuation into shape *)
Lemma cadd_assoc a b c : cadd (cadd a b) c = cadd a (cadd b c).
Proof. unfold cadd. cbn [c_alloc c_depth]. f_equal; lia. Qed.
Lemma bind_assoc {A B C} (p : parser A) (f : A -> parser B) (g : B -> parser C) b :
  bind (bind p f) g b = bind p (fun a => bind (f a) g) b.
Proof.
  unfold bind. destruct (p b) as [[[a r1]|e] c1]; [|reflexivity].
  destruct (f a r1) as [[[v r2]|e] c2]; cbn [fst snd]; [|reflexivity].
  destruct (g v r2) as [res c3]; cbn [fst snd]. rewrite cadd_assoc. reflexivity.
Qed.
Lemma abound_ext Ke S P {A} (p q : parser A) : (forall b, p b = q b) -> abound_k Ke S P p -> abound_k Ke S P q.
Proof. intros E H b. rewrite <- E. apply H. Qed.

(* a reservation of [g buf] bytes, at most [sz] per announced element and at most [r] per remaining
   byte, followed by the loop over the announced elements (any fuel): on the failing path it costs
   [r] bytes per byte more than the elements do *)
Definition tick_fn (g : bytes -> N) : parser unit := fun b => (Ok (tt, b), mkCost (g b) 0).
Lemma abound_tick_loop Ke (HK : KOK <= Ke) r S sz cnt {A} (g : bytes -> N) (F : bytes -> nat) (p : parser A) :
  (forall b, g b <= cnt * sz /\ g b <= r * lenN b) -> abound_k Ke S sz p ->
  abound_k (Ke + r) S 0 (bind (tick_fn g) (fun _ b => repeat_f (F b) p cnt b)).
Proof.
  intros Hg Hp b. unfold bind, tick_fn. cbv beta iota.
  pose proof (abound_repeat_f Ke HK S sz p Hp (F b) cnt b) as R. destruct (Hg b) as [G1 G2].
  destruct (repeat_f (F b) p cnt b) as [[[v r0]|e] c]; cbn [fst snd cadd c_alloc c_depth]; [lia|].
  split; [nia|lia].
Qed.
Lemma abound_tick_loop_k Ke (HK : KOK <= Ke) r S sz cnt {A B} (g : bytes -> N) (F : bytes -> nat) (p : parser A)
      (k : list A -> parser B) :
  (forall b, g b <= cnt * sz /\ g b <= r * lenN b) -> abound_k Ke S sz p ->
  (forall l, abound_k (Ke + r) S 0 (k l)) ->
  abound_k (Ke + r) S 0 (bind (tick_fn g) (fun _ => bind (fun b => repeat_f (F b) p cnt b) k)).
Proof.
  intros Hg Hp Hk.
  apply (abound_ext _ _ _ (bind (bind (tick_fn g) (fun _ b => repeat_f (F b) p cnt b)) k)); [intros b; apply bind_assoc|].
  apply abound_bind0; [lia|apply (abound_tick_loop Ke HK r S sz cnt g F p Hg Hp)|exact Hk].
Qed.

(* the two shapes of reservation *)
Lemma capped_bounds count per elem sz r b :
  0 < per -> elem <= sz -> elem <= r * per ->
  capped count per b * elem <= count * sz /\ capped count per b * elem <= r * lenN b.
Proof.
  intros Hper Hsz Hr. rewrite capped_eq by exact Hper. split.
  - apply N.mul_le_mono; [lia|exact Hsz].
  - assert (lenN b / per * per <= lenN b) by (rewrite N.mul_comm; apply N.mul_div_le; lia).
    set (q := lenN b / per) in *. set (m := N.min count q).
    assert (m * elem <= q * (r * per)) by (apply N.mul_le_mono; [unfold m; lia|exact Hr]).
    assert (q * (r * per) = r * (q * per)) by ring.
    assert (r * (q * per) <= r * lenN b) by (apply N.mul_le_mono_l; assumption). lia.
Qed.
(* hashbrown: at most 4 buckets per requested entry *)
Lemma hm_buckets_le n : 1 <= n -> hm_buckets n <= 4 * n.
Proof.
  intros H. unfold hm_buckets. destruct (n <? 4) eqn:E1; [lia|]. destruct (n <? 8) eqn:E2; [lia|].
  destruct (n <? 15) eqn:E3; [lia|]. apply N.ltb_ge in E3.
  assert (1 < n * 8 / 7) by (assert (2 <= n * 8 / 7) by (apply N.div_le_lower_bound; lia); lia).
  pose proof (N.log2_up_spec (n * 8 / 7) H0) as [L _].
  assert (2 ^ N.log2_up (n * 8 / 7) = 2 * 2 ^ N.pred (N.log2_up (n * 8 / 7))).
  { rewrite <- N.pow_succ_r'. f_equal. assert (0 < N.log2_up (n * 8 / 7)) by (apply N.log2_up_pos; lia). lia. }
  assert (n * 8 / 7 * 7 <= n * 8) by (rewrite N.mul_comm; apply N.mul_div_le; lia). lia.
Qed.
Lemma hm_alloc_le m e : hm_alloc m e <= m * (4 * (e + 1) + 16).
Proof.
  unfold hm_alloc. destruct (m =? 0) eqn:E; [lia|]. apply N.eqb_neq in E.
  pose proof (hm_buckets_le m ltac:(lia)). nia.
Qed.
Lemma hm_capped_bounds count per e r b :
  0 < per -> 4 * (e + 1) + 16 <= r * per ->
  hm_alloc (capped count per b) e <= count * (4 * (e + 1) + 16) /\ hm_alloc (capped count per b) e <= r * lenN b.
Proof.
  intros Hper Hr. pose proof (hm_alloc_le (capped count per b) e) as H.
  destruct (capped_bounds count per (4 * (e + 1) + 16) (4 * (e + 1) + 16) r b Hper ltac:(lia) Hr) as [A B]. lia.
Qed.

Lemma abound_capped_S Ke (HK : KOK <= Ke) r S sz cnt per elem {A B} (p : parser A) (k : list A -> parser B) :
  0 < per -> elem <= sz -> elem <= r * per -> abound_k Ke S sz p -> (forall l, abound_k (Ke + r) S 0 (k l)) ->
  abound_k (Ke + r) S 0 (bind (tick_alloc_capped cnt per elem) (fun _ => bind (repeatS p cnt) k)).
Proof.
  intros Hper Hsz Hr Hp Hk.
  apply (abound_tick_loop_k Ke HK r S sz cnt (fun b => capped cnt per b * elem) (fun _ => N.to_nat cnt) p k); try assumption.
  intros b. apply capped_bounds; assumption.
Qed.
Lemma abound_capped_S0 Ke (HK : KOK <= Ke) r S sz cnt per elem {A} (p : parser A) :
  0 < per -> elem <= sz -> elem <= r * per -> abound_k Ke S sz p ->
  abound_k (Ke + r) S 0 (bind (tick_alloc_capped cnt per elem) (fun _ => repeatS p cnt)).
Proof.
  intros Hper Hsz Hr Hp.
  apply (abound_tick_loop Ke HK r S sz cnt (fun b => capped cnt per b * elem) (fun _ => N.to_nat cnt) p); try assumption.
  intros b. apply capped_bounds; assumption.
Qed.
Lemma abound_capped_N Ke (HK : KOK <= Ke) r S sz cnt per elem {A} (p : parser A) :
  0 < per -> elem <= sz -> elem <= r * per -> abound_k Ke S sz p ->
  abound_k (Ke + r) S 0 (bind (tick_alloc_capped cnt per elem) (fun _ => repeatN p cnt)).
Proof.
  intros Hper Hsz Hr Hp.
  apply (abound_tick_loop Ke HK r S sz cnt (fun b => capped cnt per b * elem) (fun b => Datatypes.S (length b)) p); try assumption.
  intros b. apply capped_bounds; assumption.
Qed.
Lemma abound_hm_capped_S Ke (HK : KOK <= Ke) r S cnt per e {A B} (p : parser A) (k : list A -> parser B) :
  0 < per -> 4 * (e + 1) + 16 <= r * per -> abound_k Ke S (4 * (e + 1) + 16) p -> (forall l, abound_k (Ke + r) S 0 (k l)) ->
  abound_k (Ke + r) S 0 (bind (tick_hm_capped cnt per e) (fun _ => bind (repeatS p cnt) k)).
Proof.
  intros Hper Hr Hp Hk.
  apply (abound_tick_loop_k Ke HK r S (4 * (e + 1) + 16) cnt (fun b => hm_alloc (capped cnt per b) e) (fun _ => N.to_nat cnt) p k);
    try assumption.
  intros b. apply hm_capped_bounds; assumption.
Qed.

(* ---- the readers of FrameBase ------------------------------------------------------------------- *)
Definition SZ_PAYLOAD_SLOT : N := 4 * (SZ_PAYLOAD_ENTRY + 1) + 16.    (* 244 *)
Definition SZ_MULTIMAP_SLOT : N := 4 * (SZ_MULTIMAP_ENTRY + 1) + 16.  (* 212 *)
Definition K_STRLIST : N := KOK + 12.
Definition K_MAPS : N := K_STRLIST + 53.

Lemma HK0 : KOK <= KOK. Proof. lia. Qed.

Lemma abound_read_string_list : abound_k K_STRLIST 0 (2 * KOK) read_string_list.
Proof.
  unfold read_string_list. apply abound_bind0; [unfold K_STRLIST; lia|apply abound_read_short; unfold K_STRLIST; lia|intros len].
  apply (abound_capped_S0 KOK HK0 12 0 SZ_STRING len 2 SZ_STRING); [lia|lia|unfold SZ_STRING; lia|].
  eapply abound_weaken; [reflexivity|reflexivity| |apply abound_read_string; exact HK0]. unfold SZ_STRING, KOK. lia.
Qed.

Lemma abound_read_bytes_map : abound_k K_MAPS 0 (2 * KOK) read_bytes_map.
Proof.
  unfold read_bytes_map. apply abound_bind0; [unfold K_MAPS, K_STRLIST; lia|apply abound_read_short; unfold K_MAPS, K_STRLIST; lia|intros len].
  eapply abound_weaken; [| | |apply (abound_hm_capped_S KOK HK0 41 0 len 6 SZ_PAYLOAD_ENTRY)].
  - unfold K_MAPS, K_STRLIST. lia.
  - reflexivity.
  - lia.
  - lia.
  - unfold SZ_PAYLOAD_ENTRY. lia.
  - eapply abound_weaken; [reflexivity|reflexivity| |apply (abound_bind KOK 0 0 (2 * KOK) (4 * KOK)); [exact HK0|apply abound_read_string; exact HK0|intros k]].
    + unfold SZ_PAYLOAD_ENTRY, KOK. lia.
    + apply abound_bind0; [exact HK0|apply abound_read_bytes; exact HK0|intros; apply abound_ret].
  - intros l. apply abound_ret.
Qed.

Lemma abound_read_string_multimap : abound_k K_MAPS 0 (2 * KOK) read_string_multimap.
Proof.
  assert (HKS : KOK <= K_STRLIST) by (unfold K_STRLIST; lia).
  unfold read_string_multimap. apply abound_bind0; [unfold K_MAPS, K_STRLIST; lia|apply abound_read_short; unfold K_MAPS, K_STRLIST; lia|intros len].
  apply (abound_hm_capped_S K_STRLIST HKS 53 0 len 4 SZ_MULTIMAP_ENTRY).
  - lia.
  - unfold SZ_MULTIMAP_ENTRY. lia.
  - eapply abound_weaken; [reflexivity|reflexivity| |apply (abound_bind K_STRLIST 0 0 (2 * KOK) (2 * KOK)); [exact HKS|apply abound_read_string; exact HKS|intros k]].
    + unfold SZ_MULTIMAP_ENTRY, KOK. lia.
    + apply abound_bind0; [exact HKS|apply abound_read_string_list|intros; apply abound_ret].
  - intros l. apply abound_ret.
Qed.

Section Readers.
Variable Ke : N.
Hypothesis HK : KOK <= Ke.
Lemma abound_read_inet S : abound_k Ke S KOK read_inet.
Proof.
  unfold read_inet. apply abound_bind0; [exact HK|apply abound_read_u8; exact HK|intros len].
  apply abound_if; [|apply abound_fail].
  apply abound_bind0; [exact HK|apply abound_drop with (P := KOK * len); apply abound_read_raw|intros ip].
  apply abound_bind0; [exact HK|apply abound_drop with (P := 4 * KOK); apply abound_read_int; exact HK|intros port].
  destruct ((port <? 0) || (65535 <? port))%Z; [apply abound_fail|apply abound_ret].
Qed.
Lemma abound_read_consistency S : abound_k Ke S (2 * KOK) read_consistency.
Proof.
  unfold read_consistency. apply abound_bind0; [exact HK|apply abound_read_short; exact HK|intros v].
  destruct (consistency_ok v); [apply abound_ret|apply abound_fail].
Qed.
End Readers.

(* ---- the type grammar and the column specs ------------------------------------------------------- *)
Section WithCustom.
Variable custom : custom_parser.
Hypothesis custom_depth : forall s, snd (custom s) <= MAX_CUSTOM_TYPE_NESTING_DEPTH.

Lemma abound_custom_step Ke depth s S :
  depth <= MAX_TYPE_NESTING_DEPTH -> abound_k Ke S 0 (custom_step custom depth s).
Proof.
  intros Hd b. unfold custom_step. pose proof (custom_depth s) as D.
  unfold MAX_CUSTOM_TYPE_NESTING_DEPTH, MAX_TYPE_NESTING_DEPTH, DEPTH_LIMIT in *.
  destruct (custom s) as [[t|e] d]; cbn [snd c_alloc c_depth] in *; lia.
Qed.

(* each level of nesting adds at most TYPE_RATE = 16 bytes per remaining byte on the failing path *)
Lemma abound_deser_type_f : forall fuel depth,
  abound_k (KOK + TYPE_RATE * N.of_nat fuel) 0 SZ_UDT_FIELD (deser_type_f custom fuel depth).
Proof.
  induction fuel as [|f IH]; intros depth; rewrite deser_type_f_unfold; [apply abound_fail|].
  destruct (MAX_TYPE_NESTING_DEPTH <? depth) eqn:Ed; [apply abound_fail|]. apply N.ltb_ge in Ed.
  set (KI := KOK + TYPE_RATE * N.of_nat f) in *.
  set (KE := KOK + TYPE_RATE * N.of_nat (S f)).
  assert (HKE : KE = KI + TYPE_RATE) by (unfold KE, KI; rewrite Nat2N.inj_succ; lia).
  assert (HKI : KOK <= KI) by (unfold KI; lia).
  assert (HK : KOK <= KE) by lia.
  assert (IH' : forall d, abound_k KE 0 SZ_UDT_FIELD (deser_type_f custom f d)).
  { intros d. eapply abound_weaken; [|reflexivity|reflexivity|apply IH]. lia. }
  apply abound_bind_r; [exact HK|apply abound_tick_depth; unfold MAX_TYPE_NESTING_DEPTH, DEPTH_LIMIT in *; lia|intros _].
  apply (abound_bind0w KE 0 SZ_UDT_FIELD (2 * KOK)); [exact HK|unfold SZ_UDT_FIELD, KOK; lia|apply abound_read_short; exact HK|intros id].
  repeat apply abound_if.
  - apply abound_bind0; [exact HK|apply abound_drop with (P := 2 * KOK); apply abound_read_string; exact HK|intros s].
    apply abound_custom_step. exact Ed.
  - apply abound_bind0; [exact HK|apply abound_drop with (P := SZ_UDT_FIELD); apply IH'|intros; apply abound_ret].
  - apply abound_bind0; [exact HK|apply abound_drop with (P := SZ_UDT_FIELD); apply IH'|intros k].
    apply abound_bind0; [exact HK|apply abound_drop with (P := SZ_UDT_FIELD); apply IH'|intros; apply abound_ret].
  - apply abound_bind0; [exact HK|apply abound_drop with (P := SZ_UDT_FIELD); apply IH'|intros; apply abound_ret].
  - apply abound_bind0; [exact HK|apply abound_drop with (P := 2 * KOK); apply abound_read_string; exact HK|intros ks].
    apply abound_bind0; [exact HK|apply abound_drop with (P := 2 * KOK); apply abound_read_string; exact HK|intros nm].
    apply abound_bind0; [exact HK|apply abound_drop with (P := 2 * KOK); apply abound_read_short; exact HK|intros n].
    rewrite HKE.
    apply (abound_capped_S KI HKI TYPE_RATE 0 SZ_UDT_FIELD n 4 SZ_UDT_FIELD); [lia|lia|unfold SZ_UDT_FIELD, TYPE_RATE; lia| |intros; apply abound_ret].
    apply abound_bind_r; [exact HKI|apply abound_drop with (P := 2 * KOK); apply abound_read_string; exact HKI|intros fname].
    apply abound_bind0; [exact HKI|apply IH|intros; apply abound_ret].
  - apply abound_bind0; [exact HK|apply abound_drop with (P := 2 * KOK); apply abound_read_short; exact HK|intros n].
    rewrite HKE.
    apply (abound_capped_S KI HKI TYPE_RATE 0 SZ_COLTYPE n 2 SZ_COLTYPE); [lia|lia|unfold SZ_COLTYPE, TYPE_RATE; lia| |intros; apply abound_ret].
    eapply abound_weaken; [reflexivity|reflexivity| |apply IH]. unfold SZ_COLTYPE, SZ_UDT_FIELD. lia.
  - destruct (native_of_id id); [apply abound_ret|apply abound_fail].
Qed.

Lemma abound_deser_type : abound_k KTYPES 0 SZ_UDT_FIELD (deser_type custom).
Proof. apply abound_deser_type_f. Qed.

Lemma HKT : KOK <= KTYPES. Proof. unfold KTYPES. lia. Qed.

Lemma abound_deser_table_spec Ke S : KOK <= Ke -> abound_k Ke S 0 deser_table_spec.
Proof.
  intros HK. unfold deser_table_spec.
  apply abound_bind0; [exact HK|apply abound_drop with (P := 2 * KOK); apply abound_read_string; exact HK|intros ks].
  apply abound_bind0; [exact HK|apply abound_drop with (P := 2 * KOK); apply abound_read_string; exact HK|intros t].
  apply abound_ret.
Qed.

Lemma abound_deser_col_spec g : abound_k KTYPES 0 SZ_COLSPEC (deser_col_spec custom g).
Proof.
  pose proof HKT as HK. unfold deser_col_spec.
  apply abound_bind_r; [exact HK|destruct g; [apply abound_ret|apply abound_deser_table_spec; exact HK]|intros ts].
  apply (abound_bind0w KTYPES 0 SZ_COLSPEC (2 * KOK)); [exact HK|unfold SZ_COLSPEC, KOK; lia|apply abound_read_string; exact HK|intros nm].
  apply abound_bind0; [exact HK|apply abound_drop with (P := SZ_UDT_FIELD); apply abound_deser_type|intros; apply abound_ret].
Qed.

Lemma abound_deser_col_specs g n : abound_k KERR 0 0 (deser_col_specs custom g n).
Proof.
  unfold deser_col_specs, KERR.
  apply (abound_capped_N KTYPES HKT SZ_COLSPEC 0 SZ_COLSPEC n 1 SZ_COLSPEC); [lia|lia|lia|apply abound_deser_col_spec].
Qed.

(* ---- response bodies: everything at the failing-path rate KERR ------------------------------------- *)
Definition AB {A} (p : parser A) : Prop := abound_k KERR 0 0 p.

Lemma KERR_value : KERR = 2288. Proof. reflexivity. Qed.
Lemma HKE : KOK <= KERR. Proof. rewrite KERR_value. unfold KOK. lia. Qed.
Lemma AB_ret {A} (a : A) : AB (ret a). Proof. apply abound_ret. Qed.
Lemma AB_fail {A} e : AB (@fail A e). Proof. apply abound_fail. Qed.
Lemma AB_bind {A B} (p : parser A) (f : A -> parser B) : AB p -> (forall a, AB (f a)) -> AB (bind p f).
Proof. intros. apply abound_bind0; [apply HKE|assumption|assumption]. Qed.
Lemma AB_pmap {A B} (g : A -> B) p : AB p -> AB (pmap g p).
Proof. apply abound_pmap. apply HKE. Qed.
Lemma AB_if {A} (c : bool) (p q : parser A) : AB p -> AB q -> AB (if c then p else q).
Proof. apply abound_if. Qed.
Lemma AB_repeatS {A} (p : parser A) n : AB p -> AB (repeatS p n).
Proof. apply (abound_repeatS KERR HKE 0 0). Qed.
Lemma AB_repeatN {A} (p : parser A) n : AB p -> AB (repeatN p n).
Proof. apply (abound_repeatN KERR HKE 0 0). Qed.
Lemma AB_of Ke P {A} (p : parser A) : Ke <= KERR -> abound_k Ke 0 P p -> AB p.
Proof. intros. eapply abound_weaken; [eassumption|reflexivity| |eassumption]. lia. Qed.

Lemma AB_read_u8 : AB read_u8. Proof. eapply AB_of; [reflexivity|apply (abound_read_u8 KERR HKE 0)]. Qed.
Lemma AB_read_be k : AB (read_be k). Proof. eapply AB_of; [reflexivity|apply (abound_read_be KERR 0)]. Qed.
Lemma AB_read_raw k : AB (read_raw k). Proof. eapply AB_of; [reflexivity|apply (abound_read_raw KERR 0)]. Qed.
Lemma AB_read_short : AB read_short. Proof. apply AB_read_be. Qed.
Lemma AB_read_int : AB read_int. Proof. eapply AB_of; [reflexivity|apply (abound_read_int KERR HKE 0)]. Qed.
Lemma AB_read_int_length : AB read_int_length.
Proof. eapply AB_of; [reflexivity|apply (abound_read_int_length KERR HKE 0)]. Qed.
Lemma AB_read_string : AB read_string.
Proof. eapply AB_of; [reflexivity|apply (abound_read_string KERR HKE 0)]. Qed.
Lemma AB_read_short_bytes : AB read_short_bytes.
Proof. eapply AB_of; [reflexivity|apply (abound_read_short_bytes KERR HKE 0)]. Qed.
Lemma AB_read_bytes : AB read_bytes.
Proof. eapply AB_of; [reflexivity|apply (abound_read_bytes KERR HKE 0)]. Qed.
Lemma AB_read_bytes_opt : AB read_bytes_opt.
Proof. eapply AB_of; [reflexivity|apply (abound_read_bytes_opt KERR HKE 0)]. Qed.
Lemma AB_read_string_list : AB read_string_list.
Proof. eapply AB_of; [|apply abound_read_string_list]. rewrite KERR_value. unfold K_STRLIST, KOK. lia. Qed.
Lemma AB_read_bytes_map : AB read_bytes_map.
Proof. eapply AB_of; [|apply abound_read_bytes_map]. rewrite KERR_value. unfold K_MAPS, K_STRLIST, KOK. lia. Qed.
Lemma AB_read_string_multimap : AB read_string_multimap.
Proof. eapply AB_of; [|apply abound_read_string_multimap]. rewrite KERR_value. unfold K_MAPS, K_STRLIST, KOK. lia. Qed.
Lemma AB_read_uuid : AB read_uuid. Proof. apply AB_read_raw. Qed.
Lemma AB_read_inet : AB read_inet.
Proof. eapply AB_of; [reflexivity|apply (abound_read_inet KERR HKE 0)]. Qed.
Lemma AB_read_consistency : AB read_consistency.
Proof. eapply AB_of; [reflexivity|apply (abound_read_consistency KERR HKE 0)]. Qed.
Lemma AB_deser_table_spec : AB deser_table_spec.
Proof. apply (abound_deser_table_spec KERR 0 HKE). Qed.
Lemma AB_deser_col_specs g n : AB (deser_col_specs custom g n).
Proof. apply abound_deser_col_specs. Qed.
Lemma AB_tick_alloc_capped_pk pkc {B} (k : list N -> parser B) :
  (forall l, AB (k l)) ->
  AB (bind (tick_alloc_capped pkc 2 SZ_PKINDEX) (fun _ => bind (repeatN read_short pkc) k)).
Proof.
  intros Hk.
  apply (abound_ext _ _ _ (bind (bind (tick_alloc_capped pkc 2 SZ_PKINDEX) (fun _ => repeatN read_short pkc)) k));
    [intros b; apply bind_assoc|].
  apply AB_bind; [|exact Hk].
  eapply AB_of; [|apply (abound_capped_N KOK HK0 2 0 (2 * KOK) pkc 2 SZ_PKINDEX read_short)].
  - rewrite KERR_value. unfold KOK. lia.
  - lia.
  - unfold SZ_PKINDEX, KOK. lia.
  - unfold SZ_PKINDEX. lia.
  - apply abound_read_short. exact HK0.
Qed.

#[local] Hint Resolve AB_ret AB_fail AB_read_u8 AB_read_be AB_read_raw AB_read_short AB_read_int AB_read_int_length
  AB_read_string AB_read_short_bytes AB_read_bytes AB_read_bytes_opt AB_read_string_list AB_read_bytes_map
  AB_read_string_multimap AB_read_uuid AB_read_inet AB_read_consistency AB_deser_table_spec
  AB_deser_col_specs : ab.
Ltac ab_step :=
  first [ apply AB_pmap | apply AB_bind; [|intros ?] | apply AB_if | apply AB_repeatS | apply AB_repeatN ].
Ltac ab_tac := repeat first [ solve [auto with ab] | ab_step ].

Lemma AB_read_bool : AB read_bool. Proof. unfold read_bool. ab_tac. Qed.
Lemma AB_read_arg_list : AB read_arg_list. Proof. exact AB_read_string_list. Qed.
#[local] Hint Resolve AB_read_bool AB_read_arg_list : ab.

Lemma AB_deser_error ft : AB (deser_error ft).
Proof.
  unfold deser_error. apply AB_bind; [auto with ab|intros code]. apply AB_bind; [auto with ab|intros reason].
  apply AB_bind; [|intros; apply AB_ret]. repeat apply AB_if; try solve [ab_tac].
  destruct (ft_rate_limit ft); ab_tac.
Qed.
Lemma AB_deser_schema_change : AB deser_schema_change.
Proof. unfold deser_schema_change. ab_tac. Qed.
#[local] Hint Resolve AB_deser_error AB_deser_schema_change : ab.

Lemma AB_read_host_ids n : AB (read_host_ids n).
Proof.
  unfold read_host_ids. generalize (N.to_nat n) as fuel. intros fuel. revert n.
  induction fuel as [|f IH]; intros n; rewrite read_host_ids_f_unfold; destruct (n =? 0); ab_tac.
  destruct (parse_uuid_text a); ab_tac.
Qed.
#[local] Hint Resolve AB_read_host_ids : ab.
Lemma AB_deser_event v2 : AB (deser_event v2).
Proof. unfold deser_event, deser_client_routes. ab_tac. Qed.

Lemma AB_deser_rows_full ft : AB (deser_rows_full custom ft).
Proof.
  unfold deser_rows_full. apply AB_bind; [unfold deser_rows_hdr; ab_tac|intros h].
  apply AB_bind; [unfold deser_rows_meta; ab_tac|intros [[id cols] rc]].
  apply AB_bind; [|intros; apply AB_ret]. unfold deser_rows, deser_row. destruct (lenN cols =? 0); ab_tac.
Qed.

Lemma AB_deser_prepared ft : AB (deser_prepared custom ft).
Proof.
  unfold deser_prepared. apply AB_bind; [auto with ab|intros id]. apply AB_bind; [ab_tac|intros rmid].
  apply AB_bind; [|intros [[[flags cc] pk] cols]].
  { unfold deser_prepared_metadata. apply AB_bind; [auto with ab|intros flags].
    apply AB_bind; [auto with ab|intros cc]. apply AB_bind; [auto with ab|intros pkc].
    apply AB_tick_alloc_capped_pk. intros pk. ab_tac. }
  apply AB_bind; [|intros [[[[g nomd] rcc] ps] rcols]; destruct ps; ab_tac].
  unfold deser_result_metadata. ab_tac.
Qed.

Lemma AB_deser_response ft v2 op : AB (deser_response custom ft v2 op).
Proof.
  assert (R : AB (deser_result custom ft)).
  { unfold deser_result. pose proof (AB_deser_rows_full ft). pose proof (AB_deser_prepared ft).
    apply AB_bind; [auto with ab|intros kind]. repeat apply AB_if; ab_tac. }
  unfold deser_response. pose proof (AB_deser_event v2). repeat apply AB_if; ab_tac.
Qed.
Lemma AB_deser_extensions flags : AB (deser_extensions flags).
Proof. unfold deser_extensions. ab_tac. Qed.

End WithCustom.
