(* Proofs about the pager model (Model/Pager.v), property C07.
   Layout: (A) one page = one fiber run; (B) the worker's future and the quantities every
   step of the interleaving preserves; (C, D) the sequential reference against the
   specification, by induction over the script; (E) safety in every reachable state,
   progress, termination, early drop, bounded read-ahead; (F) the acceptors of the
   correspondence check; (G) the statements of Props/C07.v. *)
From SV Require Import Base.Prelude Model.Pager.
Open Scope N_scope.


(* ===== part A ===== *)
(* ---------- generic helpers ---------- *)
Lemma list_eqb_eq {A} (eqb : A -> A -> bool) :
  (forall x y, eqb x y = true <-> x = y) -> forall a b, list_eqb eqb a b = true <-> a = b.
Proof.
  intros H a; induction a as [|x a IH]; intros [|y b]; cbn [list_eqb]; try (split; [discriminate|discriminate]); try tauto.
  rewrite andb_true_iff, H, IH. split; [intros [-> ->]; reflexivity|intros E; injection E; auto].
Qed.

Lemma nodupb_NoDup l : nodupb l = true -> NoDup l.
Proof.
  induction l as [|x r IH]; cbn [nodupb]; intros H; [constructor|].
  apply andb_true_iff in H as [H1 H2]. constructor; [|auto].
  intros Hin. apply negb_true_iff in H1.
  assert (existsb (N.eqb x) r = true) as E; [|congruence].
  apply existsb_exists. exists x. split; [exact Hin|apply N.eqb_refl].
Qed.

Lemma filter_ne_length (c : N) (l : list N) : NoDup l ->
  (List.length l <= S (List.length (filter (fun t => negb (N.eqb t c)) l)))%nat.
Proof.
  induction 1 as [|x r Hx Hnd IH]; cbn [filter List.length]; [lia|].
  destruct (x =? c) eqn:E; cbn [negb List.length]; [|lia].
  apply N.eqb_eq in E; subst x.
  assert (filter (fun t => negb (N.eqb t c)) r = r) as ->; [|lia].
  clear IH Hnd. induction r as [|y r IH]; cbn [filter]; [reflexivity|].
  destruct (y =? c) eqn:E; cbn [negb].
  - apply N.eqb_eq in E; subst y. exfalso; apply Hx; left; reflexivity.
  - f_equal. apply IH. intros Hin; apply Hx; right; exact Hin.
Qed.

(* ---------- one page ---------- *)
Definition nadv (fs : list fault) : nat := List.length (filter fault_advances fs).
Definition nsent (fs : list fault) : nat := List.length (filter fault_sent fs).

Lemma attempts_retried : forall fs resp t rest,
  forallb fault_retried fs = true -> (nadv fs <= List.length rest)%nat ->
  exists ts c, attempts fs resp t rest = (ts, FCompleted c resp) /\ List.length ts = S (nsent fs).
Proof.
  induction fs as [|f fs IH]; intros resp t rest Hr Hn.
  - exists [t], t. split; reflexivity.
  - cbn [forallb] in Hr. apply andb_true_iff in Hr as [Hf Hr].
    unfold nadv, nsent in *.
    destruct f as [|e d| |]; cbn [fault_retried] in Hf; try discriminate.
    + cbn [filter fault_advances fault_sent List.length] in *.
      destruct rest as [|t' rest']; cbn [List.length] in Hn; [lia|].
      destruct (IH resp t' rest' Hr ltac:(lia)) as (ts & c & E & L).
      exists ts, c. cbn [attempts]. split; assumption.
    + destruct d; try discriminate; cbn [filter fault_advances fault_sent List.length] in *.
      * destruct (IH resp t rest Hr Hn) as (ts & c & E & L).
        exists (t :: ts), c. cbn [attempts]. rewrite E. split; [reflexivity|cbn [List.length]; lia].
      * destruct rest as [|t' rest']; cbn [List.length] in Hn; [lia|].
        destruct (IH resp t' rest' Hr ltac:(lia)) as (ts & c & E & L).
        exists (t :: ts), c. cbn [attempts]. rewrite E. split; [reflexivity|cbn [List.length]; lia].
    + cbn [filter fault_advances fault_sent List.length] in *.
      destruct (IH resp t rest Hr Hn) as (ts & c & E & L).
      exists (t :: ts), c. cbn [attempts]. rewrite E. split; [reflexivity|cbn [List.length]; lia].
Qed.

(* Connection::execute_iter: a retried fault can only be a transparent re-prepare *)
Lemma conn_retried_nadv fs : forallb fault_retried (flat_map conn_fault fs) = true ->
  nadv (flat_map conn_fault fs) = 0%nat.
Proof.
  unfold nadv. induction fs as [|f fs IH]; cbn [flat_map]; [reflexivity|].
  destruct f as [|e d| |]; cbn [conn_fault app forallb fault_retried filter fault_advances];
    try discriminate; auto.
Qed.

Lemma eff_plan_length stable base : nodupb base = true -> (0 < List.length base)%nat ->
  exists t rest, eff_plan stable base = t :: rest /\ (List.length base <= S (List.length rest))%nat.
Proof.
  intros Hnd Hl. destruct stable as [c|]; cbn [eff_plan].
  - eexists _, _. split; [reflexivity|]. apply filter_ne_length. apply nodupb_NoDup; exact Hnd.
  - destruct base as [|t rest]; [cbn [List.length] in Hl; lia|]. exists t, rest. split; [reflexivity|cbn [List.length]; apply Nat.le_refl].
Qed.

(* a page whose faults are all retried is fetched: the response arrives, after exactly
   [page_requests] requests *)
Lemma fetch_retried m stable ps : page_retried m ps = true ->
  exists ts c, fetch_one m stable ps = (ts, FCompleted c (ps_resp ps)) /\
               List.length ts = page_requests m ps.
Proof.
  destruct m; cbn [page_retried fetch_one page_requests]; intros H.
  - apply andb_true_iff in H as [H H3]. apply andb_true_iff in H as [H1 H2].
    apply Nat.ltb_lt in H3.
    destruct (eff_plan_length stable (ps_plan ps) H2 ltac:(lia)) as (t & rest & -> & L).
    apply attempts_retried; [exact H1|unfold nadv; lia].
  - apply attempts_retried; [exact H|]. rewrite (conn_retried_nadv _ H). cbn [List.length]. lia.
Qed.


(* ===== part B ===== *)
(* ---------- the worker's future ---------- *)
Lemma pfuture_fetch m i st stable ps rest :
  pfuture m (PFetch i st stable (ps :: rest)) =
  (map (mk_req i (Some st)) (fst (fetch_one m stable ps)) ++
     fst (pfuture m (after_fetch i rest (snd (fetch_one m stable ps)))),
   snd (pfuture m (after_fetch i rest (snd (fetch_one m stable ps))))).
Proof.
  cbn [pfuture worker]. destruct (fetch_one m stable ps) as [ts r]. cbn [fst snd].
  destruct r as [c [rows [st'|]| |]|c|e]; cbn [after_fetch pfuture tail_msgs fst snd];
    try (rewrite app_nil_r; reflexivity).
  destruct (worker m (S i) st' (Some c) rest) as [rq' ms]. reflexivity.
Qed.

Lemma pdone_fetch m i st stable ps rest :
  pdone m (PFetch i st stable (ps :: rest)) =
  pdone m (after_fetch i rest (snd (fetch_one m stable ps))).
Proof.
  cbn [pdone worker_done]. destruct (snd (fetch_one m stable ps)) as [c [rows [st'|]| |]|c|e];
    reflexivity.
Qed.

Definition items_of (ms : list msg) : list item := flat_map msg_items ms.

Lemma items_of_app a b : items_of (a ++ b) = items_of a ++ items_of b.
Proof. unfold items_of. apply flat_map_app. Qed.

(* what the caller will still be given if nobody drops and the server keeps answering *)
Definition remaining (s : sys) : list item :=
  match s_cons s with
  | CActive => map IRow (s_cur s) ++ items_of (s_chan s ++ snd (pfuture (s_mode s) (s_prod s))) ++ [IEnd]
  | _ => []
  end.

Definition total_items (s : sys) : list item := s_out s ++ remaining s.
Definition total_reqs (s : sys) : list req := s_reqs s ++ fst (pfuture (s_mode s) (s_prod s)).

Lemma step_mode s l s' : step s l = Some s' -> s_mode s' = s_mode s.
Proof.
  destruct l; cbn [step]; unfold prod_step, cons_step, drop_step; intros H.
  - destruct (s_prod s) as [i st stable [|ps rest]|x k|]; try discriminate.
    + destruct (fetch_one _ _ _). injection H as <-. reflexivity.
    + destruct (s_cons s); [destruct (s_chan s); try discriminate| destruct (s_chan s); try discriminate|];
        injection H as <-; reflexivity.
  - destruct (s_cons s); try discriminate.
    destruct (s_cur s); [|injection H as <-; reflexivity].
    destruct (s_chan s) as [|[[|r rows]|e] ch]; try (injection H as <-; reflexivity).
    destruct (s_prod s); try discriminate. injection H as <-; reflexivity.
  - destruct (s_cons s); try discriminate; injection H as <-; reflexivity.
Qed.

(* a step that is not a drop, from a state that is not dropped: nothing is lost, nothing is
   invented, on either side of the channel *)
Lemma step_preserves s l s' :
  step s l = Some s' -> s_cons s <> CDropped -> l <> LDrop ->
  total_items s' = total_items s /\ total_reqs s' = total_reqs s /\ s_cons s' <> CDropped /\
  pdone (s_mode s') (s_prod s') = pdone (s_mode s) (s_prod s).
Proof.
  intros H Hc Hl. pose proof (step_mode _ _ _ H) as Hm.
  unfold total_items, total_reqs, remaining. rewrite Hm.
  destruct l; [| |congruence]; cbn [step] in H; unfold prod_step, cons_step in H.
  - destruct (s_prod s) as [i st stable [|ps rest]|x k|] eqn:Ep; try discriminate.
    + rewrite pfuture_fetch, pdone_fetch. destruct (fetch_one (s_mode s) stable ps) as [ts r].
      injection H as <-. cbn [s_prod s_cons s_cur s_chan s_out s_reqs s_mode fst snd].
      rewrite <- app_assoc. repeat split; try assumption; reflexivity.
    + destruct (s_cons s) eqn:Ec; [| |congruence];
        (destruct (s_chan s) eqn:Ech; [|discriminate]); injection H as <-;
        cbn [s_prod s_cons s_cur s_chan s_out s_reqs s_mode pfuture pdone];
        destruct (pfuture (s_mode s) k) as [rq ms]; cbn [fst snd app];
        repeat split; try reflexivity; discriminate.
  - destruct (s_cons s) eqn:Ec; try discriminate.
    destruct (s_cur s) as [|r cur'] eqn:Ecur.
    + destruct (s_chan s) as [|[[|r rows]|e] ch] eqn:Ech.
      * destruct (s_prod s) eqn:Ep; try discriminate. injection H as <-.
        cbn [s_prod s_cons s_cur s_chan s_out s_reqs s_mode pfuture pdone fst snd map app items_of flat_map].
        rewrite app_nil_r. repeat split; try reflexivity; discriminate.
      * injection H as <-. cbn [s_prod s_cons s_cur s_chan s_out s_reqs s_mode map app].
        unfold items_of. cbn [flat_map msg_items map app]. repeat split; try reflexivity; discriminate.
      * injection H as <-. cbn [s_prod s_cons s_cur s_chan s_out s_reqs s_mode map app].
        unfold items_of. cbn [flat_map msg_items map app]. rewrite <- !app_assoc. cbn [app].
        repeat split; try reflexivity; discriminate.
      * injection H as <-. cbn [s_prod s_cons s_cur s_chan s_out s_reqs s_mode map app].
        unfold items_of. cbn [flat_map msg_items map app]. rewrite <- !app_assoc. cbn [app].
        repeat split; try reflexivity; discriminate.
    + injection H as <-. cbn [s_prod s_cons s_cur s_chan s_out s_reqs s_mode map app].
      rewrite <- !app_assoc. cbn [app]. repeat split; try reflexivity; discriminate.
Qed.

Lemma dropped_stays s l s' : step s l = Some s' -> s_cons s = CDropped -> s_cons s' = CDropped.
Proof.
  intros H Hc. destruct l; cbn [step] in H; unfold prod_step, cons_step, drop_step in H;
    rewrite ?Hc in H; try discriminate.
  destruct (s_prod s) as [i st stable [|ps rest]|x k|]; try discriminate.
  - destruct (fetch_one _ _ _). injection H as <-. reflexivity.
  - injection H as <-. reflexivity.
Qed.

Lemma run_dropped_stays ls : forall s s', run s ls = Some s' -> s_cons s = CDropped -> s_cons s' = CDropped.
Proof.
  induction ls as [|l ls IH]; intros s s' H Hc; cbn [run] in H.
  - injection H as <-. exact Hc.
  - destruct (step s l) as [s1|] eqn:E; [|discriminate].
    eapply IH; [exact H|]. eapply dropped_stays; eassumption.
Qed.

Lemma drop_drops s s' : step s LDrop = Some s' -> s_cons s' = CDropped.
Proof.
  cbn [step]; unfold drop_step. destruct (s_cons s); try discriminate; intros H; injection H as <-; reflexivity.
Qed.

(* along a run that ends with the consumer having seen the end (or still active), nothing was
   dropped, so the totals are those of the first state *)
Lemma run_preserves ls : forall s s', run s ls = Some s' -> s_cons s' <> CDropped ->
  total_items s' = total_items s /\ total_reqs s' = total_reqs s /\
  pdone (s_mode s') (s_prod s') = pdone (s_mode s) (s_prod s) /\ s_mode s' = s_mode s.
Proof.
  induction ls as [|l ls IH]; intros s s' H Hc; cbn [run] in H.
  - injection H as <-. repeat split; reflexivity.
  - destruct (step s l) as [s1|] eqn:E; [|discriminate].
    assert (s_cons s <> CDropped) as Hs.
    { intros Hd. apply Hc. eapply run_dropped_stays; [exact H|]. eapply dropped_stays; eassumption. }
    assert (l <> LDrop) as Hl.
    { intros ->. apply Hc. eapply run_dropped_stays; [exact H|]. eapply drop_drops; exact E. }
    destruct (step_preserves _ _ _ E Hs Hl) as (H1 & H2 & H3 & H4).
    destruct (IH _ _ H Hc) as (I1 & I2 & I3 & I4).
    pose proof (step_mode _ _ _ E).
    repeat split; congruence.
Qed.

(* the consumer sees the end only after the worker has returned *)
Lemma ended_inv s l s' : step s l = Some s' ->
  (s_cons s = CEnded -> s_prod s = PDone /\ s_chan s = [] /\ s_cur s = []) ->
  (s_cons s' = CEnded -> s_prod s' = PDone /\ s_chan s' = [] /\ s_cur s' = []).
Proof.
  intros H Hi Hc. destruct l; cbn [step] in H; unfold prod_step, cons_step, drop_step in H.
  - destruct (s_prod s) as [i st stable [|ps rest]|x k|] eqn:Ep; try discriminate.
    + destruct (fetch_one _ _ _). injection H as <-. cbn in Hc. destruct (Hi Hc) as [? _]. discriminate.
    + destruct (s_cons s) eqn:Ec.
      * destruct (s_chan s); [|discriminate]. injection H as <-. cbn in Hc. discriminate.
      * destruct (Hi eq_refl) as [? _]. discriminate.
      * injection H as <-. cbn in Hc. discriminate.
  - destruct (s_cons s) eqn:Ec; try discriminate.
    destruct (s_cur s); [|injection H as <-; cbn in Hc; discriminate].
    destruct (s_chan s) as [|[[|r rows]|e] ch]; try (injection H as <-; cbn in Hc; discriminate).
    destruct (s_prod s); try discriminate. injection H as <-. cbn. repeat split.
  - destruct (s_cons s); try discriminate; injection H as <-; cbn in Hc; discriminate.
Qed.

Lemma run_ended_inv ls : forall s s', run s ls = Some s' ->
  (s_cons s = CEnded -> s_prod s = PDone /\ s_chan s = [] /\ s_cur s = []) ->
  (s_cons s' = CEnded -> s_prod s' = PDone /\ s_chan s' = [] /\ s_cur s' = []).
Proof.
  induction ls as [|l ls IH]; intros s s' H Hi; cbn [run] in H.
  - injection H as <-. exact Hi.
  - destruct (step s l) as [s1|] eqn:E; [|discriminate].
    eapply IH; [exact H|]. eapply ended_inv; eassumption.
Qed.

(* EVERY schedule that lets the caller see the end of the stream yields the sequential
   prediction: the item stream and the request trace do not depend on the interleaving *)
Theorem sched_full m script rq0 rows p ls s :
  start m script = (rq0, SPager rows p) ->
  run (init_sys m rq0 rows p) ls = Some s -> s_cons s = CEnded ->
  OStream (s_out s) = snd (seq_run m script) /\ s_reqs s = fst (seq_run m script).
Proof.
  intros Hs Hr He. unfold seq_run. rewrite Hs.
  destruct (run_preserves _ _ _ Hr ltac:(congruence)) as (H1 & H2 & H3 & H4).
  destruct (run_ended_inv _ _ _ Hr ltac:(cbn; discriminate) He) as (Hp & Hch & Hcu).
  unfold total_items, total_reqs, remaining in H1, H2. rewrite He, H4 in *. rewrite Hp in *.
  cbn [init_sys s_mode s_prod s_cons s_cur s_chan s_out s_reqs pfuture pdone fst app] in H1, H2, H3.
  rewrite !app_nil_r in *.
  destruct (pfuture m p) as [rq ms]. cbn [fst snd] in *. rewrite <- H3.
  split; [f_equal; exact H1|exact H2].
Qed.


(* ===== part C ===== *)
Lemma map_key_reqs i st ts : map req_key (map (mk_req i st) ts) = repeat (i, st) (List.length ts).
Proof. induction ts as [|t ts IH]; cbn [map List.length repeat]; [reflexivity|]. rewrite IH. reflexivity. Qed.

Lemma items_of_pages l : items_of (map MPage l) = map IRow (concat l).
Proof.
  unfold items_of. induction l as [|x l IH]; cbn [map flat_map concat msg_items]; [reflexivity|].
  rewrite IH, map_app. reflexivity.
Qed.

Definition good_page (m : mode) (ps : pscript) : bool := is_rows (ps_resp ps) && page_retried m ps.

(* ---------- complete reads ---------- *)
Lemma worker_good m : forall rest i st stable,
  forallb (good_page m) rest = true -> closed_chain (script_pages rest) = true ->
  snd (worker m i st stable rest) = map MPage (served_pages (script_pages rest)) /\
  map req_key (fst (worker m i st stable rest)) = chain_keys m i (Some st) rest /\
  worker_done m stable rest = true.
Proof.
  induction rest as [|ps rest IH]; intros i st stable Hg Hc; [discriminate|].
  cbn [forallb] in Hg. apply andb_true_iff in Hg as [Hp Hg]. unfold good_page in Hp.
  apply andb_true_iff in Hp as [Hrows Hret].
  destruct (fetch_retried m stable ps Hret) as (ts & c & Ef & Lts).
  cbn [worker worker_done chain_keys]. rewrite Ef. cbn [snd].
  destruct (ps_resp ps) as [rows [st'|]| |] eqn:Er; try discriminate.
  - cbn [script_pages map] in Hc. rewrite Er in Hc. cbn [resp_page closed_chain] in Hc.
    destruct (IH (S i) st' (Some c) Hg Hc) as (I1 & I2 & I3).
    destruct (worker m (S i) st' (Some c) rest) as [rq' ms]. cbn [fst snd] in *.
    cbn [script_pages map]. rewrite Er. cbn [resp_page served_pages snd map].
    rewrite map_app, map_key_reqs, Lts, I2. repeat split; [f_equal; exact I1|exact I3].
  - cbn [script_pages map] in Hc. rewrite Er in Hc. cbn [resp_page closed_chain] in Hc.
    destruct rest as [|ps' rest']; [|cbn [map] in Hc; discriminate].
    cbn [tail_msgs fst snd script_pages map]. rewrite Er. cbn [resp_page served_pages map chain_keys].
    rewrite map_key_reqs, Lts, app_nil_r. repeat split.
Qed.

Lemma closed_has_last pages : closed_chain pages = true -> has_last pages = true.
Proof.
  induction pages as [|[rows [st|]] r IH]; cbn [closed_chain has_last]; intros H; try discriminate; auto.
Qed.

Lemma closed_served pages : closed_chain pages = true -> served_pages pages = map fst pages.
Proof.
  induction pages as [|[rows [st|]] r IH]; cbn [closed_chain served_pages map fst]; intros H; try discriminate.
  - rewrite IH; [reflexivity|exact H].
  - destruct r; [reflexivity|discriminate].
Qed.

Lemma spec_requests_chain_gen m : forall rest pre,
  flat_map (fun ip => repeat (fst ip, spec_state (script_pages (pre ++ rest)) (fst ip))
                             (page_requests m (snd ip)))
           (enumerate_from (List.length pre) rest) =
  chain_keys m (List.length pre) (spec_state (script_pages (pre ++ rest)) (List.length pre)) rest.
Proof.
  induction rest as [|ps rest IH]; intros pre; [reflexivity|].
  cbn [enumerate_from flat_map chain_keys fst snd]. f_equal.
  specialize (IH (pre ++ [ps])). rewrite <- app_assoc in IH. cbn [app] in IH.
  rewrite app_length in IH. cbn [List.length] in IH. rewrite Nat.add_1_r in IH.
  rewrite IH. f_equal. cbn [spec_state]. unfold script_pages. rewrite map_app.
  rewrite nth_error_app2; rewrite map_length; [|lia]. rewrite Nat.sub_diag. cbn [map nth_error].
  destruct (resp_page (ps_resp ps)); reflexivity.
Qed.

Lemma spec_requests_chain m script : spec_requests m script = chain_keys m 0 None script.
Proof. exact (spec_requests_chain_gen m script []). Qed.

Theorem seq_good m script : good_script m script = true ->
  exists rq, seq_run m script = (rq, OStream (spec_stream (script_pages script))) /\
             map req_key rq = spec_requests m script.
Proof.
  unfold good_script. intros H. apply andb_true_iff in H as [Hg Hc].
  change (forallb (good_page m) script = true) in Hg.
  rewrite spec_requests_chain. unfold spec_stream.
  destruct script as [|ps rest]; [discriminate|].
  cbn [forallb] in Hg. apply andb_true_iff in Hg as [Hp Hg]. unfold good_page in Hp.
  apply andb_true_iff in Hp as [Hrows Hret].
  destruct (fetch_retried m None ps Hret) as (ts & c & Ef & Lts).
  unfold seq_run. cbn [start]. rewrite Ef.
  destruct (ps_resp ps) as [rows [st'|]| |] eqn:Er; try discriminate.
  - cbn [script_pages map] in Hc |- *. rewrite Er in Hc |- *. cbn [resp_page closed_chain] in Hc.
    cbn [pfuture pdone].
    destruct (worker_good m rest 1%nat st' (Some c) Hg Hc) as (I1 & I2 & I3).
    destruct (worker m 1 st' (Some c) rest) as [rq' ms]. cbn [fst snd] in *. rewrite I3.
    exists (map (mk_req 0 None) ts ++ rq'). split.
    + f_equal. f_equal. fold (items_of ms). rewrite I1, items_of_pages.
      cbn [resp_page served_pages concat]. fold (script_pages rest).
      rewrite map_app, <- app_assoc. reflexivity.
    + rewrite map_app, map_key_reqs, Lts, I2. cbn [chain_keys]. rewrite Er. reflexivity.
  - cbn [script_pages map] in Hc |- *. rewrite Er in Hc |- *. cbn [resp_page closed_chain] in Hc.
    destruct rest as [|ps' rest']; [|cbn [map] in Hc; discriminate].
    cbn [pfuture pdone flat_map map resp_page served_pages concat app]. rewrite !app_nil_r.
    eexists. split; [reflexivity|]. rewrite map_key_reqs, Lts. cbn [chain_keys]. rewrite app_nil_r. reflexivity.
Qed.


(* ===== part D ===== *)
(* ---------- the paging state of every request, for ANY script ---------- *)
Lemma chain_state_spec : forall script st j,
  chain_state st script (S j) =
  match nth_error (script_pages script) j with Some (_, s) => s | None => None end.
Proof.
  induction script as [|ps r IH]; intros st j.
  - cbn [chain_state script_pages map]. destruct j; reflexivity.
  - cbn [chain_state]. destruct j as [|j'].
    + cbn [chain_state script_pages map nth_error]. destruct (resp_page (ps_resp ps)); cbn [snd chain_state]; reflexivity.
    + rewrite IH. reflexivity.
Qed.

Lemma chain_state_spec_state script j : chain_state None script j = spec_state (script_pages script) j.
Proof. destruct j; [reflexivity|]. apply chain_state_spec. Qed.

Lemma attempts_resp : forall fs resp t rest c r,
  snd (attempts fs resp t rest) = FCompleted c r -> r = resp.
Proof.
  induction fs as [|f fs IH]; intros resp t rest c r H; cbn [attempts snd] in H.
  - injection H as _ <-. reflexivity.
  - destruct f as [|e d| |].
    + destruct rest as [|t' rest']; [discriminate|]. eapply IH; exact H.
    + destruct d.
      * destruct (attempts fs resp t rest) as [l x] eqn:E. cbn [snd] in H.
        eapply (IH resp t rest c r). rewrite E. exact H.
      * destruct rest as [|t' rest']; [discriminate|].
        destruct (attempts fs resp t' rest') as [l x] eqn:E. cbn [snd] in H.
        eapply (IH resp t' rest' c r). rewrite E. exact H.
      * discriminate.
      * discriminate.
    + discriminate.
    + destruct (attempts fs resp t rest) as [l x] eqn:E. cbn [snd] in H.
      eapply (IH resp t rest c r). rewrite E. exact H.
Qed.

Lemma fetch_resp m stable ps c r : snd (fetch_one m stable ps) = FCompleted c r -> r = ps_resp ps.
Proof.
  destruct m; cbn [fetch_one].
  - destruct (eff_plan stable (ps_plan ps)); [discriminate|]. apply attempts_resp.
  - apply attempts_resp.
Qed.

Lemma worker_states m : forall rest i st stable r,
  In r (fst (worker m i st stable rest)) ->
  exists j, rq_page r = (i + j)%nat /\ rq_state r = chain_state (Some st) rest j /\
            (j < List.length rest)%nat.
Proof.
  induction rest as [|ps rest IH]; intros i st stable r Hin; [destruct Hin|].
  cbn [worker] in Hin. destruct (fetch_one m stable ps) as [ts fr] eqn:Ef.
  assert (In r (map (mk_req i (Some st)) ts) ->
          exists j, rq_page r = (i + j)%nat /\ rq_state r = chain_state (Some st) (ps :: rest) j /\
                    (j < List.length (ps :: rest))%nat) as Hhead.
  { intros Hm. apply in_map_iff in Hm as (t & <- & _). exists 0%nat. cbn. repeat split; lia. }
  destruct fr as [c [rows [st'|]| |]|c|e]; cbn [fst] in Hin; try (apply Hhead; exact Hin).
  destruct (worker m (S i) st' (Some c) rest) as [rq' ms] eqn:Ew. cbn [fst] in Hin.
  apply in_app_or in Hin as [Hin|Hin]; [apply Hhead; exact Hin|].
  (* here the response of ps is RRows rows (Some st') only if the script says so; recover it *)
  pose proof (IH (S i) st' (Some c) r) as IH'. rewrite Ew in IH'. destruct (IH' Hin) as (j & P1 & P2 & P3).
  exists (S j). cbn [List.length]. repeat split; [lia| |lia].
  cbn [chain_state]. rewrite P2.
  assert (RRows rows (Some st') = ps_resp ps) as <-.
  { apply (fetch_resp m stable ps c). rewrite Ef. reflexivity. }
  reflexivity.
Qed.

Theorem seq_states m script r : In r (fst (seq_run m script)) ->
  rq_state r = spec_state (script_pages script) (rq_page r) /\ (rq_page r < List.length script)%nat.
Proof.
  unfold seq_run. destruct script as [|ps rest]; [intros []|]. cbn [start].
  destruct (fetch_one m None ps) as [ts fr] eqn:Ef.
  assert (In r (map (mk_req 0 None) ts) ->
          rq_state r = spec_state (script_pages (ps :: rest)) (rq_page r) /\
          (rq_page r < List.length (ps :: rest))%nat) as Hhead.
  { intros Hm. apply in_map_iff in Hm as (t & <- & _). cbn. split; [reflexivity|lia]. }
  destruct fr as [c [rows [st'|]| |]|c|e].
  2: { cbn [fst pfuture app]. rewrite app_nil_r. exact Hhead. }
  2: { destruct m; cbn [fst pfuture app]; rewrite ?app_nil_r; exact Hhead. }
  2: { cbn [fst]. exact Hhead. }
  2: { destruct m; cbn [fst pfuture app]; rewrite ?app_nil_r; exact Hhead. }
  2: { cbn [fst]. exact Hhead. }
  cbn [pfuture]. destruct (worker m 1 st' (Some c) rest) as [rq' ms] eqn:Ew. cbn [fst].
  intros Hin; apply in_app_or in Hin as [Hin|Hin]; [apply Hhead; exact Hin|].
  pose proof (worker_states m rest 1%nat st' (Some c) r) as W.
  rewrite Ew in W; destruct (W Hin) as (j & P1 & P2 & P3).
  rewrite P1, P2; cbn [Nat.add List.length]; split; [|lia].
  rewrite <- chain_state_spec_state; cbn [chain_state].
  assert (RRows rows (Some st') = ps_resp ps) as <-
    by (apply (fetch_resp m None ps c); rewrite Ef; reflexivity).
  reflexivity.
Qed.


(* ===== part E ===== *)
Definition reachable (s0 s : sys) : Prop := exists ls, run s0 ls = Some s.

Lemma run_app s ls1 ls2 :
  run s (ls1 ++ ls2) = match run s ls1 with Some s' => run s' ls2 | None => None end.
Proof.
  revert s; induction ls1 as [|l r IH]; intros s; cbn [run app]; [reflexivity|].
  destruct (step s l) as [s'|]; [apply IH|reflexivity].
Qed.

Lemma run_invariant (Inv : sys -> Prop) :
  (forall s l s', Inv s -> step s l = Some s' -> Inv s') ->
  forall ls s s', Inv s -> run s ls = Some s' -> Inv s'.
Proof.
  intros Hstep ls; induction ls as [|l r IH]; intros s s' Hi Hr; cbn [run] in Hr.
  - injection Hr as <-. exact Hi.
  - destruct (step s l) as [s1|] eqn:E; [|discriminate]. eapply IH; [|exact Hr].
    eapply Hstep; eassumption.
Qed.

(* ---------- what each kind of step touches ---------- *)
Lemma cons_step_frame s s' : step s LCons = Some s' ->
  s_reqs s' = s_reqs s /\ s_prod s' = s_prod s /\ s_fetched s' = s_fetched s /\
  exists d, s_out s' = s_out s ++ d.
Proof.
  cbn [step]; unfold cons_step. intros H.
  destruct (s_cons s); try discriminate.
  destruct (s_cur s); [|injection H as <-; cbn; repeat split; eexists; reflexivity].
  destruct (s_chan s) as [|[[|r rows]|e] ch];
    try (injection H as <-; cbn; repeat split; eexists; try reflexivity; rewrite app_nil_r; reflexivity).
  destruct (s_prod s) eqn:Ep; try discriminate. injection H as <-; cbn. repeat split; eexists; reflexivity.
Qed.

Lemma drop_step_frame s s' : step s LDrop = Some s' ->
  s_reqs s' = s_reqs s /\ s_prod s' = s_prod s /\ s_fetched s' = s_fetched s /\
  s_out s' = s_out s /\ s_recv s' = s_recv s /\ s_cons s' = CDropped /\ s_chan s' = [].
Proof.
  cbn [step]; unfold drop_step. intros H.
  destruct (s_cons s); try discriminate; injection H as <-; cbn; repeat split.
Qed.

Lemma prod_step_frame s s' : step s LProd = Some s' ->
  s_out s' = s_out s /\ s_cons s' = s_cons s /\ s_cur s' = s_cur s /\ s_recv s' = s_recv s.
Proof.
  cbn [step]; unfold prod_step. intros H.
  destruct (s_prod s) as [i st stable [|ps rest]|x k|]; try discriminate.
  - destruct (fetch_one _ _ _). injection H as <-. cbn. repeat split.
  - destruct (s_cons s); [destruct (s_chan s); try discriminate| destruct (s_chan s); try discriminate|];
      injection H as <-; cbn; repeat split.
Qed.

(* ---------- safety in EVERY reachable state (any schedule, drops included) ---------- *)
Definition inv_items (T : list item) (s : sys) : Prop :=
  (s_cons s <> CDropped -> total_items s = T) /\ exists r, s_out s ++ r = T.

Lemma inv_items_step T s l s' : inv_items T s -> step s l = Some s' -> inv_items T s'.
Proof.
  intros [H1 [r H2]] Hs.
  assert (s_cons s = CDropped \/ s_cons s <> CDropped) as [Hd|Hd]
    by (destruct (s_cons s); [right|right|left]; congruence).
  - pose proof (dropped_stays _ _ _ Hs Hd) as Hd'. split; [congruence|].
    destruct l.
    + destruct (prod_step_frame _ _ Hs) as (-> & _). exists r; exact H2.
    + cbn [step] in Hs; unfold cons_step in Hs. rewrite Hd in Hs. discriminate.
    + cbn [step] in Hs; unfold drop_step in Hs. rewrite Hd in Hs. discriminate.
  - destruct l.
    + destruct (step_preserves _ _ _ Hs Hd ltac:(discriminate)) as (P1 & _ & P3 & _).
      split; [intros _; rewrite P1; auto|]. exists (remaining s'). fold (total_items s'). rewrite P1; auto.
    + destruct (step_preserves _ _ _ Hs Hd ltac:(discriminate)) as (P1 & _ & P3 & _).
      split; [intros _; rewrite P1; auto|]. exists (remaining s'). fold (total_items s'). rewrite P1; auto.
    + destruct (drop_step_frame _ _ Hs) as (_ & _ & _ & Ho & _ & Hc & _).
      split; [congruence|]. rewrite Ho. exists r; exact H2.
Qed.

Definition inv_reqs (R : list req) (s : sys) : Prop :=
  exists r, s_reqs s ++ fst (pfuture (s_mode s) (s_prod s)) ++ r = R.

Lemma inv_reqs_step R s l s' : inv_reqs R s -> step s l = Some s' -> inv_reqs R s'.
Proof.
  intros [r H] Hs. unfold inv_reqs. rewrite (step_mode _ _ _ Hs). destruct l.
  - cbn [step] in Hs; unfold prod_step in Hs.
    destruct (s_prod s) as [i st stable [|ps rest]|x k|] eqn:Ep; try discriminate.
    + rewrite pfuture_fetch in H. destruct (fetch_one (s_mode s) stable ps) as [ts fr].
      injection Hs as <-. cbn [s_reqs s_prod fst snd] in *. exists r.
      rewrite <- H, <- !app_assoc. reflexivity.
    + cbn [pfuture] in H. destruct (pfuture (s_mode s) k) as [rq ms] eqn:Ek. cbn [fst] in H.
      destruct (s_cons s); [destruct (s_chan s); try discriminate| destruct (s_chan s); try discriminate|];
        injection Hs as <-; cbn [s_reqs s_prod pfuture fst]; rewrite ?Ek; cbn [fst].
      * exists r; exact H.
      * exists r; exact H.
      * exists (rq ++ r). exact H.
  - destruct (cons_step_frame _ _ Hs) as (-> & -> & _). exists r; exact H.
  - destruct (drop_step_frame _ _ Hs) as (-> & -> & _). exists r; exact H.
Qed.

Theorem reach_prefix m script rq0 rows p ls s :
  start m script = (rq0, SPager rows p) -> run (init_sys m rq0 rows p) ls = Some s ->
  (exists r, s_out s ++ r = map IRow rows ++ items_of (snd (pfuture m p)) ++ [IEnd]) /\
  (exists r, s_reqs s ++ r = fst (seq_run m script)).
Proof.
  intros Hst Hr. split.
  - pose proof (run_invariant (inv_items (map IRow rows ++ items_of (snd (pfuture m p)) ++ [IEnd]))
                  (inv_items_step _) ls (init_sys m rq0 rows p) s) as HI.
    apply HI in Hr; [exact (proj2 Hr)|].
    split; [intros _; reflexivity|]. eexists; cbn [init_sys s_out app]; reflexivity.
  - pose proof (run_invariant (inv_reqs (fst (seq_run m script)))
                  (inv_reqs_step _) ls (init_sys m rq0 rows p) s) as HI.
    apply HI in Hr.
    + destruct Hr as [r H]. eexists. rewrite <- H. reflexivity.
    + exists []. unfold seq_run. rewrite Hst. cbn [init_sys s_reqs s_mode s_prod].
      destruct (pfuture m p) as [rq ms]. cbn [fst]. rewrite app_nil_r. reflexivity.
Qed.

(* ---------- progress: no reachable state waits on nothing ---------- *)
Theorem progress s : s_cons s = CActive -> pdone (s_mode s) (s_prod s) = true ->
  (exists s', step s LProd = Some s') \/ (exists s', step s LCons = Some s').
Proof.
  intros Hc Hd. cbn [step]. unfold prod_step, cons_step. rewrite Hc.
  destruct (s_cur s) as [|r cur]; [|right; eexists; reflexivity].
  destruct (s_chan s) as [|[[|r rows]|e] ch]; try (right; eexists; reflexivity).
  destruct (s_prod s) as [i st stable [|ps rest]|x k|].
  - cbn in Hd. discriminate.
  - left. destruct (fetch_one _ _ _). eexists; reflexivity.
  - left. eexists; reflexivity.
  - right. eexists; reflexivity.
Qed.

(* ---------- termination: every step decreases a measure, for every schedule ---------- *)
Definition resp_rows (r : response) : nat :=
  match r with RRows rows _ => List.length rows | _ => 0%nat end.
Fixpoint wscript (rest : list pscript) : nat :=
  match rest with [] => 0%nat | ps :: r => (4 + resp_rows (ps_resp ps) + wscript r)%nat end.
Definition msz (x : msg) : nat :=
  match x with MPage rows => (2 + List.length rows)%nat | MErr _ => 2%nat end.
Fixpoint wprod (p : prod) : nat :=
  match p with
  | PFetch _ _ _ rest => (1 + wscript rest)%nat
  | PSend x k => (1 + msz x + wprod k)%nat
  | PDone => 0%nat
  end.
Fixpoint wchan (ch : list msg) : nat :=
  match ch with [] => 0%nat | x :: r => (msz x + wchan r)%nat end.
Definition wcons (c : cstat) : nat :=
  match c with CActive => 2%nat | CEnded => 1%nat | CDropped => 0%nat end.
Definition mu (s : sys) : nat :=
  (wprod (s_prod s) + wchan (s_chan s) + List.length (s_cur s) + wcons (s_cons s))%nat.

Lemma after_fetch_weight m stable ps i rest :
  (wprod (after_fetch i rest (snd (fetch_one m stable ps))) <= wscript (ps :: rest))%nat.
Proof.
  destruct (snd (fetch_one m stable ps)) as [c r|c|e] eqn:E; cbn [after_fetch wprod wscript msz].
  - apply fetch_resp in E. subst r.
    destruct (ps_resp ps) as [rows [st'|]| |]; cbn [after_fetch wprod wscript msz resp_rows]; lia.
  - lia.
  - lia.
Qed.

Theorem step_decreases s l s' : step s l = Some s' -> (mu s' < mu s)%nat.
Proof.
  unfold mu. destruct l; cbn [step]; unfold prod_step, cons_step, drop_step; intros H.
  - destruct (s_prod s) as [i st stable [|ps rest]|x k|] eqn:Ep; try discriminate.
    + pose proof (after_fetch_weight (s_mode s) stable ps i rest) as W.
      destruct (fetch_one (s_mode s) stable ps) as [ts fr]. cbn [snd] in W.
      injection H as <-. cbn [s_prod s_chan s_cur s_cons wprod]. lia.
    + destruct (s_cons s); [destruct (s_chan s); try discriminate| destruct (s_chan s); try discriminate|];
        injection H as <-; cbn [s_prod s_chan s_cur s_cons wprod wchan wcons]; lia.
  - destruct (s_cons s); try discriminate.
    destruct (s_cur s) as [|r cur]; [|injection H as <-; cbn [s_prod s_chan s_cur s_cons wcons List.length]; lia].
    destruct (s_chan s) as [|[[|r rows]|e] ch];
      try (injection H as <-; cbn [s_prod s_chan s_cur s_cons wcons wchan msz List.length]; lia).
    destruct (s_prod s); try discriminate.
    injection H as <-; cbn [s_prod s_chan s_cur s_cons wcons wchan wprod List.length]; lia.
  - destruct (s_cons s); try discriminate;
      injection H as <-; cbn [s_prod s_chan s_cur s_cons wcons wchan List.length]; lia.
Qed.

Theorem run_bounded ls : forall s s', run s ls = Some s' -> (List.length ls + mu s' <= mu s)%nat.
Proof.
  induction ls as [|l ls IH]; intros s s' H; cbn [run] in H.
  - injection H as <-. cbn [List.length]. lia.
  - destruct (step s l) as [s1|] eqn:E; [|discriminate].
    pose proof (step_decreases _ _ _ E). pose proof (IH _ _ H). cbn [List.length]. lia.
Qed.

(* from every reachable state in which the caller is still reading, some schedule lets it see
   the end of the stream (given that the server answers every request the script reaches) *)
Theorem completes : forall n s, (mu s <= n)%nat -> s_cons s = CActive ->
  pdone (s_mode s) (s_prod s) = true ->
  exists ls s', run s ls = Some s' /\ s_cons s' = CEnded.
Proof.
  induction n as [|n IH]; intros s Hmu Hc Hd.
  - unfold mu in Hmu. rewrite Hc in Hmu. cbn [wcons] in Hmu. lia.
  - destruct (progress s Hc Hd) as [[s1 E]|[s1 E]].
    + pose proof (step_decreases _ _ _ E) as Hlt.
      destruct (step_preserves _ _ _ E ltac:(congruence) ltac:(discriminate)) as (_ & _ & _ & P).
      destruct (prod_step_frame _ _ E) as (_ & Hc1 & _).
      destruct (IH s1 ltac:(lia) ltac:(congruence) ltac:(congruence)) as (ls & s' & R & He).
      exists (LProd :: ls), s'. cbn [run]. rewrite E. split; assumption.
    + pose proof (step_decreases _ _ _ E) as Hlt.
      destruct (step_preserves _ _ _ E ltac:(congruence) ltac:(discriminate)) as (_ & _ & Hnd & P).
      destruct (s_cons s1) eqn:Hc1; [| |congruence].
      * destruct (IH s1 ltac:(lia) Hc1 ltac:(congruence)) as (ls & s' & R & He).
        exists (LCons :: ls), s'. cbn [run]. rewrite E. split; assumption.
      * exists [LCons], s1. cbn [run]. rewrite E. split; [reflexivity|exact Hc1].
Qed.

(* ---------- early drop ---------- *)
Definition prank (p : prod) : nat :=
  match p with PFetch _ _ _ _ => 2%nat | PSend _ _ => 1%nat | PDone => 0%nat end.
Definition fb (p : prod) : nat :=
  match p with PFetch _ _ _ _ => 1%nat | _ => 0%nat end.

Lemma dropped_step s l s' : s_cons s = CDropped -> step s l = Some s' ->
  s_cons s' = CDropped /\ s_out s' = s_out s /\ s_recv s' = s_recv s /\
  (S (prank (s_prod s')) <= prank (s_prod s))%nat /\
  (s_fetched s' + fb (s_prod s') <= s_fetched s + fb (s_prod s))%nat /\
  exists i st ts, s_reqs s' = s_reqs s ++ map (mk_req i st) ts /\
                  (fb (s_prod s) = 0%nat -> ts = []) /\ fb (s_prod s') = 0%nat.
Proof.
  intros Hd H. destruct l; cbn [step] in H; unfold prod_step, cons_step, drop_step in H;
    rewrite ?Hd in H; try discriminate.
  destruct (s_prod s) as [i st stable [|ps rest]|x k|] eqn:Ep; try discriminate.
  - destruct (fetch_one (s_mode s) stable ps) as [ts fr]. injection H as <-.
    cbn [s_cons s_out s_recv s_prod s_fetched s_reqs prank fb].
    repeat split; try assumption.
    + destruct fr as [c [rows [st'|]| |]|c|e]; cbn [after_fetch prank]; lia.
    + destruct fr as [c [rows [st'|]| |]|c|e]; cbn [after_fetch fb]; lia.
    + exists i, (Some st), ts. repeat split; [discriminate|].
      destruct fr as [c [rows [st'|]| |]|c|e]; reflexivity.
  - injection H as <-. cbn [s_cons s_out s_recv s_prod s_fetched s_reqs prank fb].
    repeat split; try lia.
    exists 0%nat, None, []. rewrite app_nil_r. repeat split.
Qed.

Lemma dropped_run ls : forall s s', s_cons s = CDropped -> run s ls = Some s' ->
  s_out s' = s_out s /\ s_recv s' = s_recv s /\
  (List.length ls + prank (s_prod s') <= prank (s_prod s))%nat /\
  (s_fetched s' + fb (s_prod s') <= s_fetched s + fb (s_prod s))%nat /\
  exists i st ts, s_reqs s' = s_reqs s ++ map (mk_req i st) ts.
Proof.
  induction ls as [|l ls IH]; intros s s' Hd H; cbn [run] in H.
  - injection H as <-. cbn [List.length]. repeat split; try lia.
    exists 0%nat, None, []. rewrite app_nil_r. reflexivity.
  - destruct (step s l) as [s1|] eqn:E; [|discriminate].
    destruct (dropped_step _ _ _ Hd E) as (D1 & D2 & D3 & D4 & D5 & i & st & ts & D6 & D7 & D8).
    destruct (IH _ _ D1 H) as (I1 & I2 & I3 & I4 & i' & st' & ts' & I5).
    cbn [List.length]. repeat split; try congruence; try lia.
    (* a second step after the drop cannot be a fetch *)
    destruct ls as [|l2 ls2].
    + cbn [run] in H. injection H as <-. exists i, st, ts. exact D6.
    + cbn [run] in H. destruct (step s1 l2) as [s2|] eqn:E2; [|discriminate].
      destruct (dropped_step _ _ _ D1 E2) as (F1 & _ & _ & F4 & _ & i2 & st2 & ts2 & F6 & F7 & _).
      specialize (F7 D8). subst ts2. cbn [map] in F6. rewrite app_nil_r in F6.
      destruct ls2 as [|l3 ls3].
      * cbn [run] in H. injection H as <-. exists i, st, ts. congruence.
      * cbn [run] in H. destruct (step s2 l3) as [s3|] eqn:E3; [|discriminate].
        destruct (dropped_step _ _ _ F1 E3) as (_ & _ & _ & G4 & _).
        exfalso. assert (prank (s_prod s) <= 2)%nat by (destruct (s_prod s); cbn; lia). lia.
Qed.

(* consumer drop => the worker stops after at most one more fetch, within two of its steps,
   and what it still sends belongs to one page *)
Theorem early_drop s0 ls1 ls2 s1 s2 :
  run s0 ls1 = Some s1 -> run s1 (LDrop :: ls2) = Some s2 ->
  (s_fetched s2 <= S (s_fetched s1))%nat /\
  (List.length ls2 <= 2)%nat /\
  (List.length ls2 = prank (s_prod s1) -> s_prod s2 = PDone) /\
  s_out s2 = s_out s1 /\
  exists i st ts, s_reqs s2 = s_reqs s1 ++ map (mk_req i st) ts.
Proof.
  intros _ H. cbn [run] in H. destruct (step s1 LDrop) as [sd|] eqn:E; [|discriminate].
  destruct (drop_step_frame _ _ E) as (R1 & R2 & R3 & R4 & R5 & R6 & R7).
  destruct (dropped_run _ _ _ R6 H) as (I1 & I2 & I3 & I4 & i & st & ts & I5).
  rewrite R2 in *. rewrite R3 in *.
  assert (fb (s_prod s1) <= 1)%nat by (destruct (s_prod s1); cbn; lia).
  assert (prank (s_prod s1) <= 2)%nat by (destruct (s_prod s1); cbn; lia).
  repeat split; try lia; try congruence.
  - intros Hl. destruct (s_prod s2); cbn [prank] in I3; try lia. reflexivity.
  - exists i, st, ts. congruence.
Qed.

(* bounded read-ahead: in EVERY reachable state the worker has fetched at most two pages
   beyond those the consumer has taken out of the channel *)
Definition credit (p : prod) : nat :=
  match p with PFetch _ _ _ _ => 0%nat | _ => 1%nat end.
Fixpoint pending (p : prod) : nat :=
  match p with PSend _ k => S (pending k) | _ => 0%nat end.

Definition inv_ahead (s : sys) : Prop :=
  (s_cons s <> CDropped ->
     (s_fetched s <= 1 + s_recv s + List.length (s_chan s) + credit (s_prod s))%nat /\
     (List.length (s_chan s) <= 1)%nat) /\
  (s_fetched s + fb (s_prod s) <= s_recv s + 3)%nat /\
  (1 + s_recv s + List.length (s_chan s) + pending (s_prod s) <= s_fetched s)%nat.

Lemma inv_ahead_step s l s' : inv_ahead s -> step s l = Some s' -> inv_ahead s'.
Proof.
  intros (H1 & H2 & H3) Hs. unfold inv_ahead.
  assert (s_cons s = CDropped \/ s_cons s <> CDropped) as [Hd|Hd]
    by (destruct (s_cons s); [right|right|left]; congruence).
  - destruct (dropped_step _ _ _ Hd Hs) as (D1 & D2 & D3 & D4 & D5 & _).
    split; [congruence|]. split; [lia|].
    destruct l; cbn [step] in Hs; unfold prod_step, cons_step, drop_step in Hs; rewrite ?Hd in Hs; try discriminate.
    destruct (s_prod s) as [i st stable [|ps rest]|x k|] eqn:Ep; try discriminate.
    + destruct (fetch_one (s_mode s) stable ps) as [ts fr]. injection Hs as <-.
      cbn [s_recv s_chan s_prod s_fetched] in *. cbn [pending] in H3.
      destruct fr as [c [rows [st'|]| |]|c|e]; cbn [after_fetch pending]; lia.
    + injection Hs as <-. cbn [s_recv s_chan s_prod s_fetched pending] in *. lia.
  - destruct (H1 Hd) as [A1 A2]. destruct l; cbn [step] in Hs; unfold prod_step, cons_step, drop_step in Hs.
    + destruct (s_prod s) as [i st stable [|ps rest]|x k|] eqn:Ep; try discriminate.
      * destruct (fetch_one (s_mode s) stable ps) as [ts fr]. injection Hs as <-.
        cbn [s_cons s_recv s_chan s_prod s_fetched credit fb pending] in *.
        assert (credit (after_fetch i rest fr) = 1 /\ fb (after_fetch i rest fr) = 0 /\
                pending (after_fetch i rest fr) <= 1)%nat as (C1 & C2 & C3)
          by (destruct fr as [c [rows [st'|]| |]|c|e]; cbn; lia).
        repeat split; try lia.
      * destruct (s_cons s) eqn:Ec; [| |congruence];
          (destruct (s_chan s) eqn:Ech; [|discriminate]); injection Hs as <-;
          cbn [s_cons s_recv s_chan s_prod s_fetched credit fb pending List.length] in *;
          assert (credit k <= 1 /\ fb k + credit k <= 1)%nat as (C1 & C2)
            by (destruct k; cbn; lia);
          repeat split; try lia.
    + destruct (s_cons s) eqn:Ec; try discriminate.
      destruct (s_cur s) as [|r cur].
      * destruct (s_chan s) as [|[[|r rows]|e] ch] eqn:Ech.
        -- destruct (s_prod s) eqn:Ep; try discriminate. injection Hs as <-.
           cbn [s_cons s_recv s_chan s_prod s_fetched credit fb pending List.length] in *.
           repeat split; try lia.
        -- injection Hs as <-. cbn [s_cons s_recv s_chan s_prod s_fetched List.length] in *.
           assert (fb (s_prod s) + credit (s_prod s) <= 1)%nat by (destruct (s_prod s); cbn; lia).
           repeat split; try lia.
        -- injection Hs as <-. cbn [s_cons s_recv s_chan s_prod s_fetched List.length] in *.
           assert (fb (s_prod s) + credit (s_prod s) <= 1)%nat by (destruct (s_prod s); cbn; lia).
           repeat split; try lia.
        -- injection Hs as <-. cbn [s_cons s_recv s_chan s_prod s_fetched List.length] in *.
           assert (fb (s_prod s) + credit (s_prod s) <= 1)%nat by (destruct (s_prod s); cbn; lia).
           repeat split; try lia.
      * injection Hs as <-. cbn [s_cons s_recv s_chan s_prod s_fetched List.length] in *.
        repeat split; try lia.
    + destruct (s_cons s) eqn:Ec; try discriminate; injection Hs as <-;
        cbn [s_cons s_recv s_chan s_prod s_fetched List.length] in *;
        assert (fb (s_prod s) + credit (s_prod s) <= 1)%nat by (destruct (s_prod s); cbn; lia);
        (split; [intros X; exfalso; apply X; reflexivity|]); split; lia.
Qed.

Lemma start_prod m script rq0 rows p : start m script = (rq0, SPager rows p) ->
  p = PDone \/ exists st c rest, p = PFetch 1 st (Some c) rest.
Proof.
  destruct script as [|ps rest]; cbn [start]; [discriminate|].
  destruct (fetch_one m None ps) as [ts fr].
  destruct fr as [c [rw [st'|]| |]|c|e]; try destruct m; intros H; try discriminate;
    injection H as _ _ <-; try (left; reflexivity).
  all: right; eauto.
Qed.

Theorem read_ahead m script rq0 rows p ls s :
  start m script = (rq0, SPager rows p) -> run (init_sys m rq0 rows p) ls = Some s ->
  (S (s_recv s) <= s_fetched s <= s_recv s + 3)%nat.
Proof.
  intros Hst Hr.
  pose proof (run_invariant inv_ahead inv_ahead_step ls (init_sys m rq0 rows p) s) as HI.
  apply HI in Hr.
  - destruct Hr as (_ & H2 & H3). lia.
  - unfold inv_ahead, init_sys. cbn [s_cons s_recv s_chan s_prod s_fetched List.length].
    destruct (start_prod _ _ _ _ _ Hst) as [->|(st & c & rest & ->)]; cbn [credit fb pending];
      repeat split; lia.
Qed.


(* ===== part F ===== *)
(* ---------- acceptors ---------- *)
Lemma item_eqb_eq a b : item_eqb a b = true <-> a = b.
Proof.
  destruct a, b; cbn [item_eqb]; try (split; [discriminate|discriminate]); try tauto.
  - rewrite N.eqb_eq. split; [intros ->; reflexivity|intros E; injection E; auto].
  - rewrite N.eqb_eq. split; [intros ->; reflexivity|intros E; injection E; auto].
Qed.

Lemma key_eqb_eq a b : key_eqb a b = true <-> a = b.
Proof.
  destruct a as [i x], b as [j y]. unfold key_eqb. cbn [fst snd].
  rewrite andb_true_iff, Nat.eqb_eq.
  assert (opt_eqb (list_eqb N.eqb) x y = true <-> x = y) as ->.
  { destruct x as [x|], y as [y|]; cbn [opt_eqb]; try (split; [discriminate|discriminate]); try tauto.
    rewrite (list_eqb_eq N.eqb N.eqb_eq). split; [intros ->; reflexivity|intros E; injection E; auto]. }
  split; [intros [-> ->]; reflexivity|intros E; injection E; auto].
Qed.

Lemma is_prefix_spec {A} (eqb : A -> A -> bool) :
  (forall x y, eqb x y = true <-> x = y) ->
  forall a b, is_prefix eqb a b = true -> exists r, a ++ r = b.
Proof.
  intros H a; induction a as [|x a IH]; intros b Hp.
  - exists b. reflexivity.
  - destruct b as [|y b]; cbn [is_prefix] in Hp; [discriminate|].
    apply andb_true_iff in Hp as [E Hp]. apply H in E; subst y.
    destruct (IH b Hp) as [r <-]. exists r. reflexivity.
Qed.

Theorem accept_full_sound m script oi ok : accept_full m script oi ok = true ->
  oi = obs_items (snd (seq_run m script)) /\ ok = map req_key (fst (seq_run m script)).
Proof.
  unfold accept_full. destruct (seq_run m script) as [rq o]. intros H.
  apply andb_true_iff in H as [H1 H2].
  apply (list_eqb_eq item_eqb item_eqb_eq) in H1. apply (list_eqb_eq key_eqb key_eqb_eq) in H2.
  split; assumption.
Qed.

Lemma list_eqb_refl {A} (eqb : A -> A -> bool) :
  (forall x y, eqb x y = true <-> x = y) -> forall a, list_eqb eqb a a = true.
Proof. intros H a. apply (list_eqb_eq eqb H). reflexivity. Qed.

(* every schedule that reads the stream to its end is accepted *)
Theorem accept_full_complete m script rq0 rows p ls s :
  start m script = (rq0, SPager rows p) ->
  run (init_sys m rq0 rows p) ls = Some s -> s_cons s = CEnded ->
  accept_full m script (s_out s) (map req_key (s_reqs s)) = true.
Proof.
  intros Hst Hr He. destruct (sched_full _ _ _ _ _ _ _ Hst Hr He) as [H1 H2].
  unfold accept_full. destruct (seq_run m script) as [rq o]. cbn [fst snd] in *.
  subst o rq. cbn [obs_items].
  rewrite (list_eqb_refl item_eqb item_eqb_eq), (list_eqb_refl key_eqb key_eqb_eq). reflexivity.
Qed.

Theorem accept_full_complete_fail m script rq0 e :
  start m script = (rq0, SFail e) ->
  accept_full m script [IErr e; IEnd] (map req_key rq0) = true.
Proof.
  intros Hst. unfold accept_full, seq_run. rewrite Hst. cbn [obs_items].
  rewrite (list_eqb_refl item_eqb item_eqb_eq), (list_eqb_refl key_eqb key_eqb_eq). reflexivity.
Qed.

Theorem accept_drop_sound m script n oi ok : accept_drop m script n oi ok = true ->
  (forall rq0 rows p, start m script = (rq0, SPager rows p) ->
     exists r, oi ++ r = map IRow rows ++ items_of (snd (pfuture m p)) ++ [IEnd]) /\
  (exists r, ok ++ r = map req_key (fst (seq_run m script))) /\
  (forall i st, In (i, st) ok -> st = spec_state (script_pages script) i).
Proof.
  intros H.
  assert (exists r, ok ++ r = map req_key (fst (seq_run m script))) as Hk.
  { unfold accept_drop, seq_run in *. destruct (start m script) as [rq0 [|e|rows p]] eqn:Hst; try discriminate.
    - apply andb_true_iff in H as [_ H2]. apply (list_eqb_eq key_eqb key_eqb_eq) in H2.
      exists []. rewrite app_nil_r. exact H2.
    - destruct (pfuture m p) as [rq ms] eqn:Hp.
      apply andb_true_iff in H as [H _]. apply andb_true_iff in H as [H _].
      apply andb_true_iff in H as [_ H2].
      apply (is_prefix_spec key_eqb key_eqb_eq) in H2 as [r H2]. exists r. exact H2. }
  split; [|split; [exact Hk|]].
  - intros rq0 rows p Hst. unfold accept_drop in H. rewrite Hst in H.
    destruct (pfuture m p) as [rq ms] eqn:Hp.
    apply andb_true_iff in H as [H _]. apply andb_true_iff in H as [H _].
    apply andb_true_iff in H as [H1 _].
    apply (list_eqb_eq item_eqb item_eqb_eq) in H1.
    eexists. cbn [snd]. unfold items_of. rewrite H1. apply firstn_skipn.
  - destruct Hk as [r Hk]. intros i st Hin.
    assert (In (i, st) (map req_key (fst (seq_run m script)))) as Hin'
      by (rewrite <- Hk; apply in_or_app; left; exact Hin).
    apply in_map_iff in Hin' as (q & E & Hq).
    apply seq_states in Hq as [Hs _]. unfold req_key in E. injection E as <- <-. exact Hs.
Qed.


(* ===== part G ===== *)
(* ---------- the statements of Props/C07.v ---------- *)
Lemma pager_init_start m script s0 : pager_init m script = Some s0 ->
  exists rq0 rows p, start m script = (rq0, SPager rows p) /\ s0 = init_sys m rq0 rows p.
Proof.
  unfold pager_init. destruct (start m script) as [rq0 [|e|rows p]]; try discriminate.
  intros H; injection H as <-. eauto.
Qed.

Lemma good_start m script : good_script m script = true ->
  exists s0, pager_init m script = Some s0.
Proof.
  intros Hg. destruct (seq_good m script Hg) as (rq & E & _).
  unfold seq_run in E. unfold pager_init. destruct (start m script) as [rq0 [|e|rows p]]; try discriminate.
  eauto.
Qed.

Theorem rows_thm m script : good_script m script = true ->
  exists s0, pager_init m script = Some s0 /\
  forall ls s, run s0 ls = Some s -> s_cons s = CEnded ->
    s_out s = spec_stream (script_pages script) /\
    map req_key (s_reqs s) = spec_requests m script.
Proof.
  intros Hg. destruct (good_start m script Hg) as [s0 H0]. exists s0. split; [exact H0|].
  destruct (pager_init_start _ _ _ H0) as (rq0 & rows & p & Hst & ->).
  intros ls s Hr He. destruct (sched_full _ _ _ _ _ _ _ Hst Hr He) as [H1 H2].
  destruct (seq_good m script Hg) as (rq & E & K). rewrite E in H1, H2. cbn [fst snd] in *.
  injection H1 as ->. subst rq. split; [reflexivity|exact K].
Qed.

Theorem rows_safety_thm m script s0 ls s : good_script m script = true ->
  pager_init m script = Some s0 -> run s0 ls = Some s ->
  exists r, s_out s ++ r = spec_stream (script_pages script).
Proof.
  intros Hg H0 Hr. destruct (pager_init_start _ _ _ H0) as (rq0 & rows & p & Hst & ->).
  destruct (reach_prefix _ _ _ _ _ _ _ Hst Hr) as [[r Ho] _]. exists r. rewrite Ho.
  destruct (seq_good m script Hg) as (rq & E & _). unfold seq_run in E. rewrite Hst in E.
  destruct (pfuture m p) as [rq' ms]. cbn [snd]. unfold items_of.
  destruct (pdone m p); [|discriminate]. injection E as _ <-. reflexivity.
Qed.

Lemma prefix_NoDup {A} (a r : list A) : NoDup (a ++ r) -> NoDup a.
Proof.
  induction a as [|x a IH]; cbn [app]; intros H; [constructor|].
  inversion H as [|? ? Hx Hn]; subst. constructor; [|apply IH; exact Hn].
  intros Hin. apply Hx. apply in_or_app. left; exact Hin.
Qed.

Lemma NoDup_spec_stream pages : NoDup (concat (served_pages pages)) -> NoDup (spec_stream pages).
Proof.
  unfold spec_stream. generalize (concat (served_pages pages)). intros l H.
  induction H as [|x l Hx Hn IH]; cbn [map app].
  - constructor; [intros []|constructor].
  - constructor; [|exact IH]. intros Hin. apply in_app_or in Hin as [Hin|[Hin|[]]]; [|discriminate].
    apply in_map_iff in Hin as (y & E & Hy). injection E as ->. exact (Hx Hy).
Qed.

Theorem no_dup_thm m script s0 ls s : good_script m script = true ->
  NoDup (concat (served_pages (script_pages script))) ->
  pager_init m script = Some s0 -> run s0 ls = Some s -> NoDup (s_out s).
Proof.
  intros Hg Hnd H0 Hr. destruct (rows_safety_thm _ _ _ _ _ Hg H0 Hr) as [r E].
  apply (prefix_NoDup _ r). rewrite E. apply NoDup_spec_stream; exact Hnd.
Qed.

Theorem states_thm m script :
  (forall r, In r (fst (start m script)) -> rq_page r = 0%nat /\ rq_state r = None) /\
  (forall s0 ls s r, pager_init m script = Some s0 -> run s0 ls = Some s -> In r (s_reqs s) ->
     rq_state r = spec_state (script_pages script) (rq_page r) /\
     (rq_page r < List.length script)%nat).
Proof.
  split.
  - intros r. destruct script as [|ps rest]; cbn [start fst]; [intros []|].
    destruct (fetch_one m None ps) as [ts fr]. cbn [fst]. intros Hin.
    apply in_map_iff in Hin as (t & <- & _). split; reflexivity.
  - intros s0 ls s r H0 Hr Hin. destruct (pager_init_start _ _ _ H0) as (rq0 & rows & p & Hst & ->).
    destruct (reach_prefix _ _ _ _ _ _ _ Hst Hr) as [_ [x Hx]].
    apply (seq_states m). rewrite <- Hx. apply in_or_app. left; exact Hin.
Qed.

Theorem ends_thm m script s0 : pager_init m script = Some s0 ->
  (forall ls s, run s0 ls = Some s -> (List.length ls + mu s <= mu s0)%nat) /\
  (pdone m (s_prod s0) = true ->
   forall ls s, run s0 ls = Some s -> s_cons s = CActive ->
     ((exists s', step s LProd = Some s') \/ (exists s', step s LCons = Some s')) /\
     exists ls' s', run s (ls') = Some s' /\ s_cons s' = CEnded).
Proof.
  intros H0. split; [intros ls s Hr; apply run_bounded; exact Hr|].
  intros Hd ls s Hr Hc.
  destruct (run_preserves _ _ _ Hr ltac:(congruence)) as (_ & _ & P & Hm).
  destruct (pager_init_start _ _ _ H0) as (rq0 & rows & p & Hst & ->).
  cbn [init_sys s_mode s_prod] in *. rewrite Hm in P.
  assert (pdone (s_mode s) (s_prod s) = true) as Hd' by (rewrite Hm; congruence).
  split; [apply progress; assumption|].
  apply (completes (mu s) s (le_n _) Hc Hd').
Qed.

Lemma good_pdone m script s0 : good_script m script = true -> pager_init m script = Some s0 ->
  pdone m (s_prod s0) = true.
Proof.
  intros Hg H0. destruct (pager_init_start _ _ _ H0) as (rq0 & rows & p & Hst & ->).
  destruct (seq_good m script Hg) as (rq & E & _). unfold seq_run in E. rewrite Hst in E.
  cbn [init_sys s_prod]. destruct (pfuture m p). destruct (pdone m p); [reflexivity|discriminate].
Qed.

Theorem read_ahead_thm m script s0 ls s : pager_init m script = Some s0 -> run s0 ls = Some s ->
  (S (s_recv s) <= s_fetched s <= s_recv s + 3)%nat.
Proof.
  intros H0 Hr. destruct (pager_init_start _ _ _ H0) as (rq0 & rows & p & Hst & ->).
  eapply read_ahead; eassumption.
Qed.

Theorem accept_full_complete_thm m script :
  (forall s0 ls s, pager_init m script = Some s0 -> run s0 ls = Some s -> s_cons s = CEnded ->
     accept_full m script (s_out s) (map req_key (s_reqs s)) = true) /\
  (forall rq0 e, start m script = (rq0, SFail e) ->
     accept_full m script [IErr e; IEnd] (map req_key rq0) = true).
Proof.
  split.
  - intros s0 ls s H0 Hr He. destruct (pager_init_start _ _ _ H0) as (rq0 & rows & p & Hst & ->).
    eapply accept_full_complete; eassumption.
  - intros rq0 e Hst. apply accept_full_complete_fail; exact Hst.
Qed.


(* ===== part I ===== *)
(* ---------- completeness of the early-drop acceptor ---------- *)

(* (1) which requests have been sent: exactly those of the pages fetched so far *)
Fixpoint pidx (p : prod) (n : nat) : Prop :=
  match p with
  | PFetch i _ _ _ => i = n
  | PSend _ k => pidx k n
  | PDone => True
  end.

Lemma pfuture_pages m : forall p n q, pidx p n -> In q (fst (pfuture m p)) -> (n <= rq_page q)%nat.
Proof.
  induction p as [i st stable rest|x k IH|]; intros n q Hp Hin; cbn [pidx pfuture] in *.
  - subst n. destruct (worker_states m rest i st stable q Hin) as (j & -> & _). lia.
  - destruct (pfuture m k) as [rq ms] eqn:E. cbn [fst] in *. apply (IH n q Hp Hin).
  - destruct Hin.
Qed.

Lemma pidx_after_fetch i rest fr : pidx (after_fetch i rest fr) (S i).
Proof. destruct fr as [c [rows [st'|]| |]|c|e]; cbn; auto. Qed.

Definition inv_sent (R : list req) (s : sys) : Prop :=
  exists r, s_reqs s ++ fst (pfuture (s_mode s) (s_prod s)) ++ r = R /\
    (forall q, In q (s_reqs s) -> (rq_page q < s_fetched s)%nat) /\
    (forall q, In q (fst (pfuture (s_mode s) (s_prod s)) ++ r) -> (s_fetched s <= rq_page q)%nat) /\
    pidx (s_prod s) (s_fetched s) /\ (r = [] \/ s_prod s = PDone).

Lemma inv_sent_step R s l s' : inv_sent R s -> step s l = Some s' -> inv_sent R s'.
Proof.
  intros (r & H1 & H2 & H3 & H4 & H5) Hs. unfold inv_sent. rewrite (step_mode _ _ _ Hs). destruct l.
  - cbn [step] in Hs; unfold prod_step in Hs.
    destruct (s_prod s) as [i st stable [|ps rest]|x k|] eqn:Ep; try discriminate.
    + destruct H5 as [->|?]; [|discriminate]. cbn [pidx] in H4. subst i.
      rewrite pfuture_fetch in H1, H3.
      destruct (fetch_one (s_mode s) stable ps) as [ts fr]. cbn [fst snd] in *.
      injection Hs as <-. cbn [s_reqs s_prod s_fetched s_mode].
      exists []. rewrite app_nil_r in *. repeat split.
      * rewrite <- H1, <- app_assoc. reflexivity.
      * intros q Hq. apply in_app_or in Hq as [Hq|Hq]; [specialize (H2 q Hq); lia|].
        apply in_map_iff in Hq as (t & <- & _). cbn. lia.
      * intros q Hq. apply (pfuture_pages (s_mode s) _ _ q (pidx_after_fetch (s_fetched s) rest fr) Hq).
      * apply pidx_after_fetch.
      * left; reflexivity.
    + cbn [pfuture pidx] in *. destruct (pfuture (s_mode s) k) as [rq ms] eqn:Ek. cbn [fst] in *.
      destruct (s_cons s); [destruct (s_chan s); try discriminate| destruct (s_chan s); try discriminate|];
        injection Hs as <-; cbn [s_reqs s_prod s_fetched s_mode pfuture fst]; rewrite ?Ek; cbn [fst].
      * exists r. repeat split; try assumption. destruct H5 as [->|?]; [left; reflexivity|discriminate].
      * exists r. repeat split; try assumption. destruct H5 as [->|?]; [left; reflexivity|discriminate].
      * exists (rq ++ r). cbn [app pidx]. repeat split; try assumption. right; reflexivity.
  - destruct (cons_step_frame _ _ Hs) as (-> & -> & -> & _). exists r. repeat split; assumption.
  - destruct (drop_step_frame _ _ Hs) as (-> & -> & -> & _). exists r. repeat split; assumption.
Qed.

Lemma filter_split_length (f : req -> bool) (a b : list req) :
  (forall q, In q a -> f q = true) -> (forall q, In q b -> f q = false) ->
  List.length (filter f (a ++ b)) = List.length a.
Proof.
  intros Ha Hb. rewrite filter_app, app_length.
  assert (filter f a = a) as ->.
  { clear Hb. induction a as [|x a IH]; cbn [filter]; [reflexivity|].
    rewrite (Ha x (or_introl eq_refl)). f_equal. apply IH. intros q Hq; apply Ha; right; exact Hq. }
  assert (filter f b = []) as ->; [|cbn [List.length]; lia].
  clear Ha. induction b as [|x b IH]; cbn [filter]; [reflexivity|].
  rewrite (Hb x (or_introl eq_refl)). apply IH. intros q Hq; apply Hb; right; exact Hq.
Qed.

Lemma reqs_upto_mono R k k' : (k <= k')%nat -> (reqs_upto R k <= reqs_upto R k')%nat.
Proof.
  intros Hk. unfold reqs_upto. induction R as [|q R IH]; cbn [filter List.length]; [lia|].
  destruct (Nat.leb (rq_page q) k) eqn:E1; destruct (Nat.leb (rq_page q) k') eqn:E2; cbn [List.length]; lia.
Qed.

Lemma inv_sent_count R s : inv_sent R s -> (1 <= s_fetched s)%nat ->
  List.length (s_reqs s) = reqs_upto R (s_fetched s - 1).
Proof.
  intros (r & H1 & H2 & H3 & _) Hf. unfold reqs_upto. rewrite <- H1. symmetry.
  apply filter_split_length.
  - intros q Hq. apply Nat.leb_le. specialize (H2 q Hq). lia.
  - intros q Hq. apply Nat.leb_gt. specialize (H3 q Hq). lia.
Qed.

(* (2) which messages the consumer has received: a prefix of the worker's messages, and how
   many items they hold *)
Fixpoint msum (ms : list msg) : nat :=
  match ms with [] => 0%nat | x :: r => (msg_size x + msum r)%nat end.

Definition cum (rows0 : nat) (MS : list msg) (k : nat) : nat := (rows0 + msum (firstn k MS))%nat.

Definition inv_recv (rows0 : nat) (MS : list msg) (s : sys) : Prop :=
  s_cons s = CActive ->
  skipn (s_recv s) MS = s_chan s ++ snd (pfuture (s_mode s) (s_prod s)) /\
  (List.length (s_out s) + List.length (s_cur s) = cum rows0 MS (s_recv s))%nat /\
  ((0 < s_recv s)%nat -> (cum rows0 MS (s_recv s - 1) <= List.length (s_out s))%nat) /\
  (s_recv s <= List.length MS)%nat.

Lemma skipn_cons_inv {A} n (l : list A) x r : skipn n l = x :: r ->
  skipn (S n) l = r /\ firstn (S n) l = firstn n l ++ [x] /\ (n < List.length l)%nat.
Proof.
  revert l; induction n as [|n IH]; intros l H.
  - cbn [skipn] in H. subst l. cbn. repeat split; lia.
  - destruct l as [|y l]; [discriminate|]. cbn [skipn] in H. destruct (IH l H) as (H1 & H2 & H3).
    repeat split; [exact H1|cbn [firstn app]; f_equal; exact H2|cbn [List.length]; lia].
Qed.

Lemma msum_app a b : msum (a ++ b) = (msum a + msum b)%nat.
Proof. induction a as [|x a IH]; cbn [app msum]; [reflexivity|]. rewrite IH. lia. Qed.

Lemma cum_mono rows0 MS k k' : (k <= k')%nat -> (cum rows0 MS k <= cum rows0 MS k')%nat.
Proof.
  unfold cum. revert MS k'. induction k as [|k IH]; intros MS k' H; cbn [firstn msum]; [lia|].
  destruct k' as [|k']; [lia|]. destruct MS as [|x MS]; cbn [firstn msum]; [lia|].
  specialize (IH MS k'). lia.
Qed.

Lemma inv_recv_step rows0 MS s l s' : inv_recv rows0 MS s -> step s l = Some s' -> l <> LDrop ->
  inv_recv rows0 MS s'.
Proof.
  intros HI Hs Hl Hc'. destruct l; [| |congruence].
  - destruct (prod_step_frame _ _ Hs) as (Ho & Hc & Hcur & Hr). rewrite Hc in Hc'.
    destruct (HI Hc') as (K1 & K2 & K3 & K4). rewrite Ho, Hcur, Hr. rewrite (step_mode _ _ _ Hs).
    repeat split; try assumption. rewrite K1.
    cbn [step] in Hs; unfold prod_step in Hs.
    destruct (s_prod s) as [i st stable [|ps rest]|x k|] eqn:Ep; try discriminate.
    + rewrite pfuture_fetch. destruct (fetch_one (s_mode s) stable ps) as [ts fr].
      injection Hs as <-. cbn [s_chan s_prod snd]. reflexivity.
    + rewrite Hc' in Hs. destruct (s_chan s) eqn:Ech; [|discriminate]. injection Hs as <-.
      cbn [s_chan s_prod pfuture]. destruct (pfuture (s_mode s) k) as [rq ms]. reflexivity.
  - cbn [step] in Hs; unfold cons_step in Hs.
    destruct (s_cons s) eqn:Ec; try discriminate. destruct (HI Ec) as (K1 & K2 & K3 & K4).
    destruct (s_cur s) as [|r0 cur'] eqn:Ecur.
    + destruct (s_chan s) as [|[[|r1 rows]|e] ch] eqn:Ech.
      * destruct (s_prod s) eqn:Ep; try discriminate. injection Hs as <-. cbn in Hc'. discriminate.
      * injection Hs as <-. cbn [s_cons s_recv s_chan s_prod s_mode s_out s_cur List.length] in *.
        cbn [app] in K1. destruct (skipn_cons_inv _ _ _ _ K1) as (S1 & S2 & S3).
        unfold cum in *. rewrite S2, msum_app. cbn [msum msg_size List.length].
        replace (S (s_recv s) - 1)%nat with (s_recv s) by lia.
        repeat split; [exact S1|lia|lia|lia].
      * injection Hs as <-. cbn [s_cons s_recv s_chan s_prod s_mode s_out s_cur List.length] in *.
        cbn [app] in K1. destruct (skipn_cons_inv _ _ _ _ K1) as (S1 & S2 & S3).
        unfold cum in *. rewrite S2, msum_app, app_length. cbn [msum msg_size List.length].
        replace (S (s_recv s) - 1)%nat with (s_recv s) by lia.
        repeat split; [exact S1|lia|lia|lia].
      * injection Hs as <-. cbn [s_cons s_recv s_chan s_prod s_mode s_out s_cur List.length] in *.
        cbn [app] in K1. destruct (skipn_cons_inv _ _ _ _ K1) as (S1 & S2 & S3).
        unfold cum in *. rewrite S2, msum_app, app_length. cbn [msum msg_size List.length].
        replace (S (s_recv s) - 1)%nat with (s_recv s) by lia.
        repeat split; [exact S1|lia|lia|lia].
    + injection Hs as <-. cbn [s_cons s_recv s_chan s_prod s_mode s_out s_cur List.length] in *.
      rewrite app_length. cbn [List.length]. repeat split; [exact K1|lia|lia|lia].
Qed.

(* the consumer's last poll delivered an item: it has received no message it did not need *)
Definition tight (rows0 : nat) (MS : list msg) (s : sys) : Prop :=
  s_recv s = 0%nat \/ (cum rows0 MS (s_recv s - 1) < List.length (s_out s))%nat.

Lemma tight_after_item rows0 MS s s' : inv_recv rows0 MS s -> step s LCons = Some s' ->
  List.length (s_out s') = S (List.length (s_out s)) -> s_cons s' = CActive -> tight rows0 MS s'.
Proof.
  intros HI Hs Hlen Hc'. cbn [step] in Hs; unfold cons_step in Hs.
  destruct (s_cons s) eqn:Ec; try discriminate. destruct (HI Ec) as (K1 & K2 & K3 & K4).
  unfold tight. destruct (s_cur s) as [|r0 cur'] eqn:Ecur.
  - destruct (s_chan s) as [|[[|r1 rows]|e] ch] eqn:Ech.
    + destruct (s_prod s); try discriminate. injection Hs as <-. cbn in Hc'. discriminate.
    + injection Hs as <-. cbn [s_out] in Hlen. lia.
    + injection Hs as <-. cbn [s_recv s_out List.length] in *. right.
      replace (S (s_recv s) - 1)%nat with (s_recv s) by lia. rewrite app_length. cbn [List.length]. lia.
    + injection Hs as <-. cbn [s_recv s_out List.length] in *. right.
      replace (S (s_recv s) - 1)%nat with (s_recv s) by lia. rewrite app_length. cbn [List.length]. lia.
  - injection Hs as <-. cbn [s_recv s_out] in *. rewrite app_length. cbn [List.length].
    destruct (s_recv s) as [|k]; [left; reflexivity|right; lia].
Qed.

Lemma tight_prod rows0 MS s s' : tight rows0 MS s -> step s LProd = Some s' -> tight rows0 MS s'.
Proof.
  intros HT Hs. destruct (prod_step_frame _ _ Hs) as (Ho & _ & _ & Hr). unfold tight. rewrite Ho, Hr. exact HT.
Qed.

Lemma msgs_needed_le n : forall ms have k, (k <= List.length ms)%nat ->
  (n <= have + msum (firstn k ms))%nat -> (msgs_needed n have ms <= k)%nat.
Proof.
  induction ms as [|x ms IH]; intros have k Hk Hn; cbn [msgs_needed]; [lia|].
  destruct (Nat.leb n have) eqn:E; [lia|]. apply Nat.leb_gt in E.
  destruct k as [|k]; [cbn [firstn msum] in Hn; lia|].
  cbn [firstn msum List.length] in *. specialize (IH (have + msg_size x)%nat k). lia.
Qed.

Lemma msgs_needed_ge n : forall ms have k, (1 <= k <= List.length ms)%nat ->
  (have + msum (firstn (k - 1) ms) < n)%nat -> (k <= msgs_needed n have ms)%nat.
Proof.
  induction ms as [|x ms IH]; intros have k Hk Hn; cbn [msgs_needed List.length] in *; [lia|].
  destruct (Nat.leb n have) eqn:E; [apply Nat.leb_le in E; lia|].
  destruct k as [|[|k]]; [lia|lia|].
  cbn [Nat.sub firstn msum] in Hn. replace (S k - 0)%nat with (S k) in Hn by lia.
  cbn [firstn msum] in Hn.
  specialize (IH (have + msg_size x)%nat (S k)). replace (S k - 1)%nat with k in IH by lia.
  assert (S k <= msgs_needed n (have + msg_size x) ms)%nat; [apply IH; lia|lia].
Qed.

Lemma tight_msgs_needed rows0 MS s : inv_recv rows0 MS s -> s_cons s = CActive -> tight rows0 MS s ->
  msgs_needed (List.length (s_out s)) rows0 MS = s_recv s.
Proof.
  intros HI Hc HT. destruct (HI Hc) as (K1 & K2 & K3 & K4).
  apply Nat.le_antisymm.
  - apply msgs_needed_le; [exact K4|]. unfold cum in K2. lia.
  - destruct HT as [->|HT]; [lia|].
    destruct (s_recv s) as [|k] eqn:E; [lia|]. apply msgs_needed_ge; [lia|]. unfold cum in HT. exact HT.
Qed.

Lemma is_prefix_complete {A} (eqb : A -> A -> bool) :
  (forall x y, eqb x y = true <-> x = y) -> forall a r, is_prefix eqb a (a ++ r) = true.
Proof.
  intros H a r. induction a as [|x a IH]; cbn [is_prefix app]; [reflexivity|].
  rewrite IH, andb_true_r. apply H. reflexivity.
Qed.

Lemma firstn_prefix {A} (a r : list A) : firstn (List.length a) (a ++ r) = a.
Proof. induction a as [|x a IH]; cbn [List.length firstn app]; [reflexivity|]. rewrite IH. reflexivity. Qed.

(* Every "lazy consumer" schedule is accepted: the caller has just been handed its n-th item
   (or has not polled at all), the worker runs for any while, the caller drops, anything may
   follow. *)
Theorem accept_drop_complete m script s0 lsa sa sb lp s1 ls2 s2 :
  pager_init m script = Some s0 ->
  run s0 lsa = Some sa ->
  (sb = sa /\ lsa = [] \/
   step sa LCons = Some sb /\ List.length (s_out sb) = S (List.length (s_out sa))) ->
  s_cons sb = CActive ->
  Forall (eq LProd) lp -> run sb lp = Some s1 ->
  run s1 (LDrop :: ls2) = Some s2 ->
  accept_drop m script (List.length (s_out s2)) (s_out s2) (map req_key (s_reqs s2)) = true.
Proof.
  intros H0 Hra Hb Hcb Hlp Hrp Hr2.
  destruct (pager_init_start _ _ _ H0) as (rq0 & rows & p & Hst & ->).
  set (MS := snd (pfuture m p)). set (R := fst (seq_run m script)).
  set (T := map IRow rows ++ items_of MS ++ [IEnd]).
  (* invariants at sa *)
  assert (forall ls s, run (init_sys m rq0 rows p) ls = Some s ->
            (s_cons s <> CDropped -> inv_recv (List.length rows) MS s) /\ inv_sent R s) as Hinv.
  { intros ls. induction ls as [|l ls IH] using rev_ind; intros s Hr.
    - cbn [run] in Hr. injection Hr as <-. split.
      + intros _ _. cbn [init_sys s_recv s_chan s_prod s_mode s_out s_cur skipn app List.length Nat.sub].
        unfold cum. cbn [firstn msum]. repeat split; try lia.
      + unfold inv_sent, R, seq_run. rewrite Hst. cbn [init_sys s_reqs s_mode s_prod s_fetched].
        destruct (start_prod _ _ _ _ _ Hst) as [->|(st & c & rest & ->)].
        * exists []. cbn [pfuture fst app pidx]. rewrite !app_nil_r. repeat split; auto.
          all: try solve [intros q []].
          all: intros q Hq; destruct (proj1 (states_thm m script) q) as [Hp _]; [rewrite Hst; exact Hq|]; lia.
        * exists []. rewrite !app_nil_r. destruct (pfuture m (PFetch 1 st (Some c) rest)) as [rq ms] eqn:E.
          cbn [fst]. repeat split; auto.
          all: try solve [intros q Hq; destruct (proj1 (states_thm m script) q) as [Hp _]; [rewrite Hst; exact Hq|]; lia].
          all: try solve [intros q Hq; apply (pfuture_pages m (PFetch 1 st (Some c) rest) 1%nat q); [reflexivity|rewrite E; exact Hq]].
          all: try reflexivity.
    - rewrite run_app in Hr. destruct (run (init_sys m rq0 rows p) ls) as [s'|] eqn:E; [|discriminate].
      cbn [run] in Hr. destruct (step s' l) as [s''|] eqn:Es; [|discriminate]. injection Hr as <-.
      destruct (IH s' eq_refl) as [I1 I2]. split; [|eapply inv_sent_step; eassumption].
      intros Hnd. assert (s_cons s' <> CDropped) as Hnd' by (intros X; apply Hnd; eapply dropped_stays; eassumption).
      assert (l <> LDrop) as Hl by (intros ->; apply Hnd; eapply drop_drops; exact Es).
      eapply inv_recv_step; [apply I1; exact Hnd'|exact Es|exact Hl]. }
  (* tightness at sb, then at s1 *)
  assert (inv_recv (List.length rows) MS sb /\ tight (List.length rows) MS sb /\
          exists lsb, run (init_sys m rq0 rows p) lsb = Some sb) as (Irb & Tb & lsb & Hrb).
  { destruct Hb as [[-> ->]|[Hs Hl]].
    - cbn [run] in Hra. injection Hra as <-. split; [|split].
      + apply (proj1 (Hinv [] _ eq_refl)). cbn. discriminate.
      + left. reflexivity.
      + exists []. reflexivity.
    - assert (run (init_sys m rq0 rows p) (lsa ++ [LCons]) = Some sb) as Hrb
        by (rewrite run_app, Hra; cbn [run]; rewrite Hs; reflexivity).
      split; [|split].
      + apply (proj1 (Hinv _ _ Hrb)). congruence.
      + apply (tight_after_item _ _ sa sb); try assumption.
        apply (proj1 (Hinv _ _ Hra)). intros X. cbn [step] in Hs. unfold cons_step in Hs. rewrite X in Hs. discriminate.
      + eexists; exact Hrb. }
  assert (tight (List.length rows) MS s1 /\ s_cons s1 = CActive) as [T1 Hc1].
  { clear Hr2 Hb Irb Hrb. revert sb Hcb Tb Hrp. induction Hlp as [|l lp <- _ IH]; intros sb Hcb Tb Hrp.
    - cbn [run] in Hrp. injection Hrp as <-. split; assumption.
    - cbn [run] in Hrp. destruct (step sb LProd) as [sc|] eqn:Es; [|discriminate].
      destruct (prod_step_frame _ _ Es) as (_ & Hc & _).
      apply (IH sc); try assumption; try congruence. eapply tight_prod; eassumption. }
  assert (run (init_sys m rq0 rows p) (lsb ++ lp) = Some s1) as Hr1 by (rewrite run_app, Hrb; exact Hrp).
  assert (run (init_sys m rq0 rows p) ((lsb ++ lp) ++ LDrop :: ls2) = Some s2) as Hrs2
    by (rewrite run_app, Hr1; exact Hr2).
  destruct (Hinv _ _ Hr1) as [Ir1 _]. specialize (Ir1 ltac:(congruence)).
  pose proof (tight_msgs_needed _ _ _ Ir1 Hc1 T1) as Hk.
  (* after the drop *)
  destruct (early_drop _ _ _ _ _ Hr1 Hr2) as (_ & _ & _ & Ho & _).
  cbn [run] in Hr2. destruct (step s1 LDrop) as [sd|] eqn:Ed; [|discriminate].
  destruct (drop_step_frame _ _ Ed) as (_ & _ & _ & _ & Hrd & Hcd & _).
  destruct (dropped_run _ _ _ Hcd Hr2) as (_ & Hrecv & _).
  destruct (Hinv _ _ Hrs2) as [_ Is2].
  pose proof (read_ahead _ _ _ _ _ _ _ Hst Hrs2) as Hra2.
  pose proof (inv_sent_count _ _ Is2 ltac:(lia)) as Hcount.
  destruct (reach_prefix _ _ _ _ _ _ _ Hst Hrs2) as [[ro Hpo] [rr Hpr]].
  unfold accept_drop. rewrite Hst. fold MS in Hpo.
  assert (R = rq0 ++ fst (pfuture m p)) as HR by (unfold R, seq_run; rewrite Hst; destruct (pfuture m p); reflexivity).
  destruct (pfuture m p) as [rq ms] eqn:Ep. cbn [fst snd] in *. subst MS.
  fold (items_of ms). rewrite <- HR.
  rewrite Ho, Hk.
  apply andb_true_iff; split; [apply andb_true_iff; split; [apply andb_true_iff; split|]|].
  - apply (list_eqb_eq item_eqb item_eqb_eq). rewrite <- Hpo, <- Ho. symmetry. rewrite Ho. apply firstn_prefix.
  - unfold R. rewrite <- Hpr, map_app. apply (is_prefix_complete key_eqb key_eqb_eq).
  - apply Nat.leb_le. rewrite map_length, Hcount. apply reqs_upto_mono. lia.
  - apply Nat.leb_le. rewrite map_length, Hcount. apply reqs_upto_mono. lia.
Qed.

(* ===== part J: the count-based specification, the wider failure class, O1 ===== *)
(* ---------- the count-based specification of one page request vs the fiber loop ---------- *)
Lemma attempts_spec : forall fs resp t rest,
  match spec_attempts fs (List.length rest) resp with
  | PoResp r => exists ts c, attempts fs resp t rest = (ts, FCompleted c r) /\ In c (t :: rest)
  | PoErr e => exists ts, attempts fs resp t rest = (ts, FFailed e)
  | PoIgnored e => exists ts c, attempts fs resp t rest = (ts, FIgnored c)
  end.
Proof.
  induction fs as [|f fs IH]; intros resp t rest.
  - cbn [spec_attempts attempts]. exists [t], t. split; [reflexivity|left; reflexivity].
  - destruct f as [|e d| |]; cbn [spec_attempts attempts].
    + destruct rest as [|t' rest']; cbn [List.length]; [eexists; reflexivity|].
      specialize (IH resp t' rest'). destruct (spec_attempts fs (List.length rest') resp).
      * destruct IH as (ts & c & E & Hin). exists ts, c. split; [exact E|right; exact Hin].
      * exact IH.
      * exact IH.
    + destruct d.
      * specialize (IH resp t rest). destruct (spec_attempts fs (List.length rest) resp).
        -- destruct IH as (ts & c & E & Hin). exists (t :: ts), c. rewrite E. split; [reflexivity|exact Hin].
        -- destruct IH as (ts & E). exists (t :: ts). rewrite E. reflexivity.
        -- destruct IH as (ts & c & E). exists (t :: ts), c. rewrite E. reflexivity.
      * destruct rest as [|t' rest']; cbn [List.length]; [eexists; reflexivity|].
        specialize (IH resp t' rest'). destruct (spec_attempts fs (List.length rest') resp).
        -- destruct IH as (ts & c & E & Hin). exists (t :: ts), c. rewrite E. split; [reflexivity|right; exact Hin].
        -- destruct IH as (ts & E). exists (t :: ts). rewrite E. reflexivity.
        -- destruct IH as (ts & c & E). exists (t :: ts), c. rewrite E. reflexivity.
      * eexists; reflexivity.
      * eexists; eexists; reflexivity.
    + eexists; reflexivity.
    + specialize (IH resp t rest). destruct (spec_attempts fs (List.length rest) resp).
      * destruct IH as (ts & c & E & Hin). exists (t :: ts), c. rewrite E. split; [reflexivity|exact Hin].
      * destruct IH as (ts & E). exists (t :: ts). rewrite E. reflexivity.
      * destruct IH as (ts & c & E). exists (t :: ts), c. rewrite E. reflexivity.
Qed.

Lemma existsb_In (x : N) l : existsb (N.eqb x) l = true <-> In x l.
Proof.
  rewrite existsb_exists. split.
  - intros (y & Hy & E). apply N.eqb_eq in E. subst y. exact Hy.
  - intros H. exists x. split; [exact H|apply N.eqb_refl].
Qed.

Lemma filter_ne_length_in (c : N) (l : list N) : NoDup l -> In c l ->
  S (List.length (filter (fun t => negb (N.eqb t c)) l)) = List.length l.
Proof.
  induction 1 as [|x r Hx Hnd IH]; intros Hin; [destruct Hin|].
  cbn [filter List.length]. destruct (N.eqb x c) eqn:E; cbn [negb List.length].
  - apply N.eqb_eq in E. subst x. f_equal.
    clear IH Hin Hnd. induction r as [|y r IH]; cbn [filter List.length]; [reflexivity|].
    destruct (N.eqb y c) eqn:E; cbn [negb List.length].
    + apply N.eqb_eq in E; subst y. exfalso; apply Hx; left; reflexivity.
    + f_equal. apply IH. intros H; apply Hx; right; exact H.
  - f_equal. apply IH. destruct Hin as [->|Hin]; [rewrite N.eqb_refl in E; discriminate|exact Hin].
Qed.

Lemma filter_incl {A} (f : A -> bool) l : incl (filter f l) l.
Proof. intros x Hx. apply filter_In in Hx. tauto. Qed.

Definition page_ok (nodes : list N) (ps : pscript) : Prop :=
  NoDup (ps_plan ps) /\ List.length (ps_plan ps) = List.length nodes /\ incl (ps_plan ps) nodes.

Definition stable_ok (m : mode) (nodes : list N) (stable : option N) : Prop :=
  m = MConn \/ match stable with None => True | Some c => In c nodes end.

Lemma eff_plan_nodes nodes stable ps : NoDup nodes -> page_ok nodes ps ->
  match stable with None => True | Some c => In c nodes end ->
  List.length (eff_plan stable (ps_plan ps)) = List.length nodes /\
  incl (eff_plan stable (ps_plan ps)) nodes.
Proof.
  intros Hn (Hnd & Hl & Hi) Hs. destruct stable as [c|]; cbn [eff_plan]; [|split; assumption].
  assert (In c (ps_plan ps)) as Hc.
  { apply (NoDup_length_incl (l:=ps_plan ps) (l':=nodes) Hnd ltac:(lia) Hi c Hs). }
  split.
  - cbn [List.length]. rewrite (filter_ne_length_in c _ Hnd Hc). exact Hl.
  - intros x [<-|Hx]; [exact Hs|]. apply Hi. apply (filter_incl _ _ _ Hx).
Qed.

(* one page request ends as the specification says; a serving coordinator is a node *)
Lemma fetch_spec m nodes stable ps : NoDup nodes -> page_ok nodes ps -> stable_ok m nodes stable ->
  match spec_page m (List.length nodes) ps with
  | PoResp r => exists ts c, fetch_one m stable ps = (ts, FCompleted c r) /\ stable_ok m nodes (Some c)
  | PoErr e => exists ts, fetch_one m stable ps = (ts, FFailed e)
  | PoIgnored e => exists ts c, fetch_one m stable ps = (ts, FIgnored c)
  end.
Proof.
  intros Hn Hp Hs. destruct m; cbn [spec_page fetch_one].
  - destruct Hs as [?|Hs]; [discriminate|].
    destruct (eff_plan_nodes nodes stable ps Hn Hp Hs) as [Hl Hi].
    destruct (eff_plan stable (ps_plan ps)) as [|t rest] eqn:Ee; cbn [List.length] in Hl.
    + rewrite <- Hl. eexists; reflexivity.
    + rewrite <- Hl. pose proof (attempts_spec (ps_faults ps) (ps_resp ps) t rest) as A.
      destruct (spec_attempts (ps_faults ps) (List.length rest) (ps_resp ps)); [|exact A|exact A].
      destruct A as (ts & c & E & Hin). exists ts, c. split; [exact E|]. right. apply Hi. exact Hin.
  - pose proof (attempts_spec (flat_map conn_fault (ps_faults ps)) (ps_resp ps) 0 []) as A.
    cbn [List.length] in A.
    destruct (spec_attempts (flat_map conn_fault (ps_faults ps)) 0 (ps_resp ps)); [|exact A|exact A].
    destruct A as (ts & c & E & _). exists ts, c. split; [exact E|left; reflexivity].
Qed.

Lemma plans_ok_spec nodes script : plans_ok nodes script = true ->
  NoDup nodes /\ Forall (page_ok nodes) script.
Proof.
  unfold plans_ok. intros H. apply andb_true_iff in H as [Hn Hf]. split; [apply nodupb_NoDup; exact Hn|].
  apply Forall_forall. intros ps Hin. rewrite forallb_forall in Hf. specialize (Hf ps Hin).
  apply andb_true_iff in Hf as [Hf H3]. apply andb_true_iff in Hf as [H1 H2].
  repeat split; [apply nodupb_NoDup; exact H1|apply Nat.eqb_eq; exact H2|].
  intros x Hx. rewrite forallb_forall in H3. apply existsb_In. apply H3. exact Hx.
Qed.

(* ---------- the worker's messages are the expected items of the later pages ---------- *)
Lemma worker_expected m nodes : NoDup nodes -> forall rest i st stable its,
  Forall (page_ok nodes) rest -> stable_ok m nodes stable ->
  expected false m (List.length nodes) false rest = Some its ->
  items_of (snd (worker m i st stable rest)) ++ [IEnd] = its /\ worker_done m stable rest = true.
Proof.
  intros Hn. induction rest as [|ps rest IH]; intros i st stable its Hf Hs He; [discriminate|].
  inversion Hf as [|? ? Hp Hf']; subst. cbn [expected] in He. cbn [worker worker_done].
  pose proof (fetch_spec m nodes stable ps Hn Hp Hs) as F.
  destruct (spec_page m (List.length nodes) ps) as [r|e|e].
  - destruct F as (ts & c & Ef & Hs'). rewrite Ef. cbn [snd].
    destruct r as [rows [st'|]| |].
    + destruct (expected false m (List.length nodes) false rest) as [l|] eqn:El; [|discriminate].
      injection He as <-. destruct (IH (S i) st' (Some c) l Hf' Hs' eq_refl) as [I1 I2].
      destruct (worker m (S i) st' (Some c) rest) as [rq' ms]. cbn [snd] in *. split; [|exact I2].
      change (items_of (MPage rows :: ms)) with (map IRow rows ++ items_of ms).
      rewrite <- app_assoc, I1. reflexivity.
    + injection He as <-. cbn [tail_msgs snd]. unfold items_of. cbn [flat_map msg_items].
      rewrite app_nil_r. split; reflexivity.
    + cbn [tail_msgs snd]. destruct m; injection He as <-; split; reflexivity.
    + injection He as <-. cbn [tail_msgs snd]. split; reflexivity.
  - destruct F as (ts & Ef). rewrite Ef. injection He as <-. cbn [tail_msgs snd]. split; reflexivity.
  - destruct F as (ts & c & Ef). rewrite Ef. injection He as <-. cbn [tail_msgs snd]. split; reflexivity.
Qed.

(* the sequential reference delivers the stream the (non-strict) specification describes *)
Theorem seq_expected m nodes script its : plans_ok nodes script = true ->
  expected false m (List.length nodes) true script = Some its ->
  (exists e, snd (seq_run m script) = OFail e /\ its = [IErr e; IEnd]) \/
  snd (seq_run m script) = OStream its.
Proof.
  intros Hpl He. destruct (plans_ok_spec _ _ Hpl) as [Hn Hf].
  destruct script as [|ps rest]; [discriminate|]. inversion Hf as [|? ? Hp Hf']; subst.
  cbn [expected] in He. unfold seq_run. cbn [start].
  assert (stable_ok m nodes None) as Hs0 by (right; exact I).
  pose proof (fetch_spec m nodes None ps Hn Hp Hs0) as F.
  destruct (spec_page m (List.length nodes) ps) as [r|e|e].
  - destruct F as (ts & c & Ef & Hs'). rewrite Ef.
    destruct r as [rows [st'|]| |].
    + destruct (expected false m (List.length nodes) false rest) as [l|] eqn:El; [|discriminate].
      injection He as <-. cbn [pfuture pdone].
      destruct (worker_expected m nodes Hn rest 1%nat st' (Some c) l Hf' Hs' El) as [I1 I2].
      destruct (worker m 1 st' (Some c) rest) as [rq' ms]. cbn [snd] in *. rewrite I2.
      right. cbn [snd]. fold (items_of ms). rewrite I1. reflexivity.
    + injection He as <-. right. cbn [pfuture pdone snd flat_map app]. reflexivity.
    + destruct m; injection He as <-; [right; reflexivity|left; eexists; split; reflexivity].
    + injection He as <-. left. eexists; split; reflexivity.
  - destruct F as (ts & Ef). rewrite Ef. injection He as <-. left. eexists; split; reflexivity.
  - destruct F as (ts & c & Ef). rewrite Ef. injection He as <-.
    destruct m; [right; reflexivity|].
    (* MConn never yields PoIgnored: its faults are DontRetry *)
    exfalso. clear - Ef. cbn [fetch_one] in Ef.
    assert (forall fs resp t rest ts c, attempts (flat_map conn_fault fs) resp t rest <> (ts, FIgnored c)) as X.
    { induction fs as [|f fs IH]; intros resp t rest ts0 c0; cbn [flat_map attempts]; [discriminate|].
      destruct f as [|e' d| |]; cbn [conn_fault app attempts].
      - apply IH.
      - discriminate.
      - discriminate.
      - destruct (attempts (flat_map conn_fault fs) resp t rest) as [l x] eqn:E.
        intros H; injection H as _ ->. exact (IH resp t rest l c0 E). }
    exact (X _ _ _ _ _ _ Ef).
Qed.

Lemma expected_strict m n : forall script first, known_ignored m n script = false ->
  expected true m n first script = expected false m n first script.
Proof.
  induction script as [|ps rest IH]; intros first Hk; [reflexivity|].
  cbn [known_ignored expected] in *. destruct (spec_page m n ps) as [[rows [st|]| |]|e|e]; try reflexivity.
  - rewrite (IH false Hk). reflexivity.
  - discriminate.
Qed.

(* EVERY schedule, EVERY script (plans_ok): a complete read delivers the expected stream, and
   at every moment (drop included) what has been delivered is a prefix of it *)
Theorem stream_model m nodes script its : plans_ok nodes script = true ->
  expected false m (List.length nodes) true script = Some its ->
  (forall rq0 e, start m script = (rq0, SFail e) -> its = [IErr e; IEnd]) /\
  (forall s0 ls s, pager_init m script = Some s0 -> run s0 ls = Some s ->
     (s_cons s = CEnded -> s_out s = its) /\ exists r, s_out s ++ r = its).
Proof.
  intros Hpl He. pose proof (seq_expected m nodes script its Hpl He) as Hq. split.
  - intros rq0 e Hst. unfold seq_run in Hq. rewrite Hst in Hq. cbn [snd] in Hq.
    destruct Hq as [(e' & E & ->)|E]; [injection E as ->; reflexivity|discriminate].
  - intros s0 ls s H0 Hr. destruct (pager_init_start _ _ _ H0) as (rq0 & rows & p & Hst & ->).
    assert (snd (seq_run m script) = OStream its) as Hq'.
    { destruct Hq as [(e' & E & _)|E]; [|exact E]. unfold seq_run in E. rewrite Hst in E.
      destruct (pfuture m p). destruct (pdone m p); discriminate. }
    split.
    + intros Hend. destruct (sched_full _ _ _ _ _ _ _ Hst Hr Hend) as [H1 _]. rewrite Hq' in H1.
      injection H1 as ->. reflexivity.
    + destruct (reach_prefix _ _ _ _ _ _ _ Hst Hr) as [[r Ho] _]. exists r. rewrite Ho.
      unfold seq_run in Hq'. rewrite Hst in Hq'. destruct (pfuture m p) as [rq ms]. cbn [snd] in *.
      destruct (pdone m p); [|discriminate]. injection Hq' as <-. reflexivity.
Qed.

Theorem stream_thm m nodes script its : plans_ok nodes script = true ->
  known_ignored m (List.length nodes) script = false ->
  expected true m (List.length nodes) true script = Some its ->
  (forall rq0 e, start m script = (rq0, SFail e) -> its = [IErr e; IEnd]) /\
  (forall s0 ls s, pager_init m script = Some s0 -> run s0 ls = Some s ->
     (s_cons s = CEnded -> s_out s = its) /\ exists r, s_out s ++ r = its).
Proof.
  intros Hpl Hk He. rewrite (expected_strict _ _ _ _ Hk) in He. exact (stream_model m nodes script its Hpl He).
Qed.

Lemma spec_attempts_resp : forall fs left resp r, spec_attempts fs left resp = PoResp r -> r = resp.
Proof.
  induction fs as [|f fs IH]; intros left resp r H; cbn [spec_attempts] in H.
  - injection H as <-. reflexivity.
  - destruct f as [|e d| |].
    + destruct left; [discriminate|]. eapply IH; exact H.
    + destruct d; try discriminate; [eapply IH; exact H|].
      destruct left; [discriminate|]. eapply IH; exact H.
    + discriminate.
    + eapply IH; exact H.
Qed.

Lemma spec_page_resp m n ps r : spec_page m n ps = PoResp r -> r = ps_resp ps.
Proof.
  destruct m; cbn [spec_page].
  - destruct n; [discriminate|]. apply spec_attempts_resp.
  - apply spec_attempts_resp.
Qed.

(* the wider failure class *)
Lemma fail_point_expected m n : forall script first k e,
  fail_point m n first script = Some (k, e) ->
  expected true m n first script = Some (spec_error_stream (script_pages script) k e).
Proof.
  induction script as [|ps rest IH]; intros first k e H; [discriminate|].
  cbn [fail_point expected] in *. unfold spec_error_stream.
  destruct (spec_page m n ps) as [[rows [st|]| |]|e'|e'] eqn:Es.
  - destruct (fail_point m n false rest) as [[k' e'']|] eqn:Ef; [|discriminate]. injection H as <- <-.
    rewrite (IH false k' e'' Ef). unfold spec_error_stream.
    apply spec_page_resp in Es. cbn [script_pages map firstn]. rewrite <- Es.
    cbn [resp_page fst concat]. fold (script_pages rest). rewrite map_app, <- app_assoc. reflexivity.
  - discriminate.
  - destruct m, first; try discriminate; injection H as <- <-; reflexivity.
  - injection H as <- <-. reflexivity.
  - injection H as <- <-. reflexivity.
  - injection H as <- <-. reflexivity.
Qed.

Theorem error_thm m nodes script k e : plans_ok nodes script = true ->
  known_ignored m (List.length nodes) script = false ->
  fail_point m (List.length nodes) true script = Some (k, e) ->
  (forall rq0 e', start m script = (rq0, SFail e') -> k = 0%nat /\ e' = e) /\
  (forall s0 ls s, pager_init m script = Some s0 -> run s0 ls = Some s ->
     (s_cons s = CEnded -> s_out s = spec_error_stream (script_pages script) k e) /\
     exists r, s_out s ++ r = spec_error_stream (script_pages script) k e).
Proof.
  intros Hpl Hk Hf. pose proof (fail_point_expected _ _ _ _ _ _ Hf) as He.
  destruct (stream_thm m nodes script _ Hpl Hk He) as [S1 S2]. split; [|exact S2].
  intros rq0 e' Hst. specialize (S1 rq0 e' Hst).
  (* the constructor fails only on the first page: k = 0 *)
  destruct script as [|ps rest]; [discriminate|]. cbn [fail_point] in Hf.
  unfold spec_error_stream in S1.
  destruct (spec_page m (List.length nodes) ps) as [[rows [st|]| |]|e1|e1] eqn:Es.
  - (* first page has rows and a next state: start is SPager, not SFail *)
    exfalso. destruct (plans_ok_spec _ _ Hpl) as [Hn Hfa]. inversion Hfa as [|? ? Hp _]; subst.
    pose proof (fetch_spec m nodes None ps Hn Hp (or_intror I)) as F. rewrite Es in F.
    destruct F as (ts & c & Ef & _). cbn [start] in Hst. rewrite Ef in Hst. discriminate.
  - discriminate.
  - destruct m; [discriminate|]. injection Hf as <- <-. cbn [firstn map concat app] in S1.
    injection S1 as ->. split; reflexivity.
  - injection Hf as <- <-. cbn [firstn map concat app] in S1. injection S1 as ->. split; reflexivity.
  - injection Hf as <- <-. cbn [firstn map concat app] in S1. injection S1 as ->. split; reflexivity.
  - injection Hf as <- <-. cbn [firstn map concat app] in S1. injection S1 as ->. split; reflexivity.
Qed.

(* ---------- acceptors => the property predicates ---------- *)
Lemma opt_state_eqb_refl (x : option (list N)) : opt_eqb (list_eqb N.eqb) x x = true.
Proof. destruct x as [x|]; cbn [opt_eqb]; [|reflexivity]. apply (list_eqb_eq N.eqb N.eqb_eq). reflexivity. Qed.

Lemma states_ok_intro script ok :
  (forall i st, In (i, st) ok -> st = spec_state (script_pages script) i) -> states_ok script ok = true.
Proof.
  intros H. unfold states_ok. apply forallb_forall. intros [i st] Hin. cbn [fst snd].
  rewrite (H i st Hin). apply opt_state_eqb_refl.
Qed.

Lemma seq_keys_states m script ok r : ok ++ r = map req_key (fst (seq_run m script)) ->
  forall i st, In (i, st) ok -> st = spec_state (script_pages script) i.
Proof.
  intros Hk i st Hin.
  assert (In (i, st) (map req_key (fst (seq_run m script)))) as Hin'
    by (rewrite <- Hk; apply in_or_app; left; exact Hin).
  apply in_map_iff in Hin' as (q & E & Hq).
  apply seq_states in Hq as [Hs _]. unfold req_key in E. injection E as <- <-. exact Hs.
Qed.

Theorem accept_full_prop m nodes script oi ok : accept_full m script oi ok = true ->
  plans_ok nodes script = true -> known_ignored m (List.length nodes) script = false ->
  prop_full_ok m (List.length nodes) script oi ok = true.
Proof.
  intros H Hpl Hk. apply accept_full_sound in H as [H1 H2]. unfold prop_full_ok.
  apply andb_true_iff. split.
  - apply states_ok_intro. apply (seq_keys_states m script ok []). rewrite app_nil_r. exact H2.
  - destruct (expected true m (List.length nodes) true script) as [its|] eqn:He; [|reflexivity].
    rewrite (expected_strict _ _ _ _ Hk) in He.
    apply (list_eqb_eq item_eqb item_eqb_eq). rewrite H1.
    destruct (seq_expected m nodes script its Hpl He) as [(e & E & ->)|E]; rewrite E; reflexivity.
Qed.

Theorem accept_drop_prop m nodes script cnt oi ok : accept_drop m script cnt oi ok = true ->
  plans_ok nodes script = true -> known_ignored m (List.length nodes) script = false ->
  (exists rq0 rows p, start m script = (rq0, SPager rows p)) ->
  prop_drop_ok m (List.length nodes) script cnt oi ok = true.
Proof.
  intros H Hpl Hk (rq0 & rows & p & Hst). destruct (accept_drop_sound _ _ _ _ _ H) as (Ho & (r & Hkeys) & _).
  unfold prop_drop_ok. apply andb_true_iff. split.
  - apply states_ok_intro. exact (seq_keys_states m script ok r Hkeys).
  - destruct (expected true m (List.length nodes) true script) as [its|] eqn:He; [|reflexivity].
    rewrite (expected_strict _ _ _ _ Hk) in He.
    apply (list_eqb_eq item_eqb item_eqb_eq).
    unfold accept_drop in H. rewrite Hst in H. destruct (pfuture m p) as [rq ms] eqn:Ep.
    apply andb_true_iff in H as [H _]. apply andb_true_iff in H as [H _]. apply andb_true_iff in H as [H1 _].
    apply (list_eqb_eq item_eqb item_eqb_eq) in H1. rewrite H1. f_equal.
    destruct (seq_expected m nodes script its Hpl He) as [(e & E & _)|E];
      unfold seq_run in E; rewrite Hst, Ep in E; cbn [snd] in E; destruct (pdone m p); try discriminate.
    injection E as <-. reflexivity.
Qed.

(* a good script is one whose expected stream is the rows of all pages: the two
   classifications agree (used to keep the older statements and the new ones coherent) *)
Lemma good_expected m nodes script : plans_ok nodes script = true -> good_script m script = true ->
  expected false m (List.length nodes) true script = Some (spec_stream (script_pages script)).
Proof.
  intros Hpl Hg. destruct (seq_good m script Hg) as (rq & E & _).
  (* both describe snd (seq_run ..): compare through seq_expected on whatever expected says *)
  destruct (expected false m (List.length nodes) true script) as [its|] eqn:He.
  - destruct (seq_expected m nodes script its Hpl He) as [(e & E' & _)|E']; rewrite E in E'; cbn [snd] in E';
      [discriminate|injection E' as <-; reflexivity].
  - (* expected = None means the script lets the server go silent; a good script does not *)
    exfalso. clear E rq. unfold good_script in Hg. apply andb_true_iff in Hg as [Hg Hc].
    destruct (plans_ok_spec _ _ Hpl) as [Hn Hf].
    assert (forall rest first, Forall (page_ok nodes) rest ->
              forallb (fun ps => is_rows (ps_resp ps) && page_retried m ps) rest = true ->
              closed_chain (script_pages rest) = true ->
              expected false m (List.length nodes) first rest <> None) as X.
    { induction rest as [|ps rest IH]; intros first Hfr Hgr Hcr; [discriminate|].
      inversion Hfr as [|? ? Hp Hfr']; subst. cbn [forallb] in Hgr. apply andb_true_iff in Hgr as [Hgp Hgr].
      apply andb_true_iff in Hgp as [Hrows Hret]. cbn [expected].
      (* a retried page returns its response *)
      destruct (fetch_retried m None ps Hret) as (ts & c & Ef & _).
      pose proof (fetch_spec m nodes None ps Hn Hp (or_intror I)) as F.
      destruct (spec_page m (List.length nodes) ps) as [r|e|e].
      - destruct F as (ts' & c' & Ef' & _). rewrite Ef in Ef'. injection Ef' as _ _ <-.
        destruct (ps_resp ps) as [rows [st'|]| |] eqn:Er; try discriminate.
        + cbn [script_pages map] in Hcr. rewrite Er in Hcr. cbn [resp_page closed_chain] in Hcr.
          specialize (IH false Hfr' Hgr Hcr).
          destruct (expected false m (List.length nodes) false rest); [discriminate|congruence].
      - destruct F as (ts' & Ef'). rewrite Ef in Ef'. discriminate.
      - destruct F as (ts' & c' & Ef'). rewrite Ef in Ef'. discriminate. }
    exact (X script true Hf Hg Hc He).
Qed.

Lemma good_not_known m nodes script : plans_ok nodes script = true -> good_script m script = true ->
  known_ignored m (List.length nodes) script = false.
Proof.
  intros Hpl Hg. unfold good_script in Hg. apply andb_true_iff in Hg as [Hg _].
  destruct (plans_ok_spec _ _ Hpl) as [Hn Hf]. clear Hpl.
  induction script as [|ps rest IH]; [reflexivity|].
  inversion Hf as [|? ? Hp Hf']; subst. cbn [forallb] in Hg. apply andb_true_iff in Hg as [Hgp Hg].
  apply andb_true_iff in Hgp as [Hrows Hret]. cbn [known_ignored].
  destruct (fetch_retried m None ps Hret) as (ts & c & Ef & _).
  pose proof (fetch_spec m nodes None ps Hn Hp (or_intror I)) as F.
  destruct (spec_page m (List.length nodes) ps) as [r|e|e].
  - destruct r as [rows [st'|]| |]; try reflexivity. apply IH; assumption.
  - reflexivity.
  - destruct F as (ts' & c' & Ef'). rewrite Ef in Ef'. discriminate.
Qed.

Lemma known_differs m n : forall script first a b, known_ignored m n script = true ->
  expected true m n first script = Some a -> expected false m n first script = Some b -> a <> b.
Proof.
  induction script as [|ps rest IH]; intros first a b Hk Ha Hb; [discriminate|].
  cbn [known_ignored expected] in *. destruct (spec_page m n ps) as [[rows [st|]| |]|e|e]; try discriminate.
  - destruct (expected true m n false rest) as [la|] eqn:Ea; [|discriminate].
    destruct (expected false m n false rest) as [lb|] eqn:Eb; [|discriminate].
    injection Ha as <-. injection Hb as <-. intros E. apply app_inv_head in E.
    exact (IH false la lb Hk Ea Eb E).
  - injection Ha as <-. injection Hb as <-. discriminate.
Qed.

Theorem ignored_thm m nodes script its : plans_ok nodes script = true ->
  known_ignored m (List.length nodes) script = true ->
  expected false m (List.length nodes) true script = Some its ->
  (forall s0 ls s, pager_init m script = Some s0 -> run s0 ls = Some s -> s_cons s = CEnded ->
     s_out s = its) /\
  expected true m (List.length nodes) true script <> Some its.
Proof.
  intros Hpl Hk He. split.
  - intros s0 ls s H0 Hr Hend. destruct (stream_model m nodes script its Hpl He) as [_ S2].
    exact (proj1 (S2 s0 ls s H0 Hr) Hend).
  - intros Ht. exact (known_differs _ _ _ _ _ _ Hk Ht He eq_refl).
Qed.

Definition refute_script : list pscript :=
  [ mk_ps [0; 1] [] (RRows [1; 2] (Some [7]));
    mk_ps [0; 1] [FErr 4097 DSame; FErr 4352 DIgnore] (RRows [3] None) ].

(* the faithful model violates "a non-retried failure surfaces as an error": refutation *)
Theorem ignore_refuted : exists m nodes script its s0 ls s,
  plans_ok nodes script = true /\
  expected true m (List.length nodes) true script = Some its /\
  pager_init m script = Some s0 /\ run s0 ls = Some s /\ s_cons s = CEnded /\ s_out s <> its.
Proof.
  exists MSession, [0; 1], refute_script, [IRow 1; IRow 2; IErr 4352; IEnd].
  eexists. exists [LCons; LCons; LProd; LCons]. eexists.
  split; [vm_compute; reflexivity|]. split; [vm_compute; reflexivity|].
  split; [vm_compute; reflexivity|]. split; [vm_compute; reflexivity|].
  split; [reflexivity|]. cbn. discriminate.
Qed.

Theorem accept_full_thm m nodes script oi ok : accept_full m script oi ok = true ->
  (plans_ok nodes script = true -> known_ignored m (List.length nodes) script = false ->
     prop_full_ok m (List.length nodes) script oi ok = true) /\
  (good_script m script = true ->
     oi = spec_stream (script_pages script) /\ ok = spec_requests m script) /\
  (forall i st, In (i, st) ok -> st = spec_state (script_pages script) i).
Proof.
  intros H. split; [intros Hpl Hk; eapply accept_full_prop; eassumption|].
  pose proof H as H'. apply accept_full_sound in H' as [H1 H2]. split.
  - intros Hg. destruct (seq_good m script Hg) as (rq & E & K). rewrite H1, H2, E. cbn [fst snd obs_items].
    split; [reflexivity|exact K].
  - apply (seq_keys_states m script ok []). rewrite app_nil_r. exact H2.
Qed.

Theorem good_is_expected m nodes script : plans_ok nodes script = true ->
  good_script m script = true ->
  expected false m (List.length nodes) true script = Some (spec_stream (script_pages script)) /\
  known_ignored m (List.length nodes) script = false.
Proof. intros Hp Hg. split; [apply good_expected|apply good_not_known]; assumption. Qed.

(* ===== part K: client timeout striking earlier than scripted ===== *)
(* ---------- the early-timeout tolerance of the T cases ---------- *)
Lemma early_timeouts_shape : forall script sc, In sc (early_timeouts script) ->
  exists pre ps rest i, script = pre ++ ps :: rest /\ sc = pre ++ with_timeout i ps :: rest /\
    (i <= List.length (ps_faults ps))%nat.
Proof.
  induction script as [|ps rest IH]; intros sc Hin; [destruct Hin|].
  cbn [early_timeouts] in Hin. apply in_app_or in Hin as [Hin|Hin].
  - apply in_map_iff in Hin as (i & <- & Hi). apply in_seq in Hi.
    exists [], ps, rest, i. repeat split; lia.
  - destruct (existsb is_timeout (ps_faults ps)); [destruct Hin|].
    apply in_map_iff in Hin as (sc' & <- & Hin').
    destruct (IH sc' Hin') as (pre & ps' & rest' & i & -> & -> & Hi).
    exists (ps :: pre), ps', rest', i. repeat split; [exact Hi].
Qed.

Lemma with_timeout_pages pre ps rest i :
  script_pages (pre ++ with_timeout i ps :: rest) = script_pages (pre ++ ps :: rest).
Proof. unfold script_pages. rewrite !map_app. reflexivity. Qed.

Lemma with_timeout_plans nodes pre ps rest i : plans_ok nodes (pre ++ ps :: rest) = true ->
  plans_ok nodes (pre ++ with_timeout i ps :: rest) = true.
Proof.
  unfold plans_ok. intros H. apply andb_true_iff in H as [H1 H2]. rewrite H1. cbn [andb].
  rewrite forallb_app in *. apply andb_true_iff in H2 as [Ha Hb]. rewrite Ha. cbn [andb forallb] in *.
  exact Hb.
Qed.

(* an accepted early-timeout observation is a full read of the SAME pages under an environment
   that differs from the script only by a client timeout striking an earlier attempt; for that
   environment the property predicate holds *)
Theorem early_timeout_sound m nodes script ctor oi ok :
  accept_full_timeout m script ctor oi ok = true -> plans_ok nodes script = true ->
  exists sc, In sc (early_timeouts script) /\ plans_ok nodes sc = true /\
    script_pages sc = script_pages script /\
    (known_ignored m (List.length nodes) sc = false ->
       prop_full_ok m (List.length nodes) sc oi ok = true).
Proof.
  unfold accept_full_timeout. intros H Hpl. apply existsb_exists in H as (sc & Hin & Ha).
  apply andb_true_iff in Ha as [Ha _]. exists sc. split; [exact Hin|].
  destruct (early_timeouts_shape _ _ Hin) as (pre & ps & rest & i & -> & -> & _).
  split; [apply with_timeout_plans; exact Hpl|]. split; [apply with_timeout_pages|].
  intros Hk. eapply accept_full_prop; [exact Ha|apply with_timeout_plans; exact Hpl|exact Hk].
Qed.

(* which streams that admits: when the pages before the struck one return rows and announce
   more, and the faults before the struck attempt are passed, the read delivers the rows of the
   pages before it, the timeout error, the end *)
Lemma spec_attempts_cut : forall fs i left resp,
  spec_attempts (firstn i fs ++ [FTimeout]) left resp = PoErr e_timeout \/
  spec_attempts (firstn i fs ++ [FTimeout]) left resp = spec_attempts fs left resp.
Proof.
  induction fs as [|f fs IH]; intros i left resp.
  - destruct i; cbn; left; reflexivity.
  - destruct i as [|i]; [left; reflexivity|]. cbn [firstn app spec_attempts].
    destruct f as [|e d| |].
    + destruct left; [right; reflexivity|apply IH].
    + destruct d; try (right; reflexivity); [apply IH|]. destruct left; [right; reflexivity|apply IH].
    + right; reflexivity.
    + apply IH.
Qed.

Theorem early_timeout_stream m n : forall pre ps rest i first,
  (forall q, In q pre -> exists rows st, spec_page m n q = PoResp (RRows rows (Some st))) ->
  spec_page m n (with_timeout i ps) = PoErr e_timeout ->
  expected true m n first (pre ++ with_timeout i ps :: rest) =
    Some (spec_error_stream (script_pages (pre ++ ps :: rest)) (List.length pre) e_timeout).
Proof.
  induction pre as [|q pre IH]; intros ps rest i first Hpre Hps.
  - cbn [app expected List.length]. rewrite Hps. reflexivity.
  - cbn [app expected List.length]. destruct (Hpre q (or_introl eq_refl)) as (rows & st & E). rewrite E.
    rewrite (IH ps rest i false); [|intros q' Hq'; apply Hpre; right; exact Hq'|exact Hps].
    unfold spec_error_stream. apply spec_page_resp in E.
    cbn [script_pages map firstn]. rewrite <- E. cbn [resp_page fst concat].
    fold (script_pages (pre ++ ps :: rest)). rewrite map_app, <- app_assoc. reflexivity.
Qed.

Theorem early_timeout_cut m n ps i :
  spec_page m n (with_timeout i ps) = PoErr e_timeout \/
  spec_page m n (with_timeout i ps) = spec_page m n ps.
Proof.
  destruct m; cbn [spec_page with_timeout ps_faults ps_resp].
  - destruct n; [right; reflexivity|]. apply spec_attempts_cut.
  - (* conn_fault is applied elementwise: cutting commutes up to the number of kept faults *)
    assert (forall fs i, exists j, flat_map conn_fault (firstn i fs ++ [FTimeout]) =
                                   firstn j (flat_map conn_fault fs) ++ [FTimeout]) as X.
    { induction fs as [|f fs IH]; intros j.
      - exists 0%nat. destruct j; reflexivity.
      - destruct j as [|j]; [exists 0%nat; reflexivity|]. destruct (IH j) as [k E].
        cbn [firstn app flat_map]. rewrite E.
        destruct f as [|e d| |]; cbn [conn_fault app]; [exists k|exists (S k)|exists (S k)|exists (S k)]; reflexivity. }
    destruct (X (ps_faults ps) i) as [j ->]. apply spec_attempts_cut.
Qed.

(* ===== part L: target identities, coordinator stability ===== *)
Lemma existsb_In' (x : N) l : existsb (N.eqb x) l = true <-> In x l.
Proof.
  rewrite existsb_exists. split.
  - intros (y & Hy & E). apply N.eqb_eq in E. subst y. exact Hy.
  - intros H. exists x. split; [exact H|apply N.eqb_refl].
Qed.

Lemma fits_some t used : fits (Some t) used t = true.
Proof. cbn. apply N.eqb_refl. Qed.
Lemma fits_none used t : ~ In t used -> fits None used t = true.
Proof. intros H. cbn. apply negb_true_iff. destruct (existsb (N.eqb t) used) eqn:E; [|reflexivity].
  apply existsb_In' in E. contradiction. Qed.

(* the fiber loop over ANY duplicate-free plan sends its attempts where [follows] says *)
Lemma attempts_follow : forall fs resp t rest used cur,
  NoDup (t :: rest) -> (forall x, In x (t :: rest) -> ~ In x used) ->
  (cur = Some t \/ cur = None) ->
  follows fs cur used (fst (attempts fs resp t rest)) = true.
Proof.
  induction fs as [|f fs IH]; intros resp t rest used cur Hnd Hdis Hcur.
  - cbn. destruct Hcur as [->| ->]; [apply fits_some|apply fits_none; apply Hdis; left; reflexivity].
  - assert (fits cur used t = true) as Hfit.
    { destruct Hcur as [->| ->]; [apply fits_some|apply fits_none; apply Hdis; left; reflexivity]. }
    assert (forall t' rest', rest = t' :: rest' ->
              NoDup (t' :: rest') /\ (forall x, In x (t' :: rest') -> ~ In x (t :: used)) /\
              (forall x, In x (t' :: rest') -> ~ In x (add_used cur used))) as Hnext.
    { intros t' rest' ->. inversion Hnd as [|? ? Hnt Hnd']; subst. split; [exact Hnd'|]. split.
      - intros x Hx [<-|Hu]; [exact (Hnt Hx)|]. exact (Hdis x (or_intror Hx) Hu).
      - intros x Hx Hu. destruct Hcur as [->| ->]; cbn [add_used] in Hu.
        + destruct Hu as [<-|Hu]; [exact (Hnt Hx)|exact (Hdis x (or_intror Hx) Hu)].
        + exact (Hdis x (or_intror Hx) Hu). }
    destruct f as [|e d| |]; cbn [attempts follows].
    + destruct rest as [|t' rest']; [reflexivity|].
      destruct (Hnext t' rest' eq_refl) as (N1 & _ & N3).
      pose proof (IH resp t' rest' (add_used cur used) None N1 N3 (or_intror eq_refl)) as F.
      destruct (fst (attempts fs resp t' rest')) eqn:E; [reflexivity|exact F].
    + destruct d.
      * destruct (attempts fs resp t rest) as [l r] eqn:E. cbn [fst]. rewrite Hfit. cbn [andb].
        pose proof (IH resp t rest used (Some t) Hnd Hdis (or_introl eq_refl)) as F. rewrite E in F. exact F.
      * destruct rest as [|t' rest']; cbn [fst]; [rewrite Hfit; reflexivity|].
        destruct (attempts fs resp t' rest') as [l r] eqn:E. cbn [fst]. rewrite Hfit. cbn [andb].
        destruct (Hnext t' rest' eq_refl) as (N1 & N2 & _).
        pose proof (IH resp t' rest' (t :: used) None N1 N2 (or_intror eq_refl)) as F. rewrite E in F.
        cbn [fst] in F. destruct l; [reflexivity|exact F].
      * cbn [fst]. exact Hfit.
      * cbn [fst]. exact Hfit.
    + cbn [fst]. exact Hfit.
    + destruct (attempts fs resp t rest) as [l r] eqn:E. cbn [fst]. rewrite Hfit. cbn [andb].
      pose proof (IH resp t rest used (Some t) Hnd Hdis (or_introl eq_refl)) as F. rewrite E in F. exact F.
Qed.

Lemma NoDup_filter {A} (f : A -> bool) l : NoDup l -> NoDup (filter f l).
Proof.
  induction 1 as [|x l Hx Hnd IH]; cbn [filter]; [constructor|].
  destruct (f x); [|exact IH]. constructor; [|exact IH]. intros H. apply filter_In in H. tauto.
Qed.

Lemma eff_plan_NoDup stable base : NoDup base -> NoDup (eff_plan stable base).
Proof.
  intros H. destruct stable as [c|]; cbn [eff_plan]; [|exact H]. constructor.
  - intros Hin. apply filter_In in Hin as [_ E]. rewrite N.eqb_refl in E. discriminate.
  - apply NoDup_filter. exact H.
Qed.

Lemma fetch_follows stable ps : NoDup (ps_plan ps) -> ps_plan ps <> [] ->
  follows (ps_faults ps) stable [] (fst (fetch_one MSession stable ps)) = true.
Proof.
  intros Hnd Hne. cbn [fetch_one]. pose proof (eff_plan_NoDup stable _ Hnd) as He.
  destruct (eff_plan stable (ps_plan ps)) as [|t rest] eqn:E.
  - destruct stable; cbn [eff_plan] in E; [discriminate|contradiction].
  - apply attempts_follow; [exact He|intros x _ []|].
    destruct stable as [c|]; [left; cbn [eff_plan] in E; injection E as <- _; reflexivity|right; reflexivity].
Qed.

Lemma attempts_last : forall fs resp t rest ts c r,
  attempts fs resp t rest = (ts, FCompleted c r) -> last_opt ts = Some c.
Proof.
  induction fs as [|f fs IH]; intros resp t rest ts c r H; cbn [attempts] in H.
  - injection H as <- <- _. reflexivity.
  - destruct f as [|e d| |].
    + destruct rest as [|t' rest']; [discriminate|]. eapply IH; exact H.
    + destruct d; try discriminate.
      * destruct (attempts fs resp t rest) as [l x] eqn:E. injection H as <- ->.
        pose proof (IH _ _ _ _ _ _ E) as L. destruct l; [discriminate|exact L].
      * destruct rest as [|t' rest']; [discriminate|].
        destruct (attempts fs resp t' rest') as [l x] eqn:E. injection H as <- ->.
        pose proof (IH _ _ _ _ _ _ E) as L. destruct l; [discriminate|exact L].
    + discriminate.
    + destruct (attempts fs resp t rest) as [l x] eqn:E. injection H as <- ->.
      pose proof (IH _ _ _ _ _ _ E) as L. destruct l; [discriminate|exact L].
Qed.

Lemma fetch_last stable ps ts c r : fetch_one MSession stable ps = (ts, FCompleted c r) ->
  last_opt ts = Some c.
Proof.
  cbn [fetch_one]. destruct (eff_plan stable (ps_plan ps)); [discriminate|]. apply attempts_last.
Qed.

Definition plan_fine (ps : pscript) : Prop := NoDup (ps_plan ps) /\ ps_plan ps <> [].

(* for EVERY plan oracle (duplicate-free, non-empty plans) the requests of the model go where
   coordinator stability says: page i+1 starts at the node that answered page i, RetrySameTarget
   and a re-prepare stay, RetryNextTarget / an unavailable connection move to an unused target *)
Theorem coord_thm : forall script stable, Forall plan_fine script ->
  coord_ok stable script (worker_targets stable script) = true.
Proof.
  induction script as [|ps rest IH]; intros stable Hf; [reflexivity|].
  inversion Hf as [|? ? [Hnd Hne] Hf']; subst. cbn [worker_targets].
  pose proof (fetch_follows stable ps Hnd Hne) as F.
  destruct (fetch_one MSession stable ps) as [ts r] eqn:E. cbn [fst] in F.
  destruct r as [c [rows [st'|]| |]|c|e]; cbn [coord_ok]; rewrite F; cbn [andb]; try reflexivity.
  rewrite (fetch_last _ _ _ _ _ E). apply IH. exact Hf'.
Qed.

(* [seq_targets] are the targets of the requests of [seq_run], page by page *)
Definition tag_page (ip : nat * list N) : list (nat * N) := map (pair (fst ip)) (snd ip).

Lemma worker_targets_reqs : forall rest i st stable,
  flat_map tag_page (enumerate_from i (worker_targets stable rest)) =
  map (fun r => (rq_page r, rq_target r)) (fst (worker MSession i st stable rest)).
Proof.
  induction rest as [|ps rest IH]; intros i st stable; [reflexivity|].
  cbn [worker_targets worker]. destruct (fetch_one MSession stable ps) as [ts r].
  assert (map (fun r0 => (rq_page r0, rq_target r0)) (map (mk_req i (Some st)) ts) = map (pair i) ts) as Hm
    by (rewrite map_map; reflexivity).
  destruct r as [c [rows [st'|]| |]|c|e]; cbn [enumerate_from flat_map tag_page fst snd];
    rewrite ?app_nil_r; try (symmetry; exact Hm).
  specialize (IH (S i) st' (Some c)). destruct (worker MSession (S i) st' (Some c) rest) as [rq' ms].
  cbn [fst] in *. rewrite map_app, Hm, IH. reflexivity.
Qed.

Theorem seq_targets_reqs script : (exists rows p rq0, start MSession script = (rq0, SPager rows p)) ->
  flat_map tag_page (enumerate_from 0 (seq_targets script)) =
  map (fun r => (rq_page r, rq_target r)) (fst (seq_run MSession script)).
Proof.
  intros (rows & p & rq0 & Hst). unfold seq_targets, seq_run. rewrite Hst.
  destruct script as [|ps rest]; [discriminate|]. cbn [start worker_targets] in *.
  destruct (fetch_one MSession None ps) as [ts r].
  assert (map (fun r0 => (rq_page r0, rq_target r0)) (map (mk_req 0 None) ts) = map (pair 0%nat) ts) as Hm
    by (rewrite map_map; reflexivity).
  destruct r as [c [rw [st'|]| |]|c|e]; try discriminate; injection Hst as <- _ <-;
    cbn [pfuture enumerate_from flat_map tag_page fst snd]; rewrite ?app_nil_r, ?map_app;
    try (symmetry; exact Hm).
  pose proof (worker_targets_reqs rest 1%nat st' (Some c)) as W.
  destruct (worker MSession 1 st' (Some c) rest) as [rq' ms]. cbn [fst] in *.
  rewrite map_app, Hm, W. reflexivity.
Qed.

(* ===== part M: single page with a caller-supplied paging state ===== *)
Theorem single_thm nodes st ps : NoDup nodes -> page_ok nodes ps ->
  List.length (fst (single_run st ps)) = List.length (fst (fetch_one MSession None ps)) /\
  match single_expected (List.length nodes) ps with
  | PoResp r => exists c, snd (single_run st ps) = FCompleted c r
  | PoErr e => snd (single_run st ps) = FFailed e
  | PoIgnored e => exists c, snd (single_run st ps) = FIgnored c
  end.
Proof.
  intros Hn Hp. unfold single_run, single_expected.
  pose proof (fetch_spec MSession nodes None ps Hn Hp (or_intror I)) as F.
  destruct (fetch_one MSession None ps) as [ts r]. cbn [fst snd]. split; [apply map_length|].
  destruct (spec_page MSession (List.length nodes) ps).
  - destruct F as (ts' & c & E & _). injection E as _ ->. eauto.
  - destruct F as (ts' & E). injection E as _ ->. reflexivity.
  - destruct F as (ts' & c & E). injection E as _ ->. eauto.
Qed.

(* a single-page request starts from a fresh plan: its attempts obey the same node rules *)
Theorem single_targets ps : plan_fine ps ->
  follows (ps_faults ps) None [] (fst (fetch_one MSession None ps)) = true.
Proof. intros [Hnd Hne]. apply fetch_follows; assumption. Qed.

(* ===== part N: single-page acceptor, drop x timeout ===== *)
Lemma sres_eqb_eq a b : sres_eqb a b = true -> a = b.
Proof.
  destruct a as [r1 n1| |e1], b as [r2 n2| |e2]; cbn [sres_eqb]; try discriminate; try reflexivity.
  - intros H. apply andb_true_iff in H as [H1 H2]. apply (list_eqb_eq N.eqb N.eqb_eq) in H1. subst r2.
    destruct n1 as [x|], n2 as [y|]; cbn [opt_eqb] in H2; try discriminate; [|reflexivity].
    apply (list_eqb_eq N.eqb N.eqb_eq) in H2. subst y. reflexivity.
  - intros H. apply N.eqb_eq in H. subst e2. reflexivity.
Qed.

(* an accepted single-page observation satisfies the property sentence (every request carries
   the caller's state), is the model's result, has the model's number of attempts, and its
   nodes obey the plan rules *)
Theorem accept_single_sound st ps obs ok nodes_ : accept_single st ps obs ok nodes_ = true ->
  prop_single_ok st ok = true /\ obs = single_result (snd (single_run st ps)) /\
  List.length ok = List.length (fst (fetch_one MSession None ps)) /\
  follows (ps_faults ps) None [] nodes_ = true.
Proof.
  unfold accept_single, single_run. destruct (fetch_one MSession None ps) as [ts r]. cbn [fst snd].
  intros H. apply andb_true_iff in H as [H H3]. apply andb_true_iff in H as [H1 H2].
  apply sres_eqb_eq in H1. apply (list_eqb_eq key_eqb key_eqb_eq) in H2. subst ok.
  repeat split; try assumption.
  - unfold prop_single_ok. apply forallb_forall. intros k Hk. apply in_map_iff in Hk as (t & <- & _).
    cbn [snd]. apply opt_state_eqb_refl.
  - apply map_length.
Qed.

(* the model's own single-page run is accepted (targets of the fiber included) *)
Theorem accept_single_complete st ps : plan_fine ps ->
  accept_single st ps (single_result (snd (single_run st ps))) (fst (single_run st ps))
                (fst (fetch_one MSession None ps)) = true.
Proof.
  intros Hp. pose proof (single_targets ps Hp) as F. unfold accept_single, single_run in *.
  destruct (fetch_one MSession None ps) as [ts r]. cbn [fst snd] in *.
  rewrite F, (list_eqb_refl key_eqb key_eqb_eq). rewrite andb_true_r, andb_true_r.
  destruct (single_result r) as [rows next| |e]; cbn [sres_eqb].
  - rewrite (list_eqb_refl N.eqb N.eqb_eq), opt_state_eqb_refl. reflexivity.
  - reflexivity.
  - apply N.eqb_refl.
Qed.

Theorem drop_timeout_sound m nodes script cnt oi ok :
  accept_drop_timeout m script cnt oi ok = true -> plans_ok nodes script = true ->
  exists sc, In sc (early_timeouts script) /\ plans_ok nodes sc = true /\
    script_pages sc = script_pages script /\
    (known_ignored m (List.length nodes) sc = false ->
       prop_drop_ok m (List.length nodes) sc cnt oi ok = true).
Proof.
  unfold accept_drop_timeout. intros H Hpl. apply existsb_exists in H as (sc & Hin & Ha).
  apply andb_true_iff in Ha as [Ha Hc]. exists sc. split; [exact Hin|].
  destruct (early_timeouts_shape _ _ Hin) as (pre & ps & rest & i & -> & -> & _).
  split; [apply with_timeout_plans; exact Hpl|]. split; [apply with_timeout_pages|].
  intros Hk. eapply accept_drop_prop; [exact Ha|apply with_timeout_plans; exact Hpl|exact Hk|].
  (* the constructor returned a pager in that environment *)
  unfold ctor_fails, seq_run in Hc. apply negb_true_iff in Hc.
  unfold accept_drop in Ha.
  destruct (start m (pre ++ with_timeout i ps :: rest)) as [rq0 [|e|rows p]] eqn:Hst.
  - discriminate.
  - cbn [snd] in Hc. discriminate.
  - eauto.
Qed.

(* ===== part O: the closed form of a page request's outcome ===== *)
Lemma ends_at_shift f fs spare used i :
  ends_at (f :: fs) spare used (S i) =
  ends_at fs spare (used + (if fault_advances f then 1 else 0)) i.
Proof.
  unfold ends_at. cbn [nth_error firstn filter]. destruct (nth_error fs i) as [g|]; [|reflexivity].
  destruct (terminal g); [reflexivity|].
  destruct (fault_advances f); cbn [List.length].
  - replace (used + 1 + List.length (filter fault_advances (firstn i fs)))%nat
      with (used + S (List.length (filter fault_advances (firstn i fs))))%nat by lia. reflexivity.
  - replace (used + 0)%nat with used by lia. reflexivity.
Qed.

Lemma attempts_closed_cons f fs spare used resp :
  attempts_closed (f :: fs) spare used resp =
  match ends_at (f :: fs) spare used 0 with
  | Some o => o
  | None => attempts_closed fs spare (used + (if fault_advances f then 1 else 0)) resp
  end.
Proof.
  unfold attempts_closed. cbn [List.length seq map first_some].
  destruct (ends_at (f :: fs) spare used 0); [reflexivity|].
  rewrite <- seq_shift, map_map.
  rewrite (map_ext _ (ends_at fs spare (used + (if fault_advances f then 1 else 0)))
             (fun i => ends_at_shift f fs spare used i)).
  reflexivity.
Qed.

Theorem attempts_closed_eq : forall fs left used resp,
  spec_attempts fs left resp = attempts_closed fs (left + used) used resp.
Proof.
  induction fs as [|f fs IH]; intros left used resp; [reflexivity|].
  rewrite attempts_closed_cons. unfold ends_at. cbn [nth_error firstn filter List.length].
  rewrite Nat.add_0_r.
  destruct f as [|e d| |]; cbn [spec_attempts terminal fault_advances andb adv_err].
  - destruct left as [|l].
    + cbn [Nat.add]. rewrite Nat.leb_refl. reflexivity.
    + replace (Nat.leb (S l + used) used) with false by (symmetry; apply Nat.leb_gt; lia).
      rewrite (IH l (used + 1)%nat resp). f_equal. lia.
  - destruct d; cbn [terminal fault_advances andb]; try reflexivity.
    + rewrite (IH left (used + 0)%nat resp). f_equal. lia.
    + destruct left as [|l].
      * cbn [Nat.add]. rewrite Nat.leb_refl. reflexivity.
      * replace (Nat.leb (S l + used) used) with false by (symmetry; apply Nat.leb_gt; lia).
        rewrite (IH l (used + 1)%nat resp). f_equal. lia.
  - reflexivity.
  - rewrite (IH left (used + 0)%nat resp). f_equal. lia.
Qed.

Theorem spec_page_closed_eq m n ps : spec_page m n ps = spec_page_closed m n ps.
Proof.
  destruct m; cbn [spec_page spec_page_closed].
  - destruct n as [|l]; [reflexivity|]. rewrite (attempts_closed_eq _ l 0%nat). f_equal. lia.
  - rewrite (attempts_closed_eq _ 0%nat 0%nat). reflexivity.
Qed.

(* ===== part P: closed-form request count; single-page acceptor against the loop-free spec ===== *)
Lemma find_map_S (f : nat -> bool) l :
  find f (map S l) = option_map S (find (fun i => f (S i)) l).
Proof.
  induction l as [|x l IH]; cbn [map find option_map]; [reflexivity|].
  destruct (f (S x)); [reflexivity|exact IH].
Qed.

Lemma find_ext' {A} (f g : A -> bool) l : (forall x, f x = g x) -> find f l = find g l.
Proof. intros H. induction l as [|x l IH]; cbn [find]; [reflexivity|]. rewrite H, IH. reflexivity. Qed.

Lemma ends_here_shift f fs spare used i :
  ends_here (f :: fs) spare used (S i) =
  ends_here fs spare (used + (if fault_advances f then 1 else 0)) i.
Proof. unfold ends_here. rewrite ends_at_shift. reflexivity. Qed.

Lemma requests_closed_cons f fs spare used :
  requests_closed (f :: fs) spare used =
  if ends_here (f :: fs) spare used 0
  then match f with FConnFail => 0%nat | _ => 1%nat end
  else ((if fault_sent f then 1 else 0) +
        requests_closed fs spare (used + (if fault_advances f then 1 else 0)))%nat.
Proof.
  unfold requests_closed. cbn [List.length seq find].
  destruct (ends_here (f :: fs) spare used 0) eqn:E0.
  - cbn [firstn filter List.length nth_error Nat.add]. reflexivity.
  - rewrite <- seq_shift, find_map_S.
    rewrite (find_ext' _ (ends_here fs spare (used + (if fault_advances f then 1 else 0))) _
               (fun i => ends_here_shift f fs spare used i)).
    destruct (find _ (seq 0 (List.length fs))) as [j|]; cbn [option_map].
    + cbn [firstn filter nth_error]. destruct (fault_sent f); cbn [List.length]; lia.
    + cbn [filter]. destruct (fault_sent f); cbn [List.length]; lia.
Qed.

Theorem attempts_count : forall fs resp t rest used,
  List.length (fst (attempts fs resp t rest)) = requests_closed fs (List.length rest + used) used.
Proof.
  induction fs as [|f fs IH]; intros resp t rest used; [reflexivity|].
  rewrite requests_closed_cons. unfold ends_here, ends_at. cbn [nth_error firstn filter List.length].
  rewrite Nat.add_0_r.
  destruct f as [|e d| |]; cbn [attempts terminal fault_advances fault_sent andb].
  - destruct rest as [|t' rest']; cbn [List.length Nat.add].
    + rewrite Nat.leb_refl. reflexivity.
    + replace (Nat.leb (S (List.length rest' + used)) used) with false by (symmetry; apply Nat.leb_gt; lia).
      rewrite (IH resp t' rest' (used + 1)%nat). cbn [Nat.add]. f_equal. lia.
  - destruct d; cbn [terminal fault_advances andb].
    + destruct (attempts fs resp t rest) as [l r] eqn:E. cbn [fst List.length].
      replace (used + 0)%nat with used by lia.
      pose proof (IH resp t rest used) as H. rewrite E in H. cbn [fst] in H. rewrite H.
      cbn [Nat.add]. reflexivity.
    + destruct rest as [|t' rest']; cbn [List.length Nat.add fst].
      * rewrite Nat.leb_refl. reflexivity.
      * replace (Nat.leb (S (List.length rest' + used)) used) with false by (symmetry; apply Nat.leb_gt; lia).
        destruct (attempts fs resp t' rest') as [l r] eqn:E. cbn [fst List.length].
        pose proof (IH resp t' rest' (used + 1)%nat) as H. rewrite E in H. cbn [fst] in H. rewrite H.
        cbn [Nat.add]. f_equal. f_equal. lia.
    + reflexivity.
    + reflexivity.
  - reflexivity.
  - destruct (attempts fs resp t rest) as [l r] eqn:E. cbn [fst List.length].
    replace (used + 0)%nat with used by lia.
    pose proof (IH resp t rest used) as H. rewrite E in H. cbn [fst] in H. rewrite H.
    cbn [Nat.add]. reflexivity.
Qed.

(* page level: with plans that enumerate the nodes, the number of requests a page needs is the
   closed-form count over n-1 spare targets *)
Theorem fetch_count nodes stable ps : NoDup nodes -> page_ok nodes ps -> stable_ok MSession nodes stable ->
  nodes <> [] ->
  List.length (fst (fetch_one MSession stable ps)) =
  requests_closed (ps_faults ps) (List.length nodes - 1) 0.
Proof.
  intros Hn Hp Hs Hne. destruct Hs as [?|Hs]; [discriminate|].
  destruct (eff_plan_nodes nodes stable ps Hn Hp Hs) as [Hl _]. cbn [fetch_one].
  destruct (eff_plan stable (ps_plan ps)) as [|t rest]; cbn [List.length] in Hl.
  - destruct nodes; [contradiction|discriminate].
  - rewrite (attempts_count _ _ t rest 0%nat). f_equal; lia.
Qed.

(* the single-page acceptor against the loop-free specification: every request carries the
   caller's state; the caller gets, exactly once, the result or the error the closed form says;
   the server sees the closed-form number of requests; the nodes obey the plan rules *)
Theorem accept_single_sound_closed nodes st ps obs ok nodes_ :
  accept_single st ps obs ok nodes_ = true -> NoDup nodes -> page_ok nodes ps -> nodes <> [] ->
  prop_single_ok st ok = true /\
  obs = sres_of (spec_page_closed MSession (List.length nodes) ps) /\
  List.length ok = requests_closed (ps_faults ps) (List.length nodes - 1) 0 /\
  follows (ps_faults ps) None [] nodes_ = true.
Proof.
  intros H Hn Hp Hne. destruct (accept_single_sound _ _ _ _ _ H) as (H1 & H2 & H3 & H4).
  repeat split; try assumption.
  - rewrite H2, <- spec_page_closed_eq.
    destruct (single_thm nodes st ps Hn Hp) as [_ S]. unfold single_expected in S.
    destruct (spec_page MSession (List.length nodes) ps) as [[rows next| |]|e|e]; cbn [sres_of].
    + destruct S as [c ->]. reflexivity.
    + destruct S as [c ->]. reflexivity.
    + destruct S as [c ->]. reflexivity.
    + rewrite S. reflexivity.
    + destruct S as [c ->]. reflexivity.
  - rewrite H3. apply fetch_count; try assumption. right. exact I.
Qed.

(* coordinator stability, tightened: the model's pages have exactly the closed-form number of
   requests -- a RetryNextTarget / unavailable connection is followed by another attempt exactly
   while a spare target remains; a page's requests end early only when the plan has run out *)
Theorem targets_count nodes : NoDup nodes -> nodes <> [] -> forall script stable,
  Forall (page_ok nodes) script -> stable_ok MSession nodes stable ->
  map (@List.length N) (worker_targets stable script) =
  map (fun ps => requests_closed (ps_faults ps) (List.length nodes - 1) 0)
      (firstn (List.length (worker_targets stable script)) script).
Proof.
  intros Hn Hne. induction script as [|ps rest IH]; intros stable Hf Hs; [reflexivity|].
  inversion Hf as [|? ? Hp Hf']; subst. cbn [worker_targets].
  pose proof (fetch_count nodes stable ps Hn Hp Hs Hne) as C.
  pose proof (fetch_spec MSession nodes stable ps Hn Hp Hs) as F.
  destruct (fetch_one MSession stable ps) as [ts r] eqn:E. cbn [fst] in C.
  destruct r as [c [rows [st'|]| |]|c|e]; cbn [List.length firstn map]; try (rewrite C; reflexivity).
  rewrite C. f_equal. apply IH; [exact Hf'|].
  destruct (spec_page MSession (List.length nodes) ps) as [r|e|e].
  - destruct F as (ts' & c' & E' & Hs'). injection E' as _ <- _. exact Hs'.
  - destruct F as (ts' & E'). discriminate.
  - destruct F as (ts' & c' & E'). discriminate.
Qed.
