(* Proofs for Model/ConnFail.v  (property C10).  The statements used by the property are
   re-stated in Props/C10.v and closed there by [exact]. *)
From SV Require Import Base.Prelude Base.Bytes Model.ConnFail.
From Coq Require Import Permutation.
Open Scope N_scope.

(* ---------- ntake / parse_frame ---------- *)
Lemma ntake_some : forall b n a r, ntake n b = Some (a, r) -> b = a ++ r /\ N.of_nat (List.length a) = n.
Proof.
  induction b as [|x b IH]; intros n a r H; cbn [ntake] in H.
  - destruct (n =? 0) eqn:E; [|discriminate]. apply N.eqb_eq in E. inversion H; subst. split; reflexivity.
  - destruct (n =? 0) eqn:E.
    + apply N.eqb_eq in E. inversion H; subst. split; reflexivity.
    + apply N.eqb_neq in E. destruct (ntake (n - 1) b) as [[a' r']|] eqn:E2; [|discriminate].
      inversion H; subst. apply IH in E2. destruct E2 as [-> E3]. split; [reflexivity|].
      cbn [List.length]. lia.
Qed.

Lemma parse_frame_got : forall buf f rest, parse_frame buf = Got f rest ->
  buf = f_raw f ++ rest /\ List.length (f_hdr f) = 9%nat /\ N.of_nat (List.length (f_body f)) = f_len f /\
  N.land (f_version f) 128 = 128 /\ N.land (f_version f) 127 = 4 /\ valid_opcode (f_opcode f) = true.
Proof.
  intros buf f rest H. unfold parse_frame in H.
  destruct (ntake 9 buf) as [[h r1]|] eqn:E1; [|discriminate].
  set (f0 := mk_frame h []) in *.
  destruct (N.land (f_version f0) 128 =? 128) eqn:Ev; cbn [negb] in H; [|discriminate].
  destruct (N.land (f_version f0) 127 =? 4) eqn:Ev2; cbn [negb] in H; [|discriminate].
  destruct (valid_opcode (f_opcode f0)) eqn:Eo; cbn [negb] in H; [|discriminate].
  destruct (ntake (f_len f0) r1) as [[body r2]|] eqn:E2; [|discriminate].
  inversion H; subst f rest; clear H.
  apply ntake_some in E1. destruct E1 as [-> E1]. apply ntake_some in E2. destruct E2 as [-> E2].
  unfold f_raw. cbn [f_hdr f_body]. rewrite <- app_assoc.
  apply N.eqb_eq in Ev, Ev2.
  repeat split; try assumption; lia.
Qed.

Lemma parse_frame_got_len : forall buf f rest, parse_frame buf = Got f rest ->
  (List.length rest + 9 <= List.length buf)%nat.
Proof.
  intros buf f rest H. apply parse_frame_got in H. destruct H as [-> [H9 _]].
  unfold f_raw. rewrite !app_length. lia.
Qed.

Lemma nmem_In x l : nmem x l = true <-> In x l.
Proof.
  unfold nmem. rewrite existsb_exists. split.
  - intros [y [Hy E]]. apply N.eqb_eq in E. subst. exact Hy.
  - intros H. exists x. split; [exact H|apply N.eqb_refl].
Qed.
Lemma nmem_false x l : nmem x l = false <-> ~ In x l.
Proof.
  rewrite <- nmem_In. destruct (nmem x l); split; intros H; try discriminate; try tauto.
Qed.

Lemma NoDup_insert (l1 l2 : list N) x : NoDup (l1 ++ l2) -> ~ In x (l1 ++ l2) -> NoDup (l1 ++ x :: l2).
Proof. intros H Hx. apply (NoDup_Add (Add_app x l1 l2)). split; assumption. Qed.
Lemma NoDup_snoc (l : list N) x : NoDup l -> ~ In x l -> NoDup (l ++ [x]).
Proof. intros H Hx. apply NoDup_insert; rewrite app_nil_r; assumption. Qed.

(* ---------- accounting of requests ---------- *)
Definition Acct (pend : list N) (done : list (N * outcome)) (sub canc : list N) : Prop :=
  NoDup pend /\ NoDup (map fst done) /\
  (forall r, In r pend -> In r sub /\ ~ In r (map fst done)) /\
  (forall r, In r (map fst done) -> In r sub) /\
  (forall r, In r sub -> In r (map fst done) \/ In r pend \/ In r canc).

Lemma map_fst_snoc (d : list (N * outcome)) r o : map fst (d ++ [(r, o)]) = map fst d ++ [r].
Proof. rewrite map_app. reflexivity. Qed.

Lemma acct_init c : Acct [] [] [] c.
Proof. repeat split; try constructor; cbn; tauto. Qed.

(* request r leaves the pending containers and is completed *)
Lemma acct_complete A B r o d s c :
  Acct (A ++ r :: B) d s c -> Acct (A ++ B) (d ++ [(r, o)]) s c.
Proof.
  intros (Hp & Hd & Hps & Hds & Hs).
  assert (Hr : In r s /\ ~ In r (map fst d)) by (apply Hps; apply in_elt).
  pose proof (NoDup_remove_1 _ _ _ Hp) as Hp1. pose proof (NoDup_remove_2 _ _ _ Hp) as Hp2.
  repeat split.
  - exact Hp1.
  - rewrite map_fst_snoc. apply NoDup_snoc; tauto.
  - apply Hps. apply in_app_or in H. apply in_or_app. destruct H; [left|right; right]; assumption.
  - rewrite map_fst_snoc. intros H1. apply in_app_or in H1. destruct H1 as [H1|[<-|[]]].
    + assert (In r0 (A ++ r :: B)) by (apply in_app_or in H; apply in_or_app; destruct H; [left|right; right]; assumption).
      apply Hps in H0. tauto.
    + tauto.
  - intros r0. rewrite map_fst_snoc. intros H. apply in_app_or in H. destruct H as [H|[<-|[]]]; [auto|tauto].
  - intros r0 H. rewrite map_fst_snoc. destruct (Hs r0 H) as [H1|[H1|H1]].
    + left. apply in_or_app. tauto.
    + apply in_app_or in H1. destruct H1 as [H1|[<-|H1]].
      * right; left; apply in_or_app; tauto.
      * left. apply in_or_app. right. left. reflexivity.
      * right; left; apply in_or_app; tauto.
    + tauto.
Qed.

(* the handler of a cancelled request is dropped by the orphaner *)
Lemma acct_orphan A B r d s c :
  Acct (A ++ r :: B) d s c -> In r c -> Acct (A ++ B) d s c.
Proof.
  intros (Hp & Hd & Hps & Hds & Hs) Hc.
  repeat split.
  - eapply NoDup_remove_1; eassumption.
  - exact Hd.
  - apply Hps. apply in_app_or in H. apply in_or_app. destruct H; [left|right; right]; assumption.
  - apply Hps. apply in_app_or in H. apply in_or_app. destruct H; [left|right; right]; assumption.
  - exact Hds.
  - intros r0 H. destruct (Hs r0 H) as [H1|[H1|H1]]; [tauto| |tauto].
    apply in_app_or in H1. destruct H1 as [H1|[<-|H1]].
    + right; left; apply in_or_app; tauto.
    + tauto.
    + right; left; apply in_or_app; tauto.
Qed.

(* a fresh request enters the queue (the tail of the pending list) *)
Lemma acct_submit p r d s c : Acct p d s c -> ~ In r s -> Acct (p ++ [r]) d (s ++ [r]) c.
Proof.
  intros (Hp & Hd & Hps & Hds & Hs) Hr.
  repeat split.
  - apply NoDup_snoc; [exact Hp|]. intros H. apply Hps in H. tauto.
  - exact Hd.
  - apply in_app_or in H. apply in_or_app. destruct H as [H|[<-|[]]]; [left; apply Hps; exact H|right; left; reflexivity].
  - apply in_app_or in H. destruct H as [H|[<-|[]]]; [apply Hps; exact H|]. intros H1. apply Hds in H1. tauto.
  - intros r0 H. apply in_or_app. left. apply Hds. exact H.
  - intros r0 H. apply in_app_or in H. destruct H as [H|[<-|[]]].
    + destruct (Hs r0 H) as [H1|[H1|H1]]; [tauto| |tauto]. right; left. apply in_or_app; tauto.
    + right; left. apply in_or_app. right. left. reflexivity.
Qed.

(* a fresh request is refused at once *)
Lemma acct_submit_fail p r o d s c : Acct p d s c -> ~ In r s -> Acct p (d ++ [(r, o)]) (s ++ [r]) c.
Proof.
  intros (Hp & Hd & Hps & Hds & Hs) Hr.
  repeat split.
  - exact Hp.
  - rewrite map_fst_snoc. apply NoDup_snoc; [exact Hd|]. intros H. apply Hds in H. tauto.
  - apply in_or_app. left. apply Hps. exact H.
  - rewrite map_fst_snoc. intros H1. apply in_app_or in H1. destruct H1 as [H1|[<-|[]]].
    + apply Hps in H. tauto.
    + apply Hps in H. tauto.
  - intros r0. rewrite map_fst_snoc. intros H. apply in_app_or in H. apply in_or_app.
    destruct H as [H|[<-|[]]]; [left; apply Hds; exact H|right; left; reflexivity].
  - intros r0 H. rewrite map_fst_snoc. apply in_app_or in H. destruct H as [H|[<-|[]]].
    + destruct (Hs r0 H) as [H1|[H1|H1]]; [|tauto|tauto]. left. apply in_or_app; tauto.
    + left. apply in_or_app. right. left. reflexivity.
Qed.

Lemma acct_cancel p d s c r : Acct p d s c -> Acct p d s (c ++ [r]).
Proof.
  intros (Hp & Hd & Hps & Hds & Hs). repeat split; try assumption; try (apply Hps; assumption).
  intros r0 H. destruct (Hs r0 H) as [H1|[H1|H1]]; [tauto|tauto|]. right; right. apply in_or_app; tauto.
Qed.

(* ---------- more accounting: permutations, insertion in the middle ---------- *)

Lemma acct_perm p p' d s c : Permutation p p' -> Acct p d s c -> Acct p' d s c.
Proof.
  intros HP (Hp & Hd & Hps & Hds & Hs).
  assert (Hin : forall r, In r p' -> In r p) by (intros r H; eapply Permutation_in; [symmetry; exact HP|exact H]).
  repeat split.
  - eapply Permutation_NoDup; eassumption.
  - exact Hd.
  - apply Hps. apply Hin. exact H.
  - apply Hps. apply Hin. exact H.
  - exact Hds.
  - intros r H. destruct (Hs r H) as [H1|[H1|H1]]; [tauto| |tauto]. right; left. eapply Permutation_in; eassumption.
Qed.

(* a fresh request enters a container in the middle of the pending list *)
Lemma acct_submit_at A B r d s c : Acct (A ++ B) d s c -> ~ In r s -> Acct (A ++ r :: B) d (s ++ [r]) c.
Proof.
  intros H Hr. eapply acct_perm; [|apply acct_submit; eassumption].
  rewrite <- app_assoc. apply Permutation_app_head. symmetry. apply Permutation_cons_append.
Qed.

(* a request moves from one container to another *)
Lemma acct_move A B C r d s c : Acct (A ++ B ++ r :: C) d s c -> Acct (A ++ r :: B ++ C) d s c.
Proof.
  apply acct_perm. apply Permutation_app_head. symmetry. apply Permutation_middle.
Qed.

(* ---------- handler list lemmas ---------- *)
Lemma find_stream_split s h r : find_stream s h = Some r ->
  exists h1 h2, h = h1 ++ (s, r) :: h2 /\ remove_stream s h = h1 ++ h2.
Proof.
  induction h as [|[s' r'] t IH]; cbn [find_stream remove_stream]; [discriminate|].
  destruct (s' =? s) eqn:E.
  - intros H. inversion H; subst. apply N.eqb_eq in E. subst. exists [], t. split; reflexivity.
  - intros H. destruct (IH H) as (h1 & h2 & -> & E2). exists ((s', r') :: h1), h2. rewrite E2. split; reflexivity.
Qed.

Lemma find_stream_none s h : find_stream s h = None -> ~ In s (map fst h).
Proof.
  induction h as [|[s' r'] t IH]; cbn [find_stream map fst In]; [tauto|].
  destruct (s' =? s) eqn:E; [discriminate|]. apply N.eqb_neq in E. intros H [H1|H1]; [tauto|]. apply IH; assumption.
Qed.

Lemma find_rid_In r h s : find_rid r h = Some s -> In (s, r) h.
Proof.
  induction h as [|[s' r'] t IH]; cbn [find_rid In]; [discriminate|].
  destruct (r' =? r) eqn:E.
  - intros H. inversion H; subst. apply N.eqb_eq in E. subst. left. reflexivity.
  - intros H. right. apply IH. exact H.
Qed.

Lemma remove_stream_split s r h : NoDup (map fst h) -> In (s, r) h ->
  exists h1 h2, h = h1 ++ (s, r) :: h2 /\ remove_stream s h = h1 ++ h2.
Proof.
  induction h as [|[s' r'] t IH]; cbn [map fst In remove_stream]; [tauto|].
  intros Hnd Hin. inversion Hnd as [|x l Hx Hl]; subst.
  destruct (s' =? s) eqn:E.
  - apply N.eqb_eq in E. subst s'. destruct Hin as [Hin|Hin].
    + inversion Hin; subst. exists [], t. split; reflexivity.
    + exfalso. apply Hx. apply (in_map fst) in Hin. exact Hin.
  - apply N.eqb_neq in E. destruct Hin as [Hin|Hin]; [inversion Hin; subst; tauto|].
    destruct (IH Hl Hin) as (h1 & h2 & -> & E2). exists ((s', r') :: h1), h2. rewrite E2. split; reflexivity.
Qed.

Lemma nremove_incl x l y : In y (nremove x l) -> In y l.
Proof.
  induction l as [|z t IH]; cbn [nremove In]; [tauto|].
  destruct (z =? x); cbn [In]; tauto.
Qed.

Lemma map_fst_remove (h1 h2 : list (N * N)) x : map fst (h1 ++ x :: h2) = map fst h1 ++ fst x :: map fst h2.
Proof. rewrite map_app. reflexivity. Qed.
Lemma map_snd_remove (h1 h2 : list (N * N)) x : map snd (h1 ++ x :: h2) = map snd h1 ++ snd x :: map snd h2.
Proof. rewrite map_app. reflexivity. Qed.

(* ---------- projections through fault / complete ---------- *)
Lemma fault_fields e st :
  c_rbuf (fault e st) = c_rbuf st /\ c_handlers (fault e st) = c_handlers st /\
  c_orphans (fault e st) = c_orphans st /\ c_queue (fault e st) = c_queue st /\
  c_notices (fault e st) = c_notices st /\ c_done (fault e st) = c_done st /\
  c_submitted (fault e st) = c_submitted st /\ c_cancelled (fault e st) = c_cancelled st /\
  c_written (fault e st) = c_written st /\ c_received (fault e st) = c_received st /\
  c_consumed (fault e st) = c_consumed st /\ c_control (fault e st) = c_control st /\
  c_reserved (fault e st) = c_reserved st.
Proof. unfold fault. destruct (c_status st); cbn; repeat split; reflexivity. Qed.

Lemma fault_status e st :
  c_status (fault e st) = match c_status st with Open => TearingDown e | x => x end.
Proof. unfold fault. destruct (c_status st) eqn:E; cbn; try rewrite E; reflexivity. Qed.

Lemma complete_fields r o st :
  c_rbuf (complete r o st) = c_rbuf st /\ c_handlers (complete r o st) = c_handlers st /\
  c_orphans (complete r o st) = c_orphans st /\ c_queue (complete r o st) = c_queue st /\
  c_notices (complete r o st) = c_notices st /\ c_done (complete r o st) = c_done st ++ [(r, o)] /\
  c_submitted (complete r o st) = c_submitted st /\ c_cancelled (complete r o st) = c_cancelled st /\
  c_written (complete r o st) = c_written st /\ c_received (complete r o st) = c_received st /\
  c_consumed (complete r o st) = c_consumed st /\ c_control (complete r o st) = c_control st /\
  c_reserved (complete r o st) = c_reserved st.
Proof.
  unfold complete. cbn [c_ka set_done].
  destruct (c_ka st) as [k|]; [destruct (k =? r); [destruct o|]|];
    try (cbn; repeat split; reflexivity);
    match goal with |- context [fault ?e ?s] => pose proof (fault_fields e s) as H; cbn in H; cbn; exact H end.
Qed.

Lemma complete_status r o st :
  c_status (complete r o st) = c_status st \/
  (c_status st = Open /\ c_status (complete r o st) = TearingDown EKeepaliveRequest).
Proof.
  unfold complete. cbn [c_ka set_done].
  destruct (c_ka st) as [k|]; [destruct (k =? r); [destruct o|]|]; try (left; reflexivity);
    rewrite fault_status; cbn; destruct (c_status st); auto.
Qed.

(* ---------- the invariant ---------- *)
Definition frame_ok (f : frame) : Prop :=
  List.length (f_hdr f) = 9%nat /\ N.of_nat (List.length (f_body f)) = f_len f /\
  N.land (f_version f) 128 = 128 /\ N.land (f_version f) 127 = 4 /\ valid_opcode (f_opcode f) = true.

(* what the status says about the containers *)
Definition status_ok (stt : status) (h : list (N * N)) (q rs : list N) : Prop :=
  match stt with
  | Open | TearingDown _ => True
  | Draining _ => h = []
  | Broken _ => h = [] /\ q = [] /\ rs = []
  end.

Record Inv (st : conn) : Prop := mk_Inv {
  inv_acct : Acct (pending_rids st) (c_done st) (c_submitted st) (c_cancelled st);
  inv_streams : NoDup (map fst (c_handlers st));
  inv_orph : forall s, In s (map fst (c_handlers st)) -> ~ In s (c_orphans st);
  inv_notices : forall r, In r (c_notices st) -> In r (c_cancelled st);
  inv_status : status_ok (c_status st) (c_handlers st) (c_queue st) (c_reserved st);
  inv_written : forall s r, In (s, r) (c_handlers st) -> In (s, r) (c_written st);
  inv_resp : forall r f, In (r, Resp f) (c_done st) -> In f (c_consumed st) /\ In (f_stream f, r) (c_written st);
  inv_recv : c_received st = concat (map f_raw (c_consumed st)) ++ c_rbuf st;
  inv_frames : Forall frame_ok (c_consumed st)
}.

Lemma inv_init ctl : Inv (conn_init ctl).
Proof.
  constructor; cbn.
  - apply acct_init.
  - constructor.
  - tauto.
  - tauto.
  - exact Logic.I.
  - tauto.
  - tauto.
  - reflexivity.
  - constructor.
Qed.

(* a status change that is compatible with unchanged containers *)
Lemma status_ok_fault e stt h q rs :
  status_ok stt h q rs -> status_ok (match stt with Open => TearingDown e | x => x end) h q rs.
Proof. destruct stt; cbn; tauto. Qed.

(* only the status changes, and not to Draining/Broken *)
Lemma inv_fault e st : Inv st -> Inv (fault e st).
Proof.
  intros [A B C D E F G H I]. destruct (fault_fields e st) as (E1&E2&E3&E4&E5&E6&E7&E8&E9&E10&E11&E12&E13).
  constructor; unfold pending_rids; rewrite ?E1, ?E2, ?E3, ?E4, ?E5, ?E6, ?E7, ?E8, ?E9, ?E10, ?E11, ?E13; try assumption.
  rewrite fault_status. unfold status_ok in *. destruct (c_status st); try exact E; exact Logic.I.
Qed.

(* request r is taken out of the containers (pending A ++ r :: B before) and completed *)
Lemma inv_complete st r o A B :
  pending_rids st = A ++ B ->
  Acct (A ++ r :: B) (c_done st) (c_submitted st) (c_cancelled st) ->
  NoDup (map fst (c_handlers st)) ->
  (forall s, In s (map fst (c_handlers st)) -> ~ In s (c_orphans st)) ->
  (forall r, In r (c_notices st) -> In r (c_cancelled st)) ->
  status_ok (c_status st) (c_handlers st) (c_queue st) (c_reserved st) ->
  (forall s r, In (s, r) (c_handlers st) -> In (s, r) (c_written st)) ->
  (forall r f, In (r, Resp f) (c_done st) -> In f (c_consumed st) /\ In (f_stream f, r) (c_written st)) ->
  (forall f, o = Resp f -> In f (c_consumed st) /\ In (f_stream f, r) (c_written st)) ->
  c_received st = concat (map f_raw (c_consumed st)) ++ c_rbuf st ->
  Forall frame_ok (c_consumed st) ->
  Inv (complete r o st).
Proof.
  intros Hp A0 B0 C D E F G Go H I.
  destruct (complete_fields r o st) as (E1&E2&E3&E4&E5&E6&E7&E8&E9&E10&E11&E12&E13).
  constructor; unfold pending_rids; rewrite ?E1, ?E2, ?E3, ?E4, ?E5, ?E6, ?E7, ?E8, ?E9, ?E10, ?E11, ?E13; try assumption.
  - fold (pending_rids st). rewrite Hp. apply acct_complete. exact A0.
  - destruct (complete_status r o st) as [Hs|[Hs1 Hs2]].
    + rewrite Hs. exact E.
    + rewrite Hs2. exact Logic.I.
  - intros r0 f Hin. apply in_app_or in Hin. destruct Hin as [Hin|[Hin|[]]].
    + apply G. exact Hin.
    + inversion Hin; subst. apply Go. reflexivity.
Qed.

Lemma concat_map_snoc (cs : list frame) f : concat (map f_raw (cs ++ [f])) = concat (map f_raw cs) ++ f_raw f.
Proof. rewrite map_app, concat_app. cbn. rewrite app_nil_r. reflexivity. Qed.

(* the reader handles one complete frame *)
Lemma inv_dispatch st f rest :
  Inv st -> parse_frame (c_rbuf st) = Got f rest -> Inv (dispatch f (set_rbuf rest st)).
Proof.
  intros [A B C D E F G H I] Hp.
  pose proof (parse_frame_got _ _ _ Hp) as (Hbuf & Hok).
  assert (HR : c_received st = concat (map f_raw (c_consumed st ++ [f])) ++ rest).
  { rewrite H, Hbuf, concat_map_snoc, app_assoc. reflexivity. }
  assert (HF : Forall frame_ok (c_consumed st ++ [f])).
  { apply Forall_app. split; [exact I|]. constructor; [exact Hok|constructor]. }
  assert (HG : forall r f0, In (r, Resp f0) (c_done st) ->
                In f0 (c_consumed st ++ [f]) /\ In (f_stream f0, r) (c_written st)).
  { intros r f0 Hin. destruct (G r f0 Hin). split; [apply in_or_app; tauto|assumption]. }
  unfold dispatch. cbn [c_consumed set_consumed set_rbuf c_control c_events c_orphans c_handlers].
  destruct (32768 <=? f_stream f) eqn:Eneg.
  { (* events and other negative streams *)
    destruct (f_stream f =? 65535); [destruct (c_control st); [destruct (f_opcode f =? 12)|]|];
      try apply inv_fault; constructor; cbn; assumption. }
  destruct (nmem (f_stream f) (c_orphans st)) eqn:Eo.
  { constructor; cbn; try assumption.
    intros s Hs Hin. apply nremove_incl in Hin. eapply C; eassumption. }
  destruct (find_stream (f_stream f) (c_handlers st)) as [r|] eqn:Ef.
  - destruct (find_stream_split _ _ _ Ef) as (h1 & h2 & Eh & Er).
    apply inv_complete with (A := map snd h1) (B := map snd h2 ++ c_queue st ++ c_reserved st); cbn.
    + unfold pending_rids. cbn. rewrite Er, map_app, <- app_assoc. reflexivity.
    + unfold pending_rids in A. rewrite Eh, map_snd_remove, <- app_assoc in A. exact A.
    + rewrite Er. rewrite Eh, map_fst_remove in B. rewrite map_app. eapply NoDup_remove_1. exact B.
    + intros s Hs. apply C. rewrite Er in Hs. rewrite Eh, map_fst_remove. rewrite map_app in Hs.
      apply in_app_or in Hs. apply in_or_app. destruct Hs; [left|right; right]; assumption.
    + exact D.
    + unfold status_ok in *. destruct (c_status st); try exact Logic.I; [rewrite E in Ef|destruct E as [E _]; rewrite E in Ef]; discriminate.
    + intros s r0 Hin. apply F. rewrite Er in Hin. rewrite Eh. apply in_app_or in Hin. apply in_or_app.
      destruct Hin; [left|right; right]; assumption.
    + exact HG.
    + intros f0 Hf0. inversion Hf0; subst f0. split; [apply in_or_app; right; left; reflexivity|].
      apply F. rewrite Eh. apply in_or_app. right. left. reflexivity.
    + exact HR.
    + exact HF.
  - apply inv_fault. constructor; cbn; assumption.
Qed.

Lemma inv_drain fuel : forall st, Inv st -> Inv (drain fuel st).
Proof.
  induction fuel as [|k IH]; intros st HI; cbn [drain]; [exact HI|].
  destruct (is_open st); [|exact HI].
  destruct (parse_frame (c_rbuf st)) as [|e|f rest] eqn:Ep; [exact HI|apply inv_fault; exact HI|].
  apply IH. apply inv_dispatch; assumption.
Qed.

Lemma is_open_status st : is_open st = true <-> c_status st = Open.
Proof. unfold is_open. destruct (c_status st); split; intros; try discriminate; reflexivity. Qed.

Lemma open_status_ok st h q rs : is_open st = true -> status_ok (c_status st) h q rs.
Proof. intros H. apply is_open_status in H. rewrite H. exact Logic.I. Qed.

Lemma nremove_split r l : In r l -> exists l1 l2, l = l1 ++ r :: l2 /\ nremove r l = l1 ++ l2.
Proof.
  induction l as [|x t IH]; cbn [In nremove]; [tauto|].
  destruct (x =? r) eqn:E.
  - apply N.eqb_eq in E. subst x. intros _. exists [], t. split; reflexivity.
  - apply N.eqb_neq in E. intros [H|H]; [congruence|]. destruct (IH H) as (l1 & l2 & -> & E2).
    exists (x :: l1), l2. rewrite E2. split; reflexivity.
Qed.

Lemma inv_step st l st' : Inv st -> step st l = Some st' -> Inv st'.
Proof.
  intros HI Hs. pose proof HI as [A B C D E F G H I].
  destruct l as [r|r|r|so|bs| |k| |r| |]; unfold step in Hs.
  - (* Reserve *)
    destruct (nmem r (c_submitted st)) eqn:En; [discriminate|]. apply nmem_false in En.
    change (chan_closed (set_submitted (c_submitted st ++ [r]) st)) with (chan_closed st) in Hs.
    destruct (chan_closed st) eqn:Ec; injection Hs as <-.
    + apply inv_complete with (A := pending_rids st) (B := []); cbn; try assumption.
      * unfold pending_rids. cbn. rewrite app_nil_r. reflexivity.
      * exact (acct_submit _ r _ _ _ A En).
      * intros f Hf. discriminate.
    + constructor; cbn; try assumption.
      * unfold pending_rids. cbn. rewrite !app_assoc. apply acct_submit; [|assumption].
        rewrite <- !app_assoc. exact A.
      * unfold status_ok, chan_closed in *. destruct (c_status st); try exact Logic.I; discriminate.
  - (* Push *)
    destruct (nmem r (c_reserved st)) eqn:En; [|discriminate]. apply nmem_In in En. injection Hs as <-.
    destruct (nremove_split _ _ En) as (l1 & l2 & El & Er).
    constructor; cbn; try assumption.
    + unfold pending_rids in *. cbn. rewrite Er. rewrite El in A.
      (* H ++ Q ++ l1 ++ r :: l2  ~  H ++ (Q ++ [r]) ++ l1 ++ l2 *)
      eapply acct_perm; [|exact A]. apply Permutation_app_head. rewrite <- app_assoc. apply Permutation_app_head.
      cbn. symmetry. apply Permutation_middle.
    + unfold status_ok in *. destruct (c_status st); try exact Logic.I; try exact E.
      destruct E as (_ & _ & E3). rewrite E3 in En. destruct En.
  - (* KaTick *)
    destruct (nmem r (c_submitted st)) eqn:En; [discriminate|]. apply nmem_false in En.
    destruct (is_open st) eqn:Eo; cbn [negb] in Hs; [|discriminate].
    destruct (c_ka st); [discriminate|]. injection Hs as <-.
    constructor; cbn; try assumption.
    + unfold pending_rids in *. cbn. rewrite <- app_assoc. cbn.
      rewrite app_assoc. apply acct_submit_at; [|assumption]. rewrite <- app_assoc. exact A.
    + apply open_status_ok. exact Eo.
  - (* WriterTake *)
    destruct (is_open st) eqn:Eo; cbn [negb] in Hs; [|discriminate].
    destruct (c_queue st) as [|r q] eqn:Eq; [discriminate|].
    destruct so as [s|].
    + destruct ((s <? 32768) && negb (nmem s (map fst (c_handlers st))) && negb (nmem s (c_orphans st))) eqn:Ec; [|discriminate].
      apply andb_prop in Ec. destruct Ec as [Ec Ec3]. apply andb_prop in Ec. destruct Ec as [Ec1 Ec2].
      apply negb_true_iff in Ec2, Ec3. apply nmem_false in Ec2, Ec3.
      injection Hs as <-.
      constructor; cbn.
      * unfold pending_rids in *. cbn. rewrite Eq in A. rewrite map_app. cbn. rewrite <- app_assoc. exact A.
      * rewrite map_app. cbn. apply NoDup_snoc; assumption.
      * intros s0 Hs0. rewrite map_app in Hs0. apply in_app_or in Hs0. destruct Hs0 as [Hs0|[<-|[]]]; [apply C; exact Hs0|exact Ec3].
      * exact D.
      * apply open_status_ok. exact Eo.
      * intros s0 r0 Hin. apply in_app_or in Hin. apply in_or_app. destruct Hin as [Hin|[Hin|[]]]; [left; apply F; exact Hin|right; left; exact Hin].
      * intros r0 f Hin. destruct (G r0 f Hin). split; [assumption|apply in_or_app; tauto].
      * exact H.
      * exact I.
    + destruct (32768 <=? N.of_nat (List.length (c_handlers st) + List.length (c_orphans st))); [|discriminate].
      injection Hs as <-.
      apply inv_complete with (A := map snd (c_handlers st)) (B := q ++ c_reserved st); cbn; try assumption.
      * reflexivity.
      * unfold pending_rids in A. rewrite Eq in A. exact A.
      * apply open_status_ok. exact Eo.
      * intros f Hf. discriminate.
  - (* Recv *)
    destruct (is_open st) eqn:Eo; injection Hs as <-; [|exact HI].
    change (Inv (drain (S (List.length (c_rbuf st ++ bs)))
                   (set_received (c_received st ++ bs) (set_rbuf (c_rbuf st ++ bs) st)))).
    apply inv_drain. constructor; cbn; try assumption.
    rewrite H, app_assoc. reflexivity.
  - (* Eof *)
    destruct (is_open st); [injection Hs as <-|discriminate]. apply inv_fault. exact HI.
  - (* EnvFault *)
    destruct (is_open st); [injection Hs as <-|discriminate]. apply inv_fault. exact HI.
  - (* KaTimeout *)
    destruct (is_open st); [|discriminate]. destruct (c_ka st); [injection Hs as <-|discriminate]. apply inv_fault. exact HI.
  - (* Drop *)
    destruct (nmem r (c_submitted st) && negb (nmem r (map fst (c_done st))) && negb (nmem r (c_cancelled st))); [|discriminate].
    injection Hs as <-.
    constructor; cbn; try assumption.
    + unfold pending_rids. cbn. apply acct_cancel. exact A.
    + intros r0 Hin. apply in_app_or in Hin. apply in_or_app. destruct Hin as [Hin|[<-|[]]]; [left; apply D; exact Hin|right; left; reflexivity].
  - (* OrphanProc *)
    destruct (is_open st) eqn:Eo; cbn [negb] in Hs; [|discriminate].
    destruct (c_notices st) as [|r n] eqn:En; [discriminate|].
    cbn [c_handlers set_notices c_orphans] in Hs.
    destruct (find_rid r (c_handlers st)) as [s|] eqn:Ef; injection Hs as <-.
    + apply find_rid_In in Ef. destruct (remove_stream_split _ _ _ B Ef) as (h1 & h2 & Eh & Er).
      constructor; cbn.
      * unfold pending_rids in *. cbn. rewrite Er, map_app, <- app_assoc.
        rewrite Eh, map_snd_remove, <- app_assoc in A. eapply acct_orphan; [exact A|]. apply D. left. reflexivity.
      * rewrite Er. rewrite Eh, map_fst_remove in B. rewrite map_app. eapply NoDup_remove_1. exact B.
      * intros s0 Hs0 Hin. rewrite Er in Hs0. rewrite Eh, map_fst_remove in B, C.
        rewrite map_app in Hs0. apply in_app_or in Hin. destruct Hin as [Hin|[<-|[]]].
        -- eapply C; [|exact Hin]. apply in_app_or in Hs0. apply in_or_app. destruct Hs0; [left|right; right]; assumption.
        -- apply NoDup_remove_2 in B. apply B. exact Hs0.
      * intros r0 Hin. apply D. right. exact Hin.
      * apply open_status_ok. exact Eo.
      * intros s0 r0 Hin. apply F. rewrite Er in Hin. rewrite Eh. apply in_app_or in Hin. apply in_or_app.
        destruct Hin; [left|right; right]; assumption.
      * exact G.
      * exact H.
      * exact I.
    + constructor; cbn; try assumption. intros r0 Hin. apply D. right. exact Hin.
  - (* TdStep *)
    destruct (c_status st) as [|e|e|e] eqn:Es; try discriminate.
    + (* TearingDown: fail a handler, or close the channel *)
      destruct (c_handlers st) as [|[s r] h] eqn:Eh; injection Hs as <-.
      * constructor; cbn; rewrite ?Eh; try assumption.
        -- unfold pending_rids in *. cbn. rewrite Eh in *. exact A.
        -- reflexivity.
      * apply inv_complete with (A := []) (B := map snd h ++ c_queue st ++ c_reserved st); cbn.
        -- unfold pending_rids. cbn. reflexivity.
        -- unfold pending_rids in A. rewrite Eh in A. cbn in A. exact A.
        -- cbn in B. inversion B; assumption.
        -- intros s0 Hs0. apply C. cbn. right. exact Hs0.
        -- exact D.
        -- rewrite Es. exact Logic.I.
        -- intros s0 r0 Hin. apply F. right. exact Hin.
        -- exact G.
        -- intros f Hf. discriminate.
        -- exact H.
        -- exact I.
    + (* Draining: fail a delivered task, or finish *)
      cbn in E.
      destruct (c_queue st) as [|r q] eqn:Eq.
      * destruct (c_reserved st) as [|x xs] eqn:Er; [injection Hs as <-|discriminate].
        constructor; cbn; try assumption.
        repeat split; try assumption; reflexivity.
      * injection Hs as <-.
        apply inv_complete with (A := map snd (c_handlers st)) (B := q ++ c_reserved st); cbn; try assumption.
        -- reflexivity.
        -- unfold pending_rids in A. rewrite Eq in A. exact A.
        -- rewrite Es. cbn. exact E.
        -- intros f Hf. discriminate.
Qed.

Lemma inv_run ls : forall st st', Inv st -> run st ls = Some st' -> Inv st'.
Proof.
  induction ls as [|l r IH]; intros st st' HI Hr; cbn [run] in Hr.
  - injection Hr as <-. exact HI.
  - destruct (step st l) as [s1|] eqn:E; [|discriminate]. eapply IH; [|exact Hr]. eapply inv_step; eassumption.
Qed.

Lemma inv_reachable ctl st : reachable ctl st -> Inv st.
Proof. intros [ls Hr]. eapply inv_run; [apply inv_init|exact Hr]. Qed.

Lemma run_app st ls1 ls2 :
  run st (ls1 ++ ls2) = match run st ls1 with Some s => run s ls2 | None => None end.
Proof.
  revert st; induction ls1 as [|l r IH]; intros st; cbn [run app]; [reflexivity|].
  destruct (step st l); [apply IH|reflexivity].
Qed.

(* ---------- what a step can do once the connection is no longer open ---------- *)
Definition closing (e : err_kind) (st : conn) : Prop :=
  c_status st = TearingDown e \/ c_status st = Draining e \/ c_status st = Broken e.

Lemma closing_not_open e st : closing e st -> is_open st = false.
Proof. unfold is_open. intros [H|[H|H]]; rewrite H; reflexivity. Qed.

Lemma complete_closing e r o st : closing e st -> c_status (complete r o st) = c_status st.
Proof.
  intros Hc. destruct (complete_status r o st) as [H|[H _]]; [exact H|].
  destruct Hc as [H1|[H1|H1]]; rewrite H1 in H; discriminate.
Qed.

(* In a non-open state a step keeps the error, never re-opens, completes requests only with a
   BrokenConnection-class outcome and never loses one. *)
Lemma step_closing st l st' e :
  closing e st -> step st l = Some st' ->
  closing e st' /\
  (forall r o, In (r, o) (c_done st) -> In (r, o) (c_done st')) /\
  (forall r o, In (r, o) (c_done st') -> In (r, o) (c_done st) \/ broken_class o = true) /\
  (forall r, In r (pending_rids st) ->
     In r (pending_rids st') \/ exists o, In (r, o) (c_done st') /\ broken_class o = true).
Proof.
  intros Hst Hs. pose proof (closing_not_open _ _ Hst) as Hno.
  (* generic shape of "complete r o s1" where s1 differs from st in containers only *)
  assert (Hcomp : forall r o s1, c_status s1 = c_status st -> c_done s1 = c_done st -> broken_class o = true ->
            closing e (complete r o s1) /\
            (forall r0 o0, In (r0, o0) (c_done st) -> In (r0, o0) (c_done (complete r o s1))) /\
            (forall r0 o0, In (r0, o0) (c_done (complete r o s1)) -> In (r0, o0) (c_done st) \/ broken_class o0 = true) /\
            In (r, o) (c_done (complete r o s1))).
  { intros r o s1 Hs1 Hd1 Hb.
    assert (Hc1 : closing e s1) by (unfold closing in *; rewrite Hs1; exact Hst).
    destruct (complete_fields r o s1) as (_&_&_&_&_&E6&_).
    repeat split.
    - unfold closing. rewrite (complete_closing e r o s1 Hc1), Hs1. exact Hst.
    - intros r0 o0 Hin. rewrite E6, Hd1. apply in_or_app. left. exact Hin.
    - intros r0 o0 Hin. rewrite E6, Hd1 in Hin. apply in_app_or in Hin. destruct Hin as [Hin|[Hin|[]]]; [left; exact Hin|].
      inversion Hin; subst. right. exact Hb.
    - rewrite E6. apply in_or_app. right. left. reflexivity. }
  destruct l as [r|r|r|so|bs| |k| |r| |]; unfold step in Hs.
  - (* Reserve *)
    destruct (nmem r (c_submitted st)); [discriminate|].
    change (chan_closed (set_submitted (c_submitted st ++ [r]) st)) with (chan_closed st) in Hs.
    destruct (chan_closed st); injection Hs as <-.
    + set (s1 := set_submitted (c_submitted st ++ [r]) st).
      destruct (Hcomp r FailChannel s1 eq_refl eq_refl eq_refl) as (H1 & H2 & H3 & _).
      destruct (complete_fields r FailChannel s1) as (_&E2&_&E4&_&_&_&_&_&_&_&_&E13).
      repeat split; try assumption. intros r0 Hin. left. unfold pending_rids in *. rewrite E2, E4, E13. exact Hin.
    + repeat split; try (cbn; tauto).
      intros r0 Hin. left. unfold pending_rids in *. cbn. rewrite !app_assoc. apply in_or_app. left.
      rewrite <- !app_assoc. exact Hin.
  - (* Push *)
    destruct (nmem r (c_reserved st)) eqn:En; [|discriminate]. apply nmem_In in En. injection Hs as <-.
    destruct (nremove_split _ _ En) as (l1 & l2 & El & Er).
    repeat split; try (cbn; tauto).
    intros r0 Hin. left. unfold pending_rids in *. cbn. rewrite Er. rewrite El in Hin.
    apply in_app_or in Hin. apply in_or_app. destruct Hin as [Hin|Hin]; [left; exact Hin|right].
    apply in_app_or in Hin. apply in_or_app. destruct Hin as [Hin|Hin]; [left; apply in_or_app; left; exact Hin|].
    apply in_app_or in Hin. destruct Hin as [Hin|[<-|Hin]].
    + right. apply in_or_app. left. exact Hin.
    + left. apply in_or_app. right. left. reflexivity.
    + right. apply in_or_app. right. exact Hin.
  - destruct (nmem r (c_submitted st)); [discriminate|]. rewrite Hno in Hs. discriminate.
  - rewrite Hno in Hs. discriminate.
  - rewrite Hno in Hs. injection Hs as <-. repeat split; tauto.
  - rewrite Hno in Hs. discriminate.
  - rewrite Hno in Hs. discriminate.
  - rewrite Hno in Hs. discriminate.
  - destruct (nmem r (c_submitted st) && negb (nmem r (map fst (c_done st))) && negb (nmem r (c_cancelled st))); [|discriminate].
    injection Hs as <-. unfold pending_rids. cbn. repeat split; tauto.
  - rewrite Hno in Hs. discriminate.
  - (* TdStep *)
    destruct (c_status st) as [|e0|e0|e0] eqn:Es; try discriminate.
    + assert (e0 = e) by (destruct Hst as [H|[H|H]]; congruence). subst e0.
      destruct (c_handlers st) as [|[s r] h] eqn:Eh; injection Hs as <-.
      * unfold closing, pending_rids. cbn. rewrite Eh. repeat split; tauto.
      * set (s1 := set_handlers h st).
        destruct (Hcomp r (FailBroken e) s1 Es eq_refl eq_refl) as (H1 & H2 & H3 & H4).
        destruct (complete_fields r (FailBroken e) s1) as (_&E2&_&E4&_&_&_&_&_&_&_&_&E13).
        repeat split; try assumption.
        intros r0 Hin. unfold pending_rids in *. rewrite E2, E4, E13. cbn. rewrite Eh in Hin. cbn in Hin.
        destruct Hin as [<-|Hin]; [right; exists (FailBroken e); split; [exact H4|reflexivity]|left; exact Hin].
    + assert (e0 = e) by (destruct Hst as [H|[H|H]]; congruence). subst e0.
      destruct (c_queue st) as [|r q] eqn:Eq.
      * destruct (c_reserved st) as [|x xs] eqn:Er; [injection Hs as <-|discriminate].
        unfold closing, pending_rids. cbn. rewrite Eq, Er. repeat split; tauto.
      * injection Hs as <-. set (s1 := set_queue q st).
        destruct (Hcomp r (FailBroken e) s1 Es eq_refl eq_refl) as (H1 & H2 & H3 & H4).
        destruct (complete_fields r (FailBroken e) s1) as (_&E2&_&E4&_&_&_&_&_&_&_&_&E13).
        repeat split; try assumption.
        intros r0 Hin. unfold pending_rids in *. rewrite E2, E4, E13. cbn. rewrite Eq in Hin.
        apply in_app_or in Hin. destruct Hin as [Hin|[<-|Hin]].
        -- left. apply in_or_app. left. exact Hin.
        -- right. exists (FailBroken e). split; [exact H4|reflexivity].
        -- left. apply in_or_app. right. exact Hin.
Qed.

Lemma run_closing ls : forall st st' e,
  closing e st -> run st ls = Some st' ->
  closing e st' /\
  (forall r o, In (r, o) (c_done st) -> In (r, o) (c_done st')) /\
  (forall r o, In (r, o) (c_done st') -> In (r, o) (c_done st) \/ broken_class o = true) /\
  (forall r, In r (pending_rids st) ->
     In r (pending_rids st') \/ exists o, In (r, o) (c_done st') /\ broken_class o = true).
Proof.
  induction ls as [|l rest IH]; intros st st' e Hst Hr; cbn [run] in Hr.
  - injection Hr as <-. repeat split; tauto.
  - destruct (step st l) as [s1|] eqn:E; [|discriminate].
    destruct (step_closing _ _ _ _ Hst E) as (H1 & H2 & H3 & H4).
    destruct (IH _ _ _ H1 Hr) as (J1 & J2 & J3 & J4).
    repeat split; [exact J1|intros; apply J2; apply H2; assumption| |].
    + intros r o Hin. destruct (J3 r o Hin) as [Hin1|Hb]; [|right; exact Hb]. apply H3. exact Hin1.
    + intros r Hin. destruct (H4 r Hin) as [Hp|[o [Ho Hb]]].
      * apply J4. exact Hp.
      * right. exists o. split; [apply J2; exact Ho|exact Hb].
Qed.

Lemma outcome_of_In r o d : NoDup (map fst d) -> In (r, o) d -> outcome_of r d = Some o.
Proof.
  induction d as [|[r' o'] t IH]; cbn [map fst In outcome_of]; [tauto|].
  intros Hnd Hin. inversion Hnd as [|x l Hx Hl]; subst.
  destruct (r' =? r) eqn:E.
  - apply N.eqb_eq in E. subst r'. destruct Hin as [Hin|Hin]; [inversion Hin; reflexivity|].
    exfalso. apply Hx. apply (in_map fst) in Hin. exact Hin.
  - apply N.eqb_neq in E. destruct Hin as [Hin|Hin]; [inversion Hin; subst; tauto|]. apply IH; assumption.
Qed.

Lemma outcome_of_some_In r o d : outcome_of r d = Some o -> In (r, o) d.
Proof.
  induction d as [|[r' o'] t IH]; cbn [outcome_of In]; [discriminate|].
  destruct (r' =? r) eqn:E.
  - apply N.eqb_eq in E. subst. intros H. injection H as <-. left. reflexivity.
  - intros H. right. apply IH. exact H.
Qed.

Lemma outcome_of_none r d : ~ In r (map fst d) -> outcome_of r d = None.
Proof.
  induction d as [|[r' o'] t IH]; cbn [map fst In outcome_of]; intros H; [reflexivity|].
  destruct (r' =? r) eqn:E; [apply N.eqb_eq in E; tauto|]. apply IH. tauto.
Qed.

Lemma outcome_of_snoc r o d : ~ In r (map fst d) -> outcome_of r (d ++ [(r, o)]) = Some o.
Proof.
  induction d as [|[r' o'] t IH]; cbn [map fst In outcome_of app]; intros H.
  - rewrite N.eqb_refl. reflexivity.
  - destruct (r' =? r) eqn:E; [apply N.eqb_eq in E; tauto|]. apply IH. tauto.
Qed.

Lemma outcome_of_snoc_other r r' o d : r' <> r -> outcome_of r (d ++ [(r', o)]) = outcome_of r d.
Proof.
  intros Hne. induction d as [|[r1 o1] t IH]; cbn [outcome_of app].
  - destruct (r' =? r) eqn:E; [apply N.eqb_eq in E; tauto|reflexivity].
  - destruct (r1 =? r); [reflexivity|exact IH].
Qed.

(* ---------- C10_all_fail ---------- *)
Lemma all_fail ctl ls1 l ls2 st1 st2 st3 e e' :
  run (conn_init ctl) ls1 = Some st1 ->
  step st1 l = Some st2 -> c_status st2 = TearingDown e ->
  run st2 ls2 = Some st3 -> c_status st3 = Broken e' ->
  e' = e /\
  (forall r, In r (pending_rids st2) ->
     exists o, outcome_of r (c_done st3) = Some o /\ broken_class o = true) /\
  (forall r o, outcome_of r (c_done st3) = Some o -> In (r, o) (c_done st2) \/ broken_class o = true).
Proof.
  intros R1 S2 T2 R3 B3.
  assert (I2 : Inv st2). { eapply inv_step; [|exact S2]. eapply inv_run; [apply inv_init|exact R1]. }
  assert (I3 : Inv st3) by (eapply inv_run; eassumption).
  destruct (run_closing _ _ _ e (or_introl T2) R3) as (H1 & H2 & H3 & H4).
  assert (Ee : e' = e). { destruct H1 as [H1|[H1|H1]]; rewrite H1 in B3; try discriminate. injection B3 as <-. reflexivity. }
  split; [exact Ee|]. split.
  - intros r Hin. destruct (H4 r Hin) as [Hp|[o [Ho Hb]]].
    + pose proof (inv_status _ I3) as Hs. rewrite B3 in Hs. destruct Hs as (Eh & Eq & Er).
      unfold pending_rids in Hp. rewrite Eh, Eq, Er in Hp. destruct Hp.
    + exists o. split; [|exact Hb]. apply outcome_of_In; [|exact Ho]. destruct (inv_acct _ I3) as (_ & Hd & _). exact Hd.
  - intros r o Ho. apply outcome_of_some_In in Ho. apply H3. exact Ho.
Qed.

(* a request submitted after receiver.close() fails at once with ChannelError *)
Lemma later_submit_fails ctl st r st' :
  reachable ctl st -> chan_closed st = true -> step st (Reserve r) = Some st' ->
  outcome_of r (c_done st') = Some FailChannel /\ pending_rids st' = pending_rids st.
Proof.
  intros HR Hc Hs. apply inv_reachable in HR. unfold step in Hs.
  destruct (nmem r (c_submitted st)) eqn:En; [discriminate|]. apply nmem_false in En.
  change (chan_closed (set_submitted (c_submitted st ++ [r]) st)) with (chan_closed st) in Hs.
  rewrite Hc in Hs. injection Hs as <-.
  destruct (complete_fields r FailChannel (set_submitted (c_submitted st ++ [r]) st)) as (E1&E2&E3&E4&E5&E6&E7&E8&E9&E10&E11&E12&E13).
  unfold pending_rids. rewrite E2, E4, E6, E13. cbn. split; [|reflexivity].
  apply outcome_of_snoc. intros Hin. destruct (inv_acct _ HR) as (_ & _ & _ & Hds & _). apply Hds in Hin. tauto.
Qed.

(* ... and one submitted while the handlers are still being failed is accepted and then failed by the drain *)
Lemma submit_during_teardown ctl st e r st' :
  reachable ctl st -> c_status st = TearingDown e -> step st (Reserve r) = Some st' ->
  c_status st' = TearingDown e /\ In r (pending_rids st').
Proof.
  intros HR Hc Hs. unfold step in Hs.
  destruct (nmem r (c_submitted st)) eqn:En; [discriminate|].
  change (chan_closed (set_submitted (c_submitted st ++ [r]) st)) with (chan_closed st) in Hs.
  unfold chan_closed in Hs. rewrite Hc in Hs. injection Hs as <-. cbn. split; [exact Hc|].
  unfold pending_rids. cbn. rewrite !app_assoc. apply in_or_app. right. left. reflexivity.
Qed.

(* ---------- the teardown terminates ---------- *)
Lemma td_next_progress st e : Inv st -> c_status st = TearingDown e \/ c_status st = Draining e ->
  exists st', td_next st = Some st' /\ (td_measure st' < td_measure st)%nat /\
    (c_status st' = TearingDown e \/ c_status st' = Draining e \/
     (c_status st' = Broken e /\ pending_rids st' = [] /\ c_err_sent st' = true)).
Proof.
  intros HI Hst. unfold td_next, step.
  assert (Hc : forall r o s1, closing e s1 -> c_status (complete r o s1) = c_status s1).
  { intros. apply complete_closing with (e := e). assumption. }
  destruct Hst as [Hst|Hst]; rewrite Hst.
  - destruct (c_handlers st) as [|[s r] h] eqn:Eh.
    + eexists. split; [reflexivity|]. unfold td_measure. cbn. rewrite Hst, Eh. cbn. split; [lia|]. right. left. reflexivity.
    + eexists. split; [reflexivity|].
      destruct (complete_fields r (FailBroken e) (set_handlers h st)) as (E1&E2&E3&E4&E5&E6&E7&E8&E9&E10&E11&E12&E13).
      assert (Hs1 : c_status (complete r (FailBroken e) (set_handlers h st)) = TearingDown e).
      { rewrite Hc; [exact Hst|left; exact Hst]. }
      unfold td_measure. rewrite Hs1, Hst, E2, E4, E13. cbn. rewrite Eh. cbn. split; [lia|]. left. reflexivity.
  - pose proof (inv_status _ HI) as Hok. rewrite Hst in Hok. cbn in Hok.
    destruct (c_queue st) as [|r q] eqn:Eq.
    + destruct (c_reserved st) as [|x xs] eqn:Er.
      * eexists. split; [reflexivity|]. unfold td_measure, pending_rids. cbn. rewrite Hst, Eq, Er, Hok. cbn.
        split; [lia|]. right. right. repeat split; reflexivity.
      * (* the router waits in recv(): the sender that holds a slot pushes *)
        cbn [nmem existsb]. rewrite N.eqb_refl. cbn [orb]. eexists. split; [reflexivity|].
        unfold td_measure. cbn. rewrite Hst, Eq. cbn [nremove]. rewrite N.eqb_refl. cbn. rewrite ?Er. cbn.
        split; [lia|]. right. left. reflexivity.
    + eexists. split; [reflexivity|].
      destruct (complete_fields r (FailBroken e) (set_queue q st)) as (E1&E2&E3&E4&E5&E6&E7&E8&E9&E10&E11&E12&E13).
      assert (Hs1 : c_status (complete r (FailBroken e) (set_queue q st)) = Draining e).
      { rewrite Hc; [exact Hst|right; left; exact Hst]. }
      unfold td_measure. rewrite Hs1, Hst, E4, E13. cbn. rewrite Eq. cbn. split; [lia|]. right. left. reflexivity.
Qed.

Lemma td_next_step st st' : td_next st = Some st' ->
  step st TdStep = Some st' \/ exists r, step st (Push r) = Some st'.
Proof.
  unfold td_next. destruct (step st TdStep) as [s|]; [intros H; left; exact H|].
  destruct (c_reserved st) as [|r rs]; [discriminate|]. intros H. right. exists r. exact H.
Qed.

Lemma td_next_inv st st' : Inv st -> td_next st = Some st' -> Inv st'.
Proof. intros HI H. destruct (td_next_step _ _ H) as [Hs|[r Hs]]; eapply inv_step; eassumption. Qed.

Lemma td_terminates n : forall st e, Inv st ->
  c_status st = TearingDown e \/ c_status st = Draining e -> (td_measure st <= n)%nat ->
  c_status (teardown n st) = Broken e /\ pending_rids (teardown n st) = [] /\ c_err_sent (teardown n st) = true.
Proof.
  induction n as [|k IH]; intros st e HI Hst Hm.
  - exfalso. unfold td_measure in Hm. destruct Hst as [H|H]; rewrite H in Hm; lia.
  - destruct (td_next_progress _ _ HI Hst) as (s1 & S1 & Hlt & Hcase). cbn [teardown]. rewrite S1.
    destruct Hcase as [H1|[H1|(H1 & H2 & H3)]].
    + apply IH; [eapply td_next_inv; eassumption|left; exact H1|lia].
    + apply IH; [eapply td_next_inv; eassumption|right; exact H1|lia].
    + assert (Hfix : teardown k s1 = s1).
      { destruct k; cbn [teardown]; [reflexivity|]. unfold td_next, step. rewrite H1.
        assert (Er : c_reserved s1 = []).
        { unfold pending_rids in H2. apply app_eq_nil in H2. destruct H2 as [_ H2]. apply app_eq_nil in H2. tauto. }
        rewrite Er. reflexivity. }
      rewrite Hfix. repeat split; assumption.
Qed.

Lemma teardown_run fuel : forall st, exists ls, run st ls = Some (teardown fuel st) /\
  Forall (fun l => l = TdStep \/ exists r, l = Push r) ls /\ (List.length ls <= fuel)%nat.
Proof.
  induction fuel as [|k IH]; intros st; cbn [teardown].
  - exists []. repeat split; [constructor|cbn; lia].
  - destruct (td_next st) as [s1|] eqn:E.
    + destruct (IH s1) as (ls & H & HF & HL). destruct (td_next_step _ _ E) as [Hs|[r Hs]].
      * exists (TdStep :: ls). cbn [run]. rewrite Hs. repeat split; [exact H|constructor; [left; reflexivity|exact HF]|cbn; lia].
      * exists (Push r :: ls). cbn [run]. rewrite Hs. repeat split; [exact H|constructor; [right; exists r; reflexivity|exact HF]|cbn; lia].
    + exists []. repeat split; [constructor|cbn; lia].
Qed.

(* in Draining no step makes the remaining work grow *)
Lemma draining_monotone st l st' e : c_status st = Draining e -> step st l = Some st' ->
  (td_measure st' <= td_measure st)%nat.
Proof.
  intros Hst Hs.
  assert (Hno : is_open st = false) by (unfold is_open; rewrite Hst; reflexivity).
  assert (Hcl : closing e st) by (right; left; exact Hst).
  destruct l as [r|r|r|so|bs| |k| |r| |]; unfold step in Hs.
  - destruct (nmem r (c_submitted st)); [discriminate|].
    change (chan_closed (set_submitted (c_submitted st ++ [r]) st)) with (chan_closed st) in Hs.
    unfold chan_closed in Hs. rewrite Hst in Hs. injection Hs as <-.
    set (s1 := set_submitted (c_submitted st ++ [r]) st).
    destruct (complete_fields r FailChannel s1) as (_&E2&_&E4&_&_&_&_&_&_&_&_&E13).
    unfold td_measure. rewrite (complete_closing e r FailChannel s1) by exact Hcl. cbn. rewrite Hst, E4, E13. cbn. lia.
  - destruct (nmem r (c_reserved st)) eqn:En; [|discriminate]. apply nmem_In in En. injection Hs as <-.
    destruct (nremove_split _ _ En) as (l1 & l2 & El & Er).
    unfold td_measure. cbn. rewrite Hst, Er, El, !app_length. cbn. lia.
  - destruct (nmem r (c_submitted st)); [discriminate|]. rewrite Hno in Hs. discriminate.
  - rewrite Hno in Hs. discriminate.
  - rewrite Hno in Hs. injection Hs as <-. lia.
  - rewrite Hno in Hs. discriminate.
  - rewrite Hno in Hs. discriminate.
  - rewrite Hno in Hs. discriminate.
  - destruct (nmem r (c_submitted st) && negb (nmem r (map fst (c_done st))) && negb (nmem r (c_cancelled st))); [|discriminate].
    injection Hs as <-. unfold td_measure. cbn. lia.
  - rewrite Hno in Hs. discriminate.
  - rewrite Hst in Hs. destruct (c_queue st) as [|r q] eqn:Eq.
    + destruct (c_reserved st) as [|x xs] eqn:Er; [injection Hs as <-|discriminate]. unfold td_measure. cbn. lia.
    + injection Hs as <-. set (s1 := set_queue q st).
      destruct (complete_fields r (FailBroken e) s1) as (_&E2&_&E4&_&_&_&_&_&_&_&_&E13).
      unfold td_measure. rewrite (complete_closing e r (FailBroken e) s1) by exact Hcl. cbn. rewrite Hst, E4, E13, Eq. cbn. lia.
Qed.

(* ---------- nothing is left behind ---------- *)
Lemma none_left ctl st e r :
  reachable ctl st -> c_status st = Broken e -> In r (c_submitted st) ->
  (exists o, outcome_of r (c_done st) = Some o) \/ In r (c_cancelled st).
Proof.
  intros HR HB Hin. apply inv_reachable in HR. destruct (inv_acct _ HR) as (_ & Hd & _ & _ & Hs).
  pose proof (inv_status _ HR) as Hok. rewrite HB in Hok. destruct Hok as (Eh & Eq & Er).
  destruct (Hs r Hin) as [H|[H|H]]; [|unfold pending_rids in H; rewrite Eh, Eq, Er in H; destruct H|right; exact H].
  left. apply in_map_iff in H. destruct H as [[r' o] [E Ho]]. cbn in E. subst r'.
  exists o. apply outcome_of_In; assumption.
Qed.

(* ---------- no partial frame, no cross delivery ---------- *)
Lemma concat_split (cs1 cs2 : list frame) f :
  concat (map f_raw (cs1 ++ f :: cs2)) = concat (map f_raw cs1) ++ f_raw f ++ concat (map f_raw cs2).
Proof. rewrite map_app, concat_app. cbn. reflexivity. Qed.

Lemma no_partial ctl st r f :
  reachable ctl st -> In (r, Resp f) (c_done st) ->
  frame_ok f /\ exists pre post, c_received st = pre ++ f_raw f ++ post.
Proof.
  intros HR Hin. apply inv_reachable in HR. destruct (inv_resp _ HR _ _ Hin) as [Hc _].
  split.
  - pose proof (inv_frames _ HR) as HF. rewrite Forall_forall in HF. apply HF. exact Hc.
  - apply in_split in Hc. destruct Hc as (c1 & c2 & Ec). rewrite (inv_recv _ HR), Ec, concat_split.
    exists (concat (map f_raw c1)), (concat (map f_raw c2) ++ c_rbuf st). rewrite <- !app_assoc. reflexivity.
Qed.

Lemma no_cross ctl st r f :
  reachable ctl st -> In (r, Resp f) (c_done st) -> In (f_stream f, r) (c_written st).
Proof. intros HR Hin. apply inv_reachable in HR. destruct (inv_resp _ HR _ _ Hin) as [_ Hw]. exact Hw. Qed.

Lemma streams_unique ctl st :
  reachable ctl st ->
  NoDup (map fst (c_handlers st)) /\ NoDup (pending_rids st) /\ NoDup (map fst (c_done st)) /\
  (forall s r, In (s, r) (c_handlers st) -> In (s, r) (c_written st)).
Proof.
  intros HR. apply inv_reachable in HR. destruct (inv_acct _ HR) as (Hp & Hd & _).
  repeat split; [apply (inv_streams _ HR)|exact Hp|exact Hd|apply (inv_written _ HR)].
Qed.

(* ---------- the reader consumes every complete frame it has ---------- *)
Lemma dispatch_rbuf f st : c_rbuf (dispatch f st) = c_rbuf st.
Proof.
  unfold dispatch. cbn [c_consumed set_consumed c_control c_events c_orphans c_handlers].
  destruct (32768 <=? f_stream f).
  - destruct (f_stream f =? 65535); [destruct (c_control st); [destruct (f_opcode f =? 12)|]|]; cbn; try reflexivity.
    destruct (fault_fields (EEnv 3) (set_consumed (c_consumed st ++ [f]) st)) as (E1 & _). exact E1.
  - destruct (nmem (f_stream f) (c_orphans st)); [reflexivity|].
    destruct (find_stream (f_stream f) (c_handlers st)) as [r|].
    + match goal with |- c_rbuf (complete ?r ?o ?s) = _ => destruct (complete_fields r o s) as (E1 & _); rewrite E1 end. reflexivity.
    + match goal with |- c_rbuf (fault ?e ?s) = _ => destruct (fault_fields e s) as (E1 & _); rewrite E1 end. reflexivity.
Qed.

Lemma drain_complete fuel : forall st, (List.length (c_rbuf st) < fuel)%nat ->
  is_open (drain fuel st) = true -> parse_frame (c_rbuf (drain fuel st)) = NeedMore.
Proof.
  induction fuel as [|k IH]; intros st Hlen Ho; [lia|]. cbn [drain] in *.
  destruct (is_open st) eqn:Eo; [|rewrite Eo in Ho; discriminate].
  destruct (parse_frame (c_rbuf st)) as [|e|f rest] eqn:Ep.
  - exact Ep.
  - exfalso. unfold is_open in Ho, Eo. rewrite fault_status in Ho. destruct (c_status st); discriminate.
  - apply IH; [|exact Ho]. rewrite dispatch_rbuf. cbn. apply parse_frame_got_len in Ep. lia.
Qed.

(* ---------- the pool ---------- *)
Record PInv (p : pool) : Prop := mk_PInv {
  pi_shared : p_shared p = p_conns p;
  pi_events : forall c, In c (p_events p) -> In c (p_broken p);
  pi_broken : forall c, In c (p_broken p) -> In c (p_seen p);
  pi_conns : forall c, In c (p_conns p) -> In c (p_seen p);
  pi_key : forall c, In c (p_broken p) -> In c (p_events p) \/ ~ In c (p_conns p)
}.

Lemma pinv_init : PInv pool_init.
Proof. constructor; cbn; tauto. Qed.

Lemma pinv_step p l p' : PInv p -> pstep p l = Some p' -> PInv p'.
Proof.
  intros [A B C D E] Hs. destruct l as [c|c|c|c]; unfold pstep in Hs.
  - destruct (nmem c (p_seen p)) eqn:En; [discriminate|]. apply nmem_false in En. injection Hs as <-.
    constructor; cbn.
    + reflexivity.
    + exact B.
    + intros x Hx. apply in_or_app. left. apply C. exact Hx.
    + intros x Hx. apply in_app_or in Hx. apply in_or_app. destruct Hx as [Hx|[<-|[]]]; [left; apply D; exact Hx|right; left; reflexivity].
    + intros x Hx. destruct (E x Hx) as [H|H]; [left; exact H|]. right. intros Hin. apply in_app_or in Hin.
      destruct Hin as [Hin|[<-|[]]]; [tauto|]. apply En. apply C. exact Hx.
  - destruct (nmem c (p_seen p) && negb (nmem c (p_broken p))) eqn:Ec; [|discriminate].
    apply andb_prop in Ec. destruct Ec as [E1 E2]. apply nmem_In in E1. injection Hs as <-.
    constructor; cbn.
    + exact A.
    + intros x Hx. apply in_app_or in Hx. apply in_or_app. destruct Hx as [Hx|[<-|[]]]; [left; apply B; exact Hx|right; left; reflexivity].
    + intros x Hx. apply in_app_or in Hx. destruct Hx as [Hx|[<-|[]]]; [apply C; exact Hx|exact E1].
    + exact D.
    + intros x Hx. apply in_app_or in Hx. destruct Hx as [Hx|[<-|[]]].
      * destruct (E x Hx) as [H|H]; [left; apply in_or_app; left; exact H|right; exact H].
      * left. apply in_or_app. right. left. reflexivity.
  - destruct (nmem c (p_events p)) eqn:Ee; [|discriminate]. injection Hs as <-.
    constructor; cbn.
    + reflexivity.
    + intros x Hx. apply filter_In in Hx. apply B. tauto.
    + exact C.
    + intros x Hx. apply filter_In in Hx. apply D. tauto.
    + intros x Hx. destruct (N.eq_dec x c) as [->|Hne].
      * right. intros Hin. apply filter_In in Hin. destruct Hin as [_ Hin]. rewrite N.eqb_refl in Hin. discriminate.
      * destruct (E x Hx) as [H|H].
        -- left. apply filter_In. split; [exact H|]. apply negb_true_iff. apply N.eqb_neq. exact Hne.
        -- right. intros Hin. apply filter_In in Hin. tauto.
  - destruct (nmem c (p_shared p)); [|discriminate]. injection Hs as <-. constructor; assumption.
Qed.

Lemma pinv_run ls : forall p p', PInv p -> prun p ls = Some p' -> PInv p'.
Proof.
  induction ls as [|l r IH]; intros p p' HI Hr; cbn [prun] in Hr.
  - injection Hr as <-. exact HI.
  - destruct (pstep p l) as [p1|] eqn:E; [|discriminate]. eapply IH; [|exact Hr]. eapply pinv_step; eassumption.
Qed.

(* a connection that broke is handed out only while its error event is still unprocessed *)
Lemma pool_safe ls p c :
  prun pool_init ls = Some p -> In c (p_shared p) -> In c (p_broken p) -> In c (p_events p).
Proof.
  intros Hr Hs Hb. pose proof (pinv_run _ _ _ pinv_init Hr) as [A B C D E].
  rewrite A in Hs. destruct (E c Hb) as [H|H]; [exact H|tauto].
Qed.

(* ... and once the event is processed it is never handed out again *)
Lemma pool_never_again ls1 ls2 p1 p2 c :
  prun pool_init ls1 = Some p1 -> In c (p_broken p1) -> ~ In c (p_events p1) ->
  prun p1 ls2 = Some p2 -> ~ In c (p_shared p2).
Proof.
  intros R1 Hb He R2.
  assert (I1 : PInv p1) by (eapply pinv_run; [apply pinv_init|exact R1]).
  assert (G : forall ls p p', PInv p -> In c (p_broken p) -> ~ In c (p_events p) -> prun p ls = Some p' ->
              PInv p' /\ In c (p_broken p') /\ ~ In c (p_events p')).
  { induction ls as [|l r IH]; intros p p' HI Hb0 He0 Hr; cbn [prun] in Hr.
    - injection Hr as <-. tauto.
    - destruct (pstep p l) as [q|] eqn:Eq; [|discriminate].
      assert (HIq : PInv q) by (eapply pinv_step; eassumption).
      apply (IH q p' HIq); [| |exact Hr].
      + destruct l as [x|x|x|x]; unfold pstep in Eq.
        * destruct (nmem x (p_seen p)); [discriminate|]. injection Eq as <-. exact Hb0.
        * destruct (nmem x (p_seen p) && negb (nmem x (p_broken p))); [|discriminate]. injection Eq as <-. cbn. apply in_or_app. left. exact Hb0.
        * destruct (nmem x (p_events p)); [|discriminate]. injection Eq as <-. exact Hb0.
        * destruct (nmem x (p_shared p)); [|discriminate]. injection Eq as <-. exact Hb0.
      + destruct l as [x|x|x|x]; unfold pstep in Eq.
        * destruct (nmem x (p_seen p)); [discriminate|]. injection Eq as <-. exact He0.
        * destruct (nmem x (p_seen p) && negb (nmem x (p_broken p))) eqn:Ec; [|discriminate]. injection Eq as <-. cbn.
          apply andb_prop in Ec. destruct Ec as [_ E2]. apply negb_true_iff in E2. apply nmem_false in E2.
          intros Hin. apply in_app_or in Hin. destruct Hin as [Hin|[<-|[]]]; tauto.
        * destruct (nmem x (p_events p)); [|discriminate]. injection Eq as <-. cbn. intros Hin. apply filter_In in Hin. tauto.
        * destruct (nmem x (p_shared p)); [|discriminate]. injection Eq as <-. exact He0. }
  destruct (G ls2 p1 p2 I1 Hb He R2) as ([A B C D E] & Hb2 & He2).
  rewrite A. destruct (E c Hb2) as [H|H]; tauto.
Qed.

(* ---------- the trace acceptor runs the model on a real schedule ---------- *)
Lemma run_lenient_run ls : forall st, exists ls', run st ls' = Some (run_lenient st ls).
Proof.
  induction ls as [|l r IH]; intros st; cbn [run_lenient].
  - exists []. reflexivity.
  - destruct (step st l) as [s1|] eqn:E.
    + destruct (IH s1) as [ls' H]. exists (l :: ls'). cbn [run]. rewrite E. exact H.
    + apply IH.
Qed.

Lemma simulate_reachable keep t : reachable false (simulate keep t).
Proof.
  unfold simulate, reachable.
  destruct (run_lenient_run (labels_of keep t) (conn_init false)) as [l1 H1].
  destruct (teardown_run (td_measure (run_lenient (conn_init false) (labels_of keep t)))
                         (run_lenient (conn_init false) (labels_of keep t))) as (l2 & H2 & _).
  exists (l1 ++ l2). rewrite run_app, H1. exact H2.
Qed.

(* after [simulate] the connection is either still open or completely torn down *)
Lemma simulate_settled keep t :
  c_status (simulate keep t) = Open \/
  exists e, c_status (simulate keep t) = Broken e /\ pending_rids (simulate keep t) = [].
Proof.
  unfold simulate. set (st := run_lenient (conn_init false) (labels_of keep t)).
  assert (HI : Inv st).
  { destruct (run_lenient_run (labels_of keep t) (conn_init false)) as [l1 H1]. eapply inv_run; [apply inv_init|exact H1]. }
  destruct (c_status st) as [|e|e|e] eqn:Es.
  - left. unfold td_measure. rewrite Es. cbn. exact Es.
  - right. exists e. destruct (td_terminates (td_measure st) st e HI (or_introl Es) (le_n _)) as (B & P & _). tauto.
  - right. exists e. destruct (td_terminates (td_measure st) st e HI (or_intror Es) (le_n _)) as (B & P & _). tauto.
  - right. exists e. unfold td_measure. rewrite Es. cbn. split; [exact Es|].
    pose proof (inv_status _ HI) as Hok. rewrite Es in Hok. destruct Hok as (Eh & Eq & Er).
    unfold pending_rids. rewrite Eh, Eq, Er. reflexivity.
Qed.

(* the peer can cut after any chunk *)
Lemma cut_anywhere st bs : c_status st = Open ->
  exists st1, step st (Recv bs) = Some st1 /\
    (c_status st1 <> Open \/
     exists st2 e, step st1 Eof = Some st2 /\ c_status st2 = TearingDown e /\ (e = EHeaderIo \/ e = EClosedInBody)).
Proof.
  intros Ho. apply is_open_status in Ho. unfold step at 1. rewrite Ho. eexists. split; [reflexivity|].
  match goal with |- c_status ?s <> Open \/ _ => set (s1 := s) end.
  destruct (c_status s1) eqn:Es; [|left; discriminate|left; discriminate|left; discriminate].
  right. unfold step. assert (Ho1 : is_open s1 = true) by (apply is_open_status; exact Es). rewrite Ho1.
  eexists. eexists. split; [reflexivity|]. rewrite fault_status, Es.
  split; [reflexivity|]. destruct (List.length (c_rbuf s1) <? 9)%nat; tauto.
Qed.

Lemma step_submitted_mono st l st' r : step st l = Some st' -> In r (c_submitted st) -> In r (c_submitted st').
Proof.
  intros Hs Hin.
  assert (Hd : forall n s, In r (c_submitted s) -> In r (c_submitted (drain n s))).
  { induction n as [|k IH]; intros s Hr; cbn [drain]; [exact Hr|].
    destruct (is_open s); [|exact Hr]. destruct (parse_frame (c_rbuf s)) as [|e|f rest]; [exact Hr| |].
    - destruct (fault_fields (EHeader e) s) as (_&_&_&_&_&_&E7&_). rewrite E7. exact Hr.
    - apply IH. unfold dispatch. cbn [c_consumed set_consumed c_control c_events c_orphans c_handlers set_rbuf].
      destruct (32768 <=? f_stream f).
      + destruct (f_stream f =? 65535); [destruct (c_control s); [destruct (f_opcode f =? 12)|]|]; cbn; try exact Hr.
        match goal with |- In r (c_submitted (fault ?e ?x)) => destruct (fault_fields e x) as (_&_&_&_&_&_&E7&_); rewrite E7 end. exact Hr.
      + destruct (nmem (f_stream f) (c_orphans s)); [exact Hr|].
        destruct (find_stream (f_stream f) (c_handlers s)).
        * match goal with |- In r (c_submitted (complete ?a ?b ?x)) => destruct (complete_fields a b x) as (_&_&_&_&_&_&E7&_); rewrite E7 end. exact Hr.
        * match goal with |- In r (c_submitted (fault ?e ?x)) => destruct (fault_fields e x) as (_&_&_&_&_&_&E7&_); rewrite E7 end. exact Hr. }
  assert (Hc : forall a b x, In r (c_submitted x) -> In r (c_submitted (complete a b x))).
  { intros a b x Hx. destruct (complete_fields a b x) as (_&_&_&_&_&_&E7&_). rewrite E7. exact Hx. }
  assert (Hf : forall e x, In r (c_submitted x) -> In r (c_submitted (fault e x))).
  { intros e x Hx. destruct (fault_fields e x) as (_&_&_&_&_&_&E7&_). rewrite E7. exact Hx. }
  destruct l as [r0|r0|r0|so|bs| |k| |r0| |]; unfold step in Hs.
  - destruct (nmem r0 (c_submitted st)); [discriminate|].
    change (chan_closed (set_submitted (c_submitted st ++ [r0]) st)) with (chan_closed st) in Hs.
    destruct (chan_closed st); injection Hs as <-; [apply Hc|]; cbn; apply in_or_app; left; exact Hin.
  - destruct (nmem r0 (c_reserved st)); [|discriminate]. injection Hs as <-. exact Hin.
  - destruct (nmem r0 (c_submitted st)); [discriminate|]. destruct (is_open st); [|discriminate].
    destruct (c_ka st); [discriminate|]. injection Hs as <-. cbn. apply in_or_app; left; exact Hin.
  - destruct (is_open st); [|discriminate]. destruct (c_queue st) as [|x q]; [discriminate|]. destruct so as [s|].
    + destruct ((s <? 32768) && negb (nmem s (map fst (c_handlers st))) && negb (nmem s (c_orphans st))); [|discriminate].
      injection Hs as <-. exact Hin.
    + destruct (32768 <=? N.of_nat (List.length (c_handlers st) + List.length (c_orphans st))); [|discriminate].
      injection Hs as <-. apply Hc. exact Hin.
  - destruct (is_open st); injection Hs as <-; [|exact Hin].
    change (In r (c_submitted (drain (S (List.length (c_rbuf st ++ bs)))
                   (set_received (c_received st ++ bs) (set_rbuf (c_rbuf st ++ bs) st))))).
    apply Hd. exact Hin.
  - destruct (is_open st); [injection Hs as <-|discriminate]. apply Hf. exact Hin.
  - destruct (is_open st); [injection Hs as <-|discriminate]. apply Hf. exact Hin.
  - destruct (is_open st); [|discriminate]. destruct (c_ka st); [injection Hs as <-|discriminate]. apply Hf. exact Hin.
  - destruct (nmem r0 (c_submitted st) && negb (nmem r0 (map fst (c_done st))) && negb (nmem r0 (c_cancelled st))); [|discriminate].
    injection Hs as <-. exact Hin.
  - destruct (is_open st); [|discriminate]. destruct (c_notices st) as [|x n]; [discriminate|].
    cbn [c_handlers set_notices c_orphans] in Hs. destruct (find_rid x (c_handlers st)); injection Hs as <-; exact Hin.
  - destruct (c_status st) as [|e|e|e]; try discriminate.
    + destruct (c_handlers st) as [|[s x] h]; injection Hs as <-; [exact Hin|apply Hc; exact Hin].
    + destruct (c_queue st) as [|x q].
      * destruct (c_reserved st); [injection Hs as <-|discriminate]. exact Hin.
      * injection Hs as <-. apply Hc. exact Hin.
Qed.

Lemma run_submitted_mono ls : forall st st' r, run st ls = Some st' -> In r (c_submitted st) -> In r (c_submitted st').
Proof.
  induction ls as [|l rest IH]; intros st st' r Hr Hin; cbn [run] in Hr.
  - injection Hr as <-. exact Hin.
  - destruct (step st l) as [s1|] eqn:E; [|discriminate]. eapply IH; [exact Hr|]. eapply step_submitted_mono; eassumption.
Qed.

(* top-level corollary: whatever happened before, once any step has put the connection into
   teardown, finishing the teardown (router steps, and pushes of senders that hold a slot)
   completes every request ever submitted, within [td_measure] steps *)
Lemma fault_completes_all ctl ls l st st2 e :
  run (conn_init ctl) ls = Some st -> step st l = Some st2 -> c_status st2 = TearingDown e ->
  exists fin st3, run st2 fin = Some st3 /\ Forall (fun l => l = TdStep \/ exists r, l = Push r) fin /\
    (List.length fin <= td_measure st2)%nat /\
    c_status st3 = Broken e /\ c_err_sent st3 = true /\
    forall r, In r (c_submitted st2) ->
      (exists o, outcome_of r (c_done st3) = Some o) \/ In r (c_cancelled st3).
Proof.
  intros R Hst T.
  assert (I2 : Inv st2). { eapply inv_step; [|exact Hst]. eapply inv_run; [apply inv_init|exact R]. }
  destruct (td_terminates (td_measure st2) st2 e I2 (or_introl T) (le_n _)) as (B3 & P3 & E3).
  destruct (teardown_run (td_measure st2) st2) as (fin & R3 & HF & HL).
  exists fin, (teardown (td_measure st2) st2). repeat split; try assumption.
  intros r Hin.
  assert (HR : reachable ctl (teardown (td_measure st2) st2)).
  { exists (ls ++ l :: fin). rewrite run_app, R. cbn [run]. rewrite Hst. exact R3. }
  apply (none_left ctl _ e r HR B3). eapply run_submitted_mono; eassumption.
Qed.

(* ---------- what the fix of /repo bbe7c96 repaired ---------- *)
(* On a broken connection nothing ever takes a task out of the queue again. *)
Lemma broken_stuck st l st' e r :
  c_status st = Broken e -> In r (c_queue st) -> In r (c_submitted st) -> outcome_of r (c_done st) = None ->
  step st l = Some st' ->
  c_status st' = Broken e /\ In r (c_queue st') /\ In r (c_submitted st') /\ outcome_of r (c_done st') = None.
Proof.
  intros Hst Hq Hsub Ho Hs.
  assert (Hno : is_open st = false) by (unfold is_open; rewrite Hst; reflexivity).
  assert (Hcl : closing e st) by (right; right; exact Hst).
  destruct l as [r0|r0|r0|so|bs| |k| |r0| |]; unfold step in Hs.
  - destruct (nmem r0 (c_submitted st)) eqn:En; [discriminate|]. apply nmem_false in En.
    change (chan_closed (set_submitted (c_submitted st ++ [r0]) st)) with (chan_closed st) in Hs.
    unfold chan_closed in Hs. rewrite Hst in Hs. injection Hs as <-.
    set (s1 := set_submitted (c_submitted st ++ [r0]) st).
    destruct (complete_fields r0 FailChannel s1) as (_&_&_&E4&_&E6&E7&_).
    rewrite (complete_closing e r0 FailChannel s1) by exact Hcl. rewrite E4, E6, E7. cbn.
    repeat split; [exact Hst|exact Hq|apply in_or_app; left; exact Hsub|].
    rewrite outcome_of_snoc_other; [exact Ho|]. intros ->. tauto.
  - destruct (nmem r0 (c_reserved st)); [|discriminate]. injection Hs as <-. cbn.
    repeat split; [exact Hst|apply in_or_app; left; exact Hq|exact Hsub|exact Ho].
  - destruct (nmem r0 (c_submitted st)); [discriminate|]. rewrite Hno in Hs. discriminate.
  - rewrite Hno in Hs. discriminate.
  - rewrite Hno in Hs. injection Hs as <-. tauto.
  - rewrite Hno in Hs. discriminate.
  - rewrite Hno in Hs. discriminate.
  - rewrite Hno in Hs. discriminate.
  - destruct (nmem r0 (c_submitted st) && negb (nmem r0 (map fst (c_done st))) && negb (nmem r0 (c_cancelled st))); [|discriminate].
    injection Hs as <-. cbn. tauto.
  - rewrite Hno in Hs. discriminate.
  - rewrite Hst in Hs. discriminate.
Qed.

Lemma broken_stuck_run ls : forall st st' e r,
  c_status st = Broken e -> In r (c_queue st) -> In r (c_submitted st) -> outcome_of r (c_done st) = None ->
  run st ls = Some st' -> In r (c_queue st') /\ outcome_of r (c_done st') = None.
Proof.
  induction ls as [|l rest IH]; intros st st' e r H1 H2 H3 H4 Hr; cbn [run] in Hr.
  - injection Hr as <-. tauto.
  - destruct (step st l) as [s1|] eqn:E; [|discriminate].
    destruct (broken_stuck _ _ _ _ _ H1 H2 H3 H4 E) as (J1 & J2 & J3 & J4). eapply IH; eassumption.
Qed.

(* With the router as it was before the fix a sender that holds a slot when the router ends is
   stranded for ever: reachable state, old teardown, the push, and then no schedule whatsoever
   completes the request. *)
Definition strand_st0 : conn :=
  run_lenient (conn_init false) [Reserve 1; Push 1; WriterTake (Some 0); Reserve 2].
Definition strand_st1 : conn := old_finish EHeaderIo strand_st0.
Definition strand_st2 : conn := run_lenient strand_st1 [Push 2].

Lemma pre_fix_router_strands :
  exists st r, reachable false st /\ c_status st = Open /\ c_reserved st = [r] /\
    let st1 := old_finish EHeaderIo st in
    c_status st1 = Broken EHeaderIo /\ c_err_sent st1 = true /\
    exists st2, step st1 (Push r) = Some st2 /\
      forall ls st3, run st2 ls = Some st3 -> In r (c_queue st3) /\ outcome_of r (c_done st3) = None.
Proof.
  exists strand_st0, 2.
  split; [exists [Reserve 1; Push 1; WriterTake (Some 0); Reserve 2]; vm_compute; reflexivity|].
  split; [vm_compute; reflexivity|]. split; [vm_compute; reflexivity|].
  change (old_finish EHeaderIo strand_st0) with strand_st1. cbv zeta.
  split; [vm_compute; reflexivity|]. split; [vm_compute; reflexivity|].
  exists strand_st2. split; [vm_compute; reflexivity|].
  intros ls st3 Hr.
  apply (broken_stuck_run ls strand_st2 st3 EHeaderIo 2); [vm_compute; reflexivity|vm_compute; tauto|vm_compute; tauto|vm_compute; reflexivity|exact Hr].
Qed.

(* ... while the router as it is now fails exactly that request *)
Lemma post_fix_router_completes :
  match run (conn_init false) [Reserve 1; Push 1; WriterTake (Some 0); Reserve 2; Eof; TdStep; TdStep] with
  | Some st => c_status st = Draining EHeaderIo /\ step st TdStep = None /\
      match run st [Push 2; TdStep; TdStep] with
      | Some st' => c_status st' = Broken EHeaderIo /\ outcome_of 2 (c_done st') = Some (FailBroken EHeaderIo) /\
                    outcome_of 1 (c_done st') = Some (FailBroken EHeaderIo)
      | None => False
      end
  | None => False
  end.
Proof. vm_compute. repeat split; reflexivity. Qed.

Lemma accounting ctl st : reachable ctl st ->
  Acct (pending_rids st) (c_done st) (c_submitted st) (c_cancelled st).
Proof. intros H. exact (inv_acct _ (inv_reachable _ _ H)). Qed.

Lemma td_progress_reachable ctl st e : reachable ctl st ->
  c_status st = TearingDown e \/ c_status st = Draining e ->
  exists st', td_next st = Some st' /\ (td_measure st' < td_measure st)%nat /\
    (c_status st' = TearingDown e \/ c_status st' = Draining e \/
     (c_status st' = Broken e /\ pending_rids st' = [] /\ c_err_sent st' = true)).
Proof. intros H. exact (td_next_progress st e (inv_reachable _ _ H)). Qed.

Lemma td_terminates_reachable ctl n st e : reachable ctl st ->
  c_status st = TearingDown e \/ c_status st = Draining e -> (td_measure st <= n)%nat ->
  c_status (teardown n st) = Broken e /\ pending_rids (teardown n st) = [] /\
  c_err_sent (teardown n st) = true.
Proof. intros H. exact (td_terminates n st e (inv_reachable _ _ H)). Qed.

(* ---------- framing: the delivered frames are exactly the frame-aligned segmentation of the stream ---------- *)
Lemma framing ctl st : reachable ctl st ->
  c_received st = concat (map f_raw (c_consumed st)) ++ c_rbuf st /\
  Forall frame_ok (c_consumed st) /\
  (forall r f, In (r, Resp f) (c_done st) -> In f (c_consumed st)).
Proof.
  intros HR. apply inv_reachable in HR. repeat split; [apply (inv_recv _ HR)|apply (inv_frames _ HR)|].
  intros r f Hin. destruct (inv_resp _ HR _ _ Hin) as [H _]. exact H.
Qed.

(* ---------- the pool: nothing is taken from a connection whose error event was processed ---------- *)
Lemma prun_app p l1 l2 : prun p (l1 ++ l2) = match prun p l1 with Some q => prun q l2 | None => None end.
Proof.
  revert p; induction l1 as [|l r IH]; intros p; cbn [prun app]; [reflexivity|].
  destruct (pstep p l); [apply IH|reflexivity].
Qed.

Lemma pool_no_get_after_process l1 c l2 p :
  prun pool_init (l1 ++ PProcess c :: l2) = Some p -> ~ In (PGet c) l2.
Proof.
  intros Hr Hin. rewrite prun_app in Hr. destruct (prun pool_init l1) as [p1|] eqn:R1; [|discriminate].
  cbn [prun] in Hr. destruct (pstep p1 (PProcess c)) as [p2|] eqn:S2; [|discriminate].
  assert (I1 : PInv p1) by (eapply pinv_run; [apply pinv_init|exact R1]).
  assert (Hb : In c (p_broken p2) /\ ~ In c (p_events p2)).
  { unfold pstep in S2. destruct (nmem c (p_events p1)) eqn:Ee; [|discriminate]. apply nmem_In in Ee.
    injection S2 as <-. cbn. split; [apply (pi_events _ I1); exact Ee|].
    intros H. apply filter_In in H. destruct H as [_ H]. rewrite N.eqb_refl in H. discriminate. }
  apply in_split in Hin. destruct Hin as (la & lb & ->).
  rewrite prun_app in Hr. destruct (prun p2 la) as [p3|] eqn:R3; [|discriminate].
  cbn [prun] in Hr. destruct (pstep p3 (PGet c)) as [p4|] eqn:S4; [|discriminate].
  assert (R12 : prun pool_init (l1 ++ [PProcess c]) = Some p2).
  { rewrite prun_app, R1. cbn [prun]. rewrite S2. reflexivity. }
  destruct Hb as [Hb1 Hb2].
  pose proof (pool_never_again _ _ _ _ _ R12 Hb1 Hb2 R3) as Hn.
  unfold pstep in S4. destruct (nmem c (p_shared p3)) eqn:E; [|discriminate]. apply nmem_In in E. tauto.
Qed.
