(* C08_chunking: what read_response_frame returns does not depend on how the reader cuts the stream. *)
From SV Require Import Base.Prelude Base.Bytes Model.FrameBase Model.FrameTypes Model.FrameResp
  Model.FrameChunk Proofs.FrameBase_proofs.
Open Scope N_scope.

Definition no_eof (cs : chunks) : Prop := Forall (fun c => c <> []) cs.

Lemma skipn_len_app {A} (a l : list A) m : skipn (length a + m) (a ++ l) = skipn m l.
Proof. induction a as [|x a IH]; [reflexivity|exact IH]. Qed.

Lemma read_n_spec : forall fuel need offers cs acc,
  no_eof cs -> (N.to_nat need + length cs <= fuel + 0)%nat \/ (length (concat cs) + length cs < fuel)%nat ->
  match read_n fuel need offers cs acc with
  | (Some got, cs') =>
    need <= lenN (concat cs) /\ got = acc ++ firstn (N.to_nat need) (concat cs) /\
    concat cs' = skipn (N.to_nat need) (concat cs) /\ no_eof cs'
  | (None, _) => lenN (concat cs) < need
  end.
Proof.
  induction fuel as [|f IH]; intros need offers cs acc Hne Hf; cbn [read_n]; destruct (need =? 0) eqn:E0.
  - apply N.eqb_eq in E0. subst. cbn. rewrite app_nil_r. repeat split; [lia|exact Hne].
  - apply N.eqb_neq in E0. destruct Hf as [Hf|Hf]; [|lia].
    (* no fuel: need > 0 so the first disjunct is impossible *) lia.
  - apply N.eqb_eq in E0. subst. cbn. rewrite app_nil_r. repeat split; [lia|exact Hne].
  - apply N.eqb_neq in E0. destruct cs as [|c cs']; [cbn; unfold lenN; cbn; lia|].
    inversion Hne as [|? ? Hc Hcs]; subst. destruct c as [|x c]; [congruence|].
    set (offer := match offers with o :: _ => N.max 1 o | [] => need end).
    set (k := N.min (N.min need offer) (lenN (x :: c))).
    assert (Hk1 : 1 <= k).
    { unfold k, offer. rewrite lenN_cons. destruct offers; lia. }
    assert (Hk2 : k <= lenN (x :: c)) by (unfold k; lia).
    assert (Hk3 : k <= need) by (unfold k; lia).
    set (got := firstn (N.to_nat k) (x :: c)). set (left := skipn (N.to_nat k) (x :: c)).
    assert (Egl : x :: c = got ++ left) by (symmetry; apply firstn_skipn).
    assert (Lg : length got = N.to_nat k).
    { unfold got. apply firstn_length_le. unfold lenN in Hk2. lia. }
    set (cs1 := match left with [] => cs' | _ => left :: cs' end).
    assert (Ecs1 : concat cs1 = left ++ concat cs') by (unfold cs1; destruct left; reflexivity).
    assert (Hne1 : no_eof cs1).
    { unfold cs1. destruct left eqn:El; [exact Hcs|constructor; [discriminate|exact Hcs]]. }
    assert (Lc : (length (concat cs1) + length got = length (concat ((x :: c) :: cs')))%nat).
    { rewrite Ecs1. cbn [concat]. rewrite !app_length. assert (length (x :: c) = (length got + length left)%nat) by (rewrite Egl at 1; apply app_length). lia. }
    assert (Lcs : (length cs1 <= S (length cs'))%nat) by (unfold cs1; destruct left; cbn; lia).
    specialize (IH (need - k) (tl offers) cs1 (acc ++ got) Hne1).
    assert (Hf' : (N.to_nat (need - k) + length cs1 <= f + 0)%nat \/ (length (concat cs1) + length cs1 < f)%nat).
    { clearbody k got left cs1 offer. clear Hk2 Egl Hne Hcs Hc Hne1 Ecs1.
      change (length ((x :: c) :: cs')) with (S (length cs')) in Hf.
      destruct Hf as [Hf|Hf]; [left; lia|right].
      assert (Hf2 : (length (concat cs1) + length got + S (length cs') < S f)%nat) by (rewrite Lc; exact Hf).
      lia. }
    specialize (IH Hf').
    match goal with |- context [read_n f ?a ?b ?c ?d] => change c with cs1 end.
    destruct (read_n f (need - k) (tl offers) cs1 (acc ++ got)) as [[res|] cs2].
    + destruct IH as (A & B & C & D). cbn [concat]. rewrite Egl.
      assert (Eneed : N.to_nat need = (length got + N.to_nat (need - k))%nat) by lia.
      repeat split.
      * rewrite Ecs1 in A. rewrite <- app_assoc, lenN_app. unfold lenN in *. rewrite Lg. lia.
      * rewrite B, Ecs1, <- !app_assoc, Eneed. f_equal. rewrite firstn_app_2. reflexivity.
      * rewrite C, Ecs1, <- !app_assoc, Eneed. symmetry. apply skipn_len_app.
      * exact D.
    + cbn [concat]. rewrite Egl, <- app_assoc, lenN_app. rewrite Ecs1 in IH. unfold lenN in *. rewrite Lg. lia.
Qed.

Lemma read_n_top need offers cs :
  no_eof cs ->
  match read_n (S (stream_len cs)) need offers cs [] with
  | (Some got, cs') => ntake need (concat cs) = Some (got, concat cs') /\ no_eof cs'
  | (None, _) => ntake need (concat cs) = None
  end.
Proof.
  intros Hne. pose proof (read_n_spec (S (stream_len cs)) need offers cs [] Hne) as H.
  specialize (H ltac:(right; unfold stream_len; lia)).
  destruct (read_n (S (stream_len cs)) need offers cs []) as [[got|] cs'].
  - destruct H as (A & B & C & D). split; [|exact D]. rewrite ntake_spec.
    destruct (need <=? lenN (concat cs)) eqn:E; [|lia]. rewrite B, C. reflexivity.
  - apply ntake_short. exact H.
Qed.

(* C08_chunking *)
Lemma read_frame_chunked_spec offers cs :
  no_eof cs ->
  match read_frame_chunked offers cs with
  | Ok ((h, body), cs') => fst (read_frame (concat cs)) = Ok ((h, body), concat cs')
  | Err e => fst (read_frame (concat cs)) = Err e
  end.
Proof.
  intros Hne. unfold read_frame_chunked, read_frame, bind, map_err, read_raw.
  pose proof (read_n_top 9 offers cs Hne) as H9.
  destruct (read_n (S (stream_len cs)) 9 offers cs []) as [[raw|] cs1].
  - destruct H9 as [E9 Hne1]. rewrite E9. cbv beta iota.
    destruct (run parse_header raw) as [[h r0]|e]; [|reflexivity].
    pose proof (read_n_top (h_length h) (skipn 9 offers) cs1 Hne1) as Hb.
    destruct (read_n (S (stream_len cs1)) (h_length h) (skipn 9 offers) cs1 []) as [[body|] cs2].
    + destruct Hb as [Eb _]. rewrite Eb. reflexivity.
    + rewrite Hb. reflexivity.
  - rewrite H9. reflexivity.
Qed.

(* on success [reader_after] is the remaining reader of [read_frame_chunked] *)
Lemma reader_after_ok offers cs h body cs' :
  read_frame_chunked offers cs = Ok ((h, body), cs') -> reader_after offers cs = cs'.
Proof.
  unfold read_frame_chunked, reader_after.
  destruct (read_n (S (stream_len cs)) 9 offers cs []) as [[raw|] cs1]; [|discriminate].
  destruct (run parse_header raw) as [[h0 r0]|e]; [|discriminate].
  destruct (read_n (S (stream_len cs1)) (h_length h0) (skipn 9 offers) cs1 []) as [[b|] cs2]; [|discriminate].
  intros E. inversion E. reflexivity.
Qed.
