(* Round trips beyond the frame: the tablet routing payload (RawTablet::from_custom_payload) and the
   rows decoded against cached result metadata. *)
From SV Require Import Base.Prelude Base.Bytes Model.FrameBase Model.FrameTypes Model.FrameResp
  Model.FrameEnc Model.FrameValues Proofs.FrameBase_proofs Proofs.FrameTypes_proofs Proofs.FrameResp_proofs
  Proofs.FrameRt_proofs.
Open Scope N_scope.

Lemma enc_bytes_nonempty s : enc_bytes s <> [].
Proof.
  intros X. apply (f_equal (@length N)) in X. unfold enc_bytes, enc_int, enc_signed in X.
  rewrite app_length, be_enc_length in X. cbn in X. lia.
Qed.

Lemma read_cql_bytes_enc s r : wf_bytes s -> read_cql_bytes (enc_bytes s ++ r) = Some (Some s, r).
Proof.
  intros W. unfold read_cql_bytes. pose proof (run_read_bytes_opt_enc (Some s) r W) as H. cbn [enc_bytes_opt] in H.
  rewrite H. reflexivity.
Qed.

Lemma tuple_fixed_enc k s r :
  wf_bytes s -> length s = k -> tuple_fixed k (enc_bytes s ++ r) = Some (s, r).
Proof.
  intros W L. unfold tuple_fixed. destruct (enc_bytes s ++ r) as [|x t] eqn:E.
  - apply app_eq_nil in E as [E _]. exfalso. eapply enc_bytes_nonempty; eauto.
  - rewrite <- E, read_cql_bytes_enc by exact W. rewrite L, Nat.eqb_refl. reflexivity.
Qed.

Lemma wf_bytes_signed k z : (k <= 8)%nat -> wf_bytes (enc_signed k z).
Proof.
  intros Hk. unfold wf_bytes, enc_signed. split; [apply be_enc_ok|]. unfold lenN. rewrite be_enc_length.
  assert (N.of_nat k <= 8) by lia. assert (8 < 2 ^ 31) by reflexivity. lia.
Qed.

Lemma tablet_replicas_enc : forall reps fuel r,
  Forall (fun r => bytes_ok (fst r) /\ lenN (fst r) = 16 /\ snd r < 2 ^ 31) reps ->
  (length reps <= fuel)%nat ->
  tablet_replicas fuel (lenN reps) (flat_map enc_replica reps ++ r) = Ok reps.
Proof.
  induction reps as [|[u sh] reps IH]; intros fuel r W F.
  - destruct fuel; reflexivity.
  - destruct fuel as [|f]; [cbn in F; lia|]. inversion W as [|? ? (Hu & Hl & Hs) Wr]; subst. cbn [fst snd] in *.
    cbn [tablet_replicas]. rewrite lenN_cons. destruct (lenN reps + 1 =? 0) eqn:E0; [lia|].
    cbn [flat_map]. unfold enc_replica at 1. cbn [fst snd]. rewrite <- app_assoc.
    assert (Wu : wf_bytes u) by (split; [exact Hu|rewrite Hl; reflexivity]).
    assert (Ws : wf_bytes (enc_signed 4 (Z.of_N sh))) by (apply wf_bytes_signed; lia).
    assert (Wt : wf_bytes (enc_bytes u ++ enc_bytes (enc_signed 4 (Z.of_N sh)))).
    { unfold enc_bytes, enc_int, enc_signed. split.
      - apply bytes_ok_app; split; apply bytes_ok_app; split; first [apply be_enc_ok|exact Hu].
      - rewrite !lenN_app. unfold lenN in *. rewrite !be_enc_length. assert (4 + 16 + (4 + 4) < 2 ^ 31) by reflexivity. lia. }
    rewrite read_cql_bytes_enc by exact Wt.
    rewrite tuple_fixed_enc; [|exact Wu|unfold lenN in Hl; lia].
    replace (enc_bytes (enc_signed 4 (Z.of_N sh))) with (enc_bytes (enc_signed 4 (Z.of_N sh)) ++ []) by apply app_nil_r.
    rewrite tuple_fixed_enc; [|exact Ws|unfold enc_signed; apply be_enc_length].
    rewrite (dec_enc_signed 4 (Z.of_N sh)) by lia.
    destruct (Z.of_N sh <? 0)%Z eqn:En; [lia|].
    replace (lenN reps + 1 - 1) with (lenN reps) by lia.
    rewrite IH; [|exact Wr|cbn in F; lia]. rewrite N2Z.id. reflexivity.
Qed.

Lemma enc_replica_facts r :
  bytes_ok (fst r) -> lenN (fst r) = 16 -> bytes_ok (enc_replica r) /\ lenN (enc_replica r) = 32.
Proof.
  intros Hu Hl. unfold enc_replica, enc_bytes, enc_int, enc_signed. split.
  - apply bytes_ok_app; split; [apply be_enc_ok|].
    apply bytes_ok_app; split; apply bytes_ok_app; split; first [apply be_enc_ok|exact Hu].
  - rewrite !lenN_app. unfold lenN in *. rewrite !be_enc_length. lia.
Qed.
Lemma flat_replicas_facts reps :
  Forall (fun r => bytes_ok (fst r) /\ lenN (fst r) = 16 /\ snd r < 2 ^ 31) reps ->
  bytes_ok (flat_map enc_replica reps) /\ lenN (flat_map enc_replica reps) = 32 * lenN reps.
Proof.
  induction 1 as [|r reps (Hu & Hl & _) _ [IB IL]]; [split; [constructor|reflexivity]|].
  destruct (enc_replica_facts r Hu Hl) as [B L]. cbn [flat_map]. split.
  - apply bytes_ok_app. split; assumption.
  - rewrite lenN_app, lenN_cons, L, IL. lia.
Qed.

(* C08_tablet_roundtrip *)
Lemma tablet_payload_enc first last reps :
  wf_tablet first last reps -> tablet_payload (enc_tablet first last reps) = Ok ((first + 1)%Z, last, reps).
Proof.
  intros (Hf & Hl & Hn & W). unfold tablet_payload, enc_tablet.
  rewrite tuple_fixed_enc; [|apply wf_bytes_signed; lia|unfold enc_signed; apply be_enc_length].
  rewrite tuple_fixed_enc; [|apply wf_bytes_signed; lia|unfold enc_signed; apply be_enc_length].
  destruct (flat_replicas_facts reps W) as [FB FL].
  set (lst := enc_int (Z.of_N (lenN reps)) ++ flat_map enc_replica reps).
  assert (Wl : wf_bytes lst).
  { unfold lst. split.
    - apply bytes_ok_app. split; [unfold enc_int, enc_signed; apply be_enc_ok|exact FB].
    - rewrite lenN_app, FL. unfold enc_int, enc_signed, lenN at 1. rewrite be_enc_length.
      assert (2 ^ 25 * 32 + 4 < 2 ^ 31) by reflexivity. lia. }
  destruct (enc_bytes lst) as [|x t] eqn:E; [exfalso; eapply enc_bytes_nonempty; eauto|].
  rewrite <- E. replace (enc_bytes lst) with (enc_bytes lst ++ []) by apply app_nil_r.
  rewrite read_cql_bytes_enc by exact Wl. unfold lst at 1.
  rewrite run_read_int_length_enc by (assert (2 ^ 25 < 2 ^ 31) by reflexivity; lia).
  rewrite !(dec_enc_signed 8) by lia.
  destruct (last <=? first)%Z eqn:El; [lia|].
  replace (flat_map enc_replica reps) with (flat_map enc_replica reps ++ []) at 2 by apply app_nil_r.
  rewrite tablet_replicas_enc; [reflexivity|exact W|].
  unfold lenN in FL. lia.
Qed.

(* ---- rows behind cached result metadata (NO_METADATA frames of the skip-metadata path) ------------- *)
Section Cached.
Variable custom : custom_parser.

(* what a NO_METADATA Rows body looks like on the wire: flags, (ignored) column count, paging state,
   row count, rows; [r] carries the rows, its column specs are not sent *)
Definition wf_rows_cached (ccols : list colspec) (r : rows_result) : Prop :=
  let h := rr_hdr r in
  rh_no_metadata h = true /\ rh_metadata_changed h = false /\
  rh_col_count h < 2 ^ 31 /\ rr_rows_count r < 2 ^ 31 /\
  match rh_paging h with Some ps => wf_bytes ps | None => True end /\
  (lenN ccols = 0 -> rr_rows r = []) /\
  (lenN ccols <> 0 -> lenN (rr_rows r) = rr_rows_count r /\
                       Forall (fun row => lenN row = lenN ccols /\ Forall wf_cell row) (rr_rows r)).

Lemma run_deser_rows_full_cached_enc ft cid ccount ccols r rest :
  wf_rows_cached ccols r ->
  run (deser_rows_full_cached custom ft (cid, ccount, ccols)) (enc_rows r ++ rest) =
  Ok ((mkRows (rr_hdr r) cid ccols (rr_rows_count r) (rr_rows r), ccount), rest).
Proof.
  destruct r as [[cc g nomd chg ps] mid cols rc rows]. unfold wf_rows_cached.
  cbn [rr_hdr rr_meta_id rr_cols rr_rows_count rr_rows rh_col_count rh_global rh_no_metadata rh_metadata_changed rh_paging].
  intros (-> & -> & Hcc & Hrc & Hps & H0 & H1).
  unfold deser_rows_full_cached, enc_rows.
  cbn [rr_hdr rr_meta_id rr_cols rr_rows_count rr_rows rh_col_count rh_global rh_no_metadata rh_metadata_changed rh_paging].
  pose proof (flag_bits g (match ps with Some _ => true | None => false end) true false) as FB.
  cbv zeta in FB. destruct FB as (Wf & F1 & F2 & F4 & F8).
  rewrite <- !app_assoc. unfold deser_rows_hdr. rt. rewrite F1, F2, F4, F8, andb_false_r. cbn [andb]. rt.
  assert (Eps : forall r', run (if match ps with Some _ => true | None => false end then pmap Some read_bytes else ret None)
                    (match ps with Some p => enc_bytes p | None => [] end ++ r') = Ok (ps, r')).
  { intros r'. destruct ps as [p|]; [rewrite run_pmap, run_read_bytes_enc by exact Hps|]; reflexivity. }
  rewrite Eps. rt. cbn [rh_no_metadata app]. rt.
  rewrite (run_deser_rows_enc (lenN ccols) rc rows) by assumption. rt. reflexivity.
Qed.
End Cached.

(* ---- typed cells: C01's value round trip carried to the cells of a decoded row ---------------------- *)
From SV Require Props.C01.
Lemma typed_cell_roundtrip t v b :
  Cql.wf_type (to_ctype t) = true -> Cql.wf_val (to_ctype t) v = true -> Cql.known_class (to_ctype t) v = false ->
  Cql.ser_value true (to_ctype t) v = Ok b ->
  typed_cell t (Some b) = Ok (Cql.CVal (Cql.pad (to_ctype t) v)) /\ typed_cell t None = Ok Cql.CNull.
Proof.
  intros W1 W2 K S. split; [|reflexivity]. unfold typed_cell.
  rewrite (C01.C01_roundtrip_value_sized (to_ctype t) v b W1 W2 K S). reflexivity.
Qed.
