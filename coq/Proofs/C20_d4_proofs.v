(* Deepening round 4 (proof-only) for C20: characterising theorems for the extracted functions the
   driver uses for a verdict / report and that no pinned theorem mentioned (make_verified, first_reject,
   texts_verdict, the driver's V-case specification boolean), and prefix-closedness of the acceptor. *)
From SV Require Import Base.Prelude Model.Keyspace Proofs.Keyspace_proofs.
Open Scope nat_scope.

(* ---- make_verified ------------------------------------------------------------------------- *)

Lemma make_verified_ok_iff s cs k : make_verified s cs = Ok k <-> valid_name s /\ k = (s, cs).
Proof.
  unfold make_verified. rewrite <- verify_name_ok_iff.
  destruct (verify_name s) as [[]|e]; split.
  - intros H. inversion H. split; reflexivity.
  - intros [_ ->]. reflexivity.
  - discriminate.
  - intros [H _]. discriminate.
Qed.

Lemma make_verified_err_iff s cs e : make_verified s cs = Err e <-> verify_name s = Err e.
Proof.
  unfold make_verified. destruct (verify_name s) as [[]|e']; split; intros H; try discriminate;
    inversion H; reflexivity.
Qed.

Lemma make_verified_spec s cs :
  (forall k, make_verified s cs = Ok k <-> valid_name s /\ k = (s, cs)) /\
  (forall e, make_verified s cs = Err e <-> verify_name s = Err e) /\
  ((exists e, make_verified s cs = Err e) <-> ~ valid_name s).
Proof.
  split; [intros k; apply make_verified_ok_iff|].
  split; [intros e; apply make_verified_err_iff|].
  rewrite <- verify_name_ok_iff. unfold make_verified.
  destruct (verify_name s) as [[]|e]; split.
  - intros [e H]. discriminate.
  - intros H. exfalso. apply H. reflexivity.
  - intros _ H. discriminate.
  - intros _. exists e. reflexivity.
Qed.

(* ---- the driver's V-case specification boolean --------------------------------------------- *)

Lemma driver_v_spec s cs k r :
  make_verified s cs = Ok k ->
  (verify_result k r = VOk <->
   exists n, r = RSetKeyspace n /\ valid_nameb s && eq_ci n s = true).
Proof.
  intros H. apply make_verified_ok_iff in H. destruct H as [Hv ->].
  apply valid_nameb_spec in Hv.
  unfold verify_result. cbn [fst]. destruct r as [n| |]; split.
  - intros H. exists n. split; [reflexivity|]. rewrite Hv. cbn [andb].
    destruct (eq_ci n s); [reflexivity|discriminate].
  - intros [n' [E H]]. inversion E; subst n'. rewrite Hv in H. cbn [andb] in H. rewrite H. reflexivity.
  - discriminate.
  - intros [n [E _]]. discriminate.
  - discriminate.
  - intros [n [E _]]. discriminate.
Qed.

(* a name that is not valid never reaches verify_result: the driver's boolean is false *)
Lemma driver_v_spec_invalid s n : ~ valid_name s -> valid_nameb s && eq_ci n s = false.
Proof.
  intros H. destruct (valid_nameb s) eqn:E; [|reflexivity].
  exfalso. apply H. apply valid_nameb_spec. exact E.
Qed.

(* eq_ci is an equivalence relation *)
Lemma eq_ci_equiv :
  (forall a, eq_ci a a = true) /\
  (forall a b, eq_ci a b = true -> eq_ci b a = true) /\
  (forall a b c, eq_ci a b = true -> eq_ci b c = true -> eq_ci a c = true).
Proof.
  split; [exact eq_ci_refl|]. split.
  - intros a b H. apply eq_ci_iff. symmetry. apply eq_ci_iff. exact H.
  - intros a b c H1 H2. apply eq_ci_iff. apply eq_ci_iff in H1. apply eq_ci_iff in H2. congruence.
Qed.

(* ---- the acceptor: prefix-closed; first_reject = position of the first rejected event ------- *)

Lemma accept_prefix k0 t1 t2 : accept_trace k0 (t1 ++ t2) = true -> accept_trace k0 t1 = true.
Proof.
  unfold accept_trace. rewrite acc_run_app.
  destruct (acc_run (acc_init k0) t1); [reflexivity|discriminate].
Qed.

Lemma first_reject_none a tr i :
  first_reject a tr i = None <-> exists a', acc_run a tr = Some a'.
Proof.
  revert a i. induction tr as [|e r IH]; intros a i; cbn [first_reject acc_run].
  - split; [intros _; exists a; reflexivity|reflexivity].
  - destruct (acc_step a e) as [a1|]; [apply IH|].
    split; [discriminate|intros [a' H]; discriminate].
Qed.

Lemma first_reject_some a tr i j :
  first_reject a tr i = Some j <->
  exists pre e post a', tr = pre ++ e :: post /\ j = i + List.length pre /\
                        acc_run a pre = Some a' /\ acc_step a' e = None.
Proof.
  revert a i. induction tr as [|e r IH]; intros a i; cbn [first_reject].
  - split; [discriminate|]. intros [pre [e [post [a' [H _]]]]]. destruct pre; discriminate.
  - destruct (acc_step a e) as [a1|] eqn:Es.
    + rewrite IH. split.
      * intros [pre [e' [post [a' [-> [-> [Hr Hs]]]]]]].
        exists (e :: pre), e', post, a'. cbn [app List.length acc_run]. rewrite Es.
        repeat split; [lia|exact Hr|exact Hs].
      * intros [pre [e' [post [a' [Ht [-> [Hr Hs]]]]]]].
        destruct pre as [|p pre]; cbn [app] in Ht; inversion Ht; subst.
        -- cbn [acc_run] in Hr. inversion Hr; subst. congruence.
        -- cbn [acc_run] in Hr. rewrite Es in Hr.
           exists pre, e', post, a'. cbn [List.length]. repeat split; [lia|exact Hr|exact Hs].
    + split.
      * intros H. inversion H; subst. exists [], e, r, a. cbn [app List.length acc_run].
        repeat split; [lia|exact Es].
      * intros [pre [e' [post [a' [Ht [-> [Hr Hs]]]]]]].
        destruct pre as [|p pre]; cbn [app] in Ht; inversion Ht; subst.
        -- cbn [List.length]. f_equal. lia.
        -- cbn [acc_run] in Hr. rewrite Es in Hr. discriminate.
Qed.

Lemma first_reject_spec k0 tr :
  (first_reject (acc_init k0) tr 0 = None <-> accept_trace k0 tr = true) /\
  (forall j, first_reject (acc_init k0) tr 0 = Some j <->
     exists pre e post, tr = pre ++ e :: post /\ j = List.length pre /\
                        accept_trace k0 pre = true /\ accept_trace k0 (pre ++ [e]) = false).
Proof.
  split.
  - rewrite first_reject_none. unfold accept_trace.
    destruct (acc_run (acc_init k0) tr) as [a'|]; split; try reflexivity.
    + intros _. exists a'. reflexivity.
    + intros [a' H]. discriminate.
    + discriminate.
  - intros j. rewrite first_reject_some. unfold accept_trace. split.
    + intros [pre [e [post [a' [-> [-> [Hr Hs]]]]]]]. exists pre, e, post.
      rewrite acc_run_app, Hr. cbn [acc_run]. rewrite Hs. repeat split.
    + intros [pre [e [post [-> [-> [Hp He]]]]]].
      rewrite acc_run_app in He.
      destruct (acc_run (acc_init k0) pre) as [a'|] eqn:Hr; [|discriminate].
      exists pre, e, post, a'. cbn [acc_run] in He.
      destruct (acc_step a' e) eqn:Hs; [discriminate|]. repeat split; try reflexivity; try assumption.
Qed.

(* ---- texts_verdict: the first text that is not the model's decides -------------------------- *)

Lemma text_verdict_ok_iff callk t :
  text_verdict callk t = TOk <-> exists k, In k callk /\ t = use_statement k.
Proof.
  unfold text_verdict. destruct (name_mem t (map use_statement callk)) eqn:E.
  - apply name_mem_In in E. apply in_map_iff in E. destruct E as [k [E Hk]].
    split; [intros _; exists k; split; [exact Hk|symmetry; exact E]|reflexivity].
  - split.
    + destruct (harmless (map fst callk) t); discriminate.
    + intros [k [Hk ->]]. exfalso.
      assert (H : name_mem (use_statement k) (map use_statement callk) = true).
      { apply name_mem_In. apply in_map. exact Hk. }
      rewrite H in E. discriminate.
Qed.

Lemma text_verdict_diff_iff callk t :
  text_verdict callk t = TDiff <->
  (forall k, In k callk -> t <> use_statement k) /\ harmless (map fst callk) t = true.
Proof.
  unfold text_verdict. destruct (name_mem t (map use_statement callk)) eqn:E.
  - apply name_mem_In in E. apply in_map_iff in E. destruct E as [k [E Hk]].
    split; [discriminate|]. intros [H _]. exfalso. apply (H k Hk). symmetry. exact E.
  - assert (Hn : forall k, In k callk -> t <> use_statement k).
    { intros k Hk ->.
      assert (H : name_mem (use_statement k) (map use_statement callk) = true).
      { apply name_mem_In. apply in_map. exact Hk. }
      rewrite H in E. discriminate. }
    destruct (harmless (map fst callk) t); split.
    + intros _. split; [exact Hn|reflexivity].
    + reflexivity.
    + discriminate.
    + intros [_ H]. discriminate.
Qed.

Lemma texts_verdict_ok callk ts :
  fst (texts_verdict callk ts) = TOk <-> Forall (fun t => text_verdict callk t = TOk) ts.
Proof.
  induction ts as [|t r IH]; cbn [texts_verdict].
  - cbn [fst]. split; [intros _; constructor|reflexivity].
  - destruct (text_verdict callk t) eqn:E.
    + rewrite IH. split; [intros H; constructor; assumption|intros H; inversion H; assumption].
    + cbn [fst]. split; [discriminate|]. intros H. inversion H; subst. congruence.
    + cbn [fst]. split; [discriminate|]. intros H. inversion H; subst. congruence.
Qed.

Lemma texts_verdict_first callk ts v t :
  v <> TOk ->
  (texts_verdict callk ts = (v, t) <->
   exists pre post, ts = pre ++ t :: post /\
                    Forall (fun t' => text_verdict callk t' = TOk) pre /\ text_verdict callk t = v).
Proof.
  intros Hv. induction ts as [|t0 r IH]; cbn [texts_verdict].
  - split.
    + intros H. inversion H; subst. exfalso. apply Hv. reflexivity.
    + intros [pre [post [H _]]]. destruct pre; discriminate.
  - destruct (text_verdict callk t0) eqn:E.
    + rewrite IH. split.
      * intros [pre [post [-> [Hp Ht]]]]. exists (t0 :: pre), post. cbn [app].
        repeat split; [constructor; assumption|exact Ht].
      * intros [pre [post [Hts [Hp Ht]]]].
        destruct pre as [|p pre]; cbn [app] in Hts; inversion Hts; subst.
        -- exfalso. apply Hv. congruence.
        -- inversion Hp; subst. exists pre, post. repeat split; assumption.
    + split.
      * intros H. inversion H; subst. exists [], r. cbn [app]. repeat split; [constructor|exact E].
      * intros [pre [post [Hts [Hp Ht]]]].
        destruct pre as [|p pre]; cbn [app] in Hts; inversion Hts; subst.
        -- congruence.
        -- inversion Hp; subst. congruence.
    + split.
      * intros H. inversion H; subst. exists [], r. cbn [app]. repeat split; [constructor|exact E].
      * intros [pre [post [Hts [Hp Ht]]]].
        destruct pre as [|p pre]; cbn [app] in Hts; inversion Hts; subst.
        -- congruence.
        -- inversion Hp; subst. congruence.
Qed.

Lemma texts_verdict_spec callk ts :
  (fst (texts_verdict callk ts) = TOk <->
   forall t, In t ts -> exists k, In k callk /\ t = use_statement k) /\
  (forall v t, v <> TOk ->
     (texts_verdict callk ts = (v, t) <->
      exists pre post, ts = pre ++ t :: post /\
        (forall t', In t' pre -> exists k, In k callk /\ t' = use_statement k) /\
        text_verdict callk t = v)).
Proof.
  split.
  - rewrite texts_verdict_ok, Forall_forall. split; intros H t Ht.
    + apply text_verdict_ok_iff. apply H. exact Ht.
    + apply text_verdict_ok_iff. apply H. exact Ht.
  - intros v t Hv. rewrite (texts_verdict_first callk ts v t Hv). split.
    + intros [pre [post [-> [Hp Ht]]]]. exists pre, post. repeat split; [|exact Ht].
      intros t' Ht'. apply text_verdict_ok_iff. rewrite Forall_forall in Hp. apply Hp. exact Ht'.
    + intros [pre [post [-> [Hp Ht]]]]. exists pre, post. repeat split; [|exact Ht].
      apply Forall_forall. intros t' Ht'. apply text_verdict_ok_iff. apply Hp. exact Ht'.
Qed.

(* ---- prop_violb: stable under extension; silent without a successful return ---------------- *)

Lemma prop_violb_ext t1 t2 : prop_violb t1 = true -> prop_violb (t1 ++ t2) = true.
Proof.
  unfold prop_violb. rewrite pv_run_app.
  destruct (pv_run pv_init t1); [discriminate|reflexivity].
Qed.

Definition is_ret_ok (e : ev) : bool := match e with ERet _ true => true | _ => false end.

Lemma pv_step_no_est p e :
  pv_est p = None -> pv_open p = [] -> is_ret_ok e = false ->
  exists p', pv_step p e = Some p' /\ pv_est p' = None /\ pv_open p' = [].
Proof.
  intros He Ho Hr. destruct e as [u k|u ok|q|q x]; cbn [pv_step].
  - eexists. split; [reflexivity|]. split; reflexivity.
  - destruct ok; [discriminate|].
    destruct (pv_cand p) as [[u' k']|]; [destruct (Nat.eqb u' u)|];
      (eexists; split; [reflexivity|]; cbn [pv_est pv_open]; split; assumption || reflexivity).
  - rewrite He, Ho. cbn [filter]. eexists. split; [reflexivity|]. split; reflexivity.
  - rewrite Ho. cbn [pv_lookup]. exists p. split; [reflexivity|]. split; assumption.
Qed.

Lemma pv_run_no_est t : forall p,
  pv_est p = None -> pv_open p = [] -> forallb (fun e => negb (is_ret_ok e)) t = true ->
  exists p', pv_run p t = Some p'.
Proof.
  induction t as [|e r IH]; intros p He Ho Hr; cbn [pv_run].
  - exists p. reflexivity.
  - cbn [forallb] in Hr. apply andb_true_iff in Hr. destruct Hr as [Hr1 Hr2].
    apply negb_true_iff in Hr1.
    destruct (pv_step_no_est p e He Ho Hr1) as [p' [-> [He' Ho']]].
    apply IH; assumption.
Qed.

(* every `viol request-after-successful-use...` needs a call that returned Ok *)
Lemma prop_violb_needs_ok tr :
  prop_violb tr = true -> exists u, In (ERet u true) tr.
Proof.
  intros H.
  destruct (forallb (fun e => negb (is_ret_ok e)) tr) eqn:E.
  - exfalso. unfold prop_violb in H.
    destruct (pv_run_no_est tr pv_init eq_refl eq_refl E) as [p' Hp]. rewrite Hp in H. discriminate.
  - assert (Hx : existsb is_ret_ok tr = true).
    { clear H. induction tr as [|e r IH]; cbn [forallb existsb] in *; [discriminate|].
      destruct (is_ret_ok e); cbn [negb andb orb] in *; [reflexivity|apply IH; exact E]. }
    apply existsb_exists in Hx. destruct Hx as [e [Hin He]].
    destruct e as [u k|u [|]|q|q x]; try discriminate. exists u. exact Hin.
Qed.
