(* Proofs about Model/Retry.v (property C06): facts about single decisions of the three
   built-in retry sessions, for every session state and every request info. *)
From SV Require Import Base.Prelude Model.Retry.
Open Scope Z_scope.

Local Arguments Z.geb : simpl never.
Local Arguments Z.gtb : simpl never.

Lemma down_decide_unfold w ri :
  down_decide w ri =
  if is_serial (ri_consistency ri) then down_serial w ri
  else down_nonserial (ri_consistency ri) w ri.
Proof. unfold down_decide. destruct (ri_consistency ri); reflexivity. Qed.

Lemma consistency_eqb_eq a b : consistency_eqb a b = true <-> a = b.
Proof. split; [destruct a, b; cbn; congruence | intros ->; destruct b; reflexivity]. Qed.

Ltac break_if :=
  match goal with
  | H : context [if ?b then _ else _] |- _ => destruct b eqn:?
  | |- context [if ?b then _ else _] => destruct b eqn:?
  end.

Ltac pair_inv :=
  repeat match goal with H : (_, _) = (_, _) |- _ => inversion H; clear H; subst end.

(* finish a leaf whose remaining facts are about booleans *)
Ltac bools := repeat match goal with b : bool |- _ => destruct b end;
  cbn [negb andb orb] in *; congruence.

(* open a decision of any of the three sessions: session kind, serial or not, error *)
Ltac open_decide s ri :=
  destruct s as [[u r w] | w | ]; destruct ri as [e i c]; cbn [decide] in *;
  [ unfold default_decide in *
  | rewrite down_decide_unfold in *;
    unfold down_serial, down_nonserial, max_likely_to_work_cl in *
  | ];
  cbn [ri_error ri_idempotent ri_consistency was_unavailable_retry was_read_timeout_retry
       was_write_timeout_retry] in *;
  destruct (is_serial c) eqn:Hser;
  destruct e as [ | | | | | | | db | | | | ]; try destruct db;
  repeat match goal with x : write_type |- _ => destruct x end.

Ltac leaves := repeat (cbn [negb andb orb fst snd] in *; try break_if); pair_inv.

Lemma decide_safe s ri s' d :
  decide s ri = (s', d) -> ri_idempotent ri = false -> is_retry d = true ->
  safe_errorb (ri_error ri) = true.
Proof.
  intros H Hi Hr. open_decide s ri; cbn [ri_idempotent] in Hi; subst; leaves;
    cbn [is_retry safe_errorb] in *; try reflexivity; try discriminate; bools.
Qed.

(* named unsafe errors: a non-idempotent request gets DontRetry *)
Lemma decide_named_unsafe s ri s' d :
  decide s ri = (s', d) -> ri_idempotent ri = false ->
  named_unsafe_errorb (ri_error ri) = true -> d = DontRetry.
Proof.
  intros H Hi Hr. open_decide s ri; cbn [ri_idempotent] in Hi; subst;
    cbn [named_unsafe_errorb] in Hr; try discriminate; leaves; try reflexivity; bools.
Qed.

(* the two error sets of the property text, spelled out *)
Lemma safe_set e :
  safe_errorb e = true <->
  (e = EUnableToAllocStreamId \/ e = EDbError DbIsBootstrapping
   \/ (exists required alive, e = EDbError (DbUnavailable required alive))
   \/ (exists received required dp, e = EDbError (DbReadTimeout received required dp))).
Proof.
  split.
  - destruct e as [ | | | | | | | db | | | | ]; try destruct db; cbn; try discriminate; intros _;
      eauto 8.
  - intros [-> | [-> | [[? [? ->]] | [? [? [? ->]]]]]]; reflexivity.
Qed.

Lemma named_unsafe_set e :
  named_unsafe_errorb e = true <->
  (e = EBrokenConnectionError \/ e = EDbError DbOverloaded \/ e = EDbError DbServerError
   \/ e = EDbError DbTruncateError
   \/ (exists received required wt, e = EDbError (DbWriteTimeout received required wt))).
Proof.
  split.
  - destruct e as [ | | | | | | | db | | | | ]; try destruct db; cbn; try discriminate; intros _;
      eauto 9.
  - intros [-> | [-> | [-> | [-> | [? [? [? ->]]]]]]]; reflexivity.
Qed.

Lemma safe_named_disjoint e : safe_errorb e = true -> named_unsafe_errorb e = false.
Proof. destruct e as [ | | | | | | | db | | | | ]; try destruct db; cbn; congruence. Qed.

Lemma decide_ignore s ri s' d :
  decide s ri = (s', d) -> d = IgnoreWriteError ->
  ri_idempotent ri = true /\ (exists w, s = SDowngrading w) /\
  exists received required wt, ri_error ri = EDbError (DbWriteTimeout received required wt)
     /\ received > 0 /\ (wt = WSimple \/ wt = WBatch).
Proof.
  intros H Hd. open_decide s ri; leaves; try discriminate;
    repeat match goal with b : bool |- _ => destruct b end; cbn [negb orb] in *; try discriminate;
    (split; [reflexivity | split; [eexists; reflexivity |]]);
    do 3 eexists; (split; [reflexivity | split; [lia | tauto]]).
Qed.

(* -- Default ------------------------------------------------------------- *)
Lemma default_serial s ri :
  is_serial (ri_consistency ri) = true -> default_decide s ri = (s, DontRetry).
Proof. intros H. unfold default_decide. now rewrite H. Qed.

Lemma decide_default_serial ds ri s' d :
  decide (SDefault ds) ri = (s', d) -> is_serial (ri_consistency ri) = true ->
  d = DontRetry /\ s' = SDefault ds.
Proof.
  intros H Hs. cbn [decide] in H. rewrite (default_serial ds ri Hs) in H.
  inversion H; auto.
Qed.

Lemma decide_carried_none s ri s' d :
  decide s ri = (s', d) -> (forall w, s <> SDowngrading w) -> carried d = None.
Proof.
  intros H Hs. destruct s as [ds | w | ]; [ | exfalso; eapply Hs; reflexivity | ].
  - destruct ds as [u r w]; destruct ri as [e i c]; cbn [decide] in H. unfold default_decide in H.
    cbn [ri_error ri_idempotent ri_consistency was_unavailable_retry was_read_timeout_retry
         was_write_timeout_retry] in H.
    destruct (is_serial c); destruct e as [ | | | | | | | db | | | | ]; try destruct db;
      leaves; reflexivity.
  - cbn in H. inversion H. reflexivity.
Qed.

(* -- sessions keep their policy ------------------------------------------ *)
Definition session_policy (s : session) : policy :=
  match s with SDefault _ => PDefault | SDowngrading _ => PDowngrading | SFallthrough => PFallthrough end.

Lemma decide_policy s ri s' d : decide s ri = (s', d) -> session_policy s' = session_policy s.
Proof.
  destruct s as [ds | w | ]; cbn [decide].
  - destruct (default_decide ds ri). intros H; inversion H; reflexivity.
  - destruct (down_decide w ri). intros H; inversion H; reflexivity.
  - intros H; inversion H; reflexivity.
Qed.

Lemma new_session_policy p : session_policy (new_session p) = p.
Proof. destruct p; reflexivity. Qed.

Lemma decide_fallthrough s ri s' d :
  decide s ri = (s', d) -> session_policy s = PFallthrough -> d = DontRetry.
Proof. destruct s; cbn; try discriminate. intros H _. now inversion H. Qed.

(* -- the same-target budget ---------------------------------------------- *)
Lemma decide_budget s ri s' d :
  decide s ri = (s', d) ->
  (if is_same_target d then S (budget s') <= budget s else budget s' <= budget s)%nat.
Proof.
  intros H. open_decide s ri; leaves;
    cbn [is_same_target budget was_read_timeout_retry was_write_timeout_retry] in *;
    try lia;
    repeat match goal with b : bool |- _ => destruct b end; cbn [negb andb orb] in *;
    try discriminate; cbn; lia.
Qed.

Lemma new_session_budget p : budget (new_session p) = same_target_budget p.
Proof. destruct p; reflexivity. Qed.

Lemma decide_history_same_target s h :
  (List.length (filter is_same_target (decide_history s h)) <= budget s)%nat.
Proof.
  revert s; induction h as [|ri h IH]; intros s; cbn [decide_history filter List.length]; [lia|].
  destruct (decide s ri) as [s' d] eqn:E. cbn [filter].
  pose proof (decide_budget s ri s' d E) as B. specialize (IH s').
  destruct (is_same_target d); cbn [List.length]; lia.
Qed.

(* -- the driver's property predicates hold of every model decision -------- *)
Lemma decide_prop_ok s ri :
  prop_decision_ok (session_policy s) ri (snd (decide s ri)) = true.
Proof.
  destruct (decide s ri) as [s' d] eqn:E. cbn [snd]. unfold prop_decision_ok.
  apply andb_true_iff; split; [apply andb_true_iff; split|].
  - destruct (ri_idempotent ri) eqn:Hi; [reflexivity|]. cbn [orb].
    destruct (is_retry d) eqn:Hr; [|reflexivity]. cbn [negb orb].
    exact (decide_safe s ri s' d E Hi Hr).
  - destruct d; try (now rewrite orb_true_r).
    destruct (decide_ignore s ri s' _ E eq_refl) as [-> _]. reflexivity.
  - destruct s as [ds | w | ]; cbn [session_policy]; [| reflexivity |].
    + destruct (is_serial (ri_consistency ri)) eqn:Hs; [|reflexivity].
      destruct (decide_default_serial ds ri s' d E Hs) as [-> _]. reflexivity.
    + cbn in E. inversion E; reflexivity.
Qed.

Lemma history_prop_ok p h :
  prop_history_ok p (decide_history (new_session p) h) = true.
Proof.
  unfold prop_history_ok. apply Nat.leb_le. rewrite <- new_session_budget.
  apply decide_history_same_target.
Qed.

(* -- Downgrading ---------------------------------------------------------- *)
Ltac open_down ri :=
  destruct ri as [e i c]; rewrite down_decide_unfold in *;
  unfold down_serial, down_nonserial, max_likely_to_work_cl in *;
  cbn [ri_error ri_idempotent ri_consistency] in *;
  destruct (is_serial c) eqn:Hser;
  destruct e as [ | | | | | | | db | | | | ]; try destruct db;
  repeat match goal with x : write_type |- _ => destruct x end.

Lemma down_decide_flag w ri w' d : down_decide w ri = (w', d) -> w = true -> w' = true.
Proof. intros H ->. open_down ri; leaves; reflexivity. Qed.

Lemma decide_down_shape w ri s' d :
  decide (SDowngrading w) ri = (s', d) ->
  exists w', s' = SDowngrading w' /\ (w = true -> w' = true).
Proof.
  cbn [decide]. destruct (down_decide w ri) as [w' d'] eqn:E. intros H; inversion H; subst.
  exists w'. split; [reflexivity|]. exact (down_decide_flag w ri w' d E).
Qed.

(* once the single retry is spent no consistency is carried any more *)
Lemma down_decide_spent ri w' d : down_decide true ri = (w', d) -> carried d = None.
Proof. intros H. open_down ri; leaves; reflexivity. Qed.

Lemma decide_down_spent ri s' d :
  decide (SDowngrading true) ri = (s', d) -> carried d = None.
Proof.
  cbn [decide]. destruct (down_decide true ri) as [w' d'] eqn:E. intros H; inversion H; subst.
  exact (down_decide_spent ri w' d E).
Qed.

Lemma down_decide_carried w ri w' d c' :
  down_decide w ri = (w', d) -> carried d = Some c' ->
  w = false /\ w' = true /\ is_serial (ri_consistency ri) = false /\
  d = RetrySameTarget (Some c') /\
  exists known_ok required,
    (ri_error ri = EDbError (DbUnavailable required known_ok)
     \/ (exists dp, ri_error ri = EDbError (DbReadTimeout known_ok required dp)
                    /\ known_ok < required)
     \/ (ri_error ri = EDbError (DbWriteTimeout known_ok required WUnloggedBatch)
         /\ ri_idempotent ri = true))
    /\ exists n, cl_count c' = Some n
         /\ (n <= known_ok \/ (ri_consistency ri = CEachQuorum /\ c' = COne /\ known_ok <= 0)).
Proof.
  intros H Hc. open_down ri; leaves; cbn [carried] in Hc; try discriminate;
    inversion Hc; subst; clear Hc;
    repeat match goal with
           | H : _ || consistency_eqb _ _ = true |- _ =>
               apply orb_true_iff in H; rewrite consistency_eqb_eq in H
           end;
    repeat match goal with b : bool |- _ => destruct b end; cbn [negb orb] in *; try discriminate;
    (split; [reflexivity | split; [reflexivity | split; [reflexivity | split; [reflexivity |]]]]);
    do 2 eexists;
    (split; [ first [ left; reflexivity
                    | right; left; eexists; split; [reflexivity | lia]
                    | right; right; split; reflexivity ]
            | eexists; split; [reflexivity | cbn [ri_consistency] ] ]);
    try lia;
    match goal with
    | H : _ \/ _ = CEachQuorum |- _ \/ (_ /\ _ /\ ?k <= 0) =>
        destruct H as [H | H];
        [ left; lia
        | destruct (Z_le_gt_dec k 0); [ right; repeat split; [exact H | assumption] | left; lia ] ]
    end.
Qed.
