(* Proofs about Model/Tablets.v (property C15). *)
From SV Require Import Base.Prelude Model.Tablets.
From Coq Require Import Sorting.Sorted.
Open Scope Z_scope.

(* ------------------------------------------------------------------------------------ *)
(* A. lists: take_while / drop_while, partition points                                   *)
(* ------------------------------------------------------------------------------------ *)

Fixpoint drop_while {A} (p : A -> bool) (l : list A) : list A :=
  match l with
  | [] => []
  | x :: r => if p x then drop_while p r else l
  end.

Lemma take_drop_while {A} (p : A -> bool) l : take_while p l ++ drop_while p l = l.
Proof. induction l as [|x r IH]; cbn; [reflexivity|]. destruct (p x); cbn; [now rewrite IH|reflexivity]. Qed.

Lemma firstn_pp {A} (p : A -> bool) l : firstn (partition_point p l) l = take_while p l.
Proof.
  unfold partition_point. induction l as [|x r IH]; cbn; [reflexivity|].
  destruct (p x); cbn; [now rewrite IH|reflexivity].
Qed.

Lemma skipn_pp {A} (p : A -> bool) l : skipn (partition_point p l) l = drop_while p l.
Proof.
  unfold partition_point. induction l as [|x r IH]; cbn; [reflexivity|].
  destruct (p x); cbn; [now rewrite IH|reflexivity].
Qed.

Lemma pp_le_length {A} (p : A -> bool) l : (partition_point p l <= List.length l)%nat.
Proof.
  unfold partition_point. induction l as [|x r IH]; cbn; [lia|]. destruct (p x); cbn; lia.
Qed.

Lemma pp_mono {A} (p q : A -> bool) l :
  (forall x, In x l -> p x = true -> q x = true) -> (partition_point p l <= partition_point q l)%nat.
Proof.
  unfold partition_point. induction l as [|x r IH]; intros H; cbn; [lia|].
  destruct (p x) eqn:Hp; cbn; [|lia].
  rewrite (H x (or_introl eq_refl) Hp). cbn. apply le_n_S, IH. intros y Hy. apply H. now right.
Qed.

Lemma split_at_unique {A} (p : A -> bool) l n : split_at p l n -> n = partition_point p l.
Proof.
  unfold partition_point. revert n. induction l as [|x r IH]; intros n (Hn & Hf & Hs).
  - cbn in *. lia.
  - destruct n as [|n]; cbn in *.
    + apply andb_true_iff in Hs as [Hx _]. destruct (p x); [discriminate|reflexivity].
    + apply andb_true_iff in Hf as [Hx Hf]. rewrite Hx. cbn. f_equal. apply IH.
      repeat split; [lia|assumption|assumption].
Qed.

Lemma take_while_filter {A} (R : A -> A -> Prop) (p : A -> bool) l :
  StronglySorted R l ->
  (forall x y, In x l -> In y l -> R x y -> p y = true -> p x = true) ->
  take_while p l = filter p l /\ drop_while p l = filter (fun x => negb (p x)) l.
Proof.
  induction 1 as [|x r Hss IH Hall]; intros Hanti; cbn; [split; reflexivity|].
  destruct (p x) eqn:Hp; cbn.
  - destruct IH as [IH1 IH2].
    { intros a b Ha Hb. apply Hanti; now right. }
    now rewrite IH1, IH2.
  - assert (Hnone : forall y, In y r -> p y = false).
    { intros y Hy. destruct (p y) eqn:Hpy; [|reflexivity].
      rewrite Forall_forall in Hall.
      rewrite (Hanti x y (or_introl eq_refl) (or_intror Hy) (Hall y Hy) Hpy) in Hp. discriminate. }
    split.
    + symmetry. clear -Hnone. induction r as [|y r IH]; cbn; [reflexivity|].
      rewrite (Hnone y (or_introl eq_refl)). apply IH. intros z Hz. apply Hnone. now right.
    + f_equal. clear -Hnone. induction r as [|y r IH]; cbn; [reflexivity|].
      rewrite (Hnone y (or_introl eq_refl)). cbn. f_equal. apply IH. intros z Hz. apply Hnone. now right.
Qed.

Lemma partitioned_of_sorted {A} (R : A -> A -> Prop) (p : A -> bool) l :
  StronglySorted R l ->
  (forall x y, In x l -> In y l -> R x y -> p y = true -> p x = true) ->
  split_at p l (partition_point p l).
Proof.
  intros Hss Hanti. destruct (take_while_filter R p l Hss Hanti) as [H1 H2].
  repeat split.
  - apply pp_le_length.
  - rewrite firstn_pp, H1. apply forallb_forall. intros x Hx. now apply filter_In in Hx.
  - rewrite skipn_pp, H2. apply forallb_forall. intros x Hx. now apply filter_In in Hx.
Qed.

(* ------------------------------------------------------------------------------------ *)
(* B. the invariant of a tablet list                                                     *)
(* ------------------------------------------------------------------------------------ *)

Definition t_wf (t : tablet) : Prop := i64_ok (t_first t) /\ i64_ok (t_last t) /\ t_first t <= t_last t.
Definition lt_tab (x y : tablet) : Prop := t_last x < t_first y.
Definition list_inv (l : list tablet) : Prop := Forall t_wf l /\ StronglySorted lt_tab l.

Lemma StronglySorted_nth {A} (R : A -> A -> Prop) l :
  StronglySorted R l -> forall i j x y, (i < j)%nat -> nth_error l i = Some x -> nth_error l j = Some y -> R x y.
Proof.
  induction 1 as [|a r Hss IH Hall]; intros i j x y Hij Hi Hj.
  - destruct i; discriminate.
  - destruct j as [|j]; [lia|]. cbn in Hj. destruct i as [|i]; cbn in Hi.
    + injection Hi as <-. rewrite Forall_forall in Hall. apply Hall. eapply nth_error_In; eassumption.
    + eapply IH; [|eassumption|eassumption]. lia.
Qed.

Lemma list_inv_tablets_inv l : list_inv l -> tablets_inv l.
Proof.
  intros [Hwf Hss]. split.
  - intros t Ht. rewrite Forall_forall in Hwf. exact (Hwf t Ht).
  - intros i j x y. apply (StronglySorted_nth lt_tab l Hss).
Qed.

Definition overlaps (y t : tablet) : bool := ranges_overlap (t_first t) (t_last t) (t_first y) (t_last y).
Definition covers (tok : Z) (t : tablet) : bool := (t_first t <=? tok) && (tok <=? t_last t).

Lemma anti_p1 l f : Forall t_wf l ->
  forall x y, In x l -> In y l -> lt_tab x y -> (t_last y <? f) = true -> (t_last x <? f) = true.
Proof.
  intros Hwf x y Hx Hy Hxy Hp. rewrite Forall_forall in Hwf.
  destruct (Hwf y Hy) as (_ & _ & Hy'). unfold lt_tab in Hxy. lia.
Qed.

Lemma anti_p2 l la : Forall t_wf l ->
  forall x y, In x l -> In y l -> lt_tab x y -> (t_first y <=? la) = true -> (t_first x <=? la) = true.
Proof.
  intros Hwf x y Hx Hy Hxy Hp. rewrite Forall_forall in Hwf.
  destruct (Hwf x Hx) as (_ & _ & Hx'). unfold lt_tab in Hxy. lia.
Qed.

Lemma StronglySorted_filter {A} (R : A -> A -> Prop) (p : A -> bool) l :
  StronglySorted R l -> StronglySorted R (filter p l).
Proof.
  induction 1 as [|x r Hss IH Hall]; cbn; [constructor|].
  destruct (p x); [|assumption]. constructor; [assumption|].
  rewrite Forall_forall in *. intros y Hy. apply filter_In in Hy. now apply Hall.
Qed.

Lemma StronglySorted_app {A} (R : A -> A -> Prop) l1 l2 :
  StronglySorted R l1 -> StronglySorted R l2 -> (forall x y, In x l1 -> In y l2 -> R x y) ->
  StronglySorted R (l1 ++ l2).
Proof.
  induction 1 as [|x r Hss IH Hall]; intros H2 Hc; cbn; [assumption|].
  constructor.
  - apply IH; [assumption|]. intros a b Ha Hb. apply Hc; [now right|assumption].
  - rewrite Forall_forall in *. intros y Hy. apply in_app_or in Hy as [Hy|Hy]; [now apply Hall|].
    apply Hc; [now left|assumption].
Qed.

(* add_tablet: never panics, keeps the invariant, and as a SET the new list is
   {t} + {old tablets that do not overlap t} *)
Lemma add_tablet_spec l fl t :
  list_inv l -> t_wf t ->
  exists l', add_tablet (mkTT l fl) t =
             Some (mkTT l' (match t_failed t with Some _ => true | None => fl end)) /\
             list_inv l' /\
             (forall z, In z l' <-> z = t \/ (In z l /\ overlaps z t = false)).
Proof.
  intros [Hwf Hss] Ht. unfold add_tablet. cbn [tt_list tt_flag].
  set (p1 := fun x : tablet => t_last x <? t_first t).
  set (p2 := fun x : tablet => t_first x <=? t_last t).
  assert (Hle : (partition_point p1 l <= partition_point p2 l)%nat).
  { apply pp_mono. intros x Hx Hp. unfold p1, p2 in *. rewrite Forall_forall in Hwf.
    destruct (Hwf x Hx) as (_ & _ & Hx'). destruct Ht as (_ & _ & Ht'). lia. }
  destruct (Nat.ltb_spec (partition_point p2 l) (partition_point p1 l)) as [Hlt|_]; [lia|].
  rewrite firstn_pp, skipn_pp.
  destruct (take_while_filter lt_tab p1 l Hss (anti_p1 l _ Hwf)) as [E1 _].
  destruct (take_while_filter lt_tab p2 l Hss (anti_p2 l _ Hwf)) as [_ E2].
  rewrite E1, E2. eexists. split; [reflexivity|].
  assert (Hin1 : forall z, In z (filter p1 l) <-> In z l /\ t_last z < t_first t).
  { intros z. rewrite filter_In. unfold p1. split; intros [A B]; split; try assumption; lia. }
  assert (Hin2 : forall z, In z (filter (fun x => negb (p2 x)) l) <-> In z l /\ t_last t < t_first z).
  { intros z. rewrite filter_In. unfold p2. split; intros [A B]; split; try assumption; lia. }
  rewrite Forall_forall in Hwf.
  split; [split|].
  - apply Forall_forall. intros z Hz. apply in_app_or in Hz as [Hz|[<-|Hz]]; [|assumption|].
    + apply filter_In in Hz. now apply Hwf.
    + apply filter_In in Hz. now apply Hwf.
  - apply StronglySorted_app.
    + now apply StronglySorted_filter.
    + constructor; [now apply StronglySorted_filter|].
      apply Forall_forall. intros z Hz. apply Hin2 in Hz. unfold lt_tab. tauto.
    + intros x y Hx Hy. apply Hin1 in Hx as [Hx Hx']. destruct Hy as [<-|Hy]; unfold lt_tab; [assumption|].
      apply Hin2 in Hy as [Hy Hy']. destruct Ht as (_ & _ & Ht'). lia.
  - intros z. rewrite in_app_iff. cbn [In]. rewrite Hin1, Hin2.
    unfold overlaps, ranges_overlap. split.
    + intros [[A B]|[A|[A B]]]; [right|left; now symmetry|right]; (split; [assumption|]); lia.
    + intros [->|[A B]]; [right; now left|].
      destruct (Z.leb_spec (t_first t) (t_last z)); destruct (Z.leb_spec (t_first z) (t_last t)); cbn in B;
        try discriminate; [right; right|left|left]; (split; [assumption|]); try lia.
      (* first t > last z *)
Qed.

(* ------------------------------------------------------------------------------------ *)
(* C. lookup as a set-like search                                                        *)
(* ------------------------------------------------------------------------------------ *)

Lemma find_none_iff {A} (f : A -> bool) l : find f l = None <-> forall x, In x l -> f x = false.
Proof.
  split; [apply find_none|]. induction l as [|a r IH]; intros H; cbn; [reflexivity|].
  rewrite (H a (or_introl eq_refl)). apply IH. intros x Hx. apply H. now right.
Qed.

Lemma list_inv_tail x l : list_inv (x :: l) -> list_inv l.
Proof. intros [Hwf Hss]. inversion Hwf; inversion Hss; subst. split; assumption. Qed.

Lemma list_inv_head x l : list_inv (x :: l) ->
  t_wf x /\ forall y, In y l -> t_last x < t_first y.
Proof.
  intros [Hwf Hss]. inversion Hwf; inversion Hss; subst. split; [assumption|].
  intros y Hy. rewrite Forall_forall in *. now apply H6.
Qed.

Lemma tablet_for_token_find l tok :
  list_inv l -> tablet_for_token l tok = find (covers tok) l.
Proof.
  unfold tablet_for_token, partition_point. induction l as [|x r IH]; intros Hinv; [reflexivity|].
  cbn [take_while find]. unfold covers at 1.
  destruct (Z.ltb_spec (t_last x) tok) as [Hlt|Hge].
  - cbn [List.length nth_error]. rewrite IH by (eapply list_inv_tail; eassumption).
    destruct (Z.leb_spec tok (t_last x)); [lia|]. now rewrite andb_false_r.
  - cbn [List.length nth_error]. destruct (Z.leb_spec tok (t_last x)); [|lia]. rewrite andb_true_r.
    destruct (Z.leb_spec (t_first x) tok) as [Hf|Hf]; [reflexivity|].
    symmetry. apply find_none_iff. intros y Hy. destruct (list_inv_head _ _ Hinv) as [(_ & _ & Hx) Hlt].
    specialize (Hlt y Hy). unfold covers. destruct (Z.leb_spec (t_first y) tok); [lia|reflexivity].
Qed.

Lemma find_covers_unique l tok y :
  list_inv l -> In y l -> covers tok y = true -> find (covers tok) l = Some y.
Proof.
  induction l as [|x r IH]; intros Hinv Hy Hc; [contradiction|]. cbn [find].
  destruct (list_inv_head _ _ Hinv) as [(_ & _ & Hx) Hlt].
  destruct Hy as [->|Hy]; [now rewrite Hc|].
  destruct (covers tok x) eqn:Hcx.
  - exfalso. specialize (Hlt y Hy). unfold covers in *.
    assert (Hwy : t_wf y). { destruct Hinv as [Hwf _]. rewrite Forall_forall in Hwf. apply Hwf. now right. }
    destruct Hwy as (_ & _ & Hwy). lia.
  - apply IH; [eapply list_inv_tail; eassumption|assumption|assumption].
Qed.

Lemma find_covers_some l tok y : find (covers tok) l = Some y -> In y l /\ covers tok y = true.
Proof. apply find_some. Qed.

(* lookup after add_tablet *)
Lemma find_after_add l l' t tok :
  list_inv l -> list_inv l' ->
  (forall z, In z l' <-> z = t \/ (In z l /\ overlaps z t = false)) ->
  find (covers tok) l' =
  if covers tok t then Some t
  else match find (covers tok) l with
       | Some y => if overlaps y t then None else Some y
       | None => None
       end.
Proof.
  intros Hl Hl' Hin.
  destruct (covers tok t) eqn:Hct.
  - apply find_covers_unique; [assumption| |assumption]. apply Hin. now left.
  - destruct (find (covers tok) l) as [y|] eqn:Hf.
    + apply find_covers_some in Hf as [Hy Hcy].
      destruct (overlaps y t) eqn:Hov.
      * apply find_none_iff. intros z Hz. apply Hin in Hz as [->|[Hz Hoz]]; [assumption|].
        destruct (covers tok z) eqn:Hcz; [|reflexivity].
        assert (z = y).
        { pose proof (find_covers_unique l tok z Hl Hz Hcz) as E1.
          pose proof (find_covers_unique l tok y Hl Hy Hcy) as E2. congruence. }
        subst. congruence.
      * apply find_covers_unique; [assumption| |assumption]. apply Hin. right. now split.
    + apply find_none_iff. intros z Hz. apply Hin in Hz as [->|[Hz _]]; [assumption|].
      rewrite find_none_iff in Hf. now apply Hf.
Qed.

(* range-preserving partial maps over the list (maintenance) *)
Definition range_pres (F : tablet -> option tablet) : Prop :=
  forall x y, F x = Some y -> t_first y = t_first x /\ t_last y = t_last x.

Lemma filter_map_In {A B} (F : A -> option B) l y :
  In y (filter_map F l) <-> exists x, In x l /\ F x = Some y.
Proof.
  induction l as [|a r IH]; cbn.
  - split; [contradiction|]. intros (x & [] & _).
  - destruct (F a) eqn:Ha; cbn; rewrite IH; split.
    + intros [<-|(x & Hx & E)]; [exists a; split; [now left|assumption]|exists x; split; [now right|assumption]].
    + intros (x & [<-|Hx] & E); [left; congruence|right; exists x; now split].
    + intros (x & Hx & E). exists x; split; [now right|assumption].
    + intros (x & [<-|Hx] & E); [congruence|exists x; now split].
Qed.

Lemma list_inv_filter_map F l : range_pres F -> list_inv l -> list_inv (filter_map F l).
Proof.
  intros HF. induction l as [|a r IH]; intros Hinv; cbn; [assumption|].
  pose proof (IH (list_inv_tail _ _ Hinv)) as IH'.
  destruct (F a) as [b|] eqn:Ha; [|assumption].
  destruct (list_inv_head _ _ Hinv) as [Hwa Hlt]. destruct (HF a b Ha) as [E1 E2].
  destruct IH' as [Hwf Hss]. split.
  - constructor; [|assumption]. unfold t_wf in *. now rewrite E1, E2.
  - constructor; [assumption|]. apply Forall_forall. intros y Hy.
    apply filter_map_In in Hy as (x & Hx & Ex). destruct (HF x y Ex) as [E3 _].
    unfold lt_tab. rewrite E2, E3. now apply Hlt.
Qed.

Lemma covers_range_pres F x y tok : range_pres F -> F x = Some y -> covers tok y = covers tok x.
Proof. intros HF E. destruct (HF x y E) as [E1 E2]. unfold covers. now rewrite E1, E2. Qed.

Lemma find_filter_map F l tok :
  range_pres F -> list_inv l ->
  find (covers tok) (filter_map F l) =
  match find (covers tok) l with Some x => F x | None => None end.
Proof.
  intros HF Hinv.
  pose proof (list_inv_filter_map F l HF Hinv) as Hinv'.
  destruct (find (covers tok) l) as [x|] eqn:Hf.
  - apply find_covers_some in Hf as [Hx Hcx].
    destruct (F x) as [y|] eqn:Ex.
    + apply find_covers_unique; [assumption| |].
      * apply filter_map_In. exists x. now split.
      * now rewrite (covers_range_pres F x y tok HF Ex).
    + apply find_none_iff. intros z Hz. apply filter_map_In in Hz as (w & Hw & Ew).
      rewrite (covers_range_pres F w z tok HF Ew).
      destruct (covers tok w) eqn:Hcw; [|reflexivity].
      assert (w = x).
      { pose proof (find_covers_unique l tok w Hinv Hw Hcw).
        pose proof (find_covers_unique l tok x Hinv Hx Hcx). congruence. }
      subst. congruence.
  - apply find_none_iff. intros z Hz. apply filter_map_In in Hz as (w & Hw & Ew).
    rewrite (covers_range_pres F w z tok HF Ew). rewrite find_none_iff in Hf. now apply Hf.
Qed.

Lemma filter_map_ext_in {A B} (F G : A -> option B) l :
  (forall x, In x l -> F x = G x) -> filter_map F l = filter_map G l.
Proof.
  induction l as [|a r IH]; intros H; cbn; [reflexivity|].
  rewrite (H a (or_introl eq_refl)), IH; [reflexivity|]. intros x Hx. apply H. now right.
Qed.

Lemma filter_as_filter_map {A} (p : A -> bool) l :
  filter p l = filter_map (fun x => if p x then Some x else None) l.
Proof. induction l as [|a r IH]; cbn; [reflexivity|]. destruct (p a); now rewrite IH. Qed.

Lemma map_as_filter_map {A B} (g : A -> B) l : map g l = filter_map (fun x => Some (g x)) l.
Proof. induction l as [|a r IH]; cbn; [reflexivity|]. now rewrite IH. Qed.

Lemma filter_map_comp {A B C} (F : A -> option B) (G : B -> option C) l :
  filter_map G (filter_map F l) = filter_map (fun x => match F x with Some y => G y | None => None end) l.
Proof.
  induction l as [|a r IH]; cbn; [reflexivity|]. destruct (F a) as [b|]; cbn; [|assumption].
  destruct (G b); now rewrite IH.
Qed.

(* ------------------------------------------------------------------------------------ *)
(* D. replicas: resolution, per-DC index, recreated nodes                                *)
(* ------------------------------------------------------------------------------------ *)

Lemma optN_eqb_eq a b : optN_eqb a b = true <-> a = b.
Proof.
  destruct a as [x|], b as [y|]; cbn; split; intros H; try discriminate; try reflexivity.
  - apply N.eqb_eq in H. now subst.
  - injection H as ->. apply N.eqb_refl.
Qed.

Lemma node_eqb_eq a b : node_eqb a b = true -> a = b.
Proof.
  unfold node_eqb. intros H. apply andb_true_iff in H as [H H3]. apply andb_true_iff in H as [H1 H2].
  apply N.eqb_eq in H1, H2. apply optN_eqb_eq in H3. destruct a, b; cbn in *; congruence.
Qed.

Lemma find_existsb {A} (p : A -> bool) l : existsb p l = match find p l with Some _ => true | None => false end.
Proof. induction l as [|a r IH]; cbn; [reflexivity|]. destruct (p a); [reflexivity|assumption]. Qed.

Lemma resolve_spec known raw :
  fst (resolve known raw) = spec_resolved known raw /\
  is_nil (snd (resolve known raw)) = spec_all_known known raw.
Proof.
  induction raw as [|[h s] r IH]; [split; reflexivity|]. destruct IH as [IH1 IH2].
  cbn [resolve spec_resolved spec_all_known flat_map forallb fst snd].
  destruct (resolve known r) as [a f]. cbn [fst snd] in IH1, IH2.
  rewrite find_existsb. unfold find_node.
  destruct (find (fun n => (host n =? h)%N) known) as [n|]; cbn; subst; split; try reflexivity; assumption.
Qed.

Lemma dc_get_push d r m dc :
  dc_get (dc_push d r m) dc = if (d =? dc)%N then dc_get m dc ++ [r] else dc_get m dc.
Proof.
  unfold dc_get. induction m as [|[k v] m IH]; cbn [dc_push find fst snd].
  - destruct (N.eqb_spec d dc); reflexivity.
  - destruct (N.eqb_spec k d) as [->|Hkd]; cbn [find fst snd].
    + destruct (N.eqb_spec d dc); reflexivity.
    + destruct (N.eqb_spec k dc) as [->|Hk].
      * destruct (N.eqb_spec d dc); [congruence|reflexivity].
      * exact IH.
Qed.

Lemma dc_get_group_gen l m dc :
  dc_get (fold_left (fun m r => match ndc (fst r) with Some d => dc_push d r m | None => m end) l m) dc =
  dc_get m dc ++ restrict_dc dc l.
Proof.
  revert m. induction l as [|r l IH]; intros m; cbn [fold_left restrict_dc filter].
  - now rewrite app_nil_r.
  - rewrite IH. fold (restrict_dc dc l). destruct (ndc (fst r)) as [d|]; cbn [optN_eqb].
    + rewrite dc_get_push. destruct (N.eqb_spec d dc); [now rewrite <- app_assoc|reflexivity].
    + reflexivity.
Qed.

(* the per-DC index built by from_raw_replicas is the restriction of the full list *)
Lemma dc_get_group l dc : dc_get (group_dc l) dc = restrict_dc dc l.
Proof. unfold group_dc. now rewrite dc_get_group_gen. Qed.

Definition spec_swap (rec : list node) (r : replica) : replica :=
  match find (fun n => (host n =? host (fst r))%N) rec with Some n' => (n', snd r) | None => r end.

Lemma update_all_spec rec l :
  fst (update_all rec l) = map (spec_swap rec) l /\
  (snd (update_all rec l) = false -> fst (update_all rec l) = l).
Proof.
  induction l as [|[n s] r IH]; [split; reflexivity|]. destruct IH as [IH1 IH2].
  cbn [update_all map]. destruct (update_all rec r) as [r' u]. cbn [fst snd] in *.
  unfold spec_swap at 1. cbn [fst snd]. unfold find_node.
  destruct (find (fun n0 => (host n0 =? host n)%N) rec) as [n'|].
  - destruct (node_eqb n' n) eqn:E; cbn [fst snd].
    + apply node_eqb_eq in E. subst n'. split; [now rewrite IH1|]. intros ->. now rewrite IH2.
    + split; [now rewrite IH1|discriminate].
  - cbn [fst snd]. split; [now rewrite IH1|]. intros ->. now rewrite IH2.
Qed.

Lemma update_all_nil l : update_all [] l = (l, false).
Proof. induction l as [|[n s] r IH]; cbn; [reflexivity|]. now rewrite IH. Qed.

Definition tablet_ok (t : tablet) : Prop := r_per_dc (t_reps t) = group_dc (r_all (t_reps t)).

Lemma update_stale_nil t : update_stale [] t = t.
Proof. unfold update_stale. rewrite update_all_nil. destruct t as [f l [a pd] fl]. reflexivity. Qed.

Lemma update_stale_props rec t :
  t_first (update_stale rec t) = t_first t /\ t_last (update_stale rec t) = t_last t /\
  t_failed (update_stale rec t) = t_failed t /\
  r_all (t_reps (update_stale rec t)) = map (spec_swap rec) (r_all (t_reps t)) /\
  (tablet_ok t -> tablet_ok (update_stale rec t)).
Proof.
  unfold update_stale, tablet_ok. destruct (update_all_spec rec (r_all (t_reps t))) as [E1 E2].
  destruct (update_all rec (r_all (t_reps t))) as [a' u]. cbn [fst snd] in *. cbn.
  repeat split; try assumption. intros Hok. destruct u; [reflexivity|]. now rewrite E2.
Qed.

Lemma re_resolve_props current t t' :
  re_resolve current t = Some t' ->
  t_first t' = t_first t /\ t_last t' = t_last t /\ t_failed t' = None /\ (tablet_ok t -> tablet_ok t').
Proof.
  unfold re_resolve. destruct (t_failed t) as [raw|] eqn:Ef.
  - destruct (resolve current raw) as [a f]. destruct (is_nil f); [|discriminate].
    intros [= <-]. cbn. repeat split; reflexivity.
  - intros [= <-]. repeat split; auto.
Qed.

Lemma re_resolve_none_failed current t : t_failed t = None -> re_resolve current t = Some t.
Proof. unfold re_resolve. now intros ->. Qed.

Lemma no_removed_nil t : no_removed_replica [] t = true.
Proof. unfold no_removed_replica. apply forallb_forall. reflexivity. Qed.

(* what maintenance does to one tablet *)
Definition maint_tablet (removed : list N) (current recreated : list node) (t : tablet) : option tablet :=
  match re_resolve current t with
  | None => None
  | Some t1 => if no_removed_replica removed t1 then Some (update_stale recreated t1) else None
  end.

Lemma maint_tablet_range removed current recreated : range_pres (maint_tablet removed current recreated).
Proof.
  intros x y. unfold maint_tablet. destruct (re_resolve current x) as [t1|] eqn:E; [|discriminate].
  destruct (no_removed_replica removed t1); [|discriminate]. intros [= <-].
  destruct (re_resolve_props _ _ _ E) as (A & B & _). destruct (update_stale_props recreated t1) as (C & D & _).
  split; congruence.
Qed.

Lemma maint_tablet_props removed current recreated x y :
  maint_tablet removed current recreated x = Some y -> t_failed y = None /\ (tablet_ok x -> tablet_ok y).
Proof.
  unfold maint_tablet. destruct (re_resolve current x) as [t1|] eqn:E; [|discriminate].
  destruct (no_removed_replica removed t1); [|discriminate]. intros [= <-].
  destruct (re_resolve_props _ _ _ E) as (_ & _ & F & G). destruct (update_stale_props recreated t1) as (_ & _ & H & _ & I).
  split; [congruence|auto].
Qed.

Lemma maint_tablet_id current t : t_failed t = None -> maint_tablet [] current [] t = Some t.
Proof.
  intros H. unfold maint_tablet. rewrite re_resolve_none_failed by assumption.
  now rewrite no_removed_nil, update_stale_nil.
Qed.

Definition flag_ok (tt : table_tablets) : Prop :=
  tt_flag tt = false -> forall t, In t (tt_list tt) -> t_failed t = None.

Lemma filter_all_true {A} (p : A -> bool) l : (forall x, In x l -> p x = true) -> filter p l = l.
Proof.
  induction l as [|a r IH]; intros H; cbn; [reflexivity|]. rewrite (H a (or_introl eq_refl)).
  f_equal. apply IH. intros x Hx. apply H. now right.
Qed.

(* the three passes of TableTablets::perform_maintenance, with their guards, are one filter_map *)
Lemma table_maintenance_list removed current recreated tt :
  flag_ok tt ->
  table_maintenance removed current recreated tt =
  mkTT (filter_map (maint_tablet removed current recreated) (tt_list tt)) false.
Proof.
  intros Hfl. unfold table_maintenance. f_equal.
  set (l1 := if tt_flag tt then filter_map (re_resolve current) (tt_list tt) else tt_list tt).
  assert (E1 : l1 = filter_map (re_resolve current) (tt_list tt)).
  { unfold l1. destruct (tt_flag tt) eqn:Ef; [reflexivity|].
    rewrite (filter_map_ext_in (re_resolve current) (fun x => Some x)).
    - clear. induction (tt_list tt) as [|a r IH]; cbn; [reflexivity|]. now rewrite <- IH.
    - intros x Hx. apply re_resolve_none_failed. now apply Hfl. }
  set (l2 := if is_nil removed then l1 else filter (no_removed_replica removed) l1).
  assert (E2 : l2 = filter (no_removed_replica removed) l1).
  { unfold l2. destruct removed; [|reflexivity]. cbn [is_nil]. symmetry. apply filter_all_true.
    intros x _. apply no_removed_nil. }
  assert (E3 : (if is_nil recreated then l2 else map (update_stale recreated) l2) = map (update_stale recreated) l2).
  { destruct recreated; [|reflexivity]. cbn [is_nil]. rewrite (map_ext _ (fun x => x)), map_id; [reflexivity|].
    apply update_stale_nil. }
  rewrite E3, E2, E1, filter_as_filter_map, map_as_filter_map, !filter_map_comp.
  apply filter_map_ext_in. intros x _. unfold maint_tablet.
  destruct (re_resolve current x) as [t1|]; [|reflexivity]. destruct (no_removed_replica removed t1); reflexivity.
Qed.

(* ------------------------------------------------------------------------------------ *)
(* E. the table map                                                                      *)
(* ------------------------------------------------------------------------------------ *)

Lemma tkey_eqb_eq a b : tkey_eqb a b = true <-> a = b.
Proof.
  unfold tkey_eqb. destruct a as [a1 a2], b as [b1 b2]. cbn. rewrite andb_true_iff, !N.eqb_eq.
  split; [intros [-> ->]; reflexivity|intros [= -> ->]; split; reflexivity].
Qed.

Lemma tkey_eqb_refl a : tkey_eqb a a = true.
Proof. now apply tkey_eqb_eq. Qed.

Lemma tkey_eqb_neq a b : a <> b -> tkey_eqb a b = false.
Proof. intros H. destruct (tkey_eqb a b) eqn:E; [|reflexivity]. apply tkey_eqb_eq in E. contradiction. Qed.

Definition afind (m : list (tkey * table_tablets)) (k : tkey) : option table_tablets :=
  option_map snd (find (fun kv => tkey_eqb (fst kv) k) m).

Lemma find_table_afind s k : find_table s k = afind (i_tables s) k.
Proof. reflexivity. Qed.

Lemma afind_In m k v : afind m k = Some v -> In (k, v) m.
Proof.
  unfold afind. destruct (find _ m) as [[k' v']|] eqn:E; [|discriminate]. intros [= <-].
  apply find_some in E as [Hin Hk]. apply tkey_eqb_eq in Hk. cbn in Hk. now subst.
Qed.

Definition or_empty (o : option table_tablets) : table_tablets :=
  match o with Some v => v | None => tt_empty end.

Lemma upsert_spec k f m :
  match f (or_empty (afind m k)) with
  | None => upsert k f m = None
  | Some v' => exists m', upsert k f m = Some m' /\ afind m' k = Some v' /\
                          (forall k', k' <> k -> afind m' k' = afind m k') /\
                          (forall kv, In kv m' -> In kv m \/ snd kv = v')
  end.
Proof.
  induction m as [|[k0 v0] m IH]; cbn [upsert].
  - cbn. destruct (f tt_empty) as [v'|]; [|reflexivity]. cbn. eexists. split; [reflexivity|].
    unfold afind. cbn. rewrite tkey_eqb_refl. cbn. split; [reflexivity|]. split.
    + intros k' Hk'. rewrite tkey_eqb_neq by congruence. reflexivity.
    + intros kv [<-|[]]. now right.
  - unfold afind at 1. cbn [find fst]. destruct (tkey_eqb k0 k) eqn:E.
    + cbn [option_map snd or_empty]. apply tkey_eqb_eq in E. subst k0.
      destruct (f v0) as [v'|]; [|reflexivity]. cbn. eexists. split; [reflexivity|].
      unfold afind. cbn. rewrite tkey_eqb_refl. cbn. split; [reflexivity|]. split.
      * intros k' Hk'. rewrite tkey_eqb_neq by congruence. reflexivity.
      * intros kv [<-|H]; [now right|left; now right].
    + fold (afind m k). destruct (f (or_empty (afind m k))) as [v'|].
      * destruct IH as (m' & E1 & E2 & E3 & E4). rewrite E1. cbn. eexists. split; [reflexivity|].
        unfold afind. cbn [find fst]. rewrite E. fold (afind m' k). split; [assumption|]. split.
        -- intros k' Hk'. destruct (tkey_eqb k0 k'); [reflexivity|]. fold (afind m' k'). fold (afind m k'). now apply E3.
        -- intros kv [<-|H]; [left; now left|]. destruct (E4 kv H); [left; now right|now right].
      * now rewrite IH.
Qed.

Lemma afind_filter keep m k :
  afind (filter (fun kv => keep (fst kv)) m) k = if keep k then afind m k else None.
Proof.
  unfold afind. induction m as [|[k0 v0] m IH]; cbn [filter find fst].
  - now destruct (keep k).
  - destruct (keep k0) eqn:Ek0; cbn [find fst].
    + destruct (tkey_eqb k0 k) eqn:E.
      * apply tkey_eqb_eq in E. subst. now rewrite Ek0.
      * exact IH.
    + destruct (tkey_eqb k0 k) eqn:E.
      * apply tkey_eqb_eq in E. subst. now rewrite Ek0 in *.
      * exact IH.
Qed.

Lemma has_table_afind m k : has_table m k = match afind m k with Some _ => true | None => false end.
Proof.
  unfold has_table, afind. rewrite find_existsb. now destruct (find _ m).
Qed.

Lemma afind_app m1 m2 k : afind (m1 ++ m2) k = match afind m1 k with Some v => Some v | None => afind m2 k end.
Proof.
  unfold afind. induction m1 as [|[k0 v0] m1 IH]; cbn [app find fst]; [reflexivity|].
  destruct (tkey_eqb k0 k); [reflexivity|exact IH].
Qed.

Lemma afind_add_missing ks m k :
  afind (fold_left add_missing ks m) k =
  match afind m k with
  | Some v => Some v
  | None => if existsb (fun k' => tkey_eqb k' k) ks then Some tt_empty else None
  end.
Proof.
  revert m. induction ks as [|k0 ks IH]; intros m; cbn [fold_left existsb].
  - now destruct (afind m k).
  - rewrite IH. unfold add_missing. rewrite has_table_afind.
    destruct (afind m k0) as [v0|] eqn:E0.
    + destruct (afind m k) as [v|] eqn:Ek; [reflexivity|].
      destruct (tkey_eqb k0 k) eqn:E; [|reflexivity]. apply tkey_eqb_eq in E. congruence.
    + rewrite afind_app. destruct (afind m k) as [v|] eqn:Ek; [reflexivity|].
      unfold afind at 1. cbn [find fst]. destruct (tkey_eqb k0 k); reflexivity.
Qed.

Lemma In_add_missing ks m kv :
  In kv (fold_left add_missing ks m) -> In kv m \/ snd kv = tt_empty.
Proof.
  revert m. induction ks as [|k0 ks IH]; intros m; cbn [fold_left]; [now left|].
  intros H. apply IH in H as [H|H]; [|now right]. unfold add_missing in H.
  destruct (has_table m k0); [now left|]. apply in_app_or in H as [H|[<-|[]]]; [now left|now right].
Qed.

Lemma afind_map (g : table_tablets -> table_tablets) m k :
  afind (map (fun kv => (fst kv, g (snd kv))) m) k = option_map g (afind m k).
Proof.
  unfold afind. induction m as [|[k0 v0] m IH]; cbn [map find fst snd]; [reflexivity|].
  destruct (tkey_eqb k0 k); [reflexivity|exact IH].
Qed.

(* ------------------------------------------------------------------------------------ *)
(* F. the state invariant and its preservation                                           *)
(* ------------------------------------------------------------------------------------ *)

Definition table_ok (tt : table_tablets) : Prop :=
  list_inv (tt_list tt) /\ flag_ok tt /\ Forall tablet_ok (tt_list tt).

Definition state_inv (s : info) : Prop :=
  (forall kv, In kv (i_tables s) -> table_ok (snd kv)) /\
  (i_flag s = false -> forall kv, In kv (i_tables s) -> tt_flag (snd kv) = false).

Lemma table_ok_empty : table_ok tt_empty.
Proof.
  repeat split; cbn; try constructor. intros _ t [].
Qed.

Lemma state_inv_empty : state_inv info_empty.
Proof. split; [intros kv []|intros _ kv []]. Qed.

Lemma state_inv_find s k tt : state_inv s -> find_table s k = Some tt -> table_ok tt.
Proof. intros [H _] E. apply afind_In in E. exact (H _ E). Qed.

Lemma i64_ok_b z : i64_okb z = true <-> i64_ok z.
Proof. unfold i64_okb, i64_ok. rewrite andb_true_iff. lia. Qed.

Lemma i64_consts : i64_min = -9223372036854775808 /\ i64_max = 9223372036854775807.
Proof. split; reflexivity. Qed.

(* payload validation: an accepted payload with i64 bounds gives exactly [a+1, b], non-empty,
   inside i64, no wrap-around and no normalisation *)
Lemma payload_check_ok a b raw f l r :
  i64_ok a -> i64_ok b -> payload_check a b raw = Ok (f, l, r) ->
  a < b /\ f = a + 1 /\ l = b /\ i64_ok f /\ i64_ok l /\ f <= l /\
  conv_shards raw = Some r.
Proof.
  unfold payload_check, i64_ok. destruct i64_consts as [Emin Emax]. rewrite Emin, Emax. intros Ha Hb.
  destruct (Z.leb_spec b a) as [|Hlt]; [discriminate|].
  destruct (conv_shards raw) as [r'|]; [|discriminate]. intros [= <- <- <-].
  assert (Ew : wrap64 (a + 1) = a + 1).
  { unfold wrap64. rewrite Z.mod_small; lia. }
  rewrite Ew. unfold token_new. rewrite Emin, Emax.
  destruct (Z.eqb_spec (a + 1) (-9223372036854775808)); [lia|].
  destruct (Z.eqb_spec b (-9223372036854775808)); [lia|].
  repeat split; lia.
Qed.

Lemma from_raw_tablet_props first last raw known :
  let t := from_raw_tablet first last raw known in
  t_first t = first /\ t_last t = last /\ tablet_ok t /\
  r_all (t_reps t) = spec_resolved known raw /\
  t_failed t = (if spec_all_known known raw then None else Some raw).
Proof.
  unfold from_raw_tablet. destruct (resolve_spec known raw) as [E1 E2].
  destruct (resolve known raw) as [a f]. cbn [fst snd] in *. cbn. rewrite <- E2.
  repeat split; try assumption; reflexivity.
Qed.

Lemma info_add_inv s k t :
  state_inv s -> t_wf t -> tablet_ok t ->
  exists s', info_add s k t = Some s' /\ state_inv s' /\
    (forall k', k' <> k -> find_table s' k' = find_table s k') /\
    exists tt', find_table s' k = Some tt' /\
      list_inv (tt_list tt') /\
      (forall z, In z (tt_list tt') <-> z = t \/ (In z (tt_list (or_empty (find_table s k))) /\ overlaps z t = false)).
Proof.
  intros Hinv Hwf Hok. unfold info_add.
  pose proof (upsert_spec k (fun tt => add_tablet tt t) (i_tables s)) as Hup. cbn beta in Hup.
  change (afind (i_tables s) k) with (find_table s k) in Hup.
  assert (Hold : table_ok (or_empty (find_table s k))).
  { destruct (find_table s k) as [tt0|] eqn:E; cbn; [eapply state_inv_find; eassumption|apply table_ok_empty]. }
  destruct Hold as (Hli & Hfl & Hdc).
  destruct (or_empty (find_table s k)) as [l0 fl0] eqn:Eold. cbn [tt_list tt_flag] in *.
  destruct (add_tablet_spec l0 fl0 t Hli Hwf) as (l' & Eadd & Hli' & Hin').
  rewrite Eadd in Hup. destruct Hup as (m' & E1 & E2 & E3 & E4). rewrite E1. cbn [option_map].
  eexists. split; [reflexivity|]. split; [|split].
  - split; cbn [i_tables i_flag].
    + intros kv Hkv. destruct (E4 kv Hkv) as [Hold|Hnew]; [now apply (proj1 Hinv)|].
      rewrite Hnew. split; [|split]; cbn [tt_list tt_flag].
      * assumption.
      * unfold flag_ok. cbn [tt_list tt_flag]. intros Hf z Hz. destruct (t_failed t) eqn:Ft; [discriminate|].
        apply Hin' in Hz as [->|[Hz _]]; [assumption|]. now apply Hfl.
      * apply Forall_forall. intros z Hz. apply Hin' in Hz as [->|[Hz _]]; [assumption|].
        rewrite Forall_forall in Hdc. now apply Hdc.
    + intros Hf kv Hkv. destruct (t_failed t) eqn:Ft; [discriminate|].
      destruct (E4 kv Hkv) as [Hold|Hnew]; [now apply (proj2 Hinv)|].
      rewrite Hnew. cbn [tt_flag].
      destruct (find_table s k) as [tt0|] eqn:E0; cbn in Eold.
      * subst tt0. apply afind_In in E0. exact (proj2 Hinv Hf _ E0).
      * now injection Eold as _ <-.
  - intros k' Hk'. cbn. now apply E3.
  - eexists. split; [exact E2|]. cbn [tt_list]. split; [assumption|]. exact Hin'.
Qed.

Lemma table_maintenance_ok removed current recreated tt :
  table_ok tt -> table_ok (table_maintenance removed current recreated tt).
Proof.
  intros (Hli & Hfl & Hdc). rewrite table_maintenance_list by assumption.
  split; [|split]; cbn [tt_list tt_flag].
  - apply list_inv_filter_map; [apply maint_tablet_range|assumption].
  - intros _ y Hy. apply filter_map_In in Hy as (x & _ & E). now apply maint_tablet_props in E.
  - apply Forall_forall. intros y Hy. apply filter_map_In in Hy as (x & Hx & E).
    apply maint_tablet_props in E as [_ E]. apply E. rewrite Forall_forall in Hdc. now apply Hdc.
Qed.

Lemma info_maintenance_inv kss removed current recreated s :
  state_inv s -> state_inv (info_maintenance kss removed current recreated s).
Proof.
  intros [H1 H2]. unfold info_maintenance.
  set (t1 := filter _ (i_tables s)). set (t2 := fold_left add_missing _ t1).
  assert (Ht2 : forall kv, In kv t2 -> table_ok (snd kv) /\ (i_flag s = false -> tt_flag (snd kv) = false)).
  { intros kv Hkv. apply In_add_missing in Hkv as [Hkv | ->].
    - apply filter_In in Hkv as [Hkv _]. split; [now apply H1|]. intros Hf. now apply H2.
    - split; [apply table_ok_empty|reflexivity]. }
  destruct (negb (is_nil removed) || negb (is_nil recreated) || i_flag s) eqn:Eg.
  - split; cbn [i_tables i_flag].
    + intros kv Hkv. apply in_map_iff in Hkv as (kv0 & <- & Hkv0). cbn [snd].
      apply table_maintenance_ok. now apply Ht2.
    + intros _ kv Hkv. apply in_map_iff in Hkv as (kv0 & <- & Hkv0). reflexivity.
  - apply orb_false_iff in Eg as [_ Eg]. split; cbn [i_tables i_flag].
    + intros kv Hkv. now apply Ht2.
    + intros _ kv Hkv. now apply Ht2.
Qed.

(* ------------------------------------------------------------------------------------ *)
(* G. histories: no panic, invariant after every history                                 *)
(* ------------------------------------------------------------------------------------ *)

Lemma conv_shards_spec raw :
  match conv_shards raw with
  | Some r => forallb (fun hs => 0 <=? snd hs) raw = true /\ r = map (fun hs => (fst hs, Z.to_N (snd hs))) raw
  | None => forallb (fun hs => 0 <=? snd hs) raw = false
  end.
Proof.
  induction raw as [|[h s] raw IH]; cbn [conv_shards forallb map fst snd]; [split; reflexivity|].
  destruct (Z.ltb_spec s 0) as [Hs|Hs].
  - destruct (Z.leb_spec 0 s); [lia|reflexivity].
  - destruct (Z.leb_spec 0 s); [|lia]. destruct (conv_shards raw) as [r|].
    + destruct IH as [IH1 IH2]. cbn. split; [assumption|now rewrite IH2].
    + cbn. assumption.
Qed.

Lemma payload_check_spec a b raw :
  match payload_check a b raw with
  | Ok (_, _, r) => spec_payload_ok a b raw = true /\ r = map (fun hs => (fst hs, Z.to_N (snd hs))) raw
  | Err _ => spec_payload_ok a b raw = false
  end.
Proof.
  unfold payload_check, spec_payload_ok. pose proof (conv_shards_spec raw) as H.
  destruct (Z.leb_spec b a) as [Hle|Hlt].
  - destruct (Z.ltb_spec a b); [lia|reflexivity].
  - destruct (Z.ltb_spec a b); [|lia]. destruct (conv_shards raw) as [r|].
    + destruct H as [H1 H2]. cbn. now rewrite H1.
    + cbn. assumption.
Qed.

Lemma learn_tablet a b raw known f l r :
  i64_ok a -> i64_ok b -> payload_check a b raw = Ok (f, l, r) ->
  let t := from_raw_tablet f l r known in
  t_wf t /\ tablet_ok t /\ t_first t = a + 1 /\ t_last t = b /\ a < b.
Proof.
  intros Ha Hb E. destruct (payload_check_ok a b raw f l r Ha Hb E) as (Hlt & -> & -> & H1 & H2 & H3 & _).
  cbn zeta. destruct (from_raw_tablet_props (a + 1) b r known) as (E1 & E2 & E3 & _).
  unfold t_wf. rewrite E1, E2. split; [tauto|]. split; [assumption|]. split; [reflexivity|]. split; [reflexivity|assumption].
Qed.

Lemma step_inv s o : state_inv s -> op_i64 o -> exists s', step s o = Some s' /\ state_inv s'.
Proof.
  intros Hinv Hok. destruct o as [k a b raw known|kss removed current recreated]; cbn [step].
  - destruct Hok as [Ha Hb]. destruct (payload_check a b raw) as [[[f l] r]|e] eqn:E.
    + destruct (learn_tablet a b raw known f l r Ha Hb E) as (Hwf & Hdc & _).
      destruct (info_add_inv s k _ Hinv Hwf Hdc) as (s' & E' & Hinv' & _). now exists s'.
    + now exists s.
  - eexists. split; [reflexivity|]. now apply info_maintenance_inv.
Qed.

Lemma run_from_app s h1 h2 : run_from s (h1 ++ h2) = run_from (run_from s h1) h2.
Proof. unfold run_from. apply fold_left_app. Qed.

Lemma run_from_none h : run_from None h = None.
Proof. induction h as [|o h IH]; [reflexivity|exact IH]. Qed.

Lemma run_from_inv h : forall s0, state_inv s0 -> Forall op_i64 h ->
  exists s, run_from (Some s0) h = Some s /\ state_inv s.
Proof.
  induction h as [|o h IH]; intros s0 Hinv Hok.
  - now exists s0.
  - inversion Hok as [|? ? Ho Hh]; subst. destruct (step_inv s0 o Hinv Ho) as (s1 & E1 & Hinv1).
    cbn [run_from fold_left]. rewrite E1. now apply IH.
Qed.

(* the code never panics (Vec::drain always gets left_idx <= right_idx) *)
Lemma run_total h : Forall op_i64 h -> exists s, run h = Some s /\ state_inv s.
Proof. apply run_from_inv, state_inv_empty. Qed.

Lemma run_no_panic h : Forall op_i64 h -> run h <> None.
Proof. intros H. destruct (run_total h H) as (s & E & _). congruence. Qed.

Lemma run_state_inv h s : Forall op_i64 h -> run h = Some s -> state_inv s.
Proof. intros H E. destruct (run_total h H) as (s' & E' & Hinv). congruence. Qed.

(* C15_inv *)
Lemma run_tablets_inv h s k tt :
  Forall op_i64 h -> run h = Some s -> find_table s k = Some tt -> tablets_inv (tt_list tt).
Proof.
  intros H E F. apply list_inv_tablets_inv. eapply state_inv_find in F as [Hli _]; [exact Hli|].
  eapply run_state_inv; eassumption.
Qed.

(* every prefix of a history is itself a history that ran *)
Lemma run_prefix h1 h2 s : run (h1 ++ h2) = Some s -> exists s1, run h1 = Some s1.
Proof.
  unfold run. rewrite run_from_app. destruct (run_from (Some info_empty) h1) as [s1|]; [now exists s1|].
  now rewrite run_from_none.
Qed.

(* the two partition_point calls and the one of the lookup run on partitioned slices *)
Lemma inv_partitioned l x :
  tablets_inv l ->
  split_at (fun t => t_last t <? x) l (partition_point (fun t => t_last t <? x) l) /\
  split_at (fun t => t_first t <=? x) l (partition_point (fun t => t_first t <=? x) l).
Proof.
  intros [Hwf Hord].
  assert (Hli : list_inv l).
  { split; [apply Forall_forall; intros t Ht; exact (Hwf t Ht)|].
    clear Hwf. induction l as [|a r IH]; [constructor|]. constructor.
    - apply IH. intros i j u v Hij Hi Hj. apply (Hord (S i) (S j) u v); [lia|assumption|assumption].
    - apply Forall_forall. intros y Hy. apply In_nth_error in Hy as [j Hj].
      apply (Hord 0%nat (S j) a y); [lia|reflexivity|assumption]. }
  destruct Hli as [Hwf' Hss]. split.
  - apply (partitioned_of_sorted lt_tab); [assumption|apply anti_p1; assumption].
  - apply (partitioned_of_sorted lt_tab); [assumption|apply anti_p2; assumption].
Qed.

(* ------------------------------------------------------------------------------------ *)
(* H. refinement: lookup = the per-token history specification                           *)
(* ------------------------------------------------------------------------------------ *)

Definition abs (t : tablet) : entry :=
  mkEntry (t_first t) (t_last t) (r_all (t_reps t)) (t_failed t).

Lemma lookup_or_empty s k tok :
  lookup_tablet s k tok = tablet_for_token (tt_list (or_empty (find_table s k))) tok.
Proof. unfold lookup_tablet. now destruct (find_table s k). Qed.

Lemma or_empty_ok s k : state_inv s -> table_ok (or_empty (find_table s k)).
Proof.
  intros Hinv. destruct (find_table s k) eqn:E; cbn; [eapply state_inv_find; eassumption|apply table_ok_empty].
Qed.

Lemma keep_table_spec kss k : keep_table kss k = spec_table_kept kss k.
Proof.
  unfold keep_table, spec_table_kept, ks_get, memN. rewrite find_existsb.
  destruct (find (fun d => (ks_name d =? fst k)%N) kss) as [d|]; [|reflexivity].
  cbn. now destruct (ks_tablet_based d).
Qed.

Lemma forallb_negb_existsb {A} (p : A -> bool) l : forallb (fun x => negb (p x)) l = negb (existsb p l).
Proof. induction l as [|a r IH]; cbn; [reflexivity|]. rewrite IH. now destruct (p a). Qed.

Lemma maint_abs kss removed current recreated k x :
  spec_table_kept kss k = true ->
  spec_maintain kss removed current recreated k (abs x) =
  option_map abs (maint_tablet removed current recreated x).
Proof.
  intros Hk. unfold spec_maintain, maint_tablet. rewrite Hk. cbn [negb].
  unfold re_resolve. cbn [abs e_pending e_first e_last e_reps].
  assert (Hfin : forall t1 : tablet,
    (if existsb (fun r => existsb (N.eqb (host (fst r))) removed) (r_all (t_reps t1)) then None
     else Some (mkEntry (t_first t1) (t_last t1)
            (map (fun r => match find (fun n => (host n =? host (fst r))%N) recreated with
                           | Some n' => (n', snd r) | None => r end) (r_all (t_reps t1))) (t_failed t1))) =
    option_map abs (if no_removed_replica removed t1 then Some (update_stale recreated t1) else None)).
  { intros t1. unfold no_removed_replica, memN. rewrite forallb_negb_existsb.
    destruct (existsb (fun r => existsb (N.eqb (host (fst r))) removed) (r_all (t_reps t1)));
      cbn [negb option_map]; [reflexivity|].
    destruct (update_stale_props recreated t1) as (A & B & C & D & _).
    unfold abs. rewrite A, B, C, D. reflexivity. }
  destruct (t_failed x) as [raw|] eqn:Ef.
  - destruct (resolve_spec current raw) as [E1 E2]. destruct (resolve current raw) as [a f]. cbn [fst snd] in *.
    rewrite <- E2. destruct (is_nil f); [|reflexivity].
    rewrite <- E1. exact (Hfin (mkTablet (t_first x) (t_last x) (mk_reps a) None)).
  - exact (Hfin x).
Qed.

(* the tablet list of every table after a maintenance call *)
Lemma info_maintenance_lists kss removed current recreated s k :
  state_inv s ->
  tt_list (or_empty (find_table (info_maintenance kss removed current recreated s) k)) =
  if keep_table kss k
  then filter_map (maint_tablet removed current recreated) (tt_list (or_empty (find_table s k)))
  else [].
Proof.
  intros Hinv. unfold info_maintenance.
  set (t1 := filter _ (i_tables s)). set (t2 := fold_left add_missing _ t1).
  assert (Et2 : afind t2 k =
                match (if keep_table kss k then find_table s k else None) with
                | Some v => Some v
                | None => if existsb (fun k' => tkey_eqb k' k) (schema_tables kss) then Some tt_empty else None
                end).
  { unfold t2. rewrite afind_add_missing. unfold t1. rewrite (afind_filter (keep_table kss)). reflexivity. }
  destruct (negb (is_nil removed) || negb (is_nil recreated) || i_flag s) eqn:Eg.
  - rewrite find_table_afind. cbn [i_tables]. rewrite (afind_map (table_maintenance removed current recreated)), Et2.
    assert (Hemp : tt_list (table_maintenance removed current recreated tt_empty) = []).
    { rewrite table_maintenance_list; [reflexivity|]. intros _ t []. }
    destruct (keep_table kss k) eqn:Ek.
    + destruct (find_table s k) as [tt0|] eqn:E0; cbn [option_map or_empty].
      * rewrite table_maintenance_list; [reflexivity|]. now destruct (state_inv_find s k tt0 Hinv E0) as (_ & ? & _).
      * destruct (existsb _ (schema_tables kss)); cbn [option_map or_empty]; [exact Hemp|reflexivity].
    + destruct (existsb _ (schema_tables kss)); cbn [option_map or_empty]; [exact Hemp|reflexivity].
  - rewrite find_table_afind. cbn [i_tables]. rewrite Et2.
    apply orb_false_iff in Eg as [Eg Efl]. apply orb_false_iff in Eg as [Erm Erc].
    destruct removed; [|discriminate]. destruct recreated; [|discriminate].
    destruct (keep_table kss k) eqn:Ek.
    + destruct (find_table s k) as [tt0|] eqn:E0; cbn [or_empty].
      * rewrite (filter_map_ext_in _ (fun x => Some x)).
        -- clear. induction (tt_list tt0) as [|a r IH]; cbn; [reflexivity|]. now rewrite <- IH.
        -- intros x Hx. apply maint_tablet_id.
           destruct (state_inv_find s k tt0 Hinv E0) as (_ & Hfl & _). apply Hfl; [|assumption].
           apply afind_In in E0. exact (proj2 Hinv Efl _ E0).
      * destruct (existsb _ (schema_tables kss)); reflexivity.
    + destruct (existsb _ (schema_tables kss)); reflexivity.
Qed.

Lemma covers_learn a tok t b : t_first t = a + 1 -> t_last t = b -> covers tok t = (a <? tok) && (tok <=? b).
Proof.
  intros E1 E2. unfold covers. rewrite E1, E2.
  destruct (Z.leb_spec (a + 1) tok); destruct (Z.ltb_spec a tok); try lia; reflexivity.
Qed.

(* one step of the code = one step of the specification, seen from any token of any table *)
Lemma step_refines s o s' k tok :
  state_inv s -> op_i64 o -> step s o = Some s' ->
  option_map abs (lookup_tablet s' k tok) = spec_step k tok (option_map abs (lookup_tablet s k tok)) o.
Proof.
  intros Hinv Hok Hstep.
  destruct o as [k0 a b raw known|kss removed current recreated]; cbn [step spec_step] in *.
  - destruct Hok as [Ha Hb]. pose proof (payload_check_spec a b raw) as Hps.
    destruct (payload_check a b raw) as [[[f l] r]|e] eqn:E.
    + destruct Hps as [Hps Hr]. rewrite Hps, andb_true_r.
      destruct (learn_tablet a b raw known f l r Ha Hb E) as (Hwf & Hdc & Ef & El & Hlt).
      set (t := from_raw_tablet f l r known) in *.
      destruct (info_add_inv s k0 t Hinv Hwf Hdc) as (s1 & E1 & Hinv1 & Hother & tt' & Ett' & Hli' & Hin').
      rewrite E1 in Hstep. injection Hstep as <-.
      destruct (tkey_eqb k0 k) eqn:Ek.
      * apply tkey_eqb_eq in Ek. subst k0.
        destruct (or_empty_ok s k Hinv) as (Hli0 & _).
        rewrite (lookup_or_empty s k tok). unfold lookup_tablet at 1. rewrite Ett'.
        rewrite !tablet_for_token_find by assumption.
        rewrite (find_after_add _ _ t tok Hli0 Hli' Hin').
        rewrite (covers_learn a tok t b Ef El).
        destruct ((a <? tok) && (tok <=? b)).
        -- cbn [option_map]. f_equal. unfold abs, spec_entry_of.
           destruct (payload_check_ok a b raw f l r Ha Hb E) as (_ & -> & -> & _).
           destruct (from_raw_tablet_props (a + 1) b r known) as (F1 & F2 & _ & F4 & F5).
           fold t in F1, F2, F4, F5. rewrite F1, F2, F4, F5, Hr. reflexivity.
        -- destruct (find (covers tok) (tt_list (or_empty (find_table s k)))) as [y|]; [|reflexivity].
           cbn [option_map abs e_first e_last]. unfold overlaps. rewrite Ef, El.
           now destruct (ranges_overlap (a + 1) b (t_first y) (t_last y)).
      * unfold lookup_tablet. rewrite Hother; [reflexivity|].
        intros ->. now rewrite tkey_eqb_refl in Ek.
    + rewrite Hps, andb_false_r. now injection Hstep as <-.
  - injection Hstep as <-.
    rewrite !lookup_or_empty, info_maintenance_lists by assumption.
    destruct (or_empty_ok s k Hinv) as (Hli0 & _).
    rewrite keep_table_spec. destruct (spec_table_kept kss k) eqn:Ek.
    + rewrite tablet_for_token_find
        by (apply list_inv_filter_map; [apply maint_tablet_range|assumption]).
      rewrite find_filter_map by (try apply maint_tablet_range; assumption).
      rewrite tablet_for_token_find by assumption.
      destruct (find (covers tok) (tt_list (or_empty (find_table s k)))) as [x|]; [|reflexivity].
      cbn [option_map]. symmetry. now apply maint_abs.
    + cbn. destruct (tablet_for_token _ tok); [|reflexivity]. cbn. unfold spec_maintain. now rewrite Ek.
Qed.

Lemma run_from_refines h : forall s0 s k tok,
  state_inv s0 -> Forall op_i64 h -> run_from (Some s0) h = Some s ->
  option_map abs (lookup_tablet s k tok) =
  fold_left (spec_step k tok) h (option_map abs (lookup_tablet s0 k tok)).
Proof.
  induction h as [|o h IH]; intros s0 s k tok Hinv Hok Hrun.
  - cbn in *. now injection Hrun as <-.
  - inversion Hok as [|? ? Ho Hh]; subst. destruct (step_inv s0 o Hinv Ho) as (s1 & E1 & Hinv1).
    cbn [run_from fold_left] in *. rewrite E1 in Hrun.
    rewrite (IH s1 s k tok Hinv1 Hh Hrun). f_equal. now apply step_refines.
Qed.

Lemma run_refines h s k tok :
  Forall op_i64 h -> run h = Some s -> option_map abs (lookup_tablet s k tok) = spec_entry h k tok.
Proof. intros Hok Hrun. exact (run_from_refines h info_empty s k tok state_inv_empty Hok Hrun). Qed.

(* C15_lookup *)
Lemma lookup_refines h s k tok :
  Forall op_i64 h -> run h = Some s -> lookup s k tok = spec_lookup h k tok.
Proof.
  intros Hok Hrun. unfold lookup, spec_lookup. rewrite <- (run_refines h s k tok Hok Hrun).
  now destruct (lookup_tablet s k tok).
Qed.

(* the tablet that answers really covers the token *)
Lemma lookup_covers h s k tok t :
  Forall op_i64 h -> run h = Some s -> lookup_tablet s k tok = Some t -> t_first t <= tok <= t_last t.
Proof.
  intros Hok Hrun E. rewrite lookup_or_empty in E.
  destruct (or_empty_ok s k (run_state_inv h s Hok Hrun)) as (Hli & _).
  rewrite tablet_for_token_find in E by assumption. apply find_some in E as [_ E]. unfold covers in E. lia.
Qed.

(* C15_dc: the per-DC view is the restriction of the full replica list *)
Lemma lookup_dc_restrict h s k tok dc :
  Forall op_i64 h -> run h = Some s ->
  lookup_dc s k tok dc = option_map (restrict_dc dc) (lookup s k tok).
Proof.
  intros Hok Hrun. unfold lookup_dc, lookup.
  destruct (lookup_tablet s k tok) as [t|] eqn:E; [|reflexivity]. cbn [option_map]. f_equal.
  rewrite lookup_or_empty in E. destruct (or_empty_ok s k (run_state_inv h s Hok Hrun)) as (Hli & _ & Hdc).
  rewrite tablet_for_token_find in E by assumption. apply find_some in E as [Hin _].
  rewrite Forall_forall in Hdc. rewrite (Hdc t Hin). apply dc_get_group.
Qed.

Lemma lookup_dc_refines h s k tok dc :
  Forall op_i64 h -> run h = Some s -> lookup_dc s k tok dc = spec_lookup_dc h k tok dc.
Proof.
  intros Hok Hrun. rewrite (lookup_dc_restrict h s k tok dc Hok Hrun), (lookup_refines h s k tok Hok Hrun).
  unfold spec_lookup, spec_lookup_dc. now destruct (spec_entry h k tok).
Qed.

(* ------------------------------------------------------------------------------------ *)
(* I. flags, cleanliness after maintenance, table presence                               *)
(* ------------------------------------------------------------------------------------ *)

(* has_unknown_replicas is never falsely false *)
Lemma run_flags h s :
  Forall op_i64 h -> run h = Some s ->
  (forall k tt t, find_table s k = Some tt -> tt_flag tt = false -> In t (tt_list tt) -> t_failed t = None) /\
  (i_flag s = false -> forall k tt, find_table s k = Some tt -> tt_flag tt = false).
Proof.
  intros Hok Hrun. pose proof (run_state_inv h s Hok Hrun) as Hinv. split.
  - intros k tt t E Hf Hin. destruct (state_inv_find s k tt Hinv E) as (_ & Hfl & _). now apply Hfl.
  - intros Hf k tt E. apply afind_In in E. exact (proj2 Hinv Hf _ E).
Qed.

(* after a maintenance call no answering tablet has unknown replicas, a replica on a removed
   node, or a stale object of a recreated node; its table is a tablet table of the schema *)
Lemma maint_clean h kss removed current recreated s k tok t :
  Forall op_i64 h -> run (h ++ [Maintain kss removed current recreated]) = Some s ->
  lookup_tablet s k tok = Some t ->
  keep_table kss k = true /\ t_failed t = None /\
  (forall r, In r (r_all (t_reps t)) -> memN (host (fst r)) removed = false) /\
  (forall r n', In r (r_all (t_reps t)) -> find_node recreated (host (fst r)) = Some n' -> fst r = n').
Proof.
  intros Hok Hrun E. unfold run in Hrun. rewrite run_from_app in Hrun.
  destruct (run_total h Hok) as (s0 & E0 & Hinv0). unfold run in E0. rewrite E0 in Hrun.
  cbn in Hrun. injection Hrun as <-.
  rewrite lookup_or_empty, info_maintenance_lists in E by assumption.
  destruct (keep_table kss k); [|discriminate E]. split; [reflexivity|].
  destruct (or_empty_ok s0 k Hinv0) as (Hli0 & _).
  rewrite tablet_for_token_find in E by (apply list_inv_filter_map; [apply maint_tablet_range|assumption]).
  apply find_some in E as [Hin _]. apply filter_map_In in Hin as (x & _ & Ex).
  unfold maint_tablet in Ex. destruct (re_resolve current x) as [t1|] eqn:E1; [|discriminate].
  destruct (no_removed_replica removed t1) eqn:Erm; [|discriminate]. injection Ex as <-.
  destruct (re_resolve_props _ _ _ E1) as (_ & _ & Hf1 & _).
  destruct (update_stale_props recreated t1) as (_ & _ & Hf & Hall & _).
  split; [congruence|]. rewrite Hall. unfold no_removed_replica in Erm. rewrite forallb_forall in Erm.
  split.
  - intros r Hr. apply in_map_iff in Hr as (r0 & <- & Hr0). specialize (Erm r0 Hr0).
    assert (host (fst (spec_swap recreated r0)) = host (fst r0)) as ->; [|now destruct (memN _ removed)].
    unfold spec_swap. destruct (find _ recreated) as [n'|] eqn:F; [|reflexivity].
    apply find_some in F as [_ F]. cbn. now apply N.eqb_eq in F.
  - intros r n' Hr Hn. apply in_map_iff in Hr as (r0 & <- & Hr0). unfold spec_swap in *. unfold find_node in Hn.
    destruct (find (fun n => (host n =? host (fst r0))%N) recreated) as [n0|] eqn:F.
    + cbn [fst] in *. pose proof F as F'. apply find_some in F' as [_ F']. apply N.eqb_eq in F'.
      rewrite F' in Hn. congruence.
    + congruence.
Qed.

Definition is_some {A} (o : option A) : bool := match o with Some _ => true | None => false end.

Definition op_maps_ok (o : op) : Prop :=
  match o with Maintain kss _ _ _ => NoDup (map ks_name kss) | Learn _ _ _ _ _ => True end.

Lemma schema_tables_cons d kss :
  schema_tables (d :: kss) =
  (if ks_tablet_based d then map (fun t => (ks_name d, t)) (ks_tables d ++ ks_views d) else []) ++ schema_tables kss.
Proof. reflexivity. Qed.

Lemma schema_tables_absent kss k :
  (forall d, In d kss -> ks_name d <> fst k) -> existsb (fun k' => tkey_eqb k' k) (schema_tables kss) = false.
Proof.
  induction kss as [|d kss IH]; intros H; [reflexivity|].
  rewrite schema_tables_cons, existsb_app.
  apply orb_false_iff. split; [|apply IH; intros d' Hd'; apply H; now right].
  destruct (ks_tablet_based d); [|reflexivity].
  apply not_true_is_false. intros Hex. apply existsb_exists in Hex as (k' & Hk' & E).
  apply in_map_iff in Hk' as (t & <- & _). apply tkey_eqb_eq in E. subst k. cbn in H.
  exact (H d (or_introl eq_refl) eq_refl).
Qed.

Lemma schema_tables_keep kss k :
  NoDup (map ks_name kss) -> existsb (fun k' => tkey_eqb k' k) (schema_tables kss) = keep_table kss k.
Proof.
  induction kss as [|d kss IH]; intros Hnd; [reflexivity|].
  cbn [map] in Hnd. inversion Hnd as [|? ? Hnotin Hnd']; subst.
  rewrite schema_tables_cons, existsb_app.
  unfold keep_table, ks_get. cbn [find]. destruct (N.eqb_spec (ks_name d) (fst k)) as [Heq|Hne].
  - assert (Eabs : existsb (fun k' => tkey_eqb k' k) (schema_tables kss) = false).
    { apply schema_tables_absent. intros d' Hd' E. apply Hnotin. rewrite Heq, <- E. now apply in_map. }
    match goal with |- ?a || ?b = _ => replace b with false by (symmetry; exact Eabs) end.
    rewrite orb_false_r. destruct (ks_tablet_based d); [|reflexivity].
    unfold memN. rewrite <- existsb_app.
    induction (ks_tables d ++ ks_views d) as [|t ts IHt]; [reflexivity|]. cbn [map existsb].
    rewrite IHt. f_equal. unfold tkey_eqb. cbn [fst snd]. rewrite Heq, N.eqb_refl. cbn. apply N.eqb_sym.
  - fold (ks_get kss (fst k)). fold (keep_table kss k).
    etransitivity; [|apply IH; assumption].
    match goal with |- ?a || ?b = _ => assert (a = false) as Ea end; [|now rewrite Ea].
    destruct (ks_tablet_based d); [|reflexivity].
    apply not_true_is_false. intros Hex. apply existsb_exists in Hex as (k' & Hk' & E).
    apply in_map_iff in Hk' as (t & <- & _). apply tkey_eqb_eq in E. subst k. now cbn in Hne.
Qed.

Lemma step_present s o s' k :
  state_inv s -> op_i64 o -> op_maps_ok o -> step s o = Some s' ->
  is_some (find_table s' k) = spec_present_step k (is_some (find_table s k)) o.
Proof.
  intros Hinv Hok Hmaps Hstep.
  destruct o as [k0 a b raw known|kss removed current recreated]; cbn [step spec_present_step] in *.
  - destruct Hok as [Ha Hb]. pose proof (payload_check_spec a b raw) as Hps.
    destruct (payload_check a b raw) as [[[f l] r]|e] eqn:E.
    + destruct Hps as [Hps _]. rewrite Hps, andb_true_r.
      destruct (learn_tablet a b raw known f l r Ha Hb E) as (Hwf & Hdc & _).
      destruct (info_add_inv s k0 _ Hinv Hwf Hdc) as (s1 & E1 & _ & Hother & tt' & Ett' & _).
      rewrite E1 in Hstep. injection Hstep as <-.
      destruct (tkey_eqb k0 k) eqn:Ek.
      * apply tkey_eqb_eq in Ek. subst. rewrite Ett'. cbn. now rewrite orb_true_r.
      * rewrite orb_false_r, Hother; [reflexivity|]. intros ->. now rewrite tkey_eqb_refl in Ek.
    + rewrite Hps, andb_false_r, orb_false_r. now injection Hstep as <-.
  - injection Hstep as <-. rewrite <- keep_table_spec. unfold info_maintenance.
    set (t1 := filter _ (i_tables s)). set (t2 := fold_left add_missing _ t1).
    assert (Et2 : is_some (afind t2 k) = keep_table kss k).
    { unfold t2. rewrite afind_add_missing. unfold t1. rewrite (afind_filter (keep_table kss)).
      rewrite schema_tables_keep by exact Hmaps.
      destruct (keep_table kss k); [|reflexivity]. now destruct (afind (i_tables s) k). }
    destruct (negb (is_nil removed) || negb (is_nil recreated) || i_flag s).
    + rewrite find_table_afind. cbn [i_tables]. rewrite (afind_map (table_maintenance removed current recreated)).
      rewrite <- Et2. now destruct (afind t2 k).
    + exact Et2.
Qed.

Lemma run_from_present h : forall s0 s k,
  state_inv s0 -> Forall op_i64 h -> Forall op_maps_ok h -> run_from (Some s0) h = Some s ->
  is_some (find_table s k) = fold_left (spec_present_step k) h (is_some (find_table s0 k)).
Proof.
  induction h as [|o h IH]; intros s0 s k Hinv Hok Hmaps Hrun.
  - cbn in *. now injection Hrun as <-.
  - inversion Hok as [|? ? Ho Hh]; inversion Hmaps as [|? ? Hm Hms]; subst.
    destruct (step_inv s0 o Hinv Ho) as (s1 & E1 & Hinv1).
    cbn [run_from fold_left] in *. rewrite E1 in Hrun.
    rewrite (IH s1 s k Hinv1 Hh Hms Hrun). f_equal. now apply step_present.
Qed.

Lemma run_present h s k :
  Forall op_i64 h -> Forall op_maps_ok h -> run h = Some s ->
  is_some (find_table s k) = spec_present h k.
Proof. intros Hok Hm Hrun. exact (run_from_present h info_empty s k state_inv_empty Hok Hm Hrun). Qed.

(* ------------------------------------------------------------------------------------ *)
(* J. the declarative reading of the specification                                       *)
(* ------------------------------------------------------------------------------------ *)

Lemma spec_entry_app h1 h2 k tok :
  spec_entry (h1 ++ h2) k tok = fold_left (spec_step k tok) h2 (spec_entry h1 k tok).
Proof. unfold spec_entry. apply fold_left_app. Qed.

Lemma spec_maintain_range kss rm cu rc k e e' :
  spec_maintain kss rm cu rc k e = Some e' -> e_first e' = e_first e /\ e_last e' = e_last e.
Proof.
  unfold spec_maintain. destruct (negb (spec_table_kept kss k)); [discriminate|].
  destruct (e_pending e) as [raw|].
  - destruct (spec_all_known cu raw); [|discriminate].
    match goal with |- (if ?c then _ else _) = _ -> _ => destruct c end; [discriminate|].
    intros [= <-]. split; reflexivity.
  - match goal with |- (if ?c then _ else _) = _ -> _ => destruct c end; [discriminate|].
    intros [= <-]. split; reflexivity.
Qed.

(* nothing was ever learnt that covers the token (or only before the point we look from):
   the answer stays "nothing" *)
Lemma spec_none_stays post k tok :
  forallb (fun o => negb (covering_learn k tok o)) post = true ->
  fold_left (spec_step k tok) post None = None.
Proof.
  induction post as [|o post IH]; intros H; [reflexivity|]. cbn [forallb] in H.
  apply andb_true_iff in H as [Ho H]. cbn [fold_left].
  assert (spec_step k tok None o = None) as ->; [|now apply IH].
  destruct o as [k' a b raw known|]; cbn [spec_step covering_learn] in *; [|reflexivity].
  destruct (tkey_eqb k' k && spec_payload_ok a b raw); [|reflexivity].
  cbn in Ho. now destruct ((a <? tok) && (tok <=? b)).
Qed.

(* latest wins: the tablet learnt last for the token answers it (transformed by the maintenance
   events that followed) as long as no later accepted payload for the table overlaps its range *)
Lemma spec_latest_wins pre post k a b raw known tok :
  spec_payload_ok a b raw = true -> a < tok <= b ->
  forallb (fun o => negb (accepted_overlap k (a + 1) b o)) post = true ->
  spec_entry (pre ++ Learn k a b raw known :: post) k tok =
  spec_maintain_all k post (spec_entry_of a b raw known).
Proof.
  intros Hacc Htok Hpost. rewrite spec_entry_app. cbn [fold_left spec_step].
  rewrite tkey_eqb_refl, Hacc. cbn [andb].
  destruct (Z.ltb_spec a tok); [|lia]. destruct (Z.leb_spec tok b); [|lia]. cbn [andb].
  unfold spec_maintain_all.
  set (e0 := spec_entry_of a b raw known).
  assert (Hr0 : forall e, Some e0 = Some e -> e_first e = a + 1 /\ e_last e = b).
  { intros e [= <-]. split; reflexivity. }
  revert Hr0. generalize (Some e0) as cur. clear e0.
  induction post as [|o post IH]; intros cur Hcur; [reflexivity|]. cbn [forallb] in Hpost.
  apply andb_true_iff in Hpost as [Ho Hpost]. cbn [fold_left].
  assert (Hstep : spec_step k tok cur o =
                  match o, cur with
                  | Maintain kss rm cu rc, Some e => spec_maintain kss rm cu rc k e
                  | _, _ => cur
                  end /\
                  forall e, spec_step k tok cur o = Some e -> e_first e = a + 1 /\ e_last e = b).
  { destruct o as [k' a' b' raw' known'|kss rm cu rc]; cbn [spec_step accepted_overlap] in *.
    - destruct (tkey_eqb k' k && spec_payload_ok a' b' raw') eqn:Eacc; [|split; [reflexivity|exact Hcur]].
      cbn [andb negb] in Ho. apply negb_true_iff in Ho. unfold ranges_overlap in Ho.
      assert (Hnc : (a' <? tok) && (tok <=? b') = false).
      { destruct (Z.ltb_spec a' tok); destruct (Z.leb_spec tok b'); try reflexivity.
        destruct (Z.leb_spec (a' + 1) b); destruct (Z.leb_spec (a + 1) b'); cbn in Ho; try discriminate; lia. }
      rewrite Hnc. destruct cur as [e|]; [|split; [reflexivity|intros e' [=]]].
      destruct (Hcur e eq_refl) as [-> ->]. unfold ranges_overlap. rewrite Ho.
      split; [reflexivity|exact Hcur].
    - destruct cur as [e|]; [|split; [reflexivity|intros e' [=]]]. split; [reflexivity|].
      intros e' E'. destruct (spec_maintain_range _ _ _ _ _ _ _ E') as [-> ->]. now apply Hcur. }
  destruct Hstep as [-> Hnext]. apply IH; assumption.
Qed.

(* stale data is forgotten: once a later accepted payload overlapped the answering tablet without
   covering the token, the token is answered by nothing until a payload covering it arrives *)
Lemma spec_stale_none pre post k a b raw known tok e :
  spec_entry pre k tok = Some e -> spec_payload_ok a b raw = true -> ~ (a < tok <= b) ->
  ranges_overlap (a + 1) b (e_first e) (e_last e) = true ->
  forallb (fun o => negb (covering_learn k tok o)) post = true ->
  spec_entry (pre ++ Learn k a b raw known :: post) k tok = None.
Proof.
  intros Epre Hacc Hnc Hov Hpost. rewrite spec_entry_app. cbn [fold_left spec_step].
  rewrite tkey_eqb_refl, Hacc, Epre, Hov. cbn [andb].
  assert ((a <? tok) && (tok <=? b) = false) as ->.
  { destruct (Z.ltb_spec a tok); destruct (Z.leb_spec tok b); try reflexivity. lia. }
  now apply spec_none_stays.
Qed.

Lemma spec_never_learnt hist k tok :
  forallb (fun o => negb (covering_learn k tok o)) hist = true -> spec_lookup hist k tok = None.
Proof. intros H. unfold spec_lookup, spec_entry. now rewrite spec_none_stays. Qed.

(* ------------------------------------------------------------------------------------ *)
(* K. the binary search of slice::partition_point                                        *)
(* ------------------------------------------------------------------------------------ *)

Lemma nth_error_firstn' {A} (l : list A) : forall n i, (i < n)%nat -> nth_error (firstn n l) i = nth_error l i.
Proof.
  induction l as [|a r IH]; intros n i Hlt.
  - rewrite firstn_nil. reflexivity.
  - destruct n as [|n]; [lia|]. destruct i as [|i]; [reflexivity|]. cbn. apply IH. lia.
Qed.

Lemma nth_error_skipn' {A} (l : list A) : forall n i, nth_error (skipn n l) i = nth_error l (n + i).
Proof.
  induction l as [|a r IH]; intros n i.
  - rewrite skipn_nil. destruct i; destruct (n + _)%nat; reflexivity.
  - destruct n as [|n]; [reflexivity|]. cbn. apply IH.
Qed.

Lemma split_at_lt {A} (p : A -> bool) l n i x :
  split_at p l n -> nth_error l i = Some x -> (i < n)%nat -> p x = true.
Proof.
  intros (_ & Hf & _) Hi Hlt. rewrite forallb_forall in Hf. apply Hf.
  apply nth_error_In with (n := i). rewrite nth_error_firstn' by assumption. exact Hi.
Qed.

Lemma split_at_ge {A} (p : A -> bool) l n i x :
  split_at p l n -> nth_error l i = Some x -> (n <= i)%nat -> p x = false.
Proof.
  intros (_ & _ & Hs) Hi Hge. rewrite forallb_forall in Hs. apply negb_true_iff. apply Hs.
  apply nth_error_In with (n := (i - n)%nat). rewrite nth_error_skipn'. now replace (n + (i - n))%nat with i by lia.
Qed.

Lemma bsearch_correct {A} (p : A -> bool) l n :
  split_at p l n ->
  forall fuel lo size, (lo <= n <= lo + size)%nat -> (lo + size <= List.length l)%nat -> (size <= fuel)%nat ->
  bsearch fuel p l lo size = n.
Proof.
  intros Hsp. induction fuel as [|k IH]; intros lo size Hn Hlen Hfuel; cbn [bsearch]; [lia|].
  destruct (Nat.leb_spec size 1) as [Hs|Hs].
  - destruct size as [|[|?]]; [lia| |lia].
    destruct (nth_error l lo) as [x|] eqn:Ex; [|apply nth_error_None in Ex; lia].
    destruct (p x) eqn:Hp.
    + destruct (Nat.eq_dec n lo) as [->|]; [|lia].
      rewrite (split_at_ge p l lo lo x Hsp Ex (Nat.le_refl _)) in Hp. discriminate.
    + destruct (Nat.eq_dec n lo) as [->|Hne]; [reflexivity|].
      rewrite (split_at_lt p l n lo x Hsp Ex) in Hp by lia. discriminate.
  - assert (Hhalf : (1 <= size / 2 /\ size / 2 <= size - size / 2 /\ size / 2 < size)%nat).
    { pose proof (Nat.div_mod_eq size 2). pose proof (Nat.mod_upper_bound size 2). lia. }
    destruct (nth_error l (lo + size / 2)) as [x|] eqn:Ex; [|apply nth_error_None in Ex; lia].
    destruct (p x) eqn:Hp.
    + assert (lo + size / 2 < n)%nat.
      { destruct (Nat.lt_ge_cases (lo + size / 2) n) as [|Hge]; [assumption|].
        rewrite (split_at_ge p l n _ x Hsp Ex Hge) in Hp. discriminate. }
      apply IH; lia.
    + assert (n <= lo + size / 2)%nat.
      { destruct (Nat.lt_ge_cases (lo + size / 2) n) as [Hlt|]; [|assumption].
        rewrite (split_at_lt p l n _ x Hsp Ex Hlt) in Hp. discriminate. }
      apply IH; lia.
Qed.

(* on a partitioned slice the binary search returns the partition index *)
Lemma partition_point_bs_correct {A} (p : A -> bool) l n :
  split_at p l n -> partition_point_bs p l = n.
Proof.
  intros Hsp. unfold partition_point_bs. apply (bsearch_correct p l n Hsp); destruct Hsp as (Hn & _); lia.
Qed.

Lemma partition_point_bs_eq l x :
  tablets_inv l ->
  partition_point_bs (fun t => t_last t <? x) l = partition_point (fun t => t_last t <? x) l /\
  partition_point_bs (fun t => t_first t <=? x) l = partition_point (fun t => t_first t <=? x) l.
Proof.
  intros Hinv. destruct (inv_partitioned l x Hinv) as [H1 H2].
  split; now apply partition_point_bs_correct.
Qed.

(* ------------------------------------------------------------------------------------ *)
(* L. the declarative reading, for the code                                              *)
(* ------------------------------------------------------------------------------------ *)

Lemma latest_wins pre post k a b raw known tok s :
  Forall op_i64 (pre ++ Learn k a b raw known :: post) ->
  run (pre ++ Learn k a b raw known :: post) = Some s ->
  spec_payload_ok a b raw = true -> a < tok <= b ->
  forallb (fun o => negb (accepted_overlap k (a + 1) b o)) post = true ->
  lookup s k tok = option_map e_reps (spec_maintain_all k post (spec_entry_of a b raw known)).
Proof.
  intros Hok Hrun Hacc Htok Hpost. rewrite (lookup_refines _ s k tok Hok Hrun). unfold spec_lookup.
  now rewrite spec_latest_wins.
Qed.

Lemma stale_none pre post k a b raw known tok s0 t s :
  Forall op_i64 (pre ++ Learn k a b raw known :: post) ->
  run pre = Some s0 -> lookup_tablet s0 k tok = Some t ->
  spec_payload_ok a b raw = true -> ~ (a < tok <= b) ->
  ranges_overlap (a + 1) b (t_first t) (t_last t) = true ->
  forallb (fun o => negb (covering_learn k tok o)) post = true ->
  run (pre ++ Learn k a b raw known :: post) = Some s ->
  lookup s k tok = None.
Proof.
  intros Hok Hpre Ht Hacc Hnc Hov Hpost Hrun. rewrite (lookup_refines _ s k tok Hok Hrun). unfold spec_lookup.
  assert (Hokpre : Forall op_i64 pre) by (apply Forall_app in Hok; tauto).
  pose proof (run_refines pre s0 k tok Hokpre Hpre) as Epre. rewrite Ht in Epre. cbn in Epre.
  now rewrite (spec_stale_none pre post k a b raw known tok (abs t)).
Qed.

Lemma never_learnt hist k tok s :
  Forall op_i64 hist -> run hist = Some s ->
  forallb (fun o => negb (covering_learn k tok o)) hist = true -> lookup s k tok = None.
Proof. intros Hok Hrun H. rewrite (lookup_refines _ s k tok Hok Hrun). now apply spec_never_learnt. Qed.

(* ------------------------------------------------------------------------------------ *)
(* M. the caller's argument derivation: tablets never keep stale Node objects            *)
(* ------------------------------------------------------------------------------------ *)

Lemma existsb_false_forall {A} (p : A -> bool) l : existsb p l = false <-> forall x, In x l -> p x = false.
Proof.
  induction l as [|a r IH]; cbn; [split; [intros _ x []|reflexivity]|].
  rewrite orb_false_iff, IH. split.
  - intros [Ha Hr] x [<-|Hx]; [assumption|now apply Hr].
  - intros H. split; [apply H; now left|intros x Hx; apply H; now right].
Qed.

Definition nodes_in (known : list node) (s : info) : Prop :=
  forall k t r, In t (tt_list (or_empty (find_table s k))) -> In r (r_all (t_reps t)) -> In (fst r) known.

Lemma resolve_nodes known raw r : In r (fst (resolve known raw)) -> In (fst r) known.
Proof.
  induction raw as [|[h s] raw IH]; cbn [resolve]; [intros []|].
  destruct (resolve known raw) as [a f]. cbn [fst] in *. unfold find_node.
  destruct (find (fun n => (host n =? h)%N) known) as [n|] eqn:E; cbn [fst]; [|exact IH].
  intros [<-|Hr]; [|now apply IH]. cbn. now apply find_some in E.
Qed.

Lemma from_raw_tablet_nodes f l raw known r :
  In r (r_all (t_reps (from_raw_tablet f l raw known))) -> In (fst r) known.
Proof.
  unfold from_raw_tablet. pose proof (resolve_nodes known raw r) as H.
  destruct (resolve known raw) as [a fl]. cbn in *. exact H.
Qed.

Lemma maint_tablet_nodes old new x y r :
  (forall r0, In r0 (r_all (t_reps x)) -> In (fst r0) old) ->
  maint_tablet (derive_removed old new) new (derive_recreated old new) x = Some y ->
  In r (r_all (t_reps y)) -> In (fst r) new.
Proof.
  intros Hold. unfold maint_tablet. destruct (re_resolve new x) as [t1|] eqn:E1; [|discriminate].
  destruct (no_removed_replica (derive_removed old new) t1) eqn:Erm; [|discriminate]. intros [= <-].
  destruct (update_stale_props (derive_recreated old new) t1) as (_ & _ & _ & -> & _).
  intros Hr. apply in_map_iff in Hr as (r0 & <- & Hr0).
  assert (Hrec : forall n', In n' (derive_recreated old new) -> In n' new).
  { intros n' H. unfold derive_recreated in H. now apply filter_In in H. }
  unfold spec_swap. destruct (find (fun n => (host n =? host (fst r0))%N) (derive_recreated old new)) as [n'|] eqn:F.
  { cbn. apply Hrec. now apply find_some in F. }
  (* not swapped: the replica is either freshly resolved against new, or an old object that is
     still the current one *)
  unfold re_resolve in E1. destruct (t_failed x) as [raw|] eqn:Ef.
  - pose proof (resolve_nodes new raw r0) as Hres. destruct (resolve new raw) as [a fl].
    destruct (is_nil fl); [|discriminate]. injection E1 as <-. cbn in Hr0. now apply Hres.
  - injection E1 as <-. specialize (Hold r0 Hr0).
    unfold no_removed_replica in Erm. rewrite forallb_forall in Erm. specialize (Erm r0 Hr0).
    apply negb_true_iff in Erm.
    (* some node of new has this host *)
    destruct (existsb (fun n => (host n =? host (fst r0))%N) new) eqn:Ex.
    + apply existsb_exists in Ex as (n2 & Hn2 & Eh). apply N.eqb_eq in Eh.
      (* n2 is not recreated, so every old node with its host IS n2 *)
      assert (Hnot : existsb (fun o => (host o =? host n2)%N && negb (node_eqb o n2)) old = false).
      { destruct (existsb _ old) eqn:Eo; [|reflexivity]. exfalso.
        assert (Hin : In n2 (derive_recreated old new)) by (apply filter_In; now split).
        pose proof (find_none _ _ F n2 Hin) as Hc. cbn in Hc. rewrite Eh, N.eqb_refl in Hc. discriminate. }
      pose proof (proj1 (existsb_false_forall _ _) Hnot) as Hall.
      specialize (Hall (fst r0) Hold). rewrite Eh, N.eqb_refl in Hall. cbn in Hall.
      apply negb_false_iff in Hall. apply node_eqb_eq in Hall. now rewrite Hall.
    + exfalso. unfold derive_removed, memN in Erm.
      assert (Hin : In (host (fst r0)) (map host (filter (fun o => negb (existsb (fun n => (host n =? host o)%N) new)) old))).
      { apply in_map. apply filter_In. split; [assumption|]. now rewrite Ex. }
      pose proof (proj1 (existsb_false_forall _ _) Erm _ Hin) as Hc. now rewrite N.eqb_refl in Hc.
Qed.

Lemma step_nodes_learn s k a b raw known s' :
  state_inv s -> i64_ok a -> i64_ok b -> nodes_in known s ->
  step s (Learn k a b raw known) = Some s' -> nodes_in known s'.
Proof.
  intros Hinv Ha Hb Hn Hstep. cbn [step] in Hstep.
  destruct (payload_check a b raw) as [[[f l] r]|e] eqn:E; [|now injection Hstep as <-].
  destruct (learn_tablet a b raw known f l r Ha Hb E) as (Hwf & Hdc & _).
  destruct (info_add_inv s k _ Hinv Hwf Hdc) as (s1 & E1 & _ & Hother & tt' & Ett' & _ & Hin').
  rewrite E1 in Hstep. injection Hstep as <-.
  intros k' t rr Ht Hr. destruct (tkey_eqb k k') eqn:Ek.
  - apply tkey_eqb_eq in Ek. subst k'. rewrite Ett' in Ht. cbn [or_empty] in Ht.
    apply Hin' in Ht as [->|[Ht _]]; [now apply from_raw_tablet_nodes in Hr|]. exact (Hn k t rr Ht Hr).
  - rewrite Hother in Ht; [exact (Hn k' t rr Ht Hr)|]. intros ->. now rewrite tkey_eqb_refl in Ek.
Qed.

Lemma step_nodes_refresh s kss old new s' :
  state_inv s -> nodes_in old s -> step s (refresh_op kss old new) = Some s' -> nodes_in new s'.
Proof.
  intros Hinv Hn Hstep. cbn [step refresh_op] in Hstep. injection Hstep as <-.
  intros k t r Ht Hr. rewrite info_maintenance_lists in Ht by assumption.
  destruct (keep_table kss k); [|destruct Ht].
  apply filter_map_In in Ht as (x & Hx & Ex).
  eapply maint_tablet_nodes; [|exact Ex|exact Hr]. intros r0 Hr0. exact (Hn k x r0 Hx Hr0).
Qed.

Lemma cluster_run_nodes h : forall known0 s0 s,
  state_inv s0 -> nodes_in known0 s0 -> Forall op_i64 (cluster_ops known0 h) ->
  run_from (Some s0) (cluster_ops known0 h) = Some s -> nodes_in (cluster_known known0 h) s.
Proof.
  induction h as [|c h IH]; intros known0 s0 s Hinv Hn Hok Hrun.
  - cbn in *. now injection Hrun as <-.
  - destruct c as [k a b raw|kss new]; cbn [cluster_ops cluster_known] in *;
      inversion Hok as [|? ? Ho Hh]; subst;
      match type of Ho with op_i64 ?o => destruct (step_inv s0 o Hinv Ho) as (s1 & E1 & Hinv1) end;
      cbn [run_from fold_left] in Hrun; rewrite E1 in Hrun.
    + destruct Ho as [Ha Hb]. eapply IH; [exact Hinv1| |exact Hh|exact Hrun].
      exact (step_nodes_learn s0 k a b raw known0 s1 Hinv Ha Hb Hn E1).
    + eapply IH; [exact Hinv1| |exact Hh|exact Hrun]. exact (step_nodes_refresh s0 kss known0 new s1 Hinv Hn E1).
Qed.

(* every replica a table can answer with is one of the CURRENT Node objects of the cluster *)
Lemma cluster_no_stale_nodes known0 h s k tok t r :
  Forall op_i64 (cluster_ops known0 h) -> run (cluster_ops known0 h) = Some s ->
  lookup_tablet s k tok = Some t -> In r (r_all (t_reps t)) -> In (fst r) (cluster_known known0 h).
Proof.
  intros Hok Hrun Ht Hr.
  assert (Hn : nodes_in (cluster_known known0 h) s).
  { eapply cluster_run_nodes; [apply state_inv_empty| |exact Hok|exact Hrun]. intros k' t' r' []. }
  pose proof (run_state_inv _ s Hok Hrun) as Hinv.
  rewrite lookup_or_empty in Ht. destruct (or_empty_ok s k Hinv) as (Hli & _).
  rewrite tablet_for_token_find in Ht by assumption. apply find_some in Ht as [Hin _].
  exact (Hn k t r Hin Hr).
Qed.

(* ------------------------------------------------------------------------------------ *)
(* N. several tables: independence, unknown tables, dropped tables                       *)
(* ------------------------------------------------------------------------------------ *)

(* a payload for table k0 touches no other table; for a table without an entry an accepted payload
   creates the entry holding exactly that tablet; a refused payload changes nothing *)
Lemma learn_tables h s k0 a b raw known s' :
  Forall op_i64 h -> run h = Some s -> i64_ok a -> i64_ok b ->
  step s (Learn k0 a b raw known) = Some s' ->
  (forall k, k <> k0 -> find_table s' k = find_table s k) /\
  (spec_payload_ok a b raw = false -> s' = s) /\
  (spec_payload_ok a b raw = true -> find_table s k0 = None ->
   exists t fl, find_table s' k0 = Some (mkTT [t] fl) /\ t_first t = a + 1 /\ t_last t = b /\
                r_all (t_reps t) = spec_resolved known (map (fun hs => (fst hs, Z.to_N (snd hs))) raw)).
Proof.
  intros Hok Hrun Ha Hb Hstep. pose proof (run_state_inv h s Hok Hrun) as Hinv.
  cbn [step] in Hstep. pose proof (payload_check_spec a b raw) as Hps.
  destruct (payload_check a b raw) as [[[f l] r]|e] eqn:E.
  - destruct Hps as [Hps Hr].
    destruct (learn_tablet a b raw known f l r Ha Hb E) as (Hwf & Hdc & Ef & El & _).
    destruct (info_add_inv s k0 _ Hinv Hwf Hdc) as (s1 & E1 & _ & Hother & tt' & Ett' & Hli' & Hin').
    rewrite E1 in Hstep. injection Hstep as <-. split; [exact Hother|]. split; [congruence|].
    intros _ Hnone. rewrite Hnone in Hin'. cbn [or_empty tt_empty tt_list] in Hin'.
    destruct tt' as [l' fl']. cbn [tt_list] in *.
    assert (l' = [from_raw_tablet f l r known]) as ->.
    { destruct l' as [|x l'].
      - exfalso. apply (proj2 (Hin' _) (or_introl eq_refl)).
      - assert (x = from_raw_tablet f l r known) as -> by (destruct (proj1 (Hin' x) (or_introl eq_refl)) as [?|[[] _]]; assumption).
        destruct l' as [|y l']; [reflexivity|]. exfalso.
        assert (y = from_raw_tablet f l r known) as -> by (destruct (proj1 (Hin' y) (or_intror (or_introl eq_refl))) as [?|[[] _]]; assumption).
        destruct Hli' as [_ Hss]. inversion Hss as [|? ? _ Hall]; subst. inversion Hall as [|? ? Hlt _]; subst.
        unfold lt_tab in Hlt. destruct Hwf as (_ & _ & Hwf). lia. }
    eexists _, _. split; [exact Ett'|]. split; [exact Ef|]. split; [exact El|].
    destruct (payload_check_ok a b raw f l r Ha Hb E) as (_ & -> & -> & _).
    destruct (from_raw_tablet_props (a + 1) b r known) as (_ & _ & _ & F4 & _). now rewrite F4, Hr.
  - injection Hstep as <-. split; [reflexivity|]. split; [reflexivity|]. intros Hacc. congruence.
Qed.

(* maintenance acts on every table on its own, tablet by tablet; a table that is not a table/view of a
   tablet keyspace loses all its tablets (and its entry unless a duplicate keyspace lists it) *)
Lemma maintain_tables h kss removed current recreated s s' k :
  Forall op_i64 h -> run h = Some s -> step s (Maintain kss removed current recreated) = Some s' ->
  tt_list (or_empty (find_table s' k)) =
    (if keep_table kss k
     then filter_map (maint_tablet removed current recreated) (tt_list (or_empty (find_table s k)))
     else []) /\
  (NoDup (map ks_name kss) -> is_some (find_table s' k) = keep_table kss k).
Proof.
  intros Hok Hrun Hstep. pose proof (run_state_inv h s Hok Hrun) as Hinv.
  pose proof Hstep as Hstep'. cbn [step] in Hstep. injection Hstep as <-. split.
  - now apply info_maintenance_lists.
  - intros Hnd. rewrite (step_present s (Maintain kss removed current recreated) _ k Hinv I Hnd Hstep'). cbn [spec_present_step]. now rewrite keep_table_spec.
Qed.

(* ------------------------------------------------------------------------------------ *)
(* O. the declarative reading as an equivalence                                          *)
(* ------------------------------------------------------------------------------------ *)

Lemma maintain_fold_none k post :
  fold_left (fun cur o => match o, cur with
                          | Maintain kss rm cu rc, Some e => spec_maintain kss rm cu rc k e
                          | _, _ => cur end) post None = None.
Proof. induction post as [|o post IH]; [reflexivity|]. cbn [fold_left]. destruct o; exact IH. Qed.

Lemma spec_maintain_all_app k p1 p2 e :
  spec_maintain_all k (p1 ++ p2) e =
  match spec_maintain_all k p1 e with Some e1 => spec_maintain_all k p2 e1 | None => None end.
Proof.
  unfold spec_maintain_all. rewrite fold_left_app.
  destruct (fold_left _ p1 (Some e)) as [e1|]; [reflexivity|]. apply maintain_fold_none.
Qed.

Lemma spec_maintain_all_range k post e e' :
  spec_maintain_all k post e = Some e' -> e_first e' = e_first e /\ e_last e' = e_last e.
Proof.
  revert e. induction post as [|o post IH]; intros e H.
  - injection H as <-. split; reflexivity.
  - change (o :: post) with ([o] ++ post) in H. rewrite spec_maintain_all_app in H.
    destruct o as [k' a b raw known|kss rm cu rc]; cbn in H.
    + now apply IH.
    + destruct (spec_maintain kss rm cu rc k e) as [e1|] eqn:E1.
      * destruct (spec_maintain_range _ _ _ _ _ _ _ E1) as [A B]. destruct (IH e1 H) as [C D]. split; congruence.
      * discriminate.
Qed.

(* ONLY IF: whatever answers a token is the latest accepted payload covering it, not overlapped
   by a later accepted payload of the table, with the later maintenance events applied *)
Lemma spec_entry_inv hist k tok e :
  spec_entry hist k tok = Some e ->
  exists pre a b raw known post,
    hist = pre ++ Learn k a b raw known :: post /\ spec_payload_ok a b raw = true /\ a < tok <= b /\
    forallb (fun o => negb (accepted_overlap k (a + 1) b o)) post = true /\
    spec_maintain_all k post (spec_entry_of a b raw known) = Some e.
Proof.
  revert e. induction hist as [|o hist IH] using rev_ind; intros e H; [discriminate|].
  rewrite spec_entry_app in H. cbn [fold_left] in H.
  destruct o as [k' a b raw known|kss rm cu rc]; cbn [spec_step] in H.
  - destruct (tkey_eqb k' k && spec_payload_ok a b raw) eqn:Eacc.
    + apply andb_true_iff in Eacc as [Ek Eok]. apply tkey_eqb_eq in Ek. subst k'.
      destruct ((a <? tok) && (tok <=? b)) eqn:Ecov.
      * injection H as <-. exists hist, a, b, raw, known, []. repeat split; try assumption; try reflexivity; lia.
      * destruct (spec_entry hist k tok) as [e0|] eqn:E0; [|discriminate].
        destruct (ranges_overlap (a + 1) b (e_first e0) (e_last e0)) eqn:Eov; [discriminate|]. injection H as <-.
        destruct (IH e0 eq_refl) as (pre & a0 & b0 & raw0 & known0 & post & -> & Hok & Htok & Hpost & Hall).
        destruct (spec_maintain_all_range _ _ _ _ Hall) as [Hf Hl]. cbn in Hf, Hl.
        exists pre, a0, b0, raw0, known0, (post ++ [Learn k a b raw known]).
        split; [now rewrite <- app_assoc|]. split; [assumption|]. split; [assumption|]. split.
        -- rewrite forallb_app, Hpost. cbn [forallb accepted_overlap]. rewrite tkey_eqb_refl, Eok, <- Hf, <- Hl, Eov. reflexivity.
        -- rewrite spec_maintain_all_app, Hall. reflexivity.
    + destruct (IH e H) as (pre & a0 & b0 & raw0 & known0 & post & -> & Hok & Htok & Hpost & Hall).
      exists pre, a0, b0, raw0, known0, (post ++ [Learn k' a b raw known]).
      split; [now rewrite <- app_assoc|]. split; [assumption|]. split; [assumption|]. split.
      * rewrite forallb_app, Hpost. cbn [forallb accepted_overlap]. rewrite Eacc. reflexivity.
      * rewrite spec_maintain_all_app, Hall. reflexivity.
  - destruct (spec_entry hist k tok) as [e0|] eqn:E0; [|discriminate].
    destruct (IH e0 eq_refl) as (pre & a0 & b0 & raw0 & known0 & post & -> & Hok & Htok & Hpost & Hall).
    exists pre, a0, b0, raw0, known0, (post ++ [Maintain kss rm cu rc]).
    split; [now rewrite <- app_assoc|]. split; [assumption|]. split; [assumption|]. split.
    + rewrite forallb_app, Hpost. reflexivity.
    + rewrite spec_maintain_all_app, Hall. cbn. exact H.
Qed.

(* C15_answered_iff: for the code *)
Lemma answered_iff hist s k tok reps :
  Forall op_i64 hist -> run hist = Some s ->
  (lookup s k tok = Some reps <->
   exists pre a b raw known post,
     hist = pre ++ Learn k a b raw known :: post /\ spec_payload_ok a b raw = true /\ a < tok <= b /\
     forallb (fun o => negb (accepted_overlap k (a + 1) b o)) post = true /\
     option_map e_reps (spec_maintain_all k post (spec_entry_of a b raw known)) = Some reps).
Proof.
  intros Hok Hrun. rewrite (lookup_refines hist s k tok Hok Hrun). unfold spec_lookup. split.
  - destruct (spec_entry hist k tok) as [e|] eqn:E; [|discriminate]. intros [= <-].
    destruct (spec_entry_inv hist k tok e E) as (pre & a & b & raw & known & post & H1 & H2 & H3 & H4 & H5).
    exists pre, a, b, raw, known, post. rewrite H5. repeat split; assumption || reflexivity || lia.
  - intros (pre & a & b & raw & known & post & -> & H2 & H3 & H4 & H5).
    now rewrite spec_latest_wins.
Qed.

(* ------------------------------------------------------------------------------------ *)
(* P/Q. the driver's range check is the invariant; exactly which range lists are reachable *)
(* ------------------------------------------------------------------------------------ *)
(* ---- P. the boolean range check of the driver is the invariant ---- *)

Definition range_of (t : tablet) : Z * Z := (t_first t, t_last t).

Lemma list_inv_of_tablets_inv l : tablets_inv l -> list_inv l.
Proof.
  intros [Hwf Hord]. split; [apply Forall_forall; intros t Ht; exact (Hwf t Ht)|].
  clear Hwf. induction l as [|a r IH]; [constructor|]. constructor.
  - apply IH. intros i j u v Hij Hi Hj. apply (Hord (S i) (S j) u v); [lia|assumption|assumption].
  - apply Forall_forall. intros y Hy. apply In_nth_error in Hy as [j Hj].
    apply (Hord 0%nat (S j) a y); [lia|reflexivity|assumption].
Qed.

Lemma ranges_okb_list_inv l : ranges_okb (map range_of l) = true <-> list_inv l.
Proof.
  induction l as [|x r IH].
  - split; [intros _; split; constructor|reflexivity].
  - cbn [map ranges_okb range_of]. rewrite !andb_true_iff, IH. rewrite !i64_ok_b. split.
    + intros [[[[Hfl Hf] Hl] Hnext] [Hwf Hss]]. split.
      * constructor; [|assumption]. unfold t_wf. split; [assumption|]. split; [assumption|lia].
      * constructor; [assumption|]. destruct r as [|y r']; [constructor|].
        cbn [map range_of] in Hnext. apply Z.ltb_lt in Hnext.
        inversion Hss as [|? ? _ Hall]; subst. inversion Hwf as [|? ? Hy _]; subst.
        constructor; [exact Hnext|]. apply Forall_forall. intros z Hz.
        rewrite Forall_forall in Hall. specialize (Hall z Hz). unfold lt_tab in *.
        destruct Hy as (_ & _ & Hy). lia.
    + intros [Hwf Hss]. inversion Hwf as [|? ? (Hf & Hl & Hfl) Hwf']; inversion Hss as [|? ? Hss' Hall]; subst.
      split; [|split; assumption]. split; [split; [split; [lia|assumption]|assumption]|].
      destruct r as [|y r']; [reflexivity|]. cbn [map range_of]. apply Z.ltb_lt.
      inversion Hall; subst. assumption.
Qed.

(* C15_ranges_okb_iff *)
Lemma ranges_okb_iff l : ranges_okb (map range_of l) = true <-> tablets_inv l.
Proof.
  rewrite ranges_okb_list_inv. split; [apply list_inv_tablets_inv|apply list_inv_of_tablets_inv].
Qed.

(* ---- Q. exactly which range lists are reachable ---- *)

(* the invariant, sharpened: a stored tablet never starts at i64::MIN (first = a + 1) *)
Definition first_gt_min (s : info) : Prop :=
  forall k t, In t (tt_list (or_empty (find_table s k))) -> i64_min < t_first t.

Lemma step_first_gt_min s o s' :
  state_inv s -> op_i64 o -> first_gt_min s -> step s o = Some s' -> first_gt_min s'.
Proof.
  intros Hinv Hok Hn Hstep. destruct o as [k a b raw known|kss rm cu rc]; cbn [step] in Hstep.
  - destruct Hok as [Ha Hb]. destruct (payload_check a b raw) as [[[f l] r]|e] eqn:E; [|now injection Hstep as <-].
    destruct (learn_tablet a b raw known f l r Ha Hb E) as (Hwf & Hdc & Ef & _).
    destruct (info_add_inv s k _ Hinv Hwf Hdc) as (s1 & E1 & _ & Hother & tt' & Ett' & _ & Hin').
    rewrite E1 in Hstep. injection Hstep as <-.
    intros k' t Ht. destruct (tkey_eqb k k') eqn:Ek.
    + apply tkey_eqb_eq in Ek. subst k'. rewrite Ett' in Ht. cbn [or_empty] in Ht.
      apply Hin' in Ht as [->|[Ht _]]; [|exact (Hn k t Ht)]. rewrite Ef. destruct Ha as [Ha _]. revert Ha. generalize i64_min. intros; lia.
    + rewrite Hother in Ht; [exact (Hn k' t Ht)|]. intros ->. now rewrite tkey_eqb_refl in Ek.
  - injection Hstep as <-. intros k t Ht. rewrite info_maintenance_lists in Ht by assumption.
    destruct (keep_table kss k); [|now cbn in Ht].
    apply filter_map_In in Ht as (x & Hx & Ex).
    destruct (maint_tablet_range rm cu rc x t Ex) as [-> _]. exact (Hn k x Hx).
Qed.

Lemma run_from_first_gt_min h : forall s0 s,
  state_inv s0 -> first_gt_min s0 -> Forall op_i64 h -> run_from (Some s0) h = Some s -> first_gt_min s.
Proof.
  induction h as [|o h IH]; intros s0 s Hinv Hn Hok Hrun.
  - cbn in Hrun. now injection Hrun as <-.
  - inversion Hok as [|? ? Ho Hh]; subst. destruct (step_inv s0 o Hinv Ho) as (s1 & E1 & Hinv1).
    cbn [run_from fold_left] in Hrun. rewrite E1 in Hrun.
    apply (IH s1 s Hinv1 (step_first_gt_min s0 o s1 Hinv Ho Hn E1) Hh Hrun).
Qed.

Definition ranges_reachable (rs : list (Z * Z)) : Prop :=
  ranges_okb rs = true /\ Forall (fun r => i64_min < fst r) rs.

Lemma take_while_all {A} (p : A -> bool) l : (forall x, In x l -> p x = true) -> take_while p l = l.
Proof.
  induction l as [|a r IH]; intros H; cbn; [reflexivity|]. rewrite (H a (or_introl eq_refl)).
  f_equal. apply IH. intros x Hx. apply H. now right.
Qed.

(* appending a tablet that lies to the right of everything *)
Lemma add_tablet_right l fl t :
  (forall x, In x l -> t_last x < t_first t) -> t_first t <= t_last t -> Forall t_wf l ->
  add_tablet (mkTT l fl) t = Some (mkTT (l ++ [t]) (match t_failed t with Some _ => true | None => fl end)).
Proof.
  intros Hr Ht Hwf. unfold add_tablet, partition_point. cbn [tt_list tt_flag].
  rewrite !take_while_all.
  - rewrite Nat.ltb_irrefl, firstn_all, skipn_all. reflexivity.
  - intros x Hx. specialize (Hr x Hx). rewrite Forall_forall in Hwf. destruct (Hwf x Hx) as (_ & _ & Hx'). lia.
  - intros x Hx. specialize (Hr x Hx). rewrite Forall_forall in Hwf. destruct (Hwf x Hx) as (_ & _ & Hx'). lia.
Qed.

Lemma StronglySorted_app_inv {A} (R : A -> A -> Prop) l1 l2 :
  StronglySorted R (l1 ++ l2) ->
  StronglySorted R l1 /\ StronglySorted R l2 /\ (forall x y, In x l1 -> In y l2 -> R x y).
Proof.
  induction l1 as [|a l1 IH]; cbn [app]; intros H.
  - split; [constructor|]. split; [assumption|]. intros x y [].
  - inversion H as [|? ? Hss Hall]; subst. destruct (IH Hss) as (H1 & H2 & H3). rewrite Forall_forall in Hall.
    split; [constructor; [assumption|]; apply Forall_forall; intros y Hy; apply Hall, in_or_app; now left|].
    split; [assumption|]. intros x y [<-|Hx] Hy; [apply Hall, in_or_app; now right|now apply H3].
Qed.

Definition plain_tablet (r : Z * Z) : tablet := mkTablet (fst r) (snd r) (mk_reps []) None.
Definition learn_range (k : tkey) (r : Z * Z) : op := Learn k (fst r - 1) (snd r) [] [].

Lemma learn_range_step s k l0 fl r :
  find_table s k = Some (mkTT l0 fl) \/ (find_table s k = None /\ l0 = [] /\ fl = false) ->
  list_inv (l0 ++ [plain_tablet r]) -> i64_min < fst r ->
  exists s', step s (learn_range k r) = Some s' /\ find_table s' k = Some (mkTT (l0 ++ [plain_tablet r]) fl).
Proof.
  intros Hfind [Hwf Hss] Hmin. destruct r as [f l]. cbn [fst snd] in *.
  apply Forall_app in Hwf as [Hwf0 Hwt]. inversion Hwt as [|? ? (Hf & Hl & Hfl) _]; subst. cbn in Hf, Hl, Hfl.
  destruct (StronglySorted_app_inv _ _ _ Hss) as (_ & _ & Hcross).
  unfold learn_range. cbn [step fst snd].
  assert (Hpc : payload_check (f - 1) l [] = Ok (f, l, [])).
  { unfold payload_check. destruct (Z.leb_spec l (f - 1)); [lia|]. cbn [conv_shards].
    replace (f - 1 + 1) with f by lia. unfold wrap64, token_new, i64_ok, i64_min, i64_max in *.
    rewrite Z.mod_small by lia. destruct (Z.eqb_spec (f + 2 ^ 63 - 2 ^ 63) (- 2 ^ 63)); [lia|].
    destruct (Z.eqb_spec l (- 2 ^ 63)); [lia|]. do 3 f_equal. lia. }
  rewrite Hpc. change (from_raw_tablet f l [] []) with (plain_tablet (f, l)).
  unfold info_add. pose proof (upsert_spec k (fun tt => add_tablet tt (plain_tablet (f, l))) (i_tables s)) as Hup.
  cbn beta in Hup. change (afind (i_tables s) k) with (find_table s k) in Hup.
  assert (Eold : or_empty (find_table s k) = mkTT l0 fl).
  { destruct Hfind as [->|(-> & -> & ->)]; reflexivity. }
  rewrite Eold, add_tablet_right in Hup.
  - destruct Hup as (m' & E1 & E2 & _). rewrite E1. cbn [option_map]. eexists. split; [reflexivity|]. exact E2.
  - intros x Hx. apply (Hcross x (plain_tablet (f, l)) Hx). now left.
  - exact Hfl.
  - exact Hwf0.
Qed.

Lemma reach_ranges k ts : forall s0 l0 fl,
  state_inv s0 ->
  find_table s0 k = Some (mkTT l0 fl) \/ (find_table s0 k = None /\ l0 = [] /\ fl = false) ->
  list_inv (l0 ++ map plain_tablet ts) -> Forall (fun r => i64_min < fst r) ts ->
  exists s, run_from (Some s0) (map (learn_range k) ts) = Some s /\
            tt_list (or_empty (find_table s k)) = l0 ++ map plain_tablet ts.
Proof.
  induction ts as [|r ts IH]; intros s0 l0 fl Hinv Hfind Hli Hmin.
  - exists s0. split; [reflexivity|]. rewrite app_nil_r. destruct Hfind as [->|(-> & -> & _)]; reflexivity.
  - inversion Hmin as [|? ? Hr Hmin']; subst. cbn [map] in *.
    assert (Hli1 : list_inv (l0 ++ [plain_tablet r])).
    { replace (l0 ++ plain_tablet r :: map plain_tablet ts) with ((l0 ++ [plain_tablet r]) ++ map plain_tablet ts) in Hli
        by (rewrite <- app_assoc; reflexivity).
      destruct Hli as [Hwf Hss]. apply Forall_app in Hwf as [Hwf _].
      destruct (StronglySorted_app_inv _ _ _ Hss) as (Hss1 & _). now split. }
    destruct (learn_range_step s0 k l0 fl r Hfind Hli1 Hr) as (s1 & E1 & F1).
    assert (Hinv1 : state_inv s1).
    { assert (Ho : op_i64 (learn_range k r)).
      { destruct Hli1 as [Hwf _]. apply Forall_app in Hwf as [_ Hwt]. inversion Hwt as [|? ? (Hf & Hl & _) _]; subst.
        cbn in Hf, Hl. unfold learn_range, op_i64, i64_ok, i64_min, i64_max in *. lia. }
      destruct (step_inv s0 _ Hinv Ho) as (s1' & E1' & Hinv1). congruence. }
    cbn [run_from fold_left]. rewrite E1.
    destruct (IH s1 (l0 ++ [plain_tablet r]) fl Hinv1 (or_introl F1)) as (s & Hrun & Hlist).
    + now rewrite <- app_assoc.
    + exact Hmin'.
    + exists s. split; [exact Hrun|]. now rewrite Hlist, <- app_assoc.
Qed.

Lemma map_range_plain ts : map range_of (map plain_tablet ts) = ts.
Proof. induction ts as [|[f l] ts IH]; [reflexivity|]. cbn. now rewrite IH. Qed.

(* C15_reachable_iff: the range lists a table can hold are EXACTLY the sorted, pairwise disjoint lists of
   non-empty ranges inside i64 that do not start at i64::MIN *)
Lemma reachable_iff k rs :
  (exists hist s, Forall op_i64 hist /\ run hist = Some s /\
                  map range_of (tt_list (or_empty (find_table s k))) = rs) <-> ranges_reachable rs.
Proof.
  split.
  - intros (hist & s & Hok & Hrun & <-). pose proof (run_state_inv hist s Hok Hrun) as Hinv. split.
    + apply ranges_okb_list_inv. now destruct (or_empty_ok s k Hinv).
    + apply Forall_forall. intros r Hr. apply in_map_iff in Hr as (t & <- & Ht). cbn.
      refine (run_from_first_gt_min hist info_empty s state_inv_empty _ Hok Hrun k t Ht). intros k' t' [].
  - intros [Hokb Hmin]. exists (map (learn_range k) rs).
    assert (Hli : list_inv ([] ++ map plain_tablet rs)).
    { cbn [app]. apply ranges_okb_list_inv. now rewrite map_range_plain. }
    destruct (reach_ranges k rs info_empty [] false state_inv_empty (or_intror (conj eq_refl (conj eq_refl eq_refl))) Hli Hmin)
      as (s & Hrun & Hlist).
    exists s. split; [|split; [exact Hrun|]].
    + apply Forall_forall. intros o Ho. apply in_map_iff in Ho as (r & <- & Hr).
      destruct Hli as [Hwf _]. cbn [app] in Hwf. rewrite Forall_forall in Hwf, Hmin.
      destruct (Hwf (plain_tablet r) (in_map _ _ _ Hr)) as (Hf & Hl & _). specialize (Hmin r Hr).
      cbn in Hf, Hl. unfold learn_range, op_i64, i64_ok, i64_min, i64_max in *. lia.
    + rewrite Hlist. cbn [app]. apply map_range_plain.
Qed.

(* after every step of every history: the prefix ran, its tables satisfy the invariant and its lookups are
   the specification of the prefix *)
Lemma run_every_prefix h1 h2 :
  Forall op_i64 (h1 ++ h2) ->
  exists s1 s, run h1 = Some s1 /\ run (h1 ++ h2) = Some s /\
    (forall k tt, find_table s1 k = Some tt -> tablets_inv (tt_list tt)) /\
    (forall k tok, lookup s1 k tok = spec_lookup h1 k tok).
Proof.
  intros Hok. assert (Hok1 : Forall op_i64 h1) by (apply Forall_app in Hok; tauto).
  destruct (run_total h1 Hok1) as (s1 & E1 & _). destruct (run_total _ Hok) as (s & E & _).
  exists s1, s. split; [exact E1|]. split; [exact E|]. split.
  - intros k tt. now apply (run_tablets_inv h1 s1 k tt Hok1 E1).
  - intros k tok. now apply lookup_refines.
Qed.
