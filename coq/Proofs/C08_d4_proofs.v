(* Deepening round 4 (proof only) for C08: termination (fuel sufficiency) of the small fuelled loops of the
   tablet / tuple / chunk models, characterisation of the extracted first-error functions, cost bounds
   of [decode_pair]. *)
From SV Require Import Base.Prelude Base.Bytes Model.FrameBase Model.FrameTypes Model.FrameResp
  Model.FrameCustom Model.FrameChunk Model.FrameValues Proofs.FrameBase_proofs Proofs.FrameCost_proofs
  Proofs.FrameCustom_proofs Proofs.FrameC08_proofs Proofs.FrameChunk_proofs Proofs.FrameLocal_proofs.
Open Scope N_scope.

(* ---- fuel of tablet_replicas / int_items: every iteration consumes at least the 4 length bytes ------- *)
Lemma read_cql_bytes_consumes b x r : read_cql_bytes b = Some (x, r) -> (length r < length b)%nat.
Proof.
  unfold read_cql_bytes. destruct (run read_bytes_opt b) as [[v r0]|e] eqn:E; [|discriminate].
  intros H. inversion H; subst. exact (consuming_read_bytes_opt b x r E).
Qed.

Lemma tablet_replicas_fuel : forall f1 f2 count b,
  (length b < f1)%nat -> (length b < f2)%nat -> tablet_replicas f1 count b = tablet_replicas f2 count b.
Proof.
  induction f1 as [|f1 IH]; intros f2 count b H1 H2; [lia|]. destruct f2 as [|f2]; [lia|].
  cbn [tablet_replicas]. destruct (count =? 0); [reflexivity|].
  destruct (read_cql_bytes b) as [[[t|] r]|] eqn:E; try reflexivity.
  apply read_cql_bytes_consumes in E.
  destruct (tuple_fixed 16 t) as [[u t1]|]; [|reflexivity].
  destruct (tuple_fixed 4 t1) as [[sh t2]|]; [|reflexivity].
  destruct (dec_signed sh <? 0)%Z; [reflexivity|].
  rewrite (IH f2 (count - 1) r) by lia. reflexivity.
Qed.

Lemma int_items_fuel : forall f1 f2 n b,
  (length b < f1)%nat -> (length b < f2)%nat -> int_items f1 n b = int_items f2 n b.
Proof.
  induction f1 as [|f1 IH]; intros f2 n b H1 H2; [lia|]. destruct f2 as [|f2]; [lia|].
  cbn [int_items]. destruct (n =? 0); [reflexivity|].
  destruct (read_cql_bytes b) as [[[e|] r]|] eqn:E; try reflexivity;
    apply read_cql_bytes_consumes in E; rewrite (IH f2 (n - 1) r) by lia; reflexivity.
Qed.

(* the fuel the model passes (length + 1) is enough: any two fuels above the length give the same answer *)
Lemma small_loops_fuel :
  (forall f1 f2 count b, (length b < f1)%nat -> (length b < f2)%nat ->
     tablet_replicas f1 count b = tablet_replicas f2 count b) /\
  (forall f1 f2 n b, (length b < f1)%nat -> (length b < f2)%nat -> int_items f1 n b = int_items f2 n b).
Proof. split; [exact tablet_replicas_fuel|exact int_items_fuel]. Qed.

(* ---- cut_chunks: with enough fuel the chunks are non-empty and concatenate to the stream ------------ *)
Lemma cut_chunks_spec : forall fuel sizes all b,
  (length b <= fuel)%nat ->
  concat (cut_chunks fuel sizes all b) = b /\ no_eof (cut_chunks fuel sizes all b).
Proof.
  induction fuel as [|f IH]; intros sizes all b Hf.
  - destruct b; [|cbn in Hf; lia]. split; [reflexivity|constructor].
  - destruct b as [|x b]; [split; [reflexivity|constructor]|].
    cbn [cut_chunks].
    destruct (match sizes with s :: r => (N.max 1 s, r) | [] => (1, []) end) as [k rest] eqn:Ek.
    assert (Hk : (1 <= N.to_nat k)%nat) by (destruct sizes; inversion Ek; subst; lia).
    destruct (N.to_nat k) as [|k'] eqn:EK; [lia|].
    specialize (IH (match rest with [] => all | _ => rest end) all (skipn (S k') (x :: b))).
    destruct IH as [IC IN].
    { pose proof (skipn_length (S k') (x :: b)) as L. cbn [length] in *. lia. }
    split.
    + cbn [concat]. rewrite IC. apply firstn_skipn.
    + constructor; [cbn; discriminate|exact IN].
Qed.

(* ---- the extracted first-error functions ----------------------------------------------------------- *)
(* typed_row_ok is "typed_row succeeds" *)
Lemma typed_row_ok_spec : forall cols row,
  typed_row_ok cols row = true <-> exists l, typed_row cols row = Ok l.
Proof.
  induction cols as [|c cs IH]; intros row.
  - cbn. split; [eauto|reflexivity].
  - destruct row as [|x r]; [cbn; split; [eauto|reflexivity]|].
    destruct x as [s|]; cbn [typed_row_ok typed_row typed_cell].
    + destruct (Cql.deser_value (to_ctype (cs_type c)) s) as [v|e].
      * rewrite IH. split; intros [l H].
        -- rewrite H. eexists; reflexivity.
        -- destruct (typed_row cs r) as [l'|e']; [eauto|discriminate].
      * split; [discriminate|intros [l H]; discriminate].
    + rewrite IH. split; intros [l H].
      * rewrite H. eexists; reflexivity.
      * destruct (typed_row cs r) as [l'|e']; [eauto|discriminate].
Qed.

(* a "first index failing [ok]" function: the generic shape of both extracted functions *)
Lemma first_error_generic {A} (ok : A -> bool) (fe : list A -> N -> option N) :
  (forall i, fe [] i = None) ->
  (forall r rs i, fe (r :: rs) i = if ok r then fe rs (i + 1) else Some i) ->
  forall rows i,
  match fe rows i with
  | None => forallb ok rows = true
  | Some k => exists j r, k = i + N.of_nat j /\ nth_error rows j = Some r /\ ok r = false /\
                          forallb ok (firstn j rows) = true
  end.
Proof.
  intros Hnil Hcons. induction rows as [|r rs IH]; intros i.
  - rewrite Hnil. reflexivity.
  - rewrite Hcons. destruct (ok r) eqn:E.
    + specialize (IH (i + 1)). destruct (fe rs (i + 1)) as [k|].
      * destruct IH as (j & r' & K & Hn & Hr & Hall). exists (S j), r'.
        split; [lia|]. split; [exact Hn|]. split; [exact Hr|]. cbn [firstn forallb]. rewrite E. exact Hall.
      * cbn [forallb]. rewrite E. exact IH.
    + exists O, r. split; [cbn; lia|]. repeat split; [exact E].
Qed.

Lemma typed_rows_first_error_spec cols rows i :
  match typed_rows_first_error cols rows i with
  | None => forall r, In r rows -> exists l, typed_row cols r = Ok l
  | Some k => exists j r, k = i + N.of_nat j /\ nth_error rows j = Some r /\
                          (forall l, typed_row cols r <> Ok l) /\
                          forall r', In r' (firstn j rows) -> exists l, typed_row cols r' = Ok l
  end.
Proof.
  pose proof (first_error_generic (typed_row_ok cols) (typed_rows_first_error cols)
                ltac:(reflexivity) ltac:(reflexivity) rows i) as H.
  destruct (typed_rows_first_error cols rows i) as [k|].
  - destruct H as (j & r & K & Hn & Hr & Hall). exists j, r. split; [exact K|]. split; [exact Hn|]. split.
    + intros l Hl. assert (typed_row_ok cols r = true) by (apply typed_row_ok_spec; eauto). congruence.
    + intros r' Hin. apply typed_row_ok_spec. rewrite forallb_forall in Hall. apply Hall. exact Hin.
  - intros r Hin. apply typed_row_ok_spec. rewrite forallb_forall in H. apply H. exact Hin.
Qed.

Lemma tuple_rows_first_error_spec target cols rows i :
  match tuple_rows_first_error target cols rows i with
  | None => forallb (tuple_row_ok target O cols) rows = true
  | Some k => exists j r, k = i + N.of_nat j /\ nth_error rows j = Some r /\ tuple_row_ok target O cols r = false /\
                          forallb (tuple_row_ok target O cols) (firstn j rows) = true
  end.
Proof.
  exact (first_error_generic (tuple_row_ok target O cols) (tuple_rows_first_error target cols)
           ltac:(reflexivity) ltac:(reflexivity) rows i).
Qed.

(* target 3 = (Option<Vec<u8>>,) accepts every cell: it has no failing path *)
Lemma tuple_target3_total : forall cols rows i, tuple_rows_first_error 3 cols rows i = None.
Proof.
  assert (R : forall cols pos row, tuple_row_ok 3 pos cols row = true).
  { induction cols as [|c cs IH]; intros pos row; [reflexivity|]. destruct row as [|x r]; [reflexivity|].
    cbn [tuple_row_ok]. rewrite IH. reflexivity. }
  intros cols. induction rows as [|r rs IH]; intros i; [reflexivity|].
  cbn [tuple_rows_first_error]. rewrite R. apply IH.
Qed.

Lemma first_error_spec :
  (forall cols row, typed_row_ok cols row = true <-> exists l, typed_row cols row = Ok l) /\
  (forall cols rows i,
     match typed_rows_first_error cols rows i with
     | None => forall r, In r rows -> exists l, typed_row cols r = Ok l
     | Some k => exists j r, k = i + N.of_nat j /\ nth_error rows j = Some r /\
                             (forall l, typed_row cols r <> Ok l) /\
                             forall r', In r' (firstn j rows) -> exists l, typed_row cols r' = Ok l
     end) /\
  (forall target cols rows i,
     match tuple_rows_first_error target cols rows i with
     | None => forallb (tuple_row_ok target O cols) rows = true
     | Some k => exists j r, k = i + N.of_nat j /\ nth_error rows j = Some r /\ tuple_row_ok target O cols r = false /\
                             forallb (tuple_row_ok target O cols) (firstn j rows) = true
     end) /\
  (forall cols rows i, tuple_rows_first_error 3 cols rows i = None).
Proof.
  split; [exact typed_row_ok_spec|]. split; [exact typed_rows_first_error_spec|].
  split; [exact tuple_rows_first_error_spec|exact tuple_target3_total].
Qed.

(* ---- decode_pair (a PREPARED frame, then a Rows frame behind its cached metadata): cost bounds ------- *)
Lemma AB_deser_rows_full_cached custom (custom_depth : forall s, snd (custom s) <= MAX_CUSTOM_TYPE_NESTING_DEPTH)
  ft cached : AB (deser_rows_full_cached custom ft cached).
Proof.
  destruct cached as [[cid ccount] ccols]. unfold deser_rows_full_cached.
  assert (RW : forall n rc, AB (deser_rows n rc)).
  { intros n rc. unfold deser_rows, deser_row. destruct (n =? 0); [apply AB_ret|].
    apply AB_repeatN. apply AB_repeatS. apply AB_read_bytes_opt. }
  apply AB_bind.
  { unfold deser_rows_hdr. apply AB_bind; [apply AB_read_int|intros flags]. apply AB_if; [apply AB_fail|].
    apply AB_bind; [apply AB_read_int_length|intros cc]. apply AB_bind; [|intros; apply AB_ret].
    apply AB_if; [apply AB_pmap; apply AB_read_bytes|apply AB_ret]. }
  intros h. apply AB_if.
  - apply AB_bind; [apply AB_read_int_length|intros rc]. apply AB_bind; [apply RW|intros; apply AB_ret].
  - apply AB_bind.
    + unfold deser_rows_meta. apply AB_bind; [|intros md; apply AB_bind; [apply AB_read_int_length|intros; apply AB_ret]].
      apply AB_if; [apply AB_ret|].
      apply AB_bind; [apply AB_if; [apply AB_pmap; apply AB_read_short_bytes|apply AB_ret]|intros id].
      apply AB_bind; [apply AB_if; [apply AB_pmap; apply AB_deser_table_spec|apply AB_ret]|intros g].
      apply AB_bind; [apply (AB_deser_col_specs custom custom_depth)|intros; apply AB_ret].
    + intros [[id cols] rc]. apply AB_bind; [apply RW|intros; apply AB_ret].
Qed.

Lemma decode_pair_costs ft stream :
  c_alloc (snd (decode_pair parse_custom ft stream)) <= 2 * alloc_bound (lenN stream) /\
  c_depth (snd (decode_pair parse_custom ft stream)) <= DEPTH_LIMIT.
Proof.
  unfold decode_pair, alloc_bound, ALLOC_K, ALLOC_C.
  pose proof (read_frame_cost stream) as (FA & FD & FB). pose proof KERR_value as KV.
  pose proof (fun h b r => read_frame_local stream h b r) as FL.
  unfold MAX_BODY_PREALLOCATION in *.
  destruct (read_frame stream) as [[[[h1 body1] rest]|e] c1]; cbn [fst snd] in *;
    [|unfold DEPTH_LIMIT; split; lia].
  destruct (FL h1 body1 rest eq_refl) as (FS & _ & _). clear FL.
  assert (LR : lenN rest <= lenN stream).
  { pose proof (f_equal lenN FS) as FS'. rewrite lenN_app in FS'. lia. }
  destruct (negb (h_flags h1 =? 0) || negb (h_opcode h1 =? 8)); cbn [snd]; [unfold DEPTH_LIMIT; split; lia|].
  pose proof (AB_deser_response parse_custom parse_custom_depth ft true 8 body1) as Y.
  destruct (deser_response parse_custom ft true 8 body1) as [[[rr bd2]|e2] c2].
  2:{ cbn [snd cadd c_alloc c_depth]. rewrite KV in Y. split; lia. }
  unfold KOK in Y.
  assert (NONE : c_alloc (cadd c1 c2) <= 2 * (2288 * lenN stream + 2 ^ 20) /\ c_depth (cadd c1 c2) <= DEPTH_LIMIT)
    by (cbn [cadd c_alloc c_depth]; split; lia).
  destruct rr; try exact NONE.
  all: try (destruct r; try exact NONE).
  pose proof (read_frame_cost rest) as (GA & GD & GB). unfold MAX_BODY_PREALLOCATION in *.
  destruct (read_frame rest) as [[[[h2 body2] rest2]|e3] c3]; cbn [fst snd] in *;
    [|cbn [cadd c_alloc c_depth]; split; lia].
  assert (MID : c_alloc (cadd c1 (cadd c2 c3)) <= 2 * (2288 * lenN stream + 2 ^ 20) /\
                c_depth (cadd c1 (cadd c2 c3)) <= DEPTH_LIMIT)
    by (cbn [cadd c_alloc c_depth]; split; lia).
  destruct (negb (h_flags h2 =? 0) || negb (h_opcode h2 =? 8)); [exact MID|].
  destruct (run read_int body2) as [[kind b2]|e4] eqn:RI; [|exact MID].
  apply consuming_read_int in RI.
  destruct (kind =? 2)%Z; [|exact MID].
  pose proof (AB_deser_rows_full_cached parse_custom parse_custom_depth ft
                (p_result_metadata_id p, pr_col_count p, pr_cols p) b2) as Z.
  assert (LB2 : lenN b2 <= lenN stream) by (unfold lenN in *; lia).
  destruct (deser_rows_full_cached parse_custom ft (p_result_metadata_id p, pr_col_count p, pr_cols p) b2)
    as [[[r1 b3]|e5] c4]; cbn [snd cadd c_alloc c_depth]; try rewrite KV in Z; unfold KOK in Z; split; lia.
Qed.

(* ---- reader_after: where the reader stands, in every case ------------------------------------------ *)
Lemma read_n_none : forall fuel need offers cs acc,
  no_eof cs -> (length (concat cs) + length cs < fuel)%nat ->
  fst (read_n fuel need offers cs acc) = None -> snd (read_n fuel need offers cs acc) = [].
Proof.
  induction fuel as [|f IH]; intros need offers cs acc Hne Hf; [lia|].
  cbn [read_n]. destruct (need =? 0) eqn:E0; [cbn; discriminate|]. apply N.eqb_neq in E0.
  destruct cs as [|c cs']; [reflexivity|].
  inversion Hne as [|? ? Hc Hcs]; subst. destruct c as [|x c]; [congruence|].
  set (offer := match offers with o :: _ => N.max 1 o | [] => need end).
  set (k := N.min (N.min need offer) (lenN (x :: c))).
  assert (Hk1 : 1 <= k) by (unfold k, offer; rewrite lenN_cons; destruct offers; lia).
  assert (Hk2 : k <= lenN (x :: c)) by (unfold k; lia).
  set (left := skipn (N.to_nat k) (x :: c)).
  assert (Ll : (length left = length (x :: c) - N.to_nat k)%nat) by apply skipn_length.
  set (cs1 := match left with [] => cs' | _ => left :: cs' end).
  assert (Ecs1 : concat cs1 = left ++ concat cs') by (unfold cs1; destruct left; reflexivity).
  assert (Hne1 : no_eof cs1).
  { unfold cs1. destruct left eqn:El; [exact Hcs|constructor; [discriminate|exact Hcs]]. }
  assert (Lcs : (length cs1 <= S (length cs'))%nat) by (unfold cs1; destruct left; cbn; lia).
  match goal with |- context [read_n f ?a ?b ?c ?d] => change c with cs1 end.
  apply IH; [exact Hne1|].
  rewrite Ecs1, app_length, Ll. cbn [concat] in Hf. rewrite app_length in Hf.
  change (length ((x :: c) :: cs')) with (S (length cs')) in Hf. unfold lenN in Hk2. lia.
Qed.

Lemma reader_after_spec offers cs :
  no_eof cs ->
  match read_frame_chunked offers cs with
  | Ok (_, cs') => reader_after offers cs = cs'
  | Err e =>
    (lenN (concat cs) < 9 /\ e = EHeaderIo /\ reader_after offers cs = []) \/
    (9 <= lenN (concat cs) /\ run parse_header (firstn 9 (concat cs)) = Err e /\
     concat (reader_after offers cs) = skipn 9 (concat cs) /\ no_eof (reader_after offers cs)) \/
    (exists h r, 9 <= lenN (concat cs) /\ run parse_header (firstn 9 (concat cs)) = Ok (h, r) /\
                 lenN (skipn 9 (concat cs)) < h_length h /\ e = EConnectionClosed /\ reader_after offers cs = [])
  end.
Proof.
  intros Hne. unfold read_frame_chunked, reader_after.
  pose proof (read_n_top 9 offers cs Hne) as H9.
  pose proof (read_n_none (S (stream_len cs)) 9 offers cs [] Hne ltac:(unfold stream_len; lia)) as N9.
  destruct (read_n (S (stream_len cs)) 9 offers cs []) as [[raw|] cs1].
  - clear N9. destruct H9 as [E9 Hne1].
    assert (X : 9 <= lenN (concat cs) /\ raw = firstn 9 (concat cs) /\ concat cs1 = skipn 9 (concat cs)).
    { rewrite ntake_spec in E9. destruct (9 <=? lenN (concat cs)) eqn:L9; [|discriminate].
      apply N.leb_le in L9. inversion E9. repeat split. exact L9. }
    clear E9. destruct X as (L9 & -> & H1).
    destruct (run parse_header (firstn 9 (concat cs))) as [[h r0]|e] eqn:PH.
    + pose proof (read_n_top (h_length h) (skipn 9 offers) cs1 Hne1) as Hb.
      pose proof (read_n_none (S (stream_len cs1)) (h_length h) (skipn 9 offers) cs1 [] Hne1
                    ltac:(unfold stream_len; lia)) as Nb.
      destruct (read_n (S (stream_len cs1)) (h_length h) (skipn 9 offers) cs1 []) as [[body|] cs2];
        [reflexivity|].
      right. right. exists h, r0. split; [exact L9|]. split; [reflexivity|].
      split; [|split; [reflexivity|apply Nb; reflexivity]].
      rewrite ntake_spec in Hb. destruct (h_length h <=? lenN (concat cs1)) eqn:LL; [discriminate|].
      apply N.leb_gt in LL. rewrite <- H1. exact LL.
    + right. left. split; [exact L9|]. split; [reflexivity|]. split; [exact H1|exact Hne1].
  - left. assert (L9 : lenN (concat cs) < 9).
    { rewrite ntake_spec in H9. destruct (9 <=? lenN (concat cs)) eqn:L9; [discriminate|].
      apply N.leb_gt in L9. exact L9. }
    split; [exact L9|]. split; [reflexivity|apply N9; reflexivity].
Qed.
