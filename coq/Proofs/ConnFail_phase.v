From SV Require Import Base.Prelude Base.Bytes Model.ConnFail Proofs.ConnFail_proofs.
Open Scope N_scope.

(* ---------- the error a request fails with names the phase of the teardown it was caught in ---------- *)
Definition phase_ok (st : conn) : Prop :=
  (forall r e, In (r, FailBroken e) (c_done st) -> closing e st) /\
  (forall r, In (r, FailChannel) (c_done st) -> chan_closed st = true).

Lemma phase_open_none st : c_status st = Open -> phase_ok st ->
  (forall r e, ~ In (r, FailBroken e) (c_done st)) /\ (forall r, ~ In (r, FailChannel) (c_done st)).
Proof.
  intros Ho [H1 H2]. split.
  - intros r e Hin. destruct (H1 r e Hin) as [H|[H|H]]; rewrite Ho in H; discriminate.
  - intros r Hin. specialize (H2 r Hin). unfold chan_closed in H2. rewrite Ho in H2. discriminate.
Qed.

(* same done list, status moved along Open -> TearingDown e -> Draining e -> Broken e *)
Lemma phase_status st st' :
  c_done st' = c_done st ->
  (c_status st' = c_status st \/ (c_status st = Open) \/
   (exists e, c_status st = TearingDown e /\ c_status st' = Draining e) \/
   (exists e, c_status st = Draining e /\ c_status st' = Broken e)) ->
  phase_ok st -> phase_ok st'.
Proof.
  intros Ed Hs HP. destruct Hs as [Hs|[Hs|[(e & H1 & H2)|(e & H1 & H2)]]].
  - destruct HP as [P1 P2]. split.
    + intros r e Hin. rewrite Ed in Hin. unfold closing in *. rewrite Hs. apply P1 with (r := r). exact Hin.
    + intros r Hin. rewrite Ed in Hin. unfold chan_closed in *. rewrite Hs. apply P2 with (r := r). exact Hin.
  - destruct (phase_open_none st Hs HP) as [N1 N2]. split.
    + intros r e Hin. rewrite Ed in Hin. exfalso. eapply N1. exact Hin.
    + intros r Hin. rewrite Ed in Hin. exfalso. eapply N2. exact Hin.
  - destruct HP as [P1 P2]. split.
    + intros r e0 Hin. rewrite Ed in Hin. specialize (P1 r e0 Hin). unfold closing in *. rewrite H1 in P1. rewrite H2.
      destruct P1 as [P|[P|P]]; try discriminate. injection P as <-. right. left. reflexivity.
    + intros r Hin. unfold chan_closed. rewrite H2. reflexivity.
  - destruct HP as [P1 P2]. split.
    + intros r e0 Hin. rewrite Ed in Hin. specialize (P1 r e0 Hin). unfold closing in *. rewrite H1 in P1. rewrite H2.
      destruct P1 as [P|[P|P]]; try discriminate. injection P as <-. right. right. reflexivity.
    + intros r Hin. unfold chan_closed. rewrite H2. reflexivity.
Qed.

Lemma phase_fault e st : phase_ok st -> phase_ok (fault e st).
Proof.
  intros HP. destruct (fault_fields e st) as (_&_&_&_&_&E6&_).
  apply (phase_status st); [exact E6| |exact HP].
  rewrite fault_status. destruct (c_status st) eqn:Es; [right; left; reflexivity|left; reflexivity..].
Qed.

Lemma phase_complete r o st :
  phase_ok st ->
  (forall e, o = FailBroken e -> closing e st) -> (o = FailChannel -> chan_closed st = true) ->
  phase_ok (complete r o st).
Proof.
  intros HP Hb Hc. destruct (complete_fields r o st) as (_&_&_&_&_&E6&_).
  destruct (complete_status r o st) as [Hs|[Ho Hs]].
  - destruct HP as [P1 P2]. split.
    + intros r0 e Hin. rewrite E6 in Hin. unfold closing. rewrite Hs. apply in_app_or in Hin.
      destruct Hin as [Hin|[Hin|[]]]; [apply P1 with (r := r0); exact Hin|]. injection Hin as _ ->. apply Hb. reflexivity.
    + intros r0 Hin. rewrite E6 in Hin. unfold chan_closed. rewrite Hs. apply in_app_or in Hin.
      destruct Hin as [Hin|[Hin|[]]]; [apply P2 with (r := r0); exact Hin|]. injection Hin as _ ->. apply Hc. reflexivity.
  - destruct (phase_open_none st Ho HP) as [N1 N2]. split.
    + intros r0 e Hin. rewrite E6 in Hin. apply in_app_or in Hin. destruct Hin as [Hin|[Hin|[]]]; [exfalso; eapply N1; exact Hin|].
      injection Hin as _ ->. specialize (Hb e eq_refl). destruct Hb as [H|[H|H]]; rewrite Ho in H; discriminate.
    + intros r0 Hin. rewrite E6 in Hin. apply in_app_or in Hin. destruct Hin as [Hin|[Hin|[]]]; [exfalso; eapply N2; exact Hin|].
      injection Hin as _ ->. specialize (Hc eq_refl). unfold chan_closed in Hc. rewrite Ho in Hc. discriminate.
Qed.

Lemma phase_same st st' : c_done st' = c_done st -> c_status st' = c_status st -> phase_ok st -> phase_ok st'.
Proof. intros Ed Es. apply phase_status; [exact Ed|left; exact Es]. Qed.

Lemma phase_dispatch f st : phase_ok st -> phase_ok (dispatch f st).
Proof.
  intros HP. unfold dispatch. cbn [c_consumed set_consumed c_control c_events c_orphans c_handlers].
  set (s0 := set_consumed (c_consumed st ++ [f]) st).
  assert (H0 : phase_ok s0) by (apply (phase_same st); [reflexivity|reflexivity|exact HP]).
  destruct (32768 <=? f_stream f).
  - destruct (f_stream f =? 65535); [destruct (c_control st); [destruct (f_opcode f =? 12)|]|];
      first [exact H0 | apply phase_fault; exact H0].
  - destruct (nmem (f_stream f) (c_orphans st)); [apply (phase_same s0); [reflexivity|reflexivity|exact H0]|].
    destruct (find_stream (f_stream f) (c_handlers st)).
    + apply phase_complete; [apply (phase_same s0); [reflexivity|reflexivity|exact H0]|discriminate|discriminate].
    + apply phase_fault. exact H0.
Qed.

Lemma phase_drain fuel : forall st, phase_ok st -> phase_ok (drain fuel st).
Proof.
  induction fuel as [|k IH]; intros st HP; cbn [drain]; [exact HP|].
  destruct (is_open st); [|exact HP].
  destruct (parse_frame (c_rbuf st)) as [|e|f rest]; [exact HP|apply phase_fault; exact HP|].
  apply IH. apply phase_dispatch. apply (phase_same st); [reflexivity|reflexivity|exact HP].
Qed.

Lemma phase_step st l st' : phase_ok st -> step st l = Some st' -> phase_ok st'.
Proof.
  intros HP Hs. destruct l as [r|r|r|so|bs| |k| |r| |]; unfold step in Hs.
  - destruct (nmem r (c_submitted st)); [discriminate|].
    change (chan_closed (set_submitted (c_submitted st ++ [r]) st)) with (chan_closed st) in Hs.
    destruct (chan_closed st) eqn:Ec; injection Hs as <-.
    + apply phase_complete; [apply (phase_same st); [reflexivity|reflexivity|exact HP]|discriminate|intros _; exact Ec].
    + apply (phase_same st); [reflexivity|reflexivity|exact HP].
  - destruct (nmem r (c_reserved st)); [|discriminate]. injection Hs as <-. apply (phase_same st); [reflexivity|reflexivity|exact HP].
  - destruct (nmem r (c_submitted st)); [discriminate|]. destruct (is_open st); [|discriminate].
    destruct (c_ka st); [discriminate|]. injection Hs as <-. apply (phase_same st); [reflexivity|reflexivity|exact HP].
  - destruct (is_open st); [|discriminate]. destruct (c_queue st) as [|x q]; [discriminate|]. destruct so as [s|].
    + destruct ((s <? 32768) && negb (nmem s (map fst (c_handlers st))) && negb (nmem s (c_orphans st))); [|discriminate].
      injection Hs as <-. apply (phase_same st); [reflexivity|reflexivity|exact HP].
    + destruct (32768 <=? N.of_nat (List.length (c_handlers st) + List.length (c_orphans st))); [|discriminate].
      injection Hs as <-. apply phase_complete; [apply (phase_same st); [reflexivity|reflexivity|exact HP]|discriminate|discriminate].
  - destruct (is_open st); injection Hs as <-; [|exact HP].
    change (phase_ok (drain (S (List.length (c_rbuf st ++ bs)))
                   (set_received (c_received st ++ bs) (set_rbuf (c_rbuf st ++ bs) st)))).
    apply phase_drain. apply (phase_same st); [reflexivity|reflexivity|exact HP].
  - destruct (is_open st); [injection Hs as <-|discriminate]. apply phase_fault. exact HP.
  - destruct (is_open st); [injection Hs as <-|discriminate]. apply phase_fault. exact HP.
  - destruct (is_open st); [|discriminate]. destruct (c_ka st); [injection Hs as <-|discriminate]. apply phase_fault. exact HP.
  - destruct (nmem r (c_submitted st) && negb (nmem r (map fst (c_done st))) && negb (nmem r (c_cancelled st))); [|discriminate].
    injection Hs as <-. apply (phase_same st); [reflexivity|reflexivity|exact HP].
  - destruct (is_open st); [|discriminate]. destruct (c_notices st) as [|x n]; [discriminate|].
    cbn [c_handlers set_notices c_orphans] in Hs. destruct (find_rid x (c_handlers st)); injection Hs as <-;
      apply (phase_same st); try reflexivity; exact HP.
  - destruct (c_status st) as [|e|e|e] eqn:Es; try discriminate.
    + destruct (c_handlers st) as [|[s x] h]; injection Hs as <-.
      * apply (phase_status st); [reflexivity| |exact HP]. right. right. left. exists e. split; [exact Es|reflexivity].
      * apply phase_complete; [apply (phase_same st); [reflexivity|reflexivity|exact HP]| |discriminate].
        intros e0 H. injection H as <-. left. exact Es.
    + destruct (c_queue st) as [|x q].
      * destruct (c_reserved st); [injection Hs as <-|discriminate].
        apply (phase_status st); [reflexivity| |exact HP]. right. right. right. exists e. split; [exact Es|reflexivity].
      * injection Hs as <-. apply phase_complete; [apply (phase_same st); [reflexivity|reflexivity|exact HP]| |discriminate].
        intros e0 H. injection H as <-. right. left. exact Es.
Qed.

Lemma phase_run ls : forall st st', phase_ok st -> run st ls = Some st' -> phase_ok st'.
Proof.
  induction ls as [|l r IH]; intros st st' HP Hr; cbn [run] in Hr.
  - injection Hr as <-. exact HP.
  - destruct (step st l) as [s1|] eqn:E; [|discriminate]. eapply IH; [|exact Hr]. eapply phase_step; eassumption.
Qed.

(* every reachable state: a request that failed with the router's error e failed with THE error of this
   connection (the one the fault put it into teardown with), and a request refused with ChannelError was
   refused after receiver.close() *)
Lemma root_cause ctl st : reachable ctl st ->
  (forall r e, In (r, FailBroken e) (c_done st) -> closing e st) /\
  (forall r, In (r, FailChannel) (c_done st) -> chan_closed st = true).
Proof.
  intros [ls Hr]. eapply phase_run; [|exact Hr]. split; intros; cbn in *; tauto.
Qed.
