From SV Require Import Base.Prelude Base.Bytes Model.ConnFail Proofs.ConnFail_proofs.
Open Scope N_scope.

(* ---------- the error a request fails with names the phase of the teardown it was caught in ---------- *)
Definition phase_ok (st : conn) : Prop :=
  (forall r e, In (r, FailBroken e) (c_done st) -> closing e st) /\
  (forall r, In (r, FailChannel) (c_done st) -> chan_closed st = true).

Lemma phase_open_none st : c_status st = Open -> phase_ok st ->
  (forall r e, ~ In (r, FailBroken e) (c_done st)) /\ (forall r, ~ In (r, FailChannel) (c_done st)).
Proof.
  intros Ho [H1 H2]. split.
  - intros r e Hin. destruct (H1 r e Hin) as [H|[H|H]]; rewrite Ho in H; discriminate.
  - intros r Hin. specialize (H2 r Hin). unfold chan_closed in H2. rewrite Ho in H2. discriminate.
Qed.

(* same done list, status moved along Open -> TearingDown e -> Draining e -> Broken e *)
Lemma phase_status st st' :
  c_done st' = c_done st ->
  (c_status st' = c_status st \/ (c_status st = Open) \/
   (exists e, c_status st = TearingDown e /\ c_status st' = Draining e) \/
   (exists e, c_status st = Draining e /\ c_status st' = Broken e)) ->
  phase_ok st -> phase_ok st'.
Proof.
  intros Ed Hs HP. destruct Hs as [Hs|[Hs|[(e & H1 & H2)|(e & H1 & H2)]]].
  - destruct HP as [P1 P2]. split.
    + intros r e Hin. rewrite Ed in Hin. unfold closing in *. rewrite Hs. apply P1 with (r := r). exact Hin.
    + intros r Hin. rewrite Ed in Hin. unfold chan_closed in *. rewrite Hs. apply P2 with (r := r). exact Hin.
  - destruct (phase_open_none st Hs HP) as [N1 N2]. split.
    + intros r e Hin. rewrite Ed in Hin. exfalso. eapply N1. exact Hin.
    + intros r Hin. rewrite Ed in Hin. exfalso. eapply N2. exact Hin.
  - destruct HP as [P1 P2]. split.
    + intros r e0 Hin. rewrite Ed in Hin. specialize (P1 r e0 Hin). unfold closing in *. rewrite H1 in P1. rewrite H2.
      destruct P1 as [P|[P|P]]; try discriminate. injection P as <-. right. left. reflexivity.
    + intros r Hin. unfold chan_closed. rewrite H2. reflexivity.
  - destruct HP as [P1 P2]. split.
    + intros r e0 Hin. rewrite Ed in Hin. specialize (P1 r e0 Hin). unfold closing in *. rewrite H1 in P1. rewrite H2.
      destruct P1 as [P|[P|P]]; try discriminate. injection P as <-. right. right. reflexivity.
    + intros r Hin. unfold chan_closed. rewrite H2. reflexivity.
Qed.

Lemma phase_fault e st : phase_ok st -> phase_ok (fault e st).
Proof.
  intros HP. destruct (fault_fields e st) as (_&_&_&_&_&E6&_).
  apply (phase_status st); [exact E6| |exact HP].
  rewrite fault_status. destruct (c_status st) eqn:Es; [right; left; reflexivity|left; reflexivity..].
Qed.

Lemma phase_complete r o st :
  phase_ok st ->
  (forall e, o = FailBroken e -> closing e st) -> (o = FailChannel -> chan_closed st = true) ->
  phase_ok (complete r o st).
Proof.
  intros HP Hb Hc. destruct (complete_fields r o st) as (_&_&_&_&_&E6&_).
  destruct (complete_status r o st) as [Hs|[Ho Hs]].
  - destruct HP as [P1 P2]. split.
    + intros r0 e Hin. rewrite E6 in Hin. unfold closing. rewrite Hs. apply in_app_or in Hin.
      destruct Hin as [Hin|[Hin|[]]]; [apply P1 with (r := r0); exact Hin|]. injection Hin as _ ->. apply Hb. reflexivity.
    + intros r0 Hin. rewrite E6 in Hin. unfold chan_closed. rewrite Hs. apply in_app_or in Hin.
      destruct Hin as [Hin|[Hin|[]]]; [apply P2 with (r := r0); exact Hin|]. injection Hin as _ ->. apply Hc. reflexivity.
  - destruct (phase_open_none st Ho HP) as [N1 N2]. split.
    + intros r0 e Hin. rewrite E6 in Hin. apply in_app_or in Hin. destruct Hin as [Hin|[Hin|[]]]; [exfalso; eapply N1; exact Hin|].
      injection Hin as _ ->. specialize (Hb e eq_refl). destruct Hb as [H|[H|H]]; rewrite Ho in H; discriminate.
    + intros r0 Hin. rewrite E6 in Hin. apply in_app_or in Hin. destruct Hin as [Hin|[Hin|[]]]; [exfalso; eapply N2; exact Hin|].
      injection Hin as _ ->. specialize (Hc eq_refl). unfold chan_closed in Hc. rewrite Ho in Hc. discriminate.
Qed.

Lemma phase_same st st' : c_done st' = c_done st -> c_status st' = c_status st -> phase_ok st -> phase_ok st'.
Proof. intros Ed Es. apply phase_status; [exact Ed|left; exact Es]. Qed.

Lemma phase_dispatch f st : phase_ok st -> phase_ok (dispatch f st).
Proof.
  intros HP. unfold dispatch. cbn [c_consumed set_consumed c_control c_events c_orphans c_handlers].
  set (s0 := set_consumed (c_consumed st ++ [f]) st).
  assert (H0 : phase_ok s0) by (apply (phase_same st); [reflexivity|reflexivity|exact HP]).
  destruct (32768 <=? f_stream f).
  - destruct (f_stream f =? 65535); [destruct (c_control st); [destruct (f_opcode f =? 12)|]|];
      first [exact H0 | apply phase_fault; exact H0].
  - destruct (nmem (f_stream f) (c_orphans st)); [apply (phase_same s0); [reflexivity|reflexivity|exact H0]|].
    destruct (find_stream (f_stream f) (c_handlers st)).
    + apply phase_complete; [apply (phase_same s0); [reflexivity|reflexivity|exact H0]|discriminate|discriminate].
    + apply phase_fault. exact H0.
Qed.

Lemma phase_drain fuel : forall st, phase_ok st -> phase_ok (drain fuel st).
Proof.
  induction fuel as [|k IH]; intros st HP; cbn [drain]; [exact HP|].
  destruct (is_open st); [|exact HP].
  destruct (parse_frame (c_rbuf st)) as [|e|f rest]; [exact HP|apply phase_fault; exact HP|].
  apply IH. apply phase_dispatch. apply (phase_same st); [reflexivity|reflexivity|exact HP].
Qed.

Lemma phase_step st l st' : phase_ok st -> step st l = Some st' -> phase_ok st'.
Proof.
  intros HP Hs. destruct l as [r|r|r|so|bs| |k| |r| |]; unfold step in Hs.
  - destruct (nmem r (c_submitted st)); [discriminate|].
    change (chan_closed (set_submitted (c_submitted st ++ [r]) st)) with (chan_closed st) in Hs.
    destruct (chan_closed st) eqn:Ec; injection Hs as <-.
    + apply phase_complete; [apply (phase_same st); [reflexivity|reflexivity|exact HP]|discriminate|intros _; exact Ec].
    + apply (phase_same st); [reflexivity|reflexivity|exact HP].
  - destruct (nmem r (c_reserved st)); [|discriminate]. injection Hs as <-. apply (phase_same st); [reflexivity|reflexivity|exact HP].
  - destruct (nmem r (c_submitted st)); [discriminate|]. destruct (is_open st); [|discriminate].
    destruct (c_ka st); [discriminate|]. injection Hs as <-. apply (phase_same st); [reflexivity|reflexivity|exact HP].
  - destruct (is_open st); [|discriminate]. destruct (c_queue st) as [|x q]; [discriminate|]. destruct so as [s|].
    + destruct ((s <? 32768) && negb (nmem s (map fst (c_handlers st))) && negb (nmem s (c_orphans st))); [|discriminate].
      injection Hs as <-. apply (phase_same st); [reflexivity|reflexivity|exact HP].
    + destruct (32768 <=? N.of_nat (List.length (c_handlers st) + List.length (c_orphans st))); [|discriminate].
      injection Hs as <-. apply phase_complete; [apply (phase_same st); [reflexivity|reflexivity|exact HP]|discriminate|discriminate].
  - destruct (is_open st); injection Hs as <-; [|exact HP].
    change (phase_ok (drain (S (List.length (c_rbuf st ++ bs)))
                   (set_received (c_received st ++ bs) (set_rbuf (c_rbuf st ++ bs) st)))).
    apply phase_drain. apply (phase_same st); [reflexivity|reflexivity|exact HP].
  - destruct (is_open st); [injection Hs as <-|discriminate]. apply phase_fault. exact HP.
  - destruct (is_open st); [injection Hs as <-|discriminate]. apply phase_fault. exact HP.
  - destruct (is_open st); [|discriminate]. destruct (c_ka st); [injection Hs as <-|discriminate]. apply phase_fault. exact HP.
  - destruct (nmem r (c_submitted st) && negb (nmem r (map fst (c_done st))) && negb (nmem r (c_cancelled st))); [|discriminate].
    injection Hs as <-. apply (phase_same st); [reflexivity|reflexivity|exact HP].
  - destruct (is_open st); [|discriminate]. destruct (c_notices st) as [|x n]; [discriminate|].
    cbn [c_handlers set_notices c_orphans] in Hs. destruct (find_rid x (c_handlers st)); injection Hs as <-;
      apply (phase_same st); try reflexivity; exact HP.
  - destruct (c_status st) as [|e|e|e] eqn:Es; try discriminate.
    + destruct (c_handlers st) as [|[s x] h]; injection Hs as <-.
      * apply (phase_status st); [reflexivity| |exact HP]. right. right. left. exists e. split; [exact Es|reflexivity].
      * apply phase_complete; [apply (phase_same st); [reflexivity|reflexivity|exact HP]| |discriminate].
        intros e0 H. injection H as <-. left. exact Es.
    + destruct (c_queue st) as [|x q].
      * destruct (c_reserved st); [injection Hs as <-|discriminate].
        apply (phase_status st); [reflexivity| |exact HP]. right. right. right. exists e. split; [exact Es|reflexivity].
      * injection Hs as <-. apply phase_complete; [apply (phase_same st); [reflexivity|reflexivity|exact HP]| |discriminate].
        intros e0 H. injection H as <-. right. left. exact Es.
Qed.

Lemma phase_run ls : forall st st', phase_ok st -> run st ls = Some st' -> phase_ok st'.
Proof.
  induction ls as [|l r IH]; intros st st' HP Hr; cbn [run] in Hr.
  - injection Hr as <-. exact HP.
  - destruct (step st l) as [s1|] eqn:E; [|discriminate]. eapply IH; [|exact Hr]. eapply phase_step; eassumption.
Qed.

(* every reachable state: a request that failed with the router's error e failed with THE error of this
   connection (the one the fault put it into teardown with), and a request refused with ChannelError was
   refused after receiver.close() *)
Lemma root_cause ctl st : reachable ctl st ->
  (forall r e, In (r, FailBroken e) (c_done st) -> closing e st) /\
  (forall r, In (r, FailChannel) (c_done st) -> chan_closed st = true).
Proof.
  intros [ls Hr]. eapply phase_run; [|exact Hr]. split; intros; cbn in *; tauto.
Qed.

(* ---------- steps of the teardown agents, counted ---------- *)
(* the agents that finish a teardown: the router ([TdStep]) and the senders that hold a channel slot ([Push]) *)
Definition is_prog (l : label) : bool := match l with TdStep | Push _ => true | _ => false end.
(* a new submit *)
Definition is_subm (l : label) : bool := match l with Reserve _ => true | _ => false end.
Definition cnt (f : label -> bool) (ls : list label) : nat := List.length (filter f ls).

Lemma td_measure_eq a b :
  c_status a = c_status b -> List.length (c_handlers a) = List.length (c_handlers b) ->
  List.length (c_queue a) = List.length (c_queue b) -> List.length (c_reserved a) = List.length (c_reserved b) ->
  td_measure a = td_measure b.
Proof. intros H1 H2 H3 H4. unfold td_measure. rewrite H1, H2, H3, H4. reflexivity. Qed.

Lemma td_measure_complete e r o s : closing e s -> td_measure (complete r o s) = td_measure s.
Proof.
  intros Hc. destruct (complete_fields r o s) as (_&E2&_&E4&_&_&_&_&_&_&_&_&E13).
  apply td_measure_eq; [apply complete_closing with (e := e); exact Hc|rewrite E2|rewrite E4|rewrite E13]; reflexivity.
Qed.

(* potential: a step of a teardown agent costs one unit, a new submit adds at most two, nothing else adds *)
Lemma step_potential st l st' e : Inv st -> closing e st -> step st l = Some st' ->
  (td_measure st' + (if is_prog l then 1 else 0) <= td_measure st + (if is_subm l then 2 else 0))%nat.
Proof.
  intros HI Hst Hs. pose proof (closing_not_open _ _ Hst) as Hno.
  destruct l as [r|r|r|so|bs| |k| |r| |]; unfold step in Hs; cbn [is_prog is_subm].
  - destruct (nmem r (c_submitted st)); [discriminate|].
    change (chan_closed (set_submitted (c_submitted st ++ [r]) st)) with (chan_closed st) in Hs.
    destruct (chan_closed st); injection Hs as <-.
    + rewrite (td_measure_complete e); [|exact Hst]. unfold td_measure. cbn. lia.
    + unfold td_measure. cbn. rewrite app_length. cbn. destruct (c_status st); lia.
  - destruct (nmem r (c_reserved st)) eqn:En; [|discriminate]. apply nmem_In in En. injection Hs as <-.
    destruct (nremove_split _ _ En) as (l1 & l2 & El & Er).
    unfold td_measure. cbn. rewrite Er, El, !app_length. cbn.
    destruct (c_status st) eqn:Es; try lia.
    + destruct Hst as [H|[H|H]]; rewrite Es in H; discriminate.
    + pose proof (inv_status _ HI) as Hok. rewrite Es in Hok. destruct Hok as (_ & _ & Hr). rewrite Hr in En. destruct En.
  - destruct (nmem r (c_submitted st)); [discriminate|]. rewrite Hno in Hs. discriminate.
  - rewrite Hno in Hs. discriminate.
  - rewrite Hno in Hs. injection Hs as <-. lia.
  - rewrite Hno in Hs. discriminate.
  - rewrite Hno in Hs. discriminate.
  - rewrite Hno in Hs. discriminate.
  - destruct (nmem r (c_submitted st) && negb (nmem r (map fst (c_done st))) && negb (nmem r (c_cancelled st))); [|discriminate].
    injection Hs as <-. unfold td_measure. cbn. lia.
  - rewrite Hno in Hs. discriminate.
  - destruct (c_status st) as [|e0|e0|e0] eqn:Es; try discriminate.
    + destruct (c_handlers st) as [|[s r] h] eqn:Eh; injection Hs as <-.
      * unfold td_measure. cbn. rewrite Es, Eh. cbn. lia.
      * rewrite (td_measure_complete e0); [|left; exact Es]. unfold td_measure. cbn. rewrite Es, Eh. cbn. lia.
    + destruct (c_queue st) as [|r q] eqn:Eq.
      * destruct (c_reserved st) as [|x xs] eqn:Er; [injection Hs as <-|discriminate].
        unfold td_measure. cbn. rewrite Es, Eq, Er. cbn. lia.
      * injection Hs as <-. rewrite (td_measure_complete e0); [|right; left; exact Es].
        unfold td_measure. cbn. rewrite Es, Eq. cbn. lia.
Qed.

Lemma run_potential ls : forall st st' e, Inv st -> closing e st -> run st ls = Some st' ->
  (td_measure st' + cnt is_prog ls <= td_measure st + 2 * cnt is_subm ls)%nat.
Proof.
  induction ls as [|l rest IH]; intros st st' e HI Hst Hr; cbn [run] in Hr.
  - injection Hr as <-. unfold cnt. cbn. lia.
  - destruct (step st l) as [s1|] eqn:E; [|discriminate].
    pose proof (step_potential _ _ _ _ HI Hst E) as H1.
    destruct (step_closing _ _ _ _ Hst E) as (Hc1 & _).
    pose proof (IH _ _ _ (inv_step _ _ _ HI E) Hc1 Hr) as H2.
    unfold cnt in *. cbn [filter]. destruct (is_prog l), (is_subm l); cbn [List.length]; lia.
Qed.

(* after receiver.close() new submits add nothing *)
Lemma step_potential_draining st l st' : Inv st -> chan_closed st = true -> step st l = Some st' ->
  (td_measure st' + (if is_prog l then 1 else 0) <= td_measure st)%nat /\ chan_closed st' = true.
Proof.
  intros HI Hcl Hs.
  assert (He : exists e, c_status st = Draining e \/ c_status st = Broken e).
  { unfold chan_closed in Hcl. destruct (c_status st) as [|e|e|e]; try discriminate; exists e; auto. }
  destruct He as [e He].
  assert (Hst : closing e st) by (destruct He; [right; left|right; right]; assumption).
  destruct (step_closing _ _ _ _ Hst Hs) as (Hc1 & _).
  split.
  - pose proof (step_potential _ _ _ _ HI Hst Hs) as H.
    destruct l as [r|r|r|so|bs| |k| |r| |]; cbn [is_subm] in H; [|cbn [is_prog] in *; lia..].
    (* Reserve after close: fails at once *)
    cbn [is_prog]. unfold step in Hs. destruct (nmem r (c_submitted st)); [discriminate|].
    change (chan_closed (set_submitted (c_submitted st ++ [r]) st)) with (chan_closed st) in Hs.
    rewrite Hcl in Hs. injection Hs as <-. rewrite (td_measure_complete e); [|exact Hst]. unfold td_measure. cbn. destruct (c_status st); lia.
  - (* closing e st', and not back to TearingDown: the measure argument is not needed, statuses only move forward *)
    unfold chan_closed. destruct Hc1 as [H|[H|H]]; rewrite H; try reflexivity.
    exfalso.
    (* st' = TearingDown e although st was Draining/Broken: impossible, td_measure would have grown by >= 1 ... use status_ok *)
    destruct l as [r|r|r|so|bs| |k| |r| |]; unfold step in Hs; pose proof (closing_not_open _ _ Hst) as Hno.
    + destruct (nmem r (c_submitted st)); [discriminate|].
      change (chan_closed (set_submitted (c_submitted st ++ [r]) st)) with (chan_closed st) in Hs.
      rewrite Hcl in Hs. injection Hs as <-. rewrite (complete_closing e) in H; [|exact Hst]. cbn in H.
      destruct He as [He|He]; rewrite He in H; discriminate.
    + destruct (nmem r (c_reserved st)); [|discriminate]. injection Hs as <-. cbn in H. destruct He as [He|He]; rewrite He in H; discriminate.
    + destruct (nmem r (c_submitted st)); [discriminate|]. rewrite Hno in Hs. discriminate.
    + rewrite Hno in Hs. discriminate.
    + rewrite Hno in Hs. injection Hs as <-. destruct He as [He|He]; rewrite He in H; discriminate.
    + rewrite Hno in Hs. discriminate.
    + rewrite Hno in Hs. discriminate.
    + rewrite Hno in Hs. discriminate.
    + destruct (nmem r (c_submitted st) && negb (nmem r (map fst (c_done st))) && negb (nmem r (c_cancelled st))); [|discriminate].
      injection Hs as <-. cbn in H. destruct He as [He|He]; rewrite He in H; discriminate.
    + rewrite Hno in Hs. discriminate.
    + destruct He as [He|He]; rewrite He in Hs; [|discriminate].
      destruct (c_queue st) as [|r q].
      * destruct (c_reserved st); [injection Hs as <-|discriminate]. cbn in H. discriminate.
      * injection Hs as <-. rewrite (complete_closing e) in H; [|right; left; cbn; exact He]. cbn in H. rewrite He in H. discriminate.
Qed.

Lemma run_potential_draining ls : forall st st', Inv st -> chan_closed st = true -> run st ls = Some st' ->
  (td_measure st' + cnt is_prog ls <= td_measure st)%nat.
Proof.
  induction ls as [|l rest IH]; intros st st' HI Hcl Hr; cbn [run] in Hr.
  - injection Hr as <-. unfold cnt. cbn. lia.
  - destruct (step st l) as [s1|] eqn:E; [|discriminate].
    destruct (step_potential_draining _ _ _ HI Hcl E) as (H1 & Hcl1).
    pose proof (IH _ _ (inv_step _ _ _ HI E) Hcl1 Hr) as H2.
    unfold cnt in *. cbn [filter]. destruct (is_prog l); cbn [List.length]; lia.
Qed.

Lemma measure_zero_broken st e : Inv st -> closing e st -> td_measure st = O ->
  c_status st = Broken e /\ pending_rids st = [].
Proof.
  intros HI Hc Hm. unfold td_measure in Hm.
  destruct Hc as [H|[H|H]]; rewrite H in Hm; try discriminate.
  split; [exact H|]. pose proof (inv_status _ HI) as Hok. rewrite H in Hok. destruct Hok as (Eh & Eq & Er).
  unfold pending_rids. rewrite Eh, Eq, Er. reflexivity.
Qed.

Lemma broken_all_done st e : Inv st -> c_status st = Broken e ->
  forall r, In r (c_submitted st) -> (exists o, outcome_of r (c_done st) = Some o) \/ In r (c_cancelled st).
Proof.
  intros HR HB r Hin. destruct (inv_acct _ HR) as (_ & Hd & _ & _ & Hs).
  pose proof (inv_status _ HR) as Hok. rewrite HB in Hok. destruct Hok as (Eh & Eq & Er).
  destruct (Hs r Hin) as [H|[H|H]]; [|unfold pending_rids in H; rewrite Eh, Eq, Er in H; destruct H|right; exact H].
  left. apply in_map_iff in H. destruct H as [[r' o] [E Ho]]. cbn in E. subst r'.
  exists o. apply outcome_of_In; assumption.
Qed.

(* Liveness under fairness, finite core.  For EVERY schedule [ls] run from a state in teardown -- whatever
   else is interleaved (submits, drops, late bytes) --
   (1) the router and the slot holders can take at most  td_measure st + 2 * (new submits)  steps, and
   (2) a schedule that contains that many of THEIR steps has finished the teardown: the connection is
       Broken, nothing is pending, every request ever submitted has an outcome or was dropped by its caller.
   With C10_teardown_progress (while not finished, one of their steps is enabled) this is the liveness
   argument: a weakly fair scheduler -- one that does not ignore an enabled router / slot holder for ever --
   produces a prefix with that many of their steps. *)
Lemma fair_liveness ctl st e ls st' : reachable ctl st ->
  c_status st = TearingDown e \/ c_status st = Draining e -> run st ls = Some st' ->
  (td_measure st' + cnt is_prog ls <= td_measure st + 2 * cnt is_subm ls)%nat /\
  ((td_measure st + 2 * cnt is_subm ls <= cnt is_prog ls)%nat ->
     c_status st' = Broken e /\ pending_rids st' = [] /\
     forall r, In r (c_submitted st') -> (exists o, outcome_of r (c_done st') = Some o) \/ In r (c_cancelled st')).
Proof.
  intros HR Hst Hr. apply inv_reachable in HR.
  assert (Hc : closing e st) by (destruct Hst; [left|right; left]; assumption).
  pose proof (run_potential _ _ _ _ HR Hc Hr) as HP. split; [exact HP|]. intros Hfair.
  assert (I' : Inv st') by (eapply inv_run; eassumption).
  destruct (run_closing _ _ _ _ Hc Hr) as (Hc' & _).
  destruct (measure_zero_broken _ _ I' Hc') as (HB & HPn); [lia|].
  repeat split; [exact HB|exact HPn|]. apply (broken_all_done _ e I' HB).
Qed.

(* the same after receiver.close(): new submits are refused at once and add nothing *)
Lemma fair_drain ctl st e ls st' : reachable ctl st -> c_status st = Draining e -> run st ls = Some st' ->
  (td_measure st' + cnt is_prog ls <= td_measure st)%nat /\
  ((td_measure st <= cnt is_prog ls)%nat -> c_status st' = Broken e /\ pending_rids st' = []).
Proof.
  intros HR Hst Hr. apply inv_reachable in HR.
  assert (Hc : closing e st) by (right; left; assumption).
  assert (Hcl : chan_closed st = true) by (unfold chan_closed; rewrite Hst; reflexivity).
  pose proof (run_potential_draining _ _ _ HR Hcl Hr) as HP. split; [exact HP|]. intros Hfair.
  assert (I' : Inv st') by (eapply inv_run; eassumption).
  destruct (run_closing _ _ _ _ Hc Hr) as (Hc' & _).
  apply (measure_zero_broken _ _ I' Hc'). lia.
Qed.

(* ---------- the root cause, per run ---------- *)
(* In a non-open state a request is completed only with THE error of the connection, or -- a submit made
   after receiver.close() -- refused with ChannelError. *)
Lemma step_closing_exact st l st' e : closing e st -> step st l = Some st' ->
  forall r o, In (r, o) (c_done st') ->
    In (r, o) (c_done st) \/ o = FailBroken e \/ (o = FailChannel /\ ~ In r (c_submitted st)).
Proof.
  intros Hst Hs r0 o0 Hin. pose proof (closing_not_open _ _ Hst) as Hno.
  destruct l as [r|r|r|so|bs| |k| |r| |]; unfold step in Hs.
  - destruct (nmem r (c_submitted st)) eqn:En; [discriminate|]. apply nmem_false in En.
    change (chan_closed (set_submitted (c_submitted st ++ [r]) st)) with (chan_closed st) in Hs.
    destruct (chan_closed st); injection Hs as <-.
    + destruct (complete_fields r FailChannel (set_submitted (c_submitted st ++ [r]) st)) as (_&_&_&_&_&E6&_).
      rewrite E6 in Hin. cbn in Hin. apply in_app_or in Hin. destruct Hin as [Hin|[Hin|[]]]; [left; exact Hin|].
      injection Hin as <- <-. right. right. split; [reflexivity|exact En].
    + left. exact Hin.
  - destruct (nmem r (c_reserved st)); [|discriminate]. injection Hs as <-. left. exact Hin.
  - destruct (nmem r (c_submitted st)); [discriminate|]. rewrite Hno in Hs. discriminate.
  - rewrite Hno in Hs. discriminate.
  - rewrite Hno in Hs. injection Hs as <-. left. exact Hin.
  - rewrite Hno in Hs. discriminate.
  - rewrite Hno in Hs. discriminate.
  - rewrite Hno in Hs. discriminate.
  - destruct (nmem r (c_submitted st) && negb (nmem r (map fst (c_done st))) && negb (nmem r (c_cancelled st))); [|discriminate].
    injection Hs as <-. left. exact Hin.
  - rewrite Hno in Hs. discriminate.
  - destruct (c_status st) as [|e0|e0|e0] eqn:Es; try discriminate.
    + assert (e0 = e) by (destruct Hst as [H|[H|H]]; congruence). subst e0.
      destruct (c_handlers st) as [|[s r] h]; injection Hs as <-; [left; exact Hin|].
      destruct (complete_fields r (FailBroken e) (set_handlers h st)) as (_&_&_&_&_&E6&_).
      rewrite E6 in Hin. cbn in Hin. apply in_app_or in Hin. destruct Hin as [Hin|[Hin|[]]]; [left; exact Hin|].
      injection Hin as <- <-. right. left. reflexivity.
    + assert (e0 = e) by (destruct Hst as [H|[H|H]]; congruence). subst e0.
      destruct (c_queue st) as [|r q].
      * destruct (c_reserved st); [injection Hs as <-|discriminate]. left. exact Hin.
      * injection Hs as <-.
        destruct (complete_fields r (FailBroken e) (set_queue q st)) as (_&_&_&_&_&E6&_).
        rewrite E6 in Hin. cbn in Hin. apply in_app_or in Hin. destruct Hin as [Hin|[Hin|[]]]; [left; exact Hin|].
        injection Hin as <- <-. right. left. reflexivity.
Qed.

Lemma run_closing_exact ls : forall st st' e, closing e st -> run st ls = Some st' ->
  forall r o, In (r, o) (c_done st') ->
    In (r, o) (c_done st) \/ o = FailBroken e \/ (o = FailChannel /\ ~ In r (c_submitted st)).
Proof.
  induction ls as [|l rest IH]; intros st st' e Hst Hr r o Hin; cbn [run] in Hr.
  - injection Hr as <-. left. exact Hin.
  - destruct (step st l) as [s1|] eqn:E; [|discriminate].
    destruct (step_closing _ _ _ _ Hst E) as (Hc1 & _).
    destruct (IH _ _ _ Hc1 Hr r o Hin) as [H|[H|[H1 H2]]].
    + apply (step_closing_exact _ _ _ _ Hst E). exact H.
    + right. left. exact H.
    + right. right. split; [exact H1|]. intros Hs. apply H2. eapply step_submitted_mono; eassumption.
Qed.

(* Run-level root cause: after ANY history, once a step has put the connection into teardown with error e,
   in EVERY continuation every request the connection fails with the router's error fails with e; whatever
   is completed afterwards is completed with FailBroken e, or is a submit made after the fault that was
   refused with ChannelError after receiver.close(); a request pending at the fault can only get
   FailBroken e, and has got it when the router has finished. *)
Lemma root_cause_run ctl ls1 l ls2 st1 st2 st3 e :
  run (conn_init ctl) ls1 = Some st1 -> step st1 l = Some st2 -> c_status st2 = TearingDown e ->
  run st2 ls2 = Some st3 ->
  closing e st3 /\
  (forall r e', In (r, FailBroken e') (c_done st3) -> e' = e) /\
  (forall r o, In (r, o) (c_done st3) ->
     In (r, o) (c_done st2) \/ o = FailBroken e \/
     (o = FailChannel /\ chan_closed st3 = true /\ ~ In r (c_submitted st2))) /\
  (forall r o, In r (pending_rids st2) -> outcome_of r (c_done st3) = Some o -> o = FailBroken e) /\
  (c_status st3 = Broken e -> forall r, In r (pending_rids st2) -> outcome_of r (c_done st3) = Some (FailBroken e)).
Proof.
  intros R1 S2 T2 R3.
  assert (I2 : Inv st2). { eapply inv_step; [|exact S2]. eapply inv_run; [apply inv_init|exact R1]. }
  assert (HR3 : reachable ctl st3).
  { exists (ls1 ++ l :: ls2). rewrite run_app, R1. cbn [run]. rewrite S2. exact R3. }
  assert (Hc2 : closing e st2) by (left; exact T2).
  destruct (run_closing _ _ _ _ Hc2 R3) as (Hc3 & _).
  destruct (root_cause ctl st3 HR3) as [P1 P2].
  assert (Hex := run_closing_exact _ _ _ _ Hc2 R3).
  assert (H4 : forall r o, In r (pending_rids st2) -> outcome_of r (c_done st3) = Some o -> o = FailBroken e).
  { intros r o Hp Ho. apply outcome_of_some_In in Ho.
    destruct (inv_acct _ I2) as (_ & _ & Hpend & _). destruct (Hpend r Hp) as [Hsub Hnd].
    destruct (Hex r o Ho) as [H|[H|[_ H]]]; [|exact H|tauto].
    exfalso. apply Hnd. apply (in_map fst) in H. exact H. }
  split; [exact Hc3|]. split; [|split; [|split; [exact H4|]]].
  - intros r e' Hin. specialize (P1 r e' Hin).
    destruct P1 as [A|[A|A]]; destruct Hc3 as [B|[B|B]]; rewrite A in B; congruence.
  - intros r o Hin. destruct (Hex r o Hin) as [H|[H|[H1 H2]]]; [left; exact H|right; left; exact H|].
    right. right. subst o. repeat split; [apply (P2 r); exact Hin|exact H2].
  - intros HB r Hp.
    destruct (all_fail ctl ls1 l ls2 st1 st2 st3 e e R1 S2 T2 R3 HB) as (_ & Hall & _).
    destruct (Hall r Hp) as (o & Ho & _). rewrite Ho. f_equal. apply (H4 r o Hp Ho).
Qed.

(* What /repo bbe7c96 repaired, in general: whenever a fault hits while a sender holds a channel slot (or
   its task is in the channel, or in the handler map), there is a finishing schedule of router steps and
   pushes within td_measure steps after which the request has failed with the connection's error, and in
   EVERY schedule in which the router finishes the request has failed with that error: the router cannot
   finish over a stranded request. *)
Lemma post_fix_general ctl ls l st st2 e r :
  run (conn_init ctl) ls = Some st -> step st l = Some st2 -> c_status st2 = TearingDown e ->
  In r (pending_rids st2) ->
  (exists fin st3, run st2 fin = Some st3 /\ Forall (fun l => l = TdStep \/ exists r, l = Push r) fin /\
     (List.length fin <= td_measure st2)%nat /\ c_status st3 = Broken e /\
     outcome_of r (c_done st3) = Some (FailBroken e)) /\
  (forall ls2 st3 e', run st2 ls2 = Some st3 -> c_status st3 = Broken e' ->
     e' = e /\ outcome_of r (c_done st3) = Some (FailBroken e)).
Proof.
  intros R S2 T2 Hp. split.
  - destruct (fault_completes_all ctl ls l st st2 e R S2 T2) as (fin & st3 & R3 & HF & HL & HB & _).
    exists fin, st3. repeat split; try assumption.
    destruct (root_cause_run ctl ls l fin st st2 st3 e R S2 T2 R3) as (_ & _ & _ & _ & H5). apply H5; assumption.
  - intros ls2 st3 e' R3 HB.
    destruct (all_fail ctl ls l ls2 st st2 st3 e e' R S2 T2 R3 HB) as (Ee & _). subst e'. split; [reflexivity|].
    destruct (root_cause_run ctl ls l ls2 st st2 st3 e R S2 T2 R3) as (_ & _ & _ & _ & H5). apply H5; assumption.
Qed.

(* ---------- receiver.close() is reached after at most handlers + 1 router steps ---------- *)
Definition is_td (l : label) : bool := match l with TdStep => true | _ => false end.

Lemma step_to_close st l st' e : c_status st = TearingDown e -> step st l = Some st' ->
  chan_closed st' = true \/
  (c_status st' = TearingDown e /\
   (List.length (c_handlers st') + (if is_td l then 1 else 0) <= List.length (c_handlers st))%nat).
Proof.
  intros Es Hs. assert (Hst : closing e st) by (left; exact Es). pose proof (closing_not_open _ _ Hst) as Hno.
  destruct l as [r|r|r|so|bs| |k| |r| |]; unfold step in Hs; cbn [is_td].
  - destruct (nmem r (c_submitted st)); [discriminate|].
    change (chan_closed (set_submitted (c_submitted st ++ [r]) st)) with (chan_closed st) in Hs.
    unfold chan_closed in Hs. rewrite Es in Hs. injection Hs as <-. right. cbn. split; [exact Es|lia].
  - destruct (nmem r (c_reserved st)); [|discriminate]. injection Hs as <-. right. cbn. split; [exact Es|lia].
  - destruct (nmem r (c_submitted st)); [discriminate|]. rewrite Hno in Hs. discriminate.
  - rewrite Hno in Hs. discriminate.
  - rewrite Hno in Hs. injection Hs as <-. right. split; [exact Es|lia].
  - rewrite Hno in Hs. discriminate.
  - rewrite Hno in Hs. discriminate.
  - rewrite Hno in Hs. discriminate.
  - destruct (nmem r (c_submitted st) && negb (nmem r (map fst (c_done st))) && negb (nmem r (c_cancelled st))); [|discriminate].
    injection Hs as <-. right. cbn. split; [exact Es|lia].
  - rewrite Hno in Hs. discriminate.
  - rewrite Es in Hs. destruct (c_handlers st) as [|[s r] h] eqn:Eh; injection Hs as <-.
    + left. reflexivity.
    + right. destruct (complete_fields r (FailBroken e) (set_handlers h st)) as (_&E2&_).
      rewrite E2. cbn. split; [|lia]. rewrite (complete_closing e); [exact Es|left; exact Es].
Qed.

Lemma run_chan_closed ls : forall st st', Inv st -> chan_closed st = true -> run st ls = Some st' -> chan_closed st' = true.
Proof.
  induction ls as [|l rest IH]; intros st st' HI Hcl Hr; cbn [run] in Hr.
  - injection Hr as <-. exact Hcl.
  - destruct (step st l) as [s1|] eqn:E; [|discriminate].
    destruct (step_potential_draining _ _ _ HI Hcl E) as (_ & Hcl1).
    eapply IH; [eapply inv_step; eassumption|exact Hcl1|exact Hr].
Qed.

(* whatever is interleaved, handlers + 1 steps of the router bring receiver.close(): from then on every new
   submit is refused at once (C10_later_submit_fails) and the remaining work only shrinks (C10_fair_drain) *)
Lemma fair_close ctl ls : forall st st' e, reachable ctl st -> c_status st = TearingDown e -> run st ls = Some st' ->
  (List.length (c_handlers st) < cnt is_td ls)%nat -> chan_closed st' = true.
Proof.
  intros st st' e HR. apply inv_reachable in HR. revert st st' e HR.
  induction ls as [|l rest IH]; intros st st' e HI Es Hr Hn; cbn [run] in Hr.
  - unfold cnt in Hn. cbn in Hn. lia.
  - destruct (step st l) as [s1|] eqn:E; [|discriminate].
    assert (I1 : Inv s1) by (eapply inv_step; eassumption).
    destruct (step_to_close _ _ _ _ Es E) as [Hcl|[Es1 Hlen]].
    + eapply run_chan_closed; eassumption.
    + eapply IH; [exact I1|exact Es1|exact Hr|].
      unfold cnt in *. cbn [filter] in Hn. destruct (is_td l); cbn [List.length] in Hn; lia.
Qed.
