(* Lemmas about Model/Ring.v: first-occurrence de-duplication, the stable sort, the landing
   index of the binary search and the "clockwise" characterisation of ring_range. *)
From SV Require Import Base.Prelude Model.Ring.
From Coq Require Import Permutation.
Open Scope Z_scope.

(* ---------------------------------------------------------------- uniq *)
Section UniqLemmas.
  Context {A : Type} (eqb : A -> A -> bool).
  Hypothesis eqb_eq : forall a b, eqb a b = true <-> a = b.

  Lemma mem_by_In x l : mem_by eqb x l = true <-> In x l.
  Proof.
    unfold mem_by. rewrite existsb_exists. split.
    - intros (y & Hy & E). apply eqb_eq in E. now subst.
    - intros H. exists x. split; [assumption|now apply eqb_eq].
  Qed.

  Lemma mem_by_false x l : mem_by eqb x l = false <-> ~ In x l.
  Proof.
    rewrite <- mem_by_In. destruct (mem_by eqb x l); split; congruence.
  Qed.

  Lemma mem_by_ext x l l' : (forall y, In y l <-> In y l') -> mem_by eqb x l = mem_by eqb x l'.
  Proof.
    intros H. destruct (mem_by eqb x l) eqn:E; symmetry.
    - apply mem_by_In. apply H. now apply mem_by_In.
    - apply mem_by_false. intros C. apply H in C. apply mem_by_false in E. contradiction.
  Qed.

  Lemma uniq_aux_In seen l x : In x (uniq_aux eqb seen l) <-> In x l /\ ~ In x seen.
  Proof.
    revert seen. induction l as [|y r IH]; intros seen; cbn [uniq_aux].
    - cbn. tauto.
    - destruct (mem_by eqb y seen) eqn:E.
      + apply mem_by_In in E. rewrite IH. cbn. split.
        * intros [H1 H2]. tauto.
        * intros [[->|H1] H2]; [contradiction|tauto].
      + apply mem_by_false in E. cbn. rewrite IH. cbn. split.
        * intros [->|[H1 H2]]; [tauto|]. tauto.
        * intros [[->|H1] H2]; [tauto|]. destruct (eqb y x) eqn:Eyx.
          -- apply eqb_eq in Eyx. tauto.
          -- right. split; [assumption|]. intros [->|C]; [|contradiction].
             assert (eqb x x = true) by now apply eqb_eq. congruence.
  Qed.

  Lemma uniq_aux_NoDup seen l : NoDup (uniq_aux eqb seen l).
  Proof.
    revert seen. induction l as [|y r IH]; intros seen; cbn [uniq_aux].
    - constructor.
    - destruct (mem_by eqb y seen) eqn:E; [apply IH|].
      constructor; [|apply IH]. rewrite uniq_aux_In. cbn. tauto.
  Qed.

  Lemma uniq_by_In l x : In x (uniq_by eqb l) <-> In x l.
  Proof. unfold uniq_by. rewrite uniq_aux_In. cbn. tauto. Qed.

  Lemma uniq_by_NoDup l : NoDup (uniq_by eqb l).
  Proof. apply uniq_aux_NoDup. Qed.

  Lemma uniq_aux_seen_ext s s' l :
    (forall y, In y s <-> In y s') -> uniq_aux eqb s l = uniq_aux eqb s' l.
  Proof.
    revert s s'. induction l as [|y r IH]; intros s s' H; cbn [uniq_aux]; [reflexivity|].
    rewrite (mem_by_ext y s s' H). destruct (mem_by eqb y s'); [now apply IH|].
    f_equal. apply IH. intros z. cbn. rewrite H. tauto.
  Qed.

  Lemma uniq_by_length_ext l l' :
    (forall y, In y l <-> In y l') -> List.length (uniq_by eqb l) = List.length (uniq_by eqb l').
  Proof.
    intros H. apply Permutation_length. apply NoDup_Permutation; try apply uniq_by_NoDup.
    intros y. rewrite !uniq_by_In. apply H.
  Qed.

  Lemma uniq_by_length_incl l l' :
    (forall y, In y l -> In y l') -> (List.length (uniq_by eqb l) <= List.length (uniq_by eqb l'))%nat.
  Proof.
    intros H. apply NoDup_incl_length; [apply uniq_by_NoDup|].
    intros y. rewrite !uniq_by_In. apply H.
  Qed.

  (* de-duplication with a seen-set is filtering the plain de-duplication *)
  Lemma uniq_aux_filter seen l :
    uniq_aux eqb seen l = filter (fun x => negb (mem_by eqb x seen)) (uniq_by eqb l).
  Proof.
    unfold uniq_by.
    assert (G : forall s0 seen', (forall y, In y s0 -> In y seen') ->
              uniq_aux eqb seen' l = filter (fun x => negb (mem_by eqb x seen')) (uniq_aux eqb s0 l)).
    { induction l as [|y r IH]; intros s0 seen' Hs; cbn [uniq_aux]; [reflexivity|].
      destruct (mem_by eqb y s0) eqn:E0.
      - apply mem_by_In in E0. assert (E1 : mem_by eqb y seen' = true) by (apply mem_by_In; auto).
        rewrite E1. now apply IH.
      - cbn [filter]. destruct (mem_by eqb y seen') eqn:E1; cbn [negb].
        + apply (IH (y :: s0) seen'). intros z [->|Hz]; [now apply mem_by_In|auto].
        + f_equal. rewrite (IH (y :: s0) (y :: seen')).
          * apply filter_ext_in. intros z Hz. apply uniq_aux_In in Hz. destruct Hz as [_ Hz].
            cbn [mem_by existsb]. fold (mem_by eqb z seen').
            destruct (eqb z y) eqn:Ezy; [|reflexivity].
            apply eqb_eq in Ezy. subst. exfalso. apply Hz. now left.
          * intros z [->|Hz]; [now left|right; auto]. }
    apply G. intros y [].
  Qed.

  Lemma uniq_by_NoDup_id l : NoDup l -> uniq_by eqb l = l.
  Proof.
    unfold uniq_by. intros H.
    assert (G : forall s, (forall y, In y s -> ~ In y l) -> uniq_aux eqb s l = l).
    { induction H as [|y r Hy Hr IH]; intros s Hs; cbn [uniq_aux]; [reflexivity|].
      assert (E : mem_by eqb y s = false).
      { apply mem_by_false. intros C. apply (Hs y C). now left. }
      rewrite E. f_equal. apply IH. intros z [->|Hz]; [assumption|].
      intros C. apply (Hs z Hz). now right. }
    apply G. intros y [].
  Qed.

  Lemma uniq_by_app a b :
    uniq_by eqb (a ++ b) = uniq_by eqb a ++ filter (fun x => negb (mem_by eqb x a)) (uniq_by eqb b).
  Proof.
    unfold uniq_by at 1 2.
    assert (G : forall s, uniq_aux eqb s (a ++ b) = uniq_aux eqb s a ++ uniq_aux eqb (a ++ s) b).
    { induction a as [|y r IH]; intros s; cbn [uniq_aux app]; [reflexivity|].
      destruct (mem_by eqb y s) eqn:E.
      - rewrite IH. f_equal. apply uniq_aux_seen_ext. intros z. cbn [app In]. rewrite !in_app_iff.
        apply mem_by_In in E. split; [tauto|]. intros [<-|H]; tauto.
      - cbn [app]. f_equal. rewrite IH. f_equal. apply uniq_aux_seen_ext. intros z.
        cbn [app In]. rewrite !in_app_iff. cbn [In]. tauto. }
    rewrite G. f_equal. rewrite uniq_aux_filter. apply filter_ext. intros x.
    f_equal. apply mem_by_ext. intros z. rewrite app_nil_r. tauto.
  Qed.

  Lemma remove_by_In x l y : In y (remove_by eqb x l) <-> In y l /\ y <> x.
  Proof.
    induction l as [|z r IH]; cbn [remove_by]; [cbn; tauto|].
    destruct (eqb x z) eqn:E.
    - apply eqb_eq in E. subst. rewrite IH. cbn. split; [tauto|]. intros [[->|H] H2]; tauto.
    - cbn. rewrite IH. split.
      + intros [->|[H1 H2]]; [|tauto]. split; [now left|]. intros ->.
        assert (eqb x x = true) by now apply eqb_eq. congruence.
      + tauto.
  Qed.

  Lemma remove_by_NoDup x l : NoDup l -> NoDup (remove_by eqb x l).
  Proof.
    induction 1 as [|z r Hz Hr IH]; cbn [remove_by]; [constructor|].
    destruct (eqb x z); [assumption|]. constructor; [|assumption].
    rewrite remove_by_In. tauto.
  Qed.
End UniqLemmas.

Lemma Neqb_eq : forall a b : N, N.eqb a b = true <-> a = b.
Proof. intros. apply N.eqb_eq. Qed.

Lemma oeqb_eq : forall a b : option N, oeqb a b = true <-> a = b.
Proof.
  intros [a|] [b|]; cbn; split; try congruence; try discriminate.
  - intros H. apply N.eqb_eq in H. now subst.
  - intros [= ->]. apply N.eqb_refl.
Qed.

Lemma mem_In x l : mem x l = true <-> In x l.
Proof. apply (mem_by_In N.eqb Neqb_eq). Qed.
Lemma mem_false x l : mem x l = false <-> ~ In x l.
Proof. apply (mem_by_false N.eqb Neqb_eq). Qed.
Lemma uniq_In l x : In x (uniq l) <-> In x l.
Proof. apply (uniq_by_In N.eqb Neqb_eq). Qed.
Lemma uniq_NoDup l : NoDup (uniq l).
Proof. apply (uniq_by_NoDup N.eqb Neqb_eq). Qed.

(* ---------------------------------------------------------------- sortedness *)
Lemma sorted_strict_weak {A} (l : ring A) : sorted_strict l -> sorted_weak l.
Proof.
  induction l as [|x r IH]; cbn; [trivial|]. intros [H1 H2]. split; [|auto].
  destruct r; [trivial|lia].
Qed.

Lemma sorted_weak_head_le {A} (x : Z * A) r : sorted_weak (x :: r) -> forall y, In y r -> fst x <= fst y.
Proof.
  revert x. induction r as [|z r IH]; intros x H y Hy; [destruct Hy|].
  cbn in H. destruct H as [H1 H2]. destruct Hy as [->|Hy]; [assumption|].
  specialize (IH z H2 y Hy). lia.
Qed.

Lemma sorted_strict_head_lt {A} (x : Z * A) r : sorted_strict (x :: r) -> forall y, In y r -> fst x < fst y.
Proof.
  revert x. induction r as [|z r IH]; intros x H y Hy; [destruct Hy|].
  cbn in H. destruct H as [H1 H2]. destruct Hy as [->|Hy]; [assumption|].
  specialize (IH z H2 y Hy). lia.
Qed.

Lemma sorted_weak_tail {A} (x : Z * A) r : sorted_weak (x :: r) -> sorted_weak r.
Proof. cbn. tauto. Qed.
Lemma sorted_strict_tail {A} (x : Z * A) r : sorted_strict (x :: r) -> sorted_strict r.
Proof. cbn. tauto. Qed.

Lemma sorted_weak_cons {A} (x : Z * A) r :
  (forall y, In y r -> fst x <= fst y) -> sorted_weak r -> sorted_weak (x :: r).
Proof. intros H1 H2. cbn. split; [|assumption]. destruct r; [trivial|]. apply H1. now left. Qed.
Lemma sorted_strict_cons {A} (x : Z * A) r :
  (forall y, In y r -> fst x < fst y) -> sorted_strict r -> sorted_strict (x :: r).
Proof. intros H1 H2. cbn. split; [|assumption]. destruct r; [trivial|]. apply H1. now left. Qed.

Lemma sorted_weak_filter {A} (p : Z * A -> bool) l : sorted_weak l -> sorted_weak (filter p l).
Proof.
  induction l as [|x r IH]; intros H; [exact I|]. cbn [filter].
  pose proof (sorted_weak_head_le x r H) as Hle. apply sorted_weak_tail in H.
  destruct (p x); [|auto]. apply sorted_weak_cons; [|auto].
  intros y Hy. apply filter_In in Hy. apply Hle. tauto.
Qed.

Lemma sorted_strict_filter {A} (p : Z * A -> bool) l : sorted_strict l -> sorted_strict (filter p l).
Proof.
  induction l as [|x r IH]; intros H; [exact I|]. cbn [filter].
  pose proof (sorted_strict_head_lt x r H) as Hle. apply sorted_strict_tail in H.
  destruct (p x); [|auto]. apply sorted_strict_cons; [|auto].
  intros y Hy. apply filter_In in Hy. apply Hle. tauto.
Qed.

Lemma sorted_weak_map {A B} (f : Z * A -> B) l :
  sorted_weak l -> sorted_weak (map (fun e => (fst e, f e)) l).
Proof.
  induction l as [|x r IH]; intros H; [exact I|]. cbn [map].
  pose proof (sorted_weak_head_le x r H) as Hle. apply sorted_weak_tail in H.
  apply sorted_weak_cons; [|auto]. intros y Hy. apply in_map_iff in Hy.
  destruct Hy as (z & <- & Hz). cbn. auto.
Qed.

Lemma sorted_strictb_spec {A} (l : ring A) : sorted_strictb l = true <-> sorted_strict l.
Proof.
  induction l as [|x r IH]; cbn; [tauto|]. rewrite andb_true_iff, IH.
  destruct r; [tauto|]. rewrite Z.ltb_lt. tauto.
Qed.

(* ---------------------------------------------------------------- the stable sort *)
Lemma ins_In {A} (x : Z * A) l y : In y (ins x l) <-> y = x \/ In y l.
Proof.
  induction l as [|z r IH]; cbn [ins]; [cbn; intuition|].
  destruct (fst z <=? fst x); cbn; [rewrite IH|]; intuition.
Qed.

Lemma ins_sorted {A} (x : Z * A) l : sorted_weak l -> sorted_weak (ins x l).
Proof.
  induction l as [|z r IH]; intros H; [cbn; tauto|]. cbn [ins].
  destruct (fst z <=? fst x) eqn:E.
  - apply Z.leb_le in E. pose proof (sorted_weak_head_le z r H) as Hle.
    apply sorted_weak_cons; [|apply IH; now apply sorted_weak_tail in H].
    intros y Hy. apply ins_In in Hy. destruct Hy as [->|Hy]; auto.
  - apply Z.leb_gt in E. apply sorted_weak_cons; [|assumption].
    intros y [->|Hy]; [lia|]. pose proof (sorted_weak_head_le z r H y Hy). lia.
Qed.

Lemma ins_perm {A} (x : Z * A) l : Permutation (ins x l) (x :: l).
Proof.
  induction l as [|z r IH]; cbn [ins]; [reflexivity|].
  destruct (fst z <=? fst x); [|reflexivity].
  rewrite IH. apply perm_swap.
Qed.

Lemma ins_last {A} (x : Z * A) l : (forall y, In y l -> fst y <= fst x) -> ins x l = l ++ [x].
Proof.
  induction l as [|z r IH]; intros H; [reflexivity|]. cbn [ins].
  assert (E : fst z <=? fst x = true) by (apply Z.leb_le, H; now left).
  rewrite E. cbn. f_equal. apply IH. intros y Hy. apply H. now right.
Qed.

Lemma sort_ring_fold_sorted {A} (l acc : ring A) :
  sorted_weak acc -> sorted_weak (fold_left (fun a x => ins x a) l acc).
Proof. revert acc. induction l as [|x r IH]; intros acc H; cbn; [assumption|]. apply IH, ins_sorted, H. Qed.

Lemma sort_ring_sorted {A} (l : ring A) : sorted_weak (sort_ring l).
Proof. apply sort_ring_fold_sorted. exact I. Qed.

Lemma sort_ring_fold_perm {A} (l acc : ring A) :
  Permutation (fold_left (fun a x => ins x a) l acc) (acc ++ l).
Proof.
  revert acc. induction l as [|x r IH]; intros acc; cbn [fold_left].
  - now rewrite app_nil_r.
  - rewrite IH, ins_perm. cbn [app]. apply Permutation_middle.
Qed.

Lemma sort_ring_perm {A} (l : ring A) : Permutation (sort_ring l) l.
Proof. unfold sort_ring. now rewrite sort_ring_fold_perm. Qed.

Lemma sort_ring_In {A} (l : ring A) x : In x (sort_ring l) <-> In x l.
Proof. split; apply Permutation_in; [|symmetry]; apply sort_ring_perm. Qed.

(* sorting a sorted ring changes nothing (TokenRing::new applied to an already sorted list) *)
Lemma sorted_weak_app_le {A} (a : ring A) x l :
  sorted_weak (a ++ x :: l) -> forall y, In y a -> fst y <= fst x.
Proof.
  induction a as [|z r IH]; intros H y Hy; [destruct Hy|].
  destruct Hy as [->|Hy].
  - apply (sorted_weak_head_le y (r ++ x :: l) H). apply in_or_app. right. now left.
  - apply IH; [|assumption]. now apply sorted_weak_tail in H.
Qed.

Lemma sort_ring_fold_id {A} (l acc : ring A) :
  sorted_weak (acc ++ l) -> fold_left (fun a x => ins x a) l acc = acc ++ l.
Proof.
  revert acc. induction l as [|x r IH]; intros acc H; cbn [fold_left].
  - now rewrite app_nil_r.
  - rewrite ins_last by (apply (sorted_weak_app_le acc x r H)).
    rewrite IH; rewrite <- app_assoc; [reflexivity|assumption].
Qed.

Lemma sort_ring_id {A} (l : ring A) : sorted_weak l -> sort_ring l = l.
Proof. intros H. unfold sort_ring. now rewrite sort_ring_fold_id. Qed.


Lemma filter_nil_all {A} (p : A -> bool) l : (forall x, In x l -> p x = false) -> filter p l = [].
Proof.
  induction l as [|x r IH]; intros H; [reflexivity|]. cbn [filter].
  rewrite (H x (or_introl eq_refl)). apply IH. intros y Hy. apply H. now right.
Qed.
Lemma filter_id_all {A} (p : A -> bool) l : (forall x, In x l -> p x = true) -> filter p l = l.
Proof.
  induction l as [|x r IH]; intros H; [reflexivity|]. cbn [filter].
  rewrite (H x (or_introl eq_refl)). f_equal. apply IH. intros y Hy. apply H. now right.
Qed.

(* ---------------------------------------------------------------- landing index, clockwise *)
Lemma split_at_count_lt {A} (l : ring A) t : sorted_weak l ->
  firstn (count_lt t l) l = filter (fun e => fst e <? t) l /\
  skipn (count_lt t l) l = filter (fun e => t <=? fst e) l.
Proof.
  unfold count_lt. induction l as [|x r IH]; intros H; [split; reflexivity|].
  pose proof (sorted_weak_head_le x r H) as Hle. apply sorted_weak_tail in H.
  specialize (IH H). cbn [filter]. destruct (fst x <? t) eqn:E.
  - assert (E' : t <=? fst x = false) by (apply Z.leb_gt; apply Z.ltb_lt in E; lia).
    rewrite E'. cbn [List.length firstn skipn]. destruct IH as [IH1 IH2]. split; [now f_equal|assumption].
  - apply Z.ltb_ge in E. assert (E' : t <=? fst x = true) by (apply Z.leb_le; lia). rewrite E'.
    rewrite (filter_nil_all (fun e => fst e <? t) r), (filter_id_all (fun e => t <=? fst e) r).
    + cbn. split; reflexivity.
    + intros y Hy. apply Z.leb_le. specialize (Hle y Hy). lia.
    + intros y Hy. apply Z.ltb_ge. specialize (Hle y Hy). lia.
Qed.

(* the walk starts at the first position whose token is >= t *)
Lemma ring_range_full_clockwise {A} (l : ring A) t :
  sorted_weak l -> ring_range_full l t = clockwise l t.
Proof.
  intros H. unfold ring_range_full, clockwise, landing.
  destruct (split_at_count_lt l t H) as [-> ->]. reflexivity.
Qed.

Lemma clockwise_filter {A} (p : Z * A -> bool) (l : ring A) t :
  filter p (clockwise l t) = clockwise (filter p l) t.
Proof.
  unfold clockwise. rewrite filter_app. f_equal.
  - induction l as [|x r IH]; [reflexivity|]. cbn [filter].
    destruct (t <=? fst x) eqn:E1; destruct (p x) eqn:E2; cbn [filter]; rewrite ?E1, ?E2, IH; reflexivity.
  - induction l as [|x r IH]; [reflexivity|]. cbn [filter].
    destruct (fst x <? t) eqn:E1; destruct (p x) eqn:E2; cbn [filter]; rewrite ?E1, ?E2, IH; reflexivity.
Qed.

Lemma clockwise_In {A} (l : ring A) t x : In x (clockwise l t) <-> In x l.
Proof.
  unfold clockwise. rewrite in_app_iff, !filter_In. split; [tauto|].
  intros H. destruct (fst x <? t) eqn:E.
  - right. tauto.
  - left. split; [assumption|]. apply Z.leb_le. apply Z.ltb_ge in E. lia.
Qed.

Lemma clockwise_perm {A} (l : ring A) t : Permutation (clockwise l t) l.
Proof.
  unfold clockwise. induction l as [|x r IH]; [reflexivity|]. cbn [filter].
  destruct (t <=? fst x) eqn:E1.
  - assert (E2 : fst x <? t = false) by (apply Z.ltb_ge; apply Z.leb_le in E1; lia).
    rewrite E2. cbn. now constructor.
  - assert (E2 : fst x <? t = true) by (apply Z.ltb_lt; apply Z.leb_gt in E1; lia).
    rewrite E2. rewrite <- Permutation_middle. now constructor.
Qed.

Lemma ring_range_full_perm {A} (l : ring A) t : Permutation (ring_range_full l t) l.
Proof.
  unfold ring_range_full. rewrite Permutation_app_comm. now rewrite firstn_skipn.
Qed.

Lemma ring_range_In {A} (l : ring A) t x : In x (ring_range l t) <-> In x (map snd l).
Proof.
  unfold ring_range. split; apply Permutation_in; apply Permutation_map;
    [|symmetry]; apply ring_range_full_perm.
Qed.

(* token snap: looking a token up gives the same walk as looking up the token of the entry
   the lookup lands on (this is what makes per-ring-token precomputation sound) *)
Lemma clockwise_snap {A} (l : ring A) t e :
  sorted_weak l -> hd_error (clockwise l t) = Some e -> clockwise l (fst e) = clockwise l t.
Proof.
  intros Hs Hh. unfold clockwise in *.
  destruct (filter (fun e0 => t <=? fst e0) l) as [|e' r'] eqn:Eg.
  - (* every token is < t: the walk starts at the ring's first entry *)
    cbn [app] in Hh.
    assert (Hall : forall x, In x l -> fst x <? t = true).
    { intros x Hx. destruct (fst x <? t) eqn:E; [reflexivity|]. exfalso.
      assert (Hin : In x (filter (fun e0 => t <=? fst e0) l)).
      { apply filter_In. split; [assumption|]. apply Z.leb_le. apply Z.ltb_ge in E. lia. }
      rewrite Eg in Hin. destruct Hin. }
    rewrite (filter_id_all _ l Hall) in *. destruct l as [|x r]; [discriminate|].
    cbn in Hh. injection Hh as <-.
    pose proof (sorted_weak_head_le x r Hs) as Hle.
    rewrite (filter_id_all (fun e0 => fst x <=? fst e0) (x :: r)), (filter_nil_all (fun e0 => fst e0 <? fst x) (x :: r)).
    + cbn. now rewrite app_nil_r.
    + intros y [<-|Hy]; apply Z.ltb_ge; [lia|specialize (Hle y Hy); lia].
    + intros y [<-|Hy]; apply Z.leb_le; [lia|specialize (Hle y Hy); lia].
  - cbn [app hd_error] in Hh. injection Hh as ->.
    assert (Hin : In e (filter (fun e0 => t <=? fst e0) l)) by (rewrite Eg; now left).
    apply filter_In in Hin. destruct Hin as [Hin Hte]. apply Z.leb_le in Hte.
    assert (Hmin : forall x, In x l -> t <= fst x -> fst e <= fst x).
    { intros x Hx Hxt.
      assert (Hx' : In x (filter (fun e0 => t <=? fst e0) l)) by (apply filter_In; split; [assumption|now apply Z.leb_le]).
      rewrite Eg in Hx'. destruct Hx' as [->|Hx']; [lia|].
      assert (Hsw : sorted_weak (e :: r')).
      { rewrite <- Eg. apply sorted_weak_filter, Hs. }
      apply (sorted_weak_head_le e r' Hsw x Hx'). }
    rewrite <- Eg. f_equal; apply filter_ext_in; intros x Hx.
    + destruct (t <=? fst x) eqn:E.
      * apply Z.leb_le. apply Hmin; [assumption|now apply Z.leb_le].
      * apply Z.leb_gt. apply Z.leb_gt in E. lia.
    + destruct (fst x <? t) eqn:E.
      * apply Z.ltb_lt. apply Z.ltb_lt in E. lia.
      * apply Z.ltb_ge. apply Z.ltb_ge in E. apply Hmin; [assumption|lia].
Qed.

Lemma ring_range_full_snap {A} (l : ring A) t e :
  sorted_weak l -> get_entry_for_token l t = Some e -> ring_range_full l (fst e) = ring_range_full l t.
Proof.
  unfold get_entry_for_token. intros Hs Hh. rewrite !ring_range_full_clockwise in * by assumption.
  now apply clockwise_snap.
Qed.

(* a ring sorted again after mapping its elements (same tokens) is looked up at the same place *)
Lemma landing_map {A B} (f : Z * A -> B) (l : ring A) t :
  landing (map (fun e => (fst e, f e)) l) t = landing l t.
Proof.
  unfold landing, count_lt.
  induction l as [|x r IH]; [reflexivity|]. cbn [map filter fst]. destruct (fst x <? t); cbn [List.length]; now rewrite IH.
Qed.

Lemma get_entry_map {A B} (f : Z * A -> B) (l : ring A) t :
  get_elem_for_token (map (fun e => (fst e, f e)) l) t = option_map f (get_entry_for_token l t).
Proof.
  unfold get_elem_for_token, get_entry_for_token, ring_range, ring_range_full.
  rewrite landing_map. set (k := landing l t).
  rewrite skipn_map, firstn_map, <- map_app, map_map.
  destruct (skipn k l ++ firstn k l) as [|x r]; reflexivity.
Qed.
