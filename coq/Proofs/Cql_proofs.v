(* Proofs about Model/Cql.v (property C01). *)
From SV Require Import Base.Prelude Base.Bytes Model.Vint Model.Cql Proofs.Vint_proofs.
Open Scope N_scope.

(* ====================================================================================== *)
(* 1. Induction principle for ctype (nested through list and list-of-pairs)                 *)
(* ====================================================================================== *)
Section ctype_ind'.
  Variable P : ctype -> Prop.
  Hypothesis HN : forall n, P (TNative n).
  Hypothesis HL : forall e, P e -> P (TList e).
  Hypothesis HS : forall e, P e -> P (TSet e).
  Hypothesis HM : forall k v, P k -> P v -> P (TMap k v).
  Hypothesis HT : forall ts, Forall P ts -> P (TTuple ts).
  Hypothesis HU : forall ks nm fs, Forall (fun f => P (snd f)) fs -> P (TUdt ks nm fs).
  Hypothesis HV : forall e d, P e -> P (TVector e d).

  Fixpoint ctype_ind' (t : ctype) : P t :=
    match t with
    | TNative n => HN n
    | TList e => HL e (ctype_ind' e)
    | TSet e => HS e (ctype_ind' e)
    | TMap k v => HM k v (ctype_ind' k) (ctype_ind' v)
    | TTuple ts =>
        HT ts ((fix go (ts : list ctype) : Forall P ts :=
                  match ts with
                  | [] => Forall_nil _
                  | x :: r => Forall_cons x (ctype_ind' x) (go r)
                  end) ts)
    | TUdt ks nm fs =>
        HU ks nm fs ((fix go (fs : list (name * ctype)) : Forall (fun f => P (snd f)) fs :=
                        match fs with
                        | [] => Forall_nil _
                        | x :: r => Forall_cons x (ctype_ind' (snd x)) (go r)
                        end) fs)
    | TVector e d => HV e d (ctype_ind' e)
    end.
End ctype_ind'.

(* ====================================================================================== *)
(* 2. Top-level twins of the nested fixpoints of the model, with unfolding equations         *)
(* ====================================================================================== *)

Fixpoint ser_udt_go (f : ctype -> cval -> sres) (fts : list (name * ctype))
         (st : list (name * option cval)) : sres :=
  match fts with
  | [] => if is_nil st then Ok [] else Err SE_NoSuchFieldInUdt
  | (fname, ft) :: r =>
      rbind (sub_sized_opt (f ft) (udt_field_value fname st)) (fun b =>
      rbind (ser_udt_go f r (remove_name fname st)) (fun bs => Ok (b ++ bs)))
  end.

Fixpoint ser_tuple_go (f : ctype -> cval -> sres) (ts : list ctype) (l : list (option cval)) : sres :=
  match ts, l with
  | et :: ts', ox :: l' =>
      rbind (sub_sized_opt (f et) ox) (fun b =>
      rbind (ser_tuple_go f ts' l') (fun bs => Ok (b ++ bs)))
  | _, _ => Ok []
  end.

Fixpoint deser_tuple_go (f : ctype -> bytes -> dres cval) (ts : list ctype) (b : bytes)
  : dres (list (option cval)) :=
  match ts with
  | [] => Ok []
  | et :: ts' =>
      rbind (deser_opt_field (f et) b) (fun xr =>
      rbind (deser_tuple_go f ts' (snd xr)) (fun xs => Ok (fst xr :: xs)))
  end.

Fixpoint deser_udt_go (f : ctype -> bytes -> dres cval) (fts : list (name * ctype)) (b : bytes)
  : dres (list (name * option cval)) :=
  match fts with
  | [] => Ok []
  | (fname, ft) :: r =>
      rbind (deser_opt_field (f ft) b) (fun xr =>
      rbind (deser_udt_go f r (snd xr)) (fun xs => Ok ((fname, fst xr) :: xs)))
  end.

Fixpoint pad_tuple_go (f : ctype -> cval -> cval) (ts : list ctype) (l : list (option cval))
  : list (option cval) :=
  match ts with
  | [] => []
  | et :: ts' =>
      match l with
      | [] => None :: pad_tuple_go f ts' []
      | ox :: l' => option_map (f et) ox :: pad_tuple_go f ts' l'
      end
  end.

Fixpoint pad_udt_go (f : ctype -> cval -> cval) (fields : list (name * option cval))
         (fts : list (name * ctype)) : list (name * option cval) :=
  match fts with
  | [] => []
  | (fname, ft) :: r =>
      (fname, match lookup_first fname fields with
              | Some (Some x) => Some (f ft x)
              | _ => None
              end) :: pad_udt_go f fields r
  end.

Fixpoint wf_tuple_go (f : ctype -> cval -> bool) (ts : list ctype) (l : list (option cval)) : bool :=
  match ts, l with
  | et :: ts', ox :: l' => match ox with Some x => f et x | None => true end && wf_tuple_go f ts' l'
  | _, _ => true
  end.

Fixpoint wf_udt_go (f : ctype -> cval -> bool) (fields : list (name * option cval))
         (fts : list (name * ctype)) : bool :=
  match fts with
  | [] => true
  | (fname, ft) :: r =>
      match lookup_first fname fields with
      | Some (Some x) => f ft x
      | _ => true
      end && wf_udt_go f fields r
  end.

Fixpoint wf_type_fields (fts : list (name * ctype)) : bool :=
  match fts with [] => true | (_, ft) :: r => wf_type ft && wf_type_fields r end.

Fixpoint ex_tuple_go (f : ctype -> cval -> bool) (ts : list ctype) (l : list (option cval)) : bool :=
  match ts, l with
  | et :: ts', ox :: l' => match ox with Some x => f et x | None => false end || ex_tuple_go f ts' l'
  | _, _ => false
  end.

Fixpoint ex_udt_go (f : ctype -> cval -> bool) (fields : list (name * option cval))
         (fts : list (name * ctype)) : bool :=
  match fts with
  | [] => false
  | (fname, ft) :: r =>
      match lookup_first fname fields with
      | Some (Some x) => f ft x
      | _ => false
      end || ex_udt_go f fields r
  end.

Lemma ser_value_udt ws ks' nm' fts ks nm fields :
  ser_value ws (TUdt ks' nm' fts) (CUdt ks nm fields) =
  if negb (bytes_eqb ks ks' && bytes_eqb nm nm') then Err SE_UdtNameMismatch
  else rbind (ser_udt_go (ser_value true) fts fields) (finish ws).
Proof.
  cbn [ser_value]. destruct (negb _); [reflexivity|]. f_equal.
  generalize fields. induction fts as [|[fname ft] r IH]; intros st; [reflexivity|].
  cbn [ser_udt_go]. rewrite <- IH. reflexivity.
Qed.

Lemma ser_value_tuple ws ts l :
  ser_value ws (TTuple ts) (CTuple l) =
  if (List.length ts <? List.length l)%nat then Err SE_TupleWrongCount
  else rbind (ser_tuple_go (ser_value true) ts l) (finish ws).
Proof.
  cbn [ser_value]. destruct (_ <? _)%nat; [reflexivity|]. f_equal.
  revert l. induction ts as [|et ts IH]; intros l; [reflexivity|].
  destruct l as [|ox l]; [reflexivity|]. cbn [ser_tuple_go]. rewrite <- IH. reflexivity.
Qed.

Lemma deser_tuple_go_eq ts b :
  (fix go (ts : list ctype) (b : bytes) {struct ts} : dres (list (option cval)) :=
     match ts with
     | [] => Ok []
     | et :: ts' =>
         rbind (deser_opt_field (deser_value et) b) (fun xr =>
         rbind (go ts' (snd xr)) (fun xs => Ok (fst xr :: xs)))
     end) ts b = deser_tuple_go deser_value ts b.
Proof.
  revert b. induction ts as [|et ts IH]; intros b; [reflexivity|].
  cbn [deser_tuple_go]. destruct (deser_opt_field (deser_value et) b) as [xr|e]; [|reflexivity].
  cbn [rbind]. rewrite IH. reflexivity.
Qed.

Lemma deser_udt_go_eq fts b :
  (fix go (fts : list (name * ctype)) (b : bytes) {struct fts} : dres (list (name * option cval)) :=
     match fts with
     | [] => Ok []
     | (fname, ft) :: r =>
         rbind (deser_opt_field (deser_value ft) b) (fun xr =>
         rbind (go r (snd xr)) (fun xs => Ok ((fname, fst xr) :: xs)))
     end) fts b = deser_udt_go deser_value fts b.
Proof.
  revert b. induction fts as [|[fname ft] r IH]; intros b; [reflexivity|].
  cbn [deser_udt_go]. destruct (deser_opt_field (deser_value ft) b) as [xr|e]; [|reflexivity].
  cbn [rbind]. rewrite IH. reflexivity.
Qed.

Lemma deser_value_eq t b :
  deser_value t b =
  if is_nil b && negb (is_string_type t) then Ok CEmpty else
  match t with
  | TNative n => deser_native n b
  | TList e => rbind (deser_listlike (deser_value e) b) (fun l => Ok (CList l))
  | TSet e => rbind (deser_listlike (deser_value e) b) (fun l => Ok (CSet l))
  | TMap k e => rbind (deser_map (deser_value k) (deser_value e) b) (fun l => Ok (CMap l))
  | TVector e dim => rbind (deser_vector (deser_value e) (type_size e) dim b) (fun l => Ok (CVector l))
  | TTuple ts => rbind (deser_tuple_go deser_value ts b) (fun l => Ok (CTuple l))
  | TUdt ks nm fts => rbind (deser_udt_go deser_value fts b) (fun l => Ok (CUdt ks nm l))
  end.
Proof.
  destruct t; cbn [deser_value]; try reflexivity.
  - rewrite deser_tuple_go_eq. reflexivity.
  - rewrite deser_udt_go_eq. reflexivity.
Qed.

Lemma pad_tuple ts l : pad (TTuple ts) (CTuple l) = CTuple (pad_tuple_go pad ts l).
Proof.
  cbn [pad]. f_equal. revert l. induction ts as [|et ts IH]; intros l; [reflexivity|].
  cbn [pad_tuple_go]. destruct l as [|ox l]; rewrite IH; reflexivity.
Qed.

Lemma pad_udt ks nm fts ks' nm' fields :
  pad (TUdt ks nm fts) (CUdt ks' nm' fields) = CUdt ks nm (pad_udt_go pad fields fts).
Proof.
  cbn [pad]. f_equal. induction fts as [|[fname ft] r IH]; [reflexivity|].
  cbn [pad_udt_go]. rewrite IH. reflexivity.
Qed.

Lemma wf_val_tuple ts l :
  wf_val (TTuple ts) (CTuple l) = (List.length l <=? List.length ts)%nat && wf_tuple_go wf_val ts l.
Proof.
  cbn [wf_val]. f_equal. revert l. induction ts as [|et ts IH]; intros l; [reflexivity|].
  destruct l as [|ox l]; [reflexivity|]. cbn [wf_tuple_go]. rewrite IH. reflexivity.
Qed.

Lemma wf_val_udt ks nm fts ks' nm' fields :
  wf_val (TUdt ks nm fts) (CUdt ks' nm' fields) =
  bytes_eqb ks' ks && bytes_eqb nm' nm && nodupb (map fst fields) &&
  forallb (fun f => existsb (bytes_eqb (fst f)) (map fst fts)) fields &&
  wf_udt_go wf_val fields fts.
Proof.
  cbn [wf_val]. f_equal. induction fts as [|[fname ft] r IH]; [reflexivity|].
  cbn [wf_udt_go]. rewrite IH. reflexivity.
Qed.

Lemma wf_type_udt ks nm fts :
  wf_type (TUdt ks nm fts) = negb (is_nil fts) && nodupb (map fst fts) && wf_type_fields fts.
Proof.
  reflexivity.
Qed.

Lemma exists_sub_tuple P ts l :
  exists_sub P (TTuple ts) (CTuple l) = P (TTuple ts) (CTuple l) || ex_tuple_go (exists_sub P) ts l.
Proof.
  cbn [exists_sub]. f_equal. revert l. induction ts as [|et ts IH]; intros l; [reflexivity|].
  destruct l as [|ox l]; [reflexivity|]. cbn [ex_tuple_go]. rewrite IH. reflexivity.
Qed.

Lemma exists_sub_udt P ks nm fts ks' nm' fields :
  exists_sub P (TUdt ks nm fts) (CUdt ks' nm' fields) =
  P (TUdt ks nm fts) (CUdt ks' nm' fields) || ex_udt_go (exists_sub P) fields fts.
Proof.
  cbn [exists_sub]. f_equal. induction fts as [|[fname ft] r IH]; [reflexivity|].
  cbn [ex_udt_go]. rewrite IH. reflexivity.
Qed.

(* ====================================================================================== *)
(* 3. Byte-level facts: lengths, [int], [bytes]                                             *)
(* ====================================================================================== *)

Lemma blen_app a b : blen (a ++ b) = blen a + blen b.
Proof. unfold blen. rewrite app_length. lia. Qed.

Lemma blen_nil_iff (b : bytes) : blen b = 0 <-> b = [].
Proof. unfold blen. destruct b; cbn; split; intros; (reflexivity || discriminate || lia). Qed.

Lemma be32_length n : List.length (be32 n) = 4%nat.
Proof. apply be_enc_length. Qed.

Lemma enc_signed_length k z : List.length (enc_signed k z) = k.
Proof. apply be_enc_length. Qed.

Lemma in_range_spec bits z : in_range bits z = true -> (- 2 ^ (bits - 1) <= z < 2 ^ (bits - 1))%Z.
Proof. unfold in_range. intros H. apply andb_true_iff in H as [H1 H2]. lia. Qed.

Lemma dec_enc_signed_k k bits z : (0 < k)%nat -> bits = (8 * Z.of_nat k)%Z -> in_range bits z = true ->
  dec_signed (enc_signed k z) = z.
Proof. intros Hk -> H. apply dec_enc_signed; [exact Hk|]. apply in_range_spec. exact H. Qed.

Lemma take_n_app a b : take_n (blen a) (a ++ b) = Some (a, b).
Proof.
  unfold take_n. rewrite blen_app.
  destruct (blen a + blen b <? blen a) eqn:E; [apply N.ltb_lt in E; lia|].
  unfold blen. rewrite Nat2N.id. apply take_app. reflexivity.
Qed.

Lemma read_int_signed z r : in_range 32 z = true -> read_int (enc_signed 4 z ++ r) = Some (z, r).
Proof.
  intros H. unfold read_int. rewrite take_app by apply enc_signed_length.
  rewrite (dec_enc_signed_k 4 32) by (lia || assumption). reflexivity.
Qed.

Lemma be32_signed n : n <= i32_max -> be32 n = enc_signed 4 (Z.of_N n).
Proof.
  intros H. unfold be32, enc_signed, wrap_bits. f_equal. unfold i32_max in H.
  change (Z.of_N (8 * N.of_nat 4)) with 32%Z. rewrite Z.mod_small by lia. lia.
Qed.

Lemma read_int_be32 n r : n <= i32_max -> read_int (be32 n ++ r) = Some (Z.of_N n, r).
Proof.
  intros H. rewrite be32_signed by exact H. apply read_int_signed.
  unfold in_range, i32_max in *. lia.
Qed.

Lemma read_cql_framed bx r : blen bx <= i32_max -> read_cql_bytes (framed bx ++ r) = Some (Some bx, r).
Proof.
  intros H. unfold read_cql_bytes, framed. rewrite <- app_assoc, read_int_be32 by exact H.
  destruct (Z.of_N (blen bx) <? 0)%Z eqn:E; [lia|]. rewrite N2Z.id, take_n_app. reflexivity.
Qed.

Lemma read_cql_null r : read_cql_bytes (null_marker ++ r) = Some (None, r).
Proof. unfold read_cql_bytes, null_marker. rewrite read_int_signed by reflexivity. reflexivity. Qed.

Lemma read_cql_unset r : read_cql_bytes (unset_marker ++ r) = Some (None, r).
Proof. unfold read_cql_bytes, unset_marker. rewrite read_int_signed by reflexivity. reflexivity. Qed.

Lemma framed_length bx : List.length (framed bx) = (4 + List.length bx)%nat.
Proof. unfold framed. rewrite app_length, be32_length. reflexivity. Qed.

Lemma null_marker_length : List.length null_marker = 4%nat.
Proof. apply enc_signed_length. Qed.

Lemma set_value_ok s b : set_value s = Ok b -> b = s /\ blen s <= i32_max.
Proof.
  unfold set_value. destruct (i32_max <? blen s) eqn:E; [discriminate|].
  intros H; inversion H; subst. apply N.ltb_ge in E. auto.
Qed.

Lemma finish_ok ws s b : finish ws s = Ok b -> b = s /\ (ws = true -> blen s <= i32_max).
Proof.
  unfold finish. destruct ws; cbn [andb].
  - destruct (i32_max <? blen s) eqn:E; [discriminate|].
    intros H; inversion H; subst. apply N.ltb_ge in E. auto.
  - intros H; inversion H; subst. split; [reflexivity|discriminate].
Qed.

Lemma rbind_ok {E A B} (r : result E A) (f : A -> result E B) y :
  rbind r f = Ok y -> exists x, r = Ok x /\ f x = Ok y.
Proof. destruct r as [x|e]; cbn; [eauto|discriminate]. Qed.

(* ====================================================================================== *)
(* 4. Native types                                                                          *)
(* ====================================================================================== *)

Lemma ascii_utf8 s : ascii_valid s = true -> utf8_valid s = true.
Proof.
  induction s as [|x s IH]; [reflexivity|]. cbn [ascii_valid forallb]. intros H.
  apply andb_true_iff in H as [Hx Hs]. cbn [utf8_valid]. rewrite Hx. apply IH. exact Hs.
Qed.

Lemma len_is_spec k b : len_is k b = true -> List.length b = k.
Proof. unfold len_is. apply Nat.eqb_eq. Qed.

Lemma exact_len_ok {A} k b (f : bytes -> dres A) : List.length b = k -> exact_len k b f = f b.
Proof. intros H. unfold exact_len. rewrite H, Nat.eqb_refl. reflexivity. Qed.

Lemma be_dec_enc_lt k v bound : bound = 256 ^ N.of_nat k -> v < bound -> be_dec (be_enc k v) = v.
Proof. intros -> H. apply be_dec_enc_small. exact H. Qed.

Lemma ok_inj {E A} (a b : A) : @Ok E A a = Ok b -> a = b.
Proof. intros H. inversion H. reflexivity. Qed.
Ltac inv H := apply ok_inj in H; subst.
Ltac len_tac := first [apply be_enc_length | apply enc_signed_length | reflexivity].

Theorem native_roundtrip n v ws b :
  wf_native n v = true -> ser_value ws (TNative n) v = Ok b ->
  deser_native n b = Ok (pad (TNative n) v).
Proof.
  intros Hwf Hser.
  destruct n; destruct v; cbn [wf_native] in Hwf; try discriminate Hwf;
    cbn [ser_value supports_empty] in Hser; cbn [pad deser_native].
  - (* ascii / CAscii *)
    apply set_value_ok in Hser as [-> _]. rewrite Hwf, (ascii_utf8 _ Hwf). reflexivity.
  - apply set_value_ok in Hser as [-> _]. rewrite Hwf, (ascii_utf8 _ Hwf). reflexivity.
  - (* boolean *)
    inv Hser. destruct b0; reflexivity.
  - (* blob *)
    apply set_value_ok in Hser as [-> _]. reflexivity.
  - (* counter *)
    inv Hser. rewrite exact_len_ok by len_tac.
    rewrite (dec_enc_signed_k 8 64) by (lia || assumption). reflexivity.
  - (* date *)
    inv Hser. rewrite exact_len_ok by len_tac.
    apply N.ltb_lt in Hwf. rewrite (be_dec_enc_lt 4 d (2 ^ 32)) by (reflexivity || assumption). reflexivity.
  - (* decimal *)
    apply finish_ok in Hser as [-> _]. apply andb_true_iff in Hwf as [Hs _].
    rewrite read_int_signed by exact Hs. reflexivity.
  - (* double *)
    inv Hser. rewrite exact_len_ok by len_tac.
    apply N.ltb_lt in Hwf. rewrite (be_dec_enc_lt 8 bits (2 ^ 64)) by (reflexivity || assumption). reflexivity.
  - (* duration *)
    inv Hser. apply andb_true_iff in Hwf as [Hwf Hn]. apply andb_true_iff in Hwf as [Hm Hd].
    pose proof (in_range_spec _ _ Hm) as Rm. pose proof (in_range_spec _ _ Hd) as Rd.
    pose proof (in_range_spec _ _ Hn) as Rn.
    change (32 - 1)%Z with 31%Z in *. change (64 - 1)%Z with 63%Z in *.
    rewrite vint_roundtrip by lia.
    assert (Im : i32_ok months = true) by (unfold i32_ok; lia). rewrite Im. cbn [negb].
    rewrite vint_roundtrip by lia.
    assert (Id : i32_ok days = true) by (unfold i32_ok; lia). rewrite Id. cbn [negb].
    rewrite <- (app_nil_r (vint_encode nanos)), vint_roundtrip by lia. reflexivity.
  - (* float *)
    inv Hser. rewrite exact_len_ok by len_tac.
    apply N.ltb_lt in Hwf. rewrite (be_dec_enc_lt 4 bits (2 ^ 32)) by (reflexivity || assumption). reflexivity.
  - (* int *)
    inv Hser. rewrite exact_len_ok by len_tac.
    rewrite (dec_enc_signed_k 4 32) by (lia || assumption). reflexivity.
  - (* bigint *)
    inv Hser. rewrite exact_len_ok by len_tac.
    rewrite (dec_enc_signed_k 8 64) by (lia || assumption). reflexivity.
  - (* text / CAscii *)
    apply set_value_ok in Hser as [-> _]. rewrite Hwf. reflexivity.
  - apply set_value_ok in Hser as [-> _]. rewrite Hwf. reflexivity.
  - (* timestamp *)
    inv Hser. rewrite exact_len_ok by len_tac.
    rewrite (dec_enc_signed_k 8 64) by (lia || assumption). reflexivity.
  - (* inet *)
    inv Hser. apply andb_true_iff in Hwf as [_ Hl]. unfold len_is in Hl. rewrite Hl. reflexivity.
  - (* smallint *)
    inv Hser. rewrite exact_len_ok by len_tac.
    rewrite (dec_enc_signed_k 2 16) by (lia || assumption). reflexivity.
  - (* tinyint *)
    inv Hser. rewrite exact_len_ok by len_tac.
    rewrite (dec_enc_signed_k 1 8) by (lia || assumption). reflexivity.
  - (* time *)
    inv Hser. rewrite exact_len_ok by len_tac.
    assert (in_range 64 z = true) as Hr by (unfold in_range, time_max in *; lia).
    rewrite (dec_enc_signed_k 8 64) by (lia || assumption). rewrite Hwf. reflexivity.
  - (* timeuuid *)
    inv Hser. apply andb_true_iff in Hwf as [_ Hl]. rewrite exact_len_ok by (apply len_is_spec; exact Hl). reflexivity.
  - (* uuid *)
    inv Hser. apply andb_true_iff in Hwf as [_ Hl]. rewrite exact_len_ok by (apply len_is_spec; exact Hl). reflexivity.
  - (* varint *)
    apply set_value_ok in Hser as [-> _]. reflexivity.
Qed.

(* ====================================================================================== *)
(* 5. Loops: what the element-wise serialisers produce, and the decoders on such input       *)
(* ====================================================================================== *)

Lemma ser_concat_ok {A} (f : A -> sres) l bs : ser_concat f l = Ok bs ->
  exists ps, Forall2 (fun x p => f x = Ok p) l ps /\ bs = concat ps.
Proof.
  revert bs. induction l as [|x l IH]; intros bs H; cbn [ser_concat] in H.
  - inv H. exists []. split; [constructor|reflexivity].
  - apply rbind_ok in H as (p & Hp & H). apply rbind_ok in H as (bs' & Hbs & H). inv H.
    destruct (IH _ Hbs) as (ps & HF & ->). exists (p :: ps). split; [constructor; assumption|reflexivity].
Qed.

Lemma concat_cons_app (p : bytes) (ps : list bytes) (rest : bytes) : concat (p :: ps) ++ rest = p ++ (concat ps ++ rest).
Proof. cbn [concat]. rewrite app_assoc. reflexivity. Qed.

Lemma of_nat_S_pred k : N.of_nat (S k) - 1 = N.of_nat k.
Proof. lia. Qed.

Lemma of_nat_S_nz k : (N.of_nat (S k) =? 0) = false.
Proof. apply N.eqb_neq. lia. Qed.

(* list / set elements: sized sub-writers against FixedLengthBytesSequenceIterator *)
Lemma deser_items_rt fd (g : cval -> cval) l ps : 
  Forall2 (fun x p => exists bx, p = framed bx /\ blen bx <= i32_max /\ fd bx = Ok (g x)) l ps ->
  forall rest fuel, (List.length (concat ps ++ rest) < fuel)%nat ->
  deser_items fd fuel (N.of_nat (List.length l)) (concat ps ++ rest) = Ok (map g l).
Proof.
  induction 1 as [|x p l ps (bx & -> & Hb & Hf) HF IH]; intros rest fuel Hfuel.
  - destruct fuel; reflexivity.
  - destruct fuel as [|fuel]; [lia|]. cbn [List.length deser_items]. rewrite of_nat_S_nz.
    rewrite concat_cons_app, read_cql_framed by exact Hb. cbn [nonnull]. rewrite Hf. cbn [rbind].
    rewrite of_nat_S_pred, IH.
    + reflexivity.
    + rewrite concat_cons_app, app_length, framed_length in Hfuel. lia.
Qed.

(* map entries *)
Lemma deser_pairs_rt fk fv (gk gv : cval -> cval) (l : list (cval * cval)) ps :
  Forall2 (fun kv p => exists bk bv, p = framed bk ++ framed bv /\ blen bk <= i32_max /\ blen bv <= i32_max /\
                                     fk bk = Ok (gk (fst kv)) /\ fv bv = Ok (gv (snd kv))) l ps ->
  forall rest fuel, (List.length (concat ps ++ rest) < fuel)%nat ->
  deser_pairs fk fv fuel (N.of_nat (List.length l)) (concat ps ++ rest) =
  Ok (map (fun kv => (gk (fst kv), gv (snd kv))) l).
Proof.
  induction 1 as [|x p l ps (bk & bv & -> & Hbk & Hbv & Hk & Hv) HF IH]; intros rest fuel Hfuel.
  - destruct fuel; reflexivity.
  - destruct fuel as [|fuel]; [lia|]. cbn [List.length deser_pairs]. rewrite of_nat_S_nz.
    rewrite concat_cons_app, <- app_assoc, read_cql_framed by exact Hbk.
    rewrite read_cql_framed by exact Hbv. cbn [nonnull]. rewrite Hk, Hv. cbn [rbind].
    rewrite of_nat_S_pred, IH.
    + reflexivity.
    + rewrite concat_cons_app, !app_length, !framed_length in Hfuel. rewrite app_length. lia.
Qed.

Lemma is_nil_app_false {A} (a b : list A) : a <> [] -> is_nil (a ++ b) = false.
Proof. destruct a; [congruence|reflexivity]. Qed.

(* vector elements of a fixed width *)
Lemma deser_vec_fixed_rt fd (g : cval -> cval) s l ps :
  1 <= s ->
  Forall2 (fun x p => blen p = s /\ fd p = Ok (g x)) l ps ->
  forall rest, deser_vec_fixed fd s (List.length l) (concat ps ++ rest) = Ok (map g l).
Proof.
  intros Hs. induction 1 as [|x p l ps (Hp & Hf) HF IH]; intros rest; [reflexivity|].
  cbn [List.length deser_vec_fixed]. rewrite concat_cons_app. unfold read_n_bytes.
  rewrite is_nil_app_false by (intros ->; cbn in Hp; lia).
  rewrite <- Hp, take_n_app. cbn [nonnull]. rewrite Hf. cbn [rbind]. rewrite Hp, IH. reflexivity.
Qed.

(* vector elements with an unsigned-vint length *)
Lemma deser_vec_var_rt fd (g : cval -> cval) l ps :
  Forall2 (fun x p => exists bx, p = uvint_encode (blen bx mod two64) ++ bx /\ blen bx < two64 /\
                                 fd bx = Ok (g x)) l ps ->
  forall rest, deser_vec_var fd (List.length l) (concat ps ++ rest) = Ok (map g l).
Proof.
  induction 1 as [|x p l ps (bx & -> & Hb & Hf) HF IH]; intros rest; [reflexivity|].
  cbn [List.length deser_vec_var]. rewrite concat_cons_app, <- app_assoc.
  rewrite N.mod_small by exact Hb. rewrite uvint_roundtrip by exact Hb.
  destruct (blen bx =? 0) eqn:E0.
  - apply N.eqb_eq, blen_nil_iff in E0. subst bx. cbn [app nonnull]. rewrite Hf. cbn [rbind].
    rewrite IH. reflexivity.
  - apply N.eqb_neq in E0. unfold read_n_bytes.
    rewrite is_nil_app_false by (intros ->; apply E0; reflexivity).
    rewrite take_n_app. cbn [nonnull]. rewrite Hf. cbn [rbind]. rewrite IH. reflexivity.
Qed.

(* inversion of the container serialisers *)
Lemma ser_sequence_ok ws f l b : ser_sequence ws f l = Ok b ->
  exists bs, ser_concat (sub_sized f) l = Ok bs /\ b = be32 (N.of_nat (List.length l)) ++ bs /\
             N.of_nat (List.length l) <= i32_max /\ (ws = true -> blen b <= i32_max).
Proof.
  unfold ser_sequence. destruct (i32_max <? _) eqn:E; [discriminate|]. apply N.ltb_ge in E.
  intros H. apply rbind_ok in H as (bs & Hbs & H). apply finish_ok in H as [-> Hw].
  exists bs. auto.
Qed.

Lemma ser_mapping_ok ws fk fv l b : ser_mapping ws fk fv l = Ok b ->
  exists bs, ser_concat (fun kv => rbind (sub_sized fk (fst kv)) (fun a =>
                                   rbind (sub_sized fv (snd kv)) (fun b => Ok (a ++ b)))) l = Ok bs /\
             b = be32 (N.of_nat (List.length l)) ++ bs /\
             N.of_nat (List.length l) <= i32_max /\ (ws = true -> blen b <= i32_max).
Proof.
  unfold ser_mapping. destruct (i32_max <? _) eqn:E; [discriminate|]. apply N.ltb_ge in E.
  intros H. apply rbind_ok in H as (bs & Hbs & H). apply finish_ok in H as [-> Hw].
  exists bs. auto.
Qed.

Lemma ser_vector_ok ws fixed dim f l b : ser_vector ws fixed dim f l = Ok b ->
  N.of_nat (List.length l) = dim /\
  ser_concat (if fixed then f else vec_var_elem f) l = Ok b /\ (ws = true -> blen b <= i32_max).
Proof.
  unfold ser_vector. destruct (N.of_nat (List.length l) =? dim) eqn:E; cbn [negb]; [|discriminate].
  apply N.eqb_eq in E. intros H. apply rbind_ok in H as (bs & Hbs & H). apply finish_ok in H as [-> Hw].
  auto.
Qed.

Lemma sub_sized_ok f x p : sub_sized f x = Ok p -> exists bx, f x = Ok bx /\ p = framed bx.
Proof. unfold sub_sized. intros H. apply rbind_ok in H as (bx & Hx & H). inv H. eauto. Qed.

Lemma Forall2_impl_In {A B} (P Q : A -> B -> Prop) l m :
  Forall2 P l m -> (forall x y, In x l -> In y m -> P x y -> Q x y) -> Forall2 Q l m.
Proof.
  induction 1 as [|x y l m Hxy HF IH]; intros H; constructor.
  - apply H; [left; reflexivity|left; reflexivity|assumption].
  - apply IH. intros x' y' Hx Hy. apply H; right; assumption.
Qed.

Lemma Forall2_length_eq {A B} (P : A -> B -> Prop) l m : Forall2 P l m -> List.length l = List.length m.
Proof. induction 1; cbn; congruence. Qed.

Lemma in_concat_le {A} (p : list A) ps : In p ps -> (List.length p <= List.length (concat ps))%nat.
Proof.
  induction ps as [|q ps IH]; [intros []|]. intros [->|H]; cbn [concat]; rewrite app_length; [lia|].
  specialize (IH H). lia.
Qed.

Lemma existsb_false {A} (f : A -> bool) l : existsb f l = false -> forall x, In x l -> f x = false.
Proof.
  intros H x Hx. destruct (f x) eqn:E; [|reflexivity].
  assert (existsb f l = true) by (apply existsb_exists; eauto). congruence.
Qed.

(* ====================================================================================== *)
(* 8. Known classes: monotonicity of the sub-position search                                *)
(* ====================================================================================== *)

Lemma existsb_mono {A} (f g : A -> bool) l :
  (forall x, In x l -> f x = true -> g x = true) -> existsb f l = true -> existsb g l = true.
Proof.
  intros H E. apply existsb_exists in E as (x & Hx & Hf). apply existsb_exists. exists x. auto.
Qed.

Lemma exists_sub_mono (P Q : ctype -> cval -> bool) :
  (forall t v, P t v = true -> Q t v = true) ->
  forall t v, exists_sub P t v = true -> exists_sub Q t v = true.
Proof.
  intros HPQ t.
  induction t as [n|e IH|e IH|k e IHk IHe|ts IH|ks nm fts IH|e d IH] using ctype_ind'; intros v H.
  - cbn [exists_sub] in *. rewrite orb_false_r in *. auto.
  - cbn [exists_sub] in *. apply orb_true_iff in H as [H|H]; [rewrite (HPQ _ _ H); reflexivity|].
    apply orb_true_iff. right. destruct (vec_elems v); [|discriminate]. eapply existsb_mono; [|exact H]. auto.
  - cbn [exists_sub] in *. apply orb_true_iff in H as [H|H]; [rewrite (HPQ _ _ H); reflexivity|].
    apply orb_true_iff. right. destruct (vec_elems v); [|discriminate]. eapply existsb_mono; [|exact H]. auto.
  - cbn [exists_sub] in *. apply orb_true_iff in H as [H|H]; [rewrite (HPQ _ _ H); reflexivity|].
    apply orb_true_iff. right. destruct v; try discriminate. eapply existsb_mono; [|exact H].
    intros kv _ Hkv. apply orb_true_iff in Hkv as [Hkv|Hkv]; apply orb_true_iff; auto.
  - destruct v; try (cbn [exists_sub] in *; rewrite orb_false_r in *; auto; fail).
    rewrite exists_sub_tuple in *. apply orb_true_iff in H as [H|H]; [rewrite (HPQ _ _ H); reflexivity|].
    apply orb_true_iff. right. clear - IH H. revert l H.
    induction IH as [|et ts Het HF IHts]; intros l H; [destruct l; discriminate H|].
    destruct l as [|ox l]; [discriminate H|]. cbn [ex_tuple_go] in *.
    apply orb_true_iff in H as [H|H]; apply orb_true_iff; [left|right; auto].
    destruct ox; [auto|discriminate].
  - destruct v; try (cbn [exists_sub] in *; rewrite orb_false_r in *; auto; fail).
    rewrite exists_sub_udt in *. apply orb_true_iff in H as [H|H]; [rewrite (HPQ _ _ H); reflexivity|].
    apply orb_true_iff. right. clear - IH H.
    induction IH as [|[fname ft] fts Het HF IHts]; [discriminate H|]. cbn [ex_udt_go snd] in *.
    apply orb_true_iff in H as [H|H]; apply orb_true_iff; [left|right; auto].
    destruct (lookup_first fname fields) as [[x|]|]; [auto|discriminate|discriminate].
  - cbn [exists_sub] in *. apply orb_true_iff in H as [H|H]; [rewrite (HPQ _ _ H); reflexivity|].
    apply orb_true_iff. right. destruct (vec_elems v); [|discriminate]. eapply existsb_mono; [|exact H]. auto.
Qed.


Lemma known_class_hole t v : known_class t v = false -> vector_hole t v = false.
Proof.
  intros H. destruct (vector_hole t v) eqn:E; [|reflexivity].
  unfold known_class in H. rewrite (exists_sub_mono kc_vector_hole kc_any) in H; [discriminate| |exact E].
  intros t' v' H'. unfold kc_any. rewrite H'. reflexivity.
Qed.

Lemma known_class_split t v :
  known_class t v = false <-> vector_hole t v = false /\ empty_tuple_inside t v = false.
Proof.
  split.
  - intros H. split; [apply known_class_hole; exact H|].
    destruct (empty_tuple_inside t v) eqn:E; [|reflexivity].
    unfold known_class in H. rewrite (exists_sub_mono kc_empty_tuple kc_any) in H; [discriminate| |exact E].
    intros t' v' H'. unfold kc_any. rewrite H'. apply orb_true_r.
  - intros [H1 H2]. destruct (known_class t v) eqn:E; [|reflexivity]. exfalso.
    unfold known_class in E. revert v H1 H2 E. unfold vector_hole, empty_tuple_inside.
    induction t as [n|e IH|e IH|k e IHk IHe|ts IH|ks nm fts IH|e d IH] using ctype_ind'; intros v H1 H2 E.
    + cbn [exists_sub] in *. rewrite orb_false_r in *. unfold kc_any in E. rewrite H1, H2 in E. discriminate.
    + cbn [exists_sub] in *. apply orb_false_iff in H1 as [A1 B1]. apply orb_false_iff in H2 as [A2 B2].
      unfold kc_any in E at 1. rewrite A1, A2 in E. cbn [orb] in E.
      destruct (vec_elems v); [|discriminate]. apply existsb_exists in E as (x & Hx & Ex).
      apply (IH x); [exact (existsb_false _ _ B1 _ Hx)|exact (existsb_false _ _ B2 _ Hx)|exact Ex].
    + cbn [exists_sub] in *. apply orb_false_iff in H1 as [A1 B1]. apply orb_false_iff in H2 as [A2 B2].
      unfold kc_any in E at 1. rewrite A1, A2 in E. cbn [orb] in E.
      destruct (vec_elems v); [|discriminate]. apply existsb_exists in E as (x & Hx & Ex).
      apply (IH x); [exact (existsb_false _ _ B1 _ Hx)|exact (existsb_false _ _ B2 _ Hx)|exact Ex].
    + cbn [exists_sub] in *. apply orb_false_iff in H1 as [A1 B1]. apply orb_false_iff in H2 as [A2 B2].
      unfold kc_any in E at 1. rewrite A1, A2 in E. cbn [orb] in E.
      destruct v; try discriminate. apply existsb_exists in E as (kv & Hx & Ex).
      pose proof (existsb_false _ _ B1 _ Hx) as C1. pose proof (existsb_false _ _ B2 _ Hx) as C2.
      cbn beta in C1, C2. apply orb_false_iff in C1 as [C1k C1e]. apply orb_false_iff in C2 as [C2k C2e].
      apply orb_true_iff in Ex as [Ex|Ex]; [apply (IHk (fst kv))|apply (IHe (snd kv))]; assumption.
    + destruct v; try (cbn [exists_sub] in *; rewrite orb_false_r in *; unfold kc_any in E; rewrite H1, H2 in E; discriminate).
      rewrite exists_sub_tuple in *. apply orb_false_iff in H1 as [A1 B1]. apply orb_false_iff in H2 as [A2 B2].
      unfold kc_any in E at 1. rewrite A1, A2 in E. cbn [orb] in E. clear A1 A2.
      revert l B1 B2 E. induction IH as [|et ts Het HF IHts]; intros l B1 B2 E; [destruct l; discriminate E|].
      destruct l as [|ox l]; [discriminate E|]. cbn [ex_tuple_go] in *.
      apply orb_false_iff in B1 as [B1x B1l]. apply orb_false_iff in B2 as [B2x B2l].
      apply orb_true_iff in E as [E|E]; [|exact (IHts l B1l B2l E)].
      destruct ox as [x|]; [exact (Het x B1x B2x E)|discriminate].
    + destruct v; try (cbn [exists_sub] in *; rewrite orb_false_r in *; unfold kc_any in E; rewrite H1, H2 in E; discriminate).
      rewrite exists_sub_udt in *. apply orb_false_iff in H1 as [A1 B1]. apply orb_false_iff in H2 as [A2 B2].
      unfold kc_any in E at 1. rewrite A1, A2 in E. cbn [orb] in E. clear A1 A2.
      induction IH as [|[fname ft] fts Het HF IHts]; [discriminate E|]. cbn [ex_udt_go snd] in *.
      apply orb_false_iff in B1 as [B1x B1l]. apply orb_false_iff in B2 as [B2x B2l].
      apply orb_true_iff in E as [E|E]; [|exact (IHts B1l B2l E)].
      destruct (lookup_first fname fields) as [[x|]|]; [exact (Het x B1x B2x E)|discriminate|discriminate].
    + cbn [exists_sub] in *. apply orb_false_iff in H1 as [A1 B1]. apply orb_false_iff in H2 as [A2 B2].
      unfold kc_any in E at 1. rewrite A1, A2 in E. cbn [orb] in E.
      destruct (vec_elems v); [|discriminate]. apply existsb_exists in E as (x & Hx & Ex).
      apply (IH x); [exact (existsb_false _ _ B1 _ Hx)|exact (existsb_false _ _ B2 _ Hx)|exact Ex].
Qed.

(* ====================================================================================== *)
(* 6. Sizes: sized sub-values fit an i32 length; fixed-width types; non-empty encodings      *)
(* ====================================================================================== *)

Lemma vint_encode_length z : (1 <= List.length (vint_encode z) <= 9)%nat.
Proof.
  unfold vint_encode. rewrite uvint_encode_spec by apply zigzag_lt. apply spec_uvint_length.
Qed.

Lemma uvint_encode_length n : n < two64 -> (1 <= List.length (uvint_encode n) <= 9)%nat.
Proof. intros H. rewrite uvint_encode_spec by exact H. apply spec_uvint_length. Qed.

Lemma cval_is_empty_dec v : {v = CEmpty} + {v <> CEmpty}.
Proof. destruct v; (left; reflexivity) || (right; discriminate). Qed.

Lemma wf_val_native n v : v <> CEmpty -> wf_val (TNative n) v = wf_native n v.
Proof. intros H. destruct v; try reflexivity. congruence. Qed.

Lemma vec_elems_inv v l : vec_elems v = Some l -> v = CList l \/ v = CSet l \/ v = CVector l.
Proof. destruct v; cbn; intros H; try discriminate; inversion H; subst; auto. Qed.

(* the value constructors a compound type accepts *)
Lemma wf_val_seq_inv t e v : (t = TList e \/ t = TSet e) -> wf_val t v = true -> v <> CEmpty ->
  exists l, vec_elems v = Some l /\ forallb (wf_val e) l = true.
Proof.
  intros [-> | ->] H Hne; destruct v; cbn [wf_val] in H; try discriminate H; try congruence;
    eexists; (split; [reflexivity|exact H]).
Qed.

Lemma wf_val_vector_inv e d v : wf_val (TVector e d) v = true -> v <> CEmpty ->
  exists l, vec_elems v = Some l /\ N.of_nat (List.length l) = d /\ forallb (wf_val e) l = true.
Proof.
  intros H Hne; destruct v; cbn [wf_val] in H; try discriminate H; try congruence;
    apply andb_true_iff in H as [H1 H2]; apply N.eqb_eq in H1;
    eexists; (split; [reflexivity|split; assumption]).
Qed.

Lemma wf_val_map_inv k e v : wf_val (TMap k e) v = true -> v <> CEmpty ->
  exists l, v = CMap l /\ forallb (fun kv => wf_val k (fst kv) && wf_val e (snd kv)) l = true.
Proof. intros H Hne; destruct v; cbn [wf_val] in H; try discriminate H; try congruence; eauto. Qed.

Lemma wf_val_tuple_inv ts v : wf_val (TTuple ts) v = true -> v <> CEmpty -> exists l, v = CTuple l.
Proof. intros H Hne; destruct v; cbn [wf_val] in H; try discriminate H; try congruence; eauto. Qed.

Lemma wf_val_udt_inv ks nm fts v : wf_val (TUdt ks nm fts) v = true -> v <> CEmpty ->
  exists ks' nm' fields, v = CUdt ks' nm' fields.
Proof. intros H Hne; destruct v; cbn [wf_val] in H; try discriminate H; try congruence; eauto. Qed.

Lemma ser_value_seq ws t e v l : (t = TList e \/ t = TSet e) -> vec_elems v = Some l ->
  ser_value ws t v = ser_sequence ws (ser_value true e) l.
Proof. intros [-> | ->] H; apply vec_elems_inv in H as [-> | [-> | ->]]; reflexivity. Qed.

Lemma ser_value_vector ws e d v l : vec_elems v = Some l ->
  ser_value ws (TVector e d) v =
  ser_vector ws (match type_size e with Some _ => true | None => false end) d (ser_value false e) l.
Proof. intros H; apply vec_elems_inv in H as [-> | [-> | ->]]; reflexivity. Qed.

Lemma known_seq t e v l : (t = TList e \/ t = TSet e) -> vec_elems v = Some l ->
  known_class t v = false -> existsb (exists_sub kc_any e) l = false.
Proof.
  unfold known_class. intros [-> | ->] H; cbn [exists_sub]; rewrite H; intros K;
    apply orb_false_iff in K as [_ K]; exact K.
Qed.

Lemma known_vector e d v l : vec_elems v = Some l -> known_class (TVector e d) v = false ->
  existsb (exists_sub kc_any e) l = false /\
  (type_size e <> None -> existsb is_cempty l = false).
Proof.
  unfold known_class. intros H. cbn [exists_sub]. rewrite H. intros K.
  apply orb_false_iff in K as [K1 K2]. split; [exact K2|].
  unfold kc_any in K1. apply orb_false_iff in K1 as [K1 _].
  unfold kc_vector_hole in K1. rewrite H in K1. destruct (type_size e); [intros _; exact K1|congruence].
Qed.

Lemma blen_concat_const (ps : list bytes) s :
  Forall (fun p => blen p = s) ps -> blen (concat ps) = s * N.of_nat (List.length ps).
Proof.
  induction 1 as [|p ps Hp HF IH]; [cbn; lia|].
  cbn [concat List.length]. rewrite blen_app, IH, Hp. lia.
Qed.

Lemma type_size_pos t s : wf_type t = true -> type_size t = Some s -> 1 <= s.
Proof.
  revert s. induction t as [n| | | | | |e IH d]; intros s Hw Hs; cbn [type_size] in Hs; try discriminate Hs.
  - destruct n; cbn in Hs; inversion Hs; lia.
  - destruct (type_size e) as [s'|]; [|discriminate]. inversion Hs; subst. cbn [wf_type] in Hw.
    apply andb_true_iff in Hw as [Hw He]. apply andb_true_iff in Hw as [Hd _].
    specialize (IH s' He eq_refl). apply N.leb_le in Hd. nia.
Qed.

Lemma hole_vector e d v l : vec_elems v = Some l -> vector_hole (TVector e d) v = false ->
  existsb (exists_sub kc_vector_hole e) l = false /\
  (type_size e <> None -> existsb is_cempty l = false).
Proof.
  unfold vector_hole. intros H. cbn [exists_sub]. rewrite H. intros K.
  apply orb_false_iff in K as [K1 K2]. split; [exact K2|].
  unfold kc_vector_hole in K1. rewrite H in K1. destruct (type_size e); [intros _; exact K1|congruence].
Qed.

(* a value of a fixed-width type that is not Empty occupies exactly that width *)
Lemma fixed_size_len_h t : forall ws v b s,
  wf_type t = true -> wf_val t v = true -> vector_hole t v = false -> v <> CEmpty ->
  type_size t = Some s -> ser_value ws t v = Ok b -> blen b = s.
Proof.
  induction t as [n| | | | | |e IH d]; intros ws v b s Hwt Hwf Hk Hne Hs Hser;
    cbn [type_size] in Hs; try discriminate Hs.
  - rewrite wf_val_native in Hwf by exact Hne.
    destruct n; cbn in Hs; try discriminate Hs; inversion Hs; subst s;
      destruct v; cbn [wf_native] in Hwf; try discriminate Hwf; cbn [ser_value] in Hser; inv Hser;
      unfold blen; rewrite ?enc_signed_length, ?be_enc_length; try reflexivity.
    + apply andb_true_iff in Hwf as [_ Hl]. apply len_is_spec in Hl. rewrite Hl. reflexivity.
    + apply andb_true_iff in Hwf as [_ Hl]. apply len_is_spec in Hl. rewrite Hl. reflexivity.
  - destruct (type_size e) as [s'|] eqn:Es; [|discriminate]. inversion Hs; subst s. clear Hs.
    destruct (wf_val_vector_inv _ _ _ Hwf Hne) as (l & Hl & Hlen & Hall).
    rewrite (ser_value_vector _ _ _ _ _ Hl), Es in Hser.
    destruct (hole_vector _ _ _ _ Hl Hk) as [Kc Kh]. specialize (Kh ltac:(congruence)).
    apply ser_vector_ok in Hser as (_ & Hser & _).
    apply ser_concat_ok in Hser as (ps & HF & ->).
    cbn [wf_type] in Hwt. apply andb_true_iff in Hwt as [_ Hwe].
    rewrite (blen_concat_const ps s').
    + rewrite <- (Forall2_length_eq _ _ _ HF). rewrite Hlen. reflexivity.
    + assert (HF' : Forall2 (fun (x : cval) (p : bytes) => blen p = s') l ps).
      { eapply Forall2_impl_In; [exact HF|]. intros x p Hx _ Hp.
        assert (H1 : wf_val e x = true) by (rewrite forallb_forall in Hall; apply Hall; exact Hx).
        assert (H2 : vector_hole e x = false) by (apply (existsb_false _ _ Kc); exact Hx).
        assert (H3 : x <> CEmpty) by (intros ->; apply (existsb_false _ _ Kh) in Hx; discriminate Hx).
        exact (IH false x p s' Hwe H1 H2 H3 eq_refl Hp). }
      clear - HF'. induction HF'; constructor; assumption.
Qed.

Lemma fixed_size_len t ws v b s :
  wf_type t = true -> wf_val t v = true -> known_class t v = false -> v <> CEmpty ->
  type_size t = Some s -> ser_value ws t v = Ok b -> blen b = s.
Proof. intros H1 H2 H3. apply fixed_size_len_h; try assumption. apply known_class_hole. exact H3. Qed.

Lemma framed_nonnil b : framed b <> [].
Proof. intros H. apply (f_equal (@List.length _)) in H. rewrite framed_length in H. cbn in H. lia. Qed.

Lemma null_marker_nonnil : null_marker <> [].
Proof. intros H. apply (f_equal (@List.length _)) in H. rewrite null_marker_length in H. cbn in H. lia. Qed.

Lemma be32_app_nonnil n bs : be32 n ++ bs <> [].
Proof.
  intros H. apply (f_equal (@List.length _)) in H. rewrite app_length, be32_length in H. cbn in H. lia.
Qed.

Lemma sub_sized_opt_nonnil f ox p : sub_sized_opt f ox = Ok p -> p <> [].
Proof.
  destruct ox as [x|]; cbn [sub_sized_opt]; intros H.
  - apply sub_sized_ok in H as (bx & _ & ->). apply framed_nonnil.
  - inv H. apply null_marker_nonnil.
Qed.

Lemma app_nonnil_l {A} (a b : list A) : a <> [] -> a ++ b <> [].
Proof. destruct a; [congruence|discriminate]. Qed.

(* every value but Empty of every type but the three string types has a non-empty encoding *)
Lemma ser_nonempty t ws v b :
  wf_type t = true -> wf_val t v = true -> known_class t v = false -> v <> CEmpty ->
  is_string_type t = false -> ser_value ws t v = Ok b -> b <> [].
Proof.
  intros Hwt Hwf Hk Hne Hst Hser. destruct t as [n|e|e|k e|ts|ks nm fts|e d].
  - rewrite wf_val_native in Hwf by exact Hne.
    destruct n; try discriminate Hst;
      destruct v; cbn [wf_native] in Hwf; try discriminate Hwf; cbn [ser_value] in Hser;
      try (inv Hser; intros E; apply (f_equal (@List.length _)) in E;
           rewrite ?app_length, ?enc_signed_length, ?be_enc_length in E; cbn in E; lia).
    + (* decimal *) apply finish_ok in Hser as [-> _]. apply app_nonnil_l.
      intros E; apply (f_equal (@List.length _)) in E; rewrite enc_signed_length in E; discriminate.
    + (* duration *) inv Hser. intros E. apply (f_equal (@List.length _)) in E. rewrite !app_length in E.
      pose proof (vint_encode_length months). cbn in E. lia.
    + (* inet *) inv Hser. apply andb_true_iff in Hwf as [_ Hl]. apply orb_true_iff in Hl as [Hl|Hl];
        apply len_is_spec in Hl; intros ->; discriminate.
    + (* timeuuid *) inv Hser. apply andb_true_iff in Hwf as [_ Hl]. apply len_is_spec in Hl. intros ->; discriminate.
    + (* uuid *) inv Hser. apply andb_true_iff in Hwf as [_ Hl]. apply len_is_spec in Hl. intros ->; discriminate.
    + (* varint *) apply set_value_ok in Hser as [-> _]. apply andb_true_iff in Hwf as [_ Hl].
      destruct raw; [discriminate|discriminate].
  - destruct (wf_val_seq_inv _ e _ (or_introl eq_refl) Hwf Hne) as (l & Hl & _).
    rewrite (ser_value_seq _ _ e _ _ (or_introl eq_refl) Hl) in Hser.
    apply ser_sequence_ok in Hser as (bs & _ & -> & _). apply be32_app_nonnil.
  - destruct (wf_val_seq_inv _ e _ (or_intror eq_refl) Hwf Hne) as (l & Hl & _).
    rewrite (ser_value_seq _ _ e _ _ (or_intror eq_refl) Hl) in Hser.
    apply ser_sequence_ok in Hser as (bs & _ & -> & _). apply be32_app_nonnil.
  - destruct (wf_val_map_inv _ _ _ Hwf Hne) as (l & -> & _). cbn [ser_value] in Hser.
    apply ser_mapping_ok in Hser as (bs & _ & -> & _). apply be32_app_nonnil.
  - destruct (wf_val_tuple_inv _ _ Hwf Hne) as (l & ->).
    rewrite ser_value_tuple in Hser. destruct (_ <? _)%nat; [discriminate|].
    apply rbind_ok in Hser as (bs & Hbs & Hf). apply finish_ok in Hf as [-> _].
    unfold known_class in Hk. rewrite exists_sub_tuple in Hk. apply orb_false_iff in Hk as [Hk _].
    unfold kc_any in Hk. apply orb_false_iff in Hk as [_ Hk]. cbn [kc_empty_tuple] in Hk.
    destruct l as [|ox l]; [discriminate Hk|].
    cbn [wf_type] in Hwt. destruct ts as [|et ts]; [discriminate Hwt|].
    cbn [ser_tuple_go] in Hbs. apply rbind_ok in Hbs as (p & Hp & Hbs).
    apply rbind_ok in Hbs as (bs' & _ & Hbs). inv Hbs. apply app_nonnil_l.
    eapply sub_sized_opt_nonnil. exact Hp.
  - destruct (wf_val_udt_inv _ _ _ _ Hwf Hne) as (ks' & nm' & fields & ->).
    rewrite ser_value_udt in Hser. destruct (negb _); [discriminate|].
    apply rbind_ok in Hser as (bs & Hbs & Hf). apply finish_ok in Hf as [-> _].
    rewrite wf_type_udt in Hwt. destruct fts as [|[fname ft] fts]; [discriminate Hwt|].
    cbn [ser_udt_go] in Hbs. apply rbind_ok in Hbs as (p & Hp & Hbs).
    apply rbind_ok in Hbs as (bs' & _ & Hbs). inv Hbs. apply app_nonnil_l.
    eapply sub_sized_opt_nonnil. exact Hp.
  - destruct (wf_val_vector_inv _ _ _ Hwf Hne) as (l & Hl & Hlen & Hall).
    rewrite (ser_value_vector _ _ _ _ _ Hl) in Hser.
    destruct (known_vector _ _ _ _ Hl Hk) as [Kc Kh].
    apply ser_vector_ok in Hser as (_ & Hser & _).
    cbn [wf_type] in Hwt. apply andb_true_iff in Hwt as [Hwd Hwe]. apply andb_true_iff in Hwd as [Hd1 _].
    apply N.leb_le in Hd1. destruct l as [|x l]; [cbn in Hlen; lia|].
    cbn [ser_concat] in Hser. apply rbind_ok in Hser as (p & Hp & Hser).
    apply rbind_ok in Hser as (bs' & _ & Hser). inv Hser. apply app_nonnil_l.
    cbn [forallb] in Hall. apply andb_true_iff in Hall as [Hx _].
    cbn [existsb] in Kc. apply orb_false_iff in Kc as [Kx _].
    destruct (type_size e) as [s'|] eqn:Es.
    + specialize (Kh ltac:(congruence)). cbn [existsb] in Kh. apply orb_false_iff in Kh as [Kh _].
      assert (x <> CEmpty) as Hxe by (intros ->; discriminate Kh).
      pose proof (fixed_size_len e false x p s' Hwe Hx Kx Hxe Es Hp) as Hlen'.
      pose proof (type_size_pos e s' Hwe Es). intros ->. cbn in Hlen'. lia.
    + unfold vec_var_elem in Hp. apply rbind_ok in Hp as (bx & _ & Hp). inv Hp. apply app_nonnil_l.
      apply uvint_encode_nonnil. apply N.mod_lt. discriminate.
Qed.

Lemma ser_value_empty ws t :
  ser_value ws t CEmpty = if supports_empty t then Ok [] else Err SE_NotEmptyable.
Proof. destruct t; reflexivity. Qed.

(* a value written through a sized sub-writer has a length that fits the i32 prefix *)
Lemma ser_sized_bound t v b : wf_val t v = true -> ser_value true t v = Ok b -> blen b <= i32_max.
Proof.
  intros Hwf Hser.
  destruct (cval_is_empty_dec v) as [->|Hne].
  { rewrite ser_value_empty in Hser. destruct (supports_empty t); [|discriminate]. inv Hser. cbn. unfold i32_max. lia. }
  destruct t as [n|e|e|k e|ts|ks nm fts|e d].
  - rewrite wf_val_native in Hwf by exact Hne.
    destruct n; destruct v; cbn [wf_native] in Hwf; try discriminate Hwf; cbn [ser_value] in Hser;
      try (apply set_value_ok in Hser as [-> Hb]; exact Hb);
      try (apply finish_ok in Hser as [-> Hb]; exact (Hb eq_refl));
      try (inv Hser; unfold blen, i32_max; rewrite ?enc_signed_length, ?be_enc_length; cbn; lia).
    + (* duration *) inv Hser. unfold blen, i32_max. rewrite !app_length.
      pose proof (vint_encode_length months). pose proof (vint_encode_length days).
      pose proof (vint_encode_length nanos). lia.
    + (* inet *) inv Hser. apply andb_true_iff in Hwf as [_ Hl]. unfold blen, i32_max.
      apply orb_true_iff in Hl as [Hl|Hl]; apply len_is_spec in Hl; rewrite Hl; lia.
    + inv Hser. apply andb_true_iff in Hwf as [_ Hl]. apply len_is_spec in Hl. unfold blen, i32_max. rewrite Hl. lia.
    + inv Hser. apply andb_true_iff in Hwf as [_ Hl]. apply len_is_spec in Hl. unfold blen, i32_max. rewrite Hl. lia.
  - destruct (wf_val_seq_inv _ e _ (or_introl eq_refl) Hwf Hne) as (l & Hl & _).
    rewrite (ser_value_seq _ _ e _ _ (or_introl eq_refl) Hl) in Hser.
    apply ser_sequence_ok in Hser as (bs & _ & _ & _ & Hb). exact (Hb eq_refl).
  - destruct (wf_val_seq_inv _ e _ (or_intror eq_refl) Hwf Hne) as (l & Hl & _).
    rewrite (ser_value_seq _ _ e _ _ (or_intror eq_refl) Hl) in Hser.
    apply ser_sequence_ok in Hser as (bs & _ & _ & _ & Hb). exact (Hb eq_refl).
  - destruct (wf_val_map_inv _ _ _ Hwf Hne) as (l & -> & _). cbn [ser_value] in Hser.
    apply ser_mapping_ok in Hser as (bs & _ & _ & _ & Hb). exact (Hb eq_refl).
  - destruct (wf_val_tuple_inv _ _ Hwf Hne) as (l & ->).
    rewrite ser_value_tuple in Hser. destruct (_ <? _)%nat; [discriminate|].
    apply rbind_ok in Hser as (bs & _ & Hf). apply finish_ok in Hf as [-> Hb]. exact (Hb eq_refl).
  - destruct (wf_val_udt_inv _ _ _ _ Hwf Hne) as (ks' & nm' & fields & ->).
    rewrite ser_value_udt in Hser. destruct (negb _); [discriminate|].
    apply rbind_ok in Hser as (bs & _ & Hf). apply finish_ok in Hf as [-> Hb]. exact (Hb eq_refl).
  - destruct (wf_val_vector_inv _ _ _ Hwf Hne) as (l & Hl & _).
    rewrite (ser_value_vector _ _ _ _ _ Hl) in Hser.
    apply ser_vector_ok in Hser as (_ & _ & Hb). exact (Hb eq_refl).
Qed.

(* ====================================================================================== *)
(* 7. Round trip                                                                            *)
(* ====================================================================================== *)

Definition RT (t : ctype) : Prop := forall ws v b,
  wf_type t = true -> wf_val t v = true -> known_class t v = false ->
  ser_value ws t v = Ok b -> blen b < two64 -> deser_value t b = Ok (pad t v).

Lemma i32_lt_two64 n : n <= i32_max -> n < two64.
Proof. unfold i32_max, two64. lia. Qed.

Lemma rt_empty t : supports_empty t = true -> deser_value t [] = Ok (pad t CEmpty).
Proof.
  intros H. rewrite deser_value_eq.
  destruct t as [n| | | | | |]; try discriminate H; try reflexivity.
  destruct n; try discriminate H; reflexivity.
Qed.

(* one optional element through a sized sub-writer: tuple element, UDT field *)
Lemma opt_field_rt t ox p rest :
  RT t -> wf_type t = true ->
  match ox with Some x => wf_val t x = true | None => True end ->
  match ox with Some x => known_class t x = false | None => True end ->
  sub_sized_opt (ser_value true t) ox = Ok p ->
  deser_opt_field (deser_value t) (p ++ rest) = Ok (option_map (pad t) ox, rest).
Proof.
  intros HRT Hwt Hwf Hk Hser. unfold deser_opt_field.
  rewrite is_nil_app_false by (eapply sub_sized_opt_nonnil; exact Hser).
  destruct ox as [x|]; cbn [sub_sized_opt option_map] in *.
  - apply sub_sized_ok in Hser as (bx & Hbx & ->).
    pose proof (ser_sized_bound _ _ _ Hwf Hbx) as Hb.
    rewrite read_cql_framed by exact Hb.
    rewrite (HRT true x bx Hwt Hwf Hk Hbx (i32_lt_two64 _ Hb)). reflexivity.
  - inv Hser. rewrite read_cql_null. reflexivity.
Qed.

Lemma forallb_In {A} (f : A -> bool) l x : forallb f l = true -> In x l -> f x = true.
Proof. intros H. rewrite forallb_forall in H. apply H. Qed.

(* list / set *)
Lemma rt_seq_core e ws l b :
  RT e -> wf_type e = true -> forallb (wf_val e) l = true ->
  existsb (exists_sub kc_any e) l = false ->
  ser_sequence ws (ser_value true e) l = Ok b ->
  deser_listlike (deser_value e) b = Ok (map (pad e) l).
Proof.
  intros HRT Hwe Hall Kc Hser.
  apply ser_sequence_ok in Hser as (bs & Hbs & -> & Hn & _).
  apply ser_concat_ok in Hbs as (ps & HF & ->).
  unfold deser_listlike, read_count. rewrite read_int_be32 by exact Hn.
  destruct (Z.of_N _ <? 0)%Z eqn:E; [lia|]. cbn [rbind fst snd]. rewrite N2Z.id.
  rewrite <- (app_nil_r (concat ps)). apply deser_items_rt.
  - eapply Forall2_impl_In; [exact HF|]. intros x p Hx _ Hp.
    apply sub_sized_ok in Hp as (bx & Hbx & ->).
    pose proof (forallb_In _ _ _ Hall Hx) as Hwx.
    pose proof (ser_sized_bound _ _ _ Hwx Hbx) as Hb.
    exists bx. split; [reflexivity|]. split; [exact Hb|].
    apply (HRT true x bx Hwe Hwx (existsb_false _ _ Kc _ Hx) Hbx (i32_lt_two64 _ Hb)).
  - rewrite app_nil_r, app_length. lia.
Qed.

(* map *)
Lemma rt_map_core k e ws l b :
  RT k -> RT e -> wf_type k = true -> wf_type e = true ->
  forallb (fun kv => wf_val k (fst kv) && wf_val e (snd kv)) l = true ->
  existsb (fun kv => exists_sub kc_any k (fst kv) || exists_sub kc_any e (snd kv)) l = false ->
  ser_mapping ws (ser_value true k) (ser_value true e) l = Ok b ->
  deser_map (deser_value k) (deser_value e) b = Ok (map (fun kv => (pad k (fst kv), pad e (snd kv))) l).
Proof.
  intros HRk HRe Hwk Hwe Hall Kc Hser.
  apply ser_mapping_ok in Hser as (bs & Hbs & -> & Hn & _).
  apply ser_concat_ok in Hbs as (ps & HF & ->).
  unfold deser_map, read_count. rewrite read_int_be32 by exact Hn.
  destruct (Z.of_N _ <? 0)%Z eqn:E; [lia|]. cbn [rbind fst snd]. rewrite N2Z.id.
  rewrite <- (app_nil_r (concat ps)). apply deser_pairs_rt.
  - eapply Forall2_impl_In; [exact HF|]. intros [xk xv] p Hx _ Hp. cbn [fst snd] in *.
    apply rbind_ok in Hp as (pk & Hpk & Hp). apply rbind_ok in Hp as (pv & Hpv & Hp). inv Hp.
    apply sub_sized_ok in Hpk as (bk & Hbk & ->). apply sub_sized_ok in Hpv as (bv & Hbv & ->).
    pose proof (forallb_In _ _ _ Hall Hx) as Hw. cbn [fst snd] in Hw. apply andb_true_iff in Hw as [Hwxk Hwxv].
    pose proof (existsb_false _ _ Kc _ Hx) as Kx. cbn [fst snd] in Kx. apply orb_false_iff in Kx as [Kk Kv].
    pose proof (ser_sized_bound _ _ _ Hwxk Hbk) as Hlk. pose proof (ser_sized_bound _ _ _ Hwxv Hbv) as Hlv.
    exists bk, bv. repeat split; try assumption.
    + apply (HRk true xk bk Hwk Hwxk Kk Hbk (i32_lt_two64 _ Hlk)).
    + apply (HRe true xv bv Hwe Hwxv Kv Hbv (i32_lt_two64 _ Hlv)).
  - rewrite app_nil_r, app_length. lia.
Qed.

Lemma blen_in_concat (p : bytes) ps : In p ps -> blen p <= blen (concat ps).
Proof. intros H. apply in_concat_le in H. unfold blen. lia. Qed.

(* vector *)
Lemma rt_vector_core e d ws l b :
  RT e -> wf_type (TVector e d) = true -> N.of_nat (List.length l) = d ->
  forallb (wf_val e) l = true -> existsb (exists_sub kc_any e) l = false ->
  (type_size e <> None -> existsb is_cempty l = false) ->
  ser_vector ws (match type_size e with Some _ => true | None => false end) d (ser_value false e) l = Ok b ->
  blen b < two64 ->
  deser_vector (deser_value e) (type_size e) d b = Ok (map (pad e) l).
Proof.
  intros HRT Hwt Hlen Hall Kc Kh Hser Hb64.
  cbn [wf_type] in Hwt. apply andb_true_iff in Hwt as [_ Hwe].
  apply ser_vector_ok in Hser as (_ & Hser & _).
  apply ser_concat_ok in Hser as (ps & HF & ->).
  unfold deser_vector. rewrite <- Hlen, Nat2N.id. rewrite <- (app_nil_r (concat ps)).
  destruct (type_size e) as [s|] eqn:Es.
  - specialize (Kh ltac:(congruence)).
    apply deser_vec_fixed_rt; [apply (type_size_pos e s Hwe Es)|].
    eapply Forall2_impl_In; [exact HF|]. intros x p Hx Hp' Hp.
    pose proof (forallb_In _ _ _ Hall Hx) as Hwx.
    pose proof (existsb_false _ _ Kc _ Hx) as Kx.
    assert (Hxe : x <> CEmpty) by (intros ->; apply (existsb_false _ _ Kh) in Hx; discriminate Hx).
    split; [exact (fixed_size_len e false x p s Hwe Hwx Kx Hxe Es Hp)|].
    apply (HRT false x p Hwe Hwx Kx Hp).
    pose proof (blen_in_concat _ _ Hp'). lia.
  - apply deser_vec_var_rt.
    eapply Forall2_impl_In; [exact HF|]. intros x p Hx Hp' Hp.
    unfold vec_var_elem in Hp. apply rbind_ok in Hp as (bx & Hbx & Hp). inv Hp.
    pose proof (forallb_In _ _ _ Hall Hx) as Hwx.
    pose proof (existsb_false _ _ Kc _ Hx) as Kx.
    assert (Hbx64 : blen bx < two64).
    { pose proof (blen_in_concat _ _ Hp') as Hle. rewrite blen_app in Hle. lia. }
    exists bx. split; [reflexivity|]. split; [exact Hbx64|].
    apply (HRT false x bx Hwe Hwx Kx Hbx Hbx64).
Qed.

(* tuple *)
Lemma deser_tuple_nil f ts : deser_tuple_go f ts [] = Ok (map (fun _ => None) ts).
Proof. induction ts as [|et ts IH]; [reflexivity|]. cbn [deser_tuple_go deser_opt_field is_nil rbind fst snd map]. rewrite IH. reflexivity. Qed.

Lemma pad_tuple_nil f ts : pad_tuple_go f ts [] = map (fun _ => None) ts.
Proof. induction ts as [|et ts IH]; [reflexivity|]. cbn [pad_tuple_go map]. rewrite IH. reflexivity. Qed.

Lemma rt_tuple_go ts : Forall RT ts -> forall l bs,
  forallb wf_type ts = true -> wf_tuple_go wf_val ts l = true ->
  ex_tuple_go (exists_sub kc_any) ts l = false ->
  ser_tuple_go (ser_value true) ts l = Ok bs ->
  deser_tuple_go deser_value ts bs = Ok (pad_tuple_go pad ts l).
Proof.
  induction 1 as [|et ts HR HF IH]; intros l bs Hwt Hwf Hk Hser; [reflexivity|].
  destruct l as [|ox l].
  - cbn [ser_tuple_go] in Hser. inv Hser. rewrite deser_tuple_nil, pad_tuple_nil. reflexivity.
  - cbn [ser_tuple_go] in Hser. apply rbind_ok in Hser as (p & Hp & Hser).
    apply rbind_ok in Hser as (bs' & Hbs' & Hser). inv Hser.
    cbn [forallb] in Hwt. apply andb_true_iff in Hwt as [Hwe Hwts].
    cbn [wf_tuple_go] in Hwf. apply andb_true_iff in Hwf as [Hwx Hwl].
    cbn [ex_tuple_go] in Hk. apply orb_false_iff in Hk as [Kx Kl].
    cbn [deser_tuple_go pad_tuple_go].
    rewrite (opt_field_rt et ox p bs' HR Hwe).
    + cbn [rbind fst snd]. rewrite (IH l bs' Hwts Hwl Kl Hbs'). reflexivity.
    + destruct ox; [exact Hwx|exact I].
    + destruct ox; [exact Kx|exact I].
    + exact Hp.
Qed.

(* UDT: fields by name *)
Lemma bytes_eqb_eq a b : bytes_eqb a b = true <-> a = b.
Proof. unfold bytes_eqb. destruct (list_eq_dec N.eq_dec a b); split; congruence. Qed.

Lemma bytes_eqb_neq a b : bytes_eqb a b = false <-> a <> b.
Proof. unfold bytes_eqb. destruct (list_eq_dec N.eq_dec a b); split; congruence. Qed.

Lemma existsb_eqb_false x (l : list name) : existsb (bytes_eqb x) l = false <-> ~ In x l.
Proof.
  induction l as [|y l IH]; cbn [existsb In]; [tauto|].
  rewrite orb_false_iff, IH, bytes_eqb_neq. intuition congruence.
Qed.

Lemma lookup_last_none {A} n (l : list (name * A)) : ~ In n (map fst l) -> lookup_last n l = None.
Proof.
  induction l as [|[m x] l IH]; [reflexivity|]. cbn [map fst In lookup_last]. intros H.
  rewrite IH by tauto. destruct (bytes_eqb n m) eqn:E; [|reflexivity].
  apply bytes_eqb_eq in E. subst. tauto.
Qed.

Lemma lookup_last_first_nodup {A} n (l : list (name * A)) :
  nodupb (map fst l) = true -> lookup_last n l = lookup_first n l.
Proof.
  induction l as [|[m x] l IH]; [reflexivity|]. cbn [map fst nodupb lookup_last lookup_first]. intros H.
  apply andb_true_iff in H as [H1 H2]. apply negb_true_iff, existsb_eqb_false in H1.
  destruct (bytes_eqb n m) eqn:E.
  - apply bytes_eqb_eq in E. subst. rewrite lookup_last_none by exact H1. reflexivity.
  - rewrite IH by exact H2. destruct (lookup_first n l); reflexivity.
Qed.

Lemma lookup_last_remove_other {A} n m (l : list (name * A)) :
  n <> m -> lookup_last n (remove_name m l) = lookup_last n l.
Proof.
  intros Hnm. induction l as [|[k x] l IH]; [reflexivity|].
  unfold remove_name in *. cbn [filter fst lookup_last].
  destruct (bytes_eqb m k) eqn:E; cbn [negb].
  - apply bytes_eqb_eq in E. subst k. rewrite IH.
    assert (bytes_eqb n m = false) as -> by (apply bytes_eqb_neq; exact Hnm).
    destruct (lookup_last n l); reflexivity.
  - cbn [lookup_last]. rewrite IH. reflexivity.
Qed.

Lemma rt_udt_go fields fts : Forall (fun f => RT (snd f)) fts -> forall st bs,
  wf_type_fields fts = true -> nodupb (map fst fts) = true ->
  (forall n, In n (map fst fts) -> lookup_last n st = lookup_first n fields) ->
  wf_udt_go wf_val fields fts = true -> ex_udt_go (exists_sub kc_any) fields fts = false ->
  ser_udt_go (ser_value true) fts st = Ok bs ->
  deser_udt_go deser_value fts bs = Ok (pad_udt_go pad fields fts).
Proof.
  induction 1 as [|[fname ft] fts HR HF IH]; intros st bs Hwt Hnd Hag Hwf Hk Hser; [reflexivity|].
  cbn [snd] in HR.
  cbn [ser_udt_go] in Hser. apply rbind_ok in Hser as (p & Hp & Hser).
  apply rbind_ok in Hser as (bs' & Hbs' & Hser). inv Hser.
  cbn [wf_type_fields] in Hwt. apply andb_true_iff in Hwt as [Hwe Hwts].
  cbn [map fst nodupb] in Hnd. apply andb_true_iff in Hnd as [Hn1 Hn2].
  apply negb_true_iff, existsb_eqb_false in Hn1.
  cbn [wf_udt_go] in Hwf. apply andb_true_iff in Hwf as [Hwx Hwl].
  cbn [ex_udt_go] in Hk. apply orb_false_iff in Hk as [Kx Kl].
  cbn [deser_udt_go pad_udt_go].
  assert (Hval : udt_field_value fname st =
                 match lookup_first fname fields with Some (Some x) => Some x | _ => None end).
  { unfold udt_field_value. rewrite (Hag fname) by (left; reflexivity). reflexivity. }
  rewrite Hval in Hp.
  assert (Hrec : deser_udt_go deser_value fts bs' = Ok (pad_udt_go pad fields fts)).
  { apply (IH (remove_name fname st) bs' Hwts Hn2); try assumption.
    intros n Hn. rewrite lookup_last_remove_other by (intros ->; tauto).
    apply Hag. right. exact Hn. }
  destruct (lookup_first fname fields) as [[x|]|].
  - rewrite (opt_field_rt ft (Some x) p bs' HR Hwe Hwx Kx Hp). cbn [rbind fst snd option_map].
    rewrite Hrec. reflexivity.
  - rewrite (opt_field_rt ft None p bs' HR Hwe I I Hp). cbn [rbind fst snd option_map].
    rewrite Hrec. reflexivity.
  - rewrite (opt_field_rt ft None p bs' HR Hwe I I Hp). cbn [rbind fst snd option_map].
    rewrite Hrec. reflexivity.
Qed.

Lemma Forall_forallb_wf (ts : list ctype) : forallb wf_type ts = true -> Forall (fun t => wf_type t = true) ts.
Proof. intros H. apply Forall_forall. intros x Hx. eapply forallb_In; eassumption. Qed.

(* the empty-cell rule does not fire on the encoding of anything but Empty *)
Lemma empty_rule_skip t ws v b :
  wf_type t = true -> wf_val t v = true -> known_class t v = false -> v <> CEmpty ->
  ser_value ws t v = Ok b -> is_nil b && negb (is_string_type t) = false.
Proof.
  intros Hwt Hwf Hk Hne Hser. destruct (is_string_type t) eqn:Es; [apply andb_false_r|].
  pose proof (ser_nonempty t ws v b Hwt Hwf Hk Hne Es Hser) as Hb.
  destruct b; [congruence|reflexivity].
Qed.

Lemma wf_val_empty t : wf_val t CEmpty = supports_empty t.
Proof. destruct t; reflexivity. Qed.

Theorem roundtrip_value t : RT t.
Proof.
  induction t as [n|e IH|e IH|k e IHk IHe|ts IH|ks nm fts IH|e d IH] using ctype_ind';
    intros ws v b Hwt Hwf Hk Hser Hb64;
    (destruct (cval_is_empty_dec v) as [->|Hne];
     [ rewrite ser_value_empty in Hser; rewrite wf_val_empty in Hwf;
       rewrite Hwf in Hser; inv Hser; apply rt_empty; exact Hwf | ]);
    rewrite deser_value_eq, (empty_rule_skip _ ws v b Hwt Hwf Hk Hne Hser).
  - (* native *)
    rewrite wf_val_native in Hwf by exact Hne. eapply native_roundtrip; eassumption.
  - (* list *)
    destruct (wf_val_seq_inv _ e _ (or_introl eq_refl) Hwf Hne) as (l & Hl & Hall).
    rewrite (ser_value_seq _ _ e _ _ (or_introl eq_refl) Hl) in Hser.
    rewrite (rt_seq_core e ws l b IH Hwt Hall (known_seq _ e _ _ (or_introl eq_refl) Hl Hk) Hser).
    apply vec_elems_inv in Hl as [-> | [-> | ->]]; reflexivity.
  - (* set *)
    destruct (wf_val_seq_inv _ e _ (or_intror eq_refl) Hwf Hne) as (l & Hl & Hall).
    rewrite (ser_value_seq _ _ e _ _ (or_intror eq_refl) Hl) in Hser.
    rewrite (rt_seq_core e ws l b IH Hwt Hall (known_seq _ e _ _ (or_intror eq_refl) Hl Hk) Hser).
    apply vec_elems_inv in Hl as [-> | [-> | ->]]; reflexivity.
  - (* map *)
    destruct (wf_val_map_inv _ _ _ Hwf Hne) as (l & -> & Hall). cbn [ser_value] in Hser.
    cbn [wf_type] in Hwt. apply andb_true_iff in Hwt as [Hwk Hwe].
    unfold known_class in Hk. cbn [exists_sub] in Hk. apply orb_false_iff in Hk as [_ Kc].
    rewrite (rt_map_core k e ws l b IHk IHe Hwk Hwe Hall Kc Hser). reflexivity.
  - (* tuple *)
    destruct (wf_val_tuple_inv _ _ Hwf Hne) as (l & ->).
    rewrite ser_value_tuple in Hser. destruct (_ <? _)%nat; [discriminate|].
    apply rbind_ok in Hser as (bs & Hbs & Hf). apply finish_ok in Hf as [-> _].
    rewrite wf_val_tuple in Hwf. apply andb_true_iff in Hwf as [_ Hwl].
    unfold known_class in Hk. rewrite exists_sub_tuple in Hk. apply orb_false_iff in Hk as [_ Kl].
    cbn [wf_type] in Hwt. apply andb_true_iff in Hwt as [_ Hwts].
    rewrite (rt_tuple_go ts IH l bs Hwts Hwl Kl Hbs), pad_tuple. reflexivity.
  - (* udt *)
    destruct (wf_val_udt_inv _ _ _ _ Hwf Hne) as (ks' & nm' & fields & ->).
    rewrite ser_value_udt in Hser. destruct (negb _); [discriminate|].
    apply rbind_ok in Hser as (bs & Hbs & Hf). apply finish_ok in Hf as [-> _].
    rewrite wf_val_udt in Hwf. apply andb_true_iff in Hwf as [Hwf Hwl].
    apply andb_true_iff in Hwf as [Hwf _]. apply andb_true_iff in Hwf as [_ Hndv].
    unfold known_class in Hk. rewrite exists_sub_udt in Hk. apply orb_false_iff in Hk as [_ Kl].
    rewrite wf_type_udt in Hwt. apply andb_true_iff in Hwt as [Hwt Hwts]. apply andb_true_iff in Hwt as [_ Hnd].
    rewrite (rt_udt_go fields fts IH fields bs Hwts Hnd).
    + rewrite pad_udt. reflexivity.
    + intros n _. apply lookup_last_first_nodup. exact Hndv.
    + exact Hwl.
    + exact Kl.
    + exact Hbs.
  - (* vector *)
    destruct (wf_val_vector_inv _ _ _ Hwf Hne) as (l & Hl & Hlen & Hall).
    rewrite (ser_value_vector _ _ _ _ _ Hl) in Hser.
    destruct (known_vector _ _ _ _ Hl Hk) as [Kc Kh].
    rewrite (rt_vector_core e d ws l b IH Hwt Hlen Hall Kc Kh Hser Hb64).
    apply vec_elems_inv in Hl as [-> | [-> | ->]]; reflexivity.
Qed.

(* C01_roundtrip: cells, prefix form *)
Theorem roundtrip_cell t c b r :
  wf_cell t c = true -> known_class_cell t c = false -> ser_cell t c = Ok b ->
  deser_cell t (b ++ r) = Ok (pad_cell t c, r).
Proof.
  intros Hwf Hk Hser. unfold ser_cell, ser_cell_ws in Hser. unfold deser_cell.
  destruct c as [| |v]; cbn [pad_cell].
  - inv Hser. rewrite read_cql_null. reflexivity.
  - inv Hser. rewrite read_cql_unset. reflexivity.
  - apply rbind_ok in Hser as (bv & Hbv & Hser). inv Hser.
    cbn [wf_cell] in Hwf. unfold wf in Hwf. apply andb_true_iff in Hwf as [Hwt Hwv].
    cbn [known_class_cell] in Hk.
    pose proof (ser_sized_bound _ _ _ Hwv Hbv) as Hb.
    rewrite read_cql_framed by exact Hb.
    rewrite (roundtrip_value t true v bv Hwt Hwv Hk Hbv (i32_lt_two64 _ Hb)). reflexivity.
Qed.

(* ====================================================================================== *)
(* 9. Conformance: what the serialiser writes is the specified wire encoding                *)
(* ====================================================================================== *)

Fixpoint enc_tuple_go (f : ctype -> cval -> option bytes) (ts : list ctype) (l : list (option cval))
  {struct ts} : option bytes :=
  match l with
  | [] => Some []
  | ox :: l' =>
      match ts with
      | [] => None
      | et :: ts' =>
          match (match ox with
                 | None => Some (spec_bytes None)
                 | Some x => option_map (fun b => spec_bytes (Some b)) (f et x)
                 end), enc_tuple_go f ts' l' with
          | Some a, Some b => Some (a ++ b)
          | _, _ => None
          end
      end
  end.

Fixpoint enc_udt_go (f : ctype -> cval -> option bytes) (fields : list (name * option cval))
         (fts : list (name * ctype)) : option bytes :=
  match fts with
  | [] => Some []
  | (fname, ft) :: r =>
      match (match lookup_first fname fields with
             | Some (Some x) => option_map (fun b => spec_bytes (Some b)) (f ft x)
             | _ => Some (spec_bytes None)
             end), enc_udt_go f fields r with
      | Some a, Some b => Some (a ++ b)
      | _, _ => None
      end
  end.

Lemma enc_spec_tuple ts l : enc_spec (TTuple ts) (CTuple l) = enc_tuple_go enc_spec ts l.
Proof.
  cbn [enc_spec]. revert l. induction ts as [|et ts IH]; intros l; destruct l as [|ox l]; try reflexivity.
  cbn [enc_tuple_go]. rewrite <- IH. reflexivity.
Qed.

Lemma enc_spec_udt ks nm fts ks' nm' fields :
  enc_spec (TUdt ks nm fts) (CUdt ks' nm' fields) =
  if negb (bytes_eqb ks' ks && bytes_eqb nm' nm) then None else
  if negb (forallb (fun f => existsb (bytes_eqb (fst f)) (map fst fts)) fields) then None else
  enc_udt_go enc_spec fields fts.
Proof.
  cbn [enc_spec]. destruct (negb (bytes_eqb ks' ks && _)); [reflexivity|].
  destruct (negb (forallb _ _)); [reflexivity|].
  induction fts as [|[fname ft] r IH]; [reflexivity|]. cbn [enc_udt_go]. rewrite <- IH. reflexivity.
Qed.

Lemma enc_spec_empty t : enc_spec t CEmpty = if supports_empty t then Some [] else None.
Proof. destruct t; reflexivity. Qed.

Lemma spec_int_eq z : spec_int z = enc_signed 4 z.
Proof. reflexivity. Qed.

Lemma enc_signed_spec k z : enc_signed k z = spec_twos k z.
Proof.
  unfold enc_signed, spec_twos, wrap_bits. do 4 f_equal. lia.
Qed.

Lemma be32_spec n : n <= i32_max -> be32 n = spec_int (Z.of_N n).
Proof. intros H. rewrite spec_int_eq. apply be32_signed. exact H. Qed.

Lemma framed_spec bx : blen bx <= i32_max -> framed bx = spec_bytes (Some bx).
Proof.
  intros H. unfold framed, spec_bytes. rewrite be32_spec by exact H. unfold blen. rewrite nat_N_Z. reflexivity.
Qed.

Lemma null_marker_spec : null_marker = spec_bytes None.
Proof. reflexivity. Qed.

Lemma opt_concat_map {A} (g : A -> option bytes) l ps :
  Forall2 (fun x p => g x = Some p) l ps -> opt_concat (map g l) = Some (concat ps).
Proof.
  unfold opt_concat. induction 1 as [|x p l ps Hp HF IH]; [reflexivity|].
  cbn [map fold_right concat]. rewrite Hp, IH. reflexivity.
Qed.

Lemma spec_fixed_len_eq t : spec_fixed_len t = option_map N.to_nat (type_size t).
Proof.
  induction t as [n| | | | | |e IH d]; try reflexivity.
  - destruct n; reflexivity.
  - cbn [spec_fixed_len type_size]. rewrite IH. destruct (type_size e); [|reflexivity].
    cbn [option_map]. f_equal. lia.
Qed.

Lemma native_conforms n v ws b :
  wf_native n v = true -> ser_value ws (TNative n) v = Ok b -> enc_native n v = Some b.
Proof.
  intros Hwf Hser.
  destruct n; destruct v; cbn [wf_native] in Hwf; try discriminate Hwf;
    cbn [ser_value supports_empty] in Hser; cbn [enc_native];
    try (apply set_value_ok in Hser as [-> _]; reflexivity);
    try (inv Hser; rewrite ?enc_signed_spec; reflexivity).
  - (* decimal *) apply finish_ok in Hser as [-> _]. reflexivity.
  - (* duration *)
    inv Hser. apply andb_true_iff in Hwf as [Hwf Hn]. apply andb_true_iff in Hwf as [Hm Hd].
    pose proof (in_range_spec _ _ Hm) as Rm. pose proof (in_range_spec _ _ Hd) as Rd.
    pose proof (in_range_spec _ _ Hn) as Rn.
    change (32 - 1)%Z with 31%Z in *. change (64 - 1)%Z with 63%Z in *.
    rewrite !vint_encode_spec by lia. reflexivity.
Qed.

Definition CF (t : ctype) : Prop := forall ws v b,
  wf_type t = true -> wf_val t v = true -> vector_hole t v = false ->
  ser_value ws t v = Ok b -> blen b < two64 -> enc_spec t v = Some b.

Lemma hole_seq t e v l : (t = TList e \/ t = TSet e) -> vec_elems v = Some l ->
  vector_hole t v = false -> existsb (exists_sub kc_vector_hole e) l = false.
Proof.
  unfold vector_hole. intros [-> | ->] H; cbn [exists_sub]; rewrite H; intros K;
    apply orb_false_iff in K as [_ K]; exact K.
Qed.

Lemma enc_spec_seq t e v l : (t = TList e \/ t = TSet e) -> vec_elems v = Some l -> v <> CEmpty ->
  enc_spec t v =
  option_map (fun body => spec_int (Z.of_nat (List.length l)) ++ body)
             (opt_concat (map (fun x => option_map (fun b => spec_bytes (Some b)) (enc_spec e x)) l)).
Proof. intros [-> | ->] H Hne; apply vec_elems_inv in H as [-> | [-> | ->]]; reflexivity. Qed.

Lemma enc_spec_vector e d v l : vec_elems v = Some l -> v <> CEmpty ->
  enc_spec (TVector e d) v =
  if negb (N.of_nat (List.length l) =? d) then None else
  match spec_fixed_len e with
  | Some s =>
      opt_concat (map (fun x => match enc_spec e x with
                                | Some b => if (List.length b =? s)%nat then Some b else None
                                | None => None
                                end) l)
  | None =>
      opt_concat (map (fun x => option_map (fun b => spec_uvint (blen b) ++ b) (enc_spec e x)) l)
  end.
Proof. intros H Hne; apply vec_elems_inv in H as [-> | [-> | ->]]; reflexivity. Qed.

Lemma cf_opt_field t ox p :
  CF t -> wf_type t = true ->
  match ox with Some x => wf_val t x = true | None => True end ->
  match ox with Some x => vector_hole t x = false | None => True end ->
  sub_sized_opt (ser_value true t) ox = Ok p ->
  match ox with
  | None => Some (spec_bytes None)
  | Some x => option_map (fun b => spec_bytes (Some b)) (enc_spec t x)
  end = Some p.
Proof.
  intros HCF Hwt Hwf Hk Hser. destruct ox as [x|]; cbn [sub_sized_opt] in Hser.
  - apply sub_sized_ok in Hser as (bx & Hbx & ->).
    pose proof (ser_sized_bound _ _ _ Hwf Hbx) as Hb.
    rewrite (HCF true x bx Hwt Hwf Hk Hbx (i32_lt_two64 _ Hb)). cbn [option_map].
    rewrite framed_spec by exact Hb. reflexivity.
  - inv Hser. reflexivity.
Qed.

Lemma cf_tuple_go ts : Forall CF ts -> forall l bs,
  (List.length l <= List.length ts)%nat ->
  forallb wf_type ts = true -> wf_tuple_go wf_val ts l = true ->
  ex_tuple_go (exists_sub kc_vector_hole) ts l = false ->
  ser_tuple_go (ser_value true) ts l = Ok bs ->
  enc_tuple_go enc_spec ts l = Some bs.
Proof.
  induction 1 as [|et ts HC HF IH]; intros l bs Hlen Hwt Hwf Hk Hser.
  - destruct l; [|cbn in Hlen; lia]. cbn in Hser. inv Hser. reflexivity.
  - destruct l as [|ox l]; [cbn in Hser; inv Hser; reflexivity|].
    cbn [ser_tuple_go] in Hser. apply rbind_ok in Hser as (p & Hp & Hser).
    apply rbind_ok in Hser as (bs' & Hbs' & Hser). inv Hser.
    cbn [forallb] in Hwt. apply andb_true_iff in Hwt as [Hwe Hwts].
    cbn [wf_tuple_go] in Hwf. apply andb_true_iff in Hwf as [Hwx Hwl].
    cbn [ex_tuple_go] in Hk. apply orb_false_iff in Hk as [Kx Kl].
    cbn [enc_tuple_go].
    rewrite (cf_opt_field et ox p HC Hwe).
    + rewrite (IH l bs'); [reflexivity|cbn in Hlen; lia|assumption..].
    + destruct ox; [exact Hwx|exact I].
    + destruct ox; [exact Kx|exact I].
    + exact Hp.
Qed.

Lemma some_inj {A} (a b : A) : Some a = Some b -> a = b.
Proof. intros H. inversion H. reflexivity. Qed.

Lemma cf_udt_go fields fts : Forall (fun f => CF (snd f)) fts -> forall st bs,
  wf_type_fields fts = true -> nodupb (map fst fts) = true ->
  (forall n, In n (map fst fts) -> lookup_last n st = lookup_first n fields) ->
  wf_udt_go wf_val fields fts = true -> ex_udt_go (exists_sub kc_vector_hole) fields fts = false ->
  ser_udt_go (ser_value true) fts st = Ok bs ->
  enc_udt_go enc_spec fields fts = Some bs.
Proof.
  induction 1 as [|[fname ft] fts HC HF IH]; intros st bs Hwt Hnd Hag Hwf Hk Hser.
  - cbn [ser_udt_go] in Hser. destruct (is_nil st); [|discriminate]. inv Hser. reflexivity.
  - cbn [snd] in HC.
    cbn [ser_udt_go] in Hser. apply rbind_ok in Hser as (p & Hp & Hser).
    apply rbind_ok in Hser as (bs' & Hbs' & Hser). inv Hser.
    cbn [wf_type_fields] in Hwt. apply andb_true_iff in Hwt as [Hwe Hwts].
    cbn [map fst nodupb] in Hnd. apply andb_true_iff in Hnd as [Hn1 Hn2].
    apply negb_true_iff, existsb_eqb_false in Hn1.
    cbn [wf_udt_go] in Hwf. apply andb_true_iff in Hwf as [Hwx Hwl].
    cbn [ex_udt_go] in Hk. apply orb_false_iff in Hk as [Kx Kl].
    cbn [enc_udt_go].
    assert (Hval : udt_field_value fname st =
                   match lookup_first fname fields with Some (Some x) => Some x | _ => None end).
    { unfold udt_field_value. rewrite (Hag fname) by (left; reflexivity). reflexivity. }
    rewrite Hval in Hp.
    assert (Hrec : enc_udt_go enc_spec fields fts = Some bs').
    { apply (IH (remove_name fname st) bs' Hwts Hn2); try assumption.
      intros n Hn. rewrite lookup_last_remove_other by (intros ->; tauto).
      apply Hag. right. exact Hn. }
    rewrite Hrec.
    destruct (lookup_first fname fields) as [[x|]|].
    + pose proof (cf_opt_field ft (Some x) p HC Hwe Hwx Kx Hp) as E. cbv beta iota in E |- *.
      first [rewrite E; reflexivity | apply some_inj in E; subst p; reflexivity].
    + pose proof (cf_opt_field ft None p HC Hwe I I Hp) as E. cbv beta iota in E |- *.
      first [rewrite E; reflexivity | apply some_inj in E; subst p; reflexivity].
    + pose proof (cf_opt_field ft None p HC Hwe I I Hp) as E. cbv beta iota in E |- *.
      first [rewrite E; reflexivity | apply some_inj in E; subst p; reflexivity].
Qed.

Theorem conforms_value t : CF t.
Proof.
  induction t as [n|e IH|e IH|k e IHk IHe|ts IH|ks nm fts IH|e d IH] using ctype_ind';
    intros ws v b Hwt Hwf Hk Hser Hb64;
    (destruct (cval_is_empty_dec v) as [->|Hne];
     [ rewrite ser_value_empty in Hser; rewrite wf_val_empty in Hwf; rewrite enc_spec_empty;
       rewrite Hwf in *; inv Hser; reflexivity | ]).
  - (* native *)
    rewrite wf_val_native in Hwf by exact Hne.
    replace (enc_spec (TNative n) v) with (enc_native n v) by (destruct v; try reflexivity; congruence).
    eapply native_conforms; eassumption.
  - (* list *)
    destruct (wf_val_seq_inv _ e _ (or_introl eq_refl) Hwf Hne) as (l & Hl & Hall).
    rewrite (ser_value_seq _ _ e _ _ (or_introl eq_refl) Hl) in Hser.
    rewrite (enc_spec_seq _ e _ _ (or_introl eq_refl) Hl Hne).
    pose proof (hole_seq _ e _ _ (or_introl eq_refl) Hl Hk) as Kc.
    apply ser_sequence_ok in Hser as (bs & Hbs & -> & Hn & _).
    apply ser_concat_ok in Hbs as (ps & HF & ->).
    rewrite (opt_concat_map _ l ps).
    + cbn [option_map]. rewrite be32_spec by exact Hn. rewrite nat_N_Z. reflexivity.
    + eapply Forall2_impl_In; [exact HF|]. intros x p Hx _ Hp.
      apply sub_sized_ok in Hp as (bx & Hbx & ->).
      pose proof (forallb_In _ _ _ Hall Hx) as Hwx. pose proof (ser_sized_bound _ _ _ Hwx Hbx) as Hb.
      rewrite (IH true x bx Hwt Hwx (existsb_false _ _ Kc _ Hx) Hbx (i32_lt_two64 _ Hb)).
      cbn [option_map]. rewrite framed_spec by exact Hb. reflexivity.
  - (* set *)
    destruct (wf_val_seq_inv _ e _ (or_intror eq_refl) Hwf Hne) as (l & Hl & Hall).
    rewrite (ser_value_seq _ _ e _ _ (or_intror eq_refl) Hl) in Hser.
    rewrite (enc_spec_seq _ e _ _ (or_intror eq_refl) Hl Hne).
    pose proof (hole_seq _ e _ _ (or_intror eq_refl) Hl Hk) as Kc.
    apply ser_sequence_ok in Hser as (bs & Hbs & -> & Hn & _).
    apply ser_concat_ok in Hbs as (ps & HF & ->).
    rewrite (opt_concat_map _ l ps).
    + cbn [option_map]. rewrite be32_spec by exact Hn. rewrite nat_N_Z. reflexivity.
    + eapply Forall2_impl_In; [exact HF|]. intros x p Hx _ Hp.
      apply sub_sized_ok in Hp as (bx & Hbx & ->).
      pose proof (forallb_In _ _ _ Hall Hx) as Hwx. pose proof (ser_sized_bound _ _ _ Hwx Hbx) as Hb.
      rewrite (IH true x bx Hwt Hwx (existsb_false _ _ Kc _ Hx) Hbx (i32_lt_two64 _ Hb)).
      cbn [option_map]. rewrite framed_spec by exact Hb. reflexivity.
  - (* map *)
    destruct (wf_val_map_inv _ _ _ Hwf Hne) as (l & -> & Hall). cbn [ser_value] in Hser.
    cbn [wf_type] in Hwt. apply andb_true_iff in Hwt as [Hwk Hwe].
    unfold vector_hole in Hk. cbn [exists_sub] in Hk. apply orb_false_iff in Hk as [_ Kc].
    apply ser_mapping_ok in Hser as (bs & Hbs & -> & Hn & _).
    apply ser_concat_ok in Hbs as (ps & HF & ->).
    cbn [enc_spec]. rewrite (opt_concat_map _ l ps).
    + cbn [option_map]. rewrite be32_spec by exact Hn. rewrite nat_N_Z. reflexivity.
    + eapply Forall2_impl_In; [exact HF|]. intros [xk xv] p Hx _ Hp. cbn [fst snd] in *.
      apply rbind_ok in Hp as (pk & Hpk & Hp). apply rbind_ok in Hp as (pv & Hpv & Hp). inv Hp.
      apply sub_sized_ok in Hpk as (bk & Hbk & ->). apply sub_sized_ok in Hpv as (bv & Hbv & ->).
      pose proof (forallb_In _ _ _ Hall Hx) as Hw. cbn [fst snd] in Hw. apply andb_true_iff in Hw as [Hwxk Hwxv].
      pose proof (existsb_false _ _ Kc _ Hx) as Kx. cbn [fst snd] in Kx. apply orb_false_iff in Kx as [Kk Kv].
      pose proof (ser_sized_bound _ _ _ Hwxk Hbk) as Hlk. pose proof (ser_sized_bound _ _ _ Hwxv Hbv) as Hlv.
      rewrite (IHk true xk bk Hwk Hwxk Kk Hbk (i32_lt_two64 _ Hlk)).
      rewrite (IHe true xv bv Hwe Hwxv Kv Hbv (i32_lt_two64 _ Hlv)).
      rewrite !framed_spec by assumption. reflexivity.
  - (* tuple *)
    destruct (wf_val_tuple_inv _ _ Hwf Hne) as (l & ->).
    rewrite ser_value_tuple in Hser. destruct (_ <? _)%nat; [discriminate|].
    apply rbind_ok in Hser as (bs & Hbs & Hf). apply finish_ok in Hf as [-> _].
    rewrite wf_val_tuple in Hwf. apply andb_true_iff in Hwf as [Hlen Hwl]. apply Nat.leb_le in Hlen.
    unfold vector_hole in Hk. rewrite exists_sub_tuple in Hk. apply orb_false_iff in Hk as [_ Kl].
    cbn [wf_type] in Hwt. apply andb_true_iff in Hwt as [_ Hwts].
    rewrite enc_spec_tuple. apply (cf_tuple_go ts IH l bs Hlen Hwts Hwl Kl Hbs).
  - (* udt *)
    destruct (wf_val_udt_inv _ _ _ _ Hwf Hne) as (ks' & nm' & fields & ->).
    rewrite ser_value_udt in Hser. destruct (negb _); [discriminate|].
    apply rbind_ok in Hser as (bs & Hbs & Hf). apply finish_ok in Hf as [-> _].
    rewrite wf_val_udt in Hwf. apply andb_true_iff in Hwf as [Hwf Hwl].
    apply andb_true_iff in Hwf as [Hwf Hin]. apply andb_true_iff in Hwf as [Hnames Hndv].
    unfold vector_hole in Hk. rewrite exists_sub_udt in Hk. apply orb_false_iff in Hk as [_ Kl].
    rewrite wf_type_udt in Hwt. apply andb_true_iff in Hwt as [Hwt Hwts]. apply andb_true_iff in Hwt as [_ Hnd].
    rewrite enc_spec_udt, Hnames, Hin. cbn [negb].
    apply (cf_udt_go fields fts IH fields bs Hwts Hnd); try assumption.
    intros n _. apply lookup_last_first_nodup. exact Hndv.
  - (* vector *)
    destruct (wf_val_vector_inv _ _ _ Hwf Hne) as (l & Hl & Hlen & Hall).
    rewrite (ser_value_vector _ _ _ _ _ Hl) in Hser.
    destruct (hole_vector _ _ _ _ Hl Hk) as [Kc Kh].
    rewrite (enc_spec_vector _ _ _ _ Hl Hne). rewrite Hlen, N.eqb_refl. cbn [negb].
    cbn [wf_type] in Hwt. apply andb_true_iff in Hwt as [_ Hwe].
    apply ser_vector_ok in Hser as (_ & Hser & _).
    apply ser_concat_ok in Hser as (ps & HF & ->).
    rewrite spec_fixed_len_eq. destruct (type_size e) as [s|] eqn:Es; cbn [option_map].
    + specialize (Kh ltac:(congruence)). apply opt_concat_map.
      eapply Forall2_impl_In; [exact HF|]. intros x p Hx Hp' Hp.
      pose proof (forallb_In _ _ _ Hall Hx) as Hwx. pose proof (existsb_false _ _ Kc _ Hx) as Kx.
      assert (Hxe : x <> CEmpty) by (intros ->; apply (existsb_false _ _ Kh) in Hx; discriminate Hx).
      assert (Hp64 : blen p < two64) by (pose proof (blen_in_concat _ _ Hp'); lia).
      rewrite (IH false x p Hwe Hwx Kx Hp Hp64).
      pose proof (fixed_size_len_h e false x p s Hwe Hwx Kx Hxe Es Hp) as Hs.
      assert ((List.length p =? N.to_nat s)%nat = true) as -> by (apply Nat.eqb_eq; unfold blen in Hs; lia).
      reflexivity.
    + apply opt_concat_map.
      eapply Forall2_impl_In; [exact HF|]. intros x p Hx Hp' Hp.
      unfold vec_var_elem in Hp. apply rbind_ok in Hp as (bx & Hbx & Hp). inv Hp.
      pose proof (forallb_In _ _ _ Hall Hx) as Hwx. pose proof (existsb_false _ _ Kc _ Hx) as Kx.
      assert (Hbx64 : blen bx < two64).
      { pose proof (blen_in_concat _ _ Hp') as Hle. rewrite blen_app in Hle. lia. }
      rewrite (IH false x bx Hwe Hwx Kx Hbx Hbx64). cbn [option_map].
      rewrite N.mod_small by exact Hbx64. rewrite uvint_encode_spec by exact Hbx64. reflexivity.
Qed.

(* C01_conforms / C01_cell_conforms *)
Theorem conforms_cell t c b :
  wf_cell t c = true ->
  match c with CVal v => vector_hole t v = false | _ => True end ->
  ser_cell t c = Ok b -> EncCell t c b.
Proof.
  intros Hwf Hk Hser. unfold EncCell, enc_cell_spec. unfold ser_cell, ser_cell_ws in Hser.
  destruct c as [| |v].
  - inv Hser. reflexivity.
  - inv Hser. reflexivity.
  - apply rbind_ok in Hser as (bv & Hbv & Hser). inv Hser.
    cbn [wf_cell] in Hwf. unfold wf in Hwf. apply andb_true_iff in Hwf as [Hwt Hwv].
    pose proof (ser_sized_bound _ _ _ Hwv Hbv) as Hb.
    rewrite (conforms_value t true v bv Hwt Hwv Hk Hbv (i32_lt_two64 _ Hb)). cbn [option_map spec_value].
    rewrite framed_spec by exact Hb. reflexivity.
Qed.

(* ====================================================================================== *)
(* 10. Totality: a value of the type is never refused for a type reason                      *)
(* ====================================================================================== *)

Lemma size_only_rbind (r : sres) (f : bytes -> sres) :
  size_only r -> (forall x, r = Ok x -> size_only (f x)) -> size_only (rbind r f).
Proof. destruct r as [x|e]; cbn [rbind size_only]; intros H1 H2; [apply H2; reflexivity|exact H1]. Qed.

Lemma size_only_set_value s : size_only (set_value s).
Proof. unfold set_value. destruct (_ <? _); cbn; auto. Qed.

Lemma size_only_finish ws s : size_only (finish ws s).
Proof. unfold finish. destruct (_ && _); cbn; auto. Qed.

Lemma size_only_concat {A} (f : A -> sres) l : (forall x, In x l -> size_only (f x)) -> size_only (ser_concat f l).
Proof.
  induction l as [|x l IH]; intros H; [exact I|]. cbn [ser_concat].
  apply size_only_rbind; [apply H; left; reflexivity|]. intros b _.
  apply size_only_rbind; [apply IH; intros y Hy; apply H; right; exact Hy|]. intros bs _. exact I.
Qed.

Lemma size_only_sub_sized f x : size_only (f x) -> size_only (sub_sized f x).
Proof. intros H. unfold sub_sized. apply size_only_rbind; [exact H|]. intros; exact I. Qed.

Lemma size_only_native n v ws : wf_native n v = true -> size_only (ser_value ws (TNative n) v).
Proof.
  intros Hwf. destruct n; destruct v; cbn [wf_native] in Hwf; try discriminate Hwf; cbn [ser_value];
    first [apply size_only_set_value | apply size_only_finish | exact I].
Qed.

Definition ST (t : ctype) : Prop := forall ws v,
  wf_type t = true -> wf_val t v = true -> size_only (ser_value ws t v).

Lemma st_opt_field t ox : ST t -> wf_type t = true ->
  match ox with Some x => wf_val t x = true | None => True end ->
  size_only (sub_sized_opt (ser_value true t) ox).
Proof.
  intros HST Hwt Hwf. destruct ox as [x|]; cbn [sub_sized_opt]; [|exact I].
  apply size_only_sub_sized. apply HST; assumption.
Qed.

Lemma st_tuple_go ts : Forall ST ts -> forall l,
  forallb wf_type ts = true -> wf_tuple_go wf_val ts l = true ->
  size_only (ser_tuple_go (ser_value true) ts l).
Proof.
  induction 1 as [|et ts HS HF IH]; intros l Hwt Hwf; [destruct l; exact I|].
  destruct l as [|ox l]; [exact I|]. cbn [ser_tuple_go].
  cbn [forallb] in Hwt. apply andb_true_iff in Hwt as [Hwe Hwts].
  cbn [wf_tuple_go] in Hwf. apply andb_true_iff in Hwf as [Hwx Hwl].
  apply size_only_rbind.
  - apply st_opt_field; [exact HS|exact Hwe|]. destruct ox; [exact Hwx|exact I].
  - intros b _. apply size_only_rbind; [apply IH; assumption|]. intros; exact I.
Qed.

Lemma remove_name_in {A} (m : name) (st : list (name * A)) e :
  In e (remove_name m st) -> In e st /\ fst e <> m.
Proof.
  unfold remove_name. rewrite filter_In. intros [H1 H2]. split; [exact H1|].
  apply negb_true_iff, bytes_eqb_neq in H2. intros E. apply H2. symmetry. exact E.
Qed.

Lemma st_udt_go fields fts : Forall (fun f => ST (snd f)) fts -> forall st,
  wf_type_fields fts = true -> nodupb (map fst fts) = true ->
  (forall n, In n (map fst fts) -> lookup_last n st = lookup_first n fields) ->
  (forall e, In e st -> In (fst e) (map fst fts)) ->
  wf_udt_go wf_val fields fts = true ->
  size_only (ser_udt_go (ser_value true) fts st).
Proof.
  induction 1 as [|[fname ft] fts HS HF IH]; intros st Hwt Hnd Hag Hin Hwf.
  - cbn [ser_udt_go]. destruct st as [|e st]; [exact I|]. exfalso. apply (Hin e). left. reflexivity.
  - cbn [snd] in HS. cbn [ser_udt_go].
    cbn [wf_type_fields] in Hwt. apply andb_true_iff in Hwt as [Hwe Hwts].
    cbn [map fst nodupb] in Hnd. apply andb_true_iff in Hnd as [Hn1 Hn2].
    apply negb_true_iff, existsb_eqb_false in Hn1.
    cbn [wf_udt_go] in Hwf. apply andb_true_iff in Hwf as [Hwx Hwl].
    assert (Hval : udt_field_value fname st =
                   match lookup_first fname fields with Some (Some x) => Some x | _ => None end).
    { unfold udt_field_value. rewrite (Hag fname) by (left; reflexivity). reflexivity. }
    rewrite Hval. apply size_only_rbind.
    + apply st_opt_field; [exact HS|exact Hwe|].
      destruct (lookup_first fname fields) as [[x|]|]; [exact Hwx|exact I|exact I].
    + intros b _. apply size_only_rbind; [|intros; exact I].
      apply IH; try assumption.
      * intros n Hn. rewrite lookup_last_remove_other by (intros ->; tauto). apply Hag. right. exact Hn.
      * intros e He. apply remove_name_in in He as [He Hne].
        destruct (Hin e He) as [E|E]; [cbn [fst] in E; congruence|exact E].
Qed.

(* C01_ser_total *)
Theorem ser_total_value t : ST t.
Proof.
  induction t as [n|e IH|e IH|k e IHk IHe|ts IH|ks nm fts IH|e d IH] using ctype_ind';
    intros ws v Hwt Hwf;
    (destruct (cval_is_empty_dec v) as [->|Hne];
     [ rewrite ser_value_empty; rewrite wf_val_empty in Hwf; rewrite Hwf; exact I | ]).
  - rewrite wf_val_native in Hwf by exact Hne. apply size_only_native. exact Hwf.
  - destruct (wf_val_seq_inv _ e _ (or_introl eq_refl) Hwf Hne) as (l & Hl & Hall).
    rewrite (ser_value_seq _ _ e _ _ (or_introl eq_refl) Hl). unfold ser_sequence.
    destruct (_ <? _); [cbn; auto|]. apply size_only_rbind; [|intros; apply size_only_finish].
    apply size_only_concat. intros x Hx. apply size_only_sub_sized. apply IH; [exact Hwt|].
    exact (forallb_In _ _ _ Hall Hx).
  - destruct (wf_val_seq_inv _ e _ (or_intror eq_refl) Hwf Hne) as (l & Hl & Hall).
    rewrite (ser_value_seq _ _ e _ _ (or_intror eq_refl) Hl). unfold ser_sequence.
    destruct (_ <? _); [cbn; auto|]. apply size_only_rbind; [|intros; apply size_only_finish].
    apply size_only_concat. intros x Hx. apply size_only_sub_sized. apply IH; [exact Hwt|].
    exact (forallb_In _ _ _ Hall Hx).
  - destruct (wf_val_map_inv _ _ _ Hwf Hne) as (l & -> & Hall). cbn [ser_value]. unfold ser_mapping.
    cbn [wf_type] in Hwt. apply andb_true_iff in Hwt as [Hwk Hwe].
    destruct (_ <? _); [cbn; auto|]. apply size_only_rbind; [|intros; apply size_only_finish].
    apply size_only_concat. intros kv Hx.
    pose proof (forallb_In _ _ _ Hall Hx) as Hw. cbn beta in Hw. apply andb_true_iff in Hw as [Hw1 Hw2].
    apply size_only_rbind; [apply size_only_sub_sized; apply IHk; assumption|]. intros a _.
    apply size_only_rbind; [apply size_only_sub_sized; apply IHe; assumption|]. intros; exact I.
  - destruct (wf_val_tuple_inv _ _ Hwf Hne) as (l & ->). rewrite ser_value_tuple.
    rewrite wf_val_tuple in Hwf. apply andb_true_iff in Hwf as [Hlen Hwl]. apply Nat.leb_le in Hlen.
    destruct (_ <? _)%nat eqn:E; [apply Nat.ltb_lt in E; lia|].
    cbn [wf_type] in Hwt. apply andb_true_iff in Hwt as [_ Hwts].
    apply size_only_rbind; [apply st_tuple_go; assumption|intros; apply size_only_finish].
  - destruct (wf_val_udt_inv _ _ _ _ Hwf Hne) as (ks' & nm' & fields & ->). rewrite ser_value_udt.
    rewrite wf_val_udt in Hwf. apply andb_true_iff in Hwf as [Hwf Hwl].
    apply andb_true_iff in Hwf as [Hwf Hin]. apply andb_true_iff in Hwf as [Hnames Hndv].
    rewrite Hnames. cbn [negb].
    rewrite wf_type_udt in Hwt. apply andb_true_iff in Hwt as [Hwt Hwts]. apply andb_true_iff in Hwt as [_ Hnd].
    apply size_only_rbind; [|intros; apply size_only_finish].
    apply (st_udt_go fields fts IH fields Hwts Hnd); try assumption.
    + intros n _. apply lookup_last_first_nodup. exact Hndv.
    + intros e He. pose proof (forallb_In _ _ _ Hin He) as Hx. cbn beta in Hx.
      apply existsb_exists in Hx as (m & Hm & Em). apply bytes_eqb_eq in Em. subst. exact Hm.
  - destruct (wf_val_vector_inv _ _ _ Hwf Hne) as (l & Hl & Hlen & Hall).
    rewrite (ser_value_vector _ _ _ _ _ Hl). unfold ser_vector. rewrite Hlen, N.eqb_refl. cbn [negb].
    cbn [wf_type] in Hwt. apply andb_true_iff in Hwt as [_ Hwe].
    apply size_only_rbind; [|intros; apply size_only_finish].
    apply size_only_concat. intros x Hx. pose proof (forallb_In _ _ _ Hall Hx) as Hwx.
    destruct (type_size e); [apply IH; assumption|].
    unfold vec_var_elem. apply size_only_rbind; [apply IH; assumption|intros; exact I].
Qed.

Theorem ser_total_cell t c : wf_cell t c = true -> size_only (ser_cell t c).
Proof.
  intros Hwf. unfold ser_cell, ser_cell_ws. destruct c as [| |v]; [exact I|exact I|].
  cbn [wf_cell] in Hwf. unfold wf in Hwf. apply andb_true_iff in Hwf as [Hwt Hwv].
  apply size_only_rbind; [apply ser_total_value; assumption|intros; exact I].
Qed.

(* ====================================================================================== *)
(* 12. The fuel of the element loops never runs out                                          *)
(* ====================================================================================== *)

Lemma take_some_len n (b x r : bytes) : take n b = Some (x, r) -> (List.length r + n = List.length b)%nat.
Proof.
  intros H. apply take_some in H as [-> Hx]. rewrite app_length. lia.
Qed.

Lemma read_cql_bytes_len b ob r : read_cql_bytes b = Some (ob, r) -> (List.length r + 4 <= List.length b)%nat.
Proof.
  unfold read_cql_bytes, read_int. destruct (take 4 b) as [[x r0]|] eqn:E; [|discriminate].
  apply take_some_len in E. destruct (dec_signed x <? 0)%Z.
  - intros H. inversion H; subst. lia.
  - unfold take_n. destruct (blen r0 <? _); [discriminate|].
    destruct (take _ r0) as [[y r1]|] eqn:E2; [|discriminate]. apply take_some_len in E2.
    intros H. inversion H; subst. lia.
Qed.

Definition no_oof {A} (r : dres A) : Prop := r <> Err DE_OutOfFuel.

Lemma no_oof_rbind {A B} (r : dres A) (f : A -> dres B) :
  no_oof r -> (forall x, r = Ok x -> no_oof (f x)) -> no_oof (rbind r f).
Proof.
  unfold no_oof. destruct r as [x|e]; cbn [rbind]; intros H1 H2; [apply H2; reflexivity|congruence].
Qed.

Lemma no_oof_nonnull f ob : (forall s, no_oof (f s)) -> no_oof (nonnull f ob).
Proof. intros H. destruct ob; cbn [nonnull]; [apply H|unfold no_oof; discriminate]. Qed.

Lemma no_oof_items f : (forall s, no_oof (f s)) -> forall fuel n b,
  (List.length b < fuel)%nat -> no_oof (deser_items f fuel n b).
Proof.
  intros Hf. induction fuel as [|fuel IH]; intros n b Hlen; [lia|].
  cbn [deser_items]. destruct (n =? 0); [unfold no_oof; discriminate|].
  destruct (read_cql_bytes b) as [[ob r]|] eqn:E; [|unfold no_oof; discriminate].
  apply read_cql_bytes_len in E.
  apply no_oof_rbind; [apply no_oof_nonnull; exact Hf|]. intros x _.
  apply no_oof_rbind; [apply IH; lia|]. intros xs _. unfold no_oof. discriminate.
Qed.

Lemma no_oof_pairs fk fv : (forall s, no_oof (fk s)) -> (forall s, no_oof (fv s)) -> forall fuel n b,
  (List.length b < fuel)%nat -> no_oof (deser_pairs fk fv fuel n b).
Proof.
  intros Hk Hv. induction fuel as [|fuel IH]; intros n b Hlen; [lia|].
  cbn [deser_pairs]. destruct (n =? 0); [unfold no_oof; discriminate|].
  destruct (read_cql_bytes b) as [[ok r1]|] eqn:E1; [|unfold no_oof; discriminate].
  destruct (read_cql_bytes r1) as [[ov r2]|] eqn:E2; [|unfold no_oof; discriminate].
  apply read_cql_bytes_len in E1. apply read_cql_bytes_len in E2.
  apply no_oof_rbind; [apply no_oof_nonnull; exact Hk|]. intros k _.
  apply no_oof_rbind; [apply no_oof_nonnull; exact Hv|]. intros v _.
  apply no_oof_rbind; [apply IH; lia|]. intros xs _. unfold no_oof. discriminate.
Qed.

Lemma no_oof_vec_fixed f s : (forall b, no_oof (f b)) -> forall cnt b, no_oof (deser_vec_fixed f s cnt b).
Proof.
  intros Hf. induction cnt as [|cnt IH]; intros b; cbn [deser_vec_fixed]; [unfold no_oof; discriminate|].
  destruct (read_n_bytes s b) as [[ob r]|]; [|unfold no_oof; discriminate].
  apply no_oof_rbind; [apply no_oof_nonnull; exact Hf|]. intros x _.
  apply no_oof_rbind; [apply IH|]. intros xs _. unfold no_oof. discriminate.
Qed.

Lemma no_oof_vec_var f : (forall b, no_oof (f b)) -> forall cnt b, no_oof (deser_vec_var f cnt b).
Proof.
  intros Hf. induction cnt as [|cnt IH]; intros b; cbn [deser_vec_var]; [unfold no_oof; discriminate|].
  destruct (uvint_decode b) as [[size r0]|]; [|unfold no_oof; discriminate].
  destruct (if size =? 0 then _ else _) as [[ob r]|]; [|unfold no_oof; discriminate].
  apply no_oof_rbind; [apply no_oof_nonnull; exact Hf|]. intros x _.
  apply no_oof_rbind; [apply IH|]. intros xs _. unfold no_oof. discriminate.
Qed.

Lemma no_oof_opt_field f b : (forall s, no_oof (f s)) -> no_oof (deser_opt_field f b).
Proof.
  intros Hf. unfold deser_opt_field. destruct (is_nil b); [unfold no_oof; discriminate|].
  destruct (read_cql_bytes b) as [[[s|] r]|]; try (unfold no_oof; discriminate).
  apply no_oof_rbind; [apply Hf|]. intros; unfold no_oof; discriminate.
Qed.

Lemma no_oof_native n b : no_oof (deser_native n b).
Proof.
  unfold no_oof, deser_native, exact_len.
  destruct n;
    repeat match goal with
           | |- context [if ?c then _ else _] => destruct c
           | |- context [match ?x with _ => _ end] => destruct x
           end; discriminate.
Qed.

(* for every type and every byte string the decoder never reports the model's fuel artefact *)
Theorem deser_value_no_oof t : forall b, deser_value t b <> Err DE_OutOfFuel.
Proof.
  induction t as [n|e IH|e IH|k e IHk IHe|ts IH|ks nm fts IH|e d IH] using ctype_ind'; intros b;
    rewrite deser_value_eq; (destruct (is_nil b && _); [discriminate|]); fold (no_oof (A := cval)).
  - apply no_oof_native.
  - apply no_oof_rbind; [|intros; unfold no_oof; discriminate].
    unfold deser_listlike, read_count. destruct (read_int b) as [[z r]|] eqn:E; [|unfold no_oof; discriminate].
    destruct (z <? 0)%Z; [unfold no_oof; discriminate|]. cbn [rbind fst snd].
    apply no_oof_items; [exact IH|]. unfold read_int in E. destruct (take 4 b) as [[x r0]|] eqn:E4; [|discriminate].
    apply take_some_len in E4. inversion E; subst. lia.
  - apply no_oof_rbind; [|intros; unfold no_oof; discriminate].
    unfold deser_listlike, read_count. destruct (read_int b) as [[z r]|] eqn:E; [|unfold no_oof; discriminate].
    destruct (z <? 0)%Z; [unfold no_oof; discriminate|]. cbn [rbind fst snd].
    apply no_oof_items; [exact IH|]. unfold read_int in E. destruct (take 4 b) as [[x r0]|] eqn:E4; [|discriminate].
    apply take_some_len in E4. inversion E; subst. lia.
  - apply no_oof_rbind; [|intros; unfold no_oof; discriminate].
    unfold deser_map, read_count. destruct (read_int b) as [[z r]|] eqn:E; [|unfold no_oof; discriminate].
    destruct (z <? 0)%Z; [unfold no_oof; discriminate|]. cbn [rbind fst snd].
    apply no_oof_pairs; [exact IHk|exact IHe|]. unfold read_int in E. destruct (take 4 b) as [[x r0]|] eqn:E4; [|discriminate].
    apply take_some_len in E4. inversion E; subst. lia.
  - apply no_oof_rbind; [|intros; unfold no_oof; discriminate].
    clear - IH. revert b. induction IH as [|et ts Het HF IHts]; intros b; cbn [deser_tuple_go]; [unfold no_oof; discriminate|].
    apply no_oof_rbind; [apply no_oof_opt_field; exact Het|]. intros xr _.
    apply no_oof_rbind; [apply IHts|]. intros; unfold no_oof; discriminate.
  - apply no_oof_rbind; [|intros; unfold no_oof; discriminate].
    clear - IH. revert b. induction IH as [|[fname ft] fts Het HF IHts]; intros b; cbn [deser_udt_go]; [unfold no_oof; discriminate|].
    apply no_oof_rbind; [apply no_oof_opt_field; exact Het|]. intros xr _.
    apply no_oof_rbind; [apply IHts|]. intros; unfold no_oof; discriminate.
  - apply no_oof_rbind; [|intros; unfold no_oof; discriminate].
    unfold deser_vector. destruct (type_size e); [apply no_oof_vec_fixed|apply no_oof_vec_var]; exact IH.
Qed.

Theorem deser_cell_no_oof t b : deser_cell t b <> Err DE_OutOfFuel.
Proof.
  unfold deser_cell. destruct (read_cql_bytes b) as [[[s|] r]|]; try discriminate.
  pose proof (deser_value_no_oof t s) as H. destruct (deser_value t s) as [v|e]; cbn [rbind]; [discriminate|congruence].
Qed.

(* ====================================================================================== *)
(* 11. Witnesses for the known classes; cell markers                                        *)
(* ====================================================================================== *)

Lemma roundtrip_refuted_vector : exists t c b,
  wf_cell t c = true /\ ser_cell t c = Ok b /\ deser_cell t b <> Ok (pad_cell t c, []).
Proof.
  exists (TVector (TNative NInt) 2), (CVal (CVector [CInt 7; CEmpty])), [0; 0; 0; 4; 0; 0; 0; 7].
  split; [reflexivity|]. split; [vm_compute; reflexivity|]. vm_compute. discriminate.
Qed.

Lemma roundtrip_refuted_tuple : exists t c b,
  wf_cell t c = true /\ ser_cell t c = Ok b /\ deser_cell t b <> Ok (pad_cell t c, []).
Proof.
  exists (TTuple [TNative NInt; TNative NText]), (CVal (CTuple [])), [0; 0; 0; 0].
  split; [reflexivity|]. split; [vm_compute; reflexivity|]. vm_compute. discriminate.
Qed.

Lemma conforms_refuted : exists t v b,
  wf t v = true /\ ser_value true t v = Ok b /\ ~ Enc t v b.
Proof.
  exists (TVector (TNative NInt) 2), (CVector [CInt 7; CEmpty]), [0; 0; 0; 7].
  split; [reflexivity|]. split; [vm_compute; reflexivity|]. unfold Enc. vm_compute. discriminate.
Qed.

Lemma cell_markers : forall t,
  ser_cell t CNull = Ok (spec_int (-1)) /\ ser_cell t CUnset = Ok (spec_int (-2)) /\
  (supports_empty t = true -> ser_cell t (CVal CEmpty) = Ok (spec_int 0)).
Proof.
  intros t. split; [reflexivity|]. split; [reflexivity|]. intros H.
  unfold ser_cell, ser_cell_ws. rewrite ser_value_empty, H. reflexivity.
Qed.

Lemma vector_cells_refuted :
  ser_vector_cells (TNative NInt) 2 [CVal (CInt 7); CNull] = Ok [0; 0; 0; 8; 0; 0; 0; 7; 255; 255; 255; 255] /\
  deser_cell (TVector (TNative NInt) 2) [0; 0; 0; 8; 0; 0; 0; 7; 255; 255; 255; 255]
  = Ok (CVal (CVector [CInt 7; CInt (-1)]), []).
Proof.
  split; vm_compute; reflexivity.
Qed.

(* ====================================================================================== *)
(* 13. [wf] spelled out; typed carriers whose elements are cells                             *)
(* ====================================================================================== *)

Lemma wf_native_char n v : wf_native n v = rust_native n v && negb (domain_excl n v).
Proof.
  destruct n; destruct v; cbn [wf_native rust_native domain_excl negb];
    try (rewrite andb_true_r; reflexivity); try reflexivity.
  - rewrite negb_involutive. destruct (ascii_valid s) eqn:E; [rewrite (ascii_utf8 _ E); reflexivity|symmetry; apply andb_false_r].
  - rewrite negb_involutive. destruct (ascii_valid s) eqn:E; [rewrite (ascii_utf8 _ E); reflexivity|symmetry; apply andb_false_r].
  - rewrite negb_involutive. unfold in_range, time_max.
    destruct ((0 <=? z)%Z && (z <=? 86399999999999)%Z) eqn:E; [|symmetry; apply andb_false_r].
    rewrite andb_true_r. apply andb_true_iff in E as [E1 E2]. symmetry. apply andb_true_iff. lia.
Qed.

Lemma rbind_ok_id (r : sres) : rbind r (fun b => Ok b) = r.
Proof. destruct r; reflexivity. Qed.

Lemma ser_concat_ext {A} (f g : A -> sres) l : (forall x, f x = g x) -> ser_concat f l = ser_concat g l.
Proof. intros H. induction l as [|x l IH]; [reflexivity|]. cbn [ser_concat]. rewrite H, IH. reflexivity. Qed.

Lemma ser_concat_map {A B} (h : A -> B) (f : B -> sres) l : ser_concat f (map h l) = ser_concat (fun x => f (h x)) l.
Proof. induction l as [|x l IH]; [reflexivity|]. cbn [map ser_concat]. rewrite IH. reflexivity. Qed.

(* without null / unset elements the typed carriers write what the dynamic value writes *)
Lemma ser_vector_cells_vals e d vs :
  ser_vector_cells e d (map CVal vs) = ser_cell (TVector e d) (CVal (CVector vs)).
Proof.
  unfold ser_vector_cells, ser_cell. cbv zeta. cbn [ser_cell_ws ser_value]. unfold ser_vector.
  rewrite map_length. destruct (negb _); [reflexivity|].
  assert (E : ser_concat (match type_size e with
                          | Some _ => ser_cell_ws false e
                          | None => fun c => rbind (ser_cell_ws false e c) (fun b => Ok (uvint_encode (blen b mod two64) ++ b))
                          end) (map CVal vs)
            = ser_concat (if match type_size e with Some _ => true | None => false end
                          then ser_value false e else vec_var_elem (ser_value false e)) vs).
  { rewrite ser_concat_map. apply ser_concat_ext. intros x.
    destruct (type_size e); unfold vec_var_elem; cbn [ser_cell_ws]; rewrite rbind_ok_id; reflexivity. }
  rewrite E.
  destruct (ser_concat _ vs) as [bs|err]; [|reflexivity]. cbn [rbind].
  destruct (finish true bs); reflexivity.
Qed.

Lemma ser_sequence_cells_vals e vs :
  ser_sequence_cells e (map CVal vs) = ser_cell (TList e) (CVal (CList vs)).
Proof.
  unfold ser_sequence_cells, ser_cell, ser_cell_ws. cbn [ser_value]. unfold ser_sequence.
  rewrite map_length. destruct (i32_max <? _); [reflexivity|].
  rewrite ser_concat_map.
  rewrite (ser_concat_ext _ (sub_sized (ser_value true e))) by (intros x; reflexivity).
  destruct (ser_concat _ vs) as [bs|err]; [|reflexivity]. cbn [rbind].
  destruct (finish true _); reflexivity.
Qed.

Lemma ser_cell_ws_true_inv e c p : cell_ok e c -> ser_cell_ws true e c = Ok p ->
  match c with
  | CNull => p = null_marker
  | CUnset => p = unset_marker
  | CVal v => exists bx, ser_value true e v = Ok bx /\ p = framed bx /\ blen bx <= i32_max
  end.
Proof.
  intros Hc H. destruct c as [| |v]; cbn [ser_cell_ws] in H.
  - inv H. reflexivity.
  - inv H. reflexivity.
  - apply rbind_ok in H as (bx & Hbx & H). inv H. destruct Hc as [Hw _].
    exists bx. repeat split; [exact Hbx|]. eapply ser_sized_bound; eassumption.
Qed.

Lemma deser_items_cells_rt fd (g : cell -> cell) (cs : list cell) ps :
  Forall2 (fun c p => (exists mk, (mk = null_marker \/ mk = unset_marker) /\ p = mk /\ g c = CNull) \/
                      (exists bx x, p = framed bx /\ blen bx <= i32_max /\ fd bx = Ok x /\ g c = CVal x)) cs ps ->
  forall rest fuel, (List.length (concat ps ++ rest) < fuel)%nat ->
  deser_items_cells fd fuel (N.of_nat (List.length cs)) (concat ps ++ rest) = Ok (map g cs).
Proof.
  induction 1 as [|c p cs ps Hp HF IH]; intros rest fuel Hfuel.
  - destruct fuel; reflexivity.
  - destruct fuel as [|fuel]; [lia|]. cbn [List.length deser_items_cells]. rewrite of_nat_S_nz.
    rewrite concat_cons_app. rewrite concat_cons_app in Hfuel.
    destruct Hp as [(mk & Hmk & -> & Hg) | (bx & x & -> & Hb & Hf & Hg)].
    + assert (Hr : read_cql_bytes (mk ++ concat ps ++ rest) = Some (None, concat ps ++ rest))
        by (destruct Hmk as [-> | ->]; [apply read_cql_null|apply read_cql_unset]).
      rewrite Hr. cbn [cell_of_raw rbind]. rewrite of_nat_S_pred, IH.
      * cbn [map]. rewrite Hg. reflexivity.
      * assert (List.length mk = 4%nat) by (destruct Hmk as [-> | ->]; apply enc_signed_length).
        rewrite app_length in Hfuel. lia.
    + rewrite read_cql_framed by exact Hb. cbn [cell_of_raw]. rewrite Hf. cbn [rbind].
      rewrite of_nat_S_pred, IH.
      * cbn [map]. rewrite Hg. reflexivity.
      * rewrite app_length, framed_length in Hfuel. lia.
Qed.

(* Vec<Option<T>> / Vec<MaybeUnset<T>> bound to a list or set: nulls at every element position *)
Theorem roundtrip_sequence_cells e cs b :
  wf_type e = true -> Forall (cell_ok e) cs -> ser_sequence_cells e cs = Ok b ->
  exists body, b = framed body /\ blen body <= i32_max /\
               deser_listlike_cells e body = Ok (map (pad_cell e) cs).
Proof.
  intros Hwe Hcs Hser. unfold ser_sequence_cells in Hser.
  destruct (i32_max <? _) eqn:En; [discriminate|]. apply N.ltb_ge in En.
  apply rbind_ok in Hser as (bs & Hbs & Hser). apply rbind_ok in Hser as (body & Hf & Hser). inv Hser.
  apply finish_ok in Hf as [-> Hb]. specialize (Hb eq_refl).
  exists (be32 (N.of_nat (List.length cs)) ++ bs). split; [reflexivity|]. split; [exact Hb|].
  apply ser_concat_ok in Hbs as (ps & HF & ->).
  unfold deser_listlike_cells, read_count. rewrite read_int_be32 by exact En.
  destruct (Z.of_N _ <? 0)%Z eqn:E; [lia|]. cbn [rbind fst snd]. rewrite N2Z.id.
  rewrite <- (app_nil_r (concat ps)). apply deser_items_cells_rt.
  - eapply Forall2_impl_In; [exact HF|]. intros c p Hc _ Hp.
    rewrite Forall_forall in Hcs. specialize (Hcs c Hc).
    pose proof (ser_cell_ws_true_inv e c p Hcs Hp) as Hi.
    destruct c as [| |v]; cbn [pad_cell].
    + left. exists null_marker. auto.
    + left. exists unset_marker. auto.
    + right. destruct Hi as (bx & Hbx & -> & Hl). destruct Hcs as [Hw Hk].
      exists bx, (pad e v). repeat split; try assumption.
      apply (roundtrip_value e true v bx Hwe Hw Hk Hbx (i32_lt_two64 _ Hl)).
  - rewrite app_nil_r, app_length. lia.
Qed.

Theorem conforms_sequence_cells e cs b :
  wf_type e = true -> Forall (cell_ok e) cs -> ser_sequence_cells e cs = Ok b ->
  enc_seq_cells_spec e cs = Some b.
Proof.
  intros Hwe Hcs Hser. unfold ser_sequence_cells in Hser.
  destruct (i32_max <? _) eqn:En; [discriminate|]. apply N.ltb_ge in En.
  apply rbind_ok in Hser as (bs & Hbs & Hser). apply rbind_ok in Hser as (body & Hf & Hser). inv Hser.
  apply finish_ok in Hf as [-> Hb]. specialize (Hb eq_refl).
  apply ser_concat_ok in Hbs as (ps & HF & ->).
  unfold enc_seq_cells_spec. rewrite (opt_concat_map _ cs ps).
  - cbn [option_map spec_value]. rewrite framed_spec by exact Hb. rewrite be32_spec by exact En.
    rewrite nat_N_Z. reflexivity.
  - eapply Forall2_impl_In; [exact HF|]. intros c p Hc _ Hp.
    rewrite Forall_forall in Hcs. specialize (Hcs c Hc).
    pose proof (ser_cell_ws_true_inv e c p Hcs Hp) as Hi.
    destruct c as [| |v].
    + subst p. reflexivity.
    + subst p. reflexivity.
    + destruct Hi as (bx & Hbx & -> & Hl). destruct Hcs as [Hw Hk].
      rewrite (conforms_value e true v bx Hwe Hw (known_class_hole _ _ Hk) Hbx (i32_lt_two64 _ Hl)).
      cbn [option_map]. rewrite framed_spec by exact Hl. reflexivity.
Qed.

(* the three domain exclusions of [wf]: accepted by the writer, not read back *)
Lemma outside_ascii : exists v b,
  rust_native NAscii v = true /\ domain_excl NAscii v = true /\
  ser_value true (TNative NAscii) v = Ok b /\ deser_value (TNative NAscii) b = Err DE_ExpectedAscii.
Proof. exists (CText [195; 169]), [195; 169]. repeat split; vm_compute; reflexivity. Qed.

Lemma outside_time : exists v b,
  rust_native NTime v = true /\ domain_excl NTime v = true /\
  ser_value true (TNative NTime) v = Ok b /\ deser_value (TNative NTime) b = Err DE_ValueOverflow.
Proof. exists (CTime 86400000000000), [0; 0; 78; 148; 145; 79; 0; 0]. repeat split; vm_compute; reflexivity. Qed.

Lemma outside_varint : exists v b,
  rust_native NVarint v = true /\ domain_excl NVarint v = true /\
  ser_value true (TNative NVarint) v = Ok b /\ deser_value (TNative NVarint) b = Ok CEmpty.
Proof. exists (CVarint []), []. repeat split; vm_compute; reflexivity. Qed.

(* through a sized writer the 2^64 premise is discharged by the i32 check of the writer itself *)
Lemma roundtrip_value_sized t v b :
  wf_type t = true -> wf_val t v = true -> known_class t v = false ->
  ser_value true t v = Ok b -> deser_value t b = Ok (pad t v).
Proof.
  intros Hwt Hwf Hk Hser. apply (roundtrip_value t true v b Hwt Hwf Hk Hser).
  apply i32_lt_two64. eapply ser_sized_bound; eassumption.
Qed.

Lemma conforms_value_sized t v b :
  wf_type t = true -> wf_val t v = true -> vector_hole t v = false ->
  ser_value true t v = Ok b -> Enc t v b.
Proof.
  intros Hwt Hwf Hk Hser. apply (conforms_value t true v b Hwt Hwf Hk Hser).
  apply i32_lt_two64. eapply ser_sized_bound; eassumption.
Qed.

(* ====================================================================================== *)
(* 14. The repaired vector writer (F2 fix proposal)                                          *)
(* ====================================================================================== *)

Lemma ser_value_fixed_udt ws ks' nm' fts ks nm fields :
  ser_value_fixed ws (TUdt ks' nm' fts) (CUdt ks nm fields) =
  if negb (bytes_eqb ks ks' && bytes_eqb nm nm') then Err SE_UdtNameMismatch
  else rbind (ser_udt_go (ser_value_fixed true) fts fields) (finish ws).
Proof.
  cbn [ser_value_fixed]. destruct (negb _); [reflexivity|]. f_equal.
  generalize fields. induction fts as [|[fname ft] r IH]; intros st; [reflexivity|].
  cbn [ser_udt_go]. rewrite <- IH. reflexivity.
Qed.

Lemma ser_value_fixed_tuple ws ts l :
  ser_value_fixed ws (TTuple ts) (CTuple l) =
  if (List.length ts <? List.length l)%nat then Err SE_TupleWrongCount
  else rbind (ser_tuple_go (ser_value_fixed true) ts l) (finish ws).
Proof.
  cbn [ser_value_fixed]. destruct (_ <? _)%nat; [reflexivity|]. f_equal.
  revert l. induction ts as [|et ts IH]; intros l; [reflexivity|].
  destruct l as [|ox l]; [reflexivity|]. cbn [ser_tuple_go]. rewrite <- IH. reflexivity.
Qed.

Lemma ser_value_fixed_native ws n v : ser_value_fixed ws (TNative n) v = ser_value ws (TNative n) v.
Proof. destruct v; reflexivity. Qed.

Lemma ser_value_fixed_empty ws t :
  ser_value_fixed ws t CEmpty = if supports_empty t then Ok [] else Err SE_NotEmptyable.
Proof. destruct t; reflexivity. Qed.

Lemma finish_weaken s b : finish true s = Ok b -> finish false s = Ok b.
Proof. intros H. apply finish_ok in H as [-> _]. reflexivity. Qed.

Lemma rbind_finish_weaken (r : sres) b : rbind r (finish true) = Ok b -> rbind r (finish false) = Ok b.
Proof. destruct r as [x|e]; cbn [rbind]; [apply finish_weaken|discriminate]. Qed.
Lemma rbind_finish_weaken' (r : sres) (g : bytes -> bytes) b :
  rbind r (fun bs => finish true (g bs)) = Ok b -> rbind r (fun bs => finish false (g bs)) = Ok b.
Proof. destruct r as [x|e]; cbn [rbind]; [apply finish_weaken|discriminate]. Qed.

Lemma ser_sequence_weaken f l b : ser_sequence true f l = Ok b -> ser_sequence false f l = Ok b.
Proof. unfold ser_sequence. destruct (i32_max <? _); [intros H; exact H|apply (rbind_finish_weaken' _ (fun bs => _ ++ bs))]. Qed.
Lemma ser_mapping_weaken fk fv l b : ser_mapping true fk fv l = Ok b -> ser_mapping false fk fv l = Ok b.
Proof. unfold ser_mapping. destruct (i32_max <? _); [intros H; exact H|apply (rbind_finish_weaken' _ (fun bs => _ ++ bs))]. Qed.
Lemma ser_vector_weaken fx d f l b : ser_vector true fx d f l = Ok b -> ser_vector false fx d f l = Ok b.
Proof. unfold ser_vector. destruct (negb _); [intros H; exact H|apply rbind_finish_weaken]. Qed.

(* a size-less writer makes fewer checks than a sized one *)
Lemma ser_value_ws_weaken t v b : ser_value true t v = Ok b -> ser_value false t v = Ok b.
Proof.
  destruct v; try (destruct t as [n| | | | | |]; cbn [ser_value]; try (intros H; exact H);
                   try (destruct n; try (intros H; exact H); apply finish_weaken);
                   first [apply ser_sequence_weaken | apply ser_mapping_weaken | apply ser_vector_weaken]; fail).
  - destruct t; try (cbn [ser_value]; intros H; exact H). rewrite !ser_value_udt.
    destruct (negb _); [intros H; exact H|apply rbind_finish_weaken].
  - destruct t; try (cbn [ser_value]; intros H; exact H). rewrite !ser_value_tuple.
    destruct (_ <? _)%nat; [intros H; exact H|apply rbind_finish_weaken].
Qed.

Lemma ser_concat_mono {A} (f g : A -> sres) l bs :
  (forall x p, In x l -> f x = Ok p -> g x = Ok p) -> ser_concat f l = Ok bs -> ser_concat g l = Ok bs.
Proof.
  revert bs. induction l as [|x l IH]; intros bs H Hs; [exact Hs|].
  cbn [ser_concat] in *. apply rbind_ok in Hs as (p & Hp & Hs). apply rbind_ok in Hs as (bs' & Hbs & Hs).
  rewrite (H x p (or_introl eq_refl) Hp). cbn [rbind].
  rewrite (IH bs' (fun y q Hy => H y q (or_intror Hy)) Hbs). exact Hs.
Qed.

Lemma sub_sized_mono f g x p : (forall q, f x = Ok q -> g x = Ok q) -> sub_sized f x = Ok p -> sub_sized g x = Ok p.
Proof.
  intros H Hs. unfold sub_sized in *. apply rbind_ok in Hs as (q & Hq & Hs). rewrite (H q Hq). exact Hs.
Qed.

Lemma sub_sized_opt_mono f g ox p :
  (forall x q, ox = Some x -> f x = Ok q -> g x = Ok q) -> sub_sized_opt f ox = Ok p -> sub_sized_opt g ox = Ok p.
Proof.
  destruct ox as [x|]; cbn [sub_sized_opt]; [|intros _ H; exact H].
  intros H. apply sub_sized_mono. intros q. apply H. reflexivity.
Qed.

Lemma vector_hole_empty t : vector_hole t CEmpty = false.
Proof. destruct t; reflexivity. Qed.

Definition FX (t : ctype) : Prop := forall ws v b,
  ser_value_fixed ws t v = Ok b ->
  ser_value ws t v = Ok b /\ (wf_type t = true -> wf_val t v = true -> vector_hole t v = false).

Lemma fx_seq e ws l b : FX e ->
  ser_sequence ws (ser_value_fixed true e) l = Ok b ->
  ser_sequence ws (ser_value true e) l = Ok b /\
  (wf_type e = true -> forallb (wf_val e) l = true -> existsb (exists_sub kc_vector_hole e) l = false).
Proof.
  intros HF H. unfold ser_sequence in *. destruct (_ <? _); [discriminate|].
  apply rbind_ok in H as (bs & Hbs & Hf). split.
  - rewrite (ser_concat_mono (sub_sized (ser_value_fixed true e)) (sub_sized (ser_value true e)) l bs); [exact Hf| |exact Hbs].
    intros x p _. apply sub_sized_mono. intros q Hq. apply (HF true x q Hq).
  - intros Hwe Hall. apply ser_concat_ok in Hbs as (ps & HF2 & _).
    destruct (existsb _ l) eqn:E; [|reflexivity]. exfalso.
    apply existsb_exists in E as (x & Hx & Ex).
    assert (exists p, sub_sized (ser_value_fixed true e) x = Ok p) as (p & Hp).
    { clear - HF2 Hx. induction HF2 as [|y q l ps Hy _ IH]; [destruct Hx|].
      destruct Hx as [->|Hx]; [eauto|auto]. }
    apply sub_sized_ok in Hp as (q & Hq & _).
    destruct (HF true x q Hq) as [_ Hh]. unfold vector_hole in Hh.
    rewrite (Hh Hwe (forallb_In _ _ _ Hall Hx)) in Ex. discriminate.
Qed.

Lemma Forall2_In_l {A B} (P : A -> B -> Prop) l m x : Forall2 P l m -> In x l -> exists y, In y m /\ P x y.
Proof.
  induction 1 as [|a b l m Hab _ IH]; [intros []|]. intros [->|H]; [exists b; split; [left; reflexivity|exact Hab]|].
  destruct (IH H) as (y & Hy & Py). exists y. split; [right; exact Hy|exact Py].
Qed.

Lemma fx_tuple_go ts : Forall FX ts -> forall l bs,
  ser_tuple_go (ser_value_fixed true) ts l = Ok bs ->
  ser_tuple_go (ser_value true) ts l = Ok bs /\
  (forallb wf_type ts = true -> wf_tuple_go wf_val ts l = true -> ex_tuple_go (exists_sub kc_vector_hole) ts l = false).
Proof.
  induction 1 as [|et ts HE HF IH]; intros l bs H; [destruct l; cbn in *; auto|].
  destruct l as [|ox l]; [cbn in *; auto|].
  cbn [ser_tuple_go] in *. apply rbind_ok in H as (p & Hp & H). apply rbind_ok in H as (bs' & Hbs' & H).
  destruct (IH l bs' Hbs') as [I1 I2]. split.
  - rewrite (sub_sized_opt_mono (ser_value_fixed true et) (ser_value true et) ox p); [|intros x q _ Hq; apply (HE true x q Hq)|exact Hp].
    cbn [rbind]. rewrite I1. exact H.
  - intros Hwt Hwf. cbn [forallb wf_tuple_go ex_tuple_go] in *.
    apply andb_true_iff in Hwt as [Hwe Hwts]. apply andb_true_iff in Hwf as [Hwx Hwl].
    rewrite (I2 Hwts Hwl), orb_false_r. destruct ox as [x|]; [|reflexivity].
    cbn [sub_sized_opt] in Hp. apply sub_sized_ok in Hp as (q & Hq & _).
    destruct (HE true x q Hq) as [_ Hh]. exact (Hh Hwe Hwx).
Qed.

Lemma fx_udt_go fields fts : Forall (fun f => FX (snd f)) fts -> forall st bs,
  ser_udt_go (ser_value_fixed true) fts st = Ok bs ->
  ser_udt_go (ser_value true) fts st = Ok bs /\
  (wf_type_fields fts = true -> nodupb (map fst fts) = true ->
   (forall n, In n (map fst fts) -> lookup_last n st = lookup_first n fields) ->
   wf_udt_go wf_val fields fts = true -> ex_udt_go (exists_sub kc_vector_hole) fields fts = false).
Proof.
  induction 1 as [|[fname ft] fts HE HF IH]; intros st bs H; [cbn in *; auto|].
  cbn [snd] in HE. cbn [ser_udt_go] in *. apply rbind_ok in H as (p & Hp & H). apply rbind_ok in H as (bs' & Hbs' & H).
  destruct (IH _ bs' Hbs') as [I1 I2]. split.
  - rewrite (sub_sized_opt_mono (ser_value_fixed true ft) (ser_value true ft) _ p); [|intros x q _ Hq; apply (HE true x q Hq)|exact Hp].
    cbn [rbind]. rewrite I1. exact H.
  - intros Hwt Hnd Hag Hwf. cbn [wf_type_fields map fst nodupb wf_udt_go ex_udt_go] in *.
    apply andb_true_iff in Hwt as [Hwe Hwts]. apply andb_true_iff in Hnd as [Hn1 Hn2].
    apply negb_true_iff, existsb_eqb_false in Hn1. apply andb_true_iff in Hwf as [Hwx Hwl].
    rewrite I2; try assumption.
    + rewrite orb_false_r.
      assert (Hval : udt_field_value fname st =
                     match lookup_first fname fields with Some (Some x) => Some x | _ => None end).
      { unfold udt_field_value. rewrite (Hag fname) by (left; reflexivity). reflexivity. }
      rewrite Hval in Hp. destruct (lookup_first fname fields) as [[x|]|]; try reflexivity.
      cbn [sub_sized_opt] in Hp. apply sub_sized_ok in Hp as (q & Hq & _).
      destruct (HE true x q Hq) as [_ Hh]. exact (Hh Hwe Hwx).
    + intros n Hn. rewrite lookup_last_remove_other by (intros ->; tauto). apply Hag. right. exact Hn.
Qed.

Theorem fixed_refines_all t : FX t.
Proof.
  induction t as [n|e IH|e IH|k e IHk IHe|ts IH|ks nm fts IH|e d IH] using ctype_ind'; intros ws v b H;
    (destruct (cval_is_empty_dec v) as [->|Hne];
     [ rewrite ser_value_fixed_empty in H; rewrite ser_value_empty; split; [exact H|intros; apply vector_hole_empty] | ]).
  - rewrite ser_value_fixed_native in H. split; [exact H|]. intros _ _. unfold vector_hole. cbn [exists_sub].
    rewrite orb_false_r. destruct v; reflexivity.
  - destruct v; try (exfalso; apply Hne; reflexivity); cbn [ser_value_fixed] in H; try discriminate H; cbn [ser_value];
      destruct (fx_seq e ws _ b IH H) as [A B]; (split; [exact A|]); intros Hwt Hwf;
      unfold vector_hole; cbn [exists_sub kc_vector_hole vec_elems orb]; cbn [wf_type] in Hwt; cbn [wf_val] in Hwf;
      apply B; assumption.
  - destruct v; try (exfalso; apply Hne; reflexivity); cbn [ser_value_fixed] in H; try discriminate H; cbn [ser_value];
      destruct (fx_seq e ws _ b IH H) as [A B]; (split; [exact A|]); intros Hwt Hwf;
      unfold vector_hole; cbn [exists_sub kc_vector_hole vec_elems orb]; cbn [wf_type] in Hwt; cbn [wf_val] in Hwf;
      apply B; assumption.
  - destruct v; try (exfalso; apply Hne; reflexivity); cbn [ser_value_fixed] in H; try discriminate H. cbn [ser_value].
    unfold ser_mapping in *. destruct (_ <? _); [discriminate|].
    apply rbind_ok in H as (bs & Hbs & Hf). split.
    + assert (Hb' : ser_concat (fun kv => rbind (sub_sized (ser_value true k) (fst kv)) (fun a =>
                                          rbind (sub_sized (ser_value true e) (snd kv)) (fun b => Ok (a ++ b)))) l = Ok bs).
      { eapply ser_concat_mono; [|exact Hbs].
        intros kv p _ Hp. cbn beta in *. apply rbind_ok in Hp as (a & Ha & Hp). apply rbind_ok in Hp as (c & Hc & Hp).
        rewrite (sub_sized_mono (ser_value_fixed true k) (ser_value true k) _ a (fun q Hq => proj1 (IHk true _ q Hq)) Ha). cbn [rbind].
        rewrite (sub_sized_mono (ser_value_fixed true e) (ser_value true e) _ c (fun q Hq => proj1 (IHe true _ q Hq)) Hc). exact Hp. }
      rewrite Hb'. exact Hf.
    + intros Hwt Hwf. cbn [wf_type] in Hwt. apply andb_true_iff in Hwt as [Hwk Hwe]. cbn [wf_val] in Hwf.
      unfold vector_hole. cbn [exists_sub kc_vector_hole vec_elems orb].
      apply ser_concat_ok in Hbs as (ps & HF2 & _).
      destruct (existsb _ l) eqn:E; [|reflexivity]. exfalso.
      apply existsb_exists in E as (kv & Hx & Ex).
      destruct (Forall2_In_l _ _ _ _ HF2 Hx) as (p & _ & Hp). cbn beta in Hp.
      apply rbind_ok in Hp as (a & Ha & Hp). apply rbind_ok in Hp as (c & Hc & _).
      apply sub_sized_ok in Ha as (qa & Hqa & _). apply sub_sized_ok in Hc as (qc & Hqc & _).
      pose proof (forallb_In _ _ _ Hwf Hx) as Hw. cbn beta in Hw. apply andb_true_iff in Hw as [Hw1 Hw2].
      destruct (IHk true _ qa Hqa) as [_ Hk1]. destruct (IHe true _ qc Hqc) as [_ Hk2].
      unfold vector_hole in Hk1, Hk2. rewrite (Hk1 Hwk Hw1), (Hk2 Hwe Hw2) in Ex. discriminate.
  - destruct v; try (cbn [ser_value_fixed] in H; discriminate H); try (exfalso; apply Hne; reflexivity).
    rewrite ser_value_fixed_tuple in H. rewrite ser_value_tuple. destruct (_ <? _)%nat; [discriminate|].
    apply rbind_ok in H as (bs & Hbs & Hf). destruct (fx_tuple_go ts IH l bs Hbs) as [A B]. split.
    + rewrite A. exact Hf.
    + intros Hwt Hwf. cbn [wf_type] in Hwt. apply andb_true_iff in Hwt as [_ Hwts].
      rewrite wf_val_tuple in Hwf. apply andb_true_iff in Hwf as [_ Hwl].
      unfold vector_hole. rewrite exists_sub_tuple. cbn [kc_vector_hole vec_elems orb]. apply B; assumption.
  - destruct v; try (cbn [ser_value_fixed] in H; discriminate H); try (exfalso; apply Hne; reflexivity).
    rewrite ser_value_fixed_udt in H. rewrite ser_value_udt. destruct (negb _); [discriminate|].
    apply rbind_ok in H as (bs & Hbs & Hf). destruct (fx_udt_go fields fts IH fields bs Hbs) as [A B]. split.
    + rewrite A. exact Hf.
    + intros Hwt Hwf. rewrite wf_type_udt in Hwt. apply andb_true_iff in Hwt as [Hwt Hwts]. apply andb_true_iff in Hwt as [_ Hnd].
      rewrite wf_val_udt in Hwf. apply andb_true_iff in Hwf as [Hwf Hwl].
      apply andb_true_iff in Hwf as [Hwf _]. apply andb_true_iff in Hwf as [_ Hndv].
      unfold vector_hole. rewrite exists_sub_udt. cbn [kc_vector_hole vec_elems orb]. apply B; try assumption.
      intros n _. apply lookup_last_first_nodup. exact Hndv.
  - assert (HV : forall l, ser_vector_fixed ws (type_size e) d (ser_value_fixed true e) l = Ok b ->
              ser_vector ws (match type_size e with Some _ => true | None => false end) d (ser_value false e) l = Ok b /\
              (wf_type (TVector e d) = true -> forallb (wf_val e) l = true ->
               existsb (exists_sub kc_vector_hole e) l = false /\
               (match type_size e with Some _ => existsb is_cempty l | None => false end) = false)).
    { intros l Hv. unfold ser_vector_fixed, ser_vector in *. destruct (negb _); [discriminate|].
      apply rbind_ok in Hv as (bs & Hbs & Hf). split.
      - assert (Hb' : ser_concat (if match type_size e with Some _ => true | None => false end
                                  then ser_value false e else vec_var_elem (ser_value false e)) l = Ok bs).
        { eapply ser_concat_mono; [|exact Hbs].
          intros x p _ Hp. destruct (type_size e) as [s|].
          + unfold vec_fixed_elem in Hp. apply rbind_ok in Hp as (q & Hq & Hp).
            destruct (blen q =? s); [|discriminate]. inv Hp.
            apply ser_value_ws_weaken. apply (IH true x _ Hq).
          + unfold vec_var_elem in *. apply rbind_ok in Hp as (q & Hq & Hp).
            rewrite (ser_value_ws_weaken e x q (proj1 (IH true x q Hq))). exact Hp. }
        rewrite Hb'. exact Hf.
      - intros Hwt Hall. cbn [wf_type] in Hwt. apply andb_true_iff in Hwt as [_ Hwe].
        apply ser_concat_ok in Hbs as (ps & HF2 & _). split.
        + destruct (existsb _ l) eqn:E; [|reflexivity]. exfalso.
          apply existsb_exists in E as (x & Hx & Ex).
          destruct (Forall2_In_l _ _ _ _ HF2 Hx) as (p & _ & Hp).
          assert (exists q, ser_value_fixed true e x = Ok q) as (q & Hq).
          { destruct (type_size e); [unfold vec_fixed_elem in Hp|unfold vec_var_elem in Hp];
              apply rbind_ok in Hp as (q & Hq & _); eauto. }
          destruct (IH true x q Hq) as [_ Hh]. unfold vector_hole in Hh.
          rewrite (Hh Hwe (forallb_In _ _ _ Hall Hx)) in Ex. discriminate.
        + destruct (type_size e) as [s|] eqn:Es; [|reflexivity].
          destruct (existsb is_cempty l) eqn:E; [|reflexivity]. exfalso.
          apply existsb_exists in E as (x & Hx & Ex). destruct x; try discriminate Ex.
          destruct (Forall2_In_l _ _ _ _ HF2 Hx) as (p & _ & Hp).
          unfold vec_fixed_elem in Hp. rewrite ser_value_fixed_empty in Hp.
          pose proof (type_size_pos e s Hwe Es) as Hs.
          destruct (supports_empty e); cbn [rbind] in Hp; [|discriminate].
          destruct (blen [] =? s) eqn:E0; [|discriminate]. apply N.eqb_eq in E0. cbn in E0. lia. }
    destruct v; try (exfalso; apply Hne; reflexivity); cbn [ser_value_fixed] in H; try discriminate H; cbn [ser_value];
      destruct (HV _ H) as [A B]; (split; [exact A|]); intros Hwt Hwf; cbn [wf_val] in Hwf;
      apply andb_true_iff in Hwf as [_ Hall]; destruct (B Hwt Hall) as [B1 B2];
      unfold vector_hole; cbn [exists_sub kc_vector_hole vec_elems]; rewrite B1, orb_false_r; exact B2.
Qed.

Theorem fixed_refines t ws v b : ser_value_fixed ws t v = Ok b -> ser_value ws t v = Ok b.
Proof. intros H. exact (proj1 (fixed_refines_all t ws v b H)). Qed.

Theorem fixed_no_hole t ws v b :
  wf_type t = true -> wf_val t v = true -> ser_value_fixed ws t v = Ok b -> vector_hole t v = false.
Proof. intros Hwt Hwf H. exact (proj2 (fixed_refines_all t ws v b H) Hwt Hwf). Qed.

Lemma ser_cell_fixed_refines t c b : ser_cell_fixed t c = Ok b -> ser_cell t c = Ok b.
Proof.
  unfold ser_cell_fixed, ser_cell, ser_cell_ws. destruct c as [| |v]; try (intros H; exact H).
  intros H. apply rbind_ok in H as (bv & Hbv & H). rewrite (fixed_refines _ _ _ _ Hbv). exact H.
Qed.

(* with the repaired writer the round trip needs no vector class (the empty tuple, F14, is a
   different finding and stays) and conformance needs no class at all *)
Theorem roundtrip_cell_fixed t c b r :
  wf_cell t c = true ->
  match c with CVal v => empty_tuple_inside t v = false | _ => True end ->
  ser_cell_fixed t c = Ok b -> deser_cell t (b ++ r) = Ok (pad_cell t c, r).
Proof.
  intros Hwf Hk Hser. apply roundtrip_cell; [exact Hwf| |apply ser_cell_fixed_refines; exact Hser].
  destruct c as [| |v]; try reflexivity. cbn [known_class_cell]. apply known_class_split. split; [|exact Hk].
  unfold ser_cell_fixed in Hser. apply rbind_ok in Hser as (bv & Hbv & _).
  cbn [wf_cell] in Hwf. unfold wf in Hwf. apply andb_true_iff in Hwf as [Hwt Hwv].
  exact (fixed_no_hole t true v bv Hwt Hwv Hbv).
Qed.

Theorem conforms_cell_fixed t c b : wf_cell t c = true -> ser_cell_fixed t c = Ok b -> EncCell t c b.
Proof.
  intros Hwf Hser. apply conforms_cell; [exact Hwf| |apply ser_cell_fixed_refines; exact Hser].
  destruct c as [| |v]; try exact I.
  unfold ser_cell_fixed in Hser. apply rbind_ok in Hser as (bv & Hbv & _).
  cbn [wf_cell] in Hwf. unfold wf in Hwf. apply andb_true_iff in Hwf as [Hwt Hwv].
  exact (fixed_no_hole t true v bv Hwt Hwv Hbv).
Qed.

(* the repaired writer refuses nothing that is a value of the type without a vector hole *)
Lemma finish_strengthen s b : finish false s = Ok b -> blen b <= i32_max -> finish true s = Ok b.
Proof.
  intros H Hb. apply finish_ok in H as [-> _]. unfold finish. cbn [andb].
  destruct (i32_max <? blen s) eqn:E; [apply N.ltb_lt in E; lia|reflexivity].
Qed.

Lemma finish_any ws s b : finish false s = Ok b -> blen b <= i32_max -> finish ws s = Ok b.
Proof. destruct ws; [apply finish_strengthen|intros H _; exact H]. Qed.

Lemma finish_to_false ws s b : finish ws s = Ok b -> finish false s = Ok b.
Proof. intros H. apply finish_ok in H as [-> _]. reflexivity. Qed.

Lemma ser_concat_of_Forall2 {A} (g : A -> sres) l ps :
  Forall2 (fun x p => g x = Ok p) l ps -> ser_concat g l = Ok (concat ps).
Proof.
  induction 1 as [|x p l ps Hp _ IH]; [reflexivity|]. cbn [ser_concat concat]. rewrite Hp, IH. reflexivity.
Qed.

Definition FC (t : ctype) : Prop := forall ws v b,
  wf_type t = true -> wf_val t v = true -> vector_hole t v = false ->
  ser_value ws t v = Ok b -> blen b <= i32_max -> ser_value_fixed ws t v = Ok b.

Lemma fc_sized t x q : FC t -> wf_type t = true -> wf_val t x = true -> vector_hole t x = false ->
  sub_sized (ser_value true t) x = Ok q -> sub_sized (ser_value_fixed true t) x = Ok q.
Proof.
  intros HC Hwt Hwx Hk H. unfold sub_sized in *. apply rbind_ok in H as (bx & Hbx & H).
  rewrite (HC true x bx Hwt Hwx Hk Hbx (ser_sized_bound _ _ _ Hwx Hbx)). exact H.
Qed.

Lemma fc_opt t ox q : FC t -> wf_type t = true ->
  match ox with Some x => wf_val t x = true | None => True end ->
  match ox with Some x => vector_hole t x = false | None => True end ->
  sub_sized_opt (ser_value true t) ox = Ok q -> sub_sized_opt (ser_value_fixed true t) ox = Ok q.
Proof. destruct ox as [x|]; cbn [sub_sized_opt]; [apply fc_sized|intros _ _ _ _ H; exact H]. Qed.

Lemma fc_seq e ws l b : FC e -> wf_type e = true -> forallb (wf_val e) l = true ->
  existsb (exists_sub kc_vector_hole e) l = false ->
  ser_sequence ws (ser_value true e) l = Ok b -> ser_sequence ws (ser_value_fixed true e) l = Ok b.
Proof.
  intros HC Hwe Hall Kc H. unfold ser_sequence in *. destruct (_ <? _); [discriminate|].
  apply rbind_ok in H as (bs & Hbs & Hf).
  assert (Hb' : ser_concat (sub_sized (ser_value_fixed true e)) l = Ok bs).
  { eapply ser_concat_mono; [|exact Hbs]. intros x p Hx Hp.
    apply (fc_sized e x p HC Hwe (forallb_In _ _ _ Hall Hx) (existsb_false _ _ Kc _ Hx) Hp). }
  rewrite Hb'. exact Hf.
Qed.

Lemma fc_tuple_go ts : Forall FC ts -> forall l bs,
  forallb wf_type ts = true -> wf_tuple_go wf_val ts l = true ->
  ex_tuple_go (exists_sub kc_vector_hole) ts l = false ->
  ser_tuple_go (ser_value true) ts l = Ok bs -> ser_tuple_go (ser_value_fixed true) ts l = Ok bs.
Proof.
  induction 1 as [|et ts HE HF IH]; intros l bs Hwt Hwf Hk H; [destruct l; exact H|].
  destruct l as [|ox l]; [exact H|].
  cbn [ser_tuple_go forallb wf_tuple_go ex_tuple_go] in *. apply rbind_ok in H as (p & Hp & H). apply rbind_ok in H as (bs' & Hbs' & H).
  apply andb_true_iff in Hwt as [Hwe Hwts]. apply andb_true_iff in Hwf as [Hwx Hwl]. apply orb_false_iff in Hk as [Kx Kl].
  rewrite (fc_opt et ox p HE Hwe).
  - cbn [rbind]. rewrite (IH l bs' Hwts Hwl Kl Hbs'). exact H.
  - destruct ox; [exact Hwx|exact I].
  - destruct ox; [exact Kx|exact I].
  - exact Hp.
Qed.

Lemma fc_udt_go fields fts : Forall (fun f => FC (snd f)) fts -> forall st bs,
  wf_type_fields fts = true -> nodupb (map fst fts) = true ->
  (forall n, In n (map fst fts) -> lookup_last n st = lookup_first n fields) ->
  wf_udt_go wf_val fields fts = true -> ex_udt_go (exists_sub kc_vector_hole) fields fts = false ->
  ser_udt_go (ser_value true) fts st = Ok bs -> ser_udt_go (ser_value_fixed true) fts st = Ok bs.
Proof.
  induction 1 as [|[fname ft] fts HE HF IH]; intros st bs Hwt Hnd Hag Hwf Hk H; [exact H|].
  cbn [snd] in HE. cbn [ser_udt_go wf_type_fields map fst nodupb wf_udt_go ex_udt_go] in *.
  apply rbind_ok in H as (p & Hp & H). apply rbind_ok in H as (bs' & Hbs' & H).
  apply andb_true_iff in Hwt as [Hwe Hwts]. apply andb_true_iff in Hnd as [Hn1 Hn2].
  apply negb_true_iff, existsb_eqb_false in Hn1. apply andb_true_iff in Hwf as [Hwx Hwl].
  apply orb_false_iff in Hk as [Kx Kl].
  assert (Hval : udt_field_value fname st =
                 match lookup_first fname fields with Some (Some x) => Some x | _ => None end).
  { unfold udt_field_value. rewrite (Hag fname) by (left; reflexivity). reflexivity. }
  rewrite Hval in *.
  assert (Hrec : ser_udt_go (ser_value_fixed true) fts (remove_name fname st) = Ok bs').
  { apply IH; try assumption. intros n Hn. rewrite lookup_last_remove_other by (intros ->; tauto). apply Hag. right. exact Hn. }
  rewrite Hrec.
  destruct (lookup_first fname fields) as [[x|]|].
  - rewrite (fc_opt ft (Some x) p HE Hwe Hwx Kx Hp). exact H.
  - rewrite (fc_opt ft None p HE Hwe I I Hp). exact H.
  - rewrite (fc_opt ft None p HE Hwe I I Hp). exact H.
Qed.

Lemma ser_value_fixed_ws_any t v b ws : ser_value_fixed false t v = Ok b -> blen b <= i32_max -> ser_value_fixed ws t v = Ok b.
Proof.
  destruct ws; [|intros H _; exact H].
  destruct v; try (destruct t as [n| | | | | |]; cbn [ser_value_fixed]; try (intros H _; exact H);
                   try (destruct n; try (intros H _; exact H); apply finish_strengthen); fail).
  - destruct t; cbn [ser_value_fixed]; try (intros H _; exact H).
    + unfold ser_sequence. destruct (i32_max <? _); [intros H _; exact H|]. intros H Hb.
      apply rbind_ok in H as (bs & Hbs & Hf). rewrite Hbs. cbn [rbind]. apply finish_strengthen; assumption.
    + unfold ser_sequence. destruct (i32_max <? _); [intros H _; exact H|]. intros H Hb.
      apply rbind_ok in H as (bs & Hbs & Hf). rewrite Hbs. cbn [rbind]. apply finish_strengthen; assumption.
    + unfold ser_vector_fixed. destruct (negb _); [intros H _; exact H|]. intros H Hb.
      apply rbind_ok in H as (bs & Hbs & Hf). rewrite Hbs. cbn [rbind]. apply finish_strengthen; assumption.
  - destruct t; cbn [ser_value_fixed]; try (intros H _; exact H).
    unfold ser_mapping. destruct (i32_max <? _); [intros H _; exact H|]. intros H Hb.
    apply rbind_ok in H as (bs & Hbs & Hf). rewrite Hbs. cbn [rbind]. apply finish_strengthen; assumption.
  - destruct t; cbn [ser_value_fixed]; try (intros H _; exact H).
    + unfold ser_sequence. destruct (i32_max <? _); [intros H _; exact H|]. intros H Hb.
      apply rbind_ok in H as (bs & Hbs & Hf). rewrite Hbs. cbn [rbind]. apply finish_strengthen; assumption.
    + unfold ser_sequence. destruct (i32_max <? _); [intros H _; exact H|]. intros H Hb.
      apply rbind_ok in H as (bs & Hbs & Hf). rewrite Hbs. cbn [rbind]. apply finish_strengthen; assumption.
    + unfold ser_vector_fixed. destruct (negb _); [intros H _; exact H|]. intros H Hb.
      apply rbind_ok in H as (bs & Hbs & Hf). rewrite Hbs. cbn [rbind]. apply finish_strengthen; assumption.
  - destruct t; try (cbn [ser_value_fixed]; intros H _; exact H). rewrite !ser_value_fixed_udt.
    destruct (negb _); [intros H _; exact H|]. intros H Hb.
    apply rbind_ok in H as (bs & Hbs & Hf). rewrite Hbs. cbn [rbind]. apply finish_strengthen; assumption.
  - destruct t; try (cbn [ser_value_fixed]; intros H _; exact H). rewrite !ser_value_fixed_tuple.
    destruct (_ <? _)%nat; [intros H _; exact H|]. intros H Hb.
    apply rbind_ok in H as (bs & Hbs & Hf). rewrite Hbs. cbn [rbind]. apply finish_strengthen; assumption.
  - destruct t; cbn [ser_value_fixed]; try (intros H _; exact H).
    + unfold ser_sequence. destruct (i32_max <? _); [intros H _; exact H|]. intros H Hb.
      apply rbind_ok in H as (bs & Hbs & Hf). rewrite Hbs. cbn [rbind]. apply finish_strengthen; assumption.
    + unfold ser_sequence. destruct (i32_max <? _); [intros H _; exact H|]. intros H Hb.
      apply rbind_ok in H as (bs & Hbs & Hf). rewrite Hbs. cbn [rbind]. apply finish_strengthen; assumption.
    + unfold ser_vector_fixed. destruct (negb _); [intros H _; exact H|]. intros H Hb.
      apply rbind_ok in H as (bs & Hbs & Hf). rewrite Hbs. cbn [rbind]. apply finish_strengthen; assumption.
Qed.

Theorem fixed_complete_all t : FC t.
Proof.
  induction t as [n|e IH|e IH|k e IHk IHe|ts IH|ks nm fts IH|e d IH] using ctype_ind'; intros ws v b Hwt Hwf Hk H Hb;
    (destruct (cval_is_empty_dec v) as [->|Hne];
     [ rewrite ser_value_empty in H; rewrite ser_value_fixed_empty; exact H | ]).
  - rewrite ser_value_fixed_native. exact H.
  - destruct (wf_val_seq_inv _ e _ (or_introl eq_refl) Hwf Hne) as (l & Hl & Hall).
    pose proof (hole_seq _ e _ _ (or_introl eq_refl) Hl Hk) as Kc.
    apply vec_elems_inv in Hl as [-> | [-> | ->]]; cbn [ser_value ser_value_fixed] in *;
      apply (fc_seq e ws l b IH Hwt Hall Kc H).
  - destruct (wf_val_seq_inv _ e _ (or_intror eq_refl) Hwf Hne) as (l & Hl & Hall).
    pose proof (hole_seq _ e _ _ (or_intror eq_refl) Hl Hk) as Kc.
    apply vec_elems_inv in Hl as [-> | [-> | ->]]; cbn [ser_value ser_value_fixed] in *;
      apply (fc_seq e ws l b IH Hwt Hall Kc H).
  - destruct (wf_val_map_inv _ _ _ Hwf Hne) as (l & -> & Hall). cbn [ser_value ser_value_fixed] in *.
    cbn [wf_type] in Hwt. apply andb_true_iff in Hwt as [Hwk Hwe].
    unfold vector_hole in Hk. cbn [exists_sub] in Hk. apply orb_false_iff in Hk as [_ Kc].
    unfold ser_mapping in *. destruct (_ <? _); [discriminate|].
    apply rbind_ok in H as (bs & Hbs & Hf).
    assert (Hb' : ser_concat (fun kv => rbind (sub_sized (ser_value_fixed true k) (fst kv)) (fun a =>
                                        rbind (sub_sized (ser_value_fixed true e) (snd kv)) (fun b => Ok (a ++ b)))) l = Ok bs).
    { eapply ser_concat_mono; [|exact Hbs]. intros kv p Hx Hp. cbn beta in *.
      apply rbind_ok in Hp as (a & Ha & Hp). apply rbind_ok in Hp as (c & Hc & Hp).
      pose proof (forallb_In _ _ _ Hall Hx) as Hw. cbn beta in Hw. apply andb_true_iff in Hw as [Hw1 Hw2].
      pose proof (existsb_false _ _ Kc _ Hx) as Kx. cbn beta in Kx. apply orb_false_iff in Kx as [K1 K2].
      rewrite (fc_sized k _ a IHk Hwk Hw1 K1 Ha). cbn [rbind].
      rewrite (fc_sized e _ c IHe Hwe Hw2 K2 Hc). exact Hp. }
    rewrite Hb'. exact Hf.
  - destruct (wf_val_tuple_inv _ _ Hwf Hne) as (l & ->).
    rewrite ser_value_tuple in H. rewrite ser_value_fixed_tuple. destruct (_ <? _)%nat; [discriminate|].
    apply rbind_ok in H as (bs & Hbs & Hf).
    rewrite wf_val_tuple in Hwf. apply andb_true_iff in Hwf as [_ Hwl].
    unfold vector_hole in Hk. rewrite exists_sub_tuple in Hk. apply orb_false_iff in Hk as [_ Kl].
    cbn [wf_type] in Hwt. apply andb_true_iff in Hwt as [_ Hwts].
    rewrite (fc_tuple_go ts IH l bs Hwts Hwl Kl Hbs). exact Hf.
  - destruct (wf_val_udt_inv _ _ _ _ Hwf Hne) as (ks' & nm' & fields & ->).
    rewrite ser_value_udt in H. rewrite ser_value_fixed_udt. destruct (negb _); [discriminate|].
    apply rbind_ok in H as (bs & Hbs & Hf).
    rewrite wf_val_udt in Hwf. apply andb_true_iff in Hwf as [Hwf Hwl].
    apply andb_true_iff in Hwf as [Hwf _]. apply andb_true_iff in Hwf as [_ Hndv].
    unfold vector_hole in Hk. rewrite exists_sub_udt in Hk. apply orb_false_iff in Hk as [_ Kl].
    rewrite wf_type_udt in Hwt. apply andb_true_iff in Hwt as [Hwt Hwts]. apply andb_true_iff in Hwt as [_ Hnd].
    rewrite (fc_udt_go fields fts IH fields bs Hwts Hnd); [exact Hf| |exact Hwl|exact Kl|exact Hbs].
    intros n _. apply lookup_last_first_nodup. exact Hndv.
  - destruct (wf_val_vector_inv _ _ _ Hwf Hne) as (l & Hl & Hlen & Hall).
    destruct (hole_vector _ _ _ _ Hl Hk) as [Kc Kh].
    assert (HV : ser_vector ws (match type_size e with Some _ => true | None => false end) d (ser_value false e) l = Ok b ->
                 ser_vector_fixed ws (type_size e) d (ser_value_fixed true e) l = Ok b).
    { intros Hv. cbn [wf_type] in Hwt. apply andb_true_iff in Hwt as [_ Hwe].
      unfold ser_vector, ser_vector_fixed in *. destruct (negb _); [discriminate|].
      apply rbind_ok in Hv as (bs & Hbs & Hf). pose proof (finish_ok _ _ _ Hf) as [-> _].
      apply ser_concat_ok in Hbs as (ps & HF2 & ->).
      rewrite (ser_concat_of_Forall2 _ l ps); [exact Hf|].
      eapply Forall2_impl_In; [exact HF2|]. intros x p Hx Hp' Hp.
      pose proof (forallb_In _ _ _ Hall Hx) as Hwx. pose proof (existsb_false _ _ Kc _ Hx) as Kx.
      pose proof (blen_in_concat _ _ Hp') as Hle.
      destruct (type_size e) as [s|] eqn:Es.
      - specialize (Kh ltac:(congruence)).
        assert (Hxe : x <> CEmpty) by (intros ->; apply (existsb_false _ _ Kh) in Hx; discriminate Hx).
        unfold vec_fixed_elem.
        rewrite (ser_value_fixed_ws_any e x p true (IH false x p Hwe Hwx Kx Hp ltac:(lia)) ltac:(lia)). cbn [rbind].
        rewrite (fixed_size_len_h e false x p s Hwe Hwx Kx Hxe Es Hp), N.eqb_refl. reflexivity.
      - unfold vec_var_elem in *. apply rbind_ok in Hp as (q & Hq & Hp). inv Hp.
        rewrite blen_app in Hle.
        rewrite (ser_value_fixed_ws_any e x q true (IH false x q Hwe Hwx Kx Hq ltac:(lia)) ltac:(lia)). reflexivity. }
    apply vec_elems_inv in Hl as [-> | [-> | ->]]; cbn [ser_value ser_value_fixed] in *; apply HV; exact H.
Qed.

Theorem fixed_complete_cell t c b :
  wf_cell t c = true -> match c with CVal v => vector_hole t v = false | _ => True end ->
  ser_cell t c = Ok b -> ser_cell_fixed t c = Ok b.
Proof.
  intros Hwf Hk H. unfold ser_cell, ser_cell_ws, ser_cell_fixed in *. destruct c as [| |v]; try exact H.
  apply rbind_ok in H as (bv & Hbv & H). cbn [wf_cell] in Hwf. unfold wf in Hwf. apply andb_true_iff in Hwf as [Hwt Hwv].
  rewrite (fixed_complete_all t true v bv Hwt Hwv Hk Hbv (ser_sized_bound _ _ _ Hwv Hbv)). exact H.
Qed.

Lemma is_nil_app_false_inv {A} (l : list A) : is_nil l = true -> l = [].
Proof. destruct l; [reflexivity|discriminate]. Qed.

(* the three domain exclusions of [wf], for EVERY excluded value: accepted by the writer (whenever
   it answers Ok), and the reader's answer *)
Lemma outside_ascii_all v ws b :
  rust_native NAscii v = true -> domain_excl NAscii v = true ->
  ser_value ws (TNative NAscii) v = Ok b -> deser_value (TNative NAscii) b = Err DE_ExpectedAscii.
Proof.
  intros _ Hd Hs. rewrite deser_value_eq. cbn [is_string_type negb]. rewrite andb_false_r.
  destruct v; cbn [domain_excl] in Hd; try discriminate Hd; cbn [ser_value] in Hs;
    apply set_value_ok in Hs as [-> _]; cbn [deser_native]; rewrite Hd; reflexivity.
Qed.

Lemma outside_time_all v ws b :
  rust_native NTime v = true -> domain_excl NTime v = true ->
  ser_value ws (TNative NTime) v = Ok b -> deser_value (TNative NTime) b = Err DE_ValueOverflow.
Proof.
  intros Hr Hd Hs. destruct v; cbn [domain_excl rust_native] in *; try discriminate Hd.
  cbn [ser_value] in Hs. inv Hs. rewrite deser_value_eq.
  assert (is_nil (enc_signed 8 z) = false) as ->.
  { pose proof (enc_signed_length 8 z) as L. destruct (enc_signed 8 z); [discriminate L|reflexivity]. }
  cbn [andb deser_native]. rewrite exact_len_ok by apply enc_signed_length.
  rewrite (dec_enc_signed_k 8 64) by (lia || assumption).
  apply negb_true_iff in Hd. rewrite Hd. reflexivity.
Qed.

Lemma outside_varint_all v ws b :
  rust_native NVarint v = true -> domain_excl NVarint v = true ->
  ser_value ws (TNative NVarint) v = Ok b -> b = [] /\ deser_value (TNative NVarint) b = Ok CEmpty.
Proof.
  intros _ Hd Hs. destruct v; cbn [domain_excl] in Hd; try discriminate Hd.
  apply is_nil_app_false_inv in Hd. subst raw. cbn [ser_value] in Hs. apply set_value_ok in Hs as [-> _].
  split; reflexivity.
Qed.

(* ====================================================================================== *)
(* 15. The specification function computes the inductive specification relation              *)
(* ====================================================================================== *)

Lemma opt_concat_some (l : list (option bytes)) b : opt_concat l = Some b ->
  exists ps, l = map Some ps /\ b = concat ps.
Proof.
  unfold opt_concat. revert b. induction l as [|o l IH]; intros b H; cbn [fold_right] in H.
  - apply some_inj in H. subst. exists []. split; reflexivity.
  - destruct o as [x|]; [|discriminate]. destruct (fold_right _ _ l) as [a|] eqn:E; [|discriminate].
    apply some_inj in H. subst b. destruct (IH a eq_refl) as (ps & -> & ->). exists (x :: ps). split; reflexivity.
Qed.

Lemma opt_concat_map_some (ps : list bytes) : opt_concat (map Some ps) = Some (concat ps).
Proof. unfold opt_concat. induction ps as [|p ps IH]; [reflexivity|]. cbn [map fold_right concat]. rewrite IH. reflexivity. Qed.

Lemma map_eq_Forall2 {A B} (g : A -> option B) l ys : map g l = map Some ys -> Forall2 (fun x y => g x = Some y) l ys.
Proof.
  revert ys. induction l as [|x l IH]; intros ys H; destruct ys; try discriminate; constructor.
  - cbn in H. inversion H. reflexivity.
  - apply IH. cbn in H. inversion H. reflexivity.
Qed.

Lemma Forall2_map_eq {A B} (g : A -> option B) l ys : Forall2 (fun x y => g x = Some y) l ys -> map g l = map Some ys.
Proof. induction 1 as [|x y l ys H _ IH]; [reflexivity|]. cbn [map]. rewrite H, IH. reflexivity. Qed.

Lemma enc_spec_nonempty_native n v : v <> CEmpty -> enc_spec (TNative n) v = enc_native n v.
Proof. intros H. destruct v; try reflexivity. congruence. Qed.

Lemma enc_native_empty n : enc_native n CEmpty = None.
Proof. destruct n; reflexivity. Qed.

Definition ERP (t : ctype) : Prop := forall v b, enc_spec t v = Some b <-> EncR t v b.

Lemma er_seq_fwd e (l : list cval) body : ERP e ->
  opt_concat (map (fun x => option_map (fun b => spec_bytes (Some b)) (enc_spec e x)) l) = Some body ->
  exists ps, Forall2 (EncR e) l ps /\ body = concat (map (fun p => spec_bytes (Some p)) ps).
Proof.
  intros HE H. apply opt_concat_some in H as (qs & Hm & ->).
  apply map_eq_Forall2 in Hm.
  assert (exists ps, Forall2 (EncR e) l ps /\ qs = map (fun p => spec_bytes (Some p)) ps) as (ps & HF & ->).
  { induction Hm as [|x q l qs Hq _ IH]; [exists []; split; [constructor|reflexivity]|].
    destruct IH as (ps & HF & ->). destruct (enc_spec e x) as [p|] eqn:Ep; [|discriminate]. cbn in Hq.
    apply some_inj in Hq. subst q. exists (p :: ps). split; [constructor; [apply HE; exact Ep|exact HF]|reflexivity]. }
  exists ps. split; [exact HF|reflexivity].
Qed.

Lemma er_seq_bwd e (l : list cval) ps : ERP e -> Forall2 (EncR e) l ps ->
  opt_concat (map (fun x => option_map (fun b => spec_bytes (Some b)) (enc_spec e x)) l)
  = Some (concat (map (fun p => spec_bytes (Some p)) ps)).
Proof.
  intros HE HF. rewrite <- opt_concat_map_some. f_equal. rewrite map_map.
  induction HF as [|x p l ps Hp _ IH]; [reflexivity|]. cbn [map]. apply HE in Hp. rewrite Hp, IH. reflexivity.
Qed.

Lemma opt_concat_iff {A} (g : A -> option bytes) l b :
  opt_concat (map g l) = Some b <-> exists qs, Forall2 (fun x q => g x = Some q) l qs /\ b = concat qs.
Proof.
  split.
  - intros H. apply opt_concat_some in H as (qs & Hm & ->). exists qs. split; [apply map_eq_Forall2; exact Hm|reflexivity].
  - intros (qs & HF & ->). rewrite (Forall2_map_eq _ _ _ HF). apply opt_concat_map_some.
Qed.

Lemma Forall2_exists_map {A B C} (R : A -> B -> Prop) (S : A -> C -> Prop) (h : C -> B) l qs :
  Forall2 R l qs -> (forall x q, In x l -> R x q -> exists p, S x p /\ q = h p) ->
  exists ps, Forall2 S l ps /\ qs = map h ps.
Proof.
  induction 1 as [|x q l qs Hq _ IH]; intros H; [exists []; split; [constructor|reflexivity]|].
  destruct (H x q (or_introl eq_refl) Hq) as (p & Hp & ->).
  destruct (IH (fun x' q' Hx => H x' q' (or_intror Hx))) as (ps & HF & ->).
  exists (p :: ps). split; [constructor; assumption|reflexivity].
Qed.

Lemma Forall2_map_r {A B C} (R : A -> B -> Prop) (S : A -> C -> Prop) (h : C -> B) l ps :
  Forall2 S l ps -> (forall x p, In x l -> S x p -> R x (h p)) -> Forall2 R l (map h ps).
Proof.
  induction 1 as [|x p l ps Hp _ IH]; intros H; [constructor|]. cbn [map]. constructor.
  - apply H; [left; reflexivity|exact Hp].
  - apply IH. intros x' p' Hx. apply H. right. exact Hx.
Qed.

Lemma er_items ts : Forall ERP ts -> forall l b,
  enc_tuple_go enc_spec ts l = Some b <-> exists ps, EncItems ts l ps /\ b = concat ps.
Proof.
  induction 1 as [|t ts Ht HF IH]; intros l b.
  - destruct l as [|ox l]; cbn [enc_tuple_go].
    + split; [intros H; apply some_inj in H; subst; exists []; split; [constructor|reflexivity]|].
      intros (ps & Hi & ->). inversion Hi; subst. reflexivity.
    + split; [discriminate|]. intros (ps & Hi & _). inversion Hi.
  - destruct l as [|ox l]; cbn [enc_tuple_go].
    + split; [intros H; apply some_inj in H; subst; exists []; split; [constructor|reflexivity]|].
      intros (ps & Hi & ->). inversion Hi; subst. reflexivity.
    + split.
      * intros H. destruct ox as [x|].
        -- destruct (enc_spec t x) as [p|] eqn:Ep; [|discriminate]. cbn [option_map] in H.
           destruct (enc_tuple_go enc_spec ts l) as [r|] eqn:Er; [|discriminate]. apply some_inj in H. subst b.
           destruct (proj1 (IH l r) Er) as (ps & Hi & ->).
           exists (spec_bytes (Some p) :: ps). split; [constructor; [apply Ht; exact Ep|exact Hi]|reflexivity].
        -- destruct (enc_tuple_go enc_spec ts l) as [r|] eqn:Er; [|discriminate]. apply some_inj in H. subst b.
           destruct (proj1 (IH l r) Er) as (ps & Hi & ->).
           exists (spec_bytes None :: ps). split; [constructor; exact Hi|reflexivity].
      * intros (ps & Hi & ->). inversion Hi; subst;
          match goal with Hr : EncItems ts l ?q |- _ => rewrite (proj2 (IH l (concat q)) (ex_intro _ q (conj Hr eq_refl))) end.
        -- reflexivity.
        -- match goal with Hx : EncR t _ _ |- _ => apply Ht in Hx; rewrite Hx end. reflexivity.
Qed.

Lemma er_fields fields fts : Forall (fun f => ERP (snd f)) fts -> forall b,
  enc_udt_go enc_spec fields fts = Some b <-> exists ps, EncFields fields fts ps /\ b = concat ps.
Proof.
  induction 1 as [|[fname ft] fts Ht HF IH]; intros b; cbn [enc_udt_go].
  - split; [intros H; apply some_inj in H; subst; exists []; split; [constructor|reflexivity]|].
    intros (ps & Hi & ->). inversion Hi; subst. reflexivity.
  - cbn [snd] in Ht. split.
    + intros H. destruct (lookup_first fname fields) as [[x|]|] eqn:El.
      * destruct (enc_spec ft x) as [p|] eqn:Ep; [|discriminate]. cbn [option_map] in H.
        destruct (enc_udt_go enc_spec fields fts) as [r|] eqn:Er; [|discriminate]. apply some_inj in H. subst b.
        destruct (proj1 (IH r) eq_refl) as (ps & Hi & ->).
        exists (spec_bytes (Some p) :: ps). split; [eapply EF_val; [exact El|apply Ht; exact Ep|exact Hi]|reflexivity].
      * destruct (enc_udt_go enc_spec fields fts) as [r|] eqn:Er; [|discriminate]. apply some_inj in H. subst b.
        destruct (proj1 (IH r) eq_refl) as (ps & Hi & ->).
        exists (spec_bytes None :: ps). split; [apply EF_null; [right; exact El|exact Hi]|reflexivity].
      * destruct (enc_udt_go enc_spec fields fts) as [r|] eqn:Er; [|discriminate]. apply some_inj in H. subst b.
        destruct (proj1 (IH r) eq_refl) as (ps & Hi & ->).
        exists (spec_bytes None :: ps). split; [apply EF_null; [left; exact El|exact Hi]|reflexivity].
    + intros (ps & Hi & ->). inversion Hi; subst;
        match goal with Hr : EncFields fields fts ?q |- _ => rewrite (proj2 (IH (concat q)) (ex_intro _ q (conj Hr eq_refl))) end.
      * match goal with Hl : _ \/ _ |- _ => destruct Hl as [-> | ->] end; reflexivity.
      * match goal with Hl : lookup_first fname fields = _ |- _ => rewrite Hl end.
        match goal with Hx : EncR ft _ _ |- _ => apply Ht in Hx; rewrite Hx end. reflexivity.
Qed.

Lemma enc_spec_seq' t e v : (t = TList e \/ t = TSet e) -> v <> CEmpty ->
  enc_spec t v =
  match vec_elems v with
  | Some l => option_map (fun body => spec_int (Z.of_nat (List.length l)) ++ body)
                (opt_concat (map (fun x => option_map (fun b => spec_bytes (Some b)) (enc_spec e x)) l))
  | None => None
  end.
Proof. intros [-> | ->] H; destruct v; try reflexivity; congruence. Qed.

Lemma enc_spec_vector' e d v : v <> CEmpty ->
  enc_spec (TVector e d) v =
  match vec_elems v with
  | Some l =>
      if negb (N.of_nat (List.length l) =? d) then None else
      match spec_fixed_len e with
      | Some s => opt_concat (map (fun x => match enc_spec e x with
                                            | Some b => if (List.length b =? s)%nat then Some b else None
                                            | None => None
                                            end) l)
      | None => opt_concat (map (fun x => option_map (fun b => spec_uvint (blen b) ++ b) (enc_spec e x)) l)
      end
  | None => None
  end.
Proof. intros H; destruct v; try reflexivity; congruence. Qed.

Lemma encR_not_empty_cases t b : EncR t CEmpty b -> supports_empty t = true /\ b = [].
Proof.
  intros H. inversion H; subst; try (split; [assumption|reflexivity]); try discriminate.
  rewrite enc_native_empty in *. discriminate.
Qed.

Theorem enc_spec_relation t : ERP t.
Proof.
  induction t as [n|e IH|e IH|k e IHk IHe|ts IH|ks nm fts IH|e d IH] using ctype_ind'; intros v b;
    (destruct (cval_is_empty_dec v) as [->|Hne];
     [ rewrite enc_spec_empty; split;
       [ destruct (supports_empty _) eqn:Es; [intros H; apply some_inj in H; subst; constructor; exact Es|discriminate]
       | intros H; apply encR_not_empty_cases in H as [-> ->]; reflexivity ] | ]).
  - rewrite enc_spec_nonempty_native by exact Hne. split; [intros H; constructor; exact H|].
    intros H. inversion H; subst; [congruence|assumption].
  - rewrite (enc_spec_seq' _ e v (or_introl eq_refl) Hne). split.
    + destruct (vec_elems v) as [l|] eqn:El; [|discriminate]. intros H.
      destruct (opt_concat _) as [body|] eqn:Eb; [|discriminate]. apply some_inj in H. subst b.
      destruct (er_seq_fwd e l body IH Eb) as (ps & HF & ->). econstructor; eassumption.
    + intros H. inversion H; subst; [congruence|].
      match goal with Hv : vec_elems v = Some _ |- _ => rewrite Hv end.
      match goal with HF : Forall2 (EncR e) _ _ |- _ => rewrite (er_seq_bwd e _ _ IH HF) end. reflexivity.
  - rewrite (enc_spec_seq' _ e v (or_intror eq_refl) Hne). split.
    + destruct (vec_elems v) as [l|] eqn:El; [|discriminate]. intros H.
      destruct (opt_concat _) as [body|] eqn:Eb; [|discriminate]. apply some_inj in H. subst b.
      destruct (er_seq_fwd e l body IH Eb) as (ps & HF & ->). econstructor; eassumption.
    + intros H. inversion H; subst; [congruence|].
      match goal with Hv : vec_elems v = Some _ |- _ => rewrite Hv end.
      match goal with HF : Forall2 (EncR e) _ _ |- _ => rewrite (er_seq_bwd e _ _ IH HF) end. reflexivity.
  - (* map *)
    split.
    + destruct v; try (cbn [enc_spec]; discriminate); try congruence. cbn [enc_spec]. intros H.
      destruct (opt_concat _) as [body|] eqn:Eb; [|discriminate]. apply some_inj in H. subst b.
      apply opt_concat_iff in Eb as (qs & HF & ->).
      destruct (Forall2_exists_map _
                  (fun (kv : cval * cval) (p : bytes * bytes) => EncR k (fst kv) (fst p) /\ EncR e (snd kv) (snd p))
                  (fun p => spec_bytes (Some (fst p)) ++ spec_bytes (Some (snd p))) l qs HF) as (ps & HF' & ->).
      { intros kv q _ Hq. destruct (enc_spec k (fst kv)) as [a|] eqn:Ea; [|discriminate].
        destruct (enc_spec e (snd kv)) as [c|] eqn:Ec; [|discriminate]. apply some_inj in Hq. subst q.
        exists (a, c). split; [split; [apply IHk; exact Ea|apply IHe; exact Ec]|reflexivity]. }
      constructor. exact HF'.
    + intros H. inversion H; subst; [congruence|]. cbn [enc_spec].
      match goal with HF : Forall2 _ l ?ps |- _ =>
        assert (Eb : opt_concat (map (fun kv => match enc_spec k (fst kv), enc_spec e (snd kv) with
                                                | Some a, Some b => Some (spec_bytes (Some a) ++ spec_bytes (Some b))
                                                | _, _ => None end) l)
                     = Some (concat (map (fun p => spec_bytes (Some (fst p)) ++ spec_bytes (Some (snd p))) ps)))
      end.
      { apply opt_concat_iff. eexists. split; [|reflexivity]. eapply Forall2_map_r; [eassumption|].
        intros kv p _ [Ha Hc]. apply IHk in Ha. apply IHe in Hc. rewrite Ha, Hc. reflexivity. }
      rewrite Eb. reflexivity.
  - (* tuple *)
    split.
    + destruct v; try (cbn [enc_spec]; discriminate); try congruence. rewrite enc_spec_tuple. intros H.
      destruct (proj1 (er_items ts IH l b) H) as (ps & Hi & ->). constructor. exact Hi.
    + intros H. inversion H; subst; [congruence|]. rewrite enc_spec_tuple. apply (er_items ts IH).
      eexists. split; [eassumption|reflexivity].
  - (* udt *)
    split.
    + destruct v; try (cbn [enc_spec]; discriminate); try congruence. rewrite enc_spec_udt. intros H.
      destruct (negb (bytes_eqb ks0 ks && bytes_eqb nm0 nm)) eqn:En; [discriminate|].
      destruct (forallb (fun f : bytes * option cval => existsb (bytes_eqb (fst f)) (map fst fts)) fields) eqn:Ef;
        cbn [negb] in H; [|discriminate].
      apply negb_false_iff, andb_true_iff in En as [E1 E2]. apply bytes_eqb_eq in E1, E2. subst.
      destruct (proj1 (er_fields fields fts IH b) H) as (ps & Hi & ->).
      constructor; try reflexivity; [|exact Hi].
      intros f Hf. pose proof (forallb_In _ _ _ Ef Hf) as Hx. cbn beta in Hx.
      apply existsb_exists in Hx as (m & Hm & Em). apply bytes_eqb_eq in Em. subst. exact Hm.
    + intros H. inversion H; subst; [congruence|]. rewrite enc_spec_udt.
      assert (bytes_eqb ks ks && bytes_eqb nm nm = true) as -> by (apply andb_true_iff; split; apply bytes_eqb_eq; reflexivity).
      cbn [negb].
      match goal with Hin : forall f, In f ?fl -> _ |- _ =>
        assert (forallb (fun f => existsb (bytes_eqb (fst f)) (map fst fts)) fl = true) as ->
      end.
      { apply forallb_forall. intros f Hf. apply existsb_exists. exists (fst f). split; [auto|apply bytes_eqb_eq; reflexivity]. }
      cbn [negb]. apply (er_fields _ fts IH). eexists. split; [eassumption|reflexivity].
  - (* vector *)
    rewrite (enc_spec_vector' e d v Hne). split.
    + destruct (vec_elems v) as [l|] eqn:El; [|discriminate].
      destruct (N.of_nat (List.length l) =? d) eqn:Ed; cbn [negb]; [|discriminate]. apply N.eqb_eq in Ed.
      destruct (spec_fixed_len e) as [s|] eqn:Es; intros H; apply opt_concat_iff in H as (qs & HF & ->).
      * eapply ER_vector_fixed; try eassumption.
        eapply Forall2_impl_In; [exact HF|]. intros x q _ _ Hq. cbn beta in Hq.
        destruct (enc_spec e x) as [p|] eqn:Ep; [|discriminate].
        destruct (List.length p =? s)%nat eqn:El'; [|discriminate]. apply some_inj in Hq. subst q.
        split; [apply IH; exact Ep|apply Nat.eqb_eq; exact El'].
      * destruct (Forall2_exists_map _ (EncR e) (fun p => spec_uvint (blen p) ++ p) l qs HF) as (ps & HF' & ->).
        { intros x q _ Hq. destruct (enc_spec e x) as [p|] eqn:Ep; [|discriminate]. cbn in Hq.
          apply some_inj in Hq. subst q. exists p. split; [apply IH; exact Ep|reflexivity]. }
        eapply ER_vector_var; eassumption.
    + intros H. inversion H; subst; [congruence| |].
      * match goal with Hv : vec_elems v = Some _ |- _ => rewrite Hv end. rewrite N.eqb_refl. cbn [negb].
        match goal with Hs : spec_fixed_len e = _ |- _ => rewrite Hs end.
        apply opt_concat_iff. eexists. split; [|reflexivity].
        eapply Forall2_impl_In; [eassumption|]. intros x p _ _ [Hp Hl]. cbn beta.
        apply IH in Hp. rewrite Hp, Hl, Nat.eqb_refl. reflexivity.
      * match goal with Hv : vec_elems v = Some _ |- _ => rewrite Hv end. rewrite N.eqb_refl. cbn [negb].
        match goal with Hs : spec_fixed_len e = _ |- _ => rewrite Hs end.
        apply opt_concat_iff. eexists. split; [|reflexivity].
        eapply Forall2_map_r; [eassumption|]. intros x p _ Hp. cbn beta. apply IH in Hp. rewrite Hp. reflexivity.
Qed.
