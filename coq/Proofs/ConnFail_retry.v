(* The statement's clause "(and is retried elsewhere only as the retry policy allows)":
   what a torn-down connection hands to a request, seen through the retry policies of C06
   (Model/Retry.v, read-only here). *)
From SV Require Import Base.Prelude Base.Bytes Model.ConnFail Model.Retry Proofs.Retry_proofs.

(* `impl From<BrokenConnectionError> for RequestAttemptError`, `InternalRequestError::UnableToAllocStreamId`
   (connection.rs send_request / errors.rs): the attempt error a connection-level outcome becomes *)
Definition attempt_error_of (o : outcome) : option attempt_error :=
  match o with
  | Resp _ => None
  | FailBroken _ | FailChannel => Some EBrokenConnectionError
  | FailAlloc => Some EUnableToAllocStreamId
  end.

Lemma broken_attempt_error o : broken_class o = true -> attempt_error_of o = Some EBrokenConnectionError.
Proof. destruct o; cbn; intros H; try discriminate; reflexivity. Qed.

(* every policy, every session state, every consistency: a NON-idempotent request that failed
   because its connection broke is not sent again *)
Lemma retry_clause o e s cl s' d :
  broken_class o = true -> attempt_error_of o = Some e ->
  decide s (mk_ri e false cl) = (s', d) -> is_retry d = false.
Proof.
  intros Hb He Hd. rewrite (broken_attempt_error o Hb) in He. injection He as <-.
  destruct (is_retry d) eqn:Er; [|reflexivity].
  pose proof (decide_safe _ _ _ _ Hd eq_refl Er) as Hs. cbn in Hs. discriminate.
Qed.
