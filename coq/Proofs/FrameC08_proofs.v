(* C08_alloc and C08_depth for the complete decoder [decode] (= decode_frame with the model of the
   custom-type string parser). *)
From SV Require Import Base.Prelude Base.Bytes Model.FrameBase Model.FrameTypes Model.FrameResp
  Model.FrameCustom Proofs.FrameBase_proofs Proofs.FrameCost_proofs Proofs.FrameCustom_proofs.
Open Scope N_scope.

(* the frame reader: at most MAX_BODY_PREALLOCATION reserved, the body is part of the stream *)
Lemma read_frame_cost b :
  c_alloc (snd (read_frame b)) <= MAX_BODY_PREALLOCATION /\ c_depth (snd (read_frame b)) = 0 /\
  match fst (read_frame b) with
  | Ok ((_, body), _) => lenN body <= lenN b
  | Err _ => True
  end.
Proof.
  unfold read_frame, bind, map_err, read_raw.
  destruct (ntake 9 b) as [[raw rest]|] eqn:E9; cbv beta iota; [|cbn; unfold MAX_BODY_PREALLOCATION; lia].
  apply ntake_some in E9 as [-> L9].
  destruct (run parse_header raw) as [[h ?]|e]; [|cbn; unfold MAX_BODY_PREALLOCATION; lia].
  destruct (ntake (h_length h) rest) as [[body rest']|] eqn:Eb; cbn [fst snd cadd c_alloc c_depth c0];
    unfold MAX_BODY_PREALLOCATION; (split; [lia|split; [reflexivity|]]); [|exact I].
  apply ntake_some in Eb as [-> Lb]. rewrite !lenN_app. lia.
Qed.

Section Decode.
Variable decompress : bytes -> option bytes.
(* how much the negotiated codec may expand a body (1 without compression) *)
Variable R : N.
Hypothesis R_pos : 1 <= R.
Hypothesis expansion : forall b d, decompress b = Some d -> lenN d <= R * lenN b.

Lemma decode_costs ft v2 cmp stream :
  c_alloc (snd (decode decompress ft v2 cmp stream)) <= alloc_bound (R * lenN stream) /\
  c_depth (snd (decode decompress ft v2 cmp stream)) <= DEPTH_LIMIT.
Proof.
  unfold decode, decode_frame, alloc_bound, ALLOC_K.
  pose proof (read_frame_cost stream) as (FA & FD & FB). pose proof KERR_value as KV.
  unfold ALLOC_C, MAX_BODY_PREALLOCATION in *.
  assert (L0 : lenN stream <= R * lenN stream) by nia.
  destruct (read_frame stream) as [[[[h body] rest]|e] c]; cbn [fst snd] in *;
    [|unfold DEPTH_LIMIT; split; lia].
  set (bd' := if bit (h_flags h) 1
              then if cmp then match decompress body with Some d => Ok d | None => Err EDecompress end
                   else Err ENoCompression
              else Ok body).
  assert (Hbd : match bd' with Ok bd => lenN bd <= R * lenN stream | Err _ => True end).
  { unfold bd'. destruct (bit (h_flags h) 1); [|lia]. destruct cmp; [|exact I].
    destruct (decompress body) as [d|] eqn:Ed; [|exact I]. pose proof (expansion _ _ Ed).
    assert (R * lenN body <= R * lenN stream) by (apply N.mul_le_mono_l; exact FB). lia. }
  destruct bd' as [bd|e]; cbn [snd]; [|unfold DEPTH_LIMIT; split; lia].
  pose proof (AB_deser_extensions (h_flags h) bd) as X.
  destruct (deser_extensions (h_flags h) bd) as [[[x bd1]|e1] c1]; cbn [snd cadd c_alloc c_depth].
  2:{ rewrite KV in X. unfold MAX_BODY_PREALLOCATION, ALLOC_C in *. split; lia. }
  pose proof (AB_deser_response parse_custom parse_custom_depth ft v2 (h_opcode h) bd1) as Y.
  assert (lenN bd1 <= lenN bd) by (unfold KOK in X; lia).
  destruct (deser_response parse_custom ft v2 (h_opcode h) bd1) as [[[rr bd2]|e2] c2];
    cbn [snd cadd c_alloc c_depth]; try rewrite KV in Y; unfold KOK, MAX_BODY_PREALLOCATION, ALLOC_C in *; split; lia.
Qed.

Lemma decode_alloc_bound ft v2 cmp stream :
  c_alloc (snd (decode decompress ft v2 cmp stream)) <= alloc_bound (R * lenN stream).
Proof. apply decode_costs. Qed.
Lemma decode_depth_bound ft v2 cmp stream :
  c_depth (snd (decode decompress ft v2 cmp stream)) <= DEPTH_LIMIT.
Proof. apply decode_costs. Qed.
End Decode.

(* without a negotiated codec the bound is in the length of the stream itself *)
Lemma decode_alloc_bound_plain decompress ft v2 stream :
  c_alloc (snd (decode decompress ft v2 false stream)) <= alloc_bound (lenN stream).
Proof.
  pose proof (decode_costs (fun _ => None) 1 ltac:(lia) ltac:(discriminate) ft v2 false stream) as [H _].
  rewrite N.mul_1_l in H.
  assert (E : decode decompress ft v2 false stream = decode (fun _ => None) ft v2 false stream).
  { unfold decode, decode_frame. destruct (read_frame stream) as [[[[h body] rest]|e] c]; [|reflexivity].
    destruct (bit (h_flags h) 1); reflexivity. }
  rewrite E. exact H.
Qed.

(* the depth bound needs nothing about the codec *)
Lemma decode_depth decompress ft v2 cmp stream :
  c_depth (snd (decode decompress ft v2 cmp stream)) <= DEPTH_LIMIT.
Proof.
  unfold decode, decode_frame. pose proof (read_frame_cost stream) as (_ & FD & _).
  destruct (read_frame stream) as [[[[h body] rest]|e] c]; cbn [fst snd] in *; [|unfold DEPTH_LIMIT; lia].
  destruct (if bit (h_flags h) 1
            then if cmp then match decompress body with Some d => Ok d | None => Err EDecompress end
                 else Err ENoCompression
            else Ok body) as [bd|e]; cbn [snd]; [|unfold DEPTH_LIMIT; lia].
  pose proof (AB_deser_extensions (h_flags h) bd) as X.
  destruct (deser_extensions (h_flags h) bd) as [[[x bd1]|e1] c1]; cbn [snd cadd c_alloc c_depth]; [|lia].
  pose proof (AB_deser_response parse_custom parse_custom_depth ft v2 (h_opcode h) bd1) as Y.
  destruct (deser_response parse_custom ft v2 (h_opcode h) bd1) as [[[rr bd2]|e2] c2];
    cbn [snd cadd c_alloc c_depth]; lia.
Qed.

(* the stack predicted for any input stays below a quarter of the 2 MiB stack *)
Lemma decode_stack decompress ft v2 cmp stream :
  stack_bound (snd (decode decompress ft v2 cmp stream)) <= STACK_LIMIT /\ STACK_LIMIT < 2 ^ 19.
Proof.
  split; [|vm_compute; reflexivity].
  unfold stack_bound, STACK_LIMIT. pose proof (decode_depth decompress ft v2 cmp stream) as D.
  apply N.add_le_mono_l. apply N.mul_le_mono_l. exact D.
Qed.
