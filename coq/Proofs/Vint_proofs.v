(* Proofs about Model/Vint.v (property C01): zig-zag, byte-count formula, encoder = specification,
   decode . encode = id for every u64 / i64. *)
From SV Require Import Base.Prelude Base.Bytes Model.Vint.
Open Scope N_scope.

(* ---------- big-endian helpers ---------- *)
Lemma be_enc_congr k v w : v mod 256 ^ N.of_nat k = w mod 256 ^ N.of_nat k -> be_enc k v = be_enc k w.
Proof.
  revert v w; induction k as [|k IH]; intros v w H; [reflexivity|].
  cbn [be_enc]. rewrite pow256_succ in H.
  assert (HP : 256 ^ N.of_nat k <> 0) by (apply N.pow_nonzero; discriminate).
  rewrite !N.mod_mul_r in H by (discriminate || assumption).
  pose proof (N.mod_lt v 256 ltac:(discriminate)) as Hv.
  pose proof (N.mod_lt w 256 ltac:(discriminate)) as Hw.
  set (a := v mod 256) in *. set (b := w mod 256) in *.
  set (x := (v / 256) mod 256 ^ N.of_nat k) in *. set (y := (w / 256) mod 256 ^ N.of_nat k) in *.
  assert (a = b /\ x = y) as [E1 E2] by lia.
  rewrite (IH _ _ E2), E1. reflexivity.
Qed.

Lemma be_enc_mod k v : be_enc k (v mod 256 ^ N.of_nat k) = be_enc k v.
Proof. apply be_enc_congr. apply N.mod_mod. apply N.pow_nonzero. discriminate. Qed.

Lemma be_enc_cons k v : be_enc (S k) v = (v / 256 ^ N.of_nat k) mod 256 :: be_enc k v.
Proof.
  revert v; induction k as [|k IH]; intros v.
  - cbn [be_enc]. simpl N.of_nat. rewrite N.pow_0_r, N.div_1_r. reflexivity.
  - change (be_enc (S (S k)) v) with (be_enc (S k) (v / 256) ++ [v mod 256]).
    rewrite IH. cbn [be_enc app]. rewrite pow256_succ.
    rewrite N.div_div by (discriminate || (apply N.pow_nonzero; discriminate)).
    reflexivity.
Qed.

(* ---------- zig-zag ---------- *)
Lemma zigzag_spec z : (- 2 ^ 63 <= z < 2 ^ 63)%Z -> zigzag_encode z = spec_zigzag z.
Proof.
  intros Hz. unfold zigzag_encode, spec_zigzag, shl1_i64, wrap_bits, to_signed.
  change (Z.of_N 64) with 64%Z. change (2 ^ (64 - 1)) with 9223372036854775808.
  rewrite Z.shiftr_div_pow2 by lia.
  destruct (z <? 0)%Z eqn:E.
  - apply Z.ltb_lt in E.
    replace (z / 2 ^ 63)%Z with (-1)%Z by lia.
    rewrite Z.lxor_m1_l.
    assert (H2 : ((2 * z) mod 2 ^ 64 = 2 * z + 2 ^ 64)%Z) by lia.
    rewrite H2.
    destruct (Z.to_N (2 * z + 2 ^ 64) <? 9223372036854775808) eqn:E2; rewrite Z2N.id by lia; unfold Z.lnot, Z.pred; lia.
  - apply Z.ltb_ge in E.
    replace (z / 2 ^ 63)%Z with 0%Z by lia.
    rewrite Z.lxor_0_l.
    rewrite (Z.mod_small (2 * z)) by lia.
    destruct (Z.to_N (2 * z) <? 9223372036854775808) eqn:E2; rewrite Z2N.id by lia; lia.
Qed.

Lemma zigzag_lt z : zigzag_encode z < 2 ^ 64.
Proof.
  unfold zigzag_encode, wrap_bits. change (Z.of_N 64) with 64%Z.
  set (x := Z.lxor _ _). pose proof (Z.mod_pos_bound x (2 ^ 64) ltac:(lia)). lia.
Qed.

Lemma zigzag_roundtrip z : (- 2 ^ 63 <= z < 2 ^ 63)%Z -> zigzag_decode (zigzag_encode z) = z.
Proof.
  intros Hz. rewrite zigzag_spec by assumption. unfold spec_zigzag, zigzag_decode.
  destruct (z <? 0)%Z eqn:E.
  - apply Z.ltb_lt in E.
    replace (Z.to_N (-2 * z - 1) / 2) with (Z.to_N (- z - 1)) by lia.
    replace (Z.to_N (-2 * z - 1) mod 2) with 1 by lia.
    change (- Z.of_N 1)%Z with (-1)%Z. rewrite Z.lxor_m1_r. unfold Z.lnot. lia.
  - apply Z.ltb_ge in E.
    replace (Z.to_N (2 * z) / 2) with (Z.to_N z) by lia.
    replace (Z.to_N (2 * z) mod 2) with 0 by lia.
    change (- Z.of_N 0)%Z with 0%Z. rewrite Z.lxor_0_r. lia.
Qed.

(* ---------- number of bytes: the code's formula against the magnitude thresholds ---------- *)
Lemma lz64_pos n : 0 < n -> n < 2 ^ 64 -> lz64 n = 63 - N.log2 n /\ N.log2 n <= 63.
Proof.
  intros Hp Hn. unfold lz64. destruct (n =? 0) eqn:E; [apply N.eqb_eq in E; lia|].
  split; [reflexivity|]. apply N.log2_lt_pow2 in Hn; lia.
Qed.

Lemma uvint_nbytes_log2 n : 0 < n -> n < 2 ^ 64 ->
  uvint_nbytes n = if N.log2 n <? 56 then N.log2 n / 7 + 1 else 9.
Proof.
  intros Hp Hn. unfold uvint_nbytes. destruct (lz64_pos n Hp Hn) as [-> Hl].
  set (l := N.log2 n) in *. destruct (l <? 56) eqn:E; lia.
Qed.

Lemma spec_uvint_len_log2 n : 0 < n -> n < 2 ^ 64 ->
  spec_uvint_len n = if N.log2 n <? 56 then N.log2 n / 7 + 1 else 9.
Proof.
  intros Hp Hn. unfold spec_uvint_len.
  pose proof (fun b => N.log2_lt_pow2 n b Hp) as HL.
  set (l := N.log2 n) in *.
  repeat match goal with
  | |- (if n <? 2 ^ ?k then _ else _) = _ =>
      let E := fresh "E" in
      destruct (n <? 2 ^ k) eqn:E;
      [apply N.ltb_lt, HL in E; destruct (l <? 56) eqn:E56; lia
      | apply N.ltb_ge in E; assert (~ l < k) by (intros C; apply HL in C; lia); clear E]
  end.
  destruct (l <? 56) eqn:E56; lia.
Qed.

(* C01_vint_len: the byte count `(639 - 9*lz) >> 6` (at least 1) is the threshold table *)
Lemma uvint_nbytes_spec n : n < 2 ^ 64 -> N.max 1 (uvint_nbytes n) = spec_uvint_len n.
Proof.
  intros Hn. destruct (N.eq_dec n 0) as [->|Hz]; [reflexivity|].
  rewrite uvint_nbytes_log2, spec_uvint_len_log2 by lia.
  destruct (N.log2 n <? 56); lia.
Qed.

Lemma spec_uvint_len_range n : 1 <= spec_uvint_len n <= 9.
Proof. unfold spec_uvint_len. repeat match goal with |- context [if ?c then _ else _] => destruct c end; lia. Qed.

(* magnitude of n in terms of its length class *)
Lemma spec_uvint_len_bound n k : spec_uvint_len n = k -> k <= 8 -> n < 2 ^ (7 * k).
Proof.
  unfold spec_uvint_len.
  repeat match goal with
  | |- (if n <? ?c then _ else _) = _ -> _ =>
      let E := fresh "E" in destruct (n <? c) eqn:E;
      [apply N.ltb_lt in E; intros <- _; exact E | clear E]
  end.
  intros <- Hk. lia.
Qed.

(* ---------- N.lor of disjoint bit ranges is addition ---------- *)
Lemma lor_disjoint a c m : a < 2 ^ m -> N.lor a (c * 2 ^ m) = a + c * 2 ^ m.
Proof.
  intros Ha.
  assert (HL : N.land a (c * 2 ^ m) = 0).
  { apply N.bits_inj_0. intros i. rewrite N.land_spec.
    destruct (N.lt_ge_cases i m) as [Hi|Hi].
    - rewrite (N.mul_pow2_bits_low c m i Hi). apply andb_false_r.
    - assert (N.testbit a i = false) as ->; [|reflexivity].
      destruct (N.eq_dec a 0) as [->|Hz]; [apply N.bits_0|].
      apply N.bits_above_log2. apply N.log2_lt_pow2 in Ha; lia. }
  rewrite <- N.lxor_lor by exact HL. symmetry. apply N.add_nocarry_lxor. exact HL.
Qed.

(* ---------- the encoder is the specified one ---------- *)
Lemma uvint_encode_spec n : n < 2 ^ 64 -> uvint_encode n = spec_uvint n.
Proof.
  intros Hn. pose proof (uvint_nbytes_spec n Hn) as HS.
  pose proof (spec_uvint_len_range n) as HR.
  unfold uvint_encode, spec_uvint.
  set (nb := uvint_nbytes n) in *. set (k := spec_uvint_len n) in *.
  destruct (nb <=? 1) eqn:E1.
  - apply N.leb_le in E1. assert (k = 1) as Hk by lia.
    pose proof (spec_uvint_len_bound n k eq_refl ltac:(lia)) as Hb. rewrite Hk in *.
    change (1 <=? 8) with true. cbv iota. simpl N.to_nat. cbn [be_enc app].
    f_equal. change ((256 - 2 ^ (9 - 1)) * 256 ^ (1 - 1)) with 0. rewrite N.add_0_l. reflexivity.
  - apply N.leb_gt in E1. assert (nb = k) as Hnb by lia. rewrite Hnb in *. clear Hnb HS.
    destruct (k =? 9) eqn:E9.
    + apply N.eqb_eq in E9. rewrite E9. reflexivity.
    + apply N.eqb_neq in E9. cbv [negb].
      assert (Hk8 : k <= 8) by lia. apply N.leb_le in Hk8 as Hk8b. rewrite Hk8b.
      pose proof (spec_uvint_len_bound n k eq_refl Hk8) as Hb.
      apply be_enc_congr. rewrite N2Nat.id.
      assert (k = 2 \/ k = 3 \/ k = 4 \/ k = 5 \/ k = 6 \/ k = 7 \/ k = 8) as Hc by lia.
      clearbody k. clear - Hb Hc Hn.
      destruct Hc as [->|[->|[->|[->|[->|[->| ->]]]]]];
      match goal with
      | Hb : ?x < 2 ^ (7 * ?k) |- (N.lor ?x (uvint_mask ?e)) mod (256 ^ ?kk) = (?A + ?x) mod _ =>
          let m := eval vm_compute in (uvint_mask e) in
          let p := eval vm_compute in (2 ^ (7 * k)) in
          let c := eval vm_compute in (m / p) in
          let a := eval vm_compute in A in
          let q := eval vm_compute in (256 ^ kk) in
          let HL := fresh "HL" in
          assert (HL : N.lor x (uvint_mask e) = x + m)
            by (change (uvint_mask e) with (c * 2 ^ (7 * k)); rewrite (lor_disjoint x c (7 * k) Hb);
                change (c * 2 ^ (7 * k)) with m; reflexivity);
          rewrite HL; change A with a; change (256 ^ kk) with q;
          change (2 ^ (7 * k)) with p in Hb; lia
      end.
Qed.

(* ---------- decoding the specified encoding ---------- *)
Lemma leading_ones8_in j b : j <= 7 -> 256 - 2 ^ (8 - j) <= b -> b < 256 - 2 ^ (7 - j) -> leading_ones8 b = j.
Proof.
  intros Hj. assert (j = 0 \/ j = 1 \/ j = 2 \/ j = 3 \/ j = 4 \/ j = 5 \/ j = 6 \/ j = 7) as Hc by lia.
  destruct Hc as [->|[->|[->|[->|[->|[->|[->| ->]]]]]]]; vm_compute (256 - 2 ^ _); intros H1 H2;
  unfold leading_ones8;
  repeat match goal with |- context [b <? ?c] => destruct (N.ltb_spec b c); try lia end.
Qed.

Lemma uvint_decode_spec9 n r : n < 2 ^ 64 -> spec_uvint_len n <=? 8 = false ->
  uvint_decode ((255 :: be_enc 8 n) ++ r) = Some (n, r).
Proof.
  intros Hn E8.
  cbn [app]. unfold uvint_decode.
  replace (leading_ones8 255) with 8 by (vm_compute; reflexivity).
  replace (8 =? 8) with true by reflexivity. replace (8 =? 0) with false by reflexivity. cbv [negb]. cbv iota.
  replace (N.to_nat 8) with 8%nat by reflexivity.
  rewrite (take_app 8 (be_enc 8 n) r (be_enc_length 8 n)). rewrite be_dec_enc.
  replace (256 ^ N.of_nat 8) with (2 ^ 64) by (vm_compute; reflexivity). rewrite N.mod_small by exact Hn. reflexivity.
Qed.

Lemma uvint_decode_cons first x r j :
  leading_ones8 first = N.of_nat j -> (j < 8)%nat -> List.length x = j ->
  uvint_decode (first :: x ++ r) =
  Some ((first mod 2 ^ (8 - N.of_nat j)) * 2 ^ (8 * N.of_nat j) + (if (j =? 0)%nat then 0 else be_dec x), r).
Proof.
  intros HL Hj Hx. unfold uvint_decode. rewrite HL.
  destruct (N.of_nat j =? 8) eqn:E8; [apply N.eqb_eq in E8; lia|]. cbv [negb].
  destruct (N.of_nat j =? 0) eqn:E0.
  - apply N.eqb_eq in E0. assert (j = 0)%nat by lia. subst j.
    destruct x; [|discriminate]. cbn [app Nat.eqb]. rewrite N.add_0_r. reflexivity.
  - apply N.eqb_neq in E0. destruct (j =? 0)%nat eqn:En; [apply Nat.eqb_eq in En; lia|].
    rewrite Nat2N.id. rewrite (take_app j x r Hx). reflexivity.
Qed.

Lemma uvint_decode_spec8 n r : n < 2 ^ 64 -> spec_uvint_len n <=? 8 = true ->
  uvint_decode (be_enc (N.to_nat (spec_uvint_len n))
       ((256 - 2 ^ (9 - spec_uvint_len n)) * 256 ^ (spec_uvint_len n - 1) + n) ++ r) = Some (n, r).
Proof.
  intros Hn E8. pose proof (spec_uvint_len_range n) as HR.
  apply N.leb_le in E8.
  pose proof (spec_uvint_len_bound n _ eq_refl E8) as Hb.
  set (k := spec_uvint_len n) in *.
  assert (k = 1 \/ k = 2 \/ k = 3 \/ k = 4 \/ k = 5 \/ k = 6 \/ k = 7 \/ k = 8) as Hc by lia.
  clearbody k. clear HR E8.
  destruct Hc as [->|[->|[->|[->|[->|[->|[->| ->]]]]]]];
  match goal with
  | Hb : n < 2 ^ (7 * ?k) |- uvint_decode (be_enc (N.to_nat ?k) (?A + n) ++ r) = _ =>
      let p := eval vm_compute in (2 ^ (7 * k)) in
      let a := eval vm_compute in A in
      let j := eval vm_compute in (N.to_nat (k - 1)) in
      let jn := eval vm_compute in (k - 1) in
      let q := eval vm_compute in (256 ^ (k - 1)) in
      replace (2 ^ (7 * k)) with p in Hb by (vm_compute; reflexivity);
      replace A with a by (vm_compute; reflexivity);
      replace (N.to_nat k) with (S j) by (vm_compute; reflexivity);
      rewrite (be_enc_cons j);
      replace (256 ^ N.of_nat j) with q by (vm_compute; reflexivity);
      rewrite <- app_comm_cons;
      let lo := eval vm_compute in (256 - 2 ^ (8 - jn)) in
      let hi := eval vm_compute in (256 - 2 ^ (7 - jn)) in
      assert (HL : leading_ones8 (((a + n) / q) mod 256) = N.of_nat j)
        by (replace (N.of_nat j) with jn by (vm_compute; reflexivity);
            apply leading_ones8_in;
            [lia | change (256 - 2 ^ (8 - jn)) with lo; lia | change (256 - 2 ^ (7 - jn)) with hi; lia]);
      rewrite (uvint_decode_cons _ (be_enc j (a + n)) r j HL ltac:(lia) (be_enc_length j (a + n)));
      replace (N.of_nat j) with jn by (vm_compute; reflexivity);
      let e := eval vm_compute in (2 ^ (8 - jn)) in replace (2 ^ (8 - jn)) with e by (vm_compute; reflexivity);
      let f := eval vm_compute in (2 ^ (8 * jn)) in replace (2 ^ (8 * jn)) with f by (vm_compute; reflexivity);
      let z := eval vm_compute in (j =? 0)%nat in replace (j =? 0)%nat with z by (vm_compute; reflexivity);
      cbv iota;
      rewrite ?be_dec_enc; replace (256 ^ N.of_nat j) with q by (vm_compute; reflexivity);
      f_equal; f_equal; lia
  end.
Qed.

Lemma uvint_decode_spec n r : n < 2 ^ 64 -> uvint_decode (spec_uvint n ++ r) = Some (n, r).
Proof.
  intros Hn. unfold spec_uvint.
  destruct (spec_uvint_len n <=? 8) eqn:E8.
  - apply uvint_decode_spec8; assumption.
  - apply uvint_decode_spec9; assumption.
Qed.

(* C01_vint_roundtrip *)
Theorem uvint_roundtrip n r : n < 2 ^ 64 -> uvint_decode (uvint_encode n ++ r) = Some (n, r).
Proof. intros Hn. rewrite uvint_encode_spec by exact Hn. apply uvint_decode_spec. exact Hn. Qed.

Theorem vint_roundtrip z r : (- 2 ^ 63 <= z < 2 ^ 63)%Z -> vint_decode (vint_encode z ++ r) = Some (z, r).
Proof.
  intros Hz. unfold vint_decode, vint_encode.
  rewrite uvint_roundtrip by apply zigzag_lt. rewrite zigzag_roundtrip by exact Hz. reflexivity.
Qed.

Lemma vint_encode_spec z : (- 2 ^ 63 <= z < 2 ^ 63)%Z -> vint_encode z = spec_vint z.
Proof.
  intros Hz. unfold vint_encode, spec_vint. rewrite uvint_encode_spec by apply zigzag_lt.
  rewrite zigzag_spec by exact Hz. reflexivity.
Qed.

Lemma spec_uvint_length n : (1 <= List.length (spec_uvint n) <= 9)%nat.
Proof.
  unfold spec_uvint. pose proof (spec_uvint_len_range n).
  destruct (spec_uvint_len n <=? 8) eqn:E.
  - rewrite be_enc_length. apply N.leb_le in E. lia.
  - cbn [List.length]. rewrite be_enc_length. lia.
Qed.

Lemma uvint_encode_nonnil n : n < 2 ^ 64 -> uvint_encode n <> [].
Proof.
  intros Hn E. pose proof (spec_uvint_length n) as H. rewrite <- uvint_encode_spec in H by exact Hn.
  rewrite E in H. cbn in H. lia.
Qed.

Lemma zigzag_all : forall z, (- 2 ^ 63 <= z < 2 ^ 63)%Z ->
  zigzag_encode z = spec_zigzag z /\ zigzag_encode z < 2 ^ 64 /\ zigzag_decode (zigzag_encode z) = z.
Proof.
  intros z H. split; [exact (zigzag_spec z H)|]. split; [exact (zigzag_lt z)|exact (zigzag_roundtrip z H)].
Qed.
