(* Proofs about Model/ClusterLoop.v (property C19). *)
From SV Require Import Base.Prelude Model.Sched Model.MetaUpdate Model.ClusterLoop Proofs.MetaUpdate_proofs.
From Coq Require Import Permutation.
Open Scope N_scope.

Record WInv (s : wstate) : Prop := mkWInv {
  wi_use : Permutation (w_use_answered s ++ w_tasks s ++ w_inbox s) (w_use_requested s);
  wi_refresh : w_refresh_answered s ++ applying_responses s ++ responses_slot (w_slot s) = w_refresh_requested s
}.

Lemma winv_init : WInv w_init.
Proof. constructor; cbn; [constructor|reflexivity]. Qed.

Lemma remove_first_perm x l r : remove_first x l = Some r -> Permutation l (x :: r).
Proof.
  revert r; induction l as [|y l IH]; intros r H; cbn [remove_first] in H; [discriminate|].
  destruct (N.eqb_spec x y) as [->|Hne].
  - injection H as <-. apply Permutation_refl.
  - destruct (remove_first x l) as [r'|]; [|discriminate]. injection H as <-.
    eapply Permutation_trans; [apply perm_skip; apply IH; reflexivity|apply perm_swap].
Qed.

Lemma wstep_merge s o : is_take o = false ->
  wstep s (LMerge o) =
  Some (mkW (w_inbox s) (h_slot (apply_mop (w_version s) o (mkH (w_slot s) []))) (w_phase s) (w_tasks s) (w_used_ks s)
            (w_version s + 1) (w_published s) (w_use_requested s) (w_use_answered s) (w_refresh_answered s)
            (w_refresh_requested s ++ requested (w_version s) [o])).
Proof. destruct o; try discriminate; reflexivity. Qed.

Lemma winv_step s lb s' : WInv s -> wstep s lb = Some s' -> WInv s'.
Proof.
  intros [Hu Hr] Hs. destruct s as [ib sl ph tk uk ver pub ur ua ra rr].
  unfold applying_responses in *. cbn [w_inbox w_slot w_phase w_tasks w_used_ks w_version w_published
    w_use_requested w_use_answered w_refresh_answered w_refresh_requested] in *.
  destruct lb as [id|o| | | |id];
    cbn [wstep w_inbox w_slot w_phase w_tasks w_used_ks w_version w_published
         w_use_requested w_use_answered w_refresh_answered w_refresh_requested] in Hs.
  - injection Hs as <-. constructor; cbn; [|exact Hr].
    rewrite !app_assoc. apply Permutation_app_tail. rewrite <- !app_assoc. exact Hu.
  - destruct (is_take o) eqn:Et; [destruct o; discriminate|].
    pose proof (responses_hom ver o (mkH sl []) Et) as Hh. cbn [h_slot] in Hh.
    change (wstep (mkW ib sl ph tk uk ver pub ur ua ra rr) (LMerge o) = Some s') in Hs.
    rewrite (wstep_merge _ o Et) in Hs. injection Hs as <-.
    constructor; unfold applying_responses; cbn [w_use_answered w_tasks w_inbox w_use_requested
      w_refresh_answered w_slot w_phase w_refresh_requested w_version]; [exact Hu|].
    rewrite Hh, <- Hr, <- !app_assoc. reflexivity.
  - destruct ph; try discriminate. destruct ib as [|id r]; try discriminate. injection Hs as <-.
    constructor; cbn; [|exact Hr]. rewrite <- app_assoc. cbn [app]. exact Hu.
  - destruct ph; try discriminate. destruct sl as [u|]; try discriminate. injection Hs as <-.
    constructor; cbn; [exact Hu|]. cbn in Hr. rewrite app_nil_r. exact Hr.
  - destruct ph as [|u]; try discriminate. injection Hs as <-.
    constructor; cbn; [exact Hu|]. rewrite <- app_assoc. exact Hr.
  - destruct (remove_first id tk) as [r|] eqn:E; [|discriminate]. injection Hs as <-.
    constructor; cbn; [|exact Hr].
    apply remove_first_perm in E. eapply Permutation_trans; [|exact Hu].
    rewrite <- app_assoc. apply Permutation_app_head. cbn [app].
    apply Permutation_sym. eapply Permutation_trans; [apply Permutation_app_tail; exact E|]. reflexivity.
Qed.

Lemma winv_reachable s : reachable wstep w_init s -> WInv s.
Proof. apply (invariant_reachable _ _ wstep WInv w_init); [apply winv_init|apply winv_step]. Qed.

(* no deadlock: as long as anything is owed, a worker or task step is enabled ... *)
Lemma worker_enabled s : (0 < owed s)%nat ->
  exists lb s', is_worker_label lb = true /\ wstep s lb = Some s'.
Proof.
  destruct s as [ib sl ph tk uk ver pub ur ua ra rr]. unfold owed. cbn.
  destruct ph as [|u].
  - destruct ib as [|id r].
    + destruct sl as [u|].
      * intros _. exists LSelectUpdate. eexists. split; reflexivity.
      * destruct tk as [|id tk]; [cbn; lia|]. intros _. exists (LTaskDone id). eexists. split; [reflexivity|].
        cbn. rewrite N.eqb_refl. reflexivity.
    + intros _. exists LSelectUse. eexists. split; reflexivity.
  - intros _. exists LFinishApply. eexists. split; reflexivity.
Qed.

(* ... and every worker or task step strictly decreases what is owed *)
Lemma remove_first_length x l r : remove_first x l = Some r -> List.length l = S (List.length r).
Proof.
  revert r; induction l as [|y l IH]; intros r H; cbn [remove_first] in H; [discriminate|].
  destruct (x =? y); [injection H as <-; reflexivity|].
  destruct (remove_first x l) as [r'|]; [|discriminate]. injection H as <-. cbn. rewrite (IH r' eq_refl). reflexivity.
Qed.

Lemma worker_step_decreases s lb s' : is_worker_label lb = true -> wstep s lb = Some s' -> (owed s' < owed s)%nat.
Proof.
  destruct s as [ib sl ph tk uk ver pub ur ua ra rr]. destruct lb as [id|o| | | |id]; cbn; try discriminate; intros _.
  - destruct ph; try discriminate. destruct ib as [|id r]; try discriminate. intros H; injection H as <-.
    unfold owed; cbn. rewrite app_length. cbn. lia.
  - destruct ph; try discriminate. destruct sl as [u|]; try discriminate. intros H; injection H as <-.
    unfold owed; cbn. lia.
  - destruct ph as [|u]; try discriminate. intros H; injection H as <-. unfold owed; cbn. destruct sl; lia.
  - destruct (remove_first id tk) as [r|] eqn:E; [|discriminate]. intros H; injection H as <-.
    apply remove_first_length in E. unfold owed; cbn. lia.
Qed.

(* once nothing is owed, every request made has been answered exactly once *)
Lemma all_answered s : reachable wstep w_init s -> owed s = O ->
  Permutation (w_use_answered s) (w_use_requested s) /\ w_refresh_answered s = w_refresh_requested s.
Proof.
  intros Hr Ho. destruct (winv_reachable s Hr) as [Hu Hf].
  destruct s as [ib sl ph tk uk ver pub ur ua ra rr]. unfold owed, applying_responses in *. cbn in *.
  destruct ph; [|lia]. destruct sl; [lia|]. destruct ib; [|cbn in Ho; lia]. destruct tk; [|cbn in Ho; lia].
  cbn in *. rewrite !app_nil_r in *. split; assumption.
Qed.

(* ---- eventual answer, under the assumptions built into the labels: the awaits inside
   apply_metadata_update and inside a use_keyspace task terminate (LFinishApply / LTaskDone are
   always enabled), and the environment makes no further requests meanwhile ---- *)

(* every run of worker/task steps is at most [owed] long ... *)
Lemma worker_run_bounded ls : forall s s', forallb is_worker_label ls = true -> run wstep s ls = Some s' ->
  (List.length ls + owed s' <= owed s)%nat.
Proof.
  induction ls as [|lb ls IH]; intros s s' Hw Hr; cbn [run] in Hr.
  - injection Hr as <-. cbn. lia.
  - cbn [forallb] in Hw. apply andb_true_iff in Hw as [Hw1 Hw2].
    destruct (wstep s lb) as [s1|] eqn:E; [|discriminate].
    pose proof (worker_step_decreases _ _ _ Hw1 E). specialize (IH _ _ Hw2 Hr). cbn [List.length]. lia.
Qed.

(* ... and there is one that answers everything that was requested *)
Lemma worker_drain_exists n : forall s, (owed s <= n)%nat ->
  exists ls s', forallb is_worker_label ls = true /\ run wstep s ls = Some s' /\ owed s' = O.
Proof.
  induction n as [|n IH]; intros s Ho.
  - exists [], s. split; [reflexivity|]. split; [reflexivity|lia].
  - destruct (Nat.eq_dec (owed s) O) as [E|E].
    + exists [], s. split; [reflexivity|]. split; [reflexivity|exact E].
    + destruct (worker_enabled s ltac:(lia)) as (lb & s1 & Hl & Hs).
      pose proof (worker_step_decreases _ _ _ Hl Hs).
      destruct (IH s1 ltac:(lia)) as (ls & s' & Hw & Hr & Hz).
      exists (lb :: ls), s'. split; [cbn; rewrite Hl, Hw; reflexivity|]. split; [|exact Hz].
      cbn [run]. rewrite Hs. exact Hr.
Qed.

Lemma loop_eventually s : reachable wstep w_init s ->
  exists ls s', forallb is_worker_label ls = true /\ run wstep s ls = Some s' /\ (List.length ls <= owed s)%nat /\
    Permutation (w_use_answered s') (w_use_requested s) /\ w_refresh_answered s' = w_refresh_requested s.
Proof.
  intros Hr. destruct (worker_drain_exists (owed s) s (Nat.le_refl _)) as (ls & s' & Hw & Hrun & Hz).
  exists ls, s'. split; [exact Hw|]. split; [exact Hrun|].
  pose proof (worker_run_bounded ls s s' Hw Hrun) as Hb. split; [lia|].
  destruct (all_answered s' (reachable_run _ _ wstep _ _ _ _ Hr Hrun) Hz) as [A B].
  (* worker steps make no requests: the requested lists are those of s *)
  assert (G : forall ls s s', forallb is_worker_label ls = true -> run wstep s ls = Some s' ->
              w_use_requested s' = w_use_requested s /\ w_refresh_requested s' = w_refresh_requested s).
  { clear. induction ls as [|lb ls IH]; intros s s' Hw Hr; cbn [run] in Hr.
    - injection Hr as <-. split; reflexivity.
    - cbn [forallb] in Hw. apply andb_true_iff in Hw as [Hw1 Hw2].
      destruct (wstep s lb) as [s1|] eqn:E; [|discriminate]. destruct (IH _ _ Hw2 Hr) as [I1 I2]. rewrite I1, I2.
      destruct s as [ib sl ph tk uk ver pub ur ua ra rr]. destruct lb as [id|o| | | |id]; cbn in Hw1; try discriminate; cbn in E.
      + destruct ph; try discriminate. destruct ib; try discriminate. injection E as <-. split; reflexivity.
      + destruct ph; try discriminate. destruct sl; try discriminate. injection E as <-. split; reflexivity.
      + destruct ph; try discriminate. injection E as <-. split; reflexivity.
      + destruct (remove_first id tk); try discriminate. injection E as <-. split; reflexivity. }
  destruct (G ls s s' Hw Hrun) as [G1 G2]. rewrite <- G1, <- G2. split; assumption.
Qed.
