(* Deepening round 4 (proof only) for property C19: characterising theorems for extracted functions the
   driver evaluates (trace_mops, resolve, note_full / note_routes / note_topology) and a producer-side
   "never stuck" theorem for the worker transitions fstep. *)
From SV Require Import Base.Prelude Model.Sched Model.MetaUpdate Proofs.MetaUpdate_proofs.
From SV Require Import Model.FetchPlan Proofs.FetchPlan_proofs.
Open Scope N_scope.

(* ---------------- trace_mops: what the driver compares per step ---------------- *)
Lemma trace_mops_length os : forall v s, List.length (trace_mops v os s) = List.length os.
Proof. induction os as [|o r IH]; intros v s; cbn [trace_mops List.length]; [reflexivity|]. rewrite IH. reflexivity. Qed.

Lemma trace_mops_nth os : forall v s i, (i < List.length os)%nat ->
  nth_error (trace_mops v os s) i = Some (run_mops v (firstn (S i) os) s).
Proof.
  induction os as [|o r IH]; intros v s i Hi; cbn [List.length] in Hi; [lia|].
  cbn [trace_mops]. destruct i as [|i].
  - reflexivity.
  - cbn [nth_error]. rewrite IH by lia. reflexivity.
Qed.

Lemma trace_mops_last_gen os : forall v s d, os <> [] -> last (trace_mops v os s) d = run_mops v os s.
Proof.
  induction os as [|o r IH]; intros v s d Hne; [congruence|].
  cbn [trace_mops run_mops]. destruct r as [|o2 r2]; [reflexivity|].
  rewrite <- (IH (v + 1) (apply_mop v o s) d) by discriminate. cbn [trace_mops last]. reflexivity.
Qed.
Lemma trace_mops_last os v s : last (trace_mops v os s) s = run_mops v os s.
Proof. destruct os as [|o r]; [reflexivity|]. apply trace_mops_last_gen. discriminate. Qed.

Lemma trace_mops_spec v os s :
  List.length (trace_mops v os s) = List.length os /\
  (forall i, (i < List.length os)%nat -> nth_error (trace_mops v os s) i = Some (run_mops v (firstn (S i) os) s)) /\
  last (trace_mops v os s) s = run_mops v os s.
Proof. split; [apply trace_mops_length|]. split; [apply trace_mops_nth|apply trace_mops_last]. Qed.

(* ---------------- resolve: sound, complete, frame ---------------- *)
Definition inflight_ids (fl : inflight) : list N :=
  match fl with
  | IFull f => [f]
  | IPartial r t => (match r with Some a => [a] | None => [] end) ++ (match t with Some b => [b] | None => [] end)
  end.
Definition outcome_id (o : outcome) : N := match o with OFull f | ORoutes f | OTopology f => f end.

Lemma resolve_sound ready fl o fl' : resolve ready fl = Some (o, fl') ->
  ready (outcome_id o) = true /\ In (outcome_id o) (inflight_ids fl) /\
  match o with
  | OFull f => fl = IFull f /\ fl' = inflight_empty
  | ORoutes f => is_full fl = false /\ routes_slot fl = Some f /\ fl' = IPartial None (topology_slot fl)
  | OTopology g => is_full fl = false /\ topology_slot fl = Some g /\ fl' = IPartial (routes_slot fl) None /\
                   (forall a, routes_slot fl = Some a -> ready a = false)
  end.
Proof.
  destruct fl as [f|[a|] [b|]]; cbn [resolve].
  - destruct (ready f) eqn:E; [|discriminate]. intros H; injection H as <- <-. cbn. rewrite E. auto.
  - destruct (ready a) eqn:Ea.
    + intros H; injection H as <- <-. cbn. rewrite Ea. auto.
    + destruct (ready b) eqn:Eb; [|discriminate]. intros H; injection H as <- <-. cbn. rewrite Eb.
      repeat split; auto. intros x Hx; injection Hx as <-. exact Ea.
  - destruct (ready a) eqn:Ea; [|discriminate]. intros H; injection H as <- <-. cbn. rewrite Ea. auto.
  - destruct (ready b) eqn:Eb; [|discriminate]. intros H; injection H as <- <-. cbn. rewrite Eb.
    repeat split; auto. intros x Hx; discriminate.
  - discriminate.
Qed.

Lemma resolve_none_iff ready fl :
  resolve ready fl = None <-> (forall f, In f (inflight_ids fl) -> ready f = false).
Proof.
  destruct fl as [f|[a|] [b|]]; cbn [resolve inflight_ids app In]; split.
  - destruct (ready f) eqn:E; [discriminate|]. intros _ x [<-|[]]. exact E.
  - intros H. rewrite (H f (or_introl eq_refl)). reflexivity.
  - destruct (ready a) eqn:Ea; [discriminate|]. destruct (ready b) eqn:Eb; [discriminate|].
    intros _ x [<-|[<-|[]]]; assumption.
  - intros H. rewrite (H a (or_introl eq_refl)), (H b (or_intror (or_introl eq_refl))). reflexivity.
  - destruct (ready a) eqn:Ea; [discriminate|]. intros _ x [<-|[]]. exact Ea.
  - intros H. rewrite (H a (or_introl eq_refl)). reflexivity.
  - destruct (ready b) eqn:Eb; [discriminate|]. intros _ x [<-|[]]. exact Eb.
  - intros H. rewrite (H b (or_introl eq_refl)). reflexivity.
  - intros _ x [].
  - reflexivity.
Qed.

(* ---------------- the plan bookkeeping over every sequence of notes ---------------- *)
Inductive pnote := NFull | NTopology | NRoutes (r : N).
Definition apply_note (p : plan) (n : pnote) : plan :=
  match n with NFull => note_full p | NTopology => note_topology p | NRoutes r => note_routes r p end.
Definition is_nfull (n : pnote) : bool := match n with NFull => true | _ => false end.
Definition is_ntopology (n : pnote) : bool := match n with NTopology => true | _ => false end.
Fixpoint noted_routes (ns : list pnote) : list N :=
  match ns with [] => [] | NRoutes r :: t => r :: noted_routes t | _ :: t => noted_routes t end.

Lemma notes_full ns : fold_left apply_note ns PFull = PFull.
Proof. induction ns as [|n r IH]; [reflexivity|]. destruct n; exact IH. Qed.

Lemma notes_gen ns : forall rs t, fold_left apply_note ns (PPartial rs t) =
  if existsb is_nfull ns then PFull else PPartial (rs ++ noted_routes ns) (t || existsb is_ntopology ns).
Proof.
  induction ns as [|n r IH]; intros rs t.
  - cbn. rewrite app_nil_r, orb_false_r. reflexivity.
  - destruct n; cbn [fold_left apply_note note_full note_topology note_routes existsb is_nfull is_ntopology noted_routes orb].
    + apply notes_full.
    + rewrite IH. rewrite orb_true_r. reflexivity.
    + rewrite IH, <- app_assoc. reflexivity.
Qed.

Lemma notes_spec ns : fold_left apply_note ns plan_empty =
  if existsb is_nfull ns then PFull else PPartial (noted_routes ns) (existsb is_ntopology ns).
Proof. unfold plan_empty. rewrite notes_gen. reflexivity. Qed.

(* ---------------- the producer is never stuck with a request ---------------- *)
Definition is_fworker (lb : flabel) : bool := match lb with FSend _ => false | _ => true end.
Definition all_ready : N -> bool := fun _ => true.

(* within two worker steps the worker has no pending request and may receive the next one *)
Lemma fetch_ready_recv s : FInv s -> exists ls s',
  forallb is_fworker ls = true /\ run fstep s ls = Some s' /\ (List.length ls <= 2)%nat /\
  f_pending s' = None /\ (f_cc s' = OnCC -> is_full (f_fl s') = false) /\
  f_queue s' = f_queue s /\ f_arrived s' = f_arrived s.
Proof.
  intros I0. pose proof (fi_plan _ I0) as Hpl. clear I0.
  destruct s as [cc pl fl nx q pd rc st an ar]; cbn [f_cc f_plan f_fl f_pending] in Hpl.
  destruct cc.
  - destruct fl as [f|rf tf].
    + exists [FDone all_ready true]. destruct pd as [r|]; (eexists; split; [reflexivity|]; split; [cbn; reflexivity|]);
        cbn; repeat split; auto.
    + destruct pd as [r|].
      * specialize (Hpl r eq_refl eq_refl eq_refl). subst pl.
        exists [FStarter false; FDone all_ready true]. eexists. split; [reflexivity|]. split; [cbn; reflexivity|].
        cbn; repeat split; auto.
      * exists []. eexists. split; [reflexivity|]. split; [reflexivity|]. cbn; repeat split; auto.
  - destruct pd as [r|].
    + exists [FEstablish true]. eexists. split; [reflexivity|]. split; [cbn; reflexivity|]. cbn; repeat split; auto.
    + exists []. eexists. split; [reflexivity|]. split; [reflexivity|]. cbn; repeat split; auto; discriminate.
Qed.

Lemma fetch_drain_inv n : forall s, FInv s -> List.length (f_queue s) = n -> exists ls s',
  forallb is_fworker ls = true /\ run fstep s ls = Some s' /\ (List.length ls <= 2 + 3 * n)%nat /\
  FInv s' /\ f_pending s' = None /\ f_queue s' = [] /\ f_arrived s' = f_arrived s.
Proof.
  induction n as [|n IH]; intros s I0 Hn.
  - destruct (fetch_ready_recv s I0) as (ls & s1 & Hw & Hr & Hl & Hp & _ & Hq & Ha).
    assert (Eq : f_queue s = []) by (destruct (f_queue s); [reflexivity|discriminate]).
    rewrite Eq in Hq. exists ls, s1.
    split; [exact Hw|]. split; [exact Hr|]. split; [lia|].
    split; [eapply (run_invariant _ _ fstep FInv); [exact finv_step|exact I0|exact Hr]|].
    split; [exact Hp|]. split; [exact Hq|exact Ha].
  - destruct (fetch_ready_recv s I0) as (ls & s1 & Hw & Hr & Hl & Hp & Hf & Hq & Ha).
    assert (I1 : FInv s1) by (eapply (run_invariant _ _ fstep FInv); [exact finv_step|exact I0|exact Hr]).
    destruct (f_queue s) as [|r q] eqn:Eq; [discriminate|]. cbn [List.length] in Hn.
    assert (exists s2, fstep s1 FRecv = Some s2 /\ f_queue s2 = q /\ f_arrived s2 = f_arrived s1) as (s2 & Hs2 & Hq2 & Ha2).
    { cbn [fstep]. rewrite Hq, Hp. destruct (f_cc s1) eqn:Ec.
      - rewrite (Hf eq_refl). eexists. split; [reflexivity|]. split; reflexivity.
      - eexists. split; [reflexivity|]. split; reflexivity. }
    assert (I2 : FInv s2) by (eapply finv_step; eassumption).
    destruct (IH s2 I2) as (ls2 & s3 & Hw2 & Hr2 & Hl2 & I3 & Hp3 & Hq3 & Ha3); [rewrite Hq2; lia|].
    exists (ls ++ FRecv :: ls2), s3.
    split; [rewrite forallb_app, Hw; cbn [forallb is_fworker andb]; exact Hw2|].
    split; [rewrite run_app, Hr; cbn [run]; rewrite Hs2; exact Hr2|].
    split; [rewrite app_length; cbn [List.length]; lia|].
    split; [exact I3|]. split; [exact Hp3|]. split; [exact Hq3|].
    rewrite Ha3, Ha2, Ha. reflexivity.
Qed.

(* from every reachable state at most 2 + 3 * |queue| worker steps (no new request meanwhile, every fetch
   succeeding, no deadline needed) answer every refresh request sent so far *)
Lemma fetch_drain s : reachable fstep f_init s -> exists ls s',
  forallb is_fworker ls = true /\ run fstep s ls = Some s' /\
  (List.length ls <= 2 + 3 * List.length (f_queue s))%nat /\
  map fst (f_answers s') = f_arrived s /\ f_pending s' = None /\ f_queue s' = [].
Proof.
  intros H. destruct (fetch_drain_inv _ s (finv_reachable s H) eq_refl) as (ls & s' & Hw & Hr & Hl & I1 & Hp & Hq & Ha).
  exists ls, s'. split; [exact Hw|]. split; [exact Hr|]. split; [exact Hl|]. split; [|split; [exact Hp|exact Hq]].
  pose proof (fi_cons _ I1) as Hc. unfold pending_list in Hc. rewrite Hp, Hq, Ha in Hc.
  cbn [app] in Hc. rewrite app_nil_r in Hc. exact Hc.
Qed.
