(* Proofs about Model/Shard.v (property C11). *)
From SV Require Import Base.Prelude Model.Shard.
From Coq Require Import Sorting.Sorted Permutation Ascii String.
Open Scope N_scope.

(* ---------------- shard_of ---------------- *)

Lemma shl64_lt x k : shl64 x k < two64.
Proof. unfold shl64, two64. apply N.mod_lt. discriminate. Qed.

Lemma shard_of_lt n msb t : 0 < n -> shard_of n msb t < n.
Proof.
  intros Hn. unfold shard_of.
  pose proof (shl64_lt (wrapping_add_bias (i64_as_u64 t)) msb) as H.
  set (x := shl64 _ _) in *. clearbody x. unfold two64 in *.
  apply N.div_lt_upper_bound; [discriminate|]. nia.
Qed.

Lemma bias_spec t :
  Z.of_N (wrapping_add_bias (i64_as_u64 t)) = ((t + 2 ^ 63) mod 2 ^ 64)%Z.
Proof.
  unfold wrapping_add_bias, i64_as_u64, two64.
  rewrite N2Z.inj_mod, N2Z.inj_add, Z2N.id by (apply Z.mod_pos_bound; lia).
  change (Z.of_N (2 ^ 63)) with (2 ^ 63)%Z. change (Z.of_N (2 ^ 64)) with (2 ^ 64)%Z.
  rewrite Zplus_mod_idemp_l. reflexivity.
Qed.

Lemma shard_of_spec n msb t : shard_of n msb t = spec_shard_of n msb t.
Proof.
  unfold shard_of, spec_shard_of, shl64, two64.
  apply N2Z.inj. rewrite N2Z.inj_div, N2Z.inj_mul, N2Z.inj_mod, N2Z.inj_mul, N2Z.inj_pow.
  rewrite bias_spec.
  change (Z.of_N (2 ^ 64)) with (2 ^ 64)%Z. change (Z.of_N 2) with 2%Z.
  rewrite Z2N.id.
  - rewrite Zmult_mod_idemp_l. reflexivity.
  - apply Z.div_pos; [|lia].
    apply Z.mul_nonneg_nonneg; [apply Z.mod_pos_bound; lia | lia].
Qed.

(* With no ignored bits the shard is floor((t + 2^63) * n / 2^64): monotone in the token. *)
Lemma shard_of_msb0 n t : (- 2 ^ 63 <= t < 2 ^ 63)%Z ->
  Z.of_N (shard_of n 0 t) = ((t + 2 ^ 63) * Z.of_N n / 2 ^ 64)%Z.
Proof.
  intros Ht. rewrite shard_of_spec. unfold spec_shard_of.
  change (Z.of_N 0) with 0%Z. rewrite Z.pow_0_r, Z.mul_1_r.
  rewrite (Z.mod_small (t + 2 ^ 63)) by lia.
  rewrite Z2N.id; [reflexivity|].
  apply Z.div_pos; [|lia]. apply Z.mul_nonneg_nonneg; lia.
Qed.

Lemma shard_of_msb0_mono n t t' : (- 2 ^ 63 <= t <= t')%Z -> (t' < 2 ^ 63)%Z ->
  shard_of n 0 t <= shard_of n 0 t'.
Proof.
  intros H H'. apply N2Z.inj_le. rewrite !shard_of_msb0 by lia.
  apply Z.div_le_mono; [lia|]. apply Z.mul_le_mono_nonneg_r; lia.
Qed.

(* ---------------- ports ---------------- *)

Definition asc (l : list N) : Prop := StronglySorted N.lt l.

Lemma asc_ext (l m : list N) :
  asc l -> asc m -> (forall x, In x l <-> In x m) -> l = m.
Proof.
  revert m; induction l as [|a l IH]; intros m Hl Hm Hin.
  - destruct m as [|b m]; [reflexivity|]. exfalso. apply (Hin b). now left.
  - destruct m as [|b m]; [exfalso; apply (Hin a); now left|].
    inversion Hl as [|? ? Hl' Ha]; subst. inversion Hm as [|? ? Hm' Hb]; subst.
    rewrite Forall_forall in Ha, Hb.
    assert (a = b) as ->.
    { destruct (proj1 (Hin a) (or_introl eq_refl)) as [E|I]; [now symmetry|].
      destruct (proj2 (Hin b) (or_introl eq_refl)) as [E|I']; [assumption|].
      specialize (Ha _ I'). specialize (Hb _ I). lia. }
    f_equal. apply IH; try assumption.
    intros x. split; intros I.
    + destruct (proj1 (Hin x) (or_intror I)) as [E|?]; [|assumption].
      subst. specialize (Ha _ I). lia.
    + destruct (proj2 (Hin x) (or_intror I)) as [E|?]; [|assumption].
      subst. specialize (Hb _ I). lia.
Qed.

Lemma nrange_asc lo len : asc (nrange lo len).
Proof.
  revert lo; induction len as [|k IH]; intros lo; simpl; constructor.
  - apply IH.
  - rewrite Forall_forall. intros x Hx. apply nrange_In in Hx. lia.
Qed.

Lemma asc_filter f l : asc l -> asc (filter f l).
Proof.
  induction 1 as [|a l Hl IH Ha]; simpl; [constructor|].
  destruct (f a); [|assumption]. constructor; [assumption|].
  rewrite Forall_forall in *. intros x Hx. apply filter_In in Hx. now apply Ha.
Qed.

Lemma asc_map_step first n len : 0 < n ->
  forall lo, asc (map (fun i => first + i * n) (nrange lo len)).
Proof.
  intros Hn. induction len as [|k IH]; intros lo; simpl; constructor.
  - apply IH.
  - rewrite Forall_forall. intros x Hx. apply in_map_iff in Hx as [i [<- Hi]].
    apply nrange_In in Hi. nia.
Qed.

Lemma spec_ports_asc n s lo hi : asc (spec_ports n s lo hi).
Proof. unfold spec_ports. apply asc_filter, nrange_asc. Qed.

Lemma spec_ports_In n s lo hi p : lo <= hi + 1 ->
  In p (spec_ports n s lo hi) <-> lo <= p <= hi /\ p mod n = s.
Proof.
  intros H. unfold spec_ports. rewrite filter_In, nrange_In, N.eqb_eq.
  rewrite N2Nat.id. lia.
Qed.

Lemma step_ports_In first hi n p : 0 < n -> first <= hi ->
  In p (step_ports first hi n) <-> exists i, p = first + i * n /\ p <= hi.
Proof.
  intros Hn Hle. unfold step_ports. rewrite in_map_iff. split.
  - intros [i [<- Hi]]. exists i. split; [reflexivity|].
    apply nrange_In in Hi. rewrite N2Nat.id in Hi.
    assert (i <= (hi - first) / n) as Hi' by lia.
    assert (i * n <= hi - first); [|lia].
    etransitivity; [apply N.mul_le_mono_r, Hi'|].
    rewrite N.mul_comm. apply N.mul_div_le. lia.
  - intros [i [-> Hi]]. exists i. split; [reflexivity|].
    apply nrange_In. rewrite N2Nat.id.
    assert (i <= (hi - first) / n); [|lia].
    apply N.div_le_lower_bound; [lia|]. lia.
Qed.

Lemma lowest_port_offset n s lo : 0 < n -> s < n ->
  (lo + (n - lo mod n + s) mod n) mod n = s.
Proof.
  intros Hn Hs.
  rewrite N.add_mod_idemp_r by lia.
  assert (n <> 0) as Hn0 by lia.
  pose proof (N.mod_lt lo n Hn0) as Hl.
  pose proof (N.div_mod lo n Hn0) as Hd.
  set (a := lo mod n) in *. set (q := lo / n) in *.
  replace (lo + (n - a + s)) with (s + (q + 1) * n) by nia.
  rewrite N.mod_add by lia. apply N.mod_small; assumption.
Qed.

(* the offset is the least one: any p >= lo congruent to s is >= lo + offset, and differs
   from it by a multiple of n *)
Lemma lowest_port_least n s lo p : 0 < n -> s < n -> lo <= p -> p mod n = s ->
  exists i, p = lo + (n - lo mod n + s) mod n + i * n.
Proof.
  intros Hn Hs Hle Hp.
  set (off := (n - lo mod n + s) mod n).
  pose proof (lowest_port_offset n s lo Hn Hs) as Hoff. fold off in Hoff.
  assert (off < n) as Hoffn by (apply N.mod_lt; lia).
  (* p - lo = q*n + r with r = off *)
  set (d := p - lo).
  assert (Hd : p = lo + d) by (unfold d; lia).
  assert (d mod n = off) as Hdm.
  { assert ((lo + d) mod n = (lo + off) mod n) as E by (rewrite <- Hd, Hp, Hoff; reflexivity).
    assert ((lo + d mod n) mod n = (lo + off) mod n) as E'
        by (rewrite N.add_mod_idemp_r by lia; exact E).
    pose proof (N.mod_lt d n ltac:(lia)) as Hdn.
    (* both d mod n and off are < n, and lo + _ are congruent -> equal *)
    rewrite (N.add_mod lo (d mod n)) in E' by lia.
    rewrite (N.add_mod lo off) in E' by lia.
    rewrite (N.mod_small (d mod n)) in E' by lia.
    rewrite (N.mod_small off) in E' by lia.
    pose proof (N.mod_lt lo n ltac:(lia)) as Hlo.
    set (a := lo mod n) in *. set (r := d mod n) in *.
    destruct (N.lt_ge_cases (a + r) n) as [C1|C1];
    destruct (N.lt_ge_cases (a + off) n) as [C2|C2].
    - rewrite !N.mod_small in E' by lia. lia.
    - rewrite (N.mod_small (a + r)) in E' by lia.
      replace (a + off) with ((a + off - n) + 1 * n) in E' by lia.
      rewrite N.mod_add, N.mod_small in E' by lia. lia.
    - rewrite (N.mod_small (a + off)) in E' by lia.
      replace (a + r) with ((a + r - n) + 1 * n) in E' by lia.
      rewrite N.mod_add, N.mod_small in E' by lia. lia.
    - replace (a + r) with ((a + r - n) + 1 * n) in E' by lia.
      replace (a + off) with ((a + off - n) + 1 * n) in E' by lia.
      rewrite !N.mod_add, !N.mod_small in E' by lia. lia. }
  exists (d / n). rewrite Hd at 1. rewrite (N.div_mod d n) at 1 by lia. rewrite Hdm. lia.
Qed.

Theorem ports_for_shard_spec n s lo hi :
  0 < n -> s < n -> lo <= hi -> hi <= u16_max ->
  ports_for_shard n s lo hi = spec_ports n s lo hi.
Proof.
  intros Hn Hs Hle Hhi. unfold u16_max in *.
  apply asc_ext.
  - unfold ports_for_shard. destruct (lowest_port n s lo hi); [|constructor].
    unfold step_ports. apply asc_map_step; assumption.
  - apply spec_ports_asc.
  - intros p. rewrite spec_ports_In by lia.
    unfold ports_for_shard, lowest_port. unfold u16_max.
    set (off := (n - lo mod n + s) mod n).
    pose proof (lowest_port_offset n s lo Hn Hs) as Hoff. fold off in Hoff.
    destruct (65535 <? lo + off) eqn:E1.
    { simpl. split; [tauto|]. intros [[H1 H2] H3].
      destruct (lowest_port_least n s lo p Hn Hs H1 H3) as [i Hi]. fold off in Hi. lia. }
    destruct (lo + off <=? hi) eqn:E2.
    2:{ simpl. split; [tauto|]. intros [[H1 H2] H3].
      destruct (lowest_port_least n s lo p Hn Hs H1 H3) as [i Hi]. fold off in Hi. lia. }
    rewrite step_ports_In by lia. split.
    + intros [i [-> Hi]]. split; [lia|].
      rewrite N.mod_add by lia. exact Hoff.
    + intros [[H1 H2] H3].
      destruct (lowest_port_least n s lo p Hn Hs H1 H3) as [i Hi]. fold off in Hi.
      exists i. split; [exact Hi|exact H2].
Qed.

Lemma spec_ports_NoDup n s lo hi : NoDup (spec_ports n s lo hi).
Proof.
  pose proof (spec_ports_asc n s lo hi) as H. induction H as [|a l Hl IH Ha]; constructor.
  - intros I. rewrite Forall_forall in Ha. specialize (Ha _ I). lia.
  - assumption.
Qed.

Lemma rot_perm {A} (l : list A) k : Permutation (skipn k l ++ firstn k l) l.
Proof.
  rewrite Permutation_app_comm. rewrite firstn_skipn. reflexivity.
Qed.

(* The iterator, for every pivot, visits exactly the spec ports, each exactly once. *)
Theorem iter_ports_perm n s lo hi pivot :
  0 < n -> s < n -> lo <= hi -> hi <= u16_max ->
  Permutation (iter_ports n s lo hi pivot) (spec_ports n s lo hi) /\
  NoDup (iter_ports n s lo hi pivot).
Proof.
  intros Hn Hs Hle Hhi. unfold iter_ports.
  rewrite (ports_for_shard_spec n s lo hi Hn Hs Hle Hhi).
  split; [apply rot_perm|].
  eapply Permutation_NoDup; [symmetry; apply rot_perm|apply spec_ports_NoDup].
Qed.

Theorem iter_ports_In n s lo hi pivot p :
  0 < n -> s < n -> lo <= hi -> hi <= u16_max ->
  In p (iter_ports n s lo hi pivot) <-> (lo <= p <= hi /\ p mod n = s).
Proof.
  intros Hn Hs Hle Hhi.
  destruct (iter_ports_perm n s lo hi pivot Hn Hs Hle Hhi) as [P _].
  rewrite <- (spec_ports_In n s lo hi p) by lia.
  split; intros I; [eapply Permutation_in; [exact P|exact I]
                   |eapply Permutation_in; [symmetry; exact P|exact I]].
Qed.

Theorem draw_port_sound n s lo hi idx p :
  0 < n -> s < n -> lo <= hi -> hi <= u16_max ->
  draw_port n s lo hi idx = Some p -> lo <= p <= hi /\ p mod n = s.
Proof.
  intros Hn Hs Hle Hhi H. unfold draw_port in H. apply nth_error_In in H.
  rewrite (ports_for_shard_spec n s lo hi Hn Hs Hle Hhi) in H.
  apply spec_ports_In in H; [exact H|lia].
Qed.

(* Nothing is produced only when no such port exists. *)
Theorem ports_empty_iff n s lo hi :
  0 < n -> s < n -> lo <= hi -> hi <= u16_max ->
  ports_for_shard n s lo hi = [] <-> (forall p, lo <= p <= hi -> p mod n <> s).
Proof.
  intros Hn Hs Hle Hhi. rewrite (ports_for_shard_spec n s lo hi Hn Hs Hle Hhi). split.
  - intros E p Hp Hm. assert (In p (spec_ports n s lo hi)) as I
        by (apply spec_ports_In; [lia|tauto]).
    rewrite E in I. exact I.
  - intros H. destruct (spec_ports n s lo hi) as [|p l] eqn:E; [reflexivity|].
    exfalso. assert (In p (spec_ports n s lo hi)) as I by (rewrite E; now left).
    apply spec_ports_In in I; [|lia]. destruct I as [I1 I2]. exact (H p I1 I2).
Qed.

Theorem draw_port_none_iff n s lo hi :
  0 < n -> s < n -> lo <= hi -> hi <= u16_max ->
  (forall idx, draw_port n s lo hi idx = None) <-> (forall p, lo <= p <= hi -> p mod n <> s).
Proof.
  intros Hn Hs Hle Hhi. rewrite <- (ports_empty_iff n s lo hi Hn Hs Hle Hhi).
  unfold draw_port. split.
  - intros H. specialize (H O). destruct (ports_for_shard n s lo hi); [reflexivity|discriminate].
  - intros -> idx. destruct idx; reflexivity.
Qed.

(* draws with an in-range index always succeed (the code draws idx < count) *)
Lemma draw_port_some n s lo hi idx :
  (idx < List.length (ports_for_shard n s lo hi))%nat -> exists p, draw_port n s lo hi idx = Some p.
Proof.
  intros H. unfold draw_port. destruct (nth_error _ idx) eqn:E; [eauto|].
  apply nth_error_None in E. lia.
Qed.

(* Acceptors are sound: an accepted observation satisfies the property predicate. *)
Lemma existsb_eqb_In p l : existsb (N.eqb p) l = true <-> In p l.
Proof.
  rewrite existsb_exists. split.
  - intros [x [I E]]. apply N.eqb_eq in E. now subst.
  - intros I. exists p. split; [assumption|apply N.eqb_refl].
Qed.

Theorem accept_iter_sound n s lo hi obs :
  0 < n -> s < n -> lo <= hi -> hi <= u16_max ->
  accept_iter n s lo hi obs = true ->
  Permutation obs (spec_ports n s lo hi) /\ NoDup obs.
Proof.
  intros Hn Hs Hle Hhi H. unfold accept_iter in H.
  pose proof (ports_for_shard_spec n s lo hi Hn Hs Hle Hhi) as E.
  destruct obs as [|x obs'].
  - destruct (ports_for_shard n s lo hi) as [|a l] eqn:EL; [|discriminate].
    rewrite <- E. split; constructor.
  - destruct (index_of x (ports_for_shard n s lo hi)) as [k|]; [|discriminate].
    destruct (list_eq_dec N.eq_dec (x :: obs') _) as [->|]; [|discriminate].
    rewrite E. split; [apply rot_perm|].
    eapply Permutation_NoDup; [symmetry; apply rot_perm|].
    apply spec_ports_NoDup.
Qed.

Lemma index_of_nth l k x : NoDup l -> nth_error l k = Some x -> index_of x l = Some k.
Proof.
  revert k; induction l as [|y r IH]; intros k ND Hk; [destruct k; discriminate|].
  inversion ND as [|? ? Hy ND']; subst. destruct k as [|k]; simpl in *.
  - inversion Hk; subst. now rewrite N.eqb_refl.
  - destruct (x =? y) eqn:E.
    + apply N.eqb_eq in E; subst. exfalso. apply Hy. eapply nth_error_In; eassumption.
    + rewrite (IH k ND' Hk). reflexivity.
Qed.

Lemma skipn_nth {A} (l : list A) k x : nth_error l k = Some x ->
  skipn k l = x :: skipn (S k) l.
Proof.
  revert k; induction l as [|y t IH]; intros k H; [destruct k; discriminate|].
  destruct k as [|k]; simpl in *.
  - inversion H; subst. reflexivity.
  - apply IH. exact H.
Qed.

Lemma rot_head {A} (l : list A) k x : nth_error l k = Some x ->
  exists r, skipn k l ++ firstn k l = x :: r.
Proof. intros H. rewrite (skipn_nth l k x H). simpl. eauto. Qed.

Theorem accept_iter_complete n s lo hi pivot :
  0 < n -> s < n -> lo <= hi -> hi <= u16_max ->
  (pivot < Nat.max 1 (List.length (ports_for_shard n s lo hi)))%nat ->
  accept_iter n s lo hi (iter_ports n s lo hi pivot) = true.
Proof.
  intros Hn Hs Hle Hhi Hp. unfold accept_iter, iter_ports.
  assert (NoDup (ports_for_shard n s lo hi)) as ND
      by (rewrite (ports_for_shard_spec n s lo hi Hn Hs Hle Hhi); apply spec_ports_NoDup).
  remember (ports_for_shard n s lo hi) as l eqn:EL. clear EL.
  destruct l as [|a t].
  - now destruct pivot.
  - assert (pivot < List.length (a :: t))%nat as Hp' by (simpl in *; lia).
    remember (a :: t) as l eqn:EL.
    destruct (nth_error l pivot) as [x|] eqn:Ex; [|apply nth_error_None in Ex; lia].
    destruct (rot_head l pivot x Ex) as [r Hr]. rewrite Hr.
    rewrite (index_of_nth l pivot x ND Ex). rewrite <- Hr.
    destruct (list_eq_dec N.eq_dec _ _); [reflexivity|contradiction].
Qed.

Theorem accept_draw_sound n s lo hi obs :
  0 < n -> s < n -> lo <= hi -> hi <= u16_max ->
  accept_draw n s lo hi obs = true ->
  match obs with
  | Some p => lo <= p <= hi /\ p mod n = s
  | None => forall p, lo <= p <= hi -> p mod n <> s
  end.
Proof.
  intros Hn Hs Hle Hhi H. unfold accept_draw in H.
  destruct obs as [p|].
  - destruct (ports_for_shard n s lo hi) as [|a l] eqn:EL; [discriminate|].
    apply existsb_eqb_In in H. rewrite <- EL in H.
    rewrite (ports_for_shard_spec n s lo hi Hn Hs Hle Hhi) in H.
    apply spec_ports_In in H; [exact H|lia].
  - destruct (ports_for_shard n s lo hi) as [|a l] eqn:EL; [|discriminate].
    apply (ports_empty_iff n s lo hi Hn Hs Hle Hhi). exact EL.
Qed.

(* ---------------- parsing ---------------- *)

Theorem parse_shard_info_ok se ne me shard nr msb :
  parse_shard_info se ne me = Ok (shard, nr, msb) -> shard < nr /\ nr <> 0.
Proof.
  unfold parse_shard_info. intros H.
  destruct se as [[|s ?]|], ne as [[|n ?]|], me as [[|m ?]|]; try discriminate.
  destruct (parse_unsigned 65535 s); [|discriminate].
  destruct (parse_unsigned 65535 n) as [nr'|]; [|discriminate].
  destruct (nr' =? 0) eqn:E0; [discriminate|].
  destruct (parse_unsigned 255 m); [|discriminate].
  destruct (nr' <=? n0) eqn:E1; [discriminate|].
  inversion H; subst. lia.
Qed.

Lemma parse_digits_le max acc s v : parse_digits max acc s = Some v -> acc <= max -> v <= max.
Proof.
  revert acc; induction s as [|c r IH]; intros acc H Hacc; simpl in H.
  - inversion H; subst; assumption.
  - destruct (digit_of c); [|discriminate].
    destruct (max <? acc * 10 + n) eqn:E; [discriminate|].
    apply IH in H; [assumption|lia].
Qed.

Lemma parse_unsigned_le max s v : parse_unsigned max s = Some v -> v <= max.
Proof.
  unfold parse_unsigned. destruct s as [|c r]; [discriminate|].
  destruct (Ascii.eqb c "+").
  - destruct r; [discriminate|]. intros H. eapply parse_digits_le; [exact H|lia].
  - intros H. eapply parse_digits_le; [exact H|lia].
Qed.

(* the rejected classes: a zero shard count or a shard id not below the count is refused *)
Theorem parse_shard_info_rejects s n m rs rn rm shard nr :
  parse_unsigned 65535 s = Some shard -> parse_unsigned 65535 n = Some nr ->
  (nr = 0 \/ nr <= shard) ->
  exists e, parse_shard_info (Some (s :: rs)) (Some (n :: rn)) (Some (m :: rm)) = Err e.
Proof.
  intros Hs Hn H. unfold parse_shard_info. rewrite Hs, Hn.
  destruct (nr =? 0) eqn:E0; [eauto|].
  destruct (parse_unsigned 255 m); [|eauto].
  destruct (nr <=? shard) eqn:E1; [eauto|]. lia.
Qed.

(* ---------------- the property predicates the driver evaluates on a mismatch ---------------- *)

Lemma forallb_existsb_incl (a b : list N) :
  forallb (fun p => existsb (N.eqb p) b) a = true <-> incl a b.
Proof.
  rewrite forallb_forall. unfold incl. split; intros H x Hx.
  - apply existsb_eqb_In. now apply H.
  - apply existsb_eqb_In. now apply H.
Qed.

Theorem prop_iter_ok_iff n s lo hi obs :
  prop_iter_ok n s lo hi obs = true <->
  Permutation obs (spec_ports n s lo hi) /\ NoDup obs.
Proof.
  unfold prop_iter_ok. rewrite !andb_true_iff, Nat.eqb_eq, !forallb_existsb_incl. split.
  - intros [[Hlen Hsub] Hsup].
    assert (Permutation (spec_ports n s lo hi) obs) as P.
    { apply NoDup_Permutation_bis; [apply spec_ports_NoDup|lia|exact Hsub]. }
    split; [symmetry; exact P|].
    eapply Permutation_NoDup; [exact P|apply spec_ports_NoDup].
  - intros [P ND]. repeat split.
    + apply Permutation_length. exact P.
    + intros x Hx. eapply Permutation_in; [symmetry; exact P|exact Hx].
    + intros x Hx. eapply Permutation_in; [exact P|exact Hx].
Qed.

Theorem prop_draw_ok_iff n s lo hi obs : 0 < n -> s < n -> lo <= hi -> hi <= u16_max ->
  prop_draw_ok n s lo hi obs = true <->
  match obs with
  | Some p => lo <= p <= hi /\ p mod n = s
  | None => forall p, lo <= p <= hi -> p mod n <> s
  end.
Proof.
  intros Hn Hs Hle Hhi. unfold prop_draw_ok. destruct obs as [p|].
  - rewrite !andb_true_iff, !N.leb_le, N.eqb_eq. tauto.
  - rewrite <- (ports_empty_iff n s lo hi Hn Hs Hle Hhi).
    rewrite (ports_for_shard_spec n s lo hi Hn Hs Hle Hhi).
    destruct (spec_ports n s lo hi); split; intros H; (reflexivity || discriminate || assumption).
Qed.
