(* Proofs about Model/Fiber.v (property C06): the execution loop, for every plan, every
   outcome stream of any length and -- in the first section -- every retry policy. *)
From SV Require Import Base.Prelude Model.Retry Model.Fiber Proofs.Retry_proofs.

Section Generic.
  Variable St : Type.
  Variable decide : St -> request_info -> St * decision.
  Variable T : Type.
  Variable idem : bool.

  Notation Exec := (Exec decide idem).
  Notation run := (same_target_retries decide idem).

  (* the loop entered with the plan iterator holding [plan] and `last_error = last` *)
  Definition exec_fn (plan : list T) (s : St) (cl : consistency) (last : option last_err)
             (outs : list outcome) : list (event T) * fiber_result T :=
    match plan with
    | [] => ([], finish last)
    | t :: rest => run outs t rest s cl
    end.

  Lemma run_unfold o outs t rest s cl :
    run (o :: outs) t rest s cl =
    match o with
    | OConnFail => let (tr, r) := exec_fn rest s cl (Some LConn) outs in (EvConnFail t :: tr, r)
    | OSuccess => ([EvAttempt t cl AOk], RCompleted t)
    | OError e =>
        let (s', d) := decide s (mk_ri e idem cl) in
        let ev := EvAttempt t cl (AErr e d) in
        match d with
        | RetrySameTarget nc =>
            let (tr, r) := run outs t rest s' (unwrap_or nc cl) in (ev :: tr, r)
        | RetryNextTarget nc =>
            let (tr, r) := exec_fn rest s' (unwrap_or nc cl) (Some (LAttempt e)) outs in
            (ev :: tr, r)
        | DontRetry => ([ev], RFailed (LAttempt e))
        | IgnoreWriteError => ([ev], RIgnoredWriteError t)
        end
    end.
  Proof.
    cbn [same_target_retries]. destruct o; reflexivity.
  Qed.

  (* the loop function satisfies the specification ... *)
  Lemma fn_Exec outs : forall plan s cl last,
    Exec plan s cl last outs (fst (exec_fn plan s cl last outs)) (snd (exec_fn plan s cl last outs)).
  Proof.
    induction outs as [|o outs IH]; intros plan s cl last.
    - destruct plan; cbn; constructor.
    - destruct plan as [|t rest]; [cbn; constructor|].
      unfold exec_fn at 1 2. rewrite run_unfold. destruct o as [ | | e].
      + specialize (IH rest s cl (Some LConn)).
        destruct (exec_fn rest s cl (Some LConn) outs) as [tr r]. cbn [fst snd] in *.
        now constructor.
      + cbn. constructor.
      + destruct (decide s (mk_ri e idem cl)) as [s' d] eqn:E. destruct d as [nc | nc | | ].
        * specialize (IH (t :: rest) s' (unwrap_or nc cl) (Some (LAttempt e))).
          cbn [exec_fn] in IH.
          destruct (run outs t rest s' (unwrap_or nc cl)) as [tr r]. cbn [fst snd] in *.
          eapply Ex_same; eassumption.
        * specialize (IH rest s' (unwrap_or nc cl) (Some (LAttempt e))).
          destruct (exec_fn rest s' (unwrap_or nc cl) (Some (LAttempt e)) outs) as [tr r].
          cbn [fst snd] in *. eapply Ex_next; eassumption.
        * cbn [fst snd]. eapply Ex_dont; eassumption.
        * cbn [fst snd]. eapply Ex_ignore; eassumption.
  Qed.

  (* ... and the specification determines trace and result *)
  Lemma Exec_fn (plan : list T) s cl last outs tr r :
    Exec plan s cl last outs tr r -> exec_fn plan s cl last outs = (tr, r).
  Proof.
    induction 1 as [ s cl last outs | t rest s cl last | t rest s cl last outs tr r _ IH
                   | t rest s cl last outs | t rest s cl last e outs s' nc tr r E _ IH
                   | t rest s cl last e outs s' nc tr r E _ IH
                   | t rest s cl last e outs s' E | t rest s cl last e outs s' E ];
      try reflexivity; unfold exec_fn at 1; rewrite run_unfold.
    - now rewrite IH.
    - rewrite E. cbn [exec_fn] in IH. now rewrite IH.
    - rewrite E. now rewrite IH.
    - now rewrite E.
    - now rewrite E.
  Qed.

  Lemma exec_fn_iff (plan : list T) s cl last outs tr r :
    exec_fn plan s cl last outs = (tr, r) <-> Exec plan s cl last outs tr r.
  Proof.
    split; [|apply Exec_fn]. intros H. pose proof (fn_Exec outs plan s cl last) as E.
    rewrite H in E. exact E.
  Qed.

  Lemma fiber_run_iff s0 cl0 (plan : list T) outs tr r :
    fiber_run decide idem s0 cl0 plan outs = (tr, r) <-> Exec plan s0 cl0 None outs tr r.
  Proof. exact (exec_fn_iff plan s0 cl0 None outs tr r). Qed.

  (* ---- facts by induction over the specification ------------------------- *)
  Ltac exec_ind H :=
    induction H as [ s cl last outs | t rest s cl last | t rest s cl last outs tr r H IH
                   | t rest s cl last outs | t rest s cl last e outs s' nc tr r E H IH
                   | t rest s cl last e outs s' nc tr r E H IH
                   | t rest s cl last e outs s' E | t rest s cl last e outs s' E ].

  (* split [x :: l = pre ++ y :: post] *)
  Lemma cons_app_inv {A} (x y : A) l pre post :
    x :: l = pre ++ y :: post ->
    (pre = [] /\ x = y /\ l = post) \/ (exists pre', pre = x :: pre' /\ l = pre' ++ y :: post).
  Proof.
    destruct pre as [|z pre']; cbn; intros H; inversion H; subst; [left|right]; eauto.
  Qed.

  Lemma nil_app_inv {A} (y : A) pre post : [] = pre ++ y :: post -> False.
  Proof. destruct pre; discriminate. Qed.

  (* every recorded decision is a decision of the policy, asked with the attempt's error,
     the request's idempotence and the consistency that attempt used -- by a session
     reachable from the initial one ([Inv] is any invariant of the sessions) *)
  Section Invariant.
  Variable Inv : St -> Prop.
  Hypothesis Inv_step : forall s ri s' d, decide s ri = (s', d) -> Inv s -> Inv s'.

  Lemma Exec_provenance (plan : list T) s cl last outs tr r :
    Exec plan s cl last outs tr r -> Inv s ->
    forall pre t c e d post, tr = pre ++ EvAttempt t c (AErr e d) :: post ->
    exists s1 s2, Inv s1 /\ decide s1 (mk_ri e idem c) = (s2, d).
  Proof.
    intros H. exec_ind H; intros HI pre t0 c0 e0 d0 post Heq;
      try (exfalso; exact (nil_app_inv _ _ _ Heq));
      apply cons_app_inv in Heq as [[Hp [Hev Hl]] | [pre' [Hp Heq]]]; subst pre;
      try discriminate; try (inversion Hev; subst; eauto; fail);
      try (eapply IH; eauto; fail); exfalso; exact (nil_app_inv _ _ _ Heq).
  Qed.

  (* when, from the sessions satisfying [Inv], no decision at consistency [cl] is a retry,
     a run started at [cl] makes at most one attempt *)
  Lemma Exec_no_retry (plan : list T) s cl last outs tr r :
    (forall s ri s' d, Inv s -> ri_consistency ri = cl -> decide s ri = (s', d) ->
                       is_retry d = false) ->
    Exec plan s cl last outs tr r -> Inv s -> (List.length (attempts tr) <= 1)%nat.
  Proof.
    intros Hstop H. exec_ind H; intros HI; cbn [attempts filter is_attempt List.length]; auto.
    - pose proof (Hstop _ (mk_ri e idem cl) _ _ HI eq_refl E) as Hn. discriminate.
    - pose proof (Hstop _ (mk_ri e idem cl) _ _ HI eq_refl E) as Hn. discriminate.
  Qed.

  End Invariant.

  (* an event that is not the last one is a failed connection or a failed attempt whose
     decision was a retry *)
  Lemma Exec_nonlast (plan : list T) s cl last outs tr r :
    Exec plan s cl last outs tr r ->
    forall pre t c o post, tr = pre ++ EvAttempt t c o :: post -> post <> [] ->
    exists e d, o = AErr e d /\ is_retry d = true.
  Proof.
    intros H. exec_ind H; intros pre t0 c0 o0 post Heq Hpost;
      try (exfalso; exact (nil_app_inv _ _ _ Heq));
      apply cons_app_inv in Heq as [[Hp [Hev Hl]] | [pre' [Hp Heq]]]; subst pre;
      try discriminate;
      try (inversion Hev; subst; try congruence; do 2 eexists; split; reflexivity);
      try (eapply IH; eassumption); exfalso; exact (nil_app_inv _ _ _ Heq).
  Qed.

  (* terminal events are last, and fix the result *)
  Lemma Exec_terminal (plan : list T) s cl last outs tr r :
    Exec plan s cl last outs tr r ->
    forall pre t c o post, tr = pre ++ EvAttempt t c o :: post ->
    match o with
    | AOk => post = [] /\ r = RCompleted t
    | AErr e DontRetry => post = [] /\ r = RFailed (LAttempt e)
    | AErr e IgnoreWriteError => post = [] /\ r = RIgnoredWriteError t
    | AErr _ _ => True
    end.
  Proof.
    intros H. exec_ind H; intros pre t0 c0 o0 post Heq;
      try (exfalso; exact (nil_app_inv _ _ _ Heq));
      apply cons_app_inv in Heq as [[Hp [Hev Hl]] | [pre' [Hp Heq]]]; subst pre;
      try discriminate;
      try (inversion Hev; subst; try exact I; split; reflexivity);
      try (eapply IH; eassumption); exfalso; exact (nil_app_inv _ _ _ Heq).
  Qed.

  (* what follows a RetrySameTarget is on the same target *)
  Lemma Exec_same_target (plan : list T) s cl last outs tr r :
    Exec plan s cl last outs tr r ->
    forall pre t c e nc ev post,
      tr = pre ++ EvAttempt t c (AErr e (RetrySameTarget nc)) :: ev :: post ->
      ev_target ev = t.
  Proof.
    intros H. exec_ind H; intros pre t0 c0 e0 nc0 ev post Heq;
      try (exfalso; exact (nil_app_inv _ _ _ Heq));
      apply cons_app_inv in Heq as [[Hp [Hev Hl]] | [pre' [Hp Heq]]]; subst pre;
      try discriminate; try (eapply IH; eassumption);
      try (exfalso; exact (nil_app_inv _ _ _ Heq)).
    inversion Hev; subst. clear IH. inversion H; subst; reflexivity.
  Qed.

  (* the first attempt of a run uses the current consistency *)
  Lemma Exec_first_cl (plan : list T) s cl last outs tr r :
    Exec plan s cl last outs tr r ->
    forall c l, attempt_cls tr = c :: l -> c = cl.
  Proof.
    intros H. exec_ind H; intros c0 l Hc; cbn [attempt_cls] in Hc;
      try discriminate; try (inversion Hc; reflexivity). eapply IH; eassumption.
  Qed.

  (* a carried consistency is the one the next attempt uses; otherwise it is unchanged *)
  Lemma Exec_cl_carried (plan : list T) s cl last outs tr r :
    Exec plan s cl last outs tr r ->
    forall pre t c e d post c' l, tr = pre ++ EvAttempt t c (AErr e d) :: post ->
    attempt_cls post = c' :: l -> c' = unwrap_or (carried d) c.
  Proof.
    intros H. exec_ind H; intros pre t0 c0 e0 d0 post c' l Heq Hcl;
      try (exfalso; exact (nil_app_inv _ _ _ Heq));
      apply cons_app_inv in Heq as [[Hp [Hev Hl]] | [pre' [Hp Heq]]]; subst pre;
      try discriminate; try (eapply IH; eassumption);
      try (exfalso; exact (nil_app_inv _ _ _ Heq));
      inversion Hev; subst; cbn [carried]; try discriminate;
      eapply Exec_first_cl; eassumption.
  Qed.

  Lemma attempts_conn_fails (tr : list (event T)) :
    (List.length (attempts tr) + List.length (conn_fails tr) = List.length tr)%nat.
  Proof.
    unfold attempts, conn_fails. induction tr as [|ev tr IH]; [reflexivity|].
    cbn [filter]. destruct (is_attempt ev); cbn [negb List.length]; lia.
  Qed.

  (* ---- bound and termination --------------------------------------------- *)
  Section Budget.
  Variable B : St -> nat.
  Hypothesis B_ok : forall s ri s' d, decide s ri = (s', d) ->
    if is_same_target d then (S (B s') <= B s)%nat else (B s' <= B s)%nat.

  Lemma Exec_bound (plan : list T) s cl last outs tr r :
    Exec plan s cl last outs tr r -> (List.length tr <= List.length plan + B s)%nat.
  Proof.
    intros H. exec_ind H; cbn [List.length] in *; try lia.
    - pose proof (B_ok _ _ _ _ E) as Hb. cbn in Hb. lia.
    - pose proof (B_ok _ _ _ _ E) as Hb. cbn in Hb. lia.
  Qed.

  Lemma Exec_pending (plan : list T) s cl last outs tr r :
    Exec plan s cl last outs tr r -> r = RPending ->
    List.length tr = List.length outs /\ (List.length outs < List.length plan + B s)%nat.
  Proof.
    intros H. exec_ind H; intros Hr; cbn [List.length] in *; try discriminate; try lia.
    - destruct last; discriminate.
    - pose proof (B_ok _ _ _ _ E) as Hb. cbn in Hb. specialize (IH Hr). lia.
    - pose proof (B_ok _ _ _ _ E) as Hb. cbn in Hb. specialize (IH Hr). lia.
  Qed.

  End Budget.

  (* a finished run does not depend on what the stream would have held further *)
  Lemma Exec_extend (plan : list T) s cl last outs tr r more :
    Exec plan s cl last outs tr r -> r <> RPending ->
    Exec plan s cl last (outs ++ more) tr r.
  Proof.
    intros H. exec_ind H; intros Hr; cbn [app]; try congruence;
      try (econstructor; eauto; fail).
  Qed.
End Generic.

(* ---- consistency along a run, for policies with a "spent" state ---------- *)
Section Carry.
  Variable St : Type.
  Variable decide : St -> request_info -> St * decision.
  Variable T : Type.
  Variable idem : bool.
  Variable spent : St -> Prop.
  Hypothesis spent_stays : forall s ri s' d, decide s ri = (s', d) -> spent s ->
    spent s' /\ carried d = None.
  Hypothesis carry_spends : forall s ri s' d c, decide s ri = (s', d) -> carried d = Some c ->
    spent s'.

  Lemma Forall_eq_repeat {A} (c : A) l : Forall (eq c) l -> l = repeat c (List.length l).
  Proof. induction 1; cbn; [reflexivity | subst; f_equal; assumption]. Qed.

  Lemma Exec_spent_const plan s cl last outs (tr : list (event T)) r :
    Exec decide idem plan s cl last outs tr r -> spent s -> Forall (eq cl) (attempt_cls tr).
  Proof.
    induction 1 as [ s cl last outs | t rest s cl last | t rest s cl last outs tr r H IH
                   | t rest s cl last outs | t rest s cl last e outs s' nc tr r E H IH
                   | t rest s cl last e outs s' nc tr r E H IH
                   | t rest s cl last e outs s' E | t rest s cl last e outs s' E ];
      intros Hs; cbn [attempt_cls]; auto.
    - destruct (spent_stays _ _ _ _ E Hs) as [Hs' Hc]. cbn [carried] in Hc. subst nc.
      constructor; [reflexivity | exact (IH Hs')].
    - destruct (spent_stays _ _ _ _ E Hs) as [Hs' Hc]. cbn [carried] in Hc. subst nc.
      constructor; [reflexivity | exact (IH Hs')].
  Qed.

  (* at most one change of consistency along the attempts of a run *)
  Lemma Exec_one_change plan s cl last outs (tr : list (event T)) r :
    Exec decide idem plan s cl last outs tr r ->
    exists n c' m, attempt_cls tr = repeat cl n ++ repeat c' m.
  Proof.
    induction 1 as [ s cl last outs | t rest s cl last | t rest s cl last outs tr r H IH
                   | t rest s cl last outs | t rest s cl last e outs s' nc tr r E H IH
                   | t rest s cl last e outs s' nc tr r E H IH
                   | t rest s cl last e outs s' E | t rest s cl last e outs s' E ];
      cbn [attempt_cls];
      try (exists 0%nat, cl, 0%nat; reflexivity);
      try (exists 1%nat, cl, 0%nat; reflexivity);
      try exact IH.
    - destruct nc as [c1|]; cbn [unwrap_or] in *.
      + pose proof (carry_spends _ _ _ _ c1 E eq_refl) as Hs'.
        pose proof (Exec_spent_const _ _ _ _ _ _ _ H Hs') as Hf.
        exists 1%nat, c1, (List.length (attempt_cls tr)). cbn [repeat app].
        f_equal. now apply Forall_eq_repeat.
      + destruct IH as [n [c' [m IH]]]. exists (S n), c', m. cbn [repeat app]. now rewrite IH.
    - destruct nc as [c1|]; cbn [unwrap_or] in *.
      + pose proof (carry_spends _ _ _ _ c1 E eq_refl) as Hs'.
        pose proof (Exec_spent_const _ _ _ _ _ _ _ H Hs') as Hf.
        exists 1%nat, c1, (List.length (attempt_cls tr)). cbn [repeat app].
        f_equal. now apply Forall_eq_repeat.
      + destruct IH as [n [c' [m IH]]]. exists (S n), c', m. cbn [repeat app]. now rewrite IH.
  Qed.
End Carry.
