(* Proofs about Model/Request.v (property C09).

   Structure: (1) the shift/mask encoders equal Base/Bytes' encoders; (2) a small calculus
   [reads p enc v] ("reader p consumes exactly enc from the front of any input and returns v")
   with one lemma per protocol notation and per writer of the code; (3) every request body the
   code serialises is read back by the specification parser (reads_request); (4) frames:
   parse_encode, compressed; (5) refusals: oversize, totality, batch count mismatches, the dead
   BadBatchConstructed branch; (6) corollaries: injectivity, set_stream, the meaning of the
   driver's boolean predicate, and the necessity of the "< 4 GiB" premise. *)
From SV Require Import Base.Prelude Base.Bytes Model.Request.
From Coq Require Import Ascii String.
Open Scope N_scope.

Lemma some_inj {A} (a b : A) : Some a = Some b -> a = b.
Proof. intros H. injection H. trivial. Qed.
Lemma ok_inj {E A} (a b : A) : @Ok E A a = Ok b -> a = b.
Proof. intros H. injection H. trivial. Qed.
(* [injection]/[inversion] normalise [be 4 v] for a very long time: always go through some_inj *)
Lemma ok_inj_err {E A} (a b : E) : @Err E A a = Err b -> a = b.
Proof. intros H. injection H. trivial. Qed.
Lemma triple_inj {A B C} (a a' : A) (b b' : B) (c c' : C) :
  (a, b, c) = (a', b', c') -> a = a' /\ b = b' /\ c = c'.
Proof. intros H. injection H. auto. Qed.
Ltac inj H := first [apply some_inj in H | apply ok_inj in H]; try subst.

(* ---------- fast encoders = Base encoders ---------- *)
Lemma be_eq k v : be k v = be_enc k v.
Proof.
  revert v; induction k as [|k IH]; intros v; [reflexivity|].
  cbn [be be_enc]. rewrite IH. f_equal.
  - f_equal. rewrite N.shiftr_div_pow2. reflexivity.
  - f_equal. change 255 with (N.ones 8). rewrite N.land_ones. reflexivity.
Qed.
Lemma sbe_eq k z : sbe k z = enc_signed k z.
Proof. unfold sbe, enc_signed. apply be_eq. Qed.

Lemma blen_app a b : blen (a ++ b) = blen a + blen b.
Proof. unfold blen. rewrite app_length. lia. Qed.
Lemma blen_be k v : blen (be k v) = N.of_nat k.
Proof. unfold blen. rewrite be_eq, be_enc_length. reflexivity. Qed.
Lemma blen_nil : blen [] = 0. Proof. reflexivity. Qed.
Lemma blen_cons x b : blen (x :: b) = 1 + blen b.
Proof. unfold blen. cbn [List.length]. lia. Qed.

(* ---------- takeN ---------- *)
Lemma takeN_0 b : takeN b 0 = Some ([], b).
Proof. destruct b; reflexivity. Qed.
Lemma takeN_app a : forall n r, blen a = n -> takeN (a ++ r) n = Some (a, r).
Proof.
  induction a as [|x a IH]; intros n r H.
  - rewrite blen_nil in H. subst n. apply takeN_0.
  - rewrite blen_cons in H. cbn [app takeN].
    destruct (n =? 0) eqn:E; [apply N.eqb_eq in E; lia|].
    rewrite (IH (N.pred n) r) by lia. reflexivity.
Qed.

(* ---------- the "reads" calculus ---------- *)
Definition reads {A} (p : reader A) (enc : bytes) (v : A) : Prop :=
  forall rest, p (enc ++ rest) = Ok (v, rest).

Lemma reads_ret {A} (a : A) : reads (rret a) [] a.
Proof. intro rest. reflexivity. Qed.
Lemma reads_then {A B} (p : reader A) (f : A -> reader B) e1 e2 a b :
  reads p e1 a -> reads (f a) e2 b -> reads (rthen p f) (e1 ++ e2) b.
Proof. intros H1 H2 rest. unfold rthen. rewrite <- app_assoc, H1. apply H2. Qed.
Lemma reads_map {A B} (p : reader A) (f : A -> B) e a :
  reads p e a -> reads (rthen p (fun x => rret (f x))) e (f a).
Proof. intros H rest. unfold rthen. rewrite H. reflexivity. Qed.
Lemma reads_eq {A} (p : reader A) e e' v : e = e' -> reads p e' v -> reads p e v.
Proof. intros ->. trivial. Qed.

Lemma reads_then0 {A B} (p : reader A) (f : A -> reader B) e a b :
  reads p [] a -> reads (f a) e b -> reads (rthen p f) e b.
Proof. intros H1 H2 rest. unfold rthen. change (e ++ rest) with ([] ++ e ++ rest). rewrite H1. apply H2. Qed.
Lemma reads_take a n : blen a = n -> reads (p_take n) a a.
Proof. intros H rest. unfold p_take. rewrite (takeN_app a n rest H). reflexivity. Qed.
Lemma reads_byte x : reads p_byte [x] x.
Proof. intro rest. reflexivity. Qed.

Lemma reads_map' {A B} (p : reader A) (f : A -> B) e a b :
  reads p e a -> f a = b -> reads (rthen p (fun x => rret (f x))) e b.
Proof. intros H <-. apply reads_map, H. Qed.

Lemma reads_short v : v < 65536 -> reads p_short (be 2 v) v.
Proof.
  intros H. unfold p_short. eapply reads_map'; [apply reads_take, blen_be|].
  rewrite be_eq. apply be_dec_enc_small. exact H.
Qed.

Lemma dec_signed_be4 v : v < 2147483648 -> dec_signed (be 4 v) = Z.of_N v.
Proof.
  intros H. unfold dec_signed. rewrite be_eq, be_enc_length, be_dec_enc_small by (cbn; lia).
  unfold to_signed. change (2 ^ (8 * N.of_nat 4 - 1)) with 2147483648.
  destruct (v <? 2147483648) eqn:E; [reflexivity|apply N.ltb_ge in E; lia].
Qed.
(* a length written by write_int_length reads back as that [int] *)
Lemma reads_int_len v : v < 2147483648 -> reads p_int (be 4 v) (Z.of_N v).
Proof.
  intros H. unfold p_int. eapply reads_map'; [apply reads_take, blen_be|]. apply dec_signed_be4, H.
Qed.
Lemma reads_int z : i32_ok z -> reads p_int (sbe 4 z) z.
Proof.
  intros H. unfold p_int. eapply reads_map'; [apply reads_take; unfold sbe; apply blen_be|].
  rewrite sbe_eq. apply dec_enc_signed; [lia|]. unfold i32_ok in H. cbn. lia.
Qed.
Lemma reads_long z : i64_ok z -> reads p_long (sbe 8 z) z.
Proof.
  intros H. unfold p_long. eapply reads_map'; [apply reads_take; unfold sbe; apply blen_be|].
  rewrite sbe_eq. apply dec_enc_signed; [lia|]. unfold i64_ok in H. cbn. lia.
Qed.

Lemma reads_then_nil {A B} (p : reader A) (f : A -> reader B) e a b :
  reads p e a -> reads (f a) [] b -> reads (rthen p f) e b.
Proof. intros H1 H2. rewrite <- (app_nil_r e). eapply reads_then; eassumption. Qed.

(* ---------- checked length writers ---------- *)
Lemma write_short_length_some v e : write_short_length v = Some e -> v < 65536 /\ e = be 2 v.
Proof.
  unfold write_short_length. destruct (v <? 65536) eqn:E; [|discriminate].
  intros H. inj H. apply N.ltb_lt in E. auto.
Qed.
Lemma write_int_length_some v e : write_int_length v = Some e -> v < 2147483648 /\ e = be 4 v.
Proof.
  unfold write_int_length. destruct (v <? 2147483648) eqn:E; [|discriminate].
  intros H. inj H. apply N.ltb_lt in E. auto.
Qed.
Lemma write_short_length_none v : write_short_length v = None <-> 65536 <= v.
Proof.
  unfold write_short_length. destruct (v <? 65536) eqn:E.
  - apply N.ltb_lt in E. split; [discriminate|lia].
  - apply N.ltb_ge in E. tauto.
Qed.
Lemma write_int_length_none v : write_int_length v = None <-> 2147483648 <= v.
Proof.
  unfold write_int_length. destruct (v <? 2147483648) eqn:E.
  - apply N.ltb_lt in E. split; [discriminate|lia].
  - apply N.ltb_ge in E. tauto.
Qed.

Lemma short_prefixed_some v e :
  match write_short_length (blen v) with Some l => Some (l ++ v) | None => None end = Some e ->
  blen v < 65536 /\ e = be 2 (blen v) ++ v.
Proof.
  destruct (write_short_length (blen v)) as [l|] eqn:E; [|discriminate].
  apply write_short_length_some in E as [H1 ->]. intros H. inj H. auto.
Qed.
Lemma int_prefixed_some v e :
  match write_int_length (blen v) with Some l => Some (l ++ v) | None => None end = Some e ->
  blen v < 2147483648 /\ e = be 4 (blen v) ++ v.
Proof.
  destruct (write_int_length (blen v)) as [l|] eqn:E; [|discriminate].
  apply write_int_length_some in E as [H1 ->]. intros H. inj H. auto.
Qed.

Lemma reads_utf8 s : text_ok s -> reads (p_utf8 s) [] s.
Proof. intros H. unfold p_utf8. rewrite H. apply reads_ret. Qed.
Lemma reads_string s e : text_ok s -> write_string s = Some e -> reads p_string e s.
Proof.
  intros Hu H. apply short_prefixed_some in H as [Hl ->]. unfold p_string.
  eapply reads_then; [apply reads_short, Hl|].
  eapply reads_then_nil; [apply reads_take; reflexivity|apply reads_utf8, Hu].
Qed.
Lemma reads_short_bytes s e : write_short_bytes s = Some e -> reads p_short_bytes e s.
Proof.
  intros H. apply short_prefixed_some in H as [Hl ->]. unfold p_short_bytes.
  eapply reads_then; [apply reads_short, Hl|]. apply reads_take. reflexivity.
Qed.

Lemma reads_long_string s e : text_ok s -> write_long_string s = Some e -> reads p_long_string e s.
Proof.
  intros Hu H. apply int_prefixed_some in H as [Hl ->]. unfold p_long_string.
  eapply reads_then; [apply reads_int_len, Hl|].
  destruct (Z.ltb_spec (Z.of_N (blen s)) 0) as [Hn|_]; [lia|].
  rewrite N2Z.id. eapply reads_then_nil; [apply reads_take; reflexivity|apply reads_utf8, Hu].
Qed.
Lemma reads_bytes_some b e : write_bytes b = Some e -> reads p_bytes e (Some b).
Proof.
  intros H. apply int_prefixed_some in H as [Hl ->]. unfold p_bytes.
  eapply reads_then; [apply reads_int_len, Hl|].
  destruct (Z.ltb_spec (Z.of_N (blen b)) 0) as [Hn|_]; [lia|].
  rewrite N2Z.id. apply reads_map. apply reads_take. reflexivity.
Qed.
Lemma i32_m1 : i32_ok (-1). Proof. unfold i32_ok. cbn. lia. Qed.
Lemma reads_bytes_opt o e : write_bytes_opt o = Some e -> reads p_bytes e o.
Proof.
  destruct o as [b|]; cbn [write_bytes_opt].
  - apply (reads_bytes_some b e).
  - intros H. inj H. unfold p_bytes, write_int.
    eapply reads_then_nil; [apply reads_int, i32_m1|].
    change ((-1 <? 0)%Z) with true. cbv iota. apply reads_ret.
Qed.

(* ---------- values ---------- *)
Lemma reads_cell c e : ser_cell c = Some e -> reads p_value e c.
Proof.
  destruct c as [| |b]; cbn [ser_cell]; intros H.
  - inj H. change [255; 255; 255; 255] with (sbe 4 (-1)). unfold p_value.
    eapply reads_then_nil; [apply reads_int, i32_m1|].
    change ((-1 =? -1)%Z) with true. cbv iota. apply reads_ret.
  - inj H. change [255; 255; 255; 254] with (sbe 4 (-2)). unfold p_value.
    eapply reads_then_nil; [apply reads_int; unfold i32_ok; cbn; lia|].
    change ((-2 =? -1)%Z) with false. change ((-2 =? -2)%Z) with true. cbv iota. apply reads_ret.
  - destruct (blen b <? 2147483648) eqn:E; [|discriminate]. apply N.ltb_lt in E.
    inj H. unfold p_value.
    eapply reads_then; [apply reads_int_len, E|].
    destruct (Z.eqb_spec (Z.of_N (blen b)) (-1)) as [Hn|_]; [lia|].
    destruct (Z.eqb_spec (Z.of_N (blen b)) (-2)) as [Hn|_]; [lia|].
    destruct (Z.ltb_spec (Z.of_N (blen b)) 0) as [Hn|_]; [lia|].
    rewrite N2Z.id. apply reads_map. apply reads_take. reflexivity.
Qed.

Lemma reads_cells l : forall e, ser_cells l = Some e -> reads (p_repeat p_value (List.length l)) e l.
Proof.
  induction l as [|c l IH]; intros e H; cbn [ser_cells] in H.
  - inj H. apply reads_ret.
  - destruct (ser_cell c) as [a|] eqn:Ec; [|discriminate].
    destruct (ser_cells l) as [b|] eqn:El; [|discriminate]. inj H.
    cbn [List.length p_repeat].
    eapply reads_then; [apply reads_cell, Ec|].
    apply reads_map. apply IH. reflexivity.
Qed.

Lemma mk_values_ok l cnt blob : mk_values l = Ok (cnt, blob) ->
  ser_cells l = Some blob /\ cnt = N.of_nat (List.length l) /\ cnt < 65536.
Proof.
  unfold mk_values. destruct (ser_cells l) as [b|]; [|discriminate].
  destruct (N.of_nat (List.length l) <? 65536) eqn:E; [|discriminate].
  intros H. apply ok_inj in H. injection H as <- <-. apply N.ltb_lt in E. auto.
Qed.

Lemma reads_values l blob : ser_cells l = Some blob -> N.of_nat (List.length l) < 65536 ->
  reads p_values (be 2 (N.of_nat (List.length l)) ++ blob) l.
Proof.
  intros H Hl. unfold p_values. eapply reads_then; [apply reads_short, Hl|].
  rewrite Nat2N.id. apply reads_cells, H.
Qed.

(* ---------- consistency, optional parts, flags ---------- *)
Lemma reads_consistency c : reads p_consistency (be 2 (cons_code c)) c.
Proof.
  unfold p_consistency. eapply reads_then_nil.
  - apply reads_short. destruct c; cbn [cons_code]; lia.
  - destruct c; exact (reads_ret _).
Qed.
Lemma reads_serial c : reads p_serial (be 2 (serial_code c)) c.
Proof.
  unfold p_serial. eapply reads_then_nil.
  - apply reads_short. destruct c; cbn [serial_code]; lia.
  - destruct c; exact (reads_ret _).
Qed.

Lemma reads_opt {A} (p : reader A) (enc : A -> bytes) (o : option A) :
  (forall x, o = Some x -> reads p (enc x) x) ->
  reads (p_opt (is_some o) p) (match o with Some x => enc x | None => [] end) o.
Proof.
  intros H. destruct o as [x|]; cbn [is_some p_opt].
  - apply reads_map. apply H. reflexivity.
  - apply reads_ret.
Qed.

Lemma qp_flags_bits b0 b1 b2 b3 b4 b5 :
  (128 <=? qp_flags b0 b1 b2 b3 b4 b5) = false /\
  N.testbit (qp_flags b0 b1 b2 b3 b4 b5) 0 = b0 /\ N.testbit (qp_flags b0 b1 b2 b3 b4 b5) 1 = b1 /\
  N.testbit (qp_flags b0 b1 b2 b3 b4 b5) 2 = b2 /\ N.testbit (qp_flags b0 b1 b2 b3 b4 b5) 3 = b3 /\
  N.testbit (qp_flags b0 b1 b2 b3 b4 b5) 4 = b4 /\ N.testbit (qp_flags b0 b1 b2 b3 b4 b5) 5 = b5 /\
  N.testbit (qp_flags b0 b1 b2 b3 b4 b5) 6 = false.
Proof. destruct b0, b1, b2, b3, b4, b5; vm_compute; repeat split; reflexivity. Qed.

Lemma batch_flags_bits b4 b5 :
  (N.land (batch_flags b4 b5) 207 =? 0) = true /\
  N.testbit (batch_flags b4 b5) 4 = b4 /\ N.testbit (batch_flags b4 b5) 5 = b5.
Proof. destruct b4, b5; vm_compute; repeat split; reflexivity. Qed.

(* ---------- QueryParameters ---------- *)
Definition qp_tail (p : qparams) (psb : bytes) : bytes :=
  match qp_page_size p with Some z => sbe 4 z | None => [] end ++ psb
  ++ match qp_serial p with Some s => be 2 (serial_code s) | None => [] end
  ++ match qp_timestamp p with Some t => sbe 8 t | None => [] end.

Lemma ser_qparams_shape p cnt blob out : ser_qparams p (cnt, blob) = Some out ->
  exists psb,
    match qp_paging p with Some ps => write_bytes ps = Some psb | None => psb = [] end /\
    out = be 2 (cons_code (qp_consistency p))
          ++ [qp_flags (negb (cnt =? 0)) (qp_skip_metadata p) (is_some (qp_page_size p))
                       (is_some (qp_paging p)) (is_some (qp_serial p)) (is_some (qp_timestamp p))]
          ++ (if negb (cnt =? 0) then be 2 cnt ++ blob else []) ++ qp_tail p psb.
Proof.
  unfold ser_qparams, qp_tail, write_short, write_int, write_long.
  destruct p as [c sc ts ps pg skip vals]. cbn [qp_consistency qp_serial qp_timestamp qp_page_size qp_paging qp_skip_metadata].
  set (F := qp_flags _ _ _ _ _ _).
  destruct pg as [pgb|].
  - destruct (write_bytes pgb) as [psb|] eqn:Ep; [|discriminate].
    intros H. inj H. exists psb. split; [reflexivity|].
    destruct (negb (cnt =? 0)), ps, sc, ts; rewrite <- ?app_assoc; cbn [app]; rewrite ?app_nil_r; reflexivity.
  - intros H. inj H. exists []. split; [reflexivity|].
    destruct (negb (cnt =? 0)), ps, sc, ts; rewrite <- ?app_assoc; cbn [app]; rewrite ?app_nil_r; reflexivity.
Qed.

Lemma reads_bytes_nonnull b e : write_bytes b = Some e -> reads p_bytes_nonnull e b.
Proof.
  intros H. unfold p_bytes_nonnull. eapply reads_then_nil; [apply reads_bytes_some, H|]. apply reads_ret.
Qed.
Lemma reads_paging pg psb :
  match pg with Some ps => write_bytes ps = Some psb | None => psb = [] end ->
  reads (p_opt (is_some pg) p_bytes_nonnull) psb pg.
Proof.
  destruct pg as [ps|]; cbn [is_some p_opt]; intros H.
  - apply reads_map. apply reads_bytes_nonnull, H.
  - subst psb. apply reads_ret.
Qed.
Lemma reads_values_nonempty l blob : l <> [] ->
  ser_cells l = Some blob -> N.of_nat (List.length l) < 65536 ->
  reads p_values_nonempty (be 2 (N.of_nat (List.length l)) ++ blob) l.
Proof.
  intros Hne H Hl. unfold p_values_nonempty.
  eapply reads_then_nil; [apply reads_values; assumption|].
  destruct l; [congruence|apply reads_ret].
Qed.

Lemma reads_qparams p cnt blob out :
  qparams_wf p -> mk_values (qp_values p) = Ok (cnt, blob) -> ser_qparams p (cnt, blob) = Some out ->
  reads p_qparams out p.
Proof.
  intros [Hts Hps] Hv Hs.
  apply ser_qparams_shape in Hs as (psb & Hpg & ->).
  apply mk_values_ok in Hv as (Hcells & Hcnt & Hlt).
  destruct p as [c sc ts ps pg skip vals].
  cbn [qp_consistency qp_serial qp_timestamp qp_page_size qp_paging qp_skip_metadata qp_values] in *.
  unfold p_qparams, qp_tail.
  cbn [qp_consistency qp_serial qp_timestamp qp_page_size qp_paging qp_skip_metadata qp_values].
  eapply reads_then; [apply reads_consistency|].
  eapply reads_then; [apply reads_byte|].
  destruct (qp_flags_bits (negb (cnt =? 0)) skip (is_some ps) (is_some pg) (is_some sc) (is_some ts))
    as (H128 & H0 & H1 & H2 & H3 & H4 & H5 & H6).
  rewrite H128, H6, H0, H1, H2, H3, H4, H5. cbv iota.
  eapply reads_then.
  { instantiate (1 := vals). destruct (cnt =? 0) eqn:E0; cbn [negb].
    - apply N.eqb_eq in E0. rewrite E0 in Hcnt. destruct vals; [|cbn [List.length] in Hcnt; lia].
      apply reads_ret.
    - subst cnt. apply reads_values_nonempty; try assumption.
      intros ->. apply N.eqb_neq in E0. apply E0. reflexivity. }
  eapply reads_then; [apply (reads_opt p_int (sbe 4)); intros x ->; apply reads_int, Hps|].
  eapply reads_then; [apply reads_paging, Hpg|].
  eapply reads_then; [apply (reads_opt p_serial (fun s => be 2 (serial_code s))); intros x _; apply reads_serial|].
  eapply reads_map'; [apply (reads_opt p_long (sbe 8)); intros x ->; apply reads_long, Hts|].
  reflexivity.
Qed.

(* ---------- string lists / maps / events ---------- *)
Lemma reads_strings l : Forall text_ok l -> forall e, write_strings l = Some e ->
  reads (p_repeat p_string (List.length l)) e l.
Proof.
  induction l as [|s l IH]; intros Hu e H; cbn [write_strings] in H.
  - inj H. apply reads_ret.
  - destruct (write_string s) as [a|] eqn:Es; [|discriminate].
    destruct (write_strings l) as [b|] eqn:El; [|discriminate]. inj H.
    apply Forall_cons_iff in Hu as [Hs Hl].
    cbn [List.length p_repeat].
    eapply reads_then; [apply reads_string; [exact Hs|exact Es]|]. apply reads_map. apply IH; [exact Hl|reflexivity].
Qed.

Definition p_pair : reader (bytes * bytes) := k <- p_string ;; v <- p_string ;; rret (k, v).
Lemma reads_pairs l : Forall (fun kv => text_ok (fst kv) /\ text_ok (snd kv)) l -> forall e, write_pairs l = Some e ->
  reads (p_repeat p_pair (List.length l)) e l.
Proof.
  induction l as [|[k v] l IH]; intros Hu e H; cbn [write_pairs] in H.
  - inj H. apply reads_ret.
  - destruct (write_string k) as [a|] eqn:Ek; [|discriminate].
    destruct (write_string v) as [b|] eqn:Ev; [|discriminate].
    destruct (write_pairs l) as [c|] eqn:El; [|discriminate]. inj H.
    apply Forall_cons_iff in Hu as [[Hk Hv] Hl]. cbn [fst snd] in Hk, Hv.
    cbn [List.length p_repeat].
    rewrite app_assoc.
    eapply reads_then.
    + unfold p_pair. eapply reads_then; [apply reads_string; [exact Hk|exact Ek]|].
      apply (reads_map p_string (fun v => (k, v))). apply reads_string; [exact Hv|exact Ev].
    + apply reads_map. apply IH; [exact Hl|reflexivity].
Qed.

Lemma p_event_name e : p_event (event_name e) = Some e.
Proof. destruct e; vm_compute; reflexivity. Qed.
Lemma p_events_names evs : p_events (map event_name evs) = Some evs.
Proof.
  induction evs as [|e evs IH]; [reflexivity|].
  cbn [map p_events]. rewrite p_event_name, IH. reflexivity.
Qed.

(* ---------- batch ---------- *)
Lemma patch2_app (a v : bytes) x y c : List.length v = 2%nat ->
  patch2 (List.length a) v (a ++ [x; y] ++ c) = a ++ v ++ c.
Proof.
  intros Hv. unfold patch2.
  rewrite firstn_app, firstn_all, Nat.sub_diag. cbn [firstn]. rewrite app_nil_r.
  rewrite skipn_app, skipn_all2 by lia.
  replace (List.length a + 2 - List.length a)%nat with 2%nat by lia. reflexivity.
Qed.

Lemma reads_batch_query s v sb cb : stmt_wf s ->
  ser_stmt s = Ok sb -> ser_cells v = Some cb -> N.of_nat (List.length v) < 65536 ->
  reads p_batch_query (sb ++ be 2 (N.of_nat (List.length v)) ++ cb) (s, v).
Proof.
  intros Hw Hs Hc Hl. unfold p_batch_query.
  destruct s as [t|id]; cbn [ser_stmt stmt_wf] in Hs, Hw.
  - destruct (write_long_string t) as [b|] eqn:Et; [|discriminate]. inj Hs.
    change (0 :: b) with ([0] ++ b). rewrite <- !app_assoc.
    eapply reads_then; [apply reads_byte|]. cbv iota.
    eapply reads_then; [apply (reads_map p_long_string SQuery), reads_long_string; [exact Hw|exact Et]|].
    apply (reads_map p_values (fun vals => (SQuery t, vals))). apply reads_values; assumption.
  - destruct (write_short_bytes id) as [b|] eqn:Et; [|discriminate]. inj Hs.
    change (1 :: b) with ([1] ++ b). rewrite <- !app_assoc.
    eapply reads_then; [apply reads_byte|]. cbv iota.
    eapply reads_then; [apply (reads_map p_short_bytes SPrepared), reads_short_bytes, Et|].
    apply (reads_map p_values (fun vals => (SPrepared id, vals))). apply reads_values; assumption.
Qed.

Lemma ser_stmt_length s sb : ser_stmt s = Ok sb -> True.
Proof. trivial. Qed.

Lemma batch_loop_ok stmts : forall idx nser n vals body unused nser',
  batch_loop idx nser n stmts vals = Ok (body, unused, nser') ->
  exists used, vals = used ++ unused /\ List.length used = List.length stmts /\
    nser' = nser + N.of_nat (List.length stmts) /\
    (Forall stmt_wf stmts -> reads (p_repeat p_batch_query (List.length stmts)) body (combine stmts used)).
Proof.
  induction stmts as [|s ss IH]; intros idx nser n vals body unused nser' H; cbn [batch_loop] in H.
  - apply ok_inj in H. injection H as <- <- <-. exists []. split; [reflexivity|]. split; [reflexivity|]. split.
    + cbn [List.length]. lia.
    + intros _. apply reads_ret.
  - destruct (ser_stmt s) as [sb|] eqn:Es; [|discriminate].
    destruct vals as [|v vs]; [discriminate|].
    destruct (ser_cells v) as [cb|] eqn:Ec; [|discriminate].
    destruct (N.of_nat (List.length v) <? 65536) eqn:El; [|discriminate]. apply N.ltb_lt in El.
    destruct (batch_loop (idx + 1) (nser + 1) n ss vs) as [[[rest un] n']|] eqn:Er; [|discriminate].
    apply ok_inj, triple_inj in H. destruct H as (<- & <- & <-).
    apply IH in Er as (used & -> & Hlen & -> & Hr).
    exists (v :: used). split; [reflexivity|]. split; [cbn [List.length]; lia|]. split.
    + cbn [List.length]. lia.
    + intros Hw. apply Forall_cons_iff in Hw as [Hws Hwss].
      cbn [List.length p_repeat combine].
      rewrite patch2_app by (rewrite be_eq; apply be_enc_length).
      eapply reads_then; [apply reads_batch_query; eassumption|].
      apply reads_map. exact (Hr Hwss).
Qed.

Lemma map_fst_combine {A B} (l : list A) : forall (m : list B),
  List.length l = List.length m -> map fst (combine l m) = l /\ map snd (combine l m) = m.
Proof.
  induction l as [|x l IH]; intros [|y m] H; cbn [List.length] in H; try discriminate.
  - split; reflexivity.
  - destruct (IH m) as [H1 H2]; [lia|]. cbn [combine map fst snd]. rewrite H1, H2. split; reflexivity.
Qed.

(* ---------- every request body ---------- *)
Lemma reads_opt_short_bytes (o : option bytes) e :
  match o with Some m => write_short_bytes m | None => Some [] end = Some e ->
  reads (p_opt (is_some o) p_short_bytes) e o.
Proof.
  destruct o as [m|]; cbn [is_some p_opt]; intros H.
  - apply reads_map. apply reads_short_bytes, H.
  - inj H. apply reads_ret.
Qed.

Lemma reads_batch bt stmts vals c sc ts body :
  Forall stmt_wf stmts -> opt_ok i64_ok ts -> ser_batch bt stmts vals c sc ts = Ok body ->
  reads (p_request false 13) body (Batch bt stmts vals c sc ts) /\
  reads (p_request true 13) body (Batch bt stmts vals c sc ts).
Proof.
  intros Hst Hts H. unfold ser_batch in H.
  destruct (N.of_nat (List.length stmts) <? 65536) eqn:En; [|discriminate]. apply N.ltb_lt in En.
  destruct (batch_loop 0 0 (N.of_nat (List.length stmts)) stmts vals) as [[[lb un] nser]|] eqn:El;
    [|discriminate].
  destruct un as [|u un]; [|discriminate].
  destruct (nser =? N.of_nat (List.length stmts)); [|discriminate].
  inj H. apply batch_loop_ok in El as (used & -> & Hlen & _ & Hr). rewrite app_nil_r.
  destruct (map_fst_combine stmts used (eq_sym Hlen)) as [Hf Hs].
  destruct (batch_flags_bits (is_some sc) (is_some ts)) as (Hm & H4 & H5).
  assert (G : forall mid, reads (p_request mid 13)
    ([batch_type_code bt] ++ write_short (N.of_nat (List.length stmts)) ++ lb ++
     write_short (cons_code c) ++ [batch_flags (is_some sc) (is_some ts)] ++
     match sc with Some s => write_short (serial_code s) | None => [] end ++
     match ts with Some t => write_long t | None => [] end) (Batch bt stmts used c sc ts)).
  { intro mid. unfold p_request. cbv iota. unfold write_short, write_long.
    eapply reads_then; [apply reads_byte|].
    eapply (reads_then0 _ _ _ bt); [destruct bt; exact (reads_ret _)|].
    eapply reads_then; [apply reads_short, En|]. rewrite Nat2N.id.
    eapply reads_then; [exact (Hr Hst)|].
    eapply reads_then; [apply reads_consistency|].
    eapply reads_then; [apply reads_byte|].
    rewrite Hm, H4, H5. cbn [negb].
    eapply reads_then;
      [apply (reads_opt p_serial (fun s => be 2 (serial_code s))); intros x _; apply reads_serial|].
    eapply reads_map'; [apply (reads_opt p_long (sbe 8)); intros x ->; apply reads_long, Hts|].
    rewrite Hf, Hs. reflexivity. }
  split; apply G.
Qed.

Lemma reads_request r body mid :
  req_wf r -> mid_matches mid r -> serialize_request r = Ok body ->
  reads (p_request mid (opcode r)) body r.
Proof.
  intros Hwf Hmid H.
  destruct r as [text p|text|id m p|bt stmts vals c sc ts|opts|evs| |tok];
    cbn [serialize_request opcode req_wf mid_matches] in *.
  - (* QUERY *)
    destruct (mk_values (qp_values p)) as [[cnt blob]|] eqn:Ev; [|discriminate].
    destruct (write_long_string text) as [a|] eqn:Et; [|discriminate].
    destruct (ser_qparams p (cnt, blob)) as [b|] eqn:Ep; [|discriminate]. inj H.
    unfold p_request. cbv iota. destruct Hwf as [Hu Hwf].
    eapply reads_then; [apply reads_long_string; [exact Hu|exact Et]|].
    apply (reads_map p_qparams (Query text)). eapply reads_qparams; eassumption.
  - (* PREPARE *)
    destruct (write_long_string text) as [a|] eqn:Et; [|discriminate]. inj H.
    unfold p_request. cbv iota. apply (reads_map p_long_string Prepare). apply reads_long_string; [exact Hwf|exact Et].
  - (* EXECUTE *)
    destruct (mk_values (qp_values p)) as [[cnt blob]|] eqn:Ev; [|discriminate].
    destruct (write_short_bytes id) as [a|] eqn:Ei; [|discriminate].
    destruct (match m with Some m0 => write_short_bytes m0 | None => Some [] end) as [mb|] eqn:Em;
      [|discriminate].
    destruct (ser_qparams p (cnt, blob)) as [b|] eqn:Ep; [|discriminate]. inj H.
    unfold p_request. cbv iota.
    eapply reads_then; [apply reads_short_bytes, Ei|].
    eapply reads_then; [apply reads_opt_short_bytes, Em|].
    apply (reads_map p_qparams (Execute id m)). eapply reads_qparams; eassumption.
  - (* BATCH *)
    destruct Hwf as [Hst Hts].
    destruct (reads_batch bt stmts vals c sc ts body Hst Hts H) as [Hf Ht]. destruct mid; assumption.
  - (* STARTUP *)
    destruct (write_string_map opts) as [a|] eqn:Eo; [|discriminate]. inj H.
    unfold write_string_map in Eo.
    destruct (write_short_length (N.of_nat (List.length opts))) as [h|] eqn:Eh; [|discriminate].
    destruct (write_pairs opts) as [b|] eqn:Eb; [|discriminate]. inj Eo.
    apply write_short_length_some in Eh as [Hl ->].
    unfold p_request. cbv iota.
    eapply reads_then; [apply reads_short, Hl|]. rewrite Nat2N.id.
    apply (reads_map _ Startup). apply (reads_pairs opts Hwf b Eb).
  - (* REGISTER *)
    destruct (write_string_list (map event_name evs)) as [a|] eqn:Eo; [|discriminate]. inj H.
    unfold write_string_list in Eo. rewrite map_length in Eo.
    destruct (write_short_length (N.of_nat (List.length evs))) as [h|] eqn:Eh; [|discriminate].
    destruct (write_strings (map event_name evs)) as [b|] eqn:Eb; [|discriminate]. inj Eo.
    apply write_short_length_some in Eh as [Hl ->].
    unfold p_request. cbv iota.
    eapply reads_then; [apply reads_short, Hl|]. rewrite Nat2N.id.
    apply reads_strings in Eb; [|apply Forall_forall; intros x Hx; apply in_map_iff in Hx as (e & <- & _);
                                  destruct e; vm_compute; reflexivity]. rewrite map_length in Eb.
    eapply reads_then_nil; [exact Eb|].
    rewrite p_events_names. apply reads_ret.
  - (* OPTIONS *)
    inj H. unfold p_request. cbv iota. apply reads_ret.
  - (* AUTH_RESPONSE *)
    destruct (write_bytes_opt tok) as [a|] eqn:Et; [|discriminate]. inj H.
    unfold p_request. cbv iota. apply (reads_map p_bytes AuthResponse). apply reads_bytes_opt, Et.
Qed.

(* ---------- frames ---------- *)
Lemma be4_split x : exists a b c d, be 4 x = [a; b; c; d].
Proof.
  rewrite be_eq. pose proof (be_enc_length 4 x) as L.
  destruct (be_enc 4 x) as [|a [|b [|c [|d [|? ?]]]]]; cbn [List.length] in L; try discriminate.
  eauto.
Qed.

Lemma frame_flags_bits c tr :
  (4 <=? frame_flags c tr) = false /\ N.testbit (frame_flags c tr) 0 = c /\
  frame_flags c tr = (if c then 1 else 0) + (if tr then 2 else 0).
Proof. destruct c, tr; vm_compute; repeat split; reflexivity. Qed.

Lemma dec_signed_00 : dec_signed [0; 0] = 0%Z.
Proof. vm_compute. reflexivity. Qed.

Lemma parse_frame_bytes cd alg mid (c tr : bool) op payload body r :
  blen payload < 4294967296 ->
  (if c then exists a, alg = Some a /\ exists x, spec_decompress cd a payload = Ok (body, x)
   else body = payload) ->
  reads (p_request mid op) body r ->
  parse_frame cd alg mid (frame_bytes (frame_flags c tr) op payload)
  = Ok (mkHeader 4 (frame_flags c tr) 0 op (blen payload), r).
Proof.
  intros Hlen Hbody Hr. unfold frame_bytes.
  destruct (be4_split (blen payload)) as (l1 & l2 & l3 & l4 & E).
  rewrite E. cbn [app]. unfold parse_frame.
  change (4 =? 4) with true. cbn [negb].
  rewrite <- E, be_eq, be_dec_enc_small by exact Hlen.
  rewrite N.eqb_refl. cbn [negb].
  destruct (frame_flags_bits c tr) as (H4 & H0 & _). rewrite H4, H0.
  specialize (Hr []). rewrite app_nil_r in Hr.
  destruct c.
  - destruct Hbody as (a & -> & x & Hd). rewrite Hd, Hr, dec_signed_00. reflexivity.
  - subst body. rewrite Hr, dec_signed_00. reflexivity.
Qed.

Lemma blen_frame_bytes fl op payload : blen (frame_bytes fl op payload) = 9 + blen payload.
Proof.
  unfold frame_bytes. rewrite !blen_app, blen_be. unfold blen. cbn [List.length]. lia.
Qed.
Lemma skipn9_frame_bytes fl op payload : skipn 9 (frame_bytes fl op payload) = payload.
Proof.
  unfold frame_bytes. destruct (be4_split (blen payload)) as (a & b & c & d & E).
  rewrite E. reflexivity.
Qed.
(* make succeeds exactly when the payload fits the 32-bit length field *)
Lemma make_frame_ok fl op payload f : make_frame fl op payload = Ok f ->
  blen payload < 4294967296 /\ f = frame_bytes fl op payload.
Proof.
  unfold make_frame. destruct (blen payload <? 4294967296) eqn:E; [|discriminate].
  intros H. inj H. apply N.ltb_lt in E. auto.
Qed.
Lemma make_frame_small fl op payload : blen payload < 4294967296 ->
  make_frame fl op payload = Ok (frame_bytes fl op payload).
Proof. intros H. unfold make_frame. apply N.ltb_lt in H. rewrite H. reflexivity. Qed.
Lemma make_frame_big fl op payload : 4294967296 <= blen payload ->
  make_frame fl op payload = Err (ErrBodyTooLong (blen payload)).
Proof. intros H. unfold make_frame. apply N.ltb_ge in H. rewrite H. reflexivity. Qed.

Theorem parse_encode cd alg tr r f mid :
  req_wf r -> mid_matches mid r ->
  encode_request cd None tr r = Ok f ->
  parse_frame cd alg mid f
  = Ok (mkHeader 4 (if tr then 2 else 0) 0 (opcode r) (blen f - 9), r).
Proof.
  intros Hwf Hmid He. unfold encode_request in He.
  destruct (serialize_request r) as [body|] eqn:Es; [|discriminate].
  apply make_frame_ok in He as [Hlen ->].
  rewrite blen_frame_bytes.
  replace (9 + blen body - 9) with (blen body) by lia.
  rewrite (parse_frame_bytes cd alg mid false tr (opcode r) body body r); [reflexivity|exact Hlen|reflexivity|].
  apply reads_request; assumption.
Qed.

Theorem plain_body cd tr r f :
  encode_request cd None tr r = Ok f -> serialize_request r = Ok (skipn 9 f).
Proof.
  unfold encode_request. destruct (serialize_request r) as [body|]; [|discriminate].
  intros H. apply make_frame_ok in H as [_ ->]. rewrite skipn9_frame_bytes. reflexivity.
Qed.

Lemma spec_decompress_ok cd alg body payload :
  codec_ok cd -> compress_append cd alg body = Ok payload ->
  spec_decompress cd alg payload = Ok (body, []) /\ decompress cd alg payload = Some body.
Proof.
  intros [Hl Hs] Hc. destruct alg; cbn [compress_append] in Hc.
  - destruct (blen body <? 4294967296) eqn:Hlen; [|discriminate]. apply N.ltb_lt in Hlen.
    inj Hc. split.
    + cbn [spec_decompress]. unfold rthen.
      rewrite (reads_take (be 4 (blen body)) 4 (blen_be 4 _)).
      rewrite be_eq, be_dec_enc_small by (cbn; lia). rewrite Hl. reflexivity.
    + cbn [decompress]. rewrite take_app by (rewrite be_eq; apply be_enc_length).
      rewrite be_eq, be_dec_enc_small by (cbn; lia). apply Hl.
  - destruct (snap_compress cd body) as [cmp|] eqn:E; [|discriminate]. inj Hc.
    apply Hs in E. split.
    + cbn [spec_decompress]. rewrite E. reflexivity.
    + cbn [decompress]. exact E.
Qed.

Theorem compressed cd alg tr r f mid body :
  codec_ok cd -> req_wf r -> mid_matches mid r ->
  encode_request cd (Some alg) tr r = Ok f -> serialize_request r = Ok body ->
  decompress cd alg (skipn 9 f) = Some body /\
  parse_frame cd (Some alg) mid f
  = Ok (mkHeader 4 (if tr then 3 else 1) 0 (opcode r) (blen f - 9), r).
Proof.
  intros Hcd Hwf Hmid He Hs. unfold encode_request in He. rewrite Hs in He.
  destruct (compress_append cd alg body) as [payload|] eqn:Ec; [|discriminate].
  apply make_frame_ok in He as [Hlen ->].
  rewrite blen_frame_bytes, skipn9_frame_bytes.
  replace (9 + blen payload - 9) with (blen payload) by lia.
  destruct (spec_decompress_ok cd alg body payload Hcd Ec) as [Hsd Hd].
  split; [exact Hd|].
  rewrite (parse_frame_bytes cd (Some alg) mid true tr (opcode r) payload body r).
  - destruct tr; reflexivity.
  - exact Hlen.
  - exists alg. split; [reflexivity|]. eauto.
  - apply reads_request; assumption.
Qed.

(* ---------- oversize inputs are refused ---------- *)
Lemma ser_cells_oversize l : existsb cell_oversize l = true -> ser_cells l = None.
Proof.
  induction l as [|c l IH]; cbn [existsb ser_cells]; [discriminate|].
  intros H. apply orb_true_iff in H as [H|H].
  - destruct c as [| |b]; cbn [cell_oversize] in H; try discriminate.
    cbn [ser_cell]. apply N.leb_le in H.
    destruct (blen b <? 2147483648) eqn:E; [apply N.ltb_lt in E; lia|reflexivity].
  - rewrite (IH H). destruct (ser_cell c); reflexivity.
Qed.
Lemma mk_values_oversize l : cells_oversize l = true -> exists e, mk_values l = Err e.
Proof.
  unfold cells_oversize, mk_values. intros H. apply orb_true_iff in H as [H|H].
  - destruct (ser_cells l); [|eauto]. apply N.leb_le in H.
    destruct (N.of_nat (List.length l) <? 65536) eqn:E; [apply N.ltb_lt in E; lia|eauto].
  - rewrite (ser_cells_oversize l H). eauto.
Qed.
Lemma short_prefixed_none v : 65536 <= blen v ->
  match write_short_length (blen v) with Some l => Some (l ++ v) | None => None end = None.
Proof. intros H. apply write_short_length_none in H. rewrite H. reflexivity. Qed.
Lemma int_prefixed_none v : 2147483648 <= blen v ->
  match write_int_length (blen v) with Some l => Some (l ++ v) | None => None end = None.
Proof. intros H. apply write_int_length_none in H. rewrite H. reflexivity. Qed.

Lemma ser_qparams_oversize p sv :
  match qp_paging p with Some ps => 2147483648 <=? blen ps | None => false end = true ->
  ser_qparams p sv = None.
Proof.
  destruct sv as [cnt blob]. unfold ser_qparams. destruct (qp_paging p) as [ps|]; [|discriminate].
  intros H. apply N.leb_le in H. apply write_int_length_none in H. unfold write_bytes. rewrite H. reflexivity.
Qed.

Lemma ser_stmt_oversize s : stmt_oversize s = true -> exists e, ser_stmt s = Err e.
Proof.
  destruct s as [t|id]; cbn [stmt_oversize ser_stmt]; intros H; apply N.leb_le in H.
  - apply write_int_length_none in H. unfold write_long_string. rewrite H. eauto.
  - apply write_short_length_none in H. unfold write_short_bytes. rewrite H. eauto.
Qed.
Lemma ser_stmt_ok_small s sb : ser_stmt s = Ok sb -> stmt_oversize s = false.
Proof.
  intros H. destruct (stmt_oversize s) eqn:E; [|reflexivity].
  apply ser_stmt_oversize in E as [e E]. congruence.
Qed.

Lemma batch_loop_oversize stmts : forall idx nser n vals,
  existsb stmt_oversize stmts || existsb cells_oversize vals = true ->
  match batch_loop idx nser n stmts vals with
  | Err _ => True
  | Ok (_, unused, _) => unused <> []
  end.
Proof.
  induction stmts as [|s ss IH]; intros idx nser n vals H; cbn [batch_loop].
  - cbn [existsb orb] in H. destruct vals; [discriminate|]. discriminate.
  - destruct (ser_stmt s) as [sb|] eqn:Es; [|exact I].
    apply ser_stmt_ok_small in Es. cbn [existsb] in H. rewrite Es in H. cbn [orb] in H.
    destruct vals as [|v vs]; [exact I|].
    destruct (ser_cells v) as [cb|] eqn:Ec; [|exact I].
    destruct (N.of_nat (List.length v) <? 65536) eqn:El; [|exact I].
    assert (Hv : cells_oversize v = false).
    { unfold cells_oversize. apply orb_false_iff. split.
      - apply N.ltb_lt in El. apply N.leb_gt. exact El.
      - destruct (existsb cell_oversize v) eqn:E; [|reflexivity].
        rewrite (ser_cells_oversize v E) in Ec. discriminate. }
    cbn [existsb] in H. rewrite Hv in H. cbn [orb] in H.
    specialize (IH (idx + 1) (nser + 1) n vs H).
    destruct (batch_loop (idx + 1) (nser + 1) n ss vs) as [[[rest un] n']|]; [exact IH|exact I].
Qed.

Theorem oversize_refused r : oversize r = true -> exists e, serialize_request r = Err e.
Proof.
  destruct r as [text p|text|id m p|bt stmts vals c sc ts|opts|evs| |tok];
    cbn [oversize serialize_request]; intros H.
  - (* QUERY *)
    destruct (mk_values (qp_values p)) as [sv|e] eqn:Ev; [|eauto].
    apply orb_true_iff in H as [H|H].
    + apply N.leb_le in H. apply write_int_length_none in H. unfold write_long_string. rewrite H. eauto.
    + unfold qparams_oversize in H. apply orb_true_iff in H as [H|H].
      * apply mk_values_oversize in H as [e H]. congruence.
      * rewrite (ser_qparams_oversize p sv H). destruct (write_long_string text); eauto.
  - apply N.leb_le in H. apply write_int_length_none in H. unfold write_long_string. rewrite H. eauto.
  - (* EXECUTE *)
    destruct (mk_values (qp_values p)) as [sv|e] eqn:Ev; [|eauto].
    apply orb_true_iff in H as [H|H]; [apply orb_true_iff in H as [H|H]|].
    + apply N.leb_le in H. apply write_short_length_none in H. unfold write_short_bytes at 1. rewrite H. eauto.
    + destruct (write_short_bytes id); [|eauto].
      destruct m as [x|]; [|discriminate]. apply N.leb_le in H.
      apply write_short_length_none in H. unfold write_short_bytes. rewrite H. eauto.
    + destruct (write_short_bytes id); [|eauto].
      destruct (match m with Some m0 => write_short_bytes m0 | None => Some [] end); [|eauto].
      unfold qparams_oversize in H. apply orb_true_iff in H as [H|H].
      * apply mk_values_oversize in H as [e H]. congruence.
      * rewrite (ser_qparams_oversize p sv H). eauto.
  - (* BATCH *)
    unfold ser_batch.
    destruct (N.of_nat (List.length stmts) <? 65536) eqn:En; [|eauto].
    apply N.ltb_lt in En. rewrite <- orb_assoc in H. apply orb_true_iff in H as [H|H].
    + apply N.leb_le in H. lia.
    + pose proof (batch_loop_oversize stmts 0 0 (N.of_nat (List.length stmts)) vals H) as B.
      destruct (batch_loop 0 0 (N.of_nat (List.length stmts)) stmts vals) as [[[lb un] nser]|]; [|eauto].
      destruct un; [congruence|eauto].
  - (* STARTUP *)
    unfold write_string_map. apply orb_true_iff in H as [H|H].
    + apply N.leb_le in H. apply write_short_length_none in H. rewrite H. eauto.
    + destruct (write_short_length (N.of_nat (List.length opts))); [|eauto].
      assert (G : write_pairs opts = None).
      { induction opts as [|[k v] l IH]; cbn [existsb] in H; [discriminate|].
        cbn [write_pairs]. apply orb_true_iff in H as [H|H].
        - cbn [fst snd] in H. apply orb_true_iff in H as [H|H]; apply N.leb_le in H.
          + apply write_short_length_none in H. unfold write_string at 1. rewrite H. reflexivity.
          + destruct (write_string k); [|reflexivity].
            apply write_short_length_none in H. unfold write_string. rewrite H. reflexivity.
        - rewrite (IH H). destruct (write_string k); [|reflexivity].
          destruct (write_string v); reflexivity. }
      rewrite G. eauto.
  - (* REGISTER *)
    unfold write_string_list. rewrite map_length. apply N.leb_le in H.
    apply write_short_length_none in H. rewrite H. eauto.
  - discriminate.
  - destruct tok as [b|]; [|discriminate]. apply N.leb_le in H. cbn [write_bytes_opt].
    apply write_int_length_none in H. rewrite H. eauto.
Qed.

(* ---------- nothing else is refused; batch count mismatches ---------- *)
Lemma ser_cells_total l : existsb cell_oversize l = false -> exists b, ser_cells l = Some b.
Proof.
  induction l as [|c l IH]; cbn [existsb ser_cells]; [eauto|].
  intros H. apply orb_false_iff in H as [Hc Hl]. destruct (IH Hl) as [b ->].
  destruct c as [| |v]; cbn [ser_cell]; eauto.
  cbn [cell_oversize] in Hc. apply N.leb_gt in Hc. apply N.ltb_lt in Hc. rewrite Hc. eauto.
Qed.
Lemma mk_values_total l : cells_oversize l = false -> exists sv, mk_values l = Ok sv.
Proof.
  unfold cells_oversize, mk_values. intros H. apply orb_false_iff in H as [Hn Hc].
  destruct (ser_cells_total l Hc) as [b ->]. apply N.leb_gt in Hn. apply N.ltb_lt in Hn.
  rewrite Hn. eauto.
Qed.
Lemma ser_qparams_total p sv :
  match qp_paging p with Some ps => 2147483648 <=? blen ps | None => false end = false ->
  exists out, ser_qparams p sv = Some out.
Proof.
  destruct sv as [cnt blob]. unfold ser_qparams. destruct (qp_paging p) as [ps|]; intros H.
  - apply N.leb_gt in H. unfold write_bytes, write_int_length. apply N.ltb_lt in H. rewrite H. eauto.
  - eauto.
Qed.
Lemma write_short_length_total v : (65536 <=? v) = false -> write_short_length v = Some (be 2 v).
Proof. intros H. apply N.leb_gt in H. apply N.ltb_lt in H. unfold write_short_length. rewrite H. reflexivity. Qed.
Lemma write_int_length_total v : (2147483648 <=? v) = false -> write_int_length v = Some (be 4 v).
Proof. intros H. apply N.leb_gt in H. apply N.ltb_lt in H. unfold write_int_length. rewrite H. reflexivity. Qed.
Lemma ser_stmt_total s : stmt_oversize s = false -> exists sb, ser_stmt s = Ok sb.
Proof.
  destruct s as [t|id]; cbn [stmt_oversize ser_stmt]; intros H.
  - unfold write_long_string. rewrite (write_int_length_total _ H). eauto.
  - unfold write_short_bytes. rewrite (write_short_length_total _ H). eauto.
Qed.

Lemma batch_loop_total stmts : forall idx nser n vals,
  existsb stmt_oversize stmts = false -> existsb cells_oversize vals = false ->
  if (List.length stmts <=? List.length vals)%nat
  then exists body, batch_loop idx nser n stmts vals
                    = Ok (body, skipn (List.length stmts) vals, nser + N.of_nat (List.length stmts))
  else batch_loop idx nser n stmts vals = Err (ErrBatchMismatch (idx + N.of_nat (List.length vals)) n).
Proof.
  induction stmts as [|s ss IH]; intros idx nser n vals Hs Hv; cbn [List.length batch_loop].
  - cbn [Nat.leb skipn]. exists []. rewrite N.add_0_r. reflexivity.
  - cbn [existsb] in Hs. apply orb_false_iff in Hs as [Hs Hss].
    destruct (ser_stmt_total s Hs) as [sb ->].
    destruct vals as [|v vs]; cbn [List.length Nat.leb].
    + rewrite N.add_0_r. reflexivity.
    + cbn [existsb] in Hv. apply orb_false_iff in Hv as [Hv Hvs].
      unfold cells_oversize in Hv. apply orb_false_iff in Hv as [Hn Hc].
      destruct (ser_cells_total v Hc) as [cb ->]. apply N.leb_gt in Hn. apply N.ltb_lt in Hn. rewrite Hn.
      specialize (IH (idx + 1) (nser + 1) n vs Hss Hvs). cbn [skipn].
      destruct (List.length ss <=? List.length vs)%nat.
      * destruct IH as [body ->].
        replace (nser + N.of_nat (S (List.length ss))) with (nser + 1 + N.of_nat (List.length ss)) by lia.
        eexists. reflexivity.
      * rewrite IH. replace (idx + 1 + N.of_nat (List.length vs)) with (idx + N.of_nat (S (List.length vs))) by lia.
        reflexivity.
Qed.

Theorem encode_total r :
  oversize r = false -> batch_counts_match r = true -> exists body, serialize_request r = Ok body.
Proof.
  destruct r as [text p|text|id m p|bt stmts vals c sc ts|opts|evs| |tok];
    cbn [oversize batch_counts_match serialize_request]; intros H Hm.
  - apply orb_false_iff in H as [Ht Hp]. unfold qparams_oversize in Hp.
    apply orb_false_iff in Hp as [Hv Hpg].
    destruct (mk_values_total _ Hv) as [sv ->].
    unfold write_long_string. rewrite (write_int_length_total _ Ht).
    destruct (ser_qparams_total p sv Hpg) as [b ->]. eauto.
  - unfold write_long_string. rewrite (write_int_length_total _ H). eauto.
  - apply orb_false_iff in H as [H Hp]. apply orb_false_iff in H as [Hi Hmid].
    unfold qparams_oversize in Hp. apply orb_false_iff in Hp as [Hv Hpg].
    destruct (mk_values_total _ Hv) as [sv ->].
    unfold write_short_bytes at 1. rewrite (write_short_length_total _ Hi).
    assert (exists mb, match m with Some m0 => write_short_bytes m0 | None => Some [] end = Some mb)
      as [mb ->].
    { destruct m as [x|]; [|eauto].
      unfold write_short_bytes. rewrite (write_short_length_total _ Hmid). eauto. }
    destruct (ser_qparams_total p sv Hpg) as [b ->]. eauto.
  - rewrite <- orb_assoc in H. apply orb_false_iff in H as [Hn H]. apply orb_false_iff in H as [Hs Hv].
    unfold ser_batch. apply N.leb_gt in Hn. apply N.ltb_lt in Hn. rewrite Hn.
    apply Nat.eqb_eq in Hm.
    pose proof (batch_loop_total stmts 0 0 (N.of_nat (List.length stmts)) vals Hs Hv) as B.
    rewrite Hm, Nat.leb_refl in B. destruct B as [body B].
    rewrite <- Hm in B. rewrite B. rewrite Hm, skipn_all. rewrite <- Hm.
    rewrite N.add_0_l, N.eqb_refl. eauto.
  - apply orb_false_iff in H as [Hn Hp]. unfold write_string_map.
    apply N.leb_gt in Hn. apply N.ltb_lt in Hn. unfold write_short_length. rewrite Hn.
    assert (exists b, write_pairs opts = Some b) as [b ->]; [|eauto].
    induction opts as [|[k v] l IH]; cbn [existsb write_pairs] in *; [eauto|].
    apply orb_false_iff in Hp as [Hkv Hl]. cbn [fst snd] in Hkv. apply orb_false_iff in Hkv as [Hk Hv].
    unfold write_string at 1. rewrite (write_short_length_total _ Hk).
    unfold write_string at 1. rewrite (write_short_length_total _ Hv).
    destruct IH as [c ->]; [cbn [List.length] in Hn; lia|exact Hl|]. eauto.
  - unfold write_string_list. rewrite map_length.
    apply N.leb_gt in H. apply N.ltb_lt in H. unfold write_short_length. rewrite H.
    assert (exists b, write_strings (map event_name evs) = Some b) as [b ->]; [|eauto].
    clear H. induction evs as [|e l IH]; cbn [map write_strings]; [eauto|].
    destruct IH as [b ->].
    assert (exists a, write_string (event_name e) = Some a) as [a ->];
      [destruct e; vm_compute; eauto|eauto].
  - eauto.
  - destruct tok as [b|]; cbn [write_bytes_opt]; [|eauto].
    rewrite (write_int_length_total _ H). eauto.
Qed.

Theorem batch_mismatch_class bt stmts vals c sc ts :
  oversize (Batch bt stmts vals c sc ts) = false -> List.length stmts <> List.length vals ->
  serialize_request (Batch bt stmts vals c sc ts)
  = Err (ErrBatchMismatch (N.of_nat (List.length vals)) (N.of_nat (List.length stmts))).
Proof.
  cbn [oversize serialize_request]. intros H Hne.
  rewrite <- orb_assoc in H. apply orb_false_iff in H as [Hn H]. apply orb_false_iff in H as [Hs Hv].
  unfold ser_batch. apply N.leb_gt in Hn. apply N.ltb_lt in Hn. rewrite Hn.
  pose proof (batch_loop_total stmts 0 0 (N.of_nat (List.length stmts)) vals Hs Hv) as B.
  destruct (List.length stmts <=? List.length vals)%nat eqn:E.
  - apply Nat.leb_le in E. destruct B as [body ->].
    destruct (skipn (List.length stmts) vals) as [|u rest] eqn:Ek.
    + apply (f_equal (@List.length _)) in Ek. rewrite skipn_length in Ek. cbn [List.length] in Ek. lia.
    + apply (f_equal (@List.length _)) in Ek. rewrite skipn_length in Ek. cbn [List.length] in Ek.
      repeat f_equal; lia.
  - rewrite B. rewrite N.add_0_l. reflexivity.
Qed.

Theorem batch_mismatch_refused bt stmts vals c sc ts :
  List.length stmts <> List.length vals ->
  exists e, serialize_request (Batch bt stmts vals c sc ts) = Err e.
Proof.
  intros Hne. cbn [serialize_request]. unfold ser_batch.
  destruct (N.of_nat (List.length stmts) <? 65536); [|eauto].
  destruct (batch_loop 0 0 (N.of_nat (List.length stmts)) stmts vals) as [[[lb un] nser]|] eqn:El; [|eauto].
  destruct un as [|u un]; [|eauto].
  apply batch_loop_ok in El as (used & -> & Hlen & _ & _). rewrite app_nil_r in Hne. congruence.
Qed.

(* the BadBatchConstructed branch of do_serialize is dead *)
Lemma batch_loop_not_bad stmts : forall idx nser n vals e a b,
  batch_loop idx nser n stmts vals = Err e -> e <> ErrBadBatch a b.
Proof.
  induction stmts as [|s ss IH]; intros idx nser n vals e a b H; cbn [batch_loop] in H; [discriminate|].
  destruct (ser_stmt s); [|congruence].
  destruct vals as [|v vs]; [congruence|].
  destruct (ser_cells v); [|congruence].
  destruct (N.of_nat (List.length v) <? 65536); [|congruence].
  destruct (batch_loop (idx + 1) (nser + 1) n ss vs) as [[[rest un] n']|e'] eqn:Er; [discriminate|].
  apply ok_inj_err in H. subst e'. eapply IH. exact Er.
Qed.

Theorem bad_batch_unreachable r a b : serialize_request r <> Err (ErrBadBatch a b).
Proof.
  destruct r as [text p|text|id m p|bt stmts vals c sc ts|opts|evs| |tok]; cbn [serialize_request].
  - unfold mk_values. destruct (ser_cells (qp_values p)); [|congruence].
    destruct (N.of_nat (List.length (qp_values p)) <? 65536); [|congruence].
    destruct (write_long_string text); [|congruence]. destruct (ser_qparams p _); congruence.
  - destruct (write_long_string text); congruence.
  - unfold mk_values. destruct (ser_cells (qp_values p)); [|congruence].
    destruct (N.of_nat (List.length (qp_values p)) <? 65536); [|congruence].
    destruct (write_short_bytes id); [|congruence].
    destruct (match m with Some m0 => write_short_bytes m0 | None => Some [] end); [|congruence].
    destruct (ser_qparams p _); congruence.
  - unfold ser_batch. destruct (N.of_nat (List.length stmts) <? 65536); [|congruence].
    destruct (batch_loop 0 0 (N.of_nat (List.length stmts)) stmts vals) as [[[lb un] nser]|e] eqn:El.
    + destruct un; [|congruence].
      apply batch_loop_ok in El as (used & _ & _ & -> & _). rewrite N.add_0_l, N.eqb_refl. congruence.
    + intros H. apply ok_inj_err in H. eapply batch_loop_not_bad; eassumption.
  - destruct (write_string_map opts); congruence.
  - destruct (write_string_list (map event_name evs)); congruence.
  - congruence.
  - destruct (write_bytes_opt tok); congruence.
Qed.

(* ---------- corollaries ---------- *)
Lemma mid_matches_self r : mid_matches (uses_mid r) r.
Proof. destruct r; cbn [mid_matches uses_mid]; trivial. Qed.

Theorem encode_injective cd tr r1 r2 f :
  req_wf r1 -> req_wf r2 -> uses_mid r1 = uses_mid r2 ->
  encode_request cd None tr r1 = Ok f -> encode_request cd None tr r2 = Ok f -> r1 = r2.
Proof.
  intros W1 W2 Hm E1 E2.
  pose proof (parse_encode cd None tr r1 f (uses_mid r1) W1 (mid_matches_self r1) E1) as P1.
  assert (M2 : mid_matches (uses_mid r1) r2).
  { destruct r2; cbn [mid_matches]; trivial. }
  pose proof (parse_encode cd None tr r2 f (uses_mid r1) W2 M2 E2) as P2.
  rewrite P1 in P2. apply ok_inj in P2. injection P2. auto.
Qed.

Lemma be2_split x : exists a b, be 2 x = [a; b].
Proof.
  rewrite be_eq. pose proof (be_enc_length 2 x) as L.
  destruct (be_enc 2 x) as [|a [|b [|? ?]]]; cbn [List.length] in L; try discriminate. eauto.
Qed.

Definition with_stream (s : Z) (h : header) : header :=
  mkHeader (h_version h) (h_flags h) s (h_opcode h) (h_length h).

Theorem set_stream_parse cd alg mid f h r s :
  (- 2 ^ 15 <= s < 2 ^ 15)%Z ->
  parse_frame cd alg mid f = Ok (h, r) ->
  parse_frame cd alg mid (set_stream s f) = Ok (with_stream s h, r).
Proof.
  intros Hs H.
  destruct f as [|v [|fl [|s1 [|s2 [|op [|l1 [|l2 [|l3 [|l4 body]]]]]]]]]; try discriminate.
  unfold set_stream. cbn [firstn skipn app].
  assert (D : exists a b, sbe 2 s = [a; b] /\ dec_signed [a; b] = s).
  { destruct (be2_split (wrap_bits (8 * N.of_nat 2) s)) as (a & b & E). exists a, b.
    unfold sbe. split; [exact E|]. rewrite <- E. fold (sbe 2 s). rewrite sbe_eq.
    apply dec_enc_signed; [lia|]. cbn. lia. }
  destruct D as (a & b & -> & Hd). cbn [app].
  unfold parse_frame in *.
  destruct (negb (v =? 4)); [discriminate|].
  destruct (negb (be_dec [l1; l2; l3; l4] =? blen body)); [discriminate|].
  destruct (4 <=? fl); [discriminate|].
  destruct (if N.testbit fl 0 then _ else _) as [body'|]; [|discriminate].
  destruct (p_request mid op body') as [[r' rest]|]; [|discriminate].
  destruct rest; [|discriminate].
  apply ok_inj in H. injection H as <- <-. rewrite Hd. reflexivity.
Qed.

(* ---------- encode_request level restatements ---------- *)
Lemma body_too_long_spec r : body_too_long r = true <->
  exists body, serialize_request r = Ok body /\ 4294967296 <= blen body.
Proof.
  unfold body_too_long. destruct (serialize_request r) as [b|e].
  - split.
    + intros H. apply N.leb_le in H. eauto.
    + intros (body & H & Hl). apply ok_inj in H. subst body. apply N.leb_le. exact Hl.
  - split; [discriminate|]. intros (body & H & _). discriminate.
Qed.

(* a body that does not fit the length field is refused with its size (uncompressed and LZ4; with
   Snappy the same check applies to the compressed payload: payload_too_long) *)
Theorem body_too_long_class cd c tr r body :
  serialize_request r = Ok body -> 4294967296 <= blen body -> c <> Some Snappy ->
  encode_request cd c tr r = Err (ErrBodyTooLong (blen body)).
Proof.
  intros Hs Hl Hc. unfold encode_request. rewrite Hs.
  destruct c as [[|]|]; [|congruence|].
  - cbn [compress_append]. apply N.ltb_ge in Hl. rewrite Hl. reflexivity.
  - apply make_frame_big, Hl.
Qed.
Theorem payload_too_long cd alg tr r body payload :
  serialize_request r = Ok body -> compress_append cd alg body = Ok payload ->
  4294967296 <= blen payload ->
  encode_request cd (Some alg) tr r = Err (ErrBodyTooLong (blen payload)).
Proof.
  intros Hs Hc Hl. unfold encode_request. rewrite Hs, Hc. apply make_frame_big, Hl.
Qed.

Theorem oversize_refused_frame cd c tr r :
  oversize r = true \/ (body_too_long r = true /\ c <> Some Snappy) ->
  exists e, encode_request cd c tr r = Err e.
Proof.
  intros [H|[H Hc]].
  - apply oversize_refused in H as [e H]. unfold encode_request. rewrite H. eauto.
  - apply body_too_long_spec in H as (body & Hs & Hl).
    rewrite (body_too_long_class cd c tr r body Hs Hl Hc). eauto.
Qed.
Theorem encode_total_frame cd tr r :
  oversize r = false -> batch_counts_match r = true -> body_too_long r = false ->
  (exists f, encode_request cd None tr r = Ok f) /\
  (forall body, serialize_request r = Ok body -> 4 + blen (lz4_compress cd body) < 4294967296 ->
     exists f, encode_request cd (Some Lz4) tr r = Ok f).
Proof.
  intros H1 H2 H3. destruct (encode_total r H1 H2) as [body H]. unfold encode_request.
  unfold body_too_long in H3. rewrite H in *. apply N.leb_gt in H3. split.
  - rewrite (make_frame_small _ _ body H3). eauto.
  - intros body' Hb Hc. apply ok_inj in Hb. subst body'. cbn [compress_append].
    apply N.ltb_lt in H3. rewrite H3. rewrite make_frame_small; [eauto|].
    rewrite blen_app, blen_be. exact Hc.
Qed.
Theorem batch_mismatch_frame cd cmp tr bt stmts vals c sc ts :
  oversize (Batch bt stmts vals c sc ts) = false -> List.length stmts <> List.length vals ->
  encode_request cd cmp tr (Batch bt stmts vals c sc ts)
  = Err (ErrBatchMismatch (N.of_nat (List.length vals)) (N.of_nat (List.length stmts))).
Proof.
  intros H1 H2. unfold encode_request. rewrite (batch_mismatch_class bt stmts vals c sc ts H1 H2).
  reflexivity.
Qed.
Theorem batch_mismatch_refused_frame cd cmp tr bt stmts vals c sc ts :
  List.length stmts <> List.length vals ->
  exists e, encode_request cd cmp tr (Batch bt stmts vals c sc ts) = Err e.
Proof.
  intros H. destruct (batch_mismatch_refused bt stmts vals c sc ts H) as [e He].
  unfold encode_request. rewrite He. eauto.
Qed.
Lemma make_frame_not_bad fl op payload a b : make_frame fl op payload <> Err (ErrBadBatch a b).
Proof. unfold make_frame. destruct (blen payload <? 4294967296); congruence. Qed.
Theorem bad_batch_unreachable_frame cd cmp tr r a b : encode_request cd cmp tr r <> Err (ErrBadBatch a b).
Proof.
  unfold encode_request. pose proof (bad_batch_unreachable r a b) as H.
  destruct (serialize_request r) as [body|e]; [|congruence].
  destruct cmp as [alg|]; [|apply make_frame_not_bad].
  destruct alg; cbn [compress_append].
  - destruct (blen body <? 4294967296); [apply make_frame_not_bad|congruence].
  - destruct (snap_compress cd body); [apply make_frame_not_bad|congruence].
Qed.

(* ---------- the driver's boolean predicate means the property ---------- *)
Theorem frame_says_sound cd c tr st r f : frame_says cd c tr st r f = true ->
  exists h, parse_frame cd c (uses_mid r) f = Ok (h, r) /\ h_version h = 4 /\ h_opcode h = opcode r /\
            h_length h + 9 = blen f /\ h_flags h = frame_flags (is_some c) tr /\ h_stream h = st.
Proof.
  unfold frame_says. destruct (parse_frame cd c (uses_mid r) f) as [[h r']|]; [|discriminate].
  intros H. repeat (apply andb_true_iff in H as [H ?]).
  destruct (req_eq_dec r' r) as [->|]; [|discriminate].
  exists h. repeat split; try reflexivity;
    first [apply N.eqb_eq; assumption | apply Z.eqb_eq; assumption].
Qed.
Lemma blen_set_stream st f : 4 <= blen f -> blen (set_stream st f) = blen f.
Proof.
  intros H. unfold set_stream, blen in *. rewrite !app_length, firstn_length, skipn_length.
  unfold sbe. rewrite be_eq, be_enc_length. lia.
Qed.
(* the frame as made (stream 0) and the frame after set_stream st both satisfy the predicate *)
Theorem frame_says_complete cd tr r f :
  req_wf r -> encode_request cd None tr r = Ok f ->
  frame_says cd None tr 0 r f = true /\
  forall st, (- 2 ^ 15 <= st < 2 ^ 15)%Z -> frame_says cd None tr st r (set_stream st f) = true.
Proof.
  intros W E.
  pose proof (parse_encode cd None tr r f (uses_mid r) W (mid_matches_self r) E) as P.
  assert (L : blen f - 9 + 9 = blen f /\ 4 <= blen f).
  { unfold encode_request in E. destruct (serialize_request r) as [body|]; [|discriminate].
    apply make_frame_ok in E as [_ ->]. rewrite blen_frame_bytes. lia. }
  destruct L as [L L4].
  assert (F : (if tr then 2 else 0) = frame_flags false tr) by (destruct tr; reflexivity).
  split.
  - unfold frame_says. rewrite P.
    cbn [h_version h_opcode h_length h_flags h_stream is_some].
    destruct (req_eq_dec r r) as [_|N]; [|congruence].
    rewrite L, F, !N.eqb_refl. reflexivity.
  - intros st Hst. unfold frame_says.
    rewrite (set_stream_parse cd None (uses_mid r) f _ r st Hst P).
    cbn [with_stream h_version h_opcode h_length h_flags h_stream is_some].
    destruct (req_eq_dec r r) as [_|N]; [|congruence].
    rewrite blen_set_stream by exact L4. rewrite L, F, !N.eqb_refl, Z.eqb_refl. reflexivity.
Qed.

(* ---------- bodies around 4 GiB: the uniform BATCH of the tie's `L` cases ---------- *)
Lemma batch_loop_uniform text n : blen text < 2147483648 -> forall idx nser m,
  exists body, batch_loop idx nser m (repeat (SQuery text) n) (repeat [] n) = Ok (body, [], nser + N.of_nat n) /\
               blen body = N.of_nat n * (1 + 4 + blen text + 2).
Proof.
  intros Ht. induction n as [|n IH]; intros idx nser m; cbn [repeat batch_loop].
  - exists []. split; [rewrite N.add_0_r; reflexivity|reflexivity].
  - cbn [ser_stmt]. unfold write_long_string, write_int_length.
    apply N.ltb_lt in Ht. rewrite Ht. cbn [ser_cells].
    change (N.of_nat (List.length (@nil cell)) <? 65536) with true. cbv iota.
    destruct (IH (idx + 1) (nser + 1) m) as (rest & -> & Hr).
    eexists. split.
    + replace (nser + N.of_nat (S n)) with (nser + 1 + N.of_nat n) by lia. reflexivity.
    + rewrite patch2_app by reflexivity.
      rewrite !blen_app, Hr, blen_cons, blen_app, !blen_be, blen_nil. lia.
Qed.

(* what make returns for that batch, as far as sizes go, is [uniform_batch_outcome]: a frame of
   9 + size bytes whose length field is the size, or BodyTooLong(size) from 4 GiB on *)
Theorem uniform_batch cd text n :
  blen text < 2147483648 -> N.of_nat n < 65536 ->
  match uniform_batch_outcome (N.of_nat n) (blen text) with
  | Ok b => exists f, encode_request cd None false
                        (Batch Logged (repeat (SQuery text) n) (repeat [] n) One None None) = Ok f /\
                      blen f = 9 + b /\ be_dec (firstn 4 (skipn 5 f)) = b
  | Err b => encode_request cd None false
               (Batch Logged (repeat (SQuery text) n) (repeat [] n) One None None)
             = Err (ErrBodyTooLong b) /\ 4294967296 <= b
  end.
Proof.
  intros Ht Hn. unfold encode_request. cbn [serialize_request]. unfold ser_batch.
  rewrite repeat_length. apply N.ltb_lt in Hn. rewrite Hn.
  destruct (batch_loop_uniform text n Ht 0 0 (N.of_nat n)) as (lb & Hl & Hb). rewrite Hl.
  rewrite N.add_0_l, N.eqb_refl. cbn [is_some].
  set (body := [batch_type_code Logged] ++ _).
  assert (Hbody : blen body = batch_body_len (N.of_nat n) (blen text)).
  { unfold body, batch_body_len, write_short. rewrite !blen_app, Hb, !blen_be, !blen_cons, !blen_nil. lia. }
  unfold uniform_batch_outcome, size_outcome. rewrite <- Hbody.
  destruct (blen body <? 4294967296) eqn:E.
  - apply N.ltb_lt in E. rewrite (make_frame_small _ _ body E). eexists. split; [reflexivity|]. split.
    + apply blen_frame_bytes.
    + unfold frame_bytes. destruct (be4_split (blen body)) as (a & b & c & d & E4).
      rewrite E4. cbn [app skipn firstn]. rewrite <- E4, be_eq. apply be_dec_enc_small. exact E.
  - apply N.ltb_ge in E. split; [apply make_frame_big, E|exact E].
Qed.

(* what make does with any payload, sizes only (the tie's `M` cases) *)
Theorem make_sizes fl op payload :
  match size_outcome (blen payload) with
  | Ok b => exists f, make_frame fl op payload = Ok f /\ blen f = 9 + b /\ be_dec (firstn 4 (skipn 5 f)) = b
  | Err b => make_frame fl op payload = Err (ErrBodyTooLong b) /\ 4294967296 <= b
  end.
Proof.
  unfold size_outcome. destruct (blen payload <? 4294967296) eqn:E.
  - apply N.ltb_lt in E. rewrite (make_frame_small _ _ payload E). eexists. split; [reflexivity|]. split.
    + apply blen_frame_bytes.
    + unfold frame_bytes. destruct (be4_split (blen payload)) as (a & b & c & d & E4).
      rewrite E4. cbn [app skipn firstn]. rewrite <- E4, be_eq. apply be_dec_enc_small. exact E.
  - apply N.ltb_ge in E. split; [apply make_frame_big, E|exact E].
Qed.
Theorem lz4_sizes cd body :
  match size_outcome (blen body) with
  | Ok b => compress_append cd Lz4 body = Ok (be 4 b ++ lz4_compress cd body)
  | Err b => compress_append cd Lz4 body = Err (ErrBodyTooLong b)
  end.
Proof. unfold size_outcome. cbn [compress_append]. destruct (blen body <? 4294967296); reflexivity. Qed.

(* ---------- PART 3: rows bound to columns ---------- *)
Section RowProofs.
  Variables V T : Type.
  Variable vser : V -> T -> option cell.
  Notation row := (row V).
  Notation ser_columns := (ser_columns V T vser).
  Notation ser_by_name := (ser_by_name V T vser).
  Notation bind_row := (bind_row V T vser).
  Notation row_serialize := (row_serialize V T vser).
  Notation row_binds := (row_binds V T vser).

  Lemma ser_columns_ok cols : forall vs cells,
    List.length cols = List.length vs -> ser_columns cols vs = Ok cells ->
    List.length cells = List.length cols /\
    forall i name t, nth_error cols i = Some (name, t) ->
      exists v c, nth_error vs i = Some v /\ vser v t = Some c /\ nth_error cells i = Some c.
  Proof.
    induction cols as [|[n0 t0] cs IH]; intros vs cells Hl H.
    - destruct vs; [|discriminate]. cbn in H. apply ok_inj in H. subst cells.
      split; [reflexivity|]. intros [|i] ? ? Hn; discriminate.
    - destruct vs as [|v r]; [discriminate|]. cbn [List.length] in Hl. cbn [Request.ser_columns] in H.
      destruct (vser v t0) as [c|] eqn:Ev; [|discriminate].
      destruct (ser_columns cs r) as [l|] eqn:Er; [|discriminate].
      apply ok_inj in H. subst cells.
      destruct (IH r l) as [IL IN]; [lia|exact Er|]. split; [cbn [List.length]; lia|].
      intros [|i] name t Hn; cbn [nth_error] in *.
      + injection Hn as <- <-. eauto.
      + exact (IN i name t Hn).
  Qed.

  Lemma ser_by_name_ok kvs cols : forall cells,
    ser_by_name kvs cols = Ok cells ->
    List.length cells = List.length cols /\
    forall i name t, nth_error cols i = Some (name, t) ->
      exists v c, assoc V name kvs = Some v /\ vser v t = Some c /\ nth_error cells i = Some c.
  Proof.
    induction cols as [|[n0 t0] cs IH]; intros cells H; cbn [Request.ser_by_name] in H.
    - apply ok_inj in H. subst cells. split; [reflexivity|]. intros [|i] ? ? Hn; discriminate.
    - destruct (assoc V n0 kvs) as [v|] eqn:Ea; [|discriminate].
      destruct (vser v t0) as [c|] eqn:Ev; [|discriminate].
      destruct (ser_by_name kvs cs) as [l|] eqn:Er; [|discriminate].
      apply ok_inj in H. subst cells. destruct (IH l eq_refl) as [IL IN].
      split; [cbn [List.length]; lia|].
      intros [|i] name t Hn; cbn [nth_error] in *.
      + injection Hn as <- <-. eauto.
      + exact (IN i name t Hn).
  Qed.

  Lemma min_bytes_none l : min_bytes l = None -> l = [].
  Proof. destruct l as [|x r]; [reflexivity|]. cbn. destruct (min_bytes r); discriminate. Qed.
  Lemma min_bytes_some l : l <> [] -> exists m, min_bytes l = Some m.
  Proof. destruct l as [|x r]; [congruence|]. intros _. cbn. destruct (min_bytes r); eauto. Qed.
  Lemma filter_nil {A} (f : A -> bool) l : filter f l = [] -> forall x, In x l -> f x = false.
  Proof.
    induction l as [|a l IH]; cbn; [tauto|]. destruct (f a) eqn:E; [discriminate|].
    intros H x [<-|Hx]; auto.
  Qed.

  Theorem bind_row_ok cols r cells : bind_row cols r = Ok cells ->
    row_binds cols r cells /\ row_complete V T cols r /\ N.of_nat (List.length cells) < 65536.
  Proof.
    unfold Request.bind_row. destruct (row_serialize cols r) as [l|] eqn:Es; [|discriminate].
    destruct (N.of_nat (List.length l) <? 65536) eqn:El; [|discriminate]. intros H.
    apply ok_inj in H. subst l. apply N.ltb_lt in El.
    assert (G : row_binds cols r cells /\ row_complete V T cols r); [|tauto].
    destruct r as [|vs|kvs]; cbn [Request.row_serialize] in Es.
    - destruct cols; [|discriminate]. apply ok_inj in Es. subst cells.
      split; [|exact I]. split; [reflexivity|]. intros [|i] ? ? Hn; discriminate.
    - destruct (List.length cols =? List.length vs)%nat eqn:E; [|discriminate].
      apply Nat.eqb_eq in E. destruct (ser_columns_ok cols vs cells E Es) as [L N].
      split; [split; [exact L|exact N]|]. cbn. lia.
    - destruct (ser_by_name kvs cols) as [l|] eqn:Eb; [|discriminate].
      destruct (min_bytes _) eqn:Em; [discriminate|]. apply ok_inj in Es. subst l.
      destruct (ser_by_name_ok kvs cols cells Eb) as [L N].
      split; [split; [exact L|exact N]|].
      cbn. intros k Hk. apply min_bytes_none in Em.
      pose proof (filter_nil _ _ Em k Hk) as F. apply negb_false_iff in F. exact F.
  Qed.

  (* the converse: whenever every bind marker gets a serialisable value, nothing supplied is left
     over and there are at most 65535 markers, the row binds *)
  Definition row_good (cols : list (bytes * T)) (r : row) : Prop :=
    row_complete V T cols r /\
    (forall i name t, nth_error cols i = Some (name, t) ->
       exists v c, supplied V r i name = Some v /\ vser v t = Some c) /\
    N.of_nat (List.length cols) < 65536.

  Lemma ser_columns_total cols : forall vs, List.length cols = List.length vs ->
    (forall i name t, nth_error cols i = Some (name, t) ->
       exists v c, nth_error vs i = Some v /\ vser v t = Some c) ->
    exists cells, ser_columns cols vs = Ok cells.
  Proof.
    induction cols as [|[n0 t0] cs IH]; intros vs Hl H.
    - destruct vs; cbn; eauto.
    - destruct vs as [|v r]; [discriminate|]. cbn [List.length] in Hl. cbn [Request.ser_columns].
      destruct (H 0%nat n0 t0 eq_refl) as (v' & c & Hv & Hc). cbn in Hv. injection Hv as <-. rewrite Hc.
      destruct (IH r) as [l ->]; [lia| |eauto].
      intros i name t Hn. exact (H (S i) name t Hn).
  Qed.
  Lemma ser_by_name_total kvs cols :
    (forall i name t, nth_error cols i = Some (name, t) ->
       exists v c, assoc V name kvs = Some v /\ vser v t = Some c) ->
    exists cells, ser_by_name kvs cols = Ok cells.
  Proof.
    induction cols as [|[n0 t0] cs IH]; intros H; cbn [Request.ser_by_name]; [eauto|].
    destruct (H 0%nat n0 t0 eq_refl) as (v & c & -> & ->).
    destruct IH as [l ->]; [|eauto]. intros i name t Hn. exact (H (S i) name t Hn).
  Qed.

  Theorem bind_row_total cols r : row_good cols r -> exists cells, bind_row cols r = Ok cells.
  Proof.
    intros (Hc & Hs & Hn).
    assert (G : exists cells, row_serialize cols r = Ok cells /\ List.length cells = List.length cols).
    { destruct r as [|vs|kvs]; cbn [Request.row_serialize].
      - destruct cols as [|[n0 t0] cs]; [eauto|].
        destruct (Hs 0%nat n0 t0 eq_refl) as (v & c & Hv & _). discriminate.
      - cbn in Hc. rewrite Hc, Nat.eqb_refl.
        destruct (ser_columns_total cols vs (eq_sym Hc) Hs) as [cells E]. exists cells. split; [exact E|].
        apply (ser_columns_ok cols vs cells (eq_sym Hc) E).
      - destruct (ser_by_name_total kvs cols Hs) as [cells E]. rewrite E.
        cbn in Hc.
        assert (F : filter (fun k => negb (col_named T cols k)) (map fst kvs) = []).
        { clear -Hc. induction (map fst kvs) as [|k l IH]; [reflexivity|]. cbn.
          rewrite (Hc k (or_introl eq_refl)). cbn. apply IH. intros x Hx. apply Hc. right. exact Hx. }
        rewrite F. cbn. exists cells. split; [reflexivity|]. apply (ser_by_name_ok kvs cols cells E). }
    destruct G as (cells & E & L). unfold Request.bind_row. rewrite E, L.
    apply N.ltb_lt in Hn. rewrite Hn. eauto.
  Qed.

  (* refusals, by class *)
  Theorem bind_row_count_mismatch cols vs : List.length vs <> List.length cols ->
    bind_row cols (RSeq vs) = Err (WrongColumnCount (N.of_nat (List.length vs)) (N.of_nat (List.length cols))).
  Proof.
    intros H. unfold Request.bind_row. cbn [Request.row_serialize].
    destruct (List.length cols =? List.length vs)%nat eqn:E; [apply Nat.eqb_eq in E; congruence|reflexivity].
  Qed.
  Theorem bind_row_unit_nonempty c cols :
    bind_row (c :: cols) RUnit = Err (WrongColumnCount 0 (N.of_nat (S (List.length cols)))).
  Proof. reflexivity. Qed.
End RowProofs.

Theorem values_in_frame V T vser cols r cells cd alg tr id m p f :
  bind_row V T vser cols r = Ok cells -> qp_values p = cells -> qparams_wf p ->
  encode_request cd None tr (Execute id m p) = Ok f ->
  exists h p', parse_frame cd alg (is_some m) f = Ok (h, Execute id m p') /\
               row_binds V T vser cols r (qp_values p') /\ row_complete V T cols r.
Proof.
  intros Hb Hv Hw He.
  pose proof (parse_encode cd alg tr (Execute id m p) f (is_some m) Hw eq_refl He) as P.
  destruct (bind_row_ok V T vser cols r cells Hb) as (B & C & _).
  eexists. exists p. split; [exact P|]. rewrite Hv. split; assumption.
Qed.

(* ---------- the 2^31 boundaries ---------- *)
Lemma frame_of_body cd tr r body : serialize_request r = Ok body -> blen body < 4294967296 ->
  exists f, encode_request cd None tr r = Ok f /\ blen f = 9 + blen body.
Proof.
  intros Hs Hl. unfold encode_request. rewrite Hs, (make_frame_small _ _ body Hl).
  eexists. split; [reflexivity|apply blen_frame_bytes].
Qed.

Theorem int_boundary cd k x :
  match big_outcome k (blen x) with
  | Ok b => exists f, encode_request cd None false (big_request k x) = Ok f /\ blen f = 9 + b
  | Err e => encode_request cd None false (big_request k x) = Err e
  end.
Proof.
  unfold big_outcome. destruct (blen x <? 2147483648) eqn:E.
  - apply N.ltb_lt in E.
    destruct k; cbn [big_request big_body_len].
    + assert (S : serialize_request (Prepare x) = Ok (be 4 (blen x) ++ x)).
      { cbn [serialize_request]. unfold write_long_string, write_int_length.
        apply N.ltb_lt in E. rewrite E. reflexivity. }
      destruct (frame_of_body cd false _ _ S) as (f & Hf & Hl); [rewrite blen_app, blen_be; lia|].
      exists f. split; [exact Hf|]. rewrite Hl, blen_app, blen_be. lia.
    + assert (S : serialize_request (Query x (plain_params []))
                  = Ok ((be 4 (blen x) ++ x) ++ write_short (cons_code One) ++ [0])).
      { cbn [serialize_request plain_params qp_values]. unfold mk_values. cbn [ser_cells List.length].
        change (N.of_nat 0 <? 65536) with true. cbv iota.
        unfold write_long_string, write_int_length. apply N.ltb_lt in E. rewrite E. reflexivity. }
      destruct (frame_of_body cd false _ _ S) as (f & Hf & Hl).
      * rewrite !blen_app, blen_be. unfold write_short. rewrite blen_be. rewrite ?blen_cons, ?blen_nil. lia.
      * exists f. split; [exact Hf|]. rewrite Hl, !blen_app, blen_be. unfold write_short. rewrite blen_be.
        rewrite ?blen_cons, ?blen_nil. lia.
    + assert (S : serialize_request (AuthResponse (Some x)) = Ok (be 4 (blen x) ++ x)).
      { cbn [serialize_request write_bytes_opt]. unfold write_int_length. apply N.ltb_lt in E. rewrite E. reflexivity. }
      destruct (frame_of_body cd false _ _ S) as (f & Hf & Hl); [rewrite blen_app, blen_be; lia|].
      exists f. split; [exact Hf|]. rewrite Hl, blen_app, blen_be. lia.
    + assert (S : serialize_request (Query [] (plain_params [CVal x]))
                  = Ok (be 4 0 ++ (write_short (cons_code One) ++ [1]) ++ be 2 1 ++ (be 4 (blen x) ++ x) ++ [])).
      { cbn [serialize_request plain_params qp_values]. unfold mk_values. cbn [ser_cells ser_cell].
        apply N.ltb_lt in E. rewrite E. cbn [List.length].
        change (N.of_nat 1 <? 65536) with true. cbv iota. reflexivity. }
      destruct (frame_of_body cd false _ _ S) as (f & Hf & Hl).
      * rewrite !blen_app, !blen_be. unfold write_short. rewrite blen_be. rewrite ?blen_cons, ?blen_nil. lia.
      * exists f. split; [exact Hf|]. rewrite Hl, !blen_app, !blen_be. unfold write_short. rewrite blen_be.
        rewrite ?blen_cons, ?blen_nil. lia.
    + pose proof (uniform_batch cd x 1 E) as U. unfold uniform_batch_outcome, size_outcome in U.
      assert (B : batch_body_len (N.of_nat 1) (blen x) < 4294967296) by (unfold batch_body_len; lia).
      apply N.ltb_lt in B. rewrite B in U. destruct U as (f & Hf & Hl & _); [cbn; lia|].
      exists f. split; [exact Hf|exact Hl].
  - destruct k; cbn [big_request big_err]; unfold encode_request; cbn [serialize_request].
    + unfold write_long_string, write_int_length. rewrite E. reflexivity.
    + unfold mk_values. cbn [plain_params qp_values ser_cells List.length].
      change (N.of_nat 0 <? 65536) with true. cbv iota.
      unfold write_long_string, write_int_length. rewrite E. reflexivity.
    + cbn [write_bytes_opt]. unfold write_int_length. rewrite E. reflexivity.
    + unfold mk_values. cbn [plain_params qp_values ser_cells ser_cell]. rewrite E. reflexivity.
    + unfold ser_batch. cbn [List.length]. change (N.of_nat 1 <? 65536) with true. cbv iota.
      cbn [batch_loop ser_stmt]. unfold write_long_string, write_int_length. rewrite E. reflexivity.
Qed.

(* ---------- the row theorems instantiated with C01's value codec ---------- *)
Lemma blen_is_Cql_blen b : Cql.blen b = blen b.
Proof. reflexivity. Qed.

(* the tie's value universe IS C01's codec on those carriers (also for mismatched types and for
   contents of 2^31 bytes or more) *)
Theorem mini_ser_is_C01 v t : mini_ser v t = c01_vser (mval_cell v) (mty_ctype t).
Proof.
  destruct v as [z|b|b| |], t; cbn [mini_ser mval_cell mty_ctype c01_vser Cql.ser_value]; try reflexivity.
  - rewrite sbe_eq. reflexivity.
  - unfold Cql.set_value, Cql.i32_max. change (Cql.blen b) with (blen b).
    destruct (blen b <? 2147483648) eqn:E.
    + apply N.ltb_lt in E. destruct (2147483647 <? blen b) eqn:F; [apply N.ltb_lt in F; lia|reflexivity].
    + apply N.ltb_ge in E. destruct (2147483647 <? blen b) eqn:F; [reflexivity|apply N.ltb_ge in F; lia].
  - unfold Cql.set_value, Cql.i32_max. change (Cql.blen b) with (blen b).
    destruct (blen b <? 2147483648) eqn:E.
    + apply N.ltb_lt in E. destruct (2147483647 <? blen b) eqn:F; [apply N.ltb_lt in F; lia|reflexivity].
    + apply N.ltb_ge in E. destruct (2147483647 <? blen b) eqn:F; [reflexivity|apply N.ltb_ge in F; lia].
Qed.

(* what the frame carries for a cell bound through C01's codec is exactly C01's [value] bytes *)
Theorem c01_cell_wire c t rc wire : c01_vser c t = Some rc -> ser_cell rc = Some wire ->
  Cql.ser_cell t c = Ok wire.
Proof.
  destruct c as [| |v]; cbn [c01_vser]; intros H W.
  - inj H. cbn [ser_cell] in W. inj W. reflexivity.
  - inj H. cbn [ser_cell] in W. inj W. reflexivity.
  - unfold Cql.ser_cell, Cql.ser_cell_ws. destruct (Cql.ser_value true t v) as [b|e] eqn:E; [|discriminate].
    inj H. cbn [rbind]. cbn [ser_cell] in W.
    destruct (blen b <? 2147483648); [|discriminate]. inj W.
    unfold Cql.framed, Cql.be32. change (Cql.blen b) with (blen b). rewrite be_eq. reflexivity.
Qed.

Lemma ser_cells_nth l : forall blob i rc, ser_cells l = Some blob -> nth_error l i = Some rc ->
  exists wire, ser_cell rc = Some wire.
Proof.
  induction l as [|c l IH]; intros blob i rc H Hn; [destruct i; discriminate|].
  cbn [ser_cells] in H. destruct (ser_cell c) as [a|] eqn:Ec; [|discriminate].
  destruct (ser_cells l) as [b|] eqn:El; [|discriminate].
  destruct i as [|i]; cbn [nth_error] in Hn.
  - apply some_inj in Hn. subst rc. eauto.
  - exact (IH b i rc eq_refl Hn).
Qed.

(* rows of CqlValues bound through C01's codec: every [value] of the frame is C01's encoding, for
   the marker's column type, of the value the caller supplied for that marker *)
Theorem values_are_C01 cols r cells blob :
  bind_row Cql.cell Cql.ctype c01_vser cols r = Ok cells -> ser_cells cells = Some blob ->
  List.length cells = List.length cols /\
  forall i name t, nth_error cols i = Some (name, t) ->
    exists c rc wire, supplied Cql.cell r i name = Some c /\ nth_error cells i = Some rc /\
                      ser_cell rc = Some wire /\ Cql.ser_cell t c = Ok wire.
Proof.
  intros Hb Hs. destruct (bind_row_ok _ _ _ cols r cells Hb) as ([L B] & _ & _).
  split; [exact L|]. intros i name t Hn. destruct (B i name t Hn) as (c & rc & Hc & Hv & Hrc).
  destruct (ser_cells_nth cells blob i rc Hs Hrc) as [wire Hw].
  exists c, rc, wire. repeat split; try assumption. exact (c01_cell_wire c t rc wire Hv Hw).
Qed.

(* ---------- UTF-8: Cql.utf8_valid against the independent specifications ---------- *)
Lemma cont_iff x : Cql.cont x = true <-> utail x.
Proof.
  unfold Cql.cont, utail. rewrite andb_true_iff, !N.leb_le. tauto.
Qed.

Ltac btest :=
  repeat match goal with
  | |- context [?a <? ?b] => destruct (N.ltb_spec a b); try lia
  | |- context [?a <=? ?b] => destruct (N.leb_spec a b); try lia
  | |- context [?a =? ?b] => destruct (N.eqb_spec a b); try lia
  end.

Lemma utf8_valid_of_wf b : utf8_wf b -> Cql.utf8_valid b = true.
Proof.
  induction 1 as [|x r Hx _ IH|x c1 r Hx H1 _ IH|c1 c2 r H1 H2 _ IH|x c1 c2 r Hx H1 H2 _ IH|c1 c2 r H1 H2 _ IH
                 |x c1 c2 r Hx H1 H2 _ IH|c1 c2 c3 r H1 H2 H3 _ IH|x c1 c2 c3 r Hx H1 H2 H3 _ IH|c1 c2 c3 r H1 H2 H3 _ IH];
    cbn [Cql.utf8_valid]; unfold utail in *;
    repeat match goal with H : _ <= _ <= _ |- _ => destruct H end;
    try reflexivity; unfold Cql.cont; btest; cbn [andb orb]; try assumption; try reflexivity.
Qed.

Lemma andb4 a b c d : a && b && c && d = true -> a = true /\ b = true /\ c = true /\ d = true.
Proof. intros H. repeat (apply andb_true_iff in H as [H ?]). auto. Qed.
Lemma andb3 a b c : a && b && c = true -> a = true /\ b = true /\ c = true.
Proof. intros H. repeat (apply andb_true_iff in H as [H ?]). auto. Qed.

Lemma wf_of_utf8_valid_n n : forall b, (List.length b <= n)%nat -> Cql.utf8_valid b = true -> utf8_wf b.
Proof.
  induction n as [|n IH]; intros b Hl H.
  - destruct b; [constructor|cbn [List.length] in Hl; lia].
  - destruct b as [|x r]; [constructor|]. cbn [List.length] in Hl. cbn [Cql.utf8_valid] in H.
    destruct (N.ltb_spec x 128) as [A|A].
    { apply wf_ascii; [lia|]. apply IH; [lia|exact H]. }
    destruct ((194 <=? x) && (x <=? 223)) eqn:E2.
    { apply andb_true_iff in E2 as [E2a E2b]. apply N.leb_le in E2a, E2b.
      destruct r as [|c1 r1]; [discriminate|]. apply andb_true_iff in H as [H1 Hr]. apply cont_iff in H1.
      apply wf_2; [lia|exact H1|]. apply IH; [cbn [List.length] in Hl; lia|exact Hr]. }
    destruct (N.eqb_spec x 224) as [->|N224].
    { destruct r as [|c1 [|c2 r2]]; try discriminate. apply andb4 in H as (Ha & Hb & Hc & Hr).
      apply N.leb_le in Ha, Hb. apply cont_iff in Hc.
      apply wf_e0; [lia|exact Hc|]. apply IH; [cbn [List.length] in Hl; lia|exact Hr]. }
    destruct (((225 <=? x) && (x <=? 236)) || (x =? 238) || (x =? 239)) eqn:E3.
    { destruct r as [|c1 [|c2 r2]]; try discriminate. apply andb3 in H as (Ha & Hb & Hr).
      apply cont_iff in Ha, Hb.
      assert (Hrr : utf8_wf r2) by (apply IH; [cbn [List.length] in Hl; lia|exact Hr]).
      apply orb_true_iff in E3 as [E3|E3]; [apply orb_true_iff in E3 as [E3|E3]|].
      - apply andb_true_iff in E3 as [Ea Eb]. apply N.leb_le in Ea, Eb. apply wf_e1; [lia|assumption..].
      - apply N.eqb_eq in E3. apply wf_ee; [lia|assumption..].
      - apply N.eqb_eq in E3. apply wf_ee; [lia|assumption..]. }
    destruct (N.eqb_spec x 237) as [->|N237].
    { destruct r as [|c1 [|c2 r2]]; try discriminate. apply andb4 in H as (Ha & Hb & Hc & Hr).
      apply N.leb_le in Ha, Hb. apply cont_iff in Hc.
      apply wf_ed; [lia|exact Hc|]. apply IH; [cbn [List.length] in Hl; lia|exact Hr]. }
    destruct (N.eqb_spec x 240) as [->|N240].
    { destruct r as [|c1 [|c2 [|c3 r3]]]; try discriminate.
      apply andb_true_iff in H as [H Hr]. apply andb4 in H as (Ha & Hb & Hc & Hd).
      apply N.leb_le in Ha, Hb. apply cont_iff in Hc, Hd.
      apply wf_f0; [lia|exact Hc|exact Hd|]. apply IH; [cbn [List.length] in Hl; lia|exact Hr]. }
    destruct ((241 <=? x) && (x <=? 243)) eqn:E4.
    { apply andb_true_iff in E4 as [Ea Eb]. apply N.leb_le in Ea, Eb.
      destruct r as [|c1 [|c2 [|c3 r3]]]; try discriminate. apply andb4 in H as (Ha & Hb & Hc & Hr).
      apply cont_iff in Ha, Hb, Hc.
      apply wf_f1; [lia|assumption..|]. apply IH; [cbn [List.length] in Hl; lia|exact Hr]. }
    destruct (N.eqb_spec x 244) as [->|N244]; [|discriminate].
    destruct r as [|c1 [|c2 [|c3 r3]]]; try discriminate.
    apply andb_true_iff in H as [H Hr]. apply andb4 in H as (Ha & Hb & Hc & Hd).
    apply N.leb_le in Ha, Hb. apply cont_iff in Hc, Hd.
    apply wf_f4; [lia|exact Hc|exact Hd|]. apply IH; [cbn [List.length] in Hl; lia|exact Hr].
Qed.

Theorem utf8_valid_iff_wf b : Cql.utf8_valid b = true <-> utf8_wf b.
Proof. split; [apply (wf_of_utf8_valid_n (List.length b)); lia|apply utf8_valid_of_wf]. Qed.

Lemma enc_wf c r : scalar c -> utf8_wf r -> utf8_wf (utf8_enc c ++ r).
Proof.
  intros Hs Hr. unfold utf8_enc, scalar in *.
  destruct (N.ltb_spec c 128) as [A|A]; [cbn [app]; apply wf_ascii; [lia|exact Hr]|].
  destruct (N.ltb_spec c 2048) as [B|B].
  { cbn [app]. apply wf_2; [lia|unfold utail; lia|exact Hr]. }
  destruct (N.ltb_spec c 65536) as [C|C].
  { cbn [app].
    assert (Q : c / 4096 = 0 \/ (1 <= c / 4096 <= 12) \/ c / 4096 = 13 \/ (14 <= c / 4096 <= 15)) by lia.
    destruct Q as [Q|[Q|[Q|Q]]].
    - rewrite Q. change (224 + 0) with 224. apply wf_e0; [lia|unfold utail; lia|exact Hr].
    - apply wf_e1; [lia|unfold utail; lia|unfold utail; lia|exact Hr].
    - rewrite Q. change (224 + 13) with 237. apply wf_ed; [lia|unfold utail; lia|exact Hr].
    - apply wf_ee; [lia|unfold utail; lia|unfold utail; lia|exact Hr]. }
  cbn [app].
  assert (Q : c / 262144 = 0 \/ (1 <= c / 262144 <= 3) \/ c / 262144 = 4) by lia.
  destruct Q as [Q|[Q|Q]].
  - rewrite Q. change (240 + 0) with 240. apply wf_f0; [lia|unfold utail; lia|unfold utail; lia|exact Hr].
  - apply wf_f1; [lia|unfold utail; lia|unfold utail; lia|unfold utail; lia|exact Hr].
  - rewrite Q. change (240 + 4) with 244. apply wf_f4; [lia|unfold utail; lia|unfold utail; lia|exact Hr].
Qed.

Ltac enc_eq :=
  unfold utf8_enc;
  repeat match goal with
  | |- context [?a <? ?b] => destruct (N.ltb_spec a b); try lia
  end;
  repeat (f_equal; try lia).

Lemma wf_decode b : utf8_wf b -> exists cs, Forall scalar cs /\ b = utf8_of cs.
Proof.
  induction 1 as [|x r Hx _ IH|x c1 r Hx H1 _ IH|c1 c2 r H1 H2 _ IH|x c1 c2 r Hx H1 H2 _ IH|c1 c2 r H1 H2 _ IH
                 |x c1 c2 r Hx H1 H2 _ IH|c1 c2 c3 r H1 H2 H3 _ IH|x c1 c2 c3 r Hx H1 H2 H3 _ IH|c1 c2 c3 r H1 H2 H3 _ IH];
    unfold utail in *.
  - exists []. split; [constructor|reflexivity].
  - destruct IH as (cs & Hcs & ->). exists (x :: cs). split; [constructor; [unfold scalar; lia|exact Hcs]|].
    change (utf8_of (x :: cs)) with (utf8_enc x ++ utf8_of cs).
    replace (utf8_enc x) with [x] by enc_eq. reflexivity.
  - destruct IH as (cs & Hcs & ->). set (c := (x - 192) * 64 + (c1 - 128)).
    exists (c :: cs). split; [constructor; [unfold scalar, c; lia|exact Hcs]|].
    change (utf8_of (c :: cs)) with (utf8_enc c ++ utf8_of cs).
    replace (utf8_enc c) with [x; c1] by (unfold c; enc_eq). reflexivity.
  - destruct IH as (cs & Hcs & ->). set (c := (c1 - 128) * 64 + (c2 - 128)).
    exists (c :: cs). split; [constructor; [unfold scalar, c; lia|exact Hcs]|].
    change (utf8_of (c :: cs)) with (utf8_enc c ++ utf8_of cs).
    replace (utf8_enc c) with [224; c1; c2] by (unfold c; enc_eq). reflexivity.
  - destruct IH as (cs & Hcs & ->). set (c := (x - 224) * 4096 + (c1 - 128) * 64 + (c2 - 128)).
    exists (c :: cs). split; [constructor; [unfold scalar, c; lia|exact Hcs]|].
    change (utf8_of (c :: cs)) with (utf8_enc c ++ utf8_of cs).
    replace (utf8_enc c) with [x; c1; c2] by (unfold c; enc_eq). reflexivity.
  - destruct IH as (cs & Hcs & ->). set (c := 13 * 4096 + (c1 - 128) * 64 + (c2 - 128)).
    exists (c :: cs). split; [constructor; [unfold scalar, c; lia|exact Hcs]|].
    change (utf8_of (c :: cs)) with (utf8_enc c ++ utf8_of cs).
    replace (utf8_enc c) with [237; c1; c2] by (unfold c; enc_eq). reflexivity.
  - destruct IH as (cs & Hcs & ->). set (c := (x - 224) * 4096 + (c1 - 128) * 64 + (c2 - 128)).
    exists (c :: cs). split; [constructor; [unfold scalar, c; lia|exact Hcs]|].
    change (utf8_of (c :: cs)) with (utf8_enc c ++ utf8_of cs).
    replace (utf8_enc c) with [x; c1; c2] by (unfold c; enc_eq). reflexivity.
  - destruct IH as (cs & Hcs & ->). set (c := (c1 - 128) * 4096 + (c2 - 128) * 64 + (c3 - 128)).
    exists (c :: cs). split; [constructor; [unfold scalar, c; lia|exact Hcs]|].
    change (utf8_of (c :: cs)) with (utf8_enc c ++ utf8_of cs).
    replace (utf8_enc c) with [240; c1; c2; c3] by (unfold c; enc_eq). reflexivity.
  - destruct IH as (cs & Hcs & ->). set (c := (x - 240) * 262144 + (c1 - 128) * 4096 + (c2 - 128) * 64 + (c3 - 128)).
    exists (c :: cs). split; [constructor; [unfold scalar, c; lia|exact Hcs]|].
    change (utf8_of (c :: cs)) with (utf8_enc c ++ utf8_of cs).
    replace (utf8_enc c) with [x; c1; c2; c3] by (unfold c; enc_eq). reflexivity.
  - destruct IH as (cs & Hcs & ->). set (c := 4 * 262144 + (c1 - 128) * 4096 + (c2 - 128) * 64 + (c3 - 128)).
    exists (c :: cs). split; [constructor; [unfold scalar, c; lia|exact Hcs]|].
    change (utf8_of (c :: cs)) with (utf8_enc c ++ utf8_of cs).
    replace (utf8_enc c) with [244; c1; c2; c3] by (unfold c; enc_eq). reflexivity.
Qed.

Theorem utf8_wf_iff_scalars b : utf8_wf b <-> exists cs, Forall scalar cs /\ b = utf8_of cs.
Proof.
  split; [apply wf_decode|].
  intros (cs & Hcs & ->). induction Hcs as [|c cs Hc _ IH]; [constructor|].
  change (utf8_of (c :: cs)) with (utf8_enc c ++ utf8_of cs). apply enc_wf; assumption.
Qed.

(* ---------- whatever the specification parser returns has well-formed texts ---------- *)
Lemma rthen_ok {A B} (p : reader A) (f : A -> reader B) b v r :
  rthen p f b = Ok (v, r) -> exists a b', p b = Ok (a, b') /\ f a b' = Ok (v, r).
Proof. unfold rthen. destruct (p b) as [[a b']|]; [eauto|discriminate]. Qed.
Lemma rret_ok {A} (a v : A) b r : rret a b = Ok (v, r) -> v = a.
Proof. unfold rret. intros H. apply ok_inj in H. injection H. auto. Qed.

Lemma p_utf8_ok s b v r : p_utf8 s b = Ok (v, r) -> v = s /\ text_ok s.
Proof.
  unfold p_utf8, text_ok. destruct (Cql.utf8_valid s); [|discriminate]. intros H. apply rret_ok in H. auto.
Qed.
Lemma p_string_ok b v r : p_string b = Ok (v, r) -> text_ok v.
Proof.
  unfold p_string. intros H. apply rthen_ok in H as (n & b1 & _ & H). apply rthen_ok in H as (s & b2 & _ & H).
  apply p_utf8_ok in H as [-> H]. exact H.
Qed.
Lemma p_long_string_ok b v r : p_long_string b = Ok (v, r) -> text_ok v.
Proof.
  unfold p_long_string. intros H. apply rthen_ok in H as (n & b1 & _ & H).
  destruct (n <? 0)%Z; [discriminate|]. apply rthen_ok in H as (s & b2 & _ & H).
  apply p_utf8_ok in H as [-> H]. exact H.
Qed.
Lemma p_repeat_ok {A} (p : reader A) (P : A -> Prop) :
  (forall b v r, p b = Ok (v, r) -> P v) -> forall n b l r, p_repeat p n b = Ok (l, r) -> Forall P l.
Proof.
  intros Hp. induction n as [|n IH]; intros b l r H; cbn [p_repeat] in H.
  - apply rret_ok in H. subst l. constructor.
  - apply rthen_ok in H as (x & b1 & Hx & H). apply rthen_ok in H as (l' & b2 & Hl & H).
    apply rret_ok in H. subst l. constructor; [exact (Hp _ _ _ Hx)|exact (IH _ _ _ Hl)].
Qed.
Lemma p_batch_query_ok b v r : p_batch_query b = Ok (v, r) -> stmt_wf (fst v).
Proof.
  unfold p_batch_query. intros H. apply rthen_ok in H as (k & b1 & _ & H).
  apply rthen_ok in H as (s & b2 & Hs & H). apply rthen_ok in H as (vals & b3 & _ & H).
  apply rret_ok in H. subst v. cbn [fst].
  destruct k as [|[p|p|]]; try discriminate Hs.
  - apply rthen_ok in Hs as (t & b4 & Ht & Hs). apply rret_ok in Hs. subst s. exact (p_long_string_ok _ _ _ Ht).
  - apply rthen_ok in Hs as (t & b4 & Ht & Hs). apply rret_ok in Hs. subst s. exact I.
Qed.

Lemma p_pair_ok b v r : (k <- p_string ;; v <- p_string ;; rret (k, v)) b = Ok (v, r) -> text_ok (fst v) /\ text_ok (snd v).
Proof.
  intros H. apply rthen_ok in H as (k & b1 & Hk & H). apply rthen_ok in H as (x & b2 & Hx & H).
  apply rret_ok in H. subst v. split; [exact (p_string_ok _ _ _ Hk)|exact (p_string_ok _ _ _ Hx)].
Qed.

(* whatever request the specification parser returns has well-formed texts *)
Lemma p_request_wf_texts mid op b r rest : p_request mid op b = Ok (r, rest) ->
  match r with
  | Query t _ => text_ok t
  | Prepare t => text_ok t
  | Batch _ stmts _ _ _ _ => Forall stmt_wf stmts
  | Startup opts => Forall (fun kv => text_ok (fst kv) /\ text_ok (snd kv)) opts
  | _ => True
  end.
Proof.
  intros H. unfold p_request in H.
  destruct op as [|p]; [discriminate H|].
  do 4 (try destruct p as [p|p|]; try discriminate H).
  all: try (destruct p; discriminate H).
  all: repeat (let a := fresh "a" in let b' := fresh "b" in let Ha := fresh "Ha" in
               apply rthen_ok in H as (a & b' & Ha & H)).
  all: try (match type of H with (if ?c then _ else _) _ = _ => destruct c; [discriminate H|] end;
            repeat (let a := fresh "a" in let b' := fresh "b" in let Ha := fresh "Ha" in
                    apply rthen_ok in H as (a & b' & Ha & H))).
  all: try (match type of H with (match ?c with Some _ => _ | None => _ end) _ = _ =>
              destruct c; [|discriminate H] end).
  all: apply rret_ok in H; subst r; try exact I.
  all: try match goal with Hx : p_long_string _ = Ok (?t, _) |- text_ok ?t => exact (p_long_string_ok _ _ _ Hx) end.
  - (* BATCH *)
    match goal with Hq : p_repeat p_batch_query _ _ = Ok (?qs, _) |- _ =>
      pose proof (p_repeat_ok p_batch_query (fun q => stmt_wf (fst q)) p_batch_query_ok _ _ _ _ Hq) as F end.
    apply Forall_map. exact F.
  - (* STARTUP *)
    match goal with Hq : p_repeat _ _ _ = Ok (?l, _) |- _ =>
      exact (p_repeat_ok _ (fun kv => text_ok (fst kv) /\ text_ok (snd kv)) p_pair_ok _ _ _ _ Hq) end.
Qed.

Lemma text_ok_iff_rfc b : text_ok b <-> text_rfc b.
Proof. unfold text_ok, text_rfc. rewrite utf8_valid_iff_wf. apply utf8_wf_iff_scalars. Qed.
Lemma stmt_wf_iff_rfc s : stmt_wf s <-> stmt_wf_rfc s.
Proof. destruct s; cbn [stmt_wf stmt_wf_rfc]; [apply text_ok_iff_rfc|tauto]. Qed.
Lemma Forall_iff {A} (P Q : A -> Prop) l : (forall x, P x <-> Q x) -> (Forall P l <-> Forall Q l).
Proof. intros H. split; apply Forall_impl; intros a; apply H. Qed.

Theorem req_wf_iff_rfc r : req_wf r <-> req_wf_rfc r.
Proof.
  unfold req_wf_rfc. destruct r as [t p|t|id m p|bt stmts vals c sc ts|opts|evs| |tok]; cbn [req_wf req_texts_rfc].
  - rewrite text_ok_iff_rfc. tauto.
  - rewrite text_ok_iff_rfc. tauto.
  - tauto.
  - rewrite (Forall_iff stmt_wf stmt_wf_rfc stmts stmt_wf_iff_rfc). tauto.
  - rewrite (Forall_iff _ (fun kv => text_rfc (fst kv) /\ text_rfc (snd kv)) opts); [tauto|].
    intros kv. rewrite !text_ok_iff_rfc. tauto.
  - tauto.
  - tauto.
  - tauto.
Qed.

Theorem parse_encode_rfc cd alg tr r f mid :
  req_wf_rfc r -> mid_matches mid r -> encode_request cd None tr r = Ok f ->
  parse_frame cd alg mid f = Ok (mkHeader 4 (if tr then 2 else 0) 0 (opcode r) (blen f - 9), r).
Proof. intros W. apply parse_encode. apply req_wf_iff_rfc. exact W. Qed.

(* soundness of the specification parser w.r.t. the independent UTF-8 specification: for ANY bytes,
   every text of the request it returns is the UTF-8 encoding of a sequence of Unicode scalar values *)
Theorem parser_texts_rfc cd alg mid f h r : parse_frame cd alg mid f = Ok (h, r) -> req_texts_rfc r.
Proof.
  intros H. unfold parse_frame in H.
  destruct f as [|v [|fl [|s1 [|s2 [|op [|l1 [|l2 [|l3 [|l4 body]]]]]]]]]; try discriminate H.
  destruct (negb (v =? 4)); [discriminate H|].
  destruct (negb (be_dec [l1; l2; l3; l4] =? blen body)); [discriminate H|].
  destruct (4 <=? fl); [discriminate H|].
  destruct (if N.testbit fl 0 then _ else _) as [body'|]; [|discriminate H].
  destruct (p_request mid op body') as [[r' rest]|] eqn:E; [|discriminate H].
  destruct rest; [|discriminate H]. apply ok_inj in H. injection H as _ <-.
  apply p_request_wf_texts in E.
  destruct r' as [t p|t|id m p|bt stmts vals c sc ts|opts|evs| |tok]; cbn [req_texts_rfc]; try exact I.
  - apply text_ok_iff_rfc, E.
  - apply text_ok_iff_rfc, E.
  - apply (Forall_iff stmt_wf stmt_wf_rfc stmts stmt_wf_iff_rfc), E.
  - revert E. apply Forall_impl. intros kv [A B]. split; apply text_ok_iff_rfc; assumption.
Qed.
