(* Property C08 — proofs, part: locality of the frame reader and of the body decoders, a stream of
   frames, and the specification of the Boolean predicates the driver evaluates (deepening round 3). *)
From SV Require Import Base.Prelude Base.Bytes Model.FrameBase Model.FrameTypes Model.FrameResp
  Model.FrameCustom Model.FrameEnc Proofs.FrameBase_proofs Proofs.FrameResp_proofs Proofs.FrameTop_proofs
  Proofs.FrameCustom_proofs Proofs.FrameC08_proofs Model.FrameChunk Proofs.FrameChunk_proofs.
Open Scope N_scope.

Lemma ntake_app' n a b : n = lenN a -> ntake n (a ++ b) = Some (a, b).
Proof. intros ->. apply ntake_app. Qed.

(* what read_frame consumed: exactly 9 + length bytes; the answer does not depend on what follows *)
Lemma read_frame_local s h body rest :
  fst (read_frame s) = Ok ((h, body), rest) ->
  let n := (9 + N.to_nat (h_length h))%nat in
  s = firstn n s ++ rest /\ lenN body = h_length h /\
  forall tail, read_frame (firstn n s ++ tail) = (Ok ((h, body), tail), snd (read_frame s)).
Proof.
  unfold read_frame, bind, map_err, read_raw. rewrite ntake_spec.
  destruct (9 <=? lenN s) eqn:E9; [|cbn; discriminate]. cbv beta iota.
  change (N.to_nat 9) with 9%nat.
  destruct (run parse_header (firstn 9 s)) as [[h0 r0]|e] eqn:PH; [|cbn; discriminate].
  rewrite ntake_spec.
  destruct (h_length h0 <=? lenN (skipn 9 s)) eqn:EL; [|cbn; discriminate].
  cbn [fst snd]. intros H. inversion H; subst h0 body rest. clear H.
  apply N.leb_le in E9, EL. unfold lenN in *.
  set (L := N.to_nat (h_length h)) in *.
  assert (L9 : (9 <= length s)%nat) by lia.
  assert (LL : (L <= length (skipn 9 s))%nat) by (unfold L; lia).
  assert (F : firstn (9 + L) s = firstn 9 s ++ firstn L (skipn 9 s)).
  { rewrite <- (firstn_skipn 9 s) at 1. rewrite firstn_app, firstn_length, Nat.min_l by lia.
    rewrite firstn_firstn, Nat.min_r by lia. replace (9 + L - 9)%nat with L by lia. reflexivity. }
  cbv zeta. split; [|split].
  - rewrite F, <- app_assoc, firstn_skipn, firstn_skipn. reflexivity.
  - rewrite firstn_length. rewrite Nat.min_l by exact LL. unfold L. rewrite N2Nat.id. reflexivity.
  - intros tail.
    assert (LF : lenN (firstn 9 s) = 9) by (unfold lenN; rewrite firstn_length, Nat.min_l by lia; reflexivity).
    assert (LB : lenN (firstn L (skipn 9 s)) = h_length h).
    { unfold lenN. rewrite firstn_length, Nat.min_l by exact LL. unfold L. apply N2Nat.id. }
    rewrite F, <- app_assoc.
    rewrite (ntake_app' 9 (firstn 9 s) (firstn L (skipn 9 s) ++ tail)) by (symmetry; exact LF).
    cbv beta iota. rewrite PH.
    rewrite (ntake_app' (h_length h) (firstn L (skipn 9 s)) tail) by (symmetry; exact LB).
    reflexivity.
Qed.

Lemma decode_local decompress ft v2 cmp s h body rest :
  fst (read_frame s) = Ok ((h, body), rest) ->
  let n := (9 + N.to_nat (h_length h))%nat in
  s = firstn n s ++ rest /\ lenN body = h_length h /\
  forall tail, decode decompress ft v2 cmp (firstn n s ++ tail) = decode decompress ft v2 cmp s.
Proof.
  intros H n. destruct (read_frame_local s h body rest H) as (A & B & C). fold n in A, C.
  split; [exact A|]. split; [exact B|]. intros tail.
  unfold decode, decode_frame. rewrite (C tail).
  destruct (read_frame s) as [[[[h1 b1] r1]|e] c]; cbn [fst snd] in *; [|discriminate].
  inversion H; subst. reflexivity.
Qed.

(* the reader behind an encoded frame stands exactly at what follows it *)
Lemma read_frame_encoded compress ft v2 cmp f tail :
  wf_frame compress ft v2 cmp f ->
  fst (read_frame (encode_frame compress ft f ++ tail)) = Ok ((d_header f, wire_body compress ft f), tail).
Proof.
  intros W. pose proof (wf_frame_header _ _ _ _ _ W) as Wh.
  destruct W as (Hv & Hf & Hs & Ho & Hl & _).
  unfold encode_frame. rewrite <- app_assoc, (read_frame_header _ _ Wh), Hl, ntake_app. reflexivity.
Qed.

(* a connection's stream: decode the first frame, go on behind it (what the driver's read loop does) *)
Fixpoint decode_stream (decompress : bytes -> option bytes) (ft : features) (v2 cmp : bool) (k : nat) (s : bytes)
  : list outcome :=
  match k with
  | O => []
  | S k' =>
    fst (decode decompress ft v2 cmp s) ::
    match fst (read_frame s) with
    | Ok (_, rest) => decode_stream decompress ft v2 cmp k' rest
    | Err _ => []
    end
  end.

Lemma decode_stream_encoded compress decompress :
  (forall b, decompress (compress b) = Some b) ->
  forall ft v2 cmp fs rest,
  Forall (wf_frame compress ft v2 cmp) fs ->
  decode_stream decompress ft v2 cmp (length fs) (flat_map (encode_frame compress ft) fs ++ rest) = map ODone fs.
Proof.
  intros CI ft v2 cmp fs rest W. induction W as [|f fs Wf _ IH]; [reflexivity|].
  cbn [length flat_map decode_stream map]. rewrite <- app_assoc.
  rewrite (read_frame_encoded _ _ _ _ _ _ Wf).
  unfold decode. rewrite (decode_encode parse_custom compress decompress CI ft v2 cmp f _ Wf).
  f_equal. exact IH.
Qed.

(* the predicates the driver evaluates on the implementation's measurements are the bounds *)
Lemma predicates_spec :
  (forall len m, largest_in_proportion len m = true <-> m <= alloc_bound len) /\
  (forall len m, total_in_proportion len m = true <-> m <= 2 * alloc_bound len) /\
  (forall c h, stack_in_bound c h = true <-> h <= stack_bound c) /\
  (forall o, is_rejected o = true <-> exists st e, o = OErr st e) /\
  (forall a b, a <= b -> alloc_bound a <= alloc_bound b).
Proof.
  split; [intros; apply N.leb_le|]. split; [intros; apply N.leb_le|]. split; [intros; apply N.leb_le|].
  split.
  - intros [st e|f]; cbn; split; try discriminate; eauto. intros (st & e & H). discriminate.
  - intros a b H. unfold alloc_bound, ALLOC_K, ALLOC_C. lia.
Qed.

(* the model's own cost always passes them: a `viol alloc` can only come from the implementation *)
Lemma model_passes_predicates decompress R :
  1 <= R -> (forall b d, decompress b = Some d -> lenN d <= R * lenN b) ->
  forall ft v2 cmp stream,
  let c := snd (decode decompress ft v2 cmp stream) in
  largest_in_proportion (R * lenN stream) (c_alloc c) = true /\
  total_in_proportion (R * lenN stream) (c_alloc c) = true /\
  stack_in_bound c (stack_bound c) = true.
Proof.
  intros HR HD ft v2 cmp stream c.
  pose proof (decode_alloc_bound decompress R HR HD ft v2 cmp stream) as A. fold c in A.
  unfold largest_in_proportion, total_in_proportion, stack_in_bound.
  repeat split; apply N.leb_le; lia.
Qed.

(* the two body decoders, on every byte list: an answer that is never "out of fuel"; on success the
   consumed prefix is determined exactly, the answer does not depend on what follows it, and every
   strict prefix of it is refused *)
Lemma body_decoders_local ft v2 flags op :
  (forall b x rest, run (deser_extensions flags) b = Ok (x, rest) ->
     exists c, b = c ++ rest /\ (forall rest', run (deser_extensions flags) (c ++ rest') = Ok (x, rest')) /\
               (forall q, sprefix q c -> exists e, run (deser_extensions flags) q = Err e)) /\
  (forall b r rest, run (deser_response parse_custom ft v2 op) b = Ok (r, rest) ->
     exists c, b = c ++ rest /\ (forall rest', run (deser_response parse_custom ft v2 op) (c ++ rest') = Ok (r, rest')) /\
               (forall q, sprefix q c -> exists e, run (deser_response parse_custom ft v2 op) q = Err e)) /\
  (forall b, run (deser_extensions flags) b <> Err EOutOfFuel) /\
  (forall b, run (deser_response parse_custom ft v2 op) b <> Err EOutOfFuel).
Proof.
  split; [exact (psafe_deser_extensions flags)|]. split; [exact (psafe_deser_response parse_custom ft v2 op)|].
  split; [exact (noof_deser_extensions flags)|exact (noof_deser_response parse_custom parse_custom_noof ft v2 op)].
Qed.

(* chunking composed with the decoders: whatever the chunking and the offered buffers, the reader stands
   behind exactly the 9 + length bytes of an accepted frame, the pipeline's answer on the concatenated
   stream depends on those bytes only, it does not fail at the header stage and, when it accepts, carries
   that header; a refusal by the chunked reader is the pipeline's header-stage refusal *)
Lemma chunked_decode decompress ft v2 cmp offers cs :
  no_eof cs ->
  match read_frame_chunked offers cs with
  | Ok ((h, body), cs') =>
    let n := (9 + N.to_nat (h_length h))%nat in
    concat cs = firstn n (concat cs) ++ concat cs' /\
    (forall tail, decode decompress ft v2 cmp (firstn n (concat cs) ++ tail) = decode decompress ft v2 cmp (concat cs)) /\
    (forall st e, fst (decode decompress ft v2 cmp (concat cs)) = OErr st e -> st <> StHeader) /\
    (forall f, fst (decode decompress ft v2 cmp (concat cs)) = ODone f -> d_header f = h)
  | Err e => fst (decode decompress ft v2 cmp (concat cs)) = OErr StHeader e
  end.
Proof.
  intros NE. pose proof (read_frame_chunked_spec offers cs NE) as S.
  destruct (read_frame_chunked offers cs) as [[[h body] cs']|e].
  - destruct (decode_local decompress ft v2 cmp _ _ _ _ S) as (A & _ & C). cbv zeta.
    split; [exact A|]. split; [exact C|].
    unfold decode, decode_frame. destruct (read_frame (concat cs)) as [[[[h1 b1] r1]|e'] c]; cbn [fst] in S; [|discriminate].
    inversion S; subst h1 b1 r1.
    destruct (if bit (h_flags h) 1
              then if cmp then match decompress body with Some d => Ok d | None => Err EDecompress end else Err ENoCompression
              else Ok body) as [bd|e1].
    + destruct (deser_extensions (h_flags h) bd) as [[[x bd1]|e2] c1].
      * destruct (deser_response parse_custom ft v2 (h_opcode h) bd1) as [[[r r2]|e3] c2]; cbn [fst]; split;
          intros; try discriminate; try (inversion H; reflexivity); congruence.
      * cbn [fst]. split; intros; try discriminate. inversion H. discriminate.
    + cbn [fst]. split; intros; try discriminate. inversion H. discriminate.
  - unfold decode, decode_frame. destruct (read_frame (concat cs)) as [[[[h b] r]|e'] c]; cbn [fst] in *; [discriminate|].
    inversion S. reflexivity.
Qed.
