(* Proofs about Model/CqlTyped.v (property C01): the typed carriers write what the dynamic value they embed
   into writes, and read what the dynamic decoder reads. *)
From SV Require Import Base.Prelude Base.Bytes Model.Vint Model.Cql Model.CqlTyped Proofs.Vint_proofs Proofs.Cql_proofs.
Open Scope N_scope.


Section carrier_ind'.
  Variable P : carrier -> Prop.
  Hypothesis HL : forall l, P (KLeaf l).
  Hypothesis HD : P KDyn.
  Hypothesis HO : forall k, P k -> P (KOption k).
  Hypothesis HU : forall k, P k -> P (KMaybeUnset k).
  Hypothesis HE : forall k, P k -> P (KMaybeEmpty k).
  Hypothesis HP : forall k, P k -> P (KPtr k).
  Hypothesis HV : forall k, P k -> P (KVec k).
  Hypothesis HS : forall k, P k -> P (KSetC k).
  Hypothesis HM : forall a b, P a -> P b -> P (KMapC a b).
  Hypothesis HT : forall ks, Forall P ks -> P (KTuple ks).
  Fixpoint carrier_ind' (k : carrier) : P k :=
    match k with
    | KLeaf l => HL l
    | KDyn => HD
    | KOption k => HO k (carrier_ind' k)
    | KMaybeUnset k => HU k (carrier_ind' k)
    | KMaybeEmpty k => HE k (carrier_ind' k)
    | KPtr k => HP k (carrier_ind' k)
    | KVec k => HV k (carrier_ind' k)
    | KSetC k => HS k (carrier_ind' k)
    | KMapC a b => HM a b (carrier_ind' a) (carrier_ind' b)
    | KTuple ks =>
        HT ks ((fix go (ks : list carrier) : Forall P ks :=
                  match ks with
                  | [] => Forall_nil _
                  | x :: r => Forall_cons x (carrier_ind' x) (go r)
                  end) ks)
    end.
End carrier_ind'.

(* ---------- writing ---------- *)

Fixpoint tw_tuple_go (f : carrier -> ctype -> tval -> sres) (ks : list carrier) (ts : list ctype) (vs : list tval) : sres :=
  match ks, ts, vs with
  | k1 :: ks', t1 :: ts', v1 :: vs' =>
      rbind (f k1 t1 v1) (fun b => rbind (tw_tuple_go f ks' ts' vs') (fun bs => Ok (b ++ bs)))
  | [], _, _ => Ok []
  | _, _, _ => Err SE_MismatchedType
  end.

Fixpoint emb_tuple_go (f : carrier -> ctype -> tval -> option cell) (ks : list carrier) (ts : list ctype) (vs : list tval)
  : option (list (option cval)) :=
  match ks, ts, vs with
  | [], _, [] => Some []
  | k1 :: ks', t1 :: ts', v1 :: vs' =>
      match f k1 t1 v1, emb_tuple_go f ks' ts' vs' with
      | Some CNull, Some r => Some (None :: r)
      | Some (CVal x), Some r => Some (Some x :: r)
      | _, _ => None
      end
  | _, _, _ => None
  end.

Lemma typed_write_tuple ks ws ts vs :
  typed_write (KTuple ks) ws (TTuple ts) (TTup vs) =
  if (List.length ts <? List.length ks)%nat then Err SE_TupleWrongCount else
  rbind (tw_tuple_go (fun k => typed_write k true) ks ts vs) (fun bs => rbind (finish ws bs) (fun c => Ok (wrap ws c))).
Proof.
  cbn [typed_write]. destruct (_ <? _)%nat; [reflexivity|]. f_equal.
  revert ts vs. induction ks as [|k1 ks IH]; intros ts vs; [destruct ts, vs; reflexivity|].
  destruct ts as [|t1 ts]; [destruct vs; reflexivity|]. destruct vs as [|v1 vs]; [reflexivity|].
  cbn [tw_tuple_go]. rewrite <- IH. reflexivity.
Qed.

Lemma embed_tuple ks ts vs :
  embed (KTuple ks) (TTuple ts) (TTup vs) = option_map (fun xs => CVal (CTuple xs)) (emb_tuple_go embed ks ts vs).
Proof.
  cbn [embed]. f_equal. revert ts vs. induction ks as [|k1 ks IH]; intros ts vs; [destruct vs; reflexivity|].
  destruct ts as [|t1 ts]; [reflexivity|]. destruct vs as [|v1 vs]; [reflexivity|].
  cbn [emb_tuple_go]. rewrite <- IH. reflexivity.
Qed.

Lemma all_some_cons {A} (o : option A) l xs : all_some (o :: l) = Some xs ->
  exists x r, o = Some x /\ all_some l = Some r /\ xs = x :: r.
Proof.
  cbn [all_some]. destruct o as [x|]; [|discriminate]. destruct (all_some l) as [r|]; cbn; [|discriminate].
  intros H. inversion H. eauto.
Qed.

(* element-wise agreement lifts to the concatenating loop *)
Lemma ser_concat_embed {A B} (g : A -> option B) (F : A -> sres) (G : B -> sres) l xs :
  all_some (map g l) = Some xs ->
  (forall x y, In x l -> g x = Some y -> F x = G y) ->
  ser_concat F l = ser_concat G xs /\ List.length xs = List.length l.
Proof.
  revert xs. induction l as [|x l IH]; intros xs H HF.
  - cbn in H. inversion H. split; reflexivity.
  - cbn [map] in H. apply all_some_cons in H as (y & r & Hy & Hr & ->).
    destruct (IH r Hr (fun x' y' Hx => HF x' y' (or_intror Hx))) as [E L].
    cbn [ser_concat List.length]. rewrite (HF x y (or_introl eq_refl) Hy), E, L. split; reflexivity.
Qed.

Lemma ser_cell_ws_val_true t y : ser_cell_ws true t (CVal y) = sub_sized (ser_value true t) y.
Proof. reflexivity. Qed.

Lemma ser_cell_ws_val_false t y : ser_cell_ws false t (CVal y) = ser_value false t y.
Proof. cbn [ser_cell_ws]. apply rbind_ok_id. Qed.

Lemma wrap_rbind ws (r : sres) :
  rbind r (fun c => Ok (wrap ws c)) = rbind r (fun b => Ok (if ws then framed b else b)).
Proof. reflexivity. Qed.

Definition TW (k : carrier) : Prop := forall ws t v c,
  embed k t v = Some c -> typed_write k ws t v = ser_cell_ws ws t c.

Lemma leaf_write_embed l : TW (KLeaf l).
Proof.
  intros ws t v c H. cbn [embed] in H. destruct (leaf_embed l t v) as [x|] eqn:E; [|discriminate]. cbn [option_map] in H. apply some_inj in H. subst c.
  cbn [typed_write ser_cell_ws].
  destruct l; destruct v; cbn [leaf_embed] in E; try discriminate E; apply some_inj in E; subst x; cbn [leaf_contents leaf_types];
    destruct t as [nt| | | | | |]; try reflexivity; destruct nt; try reflexivity.
Qed.

Lemma tw_tuple_embed ks : Forall TW ks -> forall ts vs xs,
  emb_tuple_go embed ks ts vs = Some xs ->
  tw_tuple_go (fun k => typed_write k true) ks ts vs = ser_tuple_go (ser_value true) ts xs /\
  (List.length xs <= List.length ts)%nat.
Proof.
  induction 1 as [|k1 ks H1 HF IH]; intros ts vs xs H.
  - destruct vs; [|discriminate]. cbn in H. apply some_inj in H. subst xs.
    destruct ts; cbn; split; (reflexivity || lia).
  - destruct ts as [|t1 ts]; [discriminate|]. destruct vs as [|v1 vs]; [discriminate|].
    cbn [emb_tuple_go] in H. destruct (embed k1 t1 v1) as [c1|] eqn:E1; [|discriminate].
    destruct (emb_tuple_go embed ks ts vs) as [r|] eqn:Er; [|destruct c1; discriminate].
    destruct (IH ts vs r Er) as [I1 I2].
    cbn [tw_tuple_go]. rewrite (H1 true t1 v1 c1 E1), I1.
    destruct c1 as [| |x]; try discriminate; apply some_inj in H; subst xs; cbn [ser_tuple_go ser_cell_ws sub_sized_opt List.length];
      (split; [reflexivity|lia]).
Qed.

Theorem typed_write_embed k : TW k.
Proof.
  induction k as [l| |k IH|k IH|k IH|k IH|k IH|k IH|ka kb IHa IHb|ks IH] using carrier_ind'; intros ws t v c H.
  - apply leaf_write_embed. exact H.
  - cbn [embed] in H. destruct v; try discriminate. apply some_inj in H. subst c. reflexivity.
  - cbn [embed] in H. destruct v; try discriminate; cbn [typed_write].
    + apply some_inj in H. subst c. reflexivity.
    + apply IH. exact H.
  - cbn [embed] in H. destruct v; try discriminate; cbn [typed_write].
    + apply some_inj in H. subst c. reflexivity.
    + apply IH. exact H.
  - cbn [embed] in H. cbn [typed_write]. destruct (supports_empty t) eqn:Es; cbn [negb] in *; [|discriminate].
    destruct v; try discriminate.
    + apply some_inj in H. subst c. cbn [ser_cell_ws]. rewrite ser_value_empty, Es. reflexivity.
    + apply IH. exact H.
  - cbn [embed] in H. destruct v; try discriminate. cbn [typed_write]. apply IH. exact H.
  - (* Vec *)
    cbn [embed] in H. destruct v; try discriminate. destruct t; try discriminate; cbn [typed_write];
      destruct (all_some _) as [xs|] eqn:Ea; try discriminate; cbn [option_map] in H; apply some_inj in H; subst c;
      cbn [ser_cell_ws ser_value].
    + destruct (ser_concat_embed _ (typed_write k true t) (sub_sized (ser_value true t)) l xs Ea) as [E L].
      { intros x y _ Hy. destruct (embed k t x) as [cx|] eqn:Ex; [|discriminate]. destruct cx; try discriminate.
        cbn in Hy. apply some_inj in Hy. subst. rewrite (IH true t x _ Ex). reflexivity. }
      unfold ser_sequence. rewrite L, E. destruct (_ <? _); [reflexivity|].
      destruct (ser_concat _ xs); [|reflexivity]. cbn [rbind]. destruct (finish ws _); reflexivity.
    + destruct (ser_concat_embed _ (typed_write k true t) (sub_sized (ser_value true t)) l xs Ea) as [E L].
      { intros x y _ Hy. destruct (embed k t x) as [cx|] eqn:Ex; [|discriminate]. destruct cx; try discriminate.
        cbn in Hy. apply some_inj in Hy. subst. rewrite (IH true t x _ Ex). reflexivity. }
      unfold ser_sequence. rewrite L, E. destruct (_ <? _); [reflexivity|].
      destruct (ser_concat _ xs); [|reflexivity]. cbn [rbind]. destruct (finish ws _); reflexivity.
    + unfold ser_vector.
      destruct (ser_concat_embed _
                  (match type_size t with
                   | Some _ => typed_write k false t
                   | None => fun x => rbind (typed_write k false t x) (fun b => Ok (uvint_encode (blen b mod two64) ++ b))
                   end)
                  (if match type_size t with Some _ => true | None => false end
                   then ser_value false t else vec_var_elem (ser_value false t)) l xs Ea) as [E L].
      { intros x y _ Hy. destruct (embed k t x) as [cx|] eqn:Ex; [|discriminate]. destruct cx; try discriminate.
        cbn in Hy. apply some_inj in Hy. subst.
        destruct (type_size t); unfold vec_var_elem; rewrite (IH false t x _ Ex), ser_cell_ws_val_false; reflexivity. }
      rewrite L, E. destruct (negb _); [reflexivity|].
      destruct (ser_concat _ xs); [|reflexivity]. cbn [rbind]. destruct (finish ws _); reflexivity.
  - (* set carriers *)
    cbn [embed] in H. destruct v; try discriminate. destruct t; try discriminate; cbn [typed_write];
      destruct (all_some _) as [xs|] eqn:Ea; try discriminate; cbn [option_map] in H; apply some_inj in H; subst c;
      cbn [ser_cell_ws ser_value].
    + destruct (ser_concat_embed _ (typed_write k true t) (sub_sized (ser_value true t)) l xs Ea) as [E L].
      { intros x y _ Hy. destruct (embed k t x) as [cx|] eqn:Ex; [|discriminate]. destruct cx; try discriminate.
        cbn in Hy. apply some_inj in Hy. subst. rewrite (IH true t x _ Ex). reflexivity. }
      unfold ser_sequence. rewrite L, E. destruct (_ <? _); [reflexivity|].
      destruct (ser_concat _ xs); [|reflexivity]. cbn [rbind]. destruct (finish ws _); reflexivity.
    + destruct (ser_concat_embed _ (typed_write k true t) (sub_sized (ser_value true t)) l xs Ea) as [E L].
      { intros x y _ Hy. destruct (embed k t x) as [cx|] eqn:Ex; [|discriminate]. destruct cx; try discriminate.
        cbn in Hy. apply some_inj in Hy. subst. rewrite (IH true t x _ Ex). reflexivity. }
      unfold ser_sequence. rewrite L, E. destruct (_ <? _); [reflexivity|].
      destruct (ser_concat _ xs); [|reflexivity]. cbn [rbind]. destruct (finish ws _); reflexivity.
  - (* maps *)
    cbn [embed] in H. destruct v; try discriminate. destruct t; try discriminate. cbn [typed_write].
    destruct (all_some _) as [xs|] eqn:Ea; try discriminate. cbn [option_map] in H. apply some_inj in H. subst c.
    cbn [ser_cell_ws ser_value]. unfold ser_mapping.
    destruct (ser_concat_embed _
                (fun kv => rbind (typed_write ka true t1 (fst kv)) (fun a => rbind (typed_write kb true t2 (snd kv)) (fun b => Ok (a ++ b))))
                (fun kv => rbind (sub_sized (ser_value true t1) (fst kv)) (fun a => rbind (sub_sized (ser_value true t2) (snd kv)) (fun b => Ok (a ++ b))))
                l xs Ea) as [E L].
    { intros kv y _ Hy. destruct (embed ka t1 (fst kv)) as [ca|] eqn:Exa; [|discriminate].
      destruct ca as [| |a]; try discriminate. destruct (embed kb t2 (snd kv)) as [cb|] eqn:Exb; [|discriminate].
      destruct cb as [| |b]; try discriminate. apply some_inj in Hy. subst y. cbn [fst snd].
      rewrite (IHa true t1 _ _ Exa), (IHb true t2 _ _ Exb). reflexivity. }
    rewrite L, E. destruct (_ <? _); [reflexivity|].
    destruct (ser_concat _ xs); [|reflexivity]. cbn [rbind]. destruct (finish ws _); reflexivity.
  - (* tuples *)
    destruct v; try (cbn [embed] in H; discriminate). destruct t; try (cbn [embed] in H; discriminate).
    rewrite embed_tuple in H. destruct (emb_tuple_go embed ks ts l) as [xs|] eqn:Eg; [|discriminate].
    cbn [option_map] in H. apply some_inj in H. subst c.
    destruct (tw_tuple_embed ks IH ts l xs Eg) as [E Hlen].
    assert (Hl : List.length xs = List.length ks).
    { clear - Eg. revert ts l xs Eg. induction ks as [|k1 ks IHk]; intros ts l xs Eg.
      - destruct l; [|discriminate]. cbn in Eg. apply some_inj in Eg. subst. reflexivity.
      - destruct ts; [discriminate|]. destruct l; [discriminate|]. cbn [emb_tuple_go] in Eg.
        destruct (embed k1 c t) as [c1|]; [|discriminate].
        destruct (emb_tuple_go embed ks ts l) as [r|] eqn:Er; [|destruct c1; discriminate].
        specialize (IHk _ _ _ Er).
        destruct c1; try discriminate; apply some_inj in Eg; subst; cbn; lia. }
    rewrite typed_write_tuple. cbn [ser_cell_ws]. rewrite ser_value_tuple. rewrite <- Hl.
    destruct (_ <? _)%nat eqn:El; [apply Nat.ltb_lt in El; lia|].
    rewrite E. destruct (ser_tuple_go _ ts xs); [|reflexivity]. cbn [rbind]. destruct (finish ws _); reflexivity.
Qed.

(* ---------- reading ---------- *)

Fixpoint tr_tuple_go (f : carrier -> ctype -> option bytes -> dres tval) (ks : list carrier) (ts : list ctype) (b : bytes)
  : dres (list tval) :=
  match ks, ts with
  | k1 :: ks', t1 :: ts' =>
      match (if is_nil b then Some (None, b) else read_cql_bytes b) with
      | None => Err DE_RawCqlBytesRead
      | Some (o1, r) => rbind (f k1 t1 o1) (fun x => rbind (tr_tuple_go f ks' ts' r) (fun xs => Ok (x :: xs)))
      end
  | _, _ => Ok []
  end.

Fixpoint ue_tuple_go (fr : carrier -> ctype -> option bytes -> dres tval) (fu : carrier -> ctype -> cval -> dres tval)
         (ks : list carrier) (ts : list ctype) (l : list (option cval)) : dres (list tval) :=
  match ks, ts, l with
  | k1 :: ks', t1 :: ts', o1 :: l' =>
      rbind (match o1 with None => fr k1 t1 None | Some y => fu k1 t1 y end)
            (fun v => rbind (ue_tuple_go fr fu ks' ts' l') (fun vs => Ok (v :: vs)))
  | _, _, _ => Ok []
  end.

Fixpoint tc_tuple_go (ks : list carrier) (ts : list ctype) : bool :=
  match ks, ts with
  | k1 :: ks', t1 :: ts' => typed_check k1 t1 && tc_tuple_go ks' ts'
  | _, _ => true
  end.

Lemma tr_tuple_go_eq ks ts b :
  (fix go (ks : list carrier) (ts : list ctype) (b : bytes) {struct ks} : dres (list tval) :=
     match ks, ts with
     | k1 :: ks', t1 :: ts' =>
         match (if is_nil b then Some (None, b) else read_cql_bytes b) with
         | None => Err DE_RawCqlBytesRead
         | Some (o1, r) =>
             rbind (typed_read k1 t1 o1) (fun x => rbind (go ks' ts' r) (fun xs => Ok (x :: xs)))
         end
     | _, _ => Ok []
     end) ks ts b = tr_tuple_go typed_read ks ts b.
Proof.
  revert ts b. induction ks as [|k1 ks IH]; intros ts b; [reflexivity|].
  destruct ts as [|t1 ts]; [reflexivity|]. cbn [tr_tuple_go].
  destruct (if is_nil b then Some (None, b) else read_cql_bytes b) as [[o1 r]|]; [|reflexivity].
  destruct (typed_read k1 t1 o1); [|reflexivity]. cbn [rbind]. rewrite IH. reflexivity.
Qed.

Lemma typed_read_tuple ks ts b :
  typed_read (KTuple ks) (TTuple ts) (Some b) = rbind (tr_tuple_go typed_read ks ts b) (fun l => Ok (TTup l)).
Proof. cbn [typed_read]. rewrite tr_tuple_go_eq. reflexivity. Qed.

Lemma ue_tuple_go_eq ks ts l :
  (fix go (ks : list carrier) (ts : list ctype) (l : list (option cval)) {struct ks} : dres (list tval) :=
     match ks, ts, l with
     | k1 :: ks', t1 :: ts', o1 :: l' =>
         rbind (match o1 with None => typed_read k1 t1 None | Some y => unembed k1 t1 y end)
               (fun v => rbind (go ks' ts' l') (fun vs => Ok (v :: vs)))
     | _, _, _ => Ok []
     end) ks ts l = ue_tuple_go typed_read unembed ks ts l.
Proof.
  revert ts l. induction ks as [|k1 ks IH]; intros ts l; [reflexivity|].
  destruct ts as [|t1 ts]; [reflexivity|]. destruct l as [|o1 l]; [reflexivity|]. cbn [ue_tuple_go].
  destruct o1 as [y|].
  - destruct (unembed k1 t1 y); [|reflexivity]. cbn [rbind]. rewrite IH. reflexivity.
  - destruct (typed_read k1 t1 None); [|reflexivity]. cbn [rbind]. rewrite IH. reflexivity.
Qed.

Lemma unembed_tuple ks ts l :
  unembed (KTuple ks) (TTuple ts) (CTuple l) = rbind (ue_tuple_go typed_read unembed ks ts l) (fun vs => Ok (TTup vs)).
Proof. cbn [unembed]. rewrite ue_tuple_go_eq. reflexivity. Qed.

Lemma tc_tuple_go_eq ks ts :
  (fix go (ks : list carrier) (ts : list ctype) {struct ks} : bool :=
     match ks, ts with
     | k1 :: ks', t1 :: ts' => typed_check k1 t1 && go ks' ts'
     | _, _ => true
     end) ks ts = tc_tuple_go ks ts.
Proof.
  revert ts. induction ks as [|k1 ks IH]; intros ts; [reflexivity|].
  destruct ts; [reflexivity|]. cbn [tc_tuple_go]. rewrite IH. reflexivity.
Qed.

Lemma typed_check_tuple ks ts :
  typed_check (KTuple ks) (TTuple ts) = (List.length ks =? List.length ts)%nat && tc_tuple_go ks ts.
Proof. cbn [typed_check]. rewrite tc_tuple_go_eq. reflexivity. Qed.

Lemma is_nil_true {A} (l : list A) : is_nil l = true -> l = [].
Proof. destruct l; [reflexivity|discriminate]. Qed.

Lemma deser_native_not_empty n b x : deser_native n b = Ok x -> x <> CEmpty.
Proof.
  unfold deser_native, exact_len. intros H E. subst x.
  destruct n;
    repeat match type of H with
           | context [if ?c then _ else _] => destruct c
           | context [match ?y with _ => _ end] => destruct y
           end; discriminate H.
Qed.

Lemma deser_native_duration b x : deser_native NDuration b = Ok x -> exists m d n, x = CDuration m d n.
Proof.
  unfold deser_native. intros H.
  repeat match type of H with
         | context [if ?c then _ else _] => destruct c
         | context [match ?y with _ => _ end] => destruct y
         end; try discriminate H. inv H. eauto.
Qed.

(* loops *)
Lemma typed_items_rt f g (u : cval -> dres tval) :
  (forall s y, f s = Ok y -> g (Some s) = u y) ->
  forall fuel n b l, deser_items f fuel n b = Ok l -> typed_items g fuel n b = map_res u l.
Proof.
  intros Hfg. induction fuel as [|fuel IH]; intros n b l H; cbn [deser_items typed_items] in *.
  - destruct (n =? 0); [inv H; reflexivity|discriminate].
  - destruct (n =? 0); [inv H; reflexivity|].
    destruct (read_cql_bytes b) as [[ob r]|]; [|discriminate].
    apply rbind_ok in H as (x & Hx & H). apply rbind_ok in H as (xs & Hxs & H). inv H.
    destruct ob as [s|]; [|discriminate]. cbn [nonnull] in Hx.
    rewrite (Hfg s x Hx). cbn [map_res]. destruct (u x); [|reflexivity]. cbn [rbind].
    rewrite (IH _ _ _ Hxs). reflexivity.
Qed.

Lemma typed_pairs_rt fk fv gk gv (uk uv : cval -> dres tval) :
  (forall s y, fk s = Ok y -> gk (Some s) = uk y) -> (forall s y, fv s = Ok y -> gv (Some s) = uv y) ->
  forall fuel n b l, deser_pairs fk fv fuel n b = Ok l ->
  typed_pairs gk gv fuel n b = map_res (fun kv => rbind (uk (fst kv)) (fun a => rbind (uv (snd kv)) (fun c => Ok (a, c)))) l.
Proof.
  intros Hk Hv. induction fuel as [|fuel IH]; intros n b l H; cbn [deser_pairs typed_pairs] in *.
  - destruct (n =? 0); [inv H; reflexivity|discriminate].
  - destruct (n =? 0); [inv H; reflexivity|].
    destruct (read_cql_bytes b) as [[ok r1]|]; [|discriminate].
    destruct (read_cql_bytes r1) as [[ov r2]|]; [|discriminate].
    apply rbind_ok in H as (x & Hx & H). apply rbind_ok in H as (y & Hy & H). apply rbind_ok in H as (xs & Hxs & H). inv H.
    destruct ok as [sk|]; [|discriminate]. destruct ov as [sv|]; [|discriminate]. cbn [nonnull] in Hx, Hy.
    rewrite (Hk sk x Hx), (Hv sv y Hy). cbn [map_res fst snd].
    destruct (uk x); [|reflexivity]. cbn [rbind]. destruct (uv y); [|reflexivity]. cbn [rbind].
    rewrite (IH _ _ _ Hxs). reflexivity.
Qed.

Lemma typed_vec_fixed_rt f g (u : cval -> dres tval) size :
  (forall s y, f s = Ok y -> g (Some s) = u y) ->
  forall cnt b l, deser_vec_fixed f size cnt b = Ok l -> typed_vec_fixed g size cnt b = map_res u l.
Proof.
  intros Hfg. induction cnt as [|cnt IH]; intros b l H; cbn [deser_vec_fixed typed_vec_fixed] in *; [inv H; reflexivity|].
  destruct (read_n_bytes size b) as [[ob r]|]; [|discriminate].
  apply rbind_ok in H as (x & Hx & H). apply rbind_ok in H as (xs & Hxs & H). inv H.
  destruct ob as [s|]; [|discriminate]. cbn [nonnull] in Hx.
  rewrite (Hfg s x Hx). cbn [map_res]. destruct (u x); [|reflexivity]. cbn [rbind]. rewrite (IH _ _ Hxs). reflexivity.
Qed.

Lemma typed_vec_var_rt f g (u : cval -> dres tval) :
  (forall s y, f s = Ok y -> g (Some s) = u y) ->
  forall cnt b l, deser_vec_var f cnt b = Ok l -> typed_vec_var g cnt b = map_res u l.
Proof.
  intros Hfg. induction cnt as [|cnt IH]; intros b l H; cbn [deser_vec_var typed_vec_var] in *; [inv H; reflexivity|].
  destruct (uvint_decode b) as [[size r0]|]; [|discriminate].
  destruct (size =? 0).
  - apply rbind_ok in H as (x & Hx & H). apply rbind_ok in H as (xs & Hxs & H). inv H. cbn [nonnull] in Hx.
    match goal with |- context [g (Some ?e)] => replace (g (Some e)) with (u x) by (symmetry; exact (Hfg _ x Hx)) end.
    cbn [map_res]. destruct (u x); [|reflexivity]. cbn [rbind]. rewrite (IH _ _ Hxs). reflexivity.
  - destruct (read_n_bytes size r0) as [[ob r]|]; [|discriminate].
    apply rbind_ok in H as (x & Hx & H). apply rbind_ok in H as (xs & Hxs & H). inv H.
    destruct ob as [s|]; [|discriminate]. cbn [nonnull] in Hx.
    rewrite (Hfg s x Hx). cbn [map_res]. destruct (u x); [|reflexivity]. cbn [rbind]. rewrite (IH _ _ Hxs). reflexivity.
Qed.

Definition TR (k : carrier) : Prop := forall t b x,
  typed_check k t = true -> deser_value t b = Ok x -> typed_read k t (Some b) = unembed k t x.

Lemma native_in_inv t l : native_in t l = true -> exists n, t = TNative n.
Proof. destruct t; cbn; try discriminate. eauto. Qed.

Lemma leaf_read_rt l : TR (KLeaf l).
Proof.
  intros t b x Hc H. cbn [typed_check] in Hc. destruct (native_in_inv _ _ Hc) as (n & ->).
  cbn [typed_read unembed]. rewrite deser_value_eq in H.
  destruct (is_nil b && negb (is_string_type (TNative n))) eqn:E.
  - inv H. apply andb_true_iff in E as [E _]. apply is_nil_true in E. subst b. destruct l; reflexivity.
  - pose proof (deser_native_not_empty _ _ _ H) as Hne.
    destruct l; destruct n; try discriminate Hc; clear Hc E;
      try (cbn [deser_native leaf_read] in *; unfold exact_len in *;
           repeat match type of H with
                  | context [if ?c then _ else _] => destruct c
                  | context [match ?y with _ => _ end] => destruct y
                  end; try discriminate H; inv H; reflexivity).
Qed.

Lemma deser_value_empty_iff n b x : is_string_type (TNative n) = false ->
  deser_value (TNative n) b = Ok x -> (x = CEmpty <-> b = []).
Proof.
  intros Hs H. rewrite deser_value_eq, Hs in H. cbn [negb] in H. rewrite andb_true_r in H.
  destruct (is_nil b) eqn:E.
  - inv H. apply is_nil_true in E. tauto.
  - apply deser_native_not_empty in H. split; [tauto|]. intros ->. discriminate.
Qed.

Lemma map_res_cons {A B} (f : A -> dres B) x l : map_res f (x :: l) = rbind (f x) (fun y => rbind (map_res f l) (fun ys => Ok (y :: ys))).
Proof. reflexivity. Qed.

Lemma tr_tuple_rt ks : Forall TR ks -> forall ts b l,
  List.length ks = List.length ts -> tc_tuple_go ks ts = true ->
  deser_tuple_go deser_value ts b = Ok l ->
  tr_tuple_go typed_read ks ts b = ue_tuple_go typed_read unembed ks ts l.
Proof.
  induction 1 as [|k1 ks H1 HF IH]; intros ts b l Hlen Hc H.
  - destruct ts; [|discriminate]. reflexivity.
  - destruct ts as [|t1 ts]; [discriminate|]. cbn [tc_tuple_go] in Hc. apply andb_true_iff in Hc as [Hc1 Hc].
    cbn [deser_tuple_go] in H. apply rbind_ok in H as ([o1 r] & Hf & H). apply rbind_ok in H as (xs & Hxs & H). inv H.
    cbn [fst snd] in *. cbn [tr_tuple_go ue_tuple_go].
    unfold deser_opt_field in Hf. destruct (is_nil b) eqn:En.
    + apply ok_inj in Hf. inversion Hf; subst. cbv beta iota. rewrite (IH ts r xs ltac:(cbn in Hlen; lia) Hc Hxs). reflexivity.
    + destruct (read_cql_bytes b) as [[[s|] r']|]; try discriminate; cbv beta iota.
      * apply rbind_ok in Hf as (y & Hy & Hf). apply ok_inj in Hf. inversion Hf; subst.
        rewrite (H1 t1 s y Hc1 Hy). rewrite (IH ts r xs ltac:(cbn in Hlen; lia) Hc Hxs). reflexivity.
      * apply ok_inj in Hf. inversion Hf; subst. rewrite (IH ts r xs ltac:(cbn in Hlen; lia) Hc Hxs). reflexivity.
Qed.

Theorem typed_read_unembed k : TR k.
Proof.
  induction k as [l| |k IH|k IH|k IH|k IH|k IH|k IH|ka kb IHa IHb|ks IH] using carrier_ind'; intros t b x Hc H.
  - apply leaf_read_rt; assumption.
  - cbn [typed_read unembed]. rewrite H. reflexivity.
  - cbn [typed_read unembed typed_check] in *. rewrite (IH t b x Hc H). reflexivity.
  - cbn [typed_check] in Hc. discriminate.
  - (* MaybeEmpty *)
    cbn [typed_check] in Hc. apply andb_true_iff in Hc as [He Hc]. cbn [typed_read unembed].
    destruct k as [l| | | | | | | | |]; try discriminate He. cbn [typed_check] in Hc.
    destruct (native_in_inv _ _ Hc) as (n & ->).
    assert (Hs : is_string_type (TNative n) = false).
    { destruct l; try discriminate He; destruct n; try discriminate Hc; reflexivity. }
    pose proof (deser_value_empty_iff n b x Hs H) as Hiff.
    destruct (is_nil b) eqn:En.
    + apply is_nil_true in En. rewrite (proj2 Hiff En). reflexivity.
    + assert (x <> CEmpty) by (intros E; apply Hiff in E; subst b; discriminate En).
      rewrite (IH (TNative n) b x Hc H). destruct x; try reflexivity. congruence.
  - cbn [typed_read unembed typed_check] in *. rewrite (IH t b x Hc H). reflexivity.
  - (* Vec *)
    cbn [typed_check] in Hc. destruct t as [|e|e| | | |e d]; try discriminate Hc; rewrite deser_value_eq in H;
      cbn [is_string_type negb] in H; rewrite andb_true_r in H; destruct (is_nil b) eqn:En.
    + inv H. apply is_nil_true in En. subst b. reflexivity.
    + apply rbind_ok in H as (l & Hl & H). inv H. cbn [typed_read unembed].
      unfold deser_listlike in Hl. apply rbind_ok in Hl as ([n r] & Hn & Hl). rewrite Hn. cbn [rbind fst snd] in *.
      rewrite (typed_items_rt (deser_value e) (typed_read k e) (unembed k e) (fun s y => IH e s y Hc) _ _ _ _ Hl). reflexivity.
    + inv H. apply is_nil_true in En. subst b. reflexivity.
    + apply rbind_ok in H as (l & Hl & H). inv H. cbn [typed_read unembed].
      unfold deser_listlike in Hl. apply rbind_ok in Hl as ([n r] & Hn & Hl). rewrite Hn. cbn [rbind fst snd] in *.
      rewrite (typed_items_rt (deser_value e) (typed_read k e) (unembed k e) (fun s y => IH e s y Hc) _ _ _ _ Hl). reflexivity.
    + inv H. apply is_nil_true in En. subst b. reflexivity.
    + apply rbind_ok in H as (l & Hl & H). inv H. cbn [typed_read unembed]. unfold deser_vector in Hl.
      destruct (type_size e) as [s|].
      * rewrite (typed_vec_fixed_rt (deser_value e) (typed_read k e) (unembed k e) s (fun s y => IH e s y Hc) _ _ _ Hl). reflexivity.
      * rewrite (typed_vec_var_rt (deser_value e) (typed_read k e) (unembed k e) (fun s y => IH e s y Hc) _ _ _ Hl). reflexivity.
  - (* set carriers *)
    cbn [typed_check] in Hc. destruct t as [| |e| | | |]; try discriminate Hc. rewrite deser_value_eq in H.
    cbn [is_string_type negb] in H. rewrite andb_true_r in H. destruct (is_nil b) eqn:En.
    + inv H. apply is_nil_true in En. subst b. reflexivity.
    + apply rbind_ok in H as (l & Hl & H). inv H. cbn [typed_read unembed].
      unfold deser_listlike in Hl. apply rbind_ok in Hl as ([n r] & Hn & Hl). rewrite Hn. cbn [rbind fst snd] in *.
      rewrite (typed_items_rt (deser_value e) (typed_read k e) (unembed k e) (fun s y => IH e s y Hc) _ _ _ _ Hl). reflexivity.
  - (* maps *)
    cbn [typed_check] in Hc. destruct t as [| | |tk tv| | |]; try discriminate Hc. apply andb_true_iff in Hc as [Hca Hcb].
    rewrite deser_value_eq in H. cbn [is_string_type negb] in H. rewrite andb_true_r in H. destruct (is_nil b) eqn:En.
    + inv H. apply is_nil_true in En. subst b. reflexivity.
    + apply rbind_ok in H as (l & Hl & H). inv H. cbn [typed_read unembed].
      unfold deser_map in Hl. apply rbind_ok in Hl as ([n r] & Hn & Hl). rewrite Hn. cbn [rbind fst snd] in *.
      rewrite (typed_pairs_rt (deser_value tk) (deser_value tv) (typed_read ka tk) (typed_read kb tv) (unembed ka tk) (unembed kb tv)
                 (fun s y => IHa tk s y Hca) (fun s y => IHb tv s y Hcb) _ _ _ _ Hl). reflexivity.
  - (* tuples *)
    destruct t as [| | | |ts| |]; try (cbn [typed_check] in Hc; discriminate Hc).
    rewrite typed_check_tuple in Hc. apply andb_true_iff in Hc as [Hlen Hc]. apply Nat.eqb_eq in Hlen.
    rewrite deser_value_eq in H. cbn [is_string_type negb] in H. rewrite andb_true_r in H. destruct (is_nil b) eqn:En.
    + inv H. apply is_nil_true in En. subst b. reflexivity.
    + apply rbind_ok in H as (l & Hl & H). inv H. rewrite typed_read_tuple, unembed_tuple.
      rewrite (tr_tuple_rt ks IH ts b l Hlen Hc Hl). reflexivity.
Qed.

(* composition with the round trip of the dynamic path: what a typed carrier writes, its own
   decoder reads back as the carrier value of the padded dynamic value *)
Theorem typed_roundtrip k t v x b :
  embed k t v = Some (CVal x) -> typed_check k t = true ->
  wf t x = true -> known_class t x = false ->
  typed_write k true t v = Ok b ->
  exists body, b = framed body /\ typed_read k t (Some body) = unembed k t (pad t x).
Proof.
  intros He Hc Hwf Hk Hw. rewrite (typed_write_embed k true t v _ He) in Hw.
  cbn [ser_cell_ws] in Hw. apply rbind_ok in Hw as (body & Hb & Hw). inv Hw.
  exists body. split; [reflexivity|].
  unfold wf in Hwf. apply andb_true_iff in Hwf as [Hwt Hwv].
  apply (typed_read_unembed k t body (pad t x) Hc).
  apply (roundtrip_value_sized t x body Hwt Hwv Hk Hb).
Qed.

(* ---------- the last step of the typed round trip: unembed (pad (embed v)) = v ---------- *)

Lemma min_twos_len_pos z : (0 < min_twos_len z)%nat.
Proof.
  unfold min_twos_len. destruct (_ =? 0)%Z; [lia|].
  set (m := if (z <? 0)%Z then _ else _). pose proof (Z.log2_nonneg m).
  assert (0 <= (Z.log2 m + 1) / 8)%Z by (apply Z.div_pos; lia). lia.
Qed.

Lemma min_twos_len_range z :
  (- 2 ^ (8 * Z.of_nat (min_twos_len z) - 1) <= z < 2 ^ (8 * Z.of_nat (min_twos_len z) - 1))%Z.
Proof.
  unfold min_twos_len. set (m := if (z <? 0)%Z then (- z - 1)%Z else z).
  assert (Hm0 : (0 <= m)%Z) by (unfold m; destruct (z <? 0)%Z eqn:E; lia).
  assert (Hzm : forall P, (m < P -> - P <= z < P)%Z) by (intros P; unfold m; destruct (z <? 0)%Z eqn:E; lia).
  destruct (m =? 0)%Z eqn:E0.
  - apply Z.eqb_eq in E0. change (8 * Z.of_nat 1 - 1)%Z with 7%Z. apply Hzm. rewrite E0. reflexivity.
  - apply Z.eqb_neq in E0. assert (Hp : (0 < m)%Z) by lia.
    pose proof (Z.log2_spec m Hp) as [_ Hlt]. pose proof (Z.log2_nonneg m) as Hl.
    set (l := Z.log2 m) in *. rewrite Z2Nat.id by (assert (0 <= (l + 1) / 8)%Z by (apply Z.div_pos; lia); lia).
    apply Hzm. eapply Z.lt_le_trans; [exact Hlt|]. unfold Z.succ. apply Z.pow_le_mono_r; lia.
Qed.

(* num_bigint: from_signed_bytes_be . to_signed_bytes_be = id *)
Lemma big_of_min_twos z : big_of_bytes (min_twos z) = z.
Proof.
  unfold big_of_bytes, min_twos. pose proof (min_twos_len_pos z) as Hp.
  assert (is_nil (enc_signed (min_twos_len z) z) = false) as ->.
  { pose proof (enc_signed_length (min_twos_len z) z) as L. destruct (enc_signed _ z); [cbn in L; lia|reflexivity]. }
  apply dec_enc_signed; [exact Hp|apply min_twos_len_range].
Qed.

Lemma nullable_embed k : nullable k = false -> forall t v, embed k t v <> Some CNull.
Proof.
  induction k as [l| |k IH|k IH|k IH|k IH|k IH|k IH|ka IHa kb IHb|ks]; cbn [nullable embed]; intros Hn t v; try discriminate Hn.
  - destruct (leaf_embed l t v); cbn; discriminate.
  - destruct v; discriminate.
  - destruct v; try discriminate. apply IH. exact Hn.
  - destruct (negb _); [discriminate|]. destruct v; try discriminate. apply IH. exact Hn.
  - destruct v; try discriminate. apply IH. exact Hn.
  - destruct v; try discriminate; destruct t; try discriminate; destruct (all_some _); discriminate.
  - destruct v; try discriminate; destruct t; try discriminate; destruct (all_some _); discriminate.
  - destruct v; try discriminate; destruct t; try discriminate; destruct (all_some _); discriminate.
  - destruct v; try discriminate; destruct t; try discriminate.
    match goal with |- option_map _ ?o <> _ => destruct o end; discriminate.
Qed.

(* a null position reads back as the carrier value that was written as null *)
Lemma null_read k : plain k = true -> forall t v, embed k t v = Some CNull -> typed_read k t None = Ok v.
Proof.
  induction k as [l| |k IH|k IH|k IH|k IH|k IH|k IH|ka IHa kb IHb|ks]; cbn [plain]; intros Hp t v He; try discriminate Hp;
    try (exfalso; revert He; apply nullable_embed; reflexivity).
  - cbn [embed] in He. destruct v; try discriminate; [reflexivity|].
    apply andb_true_iff in Hp as [Hn _]. apply negb_true_iff in Hn. exfalso. exact (nullable_embed k Hn t v He).
  - apply andb_true_iff in Hp as [He' _]. exfalso. revert He. apply nullable_embed.
    cbn [nullable]. destruct k; try discriminate He'. reflexivity.
  - cbn [embed] in He. destruct v; try discriminate. cbn [typed_read]. rewrite (IH Hp t v He). reflexivity.
Qed.

Lemma map_res_all_some {A B} (g : A -> option B) (u : B -> dres A) (p : B -> B) l xs :
  all_some (map g l) = Some xs ->
  (forall v y, In v l -> g v = Some y -> u (p y) = Ok v) ->
  map_res u (map p xs) = Ok l.
Proof.
  revert xs. induction l as [|v l IH]; intros xs H Hu.
  - cbn in H. apply some_inj in H. subst xs. reflexivity.
  - cbn [map] in H. apply all_some_cons in H as (y & r & Hy & Hr & ->).
    cbn [map map_res]. rewrite (Hu v y (or_introl eq_refl) Hy). cbn [rbind].
    rewrite (IH r Hr (fun v' y' Hv => Hu v' y' (or_intror Hv))). reflexivity.
Qed.

Lemma leaf_unembed_pad l t v x :
  typed_check (KLeaf l) t = true -> leaf_embed l t v = Some x -> leaf_unembed l t (pad t x) = Ok v.
Proof.
  intros Hc He. cbn [typed_check] in Hc. destruct (native_in_inv _ _ Hc) as (n & ->).
  destruct l; destruct v; cbn [leaf_embed] in He; try discriminate He; apply some_inj in He; subst x;
    destruct n; try discriminate Hc; cbn [pad leaf_unembed]; try reflexivity.
  rewrite big_of_min_twos. reflexivity.
Qed.

Definition UE (k : carrier) : Prop := forall t v x,
  plain k = true -> typed_check k t = true -> embed k t v = Some (CVal x) -> unembed k t (pad t x) = Ok v.

Lemma ue_tuple_go_pad ks : Forall UE ks -> forall ts vs xs,
  forallb plain ks = true -> List.length ks = List.length ts -> tc_tuple_go ks ts = true ->
  emb_tuple_go embed ks ts vs = Some xs ->
  ue_tuple_go typed_read unembed ks ts (pad_tuple_go pad ts xs) = Ok vs.
Proof.
  induction 1 as [|k1 ks H1 HF IH]; intros ts vs xs Hp Hlen Hc He.
  - destruct vs; [|discriminate]. destruct ts; reflexivity.
  - destruct ts as [|t1 ts]; [discriminate|]. destruct vs as [|v1 vs]; [discriminate|].
    cbn [forallb] in Hp. apply andb_true_iff in Hp as [Hp1 Hps].
    cbn [tc_tuple_go] in Hc. apply andb_true_iff in Hc as [Hc1 Hcs].
    cbn [emb_tuple_go] in He. destruct (embed k1 t1 v1) as [c1|] eqn:E1; [|discriminate].
    destruct (emb_tuple_go embed ks ts vs) as [r|] eqn:Er; [|destruct c1; discriminate].
    pose proof (IH ts vs r Hps ltac:(cbn in Hlen; lia) Hcs Er) as Hrec.
    destruct c1 as [| |x1]; try discriminate; apply some_inj in He; subst xs; cbn [pad_tuple_go option_map ue_tuple_go].
    + rewrite (null_read k1 Hp1 t1 v1 E1). cbn [rbind]. rewrite Hrec. reflexivity.
    + rewrite (H1 t1 v1 x1 Hp1 Hc1 E1). cbn [rbind]. rewrite Hrec. reflexivity.
Qed.

Theorem unembed_pad_embed k : UE k.
Proof.
  induction k as [l| |k IH|k IH|k IH|k IH|k IH|k IH|ka kb IHa IHb|ks IH] using carrier_ind'; intros t v x Hp Hc He;
    cbn [plain] in Hp; try discriminate Hp.
  - cbn [embed] in He. destruct (leaf_embed l t v) as [y|] eqn:E; [|discriminate]. cbn in He.
    apply some_inj in He. inversion He; subst y. cbn [unembed]. apply leaf_unembed_pad; assumption.
  - (* Option *)
    apply andb_true_iff in Hp as [_ Hp]. cbn [embed typed_check unembed] in *. destruct v; try discriminate.
    rewrite (IH t v x Hp Hc He). reflexivity.
  - (* MaybeEmpty *)
    apply andb_true_iff in Hp as [Hem Hp]. cbn [typed_check] in Hc. apply andb_true_iff in Hc as [_ Hc].
    cbn [embed] in He. destruct (negb _); [discriminate|].
    destruct k as [l| | | | | | | | |]; try discriminate Hem. cbn [typed_check] in Hc.
    destruct (native_in_inv _ _ Hc) as (n & ->).
    assert (Hs : is_string_type (TNative n) = false).
    { destruct l; try discriminate Hem; destruct n; try discriminate Hc; reflexivity. }
    destruct v; try discriminate.
    + apply some_inj in He. inversion He; subst x. cbn [unembed].
      destruct n; try discriminate Hs; reflexivity.
    + pose proof (IH (TNative n) v x Hp Hc He) as Hu. cbn [unembed] in *.
      cbn [embed] in He. destruct (leaf_embed l (TNative n) v) as [y|] eqn:E; [|discriminate]. cbn in He.
      apply some_inj in He. inversion He; subst y.
      assert (Hne : pad (TNative n) x <> CEmpty).
      { destruct l; destruct v; cbn [leaf_embed] in E; try discriminate E; apply some_inj in E; subst x;
          destruct n; try discriminate Hc; cbn [pad]; discriminate. }
      rewrite Hu. destruct (pad (TNative n) x); try reflexivity. congruence.
  - (* pointers *)
    cbn [embed typed_check unembed] in *. destruct v; try discriminate. rewrite (IH t v x Hp Hc He). reflexivity.
  - (* Vec *)
    cbn [embed] in He. destruct v; try discriminate. cbn [typed_check] in Hc.
    destruct t as [|e|e| | | |e d]; try discriminate Hc;
      destruct (all_some _) as [xs|] eqn:Ea; try discriminate; cbn [option_map] in He; apply some_inj in He;
      inversion He; subst x; cbn [pad unembed];
      rewrite (map_res_all_some _ (unembed k e) (pad e) l xs Ea); try reflexivity;
      intros v' y _ Hy; destruct (embed k e v') as [c|] eqn:Ev; try discriminate; destruct c; try discriminate;
      cbn in Hy; apply some_inj in Hy; subst; apply (IH e v' _ Hp Hc Ev).
  - (* sets *)
    cbn [embed] in He. destruct v; try discriminate. cbn [typed_check] in Hc.
    destruct t as [| |e| | | |]; try discriminate Hc.
    destruct (all_some _) as [xs|] eqn:Ea; try discriminate. cbn [option_map] in He. apply some_inj in He.
    inversion He; subst x. cbn [pad unembed].
    rewrite (map_res_all_some _ (unembed k e) (pad e) l xs Ea); [reflexivity|].
    intros v' y _ Hy. destruct (embed k e v') as [c|] eqn:Ev; try discriminate. destruct c; try discriminate.
    cbn in Hy. apply some_inj in Hy. subst. apply (IH e v' _ Hp Hc Ev).
  - (* maps *)
    apply andb_true_iff in Hp as [Hpa Hpb]. cbn [embed] in He. destruct v; try discriminate. cbn [typed_check] in Hc.
    destruct t as [| | |tk tv| | |]; try discriminate Hc. apply andb_true_iff in Hc as [Hca Hcb].
    destruct (all_some _) as [xs|] eqn:Ea; try discriminate. cbn [option_map] in He. apply some_inj in He.
    inversion He; subst x. cbn [pad unembed].
    rewrite (map_res_all_some _
               (fun kv => rbind (unembed ka tk (fst kv)) (fun a => rbind (unembed kb tv (snd kv)) (fun b => Ok (a, b))))
               (fun kv => (pad tk (fst kv), pad tv (snd kv))) l xs Ea); [reflexivity|].
    intros kv y _ Hy. destruct (embed ka tk (fst kv)) as [ca|] eqn:Ea1; try discriminate.
    destruct ca as [| |a]; try discriminate. destruct (embed kb tv (snd kv)) as [cb|] eqn:Eb1; try discriminate.
    destruct cb as [| |b]; try discriminate. apply some_inj in Hy. subst y. cbn [fst snd].
    rewrite (IHa tk _ _ Hpa Hca Ea1). cbn [rbind]. rewrite (IHb tv _ _ Hpb Hcb Eb1). cbn [rbind].
    destruct kv; reflexivity.
  - (* tuples *)
    destruct v; try (cbn [embed] in He; discriminate). destruct t as [| | | |ts| |]; try (cbn [embed] in He; discriminate).
    rewrite embed_tuple in He. destruct (emb_tuple_go embed ks ts l) as [xs|] eqn:Eg; [|discriminate].
    cbn [option_map] in He. apply some_inj in He. inversion He; subst x.
    rewrite typed_check_tuple in Hc. apply andb_true_iff in Hc as [Hlen Hc]. apply Nat.eqb_eq in Hlen.
    rewrite pad_tuple, unembed_tuple. rewrite (ue_tuple_go_pad ks IH ts l xs Hp Hlen Hc Eg). reflexivity.
Qed.

(* the typed round trip, complete: what a plain carrier writes, its own decoder reads back as the
   SAME carrier value *)
Theorem typed_roundtrip_exact k t v x b :
  plain k = true -> embed k t v = Some (CVal x) -> typed_check k t = true ->
  wf t x = true -> known_class t x = false ->
  typed_write k true t v = Ok b ->
  exists body, b = framed body /\ typed_read k t (Some body) = Ok v.
Proof.
  intros Hp He Hc Hwf Hk Hw. destruct (typed_roundtrip k t v x b He Hc Hwf Hk Hw) as (body & -> & Hr).
  exists body. split; [reflexivity|]. rewrite Hr. apply unembed_pad_embed; assumption.
Qed.

(* ---------- the typed round trip with nulls anywhere (no embedding of the whole value) ---------- *)

(* a piece of bytes that one [bytes] read consumes exactly, after which [g] returns [v] *)
Definition piece_ok (g : option bytes -> dres tval) (v : tval) (p : bytes) : Prop :=
  forall r, exists ob, read_cql_bytes (p ++ r) = Some (ob, r) /\ g ob = Ok v.

Lemma piece_len g v p : piece_ok g v p -> (4 <= List.length p)%nat.
Proof.
  intros H. destruct (H []) as (ob & Hr & _). rewrite app_nil_r in Hr.
  apply read_cql_bytes_len in Hr. cbn in Hr. lia.
Qed.

Lemma typed_items_pieces g vs ps :
  Forall2 (piece_ok g) vs ps ->
  forall rest fuel, (List.length (concat ps ++ rest) < fuel)%nat ->
  typed_items g fuel (N.of_nat (List.length vs)) (concat ps ++ rest) = Ok vs.
Proof.
  induction 1 as [|v p vs ps Hp HF IH]; intros rest fuel Hfuel.
  - destruct fuel; reflexivity.
  - destruct fuel as [|fuel]; [lia|]. cbn [List.length typed_items]. rewrite of_nat_S_nz.
    rewrite concat_cons_app. destruct (Hp (concat ps ++ rest)) as (ob & Hr & Hg). rewrite Hr, Hg. cbn [rbind].
    rewrite of_nat_S_pred, IH; [reflexivity|].
    pose proof (piece_len _ _ _ Hp). rewrite concat_cons_app, app_length in Hfuel. lia.
Qed.

Lemma typed_pairs_pieces gk gv (l : list (tval * tval)) ps :
  Forall2 (fun kv p => exists pk pv, p = pk ++ pv /\ piece_ok gk (fst kv) pk /\ piece_ok gv (snd kv) pv) l ps ->
  forall rest fuel, (List.length (concat ps ++ rest) < fuel)%nat ->
  typed_pairs gk gv fuel (N.of_nat (List.length l)) (concat ps ++ rest) = Ok l.
Proof.
  induction 1 as [|[k v] p l ps (pk & pv & -> & Hk & Hv) HF IH]; intros rest fuel Hfuel.
  - destruct fuel; reflexivity.
  - destruct fuel as [|fuel]; [lia|]. cbn [List.length typed_pairs fst snd] in *. rewrite of_nat_S_nz.
    rewrite concat_cons_app, <- app_assoc.
    destruct (Hk (pv ++ concat ps ++ rest)) as (ok & Hrk & Hgk). rewrite Hrk.
    destruct (Hv (concat ps ++ rest)) as (ov & Hrv & Hgv). rewrite Hrv, Hgk, Hgv. cbn [rbind].
    rewrite of_nat_S_pred, IH; [reflexivity|].
    pose proof (piece_len _ _ _ Hk). rewrite concat_cons_app, !app_length in Hfuel. rewrite app_length. lia.
Qed.

(* ... and, when the carrier cannot itself be null, the item read is not null *)
Definition piece_ok2 (k : carrier) (t : ctype) (v : tval) (p : bytes) : Prop :=
  forall r, exists ob, read_cql_bytes (p ++ r) = Some (ob, r) /\ typed_read k t ob = Ok v /\
                       (nullable k = false -> ob <> None).

Lemma piece_ok2_1 k t v p : piece_ok2 k t v p -> piece_ok (typed_read k t) v p.
Proof. intros H r. destruct (H r) as (ob & H1 & H2 & _). eauto. Qed.

Definition TRC (k : carrier) : Prop := forall t v b,
  plain k = true -> typed_check k t = true -> tgood k t v = true ->
  typed_write k true t v = Ok b -> piece_ok2 k t v b.

Lemma known_class_native n x : known_class (TNative n) x = false.
Proof. unfold known_class. cbn [exists_sub]. rewrite orb_false_r. unfold kc_any, kc_vector_hole, kc_empty_tuple. reflexivity. Qed.

(* a value that embeds as a whole: the existing exact theorem, in piece form *)
Lemma piece_of_embed k t v x b :
  plain k = true -> typed_check k t = true -> embed k t v = Some (CVal x) ->
  wf t x = true -> known_class t x = false -> typed_write k true t v = Ok b ->
  piece_ok2 k t v b.
Proof.
  intros Hp Hc He Hwf Hk Hw r.
  rewrite (typed_write_embed k true t v _ He) in Hw. cbn [ser_cell_ws] in Hw.
  apply rbind_ok in Hw as (body & Hb & Hw). inv Hw.
  unfold wf in Hwf. apply andb_true_iff in Hwf as [Hwt Hwv].
  exists (Some body). split; [apply read_cql_framed; eapply ser_sized_bound; eassumption|].
  split; [|intros _; discriminate].
  rewrite (typed_read_unembed k t body (pad t x) Hc (roundtrip_value_sized t x body Hwt Hwv Hk Hb)).
  apply unembed_pad_embed; assumption.
Qed.

Lemma seq_write_inv (f : tval -> sres) l b :
  (if i32_max <? N.of_nat (List.length l) then Err SE_TooManyElements else
   rbind (ser_concat f l) (fun bs => rbind (finish true (be32 (N.of_nat (List.length l)) ++ bs)) (fun c => Ok (wrap true c)))) = Ok b ->
  exists ps, Forall2 (fun x p => f x = Ok p) l ps /\ N.of_nat (List.length l) <= i32_max /\
             b = framed (be32 (N.of_nat (List.length l)) ++ concat ps) /\
             blen (be32 (N.of_nat (List.length l)) ++ concat ps) <= i32_max.
Proof.
  destruct (i32_max <? _) eqn:E; [discriminate|]. apply N.ltb_ge in E. intros H.
  apply rbind_ok in H as (bs & Hbs & H). apply rbind_ok in H as (c & Hf & H). inv H.
  apply finish_ok in Hf as [-> Hb]. apply ser_concat_ok in Hbs as (ps & HF & ->).
  exists ps. repeat split; auto.
Qed.

Lemma trc_seq k e l b (g := typed_read k e) :
  (forall v p, In v l -> typed_write k true e v = Ok p -> piece_ok g v p) ->
  (if i32_max <? N.of_nat (List.length l) then Err SE_TooManyElements else
   rbind (ser_concat (typed_write k true e) l) (fun bs => rbind (finish true (be32 (N.of_nat (List.length l)) ++ bs)) (fun c => Ok (wrap true c)))) = Ok b ->
  forall r, exists body, read_cql_bytes (b ++ r) = Some (Some body, r) /\
    rbind (read_count body) (fun nr => rbind (typed_items g (S (List.length body)) (fst nr) (snd nr)) (fun l => Ok (TSeq l))) = Ok (TSeq l).
Proof.
  intros Hel H r. apply seq_write_inv in H as (ps & HF & Hn & -> & Hb).
  eexists. split; [apply read_cql_framed; exact Hb|].
  unfold read_count. rewrite read_int_be32 by exact Hn.
  destruct (Z.of_N _ <? 0)%Z eqn:E; [lia|]. cbn [rbind fst snd]. rewrite N2Z.id.
  assert (HF' : Forall2 (piece_ok g) l ps).
  { eapply Forall2_impl_In; [exact HF|]. intros v p Hv _ Hp. exact (Hel v p Hv Hp). }
  pose proof (typed_items_pieces g l ps HF' [] (S (List.length (be32 (N.of_nat (List.length l)) ++ concat ps)))) as HI.
  rewrite !(app_nil_r (concat ps)) in HI. rewrite HI by (rewrite app_length; lia). reflexivity.
Qed.

Fixpoint tg_tuple_go (ks : list carrier) (ts : list ctype) (vs : list tval) : bool :=
  match ks, ts, vs with
  | [], [], [] => true
  | k1 :: ks', t1 :: ts', v1 :: vs' => tgood k1 t1 v1 && tg_tuple_go ks' ts' vs'
  | _, _, _ => false
  end.

Lemma tgood_tuple ks ts vs : tgood (KTuple ks) (TTuple ts) (TTup vs) = tg_tuple_go ks ts vs.
Proof.
  cbn [tgood]. revert ts vs. induction ks as [|k1 ks IH]; intros ts vs; [destruct ts, vs; reflexivity|].
  destruct ts as [|t1 ts]; [reflexivity|]. destruct vs as [|v1 vs]; [reflexivity|].
  cbn [tg_tuple_go]. f_equal; try apply IH.
Qed.

Lemma trc_tuple_go ks : Forall TRC ks -> forall ts vs bs,
  forallb plain ks = true -> tc_tuple_go ks ts = true -> tg_tuple_go ks ts vs = true ->
  tw_tuple_go (fun k => typed_write k true) ks ts vs = Ok bs ->
  tr_tuple_go typed_read ks ts bs = Ok vs.
Proof.
  induction 1 as [|k1 ks H1 HF IH]; intros ts vs bs Hp Hc Hg Hw.
  - destruct ts; [|discriminate]. destruct vs; [|discriminate]. reflexivity.
  - destruct ts as [|t1 ts]; [discriminate|]. destruct vs as [|v1 vs]; [discriminate|].
    cbn [forallb tc_tuple_go tg_tuple_go tw_tuple_go] in *.
    apply andb_true_iff in Hp as [Hp1 Hps]. apply andb_true_iff in Hc as [Hc1 Hcs]. apply andb_true_iff in Hg as [Hg1 Hgs].
    apply rbind_ok in Hw as (p & Hp' & Hw). apply rbind_ok in Hw as (bs' & Hbs' & Hw). inv Hw.
    pose proof (piece_ok2_1 _ _ _ _ (H1 t1 v1 p Hp1 Hc1 Hg1 Hp')) as Hpiece. pose proof (piece_len _ _ _ Hpiece) as Hl.
    cbn [tr_tuple_go]. rewrite is_nil_app_false by (intros ->; cbn in Hl; lia).
    destruct (Hpiece bs') as (ob & Hr & Hgv). rewrite Hr, Hgv. cbn [rbind].
    rewrite (IH ts vs bs' Hps Hcs Hgs Hbs'). reflexivity.
Qed.

Lemma is_nil_false {A} (l : list A) : l <> [] -> is_nil l = false.
Proof. destruct l; [congruence|reflexivity]. Qed.

Lemma leaf_embed_not_empty l t v x : leaf_embed l t v = Some x -> x <> CEmpty.
Proof. destruct l; destruct v; cbn; intros H; try discriminate H; apply some_inj in H; subst; try discriminate; destruct t as [[]| | | | | |]; discriminate. Qed.

(* an emptiable leaf value of the type is never written as zero bytes *)
Lemma leaf_nonempty l t v b :
  emptiable (KLeaf l) = true -> typed_check (KLeaf l) t = true -> tgood (KLeaf l) t v = true ->
  typed_write (KLeaf l) true t v = Ok b -> exists c, b = framed c /\ c <> [] /\ blen c <= i32_max.
Proof.
  intros Hem Hc Hg Hw. cbn [tgood] in Hg. destruct (leaf_embed l t v) as [x|] eqn:E; [|discriminate].
  assert (He : embed (KLeaf l) t v = Some (CVal x)) by (cbn [embed]; rewrite E; reflexivity).
  rewrite (typed_write_embed (KLeaf l) true t v _ He) in Hw. cbn [ser_cell_ws] in Hw.
  apply rbind_ok in Hw as (c & Hcx & Hw). inv Hw.
  unfold wf in Hg. apply andb_true_iff in Hg as [Hwt Hwv].
  cbn [typed_check] in Hc. destruct (native_in_inv _ _ Hc) as (n & ->).
  exists c. split; [reflexivity|]. split; [|eapply ser_sized_bound; eassumption].
  apply (ser_nonempty (TNative n) true x c Hwt Hwv (known_class_native n x) (leaf_embed_not_empty _ _ _ _ E)); [|exact Hcx].
  destruct l; try discriminate Hem; destruct n; try discriminate Hc; reflexivity.
Qed.

Theorem typed_roundtrip_cells k : TRC k.
Proof.
  induction k as [l| |k IH|k IH|k IH|k IH|k IH|k IH|ka kb IHa IHb|ks IH] using carrier_ind'; intros t v b Hp Hc Hg Hw;
    cbn [plain] in Hp; try discriminate Hp.
  - (* leaf: embeds as a whole *)
    cbn [tgood] in Hg. destruct (leaf_embed l t v) as [x|] eqn:E; [|discriminate].
    cbn [typed_check] in Hc. destruct (native_in_inv _ _ Hc) as (n & ->).
    apply (piece_of_embed (KLeaf l) (TNative n) v x b eq_refl Hc); try assumption.
    + cbn [embed]. rewrite E. reflexivity.
    + apply known_class_native.
  - (* Option *)
    apply andb_true_iff in Hp as [Hn Hp]. apply negb_true_iff in Hn.
    cbn [typed_check tgood typed_write] in *. destruct v; try discriminate.
    + inv Hw. intros r. exists None. split; [apply read_cql_null|]. split; [reflexivity|discriminate].
    + intros r. destruct (IH t v b Hp Hc Hg Hw r) as (ob & Hr & Hgv & Hnn). exists ob. split; [exact Hr|].
      split; [|discriminate]. cbn [typed_read]. destruct ob as [s|]; [rewrite Hgv; reflexivity|].
      exfalso. apply (Hnn Hn). reflexivity.
  - (* MaybeEmpty *)
    apply andb_true_iff in Hp as [Hem Hp]. cbn [typed_check] in Hc. apply andb_true_iff in Hc as [_ Hc].
    cbn [tgood typed_write] in *. destruct (negb (supports_empty t)); [discriminate|]. destruct v; try discriminate.
    + inv Hw. intros r. exists (Some []). split; [apply (read_cql_framed []); cbn; unfold i32_max; lia|].
      split; [reflexivity|discriminate].
    + assert (Hn : nullable k = false) by (destruct k; try discriminate Hem; reflexivity).
      intros r. destruct (IH t v b Hp Hc Hg Hw r) as (ob & Hr & Hgv & Hnn). exists ob. split; [exact Hr|].
      split; [|intros _; apply Hnn; exact Hn]. cbn [typed_read].
      destruct ob as [s|]; [|exfalso; apply (Hnn Hn); reflexivity].
      destruct k as [l| | | | | | | | |]; try discriminate Hem.
      destruct (leaf_nonempty l t v b Hem Hc Hg Hw) as (c & -> & Hcn & Hcb).
      rewrite read_cql_framed in Hr by exact Hcb. apply some_inj in Hr. inversion Hr; subst s.
      rewrite is_nil_false by exact Hcn. rewrite Hgv. reflexivity.
  - (* pointers *)
    cbn [typed_check tgood typed_write nullable] in *. destruct v; try discriminate.
    intros r. destruct (IH t v b Hp Hc Hg Hw r) as (ob & Hr & Hgv & Hnn). exists ob. split; [exact Hr|].
    split; [cbn [typed_read]; rewrite Hgv; reflexivity|exact Hnn].
  - (* Vec *)
    destruct v; try (cbn [tgood] in Hg; discriminate Hg).
    destruct t as [|e|e| | | |e d]; try (cbn [typed_check] in Hc; discriminate Hc).
    + cbn [typed_check tgood typed_write] in *. intros r.
      destruct (trc_seq k e l b (fun v p Hv Hpv => piece_ok2_1 _ _ _ _ (IH e v p Hp Hc (forallb_In _ _ _ Hg Hv) Hpv)) Hw r) as (body & Hr & Hrd).
      exists (Some body). split; [exact Hr|]. split; [|discriminate]. cbn [typed_read]. exact Hrd.
    + cbn [typed_check tgood typed_write] in *. intros r.
      destruct (trc_seq k e l b (fun v p Hv Hpv => piece_ok2_1 _ _ _ _ (IH e v p Hp Hc (forallb_In _ _ _ Hg Hv) Hpv)) Hw r) as (body & Hr & Hrd).
      exists (Some body). split; [exact Hr|]. split; [|discriminate]. cbn [typed_read]. exact Hrd.
    + (* bound to a vector: the value embeds as a whole *)
      cbn [tgood] in Hg. destruct (embed (KVec k) (TVector e d) (TSeq l)) as [[| |x]|] eqn:E; try discriminate Hg.
      apply andb_true_iff in Hg as [Hwf Hk]. apply negb_true_iff in Hk.
      apply (piece_of_embed (KVec k) (TVector e d) (TSeq l) x b Hp Hc E Hwf Hk Hw).
  - (* sets *)
    destruct v; try (cbn [tgood] in Hg; discriminate Hg).
    destruct t as [| |e| | | |]; try (cbn [typed_check] in Hc; discriminate Hc).
    cbn [typed_check tgood typed_write] in *. intros r.
    destruct (trc_seq k e l b (fun v p Hv Hpv => piece_ok2_1 _ _ _ _ (IH e v p Hp Hc (forallb_In _ _ _ Hg Hv) Hpv)) Hw r) as (body & Hr & Hrd).
    exists (Some body). split; [exact Hr|]. split; [|discriminate]. cbn [typed_read]. exact Hrd.
  - (* maps *)
    apply andb_true_iff in Hp as [Hpa Hpb].
    destruct v; try (cbn [tgood] in Hg; discriminate Hg).
    destruct t as [| | |tk tv| | |]; try (cbn [typed_check] in Hc; discriminate Hc).
    cbn [typed_check tgood typed_write] in *. apply andb_true_iff in Hc as [Hca Hcb]. intros r.
    destruct (i32_max <? _) eqn:En; [discriminate|]. apply N.ltb_ge in En.
    apply rbind_ok in Hw as (bs & Hbs & Hw). apply rbind_ok in Hw as (c & Hf & Hw). inv Hw.
    apply finish_ok in Hf as [-> Hb]. specialize (Hb eq_refl). apply ser_concat_ok in Hbs as (ps & HF & ->).
    eexists. split; [apply read_cql_framed; exact Hb|]. split; [|discriminate].
    cbn [typed_read]. unfold read_count. rewrite read_int_be32 by exact En.
    destruct (Z.of_N _ <? 0)%Z eqn:E; [lia|]. cbn [rbind fst snd]. rewrite N2Z.id.
    pose proof (typed_pairs_pieces (typed_read ka tk) (typed_read kb tv) l ps) as HI.
    rewrite <- (app_nil_r (concat ps)) at 2.
    rewrite HI; [reflexivity| |rewrite app_nil_r, !app_length; lia].
    eapply Forall2_impl_In; [exact HF|]. intros kv p Hx _ Hpp. cbn beta in Hpp.
    apply rbind_ok in Hpp as (pk & Hpk & Hpp). apply rbind_ok in Hpp as (pv & Hpv & Hpp). inv Hpp.
    pose proof (forallb_In _ _ _ Hg Hx) as Hgx. cbn beta in Hgx. apply andb_true_iff in Hgx as [Hg1 Hg2].
    exists pk, pv. split; [reflexivity|].
    split; [apply piece_ok2_1, (IHa tk _ pk Hpa Hca Hg1 Hpk)|apply piece_ok2_1, (IHb tv _ pv Hpb Hcb Hg2 Hpv)].
  - (* tuples *)
    destruct v; try (cbn [tgood] in Hg; discriminate Hg).
    destruct t as [| | | |ts| |]; try (cbn [typed_check] in Hc; discriminate Hc).
    rewrite typed_check_tuple in Hc. apply andb_true_iff in Hc as [Hlen Hc]. apply Nat.eqb_eq in Hlen.
    rewrite tgood_tuple in Hg. rewrite typed_write_tuple in Hw.
    destruct (_ <? _)%nat; [discriminate|].
    apply rbind_ok in Hw as (bs & Hbs & Hw). apply rbind_ok in Hw as (c & Hf & Hw). inv Hw.
    apply finish_ok in Hf as [-> Hb]. specialize (Hb eq_refl). intros r.
    exists (Some bs). split; [apply read_cql_framed; exact Hb|]. split; [|discriminate].
    rewrite typed_read_tuple, (trc_tuple_go ks IH ts l bs Hp Hc Hg Hbs). reflexivity.
Qed.

(* ---------- [tgood] covers every value the whole-value embedding covers ---------- *)

Definition cell_good (t : ctype) (c : cell) : Prop :=
  match c with CVal x => wf t x = true /\ known_class t x = false | _ => True end.

Lemma all_some_forallb {A B} (g : A -> option B) (P : A -> bool) (Q : B -> Prop) l xs :
  all_some (map g l) = Some xs -> Forall Q xs ->
  (forall x y, In x l -> g x = Some y -> Q y -> P x = true) -> forallb P l = true.
Proof.
  revert xs. induction l as [|x l IH]; intros xs H HQ HP; [reflexivity|].
  cbn [map] in H. apply all_some_cons in H as (y & r & Hy & Hr & ->). inversion HQ; subst.
  cbn [forallb]. rewrite (HP x y (or_introl eq_refl) Hy) by assumption.
  apply (IH r Hr); [assumption|]. intros x' y' Hx. apply HP. right. exact Hx.
Qed.

Lemma seq_good t e xs (v : cval) : (t = TList e \/ t = TSet e) -> vec_elems v = Some xs -> v <> CEmpty ->
  wf t v = true -> known_class t v = false ->
  Forall (fun x => wf e x = true /\ known_class e x = false) xs.
Proof.
  intros Ht Hv Hne Hwf Hk. unfold wf in *. apply andb_true_iff in Hwf as [Hty Hwv].
  unfold known_class in *.
  assert (wf_type e = true /\ forallb (wf_val e) xs = true /\ existsb (exists_sub kc_any e) xs = false) as (H1 & H2 & H3).
  { destruct Ht as [-> | ->]; cbn [wf_type exists_sub] in *; rewrite Hv in Hk; apply orb_false_iff in Hk as [_ Hk];
      (split; [exact Hty|split; [|exact Hk]]); destruct v; try discriminate Hv; try congruence; cbn in Hv; inversion Hv; subst; exact Hwv. }
  clear - H1 H2 H3. induction xs as [|x xs IH]; [constructor|].
  cbn [forallb existsb] in *. apply andb_true_iff in H2 as [? ?]. apply orb_false_iff in H3 as [? ?].
  constructor; [split; [apply andb_true_iff; split; assumption|assumption]|apply IH; assumption].
Qed.

Definition ETG k := forall t v c, plain k = true -> typed_check k t = true -> embed k t v = Some c -> cell_good t c -> tgood k t v = true.

Lemma cell_val_some c x : cell_val c = Some x -> c = CVal x.
Proof. destruct c; cbn; intros H; inversion H; reflexivity. Qed.

Lemma etg_seq k e l xs : ETG k -> plain k = true -> typed_check k e = true ->
  all_some (map (fun x => match embed k e x with Some c => cell_val c | None => None end) l) = Some xs ->
  Forall (fun x => wf e x = true /\ known_class e x = false) xs ->
  forallb (tgood k e) l = true.
Proof.
  intros IH Hp Hc Ha HF. apply (all_some_forallb _ _ _ l xs Ha HF).
  intros x y _ Hy HQ. destruct (embed k e x) as [c|] eqn:E; [|discriminate]. apply cell_val_some in Hy. subst c.
  apply (IH e x (CVal y) Hp Hc E). exact HQ.
Qed.

Lemma etg_tuple_go ks : Forall ETG ks -> forall ts vs xs,
  forallb plain ks = true -> List.length ks = List.length ts -> tc_tuple_go ks ts = true ->
  emb_tuple_go embed ks ts vs = Some xs ->
  forallb wf_type ts = true -> wf_tuple_go wf_val ts xs = true -> ex_tuple_go (exists_sub kc_any) ts xs = false ->
  tg_tuple_go ks ts vs = true.
Proof.
  induction 1 as [|k ks Hk _ IH]; intros ts vs xs Hp Hl Hc He Hty Hwf Hkc.
  - destruct ts; [|discriminate]. destruct vs; [reflexivity|discriminate].
  - destruct ts as [|t ts]; [discriminate|]. destruct vs as [|v vs]; [discriminate|].
    cbn [forallb tc_tuple_go emb_tuple_go tg_tuple_go List.length] in *.
    apply andb_true_iff in Hp as [Hp1 Hp]. apply andb_true_iff in Hc as [Hc1 Hc]. apply andb_true_iff in Hty as [Hty1 Hty].
    destruct (embed k t v) as [c|] eqn:E; [|discriminate].
    destruct (emb_tuple_go embed ks ts vs) as [r|] eqn:Er; [|destruct c; discriminate].
    assert (exists ox, xs = ox :: r /\ match ox with Some x => c = CVal x | None => c = CNull end) as (ox & -> & Hox).
    { destruct c; try discriminate; inversion He; eexists; split; reflexivity. }
    cbn [wf_tuple_go ex_tuple_go] in *. apply andb_true_iff in Hwf as [Hw1 Hwf]. apply orb_false_iff in Hkc as [Hk1 Hkc].
    rewrite (IH ts vs r Hp (eq_add_S _ _ Hl) Hc Er Hty Hwf Hkc), andb_true_r.
    apply (Hk t v c Hp1 Hc1 E). destruct ox as [x|]; subst c; cbn [cell_good]; [|exact I].
    split; [unfold wf; rewrite Hty1, Hw1; reflexivity|exact Hk1].
Qed.

Theorem embed_tgood k : ETG k.
Proof.
  induction k as [l| |k IH|k IH|k IH|k IH|k IH|k IH|ka kb IHa IHb|ks IH] using carrier_ind'; intros t v c Hp Hc He Hg;
    cbn [plain] in Hp; try discriminate Hp.
  - cbn [embed] in He. cbn [tgood]. destruct (leaf_embed l t v) as [x|]; [|discriminate]. inversion He; subst c. apply Hg.
  - apply andb_true_iff in Hp as [_ Hp]. cbn [typed_check embed tgood] in *. destruct v; try discriminate; try reflexivity.
    apply (IH t v c Hp Hc He Hg).
  - apply andb_true_iff in Hp as [_ Hp]. cbn [typed_check embed tgood] in *. apply andb_true_iff in Hc as [_ Hc].
    destruct (negb (supports_empty t)); [discriminate|]. destruct v; try discriminate; try reflexivity.
    apply (IH t v c Hp Hc He Hg).
  - cbn [typed_check embed tgood] in *. destruct v; try discriminate. apply (IH t v c Hp Hc He Hg).
  - destruct v; try (cbn [embed] in He; discriminate He).
    destruct t as [|e|e| | | |e d]; try (cbn [typed_check] in Hc; discriminate Hc).
    + cbn [typed_check embed tgood] in *. destruct (all_some _) as [xs|] eqn:Ea; [|discriminate]. inversion He; subst c.
      destruct Hg as [Hwf Hk]. apply (etg_seq k e l xs IH Hp Hc Ea).
      apply (seq_good (TList e) e xs (CList xs)); auto; discriminate.
    + cbn [typed_check embed tgood] in *. destruct (all_some _) as [xs|] eqn:Ea; [|discriminate]. inversion He; subst c.
      destruct Hg as [Hwf Hk]. apply (etg_seq k e l xs IH Hp Hc Ea).
      apply (seq_good (TSet e) e xs (CSet xs)); auto; discriminate.
    + cbn [tgood]. rewrite He. destruct c as [| |x]; try (cbn [embed] in He; destruct (all_some _); discriminate He).
      destruct Hg as [Hwf Hk]. rewrite Hwf, Hk. reflexivity.
  - destruct v; try (cbn [embed] in He; discriminate He).
    destruct t as [| |e| | | |]; try (cbn [typed_check] in Hc; discriminate Hc).
    cbn [typed_check embed tgood] in *. destruct (all_some _) as [xs|] eqn:Ea; [|discriminate]. inversion He; subst c.
    destruct Hg as [Hwf Hk]. apply (etg_seq k e l xs IH Hp Hc Ea).
    apply (seq_good (TSet e) e xs (CSet xs)); auto; discriminate.
  - apply andb_true_iff in Hp as [Hpa Hpb].
    destruct v; try (cbn [embed] in He; discriminate He).
    destruct t as [| | |tk tv| | |]; try (cbn [typed_check] in Hc; discriminate Hc).
    cbn [typed_check embed tgood] in *. apply andb_true_iff in Hc as [Hca Hcb].
    destruct (all_some _) as [xs|] eqn:Ea; [|discriminate]. inversion He; subst c. destruct Hg as [Hwf Hk].
    unfold wf, known_class in *. cbn [wf_type wf_val exists_sub] in *.
    apply andb_true_iff in Hwf as [Hty Hwv]. apply andb_true_iff in Hty as [Hty1 Hty2].
    apply orb_false_iff in Hk as [_ Hk].
    apply (all_some_forallb _ _ (fun ab => (wf tk (fst ab) = true /\ known_class tk (fst ab) = false) /\ (wf tv (snd ab) = true /\ known_class tv (snd ab) = false)) l xs Ea).
    + clear - Hty1 Hty2 Hwv Hk. induction xs as [|[a b] xs IHx]; [constructor|].
      cbn [forallb existsb fst snd] in *. apply andb_true_iff in Hwv as [Hw Hwv]. apply andb_true_iff in Hw as [? ?].
      apply orb_false_iff in Hk as [Hk1 Hk]. apply orb_false_iff in Hk1 as [? ?].
      constructor; [|apply IHx; assumption]. unfold wf, known_class. cbn [fst snd].
      repeat split; try assumption; apply andb_true_iff; split; assumption.
    + intros kv [a b] _ Hy HQ. cbn [fst snd] in HQ. destruct HQ as [Qa Qb].
      destruct (embed ka tk (fst kv)) as [[| |a']|] eqn:E1; try discriminate.
      destruct (embed kb tv (snd kv)) as [[| |b']|] eqn:E2; try discriminate. inversion Hy; subst a' b'.
      rewrite (IHa tk _ _ Hpa Hca E1 Qa), (IHb tv _ _ Hpb Hcb E2 Qb). reflexivity.
  - destruct v; try (cbn [embed] in He; discriminate He).
    destruct t as [| | | |ts| |]; try (cbn [typed_check] in Hc; discriminate Hc).
    rewrite typed_check_tuple in Hc. apply andb_true_iff in Hc as [Hlen Hc]. apply Nat.eqb_eq in Hlen.
    rewrite tgood_tuple. rewrite embed_tuple in He.
    destruct (emb_tuple_go embed ks ts l) as [xs|] eqn:Ee; [|discriminate]. inversion He; subst c. destruct Hg as [Hwf Hk].
    unfold wf, known_class in *. rewrite wf_val_tuple in Hwf. rewrite exists_sub_tuple in Hk. cbn [wf_type] in Hwf.
    apply andb_true_iff in Hwf as [Hty Hwv]. apply andb_true_iff in Hty as [_ Hty]. apply andb_true_iff in Hwv as [_ Hwv].
    apply orb_false_iff in Hk as [_ Hk].
    apply (etg_tuple_go ks IH ts l xs Hp Hlen Hc Ee Hty Hwv Hk).
Qed.
