(* Deepening round 4 (proof only) for C09: lemmas about Model/Request.v on top of
   Proofs/Request_proofs.v.  Kept in its own file so that Request_proofs.v is not rebuilt. *)
From SV Require Import Base.Prelude Base.Bytes Model.Request Proofs.Request_proofs.
Open Scope N_scope.

(* ---------- the acceptance set of the encoder, exactly ---------- *)
(* whatever the compression: an accepted request has nothing oversize and matching batch counts;
   without Snappy its body is below 2^32 *)
Lemma accepted_only cd c tr r f :
  encode_request cd c tr r = Ok f ->
  oversize r = false /\ batch_counts_match r = true /\ (c <> Some Snappy -> body_too_long r = false).
Proof.
  intros Hf. split; [|split].
  - destruct (oversize r) eqn:E; [|reflexivity].
    destruct (oversize_refused_frame cd c tr r) as [e He]; [left; exact E|congruence].
  - destruct r as [| | |bt stmts vals co sc ts| | | |]; try reflexivity.
    cbn [batch_counts_match]. destruct (Nat.eqb_spec (List.length stmts) (List.length vals)) as [|Hn];
      [reflexivity|].
    destruct (batch_mismatch_refused_frame cd c tr bt stmts vals co sc ts Hn) as [e He]. congruence.
  - intros Hc. destruct (body_too_long r) eqn:E; [|reflexivity].
    destruct (oversize_refused_frame cd c tr r) as [e He]; [right; split; [exact E|exact Hc]|congruence].
Qed.

Lemma accepted_iff cd tr r :
  (exists f, encode_request cd None tr r = Ok f) <->
  oversize r = false /\ batch_counts_match r = true /\ body_too_long r = false.
Proof.
  split.
  - intros [f Hf]. destruct (accepted_only cd None tr r f Hf) as (A & B & C).
    repeat split; try assumption. apply C. discriminate.
  - intros (A & B & C). exact (proj1 (encode_total_frame cd tr r A B C)).
Qed.

(* batch_counts_match, characterised *)
Lemma batch_counts_match_false r :
  batch_counts_match r = false <->
  exists bt stmts vals c sc ts, r = Batch bt stmts vals c sc ts /\ List.length stmts <> List.length vals.
Proof.
  split.
  - destruct r as [| | |bt stmts vals co sc ts| | | |]; cbn [batch_counts_match]; try discriminate.
    intros H. apply Nat.eqb_neq in H. repeat eexists. exact H.
  - intros (bt & stmts & vals & c & sc & ts & -> & H). cbn [batch_counts_match].
    apply Nat.eqb_neq. exact H.
Qed.

(* ---------- the driver's predicate is the property: both directions ---------- *)
Lemma frame_says_iff cd c tr st r f :
  frame_says cd c tr st r f = true <->
  exists h, parse_frame cd c (uses_mid r) f = Ok (h, r) /\ h_version h = 4 /\ h_opcode h = opcode r /\
            h_length h + 9 = blen f /\ h_flags h = frame_flags (is_some c) tr /\ h_stream h = st.
Proof.
  split; [apply frame_says_sound|].
  intros (h & P & V & O & L & F & S). unfold frame_says. rewrite P.
  destruct (req_eq_dec r r) as [_|N]; [|congruence].
  rewrite V, O, L, F, S, !N.eqb_refl, Z.eqb_refl. reflexivity.
Qed.

(* ---------- set_stream: what changes and what does not, on the bytes ---------- *)
Lemma sbe2_shape s : exists a b, sbe 2 s = [a; b].
Proof. unfold sbe. cbn [be app]. eauto. Qed.

Lemma set_stream_bytes s f : 4 <= blen f ->
  firstn 2 (set_stream s f) = firstn 2 f /\
  firstn 2 (skipn 2 (set_stream s f)) = sbe 2 s /\
  skipn 4 (set_stream s f) = skipn 4 f /\
  blen (set_stream s f) = blen f.
Proof.
  intros H. split; [|split; [|split]]; [| | |apply blen_set_stream; exact H].
  all: destruct f as [|x0 [|x1 [|x2 [|x3 f']]]];
    try (unfold blen in H; cbn [List.length] in H; lia).
  all: unfold set_stream; destruct (sbe2_shape s) as (a & b & ->); reflexivity.
Qed.

Lemma set_stream_twice s s' f : 4 <= blen f -> set_stream s (set_stream s' f) = set_stream s f.
Proof.
  intros H. destruct (set_stream_bytes s' f H) as (A & _ & C & _).
  unfold set_stream at 1. rewrite A, C. reflexivity.
Qed.

(* any sequence of set_stream calls (a SerializedRequest is re-used across retries): only the last counts *)
Lemma set_stream_last ss s f : 4 <= blen f ->
  fold_left (fun g x => set_stream x g) (ss ++ [s]) f = set_stream s f.
Proof.
  intros H. revert f H. induction ss as [|x ss IH]; intros f H; [reflexivity|].
  cbn [app fold_left]. rewrite IH by (rewrite blen_set_stream; exact H).
  apply set_stream_twice. exact H.
Qed.

(* ... hence the protocol parser reads the frame after any such sequence as the same request with
   the last stream id and an otherwise unchanged header *)
Lemma set_stream_seq_parse cd alg mid f h r ss s :
  (- 2 ^ 15 <= s < 2 ^ 15)%Z -> 4 <= blen f ->
  parse_frame cd alg mid f = Ok (h, r) ->
  parse_frame cd alg mid (fold_left (fun g x => set_stream x g) (ss ++ [s]) f) = Ok (with_stream s h, r).
Proof.
  intros Hs H P. rewrite set_stream_last by exact H. apply set_stream_parse; assumption.
Qed.

(* ---------- the flag bytes: one bit per option used, nothing else ---------- *)
Definition b2n (b : bool) : N := if b then 1 else 0.
Lemma qp_flags_bits v sk pg ps sc ts :
  qp_flags v sk pg ps sc ts = b2n v + 2 * b2n sk + 4 * b2n pg + 8 * b2n ps + 16 * b2n sc + 32 * b2n ts /\
  N.testbit (qp_flags v sk pg ps sc ts) 0 = v /\ N.testbit (qp_flags v sk pg ps sc ts) 1 = sk /\
  N.testbit (qp_flags v sk pg ps sc ts) 2 = pg /\ N.testbit (qp_flags v sk pg ps sc ts) 3 = ps /\
  N.testbit (qp_flags v sk pg ps sc ts) 4 = sc /\ N.testbit (qp_flags v sk pg ps sc ts) 5 = ts.
Proof. destruct v, sk, pg, ps, sc, ts; vm_compute; repeat split. Qed.
Lemma batch_flags_bits sc ts :
  batch_flags sc ts = 16 * b2n sc + 32 * b2n ts /\
  N.testbit (batch_flags sc ts) 4 = sc /\ N.testbit (batch_flags sc ts) 5 = ts.
Proof. destruct sc, ts; vm_compute; repeat split. Qed.
Lemma frame_flags_bits c tr :
  frame_flags c tr = b2n c + 2 * b2n tr /\
  N.testbit (frame_flags c tr) 0 = c /\ N.testbit (frame_flags c tr) 1 = tr.
Proof. destruct c, tr; vm_compute; repeat split. Qed.

(* the code tables the census compares with the crate's constants: injective, in range, and the
   specification parser's tables are their inverses *)
Lemma code_tables :
  (forall a b, cons_code a = cons_code b -> a = b) /\ (forall a, cons_code a <= 10) /\
  (forall a b, serial_code a = serial_code b -> a = b) /\
  (forall a, serial_code a = 8 \/ serial_code a = 9) /\
  (forall a b, batch_type_code a = batch_type_code b -> a = b) /\ (forall a, batch_type_code a <= 2) /\
  (forall a b, event_name a = event_name b -> a = b) /\
  (forall a, p_event (event_name a) = Some a) /\
  (forall a rest, p_consistency (be 2 (cons_code a) ++ rest) = Ok (a, rest)) /\
  (forall a rest, p_serial (be 2 (serial_code a) ++ rest) = Ok (a, rest)).
Proof.
  repeat split.
  - intros [] []; vm_compute; congruence.
  - intros []; vm_compute; congruence.
  - intros [] []; vm_compute; congruence.
  - intros []; vm_compute; auto.
  - intros [] []; vm_compute; congruence.
  - intros []; vm_compute; congruence.
  - intros a b H. apply (f_equal p_event) in H. rewrite !p_event_name in H. congruence.
  - apply p_event_name.
  - intros a rest. apply reads_consistency.
  - intros a rest. apply reads_serial.
Qed.
